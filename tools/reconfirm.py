#!/usr/bin/env python3
"""tools/reconfirm.py <seeded-name>...  — re-runs only the owning property's quick check against an already
confirmed seeded change (seeded/<name>/patch.diff, private worktree via tools/seedtest.sh) and updates
meta.json: confirmed.caught_by_quick_check and the recorded check run.  The suite/demo confirmations
recorded by tools/seed_confirm.py are left as they are."""
import json, os, re, subprocess, sys
V = os.path.dirname(os.path.dirname(os.path.abspath(__file__)))
for name in sys.argv[1:]:
    d = os.path.join(V, "seeded", name)
    m = json.load(open(os.path.join(d, "meta.json")))
    prop = m["property"]
    p = subprocess.run(["tools/seedtest.sh", prop, os.path.join(d, "patch.diff")], cwd=V, stdout=subprocess.PIPE, stderr=subprocess.STDOUT, text=True)
    caught = p.returncode == 1 and ("VIOLATION property=%s" % prop in p.stdout or re.search(r"violations [1-9]", p.stdout) is not None)
    c = m.setdefault("confirmed", {})
    c["caught_by_quick_check"] = caught
    ran = [r for r in c.get("ran", []) if "bin/check" not in r.get("cmd", "")]
    ran.append({"cmd": "VERIF_REPO=<patched worktree> bin/check %s (re-run after strengthening)" % prop, "rc": p.returncode, "tail": p.stdout[-1500:]})
    c["ran"] = ran
    json.dump(m, open(os.path.join(d, "meta.json"), "w"), indent=1)
    sigs = sorted(set(re.findall(r"# (C\d\d/[^:]+):", p.stdout)))[:3]
    print(name, "caught" if caught else "MISSED", " ".join(sigs), flush=True)
