#!/bin/bash
# tools/sweep.sh <seed-from> <seed-to> [props...] — unchanged-tree sweep; appends one line per run to .build/sweep.log
cd "$(dirname "$0")/.."
from=$1; to=$2; shift 2
props=${@:-$(cat checks/READY)}
for s in $(seq $from $to); do for p in $props; do
  out=$(VERIF_SEED=$s bin/check $p 2>&1); rc=$?
  echo "$(date +%H:%M:%S) seed=$s $p rc=$rc $(echo "$out" | tail -1)" >> .build/sweep.log
  if [ $rc -ne 0 ]; then echo "$out" | grep -v KNOWN-FINDING | head -12 >> .build/sweep-failures.log; mkdir -p .build/sweep-replays; cp -r replays/$p .build/sweep-replays/$p-seed$s 2>/dev/null; fi
done; done
echo "sweep $from..$to done" >> .build/sweep.log
