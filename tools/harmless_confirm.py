#!/usr/bin/env python3
"""tools/harmless_confirm.py <Cxx> <srcdir> <name> — an independently written behaviour-preserving rewrite:
applies it in a scratch worktree of /repo's HEAD, confirms suite + equivalence demo pass, runs the quick
check against it and records whether the check stays quiet (it must) or how it alarms.
Files it under /verif/selftest/independent-harmless/<name>/."""
import json, os, shutil, subprocess, sys, re
prop, src, name = sys.argv[1], os.path.abspath(sys.argv[2]), sys.argv[3]
wt = "/tmp/seedwt-%s-%d" % (prop, os.getpid())  # private worktree per invocation
env = dict(os.environ, GOFLAGS="-mod=mod", GOPROXY="off", GOSUMDB="off", GOTOOLCHAIN="local")
def sh(cmd, cwd=None, timeout=2400):
    p = subprocess.run(cmd, shell=True, cwd=cwd, env=env, stdout=subprocess.PIPE, stderr=subprocess.STDOUT, text=True, timeout=timeout)
    return p.returncode, p.stdout
if not os.path.isdir(wt): sh("git -C /repo worktree add --detach %s HEAD -q" % wt)
def pristine(): sh("git checkout -q -- . && git clean -fdq", cwd=wt)
pristine(); sh("git checkout -q --detach $(git -C /repo rev-parse HEAD)", cwd=wt)
rc, out = sh("git apply %s/patch.diff" % src, cwd=wt); applies = rc == 0
rc, out = sh("go build ./... && go test -vet=off -count=1 ./... 2>&1 | tail -20 && (cd browsertests && go build ./...)", cwd=wt)
suite_ok = rc == 0 and "FAIL" not in out
rc, out2 = sh("bash %s/demo.sh %s" % (src, wt)); demo_ok = rc == 0
sh("git clean -fdq", cwd=wt)
rc, out3 = sh("VERIF_REPO=%s bin/check %s" % (wt, prop), cwd="/verif")
viol = [l for l in out3.splitlines() if l.startswith("VIOLATION")]
nfi = [l for l in viol if "no-failing-input-found" in l]
verdict = "quiet" if rc == 0 and not viol else ("alarm:no-failing-input-found" if viol and len(nfi) == len(viol) else "ALARM:with-replay")
pristine()
try: meta = json.load(open(os.path.join(src, "meta.json")))
except Exception as e: meta = {"note": "meta unreadable: %s" % e}
meta["property"] = prop
meta["confirmed"] = {"applies": applies, "suite_passes_with_patch": suite_ok, "equivalence_demo_passes_with_patch": demo_ok,
                     "check_verdict": verdict, "check_tail": out3[-1500:]}
print(name, json.dumps({k: v for k, v in meta["confirmed"].items() if k != "check_tail"}))
if applies and suite_ok:
    dst = os.path.join("/verif/selftest/independent-harmless", name); os.makedirs(dst, exist_ok=True)
    for f in os.listdir(src):
        if f != "meta.json": shutil.copy(os.path.join(src, f), dst)
    json.dump(meta, open(os.path.join(dst, "meta.json"), "w"), indent=1)
subprocess.run("git -C /repo worktree remove --force %s" % wt, shell=True)
