#!/bin/bash
# tools/regress.sh [seeded|harmless|all] [jobs]  — re-runs the quick check of the owning property against
# every kept seeded change (expect VIOLATION, rc 1) and every independent harmless rewrite (expect rc 0),
# each in a private worktree, and writes design/regress-<kind>.txt.  Properties run in parallel, the
# patches of one property serially (the per-property run lock would serialise them anyway).
cd /verif; KIND=${1:-all}; JOBS=${2:-6}
one_prop() {  # $1 = kind, $2 = Cxx
  kind=$1; P=$2
  if [ $kind = seeded ]; then dirs=$(ls -d seeded/$P-* 2>/dev/null); else dirs=$(ls -d selftest/independent-harmless/$P-* 2>/dev/null); fi
  for d in $dirs; do
    n=$(basename $d); Q=$P
    [ "$(jq -r '.stale // empty' $d/meta.json 2>/dev/null)" != "" ] && { echo "$n stale (does not apply to HEAD; see meta.json)"; continue; }
    # a seeded change annotated as caught by another property's check is run against that one
    if [ $kind = seeded ]; then o=$(jq -r '.confirmed.caught_by_quick_check_of // {} | to_entries | map(select(.value)) | .[0].key // empty' $d/meta.json 2>/dev/null); [ -n "$o" ] && [ "$(jq -r .confirmed.caught_by_quick_check $d/meta.json)" != true ] && Q=$o; fi
    out=$(tools/seedtest.sh $Q $d/patch.diff 2>&1); rc=$?
    sig=$(echo "$out" | grep -o "# C[0-9][0-9]/[^:]*" | sort -u | head -2 | tr '\n' ' ')
    nf=$(echo "$out" | grep -c no-failing-input-found)
    echo "$n check=$Q rc=$rc nofail=$nf $sig"
  done
}
export -f one_prop
for kind in seeded harmless; do
  [ $KIND = all ] || [ $KIND = $kind ] || continue
  seq -w 1 20 | sed 's/^/C/' | xargs -P $JOBS -I{} bash -c "one_prop $kind {}" | sort > design/regress-$kind.txt
  if [ $kind = seeded ]; then echo "seeded: $(grep -c 'rc=1' design/regress-seeded.txt) caught of $(wc -l < design/regress-seeded.txt)"; grep -v 'rc=1\|stale' design/regress-seeded.txt
  else echo "harmless: $(grep -c 'rc=0' design/regress-harmless.txt) quiet of $(wc -l < design/regress-harmless.txt)"; grep -v 'rc=0\|stale' design/regress-harmless.txt; fi
done
