package main

import (
	"bytes"
	"go/ast"
	"go/parser"
	"go/printer"
	"go/token"
	"path/filepath"
)

// parseFile parses one file of the repo (with comments).
func parseFile(e *Env, rel string) (*token.FileSet, *ast.File, error) {
	fset := token.NewFileSet()
	f, err := parser.ParseFile(fset, filepath.Join(e.Repo, rel), nil, parser.ParseComments)
	return fset, f, err
}

// src prints an AST node back to Go source text (canonical formatting).
func src(fset *token.FileSet, n ast.Node) string {
	var b bytes.Buffer
	printer.Fprint(&b, fset, n)
	return b.String()
}

// leanStr renders a Go string as a Lean string literal.
func leanStr(s string) string {
	var b bytes.Buffer
	b.WriteByte('"')
	for _, r := range s {
		switch r {
		case '"':
			b.WriteString("\\\"")
		case '\\':
			b.WriteString("\\\\")
		case '\n':
			b.WriteString("\\n")
		case '\t':
			b.WriteString("\\t")
		default:
			b.WriteRune(r)
		}
	}
	b.WriteByte('"')
	return b.String()
}
