// Generator for lean/PprofVerif/Gen/Units.lean (property C15).
//
// It type-checks /repo/internal/measurement with go/types and the *source* importer (works
// offline) and translates the composite literal that initialises `measurement.UnitTypes` into a
// Lean table: for every family its default unit and, for every unit, the canonical name, the
// alias list (in source order) and the factor as the EXACT rational value of the float64 the Go
// code multiplies by (e.g. `float64(1 << 20)` = 1048576/1, `float64(time.Hour)` =
// 3600000000000/1, `1e-9` = the nearest double, a dyadic rational).  Nothing is taken from a
// previous run; when the literal no longer has a shape this translator understands it returns
// an error (non-zero exit of the extractor => the Gen file is deleted => broken obligation).
package main

import (
	"fmt"
	"go/ast"
	"go/build"
	"go/constant"
	"go/importer"
	"go/parser"
	"go/token"
	"go/types"
	"math"
	"math/big"
	"os"
	"path/filepath"
	"sort"
	"strings"
)

func init() { register("Units.lean", genUnits) }

type unitsUnit struct {
	name    string
	aliases []string
	factor  *big.Rat
	src     string // source text of the factor expression (comment only)
}

type unitsFamily struct {
	def   unitsUnit
	units []unitsUnit
}

type unitsCtx struct {
	fset *token.FileSet
	info *types.Info
}

func genUnits(e *Env) (string, error) {
	dir := filepath.Join(e.Repo, "internal", "measurement")
	ents, err := os.ReadDir(dir)
	if err != nil {
		return "", err
	}
	fset := token.NewFileSet()
	var files []*ast.File
	var names []string
	for _, en := range ents {
		n := en.Name()
		if en.IsDir() || !strings.HasSuffix(n, ".go") || strings.HasSuffix(n, "_test.go") {
			continue
		}
		names = append(names, n)
	}
	sort.Strings(names)
	for _, n := range names {
		f, err := parser.ParseFile(fset, filepath.Join(dir, n), nil, parser.ParseComments)
		if err != nil {
			return "", fmt.Errorf("parse %s: %v", n, err)
		}
		if f.Name.Name != "measurement" {
			continue
		}
		files = append(files, f)
	}
	if len(files) == 0 {
		return "", fmt.Errorf("no Go files of package measurement in %s", dir)
	}
	info := &types.Info{Types: map[ast.Expr]types.TypeAndValue{}, Defs: map[*ast.Ident]types.Object{}, Uses: map[*ast.Ident]types.Object{}}
	var terrs []string
	// the source importer resolves module-local imports (…/pprof/profile) with `go list`, which must
	// run inside the module under inspection, not in the extractor's own module
	oldDir := build.Default.Dir
	build.Default.Dir = dir
	defer func() { build.Default.Dir = oldDir }()
	conf := types.Config{
		Importer:         importer.ForCompiler(fset, "source", nil),
		IgnoreFuncBodies: true, // the table is a package-level initialiser
		Error: func(err error) {
			if len(terrs) < 5 {
				terrs = append(terrs, err.Error())
			}
		},
	}
	pkg, _ := conf.Check("github.com/google/pprof/internal/measurement", fset, files, info)
	if pkg == nil {
		return "", fmt.Errorf("type-check failed: %s", strings.Join(terrs, "; "))
	}
	obj := pkg.Scope().Lookup("UnitTypes")
	if obj == nil {
		return "", fmt.Errorf("package-level variable UnitTypes not found")
	}
	if _, ok := obj.(*types.Var); !ok {
		return "", fmt.Errorf("UnitTypes is not a variable")
	}
	// locate the initialiser
	var init ast.Expr
	for _, f := range files {
		for _, d := range f.Decls {
			gd, ok := d.(*ast.GenDecl)
			if !ok || gd.Tok != token.VAR {
				continue
			}
			for _, sp := range gd.Specs {
				vs := sp.(*ast.ValueSpec)
				for i, id := range vs.Names {
					if info.Defs[id] == obj {
						if len(vs.Values) != len(vs.Names) {
							return "", fmt.Errorf("UnitTypes is not initialised by its own expression")
						}
						init = vs.Values[i]
					}
				}
			}
		}
	}
	if init == nil {
		return "", fmt.Errorf("UnitTypes has no initialiser expression (table built elsewhere?)")
	}
	c := &unitsCtx{fset: fset, info: info}
	lit, ok := ast.Unparen(init).(*ast.CompositeLit)
	if !ok {
		return "", fmt.Errorf("UnitTypes initialiser is not a composite literal: %s", src(fset, init))
	}
	if _, ok := info.TypeOf(lit).Underlying().(*types.Slice); !ok {
		return "", fmt.Errorf("UnitTypes is not a slice literal (type %s)", info.TypeOf(lit))
	}
	var fams []unitsFamily
	for i, el := range lit.Elts {
		if _, isKV := el.(*ast.KeyValueExpr); isKV {
			return "", fmt.Errorf("UnitTypes[%d]: indexed slice element not supported", i)
		}
		fam, err := c.family(el)
		if err != nil {
			return "", fmt.Errorf("UnitTypes[%d]: %v", i, err)
		}
		fams = append(fams, fam)
	}
	if len(fams) == 0 {
		return "", fmt.Errorf("UnitTypes is empty")
	}
	if len(terrs) > 0 {
		// errors elsewhere in the package do not matter as long as every constant of the table was
		// evaluated (each one is checked individually above); keep them as a comment.
	}
	return renderUnits(fams, terrs), nil
}

// fields returns the field-name -> expression map of a struct composite literal (keyed or positional).
func (c *unitsCtx) fields(e ast.Expr) (map[string]ast.Expr, error) {
	lit, ok := ast.Unparen(e).(*ast.CompositeLit)
	if !ok {
		return nil, fmt.Errorf("not a composite literal: %s", src(c.fset, e))
	}
	t := c.info.TypeOf(lit)
	if t == nil {
		return nil, fmt.Errorf("untyped literal %s", src(c.fset, e))
	}
	st, ok := t.Underlying().(*types.Struct)
	if !ok {
		return nil, fmt.Errorf("literal of non-struct type %s", t)
	}
	m := map[string]ast.Expr{}
	for i, el := range lit.Elts {
		if kv, ok := el.(*ast.KeyValueExpr); ok {
			id, ok := kv.Key.(*ast.Ident)
			if !ok {
				return nil, fmt.Errorf("unexpected key %s", src(c.fset, kv.Key))
			}
			m[id.Name] = kv.Value
			continue
		}
		if i >= st.NumFields() {
			return nil, fmt.Errorf("too many positional fields")
		}
		m[st.Field(i).Name()] = el
	}
	return m, nil
}

func (c *unitsCtx) family(e ast.Expr) (unitsFamily, error) {
	var fam unitsFamily
	fs, err := c.fields(e)
	if err != nil {
		return fam, err
	}
	for k := range fs {
		if k != "Units" && k != "DefaultUnit" {
			return fam, fmt.Errorf("unknown UnitType field %q", k)
		}
	}
	du, ok := fs["DefaultUnit"]
	if !ok {
		return fam, fmt.Errorf("no DefaultUnit field")
	}
	if fam.def, err = c.unit(du); err != nil {
		return fam, fmt.Errorf("DefaultUnit: %v", err)
	}
	us, ok := fs["Units"]
	if !ok {
		return fam, fmt.Errorf("no Units field")
	}
	ul, ok := ast.Unparen(us).(*ast.CompositeLit)
	if !ok {
		return fam, fmt.Errorf("Units is not a composite literal: %s", src(c.fset, us))
	}
	for i, el := range ul.Elts {
		if _, isKV := el.(*ast.KeyValueExpr); isKV {
			return fam, fmt.Errorf("Units[%d]: indexed element not supported", i)
		}
		u, err := c.unit(el)
		if err != nil {
			return fam, fmt.Errorf("Units[%d]: %v", i, err)
		}
		fam.units = append(fam.units, u)
	}
	return fam, nil
}

func (c *unitsCtx) constString(e ast.Expr) (string, error) {
	tv, ok := c.info.Types[e]
	if !ok || tv.Value == nil || tv.Value.Kind() != constant.String {
		return "", fmt.Errorf("not a constant string: %s", src(c.fset, e))
	}
	return constant.StringVal(tv.Value), nil
}

func (c *unitsCtx) unit(e ast.Expr) (unitsUnit, error) {
	var u unitsUnit
	fs, err := c.fields(e)
	if err != nil {
		return u, err
	}
	for k := range fs {
		if k != "CanonicalName" && k != "aliases" && k != "Factor" {
			return u, fmt.Errorf("unknown Unit field %q", k)
		}
	}
	cn, ok := fs["CanonicalName"]
	if !ok {
		return u, fmt.Errorf("no CanonicalName")
	}
	if u.name, err = c.constString(cn); err != nil {
		return u, err
	}
	if al, ok := fs["aliases"]; ok {
		if id, isId := ast.Unparen(al).(*ast.Ident); isId && id.Name == "nil" {
			// no aliases
		} else {
			alit, ok := ast.Unparen(al).(*ast.CompositeLit)
			if !ok {
				return u, fmt.Errorf("aliases is not a slice literal: %s", src(c.fset, al))
			}
			for _, a := range alit.Elts {
				if _, isKV := a.(*ast.KeyValueExpr); isKV {
					return u, fmt.Errorf("indexed alias element not supported")
				}
				s, err := c.constString(a)
				if err != nil {
					return u, err
				}
				u.aliases = append(u.aliases, s)
			}
		}
	}
	fe, ok := fs["Factor"]
	if !ok {
		return u, fmt.Errorf("unit %q has no Factor", u.name)
	}
	tv, ok := c.info.Types[fe]
	if !ok || tv.Value == nil {
		return u, fmt.Errorf("factor of %q is not a compile-time constant: %s", u.name, src(c.fset, fe))
	}
	fv := constant.ToFloat(tv.Value)
	if fv.Kind() != constant.Float && fv.Kind() != constant.Int {
		return u, fmt.Errorf("factor of %q is not numeric: %s", u.name, src(c.fset, fe))
	}
	// the value the Go code uses is the float64 nearest to the constant
	f64, _ := constant.Float64Val(fv)
	if math.IsInf(f64, 0) || math.IsNaN(f64) {
		return u, fmt.Errorf("factor of %q is not finite", u.name)
	}
	r := new(big.Rat)
	if r.SetFloat64(f64) == nil {
		return u, fmt.Errorf("factor of %q is not finite", u.name)
	}
	u.factor = r
	u.src = src(c.fset, fe)
	return u, nil
}

func leanBytes(s string) string {
	var b strings.Builder
	b.WriteByte('[')
	for i := 0; i < len(s); i++ {
		if i > 0 {
			b.WriteString(", ")
		}
		fmt.Fprintf(&b, "%d", s[i])
	}
	b.WriteByte(']')
	return b.String()
}

// leanComment makes a string safe inside a Lean block comment.
func leanComment(s string) string {
	s = strings.ReplaceAll(s, "-/", "- /")
	s = strings.ReplaceAll(s, "/-", "/ -")
	return strings.Map(func(r rune) rune {
		if r < 32 {
			return '?'
		}
		return r
	}, s)
}

func renderUnit(b *strings.Builder, u unitsUnit, indent string) {
	var al []string
	for _, a := range u.aliases {
		al = append(al, leanBytes(a))
	}
	num := u.factor.Num().String()
	if u.factor.Num().Sign() < 0 {
		num = "(" + num + ")"
	}
	fmt.Fprintf(b, "%s/- %s  aliases %s  factor %s -/\n", indent, leanComment(fmt.Sprintf("%q", u.name)), leanComment(fmt.Sprintf("%q", u.aliases)), leanComment(u.src))
	fmt.Fprintf(b, "%s{ name := %s, aliases := [%s], fnum := %s, fden := %s }", indent, leanBytes(u.name), strings.Join(al, ", "), num, u.factor.Denom().String())
}

func renderUnits(fams []unitsFamily, terrs []string) string {
	var b strings.Builder
	b.WriteString("/- GENERATED by /verif/tools/extract/units.go from internal/measurement (var UnitTypes).\n")
	b.WriteString("   Regenerated from the current source on every `bin/check C15`; do not edit.\n")
	b.WriteString("   Strings are Go strings = byte lists; factors are the exact rational value of the float64\n")
	b.WriteString("   the Go code multiplies by (numerator / denominator). -/\n")
	for _, e := range terrs {
		fmt.Fprintf(&b, "-- type-check note: %s\n", leanComment(e))
	}
	b.WriteString("namespace PV.Gen.Units\n\n")
	b.WriteString("structure RawUnit where\n  name : List UInt8\n  aliases : List (List UInt8)\n  fnum : Int\n  fden : Nat\n  deriving DecidableEq, Repr\n\n")
	b.WriteString("/-- one entry of `measurement.UnitTypes`; `name` is the canonical name of its default unit -/\n")
	b.WriteString("structure RawFamily where\n  name : List UInt8\n  default : RawUnit\n  units : List RawUnit\n  deriving DecidableEq, Repr\n\n")
	b.WriteString("def unitTypes : List RawFamily := [\n")
	for i, f := range fams {
		fmt.Fprintf(&b, "  { name := %s,\n    default :=\n", leanBytes(f.def.name))
		renderUnit(&b, f.def, "      ")
		b.WriteString(",\n    units := [\n")
		for j, u := range f.units {
			renderUnit(&b, u, "      ")
			if j+1 < len(f.units) {
				b.WriteString(",")
			}
			b.WriteString("\n")
		}
		b.WriteString("    ] }")
		if i+1 < len(fams) {
			b.WriteString(",")
		}
		b.WriteString("\n")
	}
	b.WriteString("]\n\nend PV.Gen.Units\n")
	return b.String()
}
