// Command extract is the translator of /verif: it reads /repo's CURRENT Go source (go/parser,
// go/types with the source importer — works offline) and regenerates the Lean fact files
// lean/PprofVerif/Gen/*.lean. bin/check runs it on every check; stale Gen files are deleted.
//
// Each generated file is produced by one generator living in its own source file and
// registered from an init() function:
//
//	func init() { register("Comparators.lean", genComparators) }
//
// A generator returns the complete text of the Lean module (module name
// PprofVerif.Gen.<File>), or an error when the source no longer has a shape it recognises —
// which bin/check reports as a broken obligation (never a silent reuse of an old file).
package main

import (
	"flag"
	"fmt"
	"os"
	"path/filepath"
	"sort"
)

// Env is what a generator gets.
type Env struct {
	Repo string // root of the pprof working tree
}

type generator func(e *Env) (string, error)

var generators = map[string]generator{}

func register(file string, g generator) { generators[file] = g }

func main() {
	repo := flag.String("repo", "/repo", "pprof working tree")
	out := flag.String("out", "", "output directory")
	only := flag.String("only", "", "generate only this file")
	flag.Parse()
	if *out == "" {
		fmt.Fprintln(os.Stderr, "extract: -out required")
		os.Exit(2)
	}
	os.MkdirAll(*out, 0o755)
	var names []string
	for n := range generators {
		names = append(names, n)
	}
	sort.Strings(names)
	failed := false
	for _, n := range names {
		if *only != "" && *only != n {
			continue
		}
		txt, err := generators[n](&Env{Repo: *repo})
		if err != nil {
			fmt.Fprintf(os.Stderr, "extract: %s: %v\n", n, err)
			failed = true
			continue
		}
		if err := os.WriteFile(filepath.Join(*out, n), []byte(txt), 0o644); err != nil {
			fmt.Fprintf(os.Stderr, "extract: %s: %v\n", n, err)
			failed = true
		}
	}
	if failed {
		os.Exit(1)
	}
}
