// Generator for Gen/MapRanges.lean (property C08).
//
// Lists every `range` over a MAP in internal/graph, internal/report and internal/driver whose body
// feeds something order-sensitive:
//
//	append                the body appends to a slice (directly or to a slice stored in a map/field)
//	write:<callee>        the body writes output (fmt.Fprint*, fmt.Print*, Write, WriteString)
//	concat:string         the body concatenates onto a string
//	floatsum:<type>       the body accumulates a floating-point sum (addition is not associative)
//	pick:return           the body returns a value derived from the iteration variables
//	pick:first-element    s[0] of a slice collected in the walk is read before the slice is sorted
//	pick:assign           the body overwrites a variable declared outside the loop with a value derived from
//	                      the iteration variables (last — or with a break, first — element wins)
//	delete                the body deletes map entries (what is deleted may depend on earlier deletions)
//
// and, for append sinks, what happens to the slice afterwards in the same function, in source
// order (`flows`): sort calls, other callees that receive it, `return`.  `sorted` = a sort call
// (sort.*, slices.Sort*, a method named Sort, or a function of these packages that passes that
// parameter to a sort — computed as a fixpoint) is reached before any output call.
//
// `total` = that sort is a total order: a sort by value (sort.Strings/Ints/Float64s, slices.Sort), one of
// the three sorts whose comparators Props/C08.lean proves (SortTags, EdgeMap.Sort, Nodes.Sort), a function
// that hands the parameter to such a sort, or — for a helper that returns the slice — such a sort in
// every caller.  An `append` site with sorted ∧ total is order-irrelevant WHEREVER it sits and needs no
// review; all other sites (custom comparator, unsorted, other kinds) are compared with the reviewed list.
// Compared records carry the file, the function, the sink, `sorted`, `total` and `returned`
// only — no local variable names, no line numbers, no callee names (those go into a comment) — so
// that renaming locals, moving code or sorting with another routine does not change them.  The hand-reviewed expectation lives in
// lean/PprofVerif/Spec/MapRangesExpected.lean; Props/C08.lean compares the two lists by `decide`.
package main

import (
	"bytes"
	"fmt"
	"go/ast"
	"go/importer"
	"go/parser"
	"go/token"
	"go/types"
	"io"
	"os"
	"os/exec"
	"path/filepath"
	"sort"
	"strings"
)

func init() { register("MapRanges.lean", genMapRanges) }

const modPrefix = "github.com/google/pprof/"

var mapRangePkgs = []string{"internal/graph", "internal/report", "internal/driver", "profile"}

type loadedPkg struct {
	rel   string
	fset  *token.FileSet
	files []*ast.File
	names []string // file names, parallel to files
	info  *types.Info
}

// loadTyped type-checks the given packages of the repo from source; imports are satisfied from
// export data produced by `go list -export` (build cache; works offline).
func loadTyped(e *Env, rels []string) ([]*loadedPkg, error) {
	args := []string{"list", "-export", "-deps", "-f", "{{.ImportPath}}\t{{.Export}}\t{{.Dir}}\t{{range .GoFiles}}{{.}},{{end}}"}
	for _, r := range rels {
		args = append(args, "./"+r)
	}
	cmd := exec.Command("go", args...)
	cmd.Dir = e.Repo
	var stderr bytes.Buffer
	cmd.Stderr = &stderr
	out, err := cmd.Output()
	if err != nil {
		return nil, fmt.Errorf("go list -export failed (the tree does not build?): %v\n%s", err, stderr.String())
	}
	export := map[string]string{}
	dirs := map[string]string{}
	gofiles := map[string][]string{}
	for _, line := range strings.Split(strings.TrimSpace(string(out)), "\n") {
		f := strings.Split(line, "\t")
		if len(f) != 4 {
			continue
		}
		export[f[0]] = f[1]
		dirs[f[0]] = f[2]
		gofiles[f[0]] = strings.Split(strings.TrimSuffix(f[3], ","), ",")
	}
	fset := token.NewFileSet()
	imp := importer.ForCompiler(fset, "gc", func(path string) (io.ReadCloser, error) {
		p, ok := export[path]
		if !ok || p == "" {
			return nil, fmt.Errorf("no export data for %s", path)
		}
		return os.Open(p)
	})
	var res []*loadedPkg
	for _, r := range rels {
		ip := modPrefix + r
		dir, ok := dirs[ip]
		if !ok {
			return nil, fmt.Errorf("package %s not found by go list", ip)
		}
		lp := &loadedPkg{rel: r, fset: fset}
		for _, fn := range gofiles[ip] {
			if fn == "" {
				continue
			}
			f, err := parseInto(fset, filepath.Join(dir, fn))
			if err != nil {
				return nil, err
			}
			lp.files = append(lp.files, f)
			lp.names = append(lp.names, fn)
		}
		lp.info = &types.Info{Types: map[ast.Expr]types.TypeAndValue{}, Uses: map[*ast.Ident]types.Object{}, Defs: map[*ast.Ident]types.Object{}, Selections: map[*ast.SelectorExpr]*types.Selection{}}
		var terrs []string
		cfg := types.Config{Importer: imp, Error: func(err error) { terrs = append(terrs, err.Error()) }}
		cfg.Check(ip, fset, lp.files, lp.info)
		if len(terrs) > 0 {
			if len(terrs) > 5 {
				terrs = terrs[:5]
			}
			return nil, fmt.Errorf("type errors in %s: %s", r, strings.Join(terrs, "; "))
		}
		res = append(res, lp)
	}
	return res, nil
}

func parseInto(fset *token.FileSet, path string) (*ast.File, error) {
	return parser.ParseFile(fset, path, nil, parser.ParseComments)
}

type mrSite struct {
	file, fn, mapType, sink string
	fnObj                   types.Object
	sinkType                string // of an append sink; comment only (a rewrite may change the slice type)
	sorted                  bool
	total                   bool // sorted by a total order (value sort or a comparator proved in Props/C08.lean)
	flows                   []string
	line                    int
	over                    string
}

func shortName(s string) string { return strings.ReplaceAll(s, modPrefix, "") }

func typeStr(t types.Type) string {
	return types.TypeString(t, func(p *types.Package) string { return shortName(p.Path()) })
}

// calleeName gives a stable name for the function a call invokes ("" for builtins/conversions).
func calleeName(info *types.Info, call *ast.CallExpr) string {
	fun := call.Fun
	for {
		if p, ok := fun.(*ast.ParenExpr); ok {
			fun = p.X
			continue
		}
		break
	}
	if tv, ok := info.Types[fun]; ok && tv.IsType() {
		return "" // conversion
	}
	switch f := fun.(type) {
	case *ast.Ident:
		switch o := info.Uses[f].(type) {
		case *types.Func:
			return shortName(o.FullName())
		case *types.Builtin:
			return ""
		case *types.Var:
			return "closure"
		}
		return ""
	case *ast.SelectorExpr:
		if sel, ok := info.Selections[f]; ok {
			if fn, ok := sel.Obj().(*types.Func); ok {
				return shortName(fn.FullName())
			}
			return "closure" // func-typed field
		}
		if o, ok := info.Uses[f.Sel].(*types.Func); ok {
			return shortName(o.FullName())
		}
		return "closure"
	case *ast.FuncLit:
		return "closure"
	}
	return "closure"
}

// Sorts by VALUE are total orders up to identical elements: the result does not depend on the input
// order.  So are the three sorts whose comparators the translator (comparators.go) turns into data and
// Props/C08.lean proves strict and total on identity: graph.SortTags, EdgeMap.Sort, Nodes.Sort.
var totalSorts = map[string]bool{"sort.Strings": true, "sort.Ints": true, "sort.Float64s": true, "slices.Sort": true,
	"internal/graph.SortTags": true, "(internal/graph.EdgeMap).Sort": true, "(internal/graph.Nodes).Sort": true}

// Sorts with a caller-supplied comparator: whether the order is total has to be reviewed by hand.
var customSorts = map[string]bool{"sort.Sort": true, "sort.Stable": true, "sort.Slice": true, "sort.SliceStable": true,
	"slices.SortFunc": true, "slices.SortStableFunc": true}

// flow markers: "SORT:" a total sort, "SORTC:" a sort with a custom comparator
func sortStrength(name string, viaParam int) (marker string) {
	switch {
	case totalSorts[name] || viaParam == 2:
		return "SORT:"
	case customSorts[name] || viaParam == 1:
		return "SORTC:"
	}
	return ""
}

func isOutputCallee(n string) bool {
	return strings.HasPrefix(n, "fmt.Fprint") || strings.HasPrefix(n, "fmt.Print") || n == "io.WriteString" ||
		strings.HasSuffix(n, ").Write") || strings.HasSuffix(n, ").WriteString") || strings.HasSuffix(n, ").WriteByte") || strings.HasSuffix(n, ").WriteRune")
}

// mentions reports whether expr mentions one of the objects (selector field names do not count).
func mentions(info *types.Info, e ast.Node, objs map[types.Object]bool) bool {
	found := false
	ast.Inspect(e, func(n ast.Node) bool {
		if found {
			return false
		}
		if id, ok := n.(*ast.Ident); ok {
			if o := info.Uses[id]; o != nil && objs[o] {
				found = true
			}
			if o := info.Defs[id]; o != nil && objs[o] {
				found = true
			}
		}
		return !found
	})
	return found
}

// aliasing: may the value of e share the slice mentioned inside it (as opposed to a value computed
// from it by a call)?
func aliasing(info *types.Info, e ast.Expr) bool {
	switch x := e.(type) {
	case *ast.ParenExpr:
		return aliasing(info, x.X)
	case *ast.Ident, *ast.IndexExpr, *ast.SliceExpr, *ast.SelectorExpr, *ast.CompositeLit, *ast.StarExpr:
		return true
	case *ast.UnaryExpr:
		return x.Op == token.AND
	case *ast.CallExpr:
		if tv, ok := info.Types[x.Fun]; ok && tv.IsType() {
			return true
		}
		if id, ok := x.Fun.(*ast.Ident); ok && id.Name == "append" {
			_, isB := info.Uses[id].(*types.Builtin)
			return isB
		}
	}
	return false
}

func baseIdent(e ast.Expr) *ast.Ident {
	for {
		switch x := e.(type) {
		case *ast.Ident:
			return x
		case *ast.IndexExpr:
			e = x.X
		case *ast.SelectorExpr:
			e = x.X
		case *ast.ParenExpr:
			e = x.X
		case *ast.StarExpr:
			e = x.X
		case *ast.SliceExpr:
			e = x.X
		default:
			return nil
		}
	}
}

type sortParam struct {
	fn  string
	idx int // -1 = receiver
}

// trackAfter walks the nodes of body positioned after `from` in source order, following aliases of
// the objects in objs; it returns the callees that receive an alias (sort calls included), and
// "return" when an alias is returned.
func trackAfter(info *types.Info, body *ast.BlockStmt, from token.Pos, objs map[types.Object]bool, sorting map[sortParam]int) (flows []string) {
	add := func(s string) {
		for _, f := range flows {
			if f == s {
				return
			}
		}
		flows = append(flows, s)
	}
	ast.Inspect(body, func(n ast.Node) bool {
		if n == nil {
			return false
		}
		if n.End() <= from {
			return false // entirely before
		}
		switch x := n.(type) {
		case *ast.AssignStmt:
			if x.Pos() >= from {
				for i, r := range x.Rhs {
					if aliasing(info, r) && mentions(info, r, objs) {
						// append(alias, …) assigned to something else, y := alias[k], y := T{alias}, …
						if len(x.Lhs) == len(x.Rhs) {
							if id := baseIdent(x.Lhs[i]); id != nil {
								if o := info.Defs[id]; o != nil {
									objs[o] = true
								} else if o := info.Uses[id]; o != nil {
									objs[o] = true
								}
							}
						}
					}
				}
			}
		case *ast.RangeStmt:
			// for _, y := range alias { … }: y is an element, not the slice; do not alias
		case *ast.ReturnStmt:
			if x.Pos() >= from {
				for _, r := range x.Results {
					if mentions(info, r, objs) {
						add("return")
					}
				}
			}
		case *ast.IndexExpr:
			// s[0]: an arbitrary representative if s is still in map order
			if x.Pos() >= from {
				if bl, ok := x.Index.(*ast.BasicLit); ok && bl.Value == "0" && mentions(info, x.X, objs) {
					add("INDEX0")
				}
			}
		case *ast.CallExpr:
			if x.Pos() >= from {
				name := calleeName(info, x)
				if name != "" {
					hit := false
					marker := ""
					better := func(m string) {
						if m == "SORT:" || (m == "SORTC:" && marker == "") {
							marker = m
						}
					}
					if sel, ok := x.Fun.(*ast.SelectorExpr); ok {
						if _, isMethod := info.Selections[sel]; isMethod && mentions(info, sel.X, objs) {
							hit = true
							better(sortStrength(name, sorting[sortParam{name, -1}]))
							if marker == "" && sel.Sel.Name == "Sort" {
								marker = "SORTC:" // some other Sort method: comparator unknown
							}
						}
					}
					for i, a := range x.Args {
						if mentions(info, a, objs) {
							hit = true
							better(sortStrength(name, sorting[sortParam{name, i}]))
						}
					}
					if hit {
						add(marker + name)
					}
				}
			}
		}
		return true
	})
	return flows
}

// sortingParams: which (function, parameter) pairs of these packages hand the parameter to a sort.
func sortingParams(pkgs []*loadedPkg) map[sortParam]int {
	res := map[sortParam]int{} // 1 = reaches a custom sort, 2 = reaches a total sort
	for round := 0; round < 6; round++ {
		changed := false
		for _, p := range pkgs {
			for _, f := range p.files {
				for _, d := range f.Decls {
					fd, ok := d.(*ast.FuncDecl)
					if !ok || fd.Body == nil {
						continue
					}
					fo, ok := p.info.Defs[fd.Name].(*types.Func)
					if !ok {
						continue
					}
					name := shortName(fo.FullName())
					check := func(id *ast.Ident, idx int) {
						if id == nil || id.Name == "_" || res[sortParam{name, idx}] == 2 {
							return
						}
						o := p.info.Defs[id]
						if o == nil {
							return
						}
						// only slices and maps can be "sorted before output"
						switch o.Type().Underlying().(type) {
						case *types.Slice, *types.Map:
						default:
							return
						}
						for _, fl := range trackAfter(p.info, fd.Body, fd.Body.Pos(), map[types.Object]bool{o: true}, res) {
							st := 0
							if strings.HasPrefix(fl, "SORT:") {
								st = 2
							} else if strings.HasPrefix(fl, "SORTC:") {
								st = 1
								if totalSorts[name] { // the body of a verified sorter: its sort.Sort IS the verified order
									st = 2
								}
							}
							if st > 0 {
								if st > res[sortParam{name, idx}] {
									res[sortParam{name, idx}] = st
									changed = true
								}
								return
							}
							if isOutputCallee(fl) {
								return
							}
						}
					}
					if fd.Recv != nil && len(fd.Recv.List) == 1 && len(fd.Recv.List[0].Names) == 1 {
						check(fd.Recv.List[0].Names[0], -1)
					}
					i := 0
					for _, fld := range fd.Type.Params.List {
						if len(fld.Names) == 0 {
							i++
						}
						for _, n := range fld.Names {
							check(n, i)
							i++
						}
					}
				}
			}
		}
		if !changed {
			break
		}
	}
	return res
}

// judgeFlows: is the first thing that happens to the slice a sort (before any output call), and is
// that sort total?  inFn = the enclosing function (the body of a verified sorter sorts by its verified order).
func judgeFlows(flows []string, inFn string) (sorted, total bool) {
	for _, fl := range flows {
		switch {
		case strings.HasPrefix(fl, "SORT:"):
			return true, true
		case strings.HasPrefix(fl, "SORTC:"):
			return true, totalSorts[inFn]
		case isOutputCallee(fl):
			return false, false
		}
	}
	return false, false
}

// callsObj: does the call invoke exactly this function or method?
func callsObj(info *types.Info, call *ast.CallExpr, obj types.Object) bool {
	switch f := call.Fun.(type) {
	case *ast.Ident:
		return info.Uses[f] == obj
	case *ast.SelectorExpr:
		if sel, ok := info.Selections[f]; ok {
			return sel.Obj() == obj
		}
		return info.Uses[f.Sel] == obj
	}
	return false
}

func funcDisplayName(fd *ast.FuncDecl) string {
	if r := recvTypeName(fd); r != "" {
		return r + "." + fd.Name.Name
	}
	return fd.Name.Name
}

func genMapRanges(e *Env) (string, error) {
	pkgs, err := loadTyped(e, mapRangePkgs)
	if err != nil {
		return "", err
	}
	sorting := sortingParams(pkgs)
	var sites []mrSite
	for _, p := range pkgs {
		order := make([]int, len(p.files))
		for i := range order {
			order[i] = i
		}
		sort.Slice(order, func(a, b int) bool { return p.names[order[a]] < p.names[order[b]] })
		for _, fi := range order {
			f := p.files[fi]
			for _, d := range f.Decls {
				fd, ok := d.(*ast.FuncDecl)
				if !ok || fd.Body == nil {
					continue
				}
				fnFull := ""
				if fo, ok := p.info.Defs[fd.Name].(*types.Func); ok {
					fnFull = fo.FullName()
				}
				// slices.Collect(maps.Keys(m)) / maps.Values(m): a slice in map order, exactly like
				// `for k := range m { s = append(s, k) }`
				var stack []ast.Node
				ast.Inspect(fd.Body, func(n ast.Node) bool {
					if n == nil {
						stack = stack[:len(stack)-1]
						return true
					}
					stack = append(stack, n)
					call, ok := n.(*ast.CallExpr)
					if !ok || calleeName(p.info, call) != "slices.Collect" || len(call.Args) != 1 {
						return true
					}
					inner, ok := call.Args[0].(*ast.CallExpr)
					if !ok || len(inner.Args) != 1 {
						return true
					}
					if in := calleeName(p.info, inner); in != "maps.Keys" && in != "maps.Values" {
						return true
					}
					st := mrSite{file: p.rel + "/" + p.names[fi], fn: funcDisplayName(fd), line: p.fset.Position(call.Pos()).Line,
						over: src(p.fset, inner.Args[0]), sink: "append (slices.Collect of the map's keys/values)", fnObj: p.info.Defs[fd.Name]}
					if tv, ok := p.info.Types[inner.Args[0]]; ok {
						st.mapType = typeStr(tv.Type)
					}
					if tv, ok := p.info.Types[call]; ok {
						st.sinkType = typeStr(tv.Type)
					}
					var parent ast.Node
					if len(stack) >= 2 {
						parent = stack[len(stack)-2]
					}
					switch par := parent.(type) {
					case *ast.AssignStmt:
						for i, r := range par.Rhs {
							if r == ast.Expr(call) && len(par.Lhs) == len(par.Rhs) {
								if id := baseIdent(par.Lhs[i]); id != nil {
									var o types.Object
									if o = p.info.Defs[id]; o == nil {
										o = p.info.Uses[id]
									}
									if o != nil {
										st.flows = trackAfter(p.info, fd.Body, par.End(), map[types.Object]bool{o: true}, sorting)
									}
								}
							}
						}
					case *ast.ReturnStmt:
						st.flows = []string{"return"}
					case *ast.CallExpr:
						name := calleeName(p.info, par)
						for i, a := range par.Args {
							if a == ast.Expr(call) {
								st.flows = []string{sortStrength(name, sorting[sortParam{name, i}]) + name}
							}
						}
					default:
						st.flows = []string{"used in place (range, index, …)"}
					}
					st.sorted, st.total = judgeFlows(st.flows, shortName(fnFull))
					sites = append(sites, st)
					return true
				})
				ast.Inspect(fd.Body, func(n ast.Node) bool {
					rs, ok := n.(*ast.RangeStmt)
					if !ok {
						return true
					}
					tv, ok := p.info.Types[rs.X]
					if !ok {
						return true
					}
					mt, ok := tv.Type.Underlying().(*types.Map)
					if !ok {
						return true
					}
					iter := map[types.Object]bool{}
					for _, kv := range []ast.Expr{rs.Key, rs.Value} {
						if id, ok := kv.(*ast.Ident); ok && id.Name != "_" {
							if o := p.info.Defs[id]; o != nil {
								iter[o] = true
							}
						}
					}
					base := mrSite{file: p.rel + "/" + p.names[fi], fn: funcDisplayName(fd), mapType: typeStr(mt),
						line: p.fset.Position(rs.Pos()).Line, over: src(p.fset, rs.X)}
					seenSink := map[string]bool{}
					emit := func(s mrSite) {
						key := s.sink + "|" + s.sinkType + "|" + strings.Join(s.flows, ",")
						if seenSink[key] {
							return
						}
						seenSink[key] = true
						sites = append(sites, s)
					}
					ast.Inspect(rs.Body, func(m ast.Node) bool {
						switch x := m.(type) {
						case *ast.FuncLit:
							return false
						case *ast.AssignStmt:
							// x = append(x, …)
							if len(x.Lhs) == 1 && len(x.Rhs) == 1 {
								if call, ok := x.Rhs[0].(*ast.CallExpr); ok {
									if id, ok := call.Fun.(*ast.Ident); ok && id.Name == "append" {
										if _, isB := p.info.Uses[id].(*types.Builtin); isB {
											s := base
											lt := p.info.Types[x.Lhs[0]].Type
											if lt == nil {
												if id := baseIdent(x.Lhs[0]); id != nil && p.info.Defs[id] != nil {
													lt = p.info.Defs[id].Type()
												}
											}
											s.sink = "append"
											s.sinkType = typeStr(lt)
											if _, indexed := x.Lhs[0].(*ast.IndexExpr); indexed {
												ix := x.Lhs[0].(*ast.IndexExpr)
												if mentions(p.info, ix.Index, iter) {
													s.sink += " (slot keyed by the iteration variable)"
												} else {
													s.sink += " (indexed slot)"
												}
											}
											objs := map[types.Object]bool{}
											if id := baseIdent(x.Lhs[0]); id != nil {
												if o := p.info.Uses[id]; o != nil {
													objs[o] = true
												} else if o := p.info.Defs[id]; o != nil {
													objs[o] = true
												}
											}
											flows := trackAfter(p.info, fd.Body, rs.End(), objs, sorting)
											// named results are returned implicitly
											if fd.Type.Results != nil {
												for _, fld := range fd.Type.Results.List {
													for _, rn := range fld.Names {
														if o := p.info.Defs[rn]; o != nil && objs[o] {
															flows = append(flows, "return")
														}
													}
												}
											}
											s.sorted, s.total = judgeFlows(flows, shortName(fnFull))
											s.flows = flows
											s.fnObj = p.info.Defs[fd.Name]
											emit(s)
											for _, fl := range flows {
												if strings.HasPrefix(fl, "SORT") {
													break
												}
												if fl == "INDEX0" {
													// the first element of a slice still in map order is read
													fs := base
													fs.sink = "pick:first-element"
													emit(fs)
													break
												}
											}
										}
									}
								}
							}
							if (x.Tok == token.ADD_ASSIGN || x.Tok == token.SUB_ASSIGN) && len(x.Lhs) == 1 {
								if t := p.info.Types[x.Lhs[0]].Type; t != nil {
									if b, ok := t.Underlying().(*types.Basic); ok {
										s := base
										switch {
										case b.Info()&types.IsFloat != 0:
											s.sink = "floatsum:" + typeStr(t)
											emit(s)
										case b.Info()&types.IsString != 0:
											s.sink = "concat:string"
											emit(s)
										}
									}
								}
							}
						case *ast.ExprStmt:
							if call, ok := x.X.(*ast.CallExpr); ok {
								if id, ok := call.Fun.(*ast.Ident); ok && id.Name == "delete" && len(call.Args) == 2 {
									if _, isB := p.info.Uses[id].(*types.Builtin); isB {
										// deleting from a map inside a map walk: whether an element is deleted may depend on
										// what earlier iterations deleted, i.e. on the iteration order
										s := base
										s.sink = "delete"
										if src(p.fset, call.Args[0]) == src(p.fset, rs.X) {
											s.sink = "delete (from the ranged map)"
										}
										emit(s)
									}
								}
								if n := calleeName(p.info, call); isOutputCallee(n) {
									s := base
									s.sink = "write:" + n
									emit(s)
								}
							}
						case *ast.ReturnStmt:
							for _, r := range x.Results {
								if mentions(p.info, r, iter) {
									s := base
									s.sink = "pick:return"
									emit(s)
									break
								}
							}
						}
						return true
					})
					// pick:assign — a variable declared OUTSIDE the loop is overwritten (plain `=`) with a value
					// derived from the iteration variables: after the loop it holds the value of the last
					// iteration (or, with a break, of the first), i.e. an arbitrary element of the map.
					ast.Inspect(rs.Body, func(m ast.Node) bool {
						if _, ok := m.(*ast.FuncLit); ok {
							return false
						}
						as, ok := m.(*ast.AssignStmt)
						if !ok || as.Tok != token.ASSIGN || len(as.Lhs) != len(as.Rhs) {
							return true
						}
						for i, l := range as.Lhs {
							id, ok := l.(*ast.Ident)
							if !ok || id.Name == "_" {
								continue
							}
							o := p.info.Uses[id]
							if o == nil || (o.Pos() >= rs.Pos() && o.Pos() <= rs.End()) {
								continue // declared inside the loop
							}
							if _, isVar := o.(*types.Var); !isVar {
								continue
							}
							if call, ok := as.Rhs[i].(*ast.CallExpr); ok {
								if fid, ok := call.Fun.(*ast.Ident); ok && fid.Name == "append" {
									continue // x = append(x, …) is the append sink
								}
							}
							if mentions(p.info, as.Rhs[i], iter) {
								s := base
								s.sink = "pick:assign"
								emit(s)
							}
						}
						return true
					})
					return true
				})
			}
		}
	}

	// A helper that RETURNS the collected slice unsorted is as good as sorted if every caller (in these
	// packages) hands the result to a total sort before any output.
	for k := range sites {
		st := &sites[k]
		if st.sorted || st.fnObj == nil || !strings.HasPrefix(st.sink, "append") {
			continue
		}
		ret := false
		for _, f := range st.flows {
			if f == "return" {
				ret = true
			}
		}
		if !ret {
			continue
		}
		ncalls, allTotal := 0, true
		for _, p := range pkgs {
			for _, f := range p.files {
				for _, d := range f.Decls {
					fd, ok := d.(*ast.FuncDecl)
					if !ok || fd.Body == nil {
						continue
					}
					caller := ""
					if fo, ok := p.info.Defs[fd.Name].(*types.Func); ok {
						caller = shortName(fo.FullName())
					}
					ast.Inspect(fd.Body, func(n ast.Node) bool {
						as, ok := n.(*ast.AssignStmt)
						if ok {
							for i, r := range as.Rhs {
								call, ok := r.(*ast.CallExpr)
								if !ok || !callsObj(p.info, call, st.fnObj) {
									continue
								}
								ncalls++
								good := false
								if len(as.Lhs) == len(as.Rhs) {
									if id := baseIdent(as.Lhs[i]); id != nil {
										var o types.Object
										if o = p.info.Defs[id]; o == nil {
											o = p.info.Uses[id]
										}
										if o != nil {
											_, good = judgeFlows(trackAfter(p.info, fd.Body, as.End(), map[types.Object]bool{o: true}, sorting), caller)
										}
									}
								}
								if !good {
									allTotal = false
								}
							}
							return true
						}
						// any other use of the call (argument, return value, …)
						if call, ok := n.(*ast.CallExpr); ok {
							for i, a := range call.Args {
								if inner, ok := a.(*ast.CallExpr); ok && callsObj(p.info, inner, st.fnObj) {
									ncalls++
									if sortStrength(calleeName(p.info, call), sorting[sortParam{calleeName(p.info, call), i}]) != "SORT:" {
										allTotal = false
									}
								}
							}
						}
						if r, ok := n.(*ast.ReturnStmt); ok {
							for _, e := range r.Results {
								if inner, ok := e.(*ast.CallExpr); ok && callsObj(p.info, inner, st.fnObj) {
									ncalls++
									allTotal = false // handed on unsorted once more: needs review
								}
							}
						}
						return true
					})
				}
			}
		}
		if ncalls > 0 && allTotal {
			st.sorted, st.total = true, true
			st.flows = append(st.flows, "SORT: in every caller")
		}
	}

	var b strings.Builder
	b.WriteString("import PprofVerif.Model.MapRange\n")
	b.WriteString("/-! REGENERATED by tools/extract (mapranges.go) on every `bin/check C08` — do not edit.\n")
	b.WriteString("Every `range` over a map in " + strings.Join(mapRangePkgs, ", ") + " whose body appends to a slice, writes\noutput, concatenates a string, accumulates a float or returns an iteration value. -/\n")
	b.WriteString("namespace PV.Gen.MapRanges\nopen PV.MapRange\n\ndef sites : List Site := [\n")
	for i, s := range sites {
		sep := ","
		if i == len(sites)-1 {
			sep = ""
		}
		returned := false
		for _, f := range s.flows {
			if f == "return" {
				returned = true
			}
		}
		fmt.Fprintf(&b, "  -- line %d: range %s (%s)   %s   then: %s\n", s.line, strings.Join(strings.Fields(s.over), " "), s.mapType, s.sinkType, strings.Join(s.flows, ", "))
		kind := s.sink
		if i := strings.IndexAny(kind, ": "); i >= 0 {
			kind = kind[:i]
		}
		fmt.Fprintf(&b, "  { file := %s, fn := %s, kind := .%s, sink := %s, sorted := %v, total := %v, returned := %v }%s\n",
			leanStr(s.file), leanStr(s.fn), kind, leanStr(s.sink), s.sorted, s.total, returned, sep)
	}
	b.WriteString("]\n\nend PV.Gen.MapRanges\n")
	return b.String(), nil
}
