// Generator for lean/PprofVerif/Gen/CodecSchema.lean (properties C01 and C02).
//
// It reads /repo/profile/encode.go and /repo/profile/proto.go with go/parser (go/ast only, no
// type checking) and translates the WIRE SCHEMA of the profile codec into Lean data:
//
//	(a) for every type with an `encode(b *buffer)` method: the ordered statements of that method —
//	    (field tag, encoder function, Go field) — loops over repeated messages and the guarded
//	    PeriodType message being kinds of their own;
//	(b) for every `xxxDecoder` table: per index the decode function and the target field; closures
//	    that are not a plain `return decodeXxx(b, &m.(*T).f)` are recognised by comparing their
//	    printed, alpha-normalised body with the pinned shapes below;
//	(c) from proto.go: the packed-encoding threshold, the varint byte limit, the field/type split,
//	    the wire types decodeField accepts and the sizes it reads for the fixed-width types;
//	(d) from preEncode/postDecode: the order in which preEncode interns strings (every
//	    addString call with its enclosing loop/if headers) and the dense id-table bounds.
//
// Names of receivers, parameters and locals do not matter: before anything is printed, the receiver
// is renamed `p`, parameters positionally (`b`, `m`, or `a0…`), locals declared by a top-level
// statement of the function `g0, g1, …` and all other locals `v0, v1, …` (numbered per top-level
// statement).  Formatting does not matter either: statements are printed one by one by go/printer
// and white space is collapsed.  A source shape that is not recognised makes the generator return
// an error (extractor exits non-zero ⇒ the Gen file is deleted ⇒ broken obligation).
package main

import (
	"bytes"
	"fmt"
	"go/ast"
	"go/printer"
	"go/token"
	"regexp"
	"strconv"
	"strings"
)

func init() { register("CodecSchema.lean", genCodecSchema) }

type csEnc struct {
	tag     int
	fn      string
	field   string
	guard   string
	nonZero []string
}

type csDec struct {
	index int
	fn    string
	recv  string
	field string
	msg   string
}

type csMsg struct {
	name   string
	decVar string
	enc    []csEnc
	dec    []csDec
}

type csSite struct{ ctx, arg string }

type csDense struct {
	elem, table string
	extra       int
	guarded     int
}

type csProto struct {
	packedCondU, packedCondI string
	packedU, packedI         int
	varintCond               string
	varintLimit              int
	fieldShift, typeMask     int
	wireTypes                []int
	defaultRejects           bool
	fixedSizes               [][2]int
}

type csCtx struct{ fset *token.FileSet }

var csSpace = regexp.MustCompile(`\s+`)

// text prints a node and collapses white space, so that line breaks of the source do not matter.
func (c *csCtx) text(n ast.Node) string {
	var b bytes.Buffer
	printer.Fprint(&b, c.fset, n)
	s := strings.TrimSpace(csSpace.ReplaceAllString(b.String(), " "))
	s = strings.ReplaceAll(s, "( ", "(")
	s = strings.ReplaceAll(s, ", )", ")")
	s = strings.ReplaceAll(s, " )", ")")
	return s
}

// stmts prints the statements of a block one by one, joined by "; ".
func (c *csCtx) stmts(b *ast.BlockStmt) string {
	var parts []string
	for _, s := range b.List {
		parts = append(parts, c.text(s))
	}
	return strings.Join(parts, "; ")
}

// normalize alpha-renames the variables of one function: `fixed` names the receiver/parameters;
// range variables are named after the number of enclosing loops (`i<d>` for the key, `x<d>` for the
// value); locals declared by a top-level statement become g0, g1, …; other locals v0, v1, … per
// top-level statement.  (go/parser resolves local identifiers to *ast.Object; selectors are not
// resolved.)
func csNormalize(fixed map[*ast.Object]string, body *ast.BlockStmt) {
	names := map[*ast.Object]string{}
	for o, n := range fixed {
		names[o] = n
	}
	g := 0
	for _, st := range body.List {
		v := 0
		topLevel := func(o *ast.Object) bool {
			switch s := st.(type) {
			case *ast.AssignStmt:
				return o.Decl == s
			case *ast.DeclStmt:
				if gd, ok := s.Decl.(*ast.GenDecl); ok {
					for _, sp := range gd.Specs {
						if o.Decl == sp {
							return true
						}
					}
				}
			}
			return false
		}
		var stack []ast.Node
		ast.Inspect(st, func(n ast.Node) bool {
			if n == nil {
				stack = stack[:len(stack)-1]
				return true
			}
			stack = append(stack, n)
			id, ok := n.(*ast.Ident)
			if !ok || id.Name == "_" || id.Obj == nil || id.Obj.Kind != ast.Var {
				return true
			}
			if nm, ok := names[id.Obj]; ok {
				id.Name = nm
				return true
			}
			if p := id.Obj.Pos(); p < body.Pos() || p > body.End() {
				return true // package-level variable
			}
			var nm string
			depth := 0
			for _, s := range stack[:len(stack)-1] {
				switch s.(type) {
				case *ast.RangeStmt, *ast.ForStmt:
					depth++
				}
			}
			rs, inRange := (ast.Node)(nil), false
			if len(stack) >= 2 {
				rs = stack[len(stack)-2]
			}
			if r, ok := rs.(*ast.RangeStmt); ok && r.Tok == token.DEFINE && (r.Key == ast.Expr(id) || r.Value == ast.Expr(id)) {
				inRange = true
				if r.Key == ast.Expr(id) {
					nm = fmt.Sprintf("i%d", depth-1)
				} else {
					nm = fmt.Sprintf("x%d", depth-1)
				}
			}
			if !inRange {
				if topLevel(id.Obj) {
					nm = fmt.Sprintf("g%d", g)
					g++
				} else {
					nm = fmt.Sprintf("v%d", v)
					v++
				}
			}
			names[id.Obj] = nm
			id.Name = nm
			return true
		})
	}
}

// csPath reports whether e is built from identifiers, selectors and index expressions only.
func csPath(e ast.Expr) bool {
	switch x := e.(type) {
	case *ast.Ident:
		return true
	case *ast.SelectorExpr:
		return csPath(x.X)
	case *ast.IndexExpr:
		return csPath(x.X) && csPath(x.Index)
	}
	return false
}

// resolveLocals replaces, in a normalised function body, every USE of a local that is defined
// once by `v := <path expression>` by that expression, and every use of a `var ks []T` that is
// filled by `for k := range M { ks = append(ks, k) }` (and sorted by `sort.Strings(ks)`) by
// `keys(M)` / `sorted(keys(M))` — so that what is printed talks about fields, not temporaries.
func (c *csCtx) resolveLocals(body *ast.BlockStmt) {
	defs := map[*ast.Object]ast.Expr{}
	decl := map[*ast.Ident]bool{}
	keysOf := map[*ast.Object]ast.Expr{}
	sorted := map[*ast.Object]bool{}
	assigned := map[*ast.Object]int{}
	ast.Inspect(body, func(n ast.Node) bool {
		switch s := n.(type) {
		case *ast.AssignStmt:
			for _, l := range s.Lhs {
				if id, ok := l.(*ast.Ident); ok && id.Obj != nil {
					assigned[id.Obj]++
				}
			}
			if s.Tok == token.DEFINE && len(s.Lhs) == 1 && len(s.Rhs) == 1 {
				if id, ok := s.Lhs[0].(*ast.Ident); ok && id.Obj != nil && csPath(s.Rhs[0]) {
					defs[id.Obj] = s.Rhs[0]
					decl[id] = true
				}
			}
		case *ast.RangeStmt:
			if s.Key != nil && s.Value == nil && len(s.Body.List) == 1 {
				if as, ok := s.Body.List[0].(*ast.AssignStmt); ok && as.Tok == token.ASSIGN && len(as.Lhs) == 1 && len(as.Rhs) == 1 {
					id, ok1 := as.Lhs[0].(*ast.Ident)
					call, ok2 := as.Rhs[0].(*ast.CallExpr)
					if ok1 && ok2 && id.Obj != nil && len(call.Args) == 2 && c.text(call.Fun) == "append" &&
						c.text(call.Args[0]) == id.Name && c.text(call.Args[1]) == c.text(s.Key) {
						keysOf[id.Obj] = s.X
					}
				}
			}
		case *ast.ExprStmt:
			if call, ok := s.X.(*ast.CallExpr); ok && c.text(call.Fun) == "sort.Strings" && len(call.Args) == 1 {
				if id, ok := call.Args[0].(*ast.Ident); ok && id.Obj != nil {
					sorted[id.Obj] = true
				}
			}
		}
		return true
	})
	ast.Inspect(body, func(n ast.Node) bool {
		id, ok := n.(*ast.Ident)
		if !ok || id.Obj == nil || decl[id] {
			return true
		}
		if e, ok := defs[id.Obj]; ok && assigned[id.Obj] == 1 {
			id.Name = c.text(e)
		} else if x, ok := keysOf[id.Obj]; ok && assigned[id.Obj] == 1 {
			id.Name = "keys(" + c.text(x) + ")"
			if sorted[id.Obj] {
				id.Name = "sorted(" + id.Name + ")"
			}
		}
		return true
	})
}

// params returns the objects of the parameters of a function type, in order.
func csParams(ft *ast.FuncType) []*ast.Object {
	var out []*ast.Object
	if ft.Params == nil {
		return out
	}
	for _, f := range ft.Params.List {
		for _, n := range f.Names {
			out = append(out, n.Obj)
		}
	}
	return out
}

func csRecvType(fd *ast.FuncDecl) string {
	if fd.Recv == nil || len(fd.Recv.List) != 1 {
		return ""
	}
	t := fd.Recv.List[0].Type
	if st, ok := t.(*ast.StarExpr); ok {
		t = st.X
	}
	if id, ok := t.(*ast.Ident); ok {
		return id.Name
	}
	return ""
}

func csIntLit(e ast.Expr) (int, bool) {
	bl, ok := ast.Unparen(e).(*ast.BasicLit)
	if !ok || bl.Kind != token.INT {
		return 0, false
	}
	n, err := strconv.ParseInt(bl.Value, 0, 64)
	if err != nil {
		return 0, false
	}
	return int(n), true
}

// field returns the path of `p.<path>` relative to the (renamed) receiver `p`.
func (c *csCtx) field(e ast.Expr) (string, error) {
	s := c.text(e)
	if !strings.HasPrefix(s, "p.") || len(s) < 3 {
		return "", fmt.Errorf("not a field of the receiver: %s", s)
	}
	return s[2:], nil
}

var csEncoders = map[string]bool{
	"encodeInt64Opt": true, "encodeUint64Opt": true, "encodeBoolOpt": true, "encodeInt64": true,
	"encodeInt64s": true, "encodeUint64s": true, "encodeStrings": true, "encodeUint64": true,
	"encodeString": true, "encodeBool": true,
}

// encCall recognises `<fn>(b, <tag>, <arg>)`.
func (c *csCtx) encCall(s ast.Stmt) (fn string, tag int, arg ast.Expr, err error) {
	es, ok := s.(*ast.ExprStmt)
	if !ok {
		return "", 0, nil, fmt.Errorf("not a call statement: %s", c.text(s))
	}
	call, ok := es.X.(*ast.CallExpr)
	if !ok || len(call.Args) != 3 || call.Ellipsis.IsValid() {
		return "", 0, nil, fmt.Errorf("not a three-argument call: %s", c.text(s))
	}
	id, ok := call.Fun.(*ast.Ident)
	if !ok {
		return "", 0, nil, fmt.Errorf("callee is not a plain function: %s", c.text(s))
	}
	if c.text(call.Args[0]) != "b" {
		return "", 0, nil, fmt.Errorf("first argument is not the buffer parameter: %s", c.text(s))
	}
	tag, ok = csIntLit(call.Args[1])
	if !ok {
		return "", 0, nil, fmt.Errorf("field tag is not an integer literal: %s", c.text(s))
	}
	return id.Name, tag, call.Args[2], nil
}

// guardCond recognises `<v> != nil && (<v>.a != 0 || <v>.b != 0 …)` and returns [a, b, …].
func (c *csCtx) guardCond(v string, e ast.Expr) ([]string, error) {
	be, ok := ast.Unparen(e).(*ast.BinaryExpr)
	if !ok || be.Op != token.LAND || c.text(be.X) != v+" != nil" {
		return nil, fmt.Errorf("guard is not `%s != nil && (…)`: %s", v, c.text(e))
	}
	var out []string
	var walk func(e ast.Expr) error
	walk = func(e ast.Expr) error {
		e = ast.Unparen(e)
		if b, ok := e.(*ast.BinaryExpr); ok && b.Op == token.LOR {
			if err := walk(b.X); err != nil {
				return err
			}
			return walk(b.Y)
		}
		b, ok := e.(*ast.BinaryExpr)
		if !ok || b.Op != token.NEQ || c.text(b.Y) != "0" {
			return fmt.Errorf("guard disjunct is not `%s.f != 0`: %s", v, c.text(e))
		}
		sel, ok := b.X.(*ast.SelectorExpr)
		if !ok || c.text(sel.X) != v {
			return fmt.Errorf("guard disjunct is not `%s.f != 0`: %s", v, c.text(e))
		}
		out = append(out, sel.Sel.Name)
		return nil
	}
	if err := walk(be.Y); err != nil {
		return nil, err
	}
	return out, nil
}

// encodeMethod translates the body of `func (p T) encode(b *buffer)`.
func (c *csCtx) encodeMethod(fd *ast.FuncDecl) ([]csEnc, error) {
	ps := csParams(fd.Type)
	if len(ps) != 1 || len(fd.Recv.List[0].Names) != 1 {
		return nil, fmt.Errorf("encode must have a named receiver and one parameter")
	}
	csNormalize(map[*ast.Object]string{fd.Recv.List[0].Names[0].Obj: "p", ps[0]: "b"}, fd.Body)
	var out []csEnc
	for _, st := range fd.Body.List {
		switch s := st.(type) {
		case *ast.ExprStmt:
			fn, tag, arg, err := c.encCall(s)
			if err != nil {
				return nil, err
			}
			if !csEncoders[fn] {
				return nil, fmt.Errorf("unknown encoder %s in %s", fn, c.text(s))
			}
			f, err := c.field(arg)
			if err != nil {
				return nil, fmt.Errorf("%s: %v", c.text(s), err)
			}
			out = append(out, csEnc{tag: tag, fn: fn, field: f})
		case *ast.RangeStmt:
			// for _, x := range p.F { encodeMessage(b, T, x) }   or
			// for i := range p.F { encodeMessage(b, T, &p.F[i]) }
			if s.Tok != token.DEFINE || len(s.Body.List) != 1 {
				return nil, fmt.Errorf("unrecognised loop: %s", c.text(s))
			}
			f, err := c.field(s.X)
			if err != nil {
				return nil, fmt.Errorf("%s: %v", c.text(s), err)
			}
			fn, tag, arg, err := c.encCall(s.Body.List[0])
			if err != nil {
				return nil, err
			}
			if fn != "encodeMessage" {
				return nil, fmt.Errorf("loop body is not encodeMessage: %s", c.text(s))
			}
			a := c.text(arg)
			okElem := s.Value != nil && (s.Key == nil || c.text(s.Key) == "_") && a == c.text(s.Value)
			okIdx := s.Value == nil && s.Key != nil && a == "&p."+f+"["+c.text(s.Key)+"]"
			if !okElem && !okIdx {
				return nil, fmt.Errorf("loop does not encode the element it ranges over: %s", c.text(s))
			}
			out = append(out, csEnc{tag: tag, fn: "encodeMessage-in-loop", field: f})
		case *ast.IfStmt:
			// if pt := p.F; pt != nil && (pt.a != 0 || pt.b != 0) { encodeMessage(b, T, p.F) }
			if s.Else != nil || s.Init == nil || len(s.Body.List) != 1 {
				return nil, fmt.Errorf("unrecognised conditional: %s", c.text(s))
			}
			as, ok := s.Init.(*ast.AssignStmt)
			if !ok || as.Tok != token.DEFINE || len(as.Lhs) != 1 || len(as.Rhs) != 1 {
				return nil, fmt.Errorf("unrecognised guard initialiser: %s", c.text(s))
			}
			v := c.text(as.Lhs[0])
			f, err := c.field(as.Rhs[0])
			if err != nil {
				return nil, fmt.Errorf("%s: %v", c.text(s), err)
			}
			nz, err := c.guardCond(v, s.Cond)
			if err != nil {
				return nil, err
			}
			fn, tag, arg, err := c.encCall(s.Body.List[0])
			if err != nil {
				return nil, err
			}
			if a := c.text(arg); fn != "encodeMessage" || (a != "p."+f && a != v) {
				return nil, fmt.Errorf("guarded statement does not encode the guarded message: %s", c.text(s))
			}
			out = append(out, csEnc{tag: tag, fn: "encodeMessage-guarded", field: f,
				guard: c.text(s.Init) + "; " + c.text(s.Cond), nonZero: nz})
		default:
			return nil, fmt.Errorf("unrecognised statement: %s", c.text(st))
		}
	}
	return out, nil
}

// The pinned closure shapes (after alpha-normalisation; see the package comment).
type csShape struct {
	fn string
	re *regexp.Regexp
	// indices of the capture groups: receiver types, fields (all must agree), message type
	recv, field []int
	msg         int
}

var csShapes = []csShape{
	{fn: "", // plain: the decode function is its own name
		re:   regexp.MustCompile(`^return (decode\w+)\(b, &m\.\(\*(\w+)\)\.(\w+)\)$`),
		recv: []int{2}, field: []int{3}},
	{fn: "decodeMessage/append-new",
		re:   regexp.MustCompile(`^g0 := new\((\w+)\); g1 := m\.\(\*(\w+)\); g1\.(\w+) = append\(g1\.(\w+), g0\); return decodeMessage\(b, g0\)$`),
		recv: []int{2}, field: []int{3, 4}, msg: 1},
	{fn: "decodeMessage/append-new-shared-lines",
		re:   regexp.MustCompile(`^g0 := new\((\w+)\); g0\.Line = b\.tmpLines\[:0\]; g1 := m\.\(\*(\w+)\); g1\.(\w+) = append\(g1\.(\w+), g0\); g2 := decodeMessage\(b, g0\); b\.tmpLines = g0\.Line\[:0\]; g0\.Line = append\(\[\]Line\(nil\), g0\.Line\.\.\.\); return g2$`),
		recv: []int{2}, field: []int{3, 4}, msg: 1},
	{fn: "decodeMessage/append-value",
		re:   regexp.MustCompile(`^g0 := m\.\(\*(\w+)\); g1 := len\(g0\.(\w+)\); g0\.(\w+) = append\(g0\.(\w+), (\w+)\{\}\); return decodeMessage\(b, &g0\.(\w+)\[g1\]\)$`),
		recv: []int{1}, field: []int{2, 3, 4, 6}, msg: 5},
	{fn: "decodeMessage/set-new",
		re:   regexp.MustCompile(`^g0 := new\((\w+)\); g1 := m\.\(\*(\w+)\); g1\.(\w+) = g0; return decodeMessage\(b, g0\)$`),
		recv: []int{2}, field: []int{3}, msg: 1},
	{fn: "decodeStrings/first-must-be-empty",
		re:   regexp.MustCompile(`^g0 := decodeStrings\(b, &m\.\(\*(\w+)\)\.(\w+)\); if g0 != nil \{ return g0 \}; if m\.\(\*(\w+)\)\.(\w+)\[0\] != "" \{ return errors\.New\("string_table\[0\] must be ''"\) \}; return nil$`),
		recv: []int{1, 3}, field: []int{2, 4}},
	{fn: "decodeInt64/reject-if-set",
		re:   regexp.MustCompile(`^if m\.\(\*(\w+)\)\.(\w+) != 0 \{ return errConcatProfile \}; return decodeInt64\(b, &m\.\(\*(\w+)\)\.(\w+)\)$`),
		recv: []int{1, 3}, field: []int{2, 4}},
}

func csAllEqual(m []string, idx []int) (string, bool) {
	v := m[idx[0]]
	for _, i := range idx[1:] {
		if m[i] != v {
			return "", false
		}
	}
	return v, true
}

// decoderEntry translates one element of a `[]decoder{…}` literal.
func (c *csCtx) decoderEntry(i int, el ast.Expr) (csDec, error) {
	if id, ok := el.(*ast.Ident); ok && id.Name == "nil" {
		return csDec{index: i, fn: "nil"}, nil
	}
	fl, ok := el.(*ast.FuncLit)
	if !ok {
		return csDec{}, fmt.Errorf("entry %d is neither nil nor a function literal: %s", i, c.text(el))
	}
	ps := csParams(fl.Type)
	if len(ps) != 2 {
		return csDec{}, fmt.Errorf("entry %d: decoder closures take (b *buffer, m message)", i)
	}
	csNormalize(map[*ast.Object]string{ps[0]: "b", ps[1]: "m"}, fl.Body)
	body := c.stmts(fl.Body)
	for _, sh := range csShapes {
		m := sh.re.FindStringSubmatch(body)
		if m == nil {
			continue
		}
		recv, ok1 := csAllEqual(m, sh.recv)
		field, ok2 := csAllEqual(m, sh.field)
		if !ok1 || !ok2 {
			return csDec{}, fmt.Errorf("entry %d: closure touches more than one field/type: %s", i, body)
		}
		d := csDec{index: i, fn: sh.fn, recv: recv, field: field}
		if sh.fn == "" {
			d.fn = m[1]
		}
		if sh.msg != 0 {
			d.msg = m[sh.msg]
		}
		return d, nil
	}
	return csDec{}, fmt.Errorf("entry %d: decoder closure of unknown shape: %s", i, body)
}

func csFuncs(f *ast.File) map[string]*ast.FuncDecl {
	m := map[string]*ast.FuncDecl{}
	for _, d := range f.Decls {
		if fd, ok := d.(*ast.FuncDecl); ok && fd.Body != nil {
			key := fd.Name.Name
			if fd.Recv != nil {
				key = csRecvType(fd) + "." + key
			}
			m[key] = fd
		}
	}
	return m
}

func (c *csCtx) messages(f *ast.File) ([]csMsg, error) {
	tables := map[string]*ast.CompositeLit{}
	for _, d := range f.Decls {
		gd, ok := d.(*ast.GenDecl)
		if !ok || gd.Tok != token.VAR {
			continue
		}
		for _, sp := range gd.Specs {
			vs := sp.(*ast.ValueSpec)
			for i, n := range vs.Names {
				if i < len(vs.Values) {
					if cl, ok := vs.Values[i].(*ast.CompositeLit); ok && c.text(cl.Type) == "[]decoder" {
						tables[n.Name] = cl
					}
				}
			}
		}
	}
	funcs := csFuncs(f)
	var out []csMsg
	used := map[string]bool{}
	for _, d := range f.Decls {
		fd, ok := d.(*ast.FuncDecl)
		if !ok || fd.Recv == nil || fd.Name.Name != "encode" || fd.Body == nil {
			continue
		}
		name := csRecvType(fd)
		if name == "" {
			return nil, fmt.Errorf("encode method with an unrecognised receiver")
		}
		msg := csMsg{name: name}
		var err error
		if msg.enc, err = c.encodeMethod(fd); err != nil {
			return nil, fmt.Errorf("(%s).encode: %v", name, err)
		}
		dm := funcs[name+".decoder"]
		if dm == nil || len(dm.Body.List) != 1 {
			return nil, fmt.Errorf("(%s).decoder: not a single return statement", name)
		}
		rs, ok := dm.Body.List[0].(*ast.ReturnStmt)
		if !ok || len(rs.Results) != 1 {
			return nil, fmt.Errorf("(%s).decoder: not a single return statement", name)
		}
		id, ok := rs.Results[0].(*ast.Ident)
		if !ok || tables[id.Name] == nil {
			return nil, fmt.Errorf("(%s).decoder does not return a package-level []decoder literal: %s", name, c.text(rs))
		}
		msg.decVar = id.Name
		used[id.Name] = true
		for i, el := range tables[id.Name].Elts {
			if _, isKV := el.(*ast.KeyValueExpr); isKV {
				return nil, fmt.Errorf("%s[%d]: indexed element not supported", id.Name, i)
			}
			de, err := c.decoderEntry(i, el)
			if err != nil {
				return nil, fmt.Errorf("%s: %v", id.Name, err)
			}
			msg.dec = append(msg.dec, de)
		}
		out = append(out, msg)
	}
	for n := range tables {
		if !used[n] {
			return nil, fmt.Errorf("decoder table %s belongs to no message type", n)
		}
	}
	if len(out) == 0 {
		return nil, fmt.Errorf("no encode methods found")
	}
	return out, nil
}

// ---- (d) preEncode / postDecode ------------------------------------------------------------

// header prints the head of a for/range/if statement.
func (c *csCtx) header(n ast.Node) string {
	switch s := n.(type) {
	case *ast.RangeStmt:
		h := "for "
		if s.Key != nil {
			h += c.text(s.Key)
			if s.Value != nil {
				h += ", " + c.text(s.Value)
			}
			h += " " + s.Tok.String() + " "
		}
		return h + "range " + c.text(s.X)
	case *ast.IfStmt:
		h := "if "
		if s.Init != nil {
			h += c.text(s.Init) + "; "
		}
		return h + c.text(s.Cond)
	case *ast.ForStmt:
		h := "for "
		if s.Init != nil {
			h += c.text(s.Init)
		}
		h += "; "
		if s.Cond != nil {
			h += c.text(s.Cond)
		}
		h += "; "
		if s.Post != nil {
			h += c.text(s.Post)
		}
		return h
	case *ast.SwitchStmt, *ast.TypeSwitchStmt, *ast.SelectStmt:
		return "switch"
	case *ast.CaseClause:
		return "case " + c.text(s)
	case *ast.FuncLit:
		return "func"
	}
	return ""
}

// internOrder lists the addString calls of preEncode in source order with their enclosing headers.
func (c *csCtx) internOrder(fd *ast.FuncDecl) ([]csSite, error) {
	if len(fd.Recv.List[0].Names) != 1 {
		return nil, fmt.Errorf("preEncode has no named receiver")
	}
	csNormalize(map[*ast.Object]string{fd.Recv.List[0].Names[0].Obj: "p"}, fd.Body)
	c.resolveLocals(fd.Body)
	var out []csSite
	var stack []ast.Node
	var bad error
	ast.Inspect(fd.Body, func(n ast.Node) bool {
		if n == nil {
			stack = stack[:len(stack)-1]
			return true
		}
		if call, ok := n.(*ast.CallExpr); ok {
			if id, ok := call.Fun.(*ast.Ident); ok && id.Name == "addString" {
				if len(call.Args) != 2 {
					bad = fmt.Errorf("addString with %d arguments", len(call.Args))
				} else {
					var ctx []string
					for i, s := range stack {
						h := c.header(s)
						if ifs, ok := s.(*ast.IfStmt); ok && i+1 < len(stack) && stack[i+1] == ifs.Else {
							h = "else of " + h
						}
						if h != "" {
							ctx = append(ctx, h)
						}
					}
					out = append(out, csSite{ctx: strings.Join(ctx, " { "), arg: c.text(call.Args[1])})
				}
			}
		}
		stack = append(stack, n)
		return true
	})
	if bad != nil {
		return nil, bad
	}
	if len(out) == 0 {
		return nil, fmt.Errorf("preEncode calls addString nowhere")
	}
	return out, nil
}

var csMakeDense = regexp.MustCompile(`^make\(\[\]\*(\w+), len\(p\.(\w+)\)\+(\d+)\)$`)

// denseTables finds `x := make([]*T, len(p.F)+N)` in postDecode and checks that every index
// expression on x sits in the then-branch of `if … idx < uint64(len(x))`.
func (c *csCtx) denseTables(fd *ast.FuncDecl) ([]csDense, error) {
	if len(fd.Recv.List[0].Names) != 1 {
		return nil, fmt.Errorf("postDecode has no named receiver")
	}
	csNormalize(map[*ast.Object]string{fd.Recv.List[0].Names[0].Obj: "p"}, fd.Body)
	var out []csDense
	idx := map[*ast.Object]int{}
	for _, st := range fd.Body.List {
		as, ok := st.(*ast.AssignStmt)
		if !ok || as.Tok != token.DEFINE || len(as.Lhs) != 1 || len(as.Rhs) != 1 {
			continue
		}
		call, ok := as.Rhs[0].(*ast.CallExpr)
		if !ok || c.text(call.Fun) != "make" || len(call.Args) == 0 {
			continue
		}
		if _, isSlice := call.Args[0].(*ast.ArrayType); !isSlice {
			continue
		}
		if !strings.HasPrefix(c.text(call.Args[0]), "[]*") {
			continue // e.g. the []*Location scratch buffer is typed []*T too; see below
		}
		m := csMakeDense.FindStringSubmatch(c.text(call))
		if m == nil {
			// a slice of pointers that is not an id table: it must never be indexed by an id; only the
			// known scratch buffer (sliced, never indexed) is accepted
			continue
		}
		n, _ := strconv.Atoi(m[3])
		idx[as.Lhs[0].(*ast.Ident).Obj] = len(out)
		out = append(out, csDense{elem: m[1], table: m[2], extra: n})
	}
	if len(out) == 0 {
		return nil, fmt.Errorf("postDecode builds no dense id table `make([]*T, len(p.F)+N)`")
	}
	var stack []ast.Node
	var bad error
	ast.Inspect(fd.Body, func(n ast.Node) bool {
		if n == nil {
			stack = stack[:len(stack)-1]
			return true
		}
		if ie, ok := n.(*ast.IndexExpr); ok {
			if id, ok := ie.X.(*ast.Ident); ok && id.Obj != nil {
				if k, isDense := idx[id.Obj]; isDense {
					want := c.text(ie.Index) + " < uint64(len(" + id.Name + "))"
					found := false
					for i, s := range stack {
						if ifs, ok := s.(*ast.IfStmt); ok && i+1 < len(stack) && stack[i+1] == ast.Node(ifs.Body) && c.text(ifs.Cond) == want {
							found = true
						}
					}
					if !found && bad == nil {
						bad = fmt.Errorf("dense id table of p.%s indexed without the guard `%s`: %s", out[k].table, want, c.text(ie))
					}
					out[k].guarded++
				}
			}
		}
		stack = append(stack, n)
		return true
	})
	return out, bad
}

// ---- (c) proto.go --------------------------------------------------------------------------

func csPositional(fd *ast.FuncDecl) {
	fixed := map[*ast.Object]string{}
	for i, o := range csParams(fd.Type) {
		fixed[o] = fmt.Sprintf("a%d", i)
	}
	csNormalize(fixed, fd.Body)
}

func (c *csCtx) packedThreshold(fd *ast.FuncDecl) (string, int, error) {
	if fd == nil {
		return "", 0, fmt.Errorf("function not found")
	}
	csPositional(fd)
	if len(fd.Body.List) != 2 {
		return "", 0, fmt.Errorf("body is not `if len(x) > N { packed; return }; loop`")
	}
	ifs, ok := fd.Body.List[0].(*ast.IfStmt)
	if !ok || ifs.Init != nil || ifs.Else != nil {
		return "", 0, fmt.Errorf("first statement is not a plain if")
	}
	be, ok := ifs.Cond.(*ast.BinaryExpr)
	if !ok || be.Op != token.GTR || c.text(be.X) != "len(a2)" {
		return "", 0, fmt.Errorf("packed-encoding condition is not `len(x) > N`: %s", c.text(ifs.Cond))
	}
	n, ok := csIntLit(be.Y)
	if !ok {
		return "", 0, fmt.Errorf("packed-encoding threshold is not an integer literal: %s", c.text(ifs.Cond))
	}
	if len(ifs.Body.List) == 0 {
		return "", 0, fmt.Errorf("empty packed branch")
	}
	if _, ok := ifs.Body.List[len(ifs.Body.List)-1].(*ast.ReturnStmt); !ok {
		return "", 0, fmt.Errorf("packed branch does not end in return")
	}
	if _, ok := fd.Body.List[1].(*ast.RangeStmt); !ok {
		return "", 0, fmt.Errorf("unpacked branch is not a loop")
	}
	return c.text(ifs.Cond), n, nil
}

func (c *csCtx) varintLimit(fd *ast.FuncDecl) (string, int, error) {
	if fd == nil {
		return "", 0, fmt.Errorf("function not found")
	}
	csPositional(fd)
	for _, st := range fd.Body.List {
		fs, ok := st.(*ast.ForStmt)
		if !ok || len(fs.Body.List) == 0 {
			continue
		}
		ifs, ok := fs.Body.List[0].(*ast.IfStmt)
		if !ok {
			break
		}
		be, ok := ifs.Cond.(*ast.BinaryExpr)
		if !ok || be.Op != token.LOR {
			break
		}
		l, ok := be.X.(*ast.BinaryExpr)
		if !ok || l.Op != token.GEQ {
			break
		}
		n, ok := csIntLit(l.Y)
		if !ok {
			break
		}
		return c.text(ifs.Cond), n, nil
	}
	return "", 0, fmt.Errorf("loop guard `i >= N || i >= len(data)` not found")
}

var (
	csShift = regexp.MustCompile(`^int\(\w+ >> (\d+)\)$`)
	csMask  = regexp.MustCompile(`^int\(\w+ & (\d+)\)$`)
)

func (c *csCtx) decodeField(fd *ast.FuncDecl, pr *csProto) error {
	if fd == nil {
		return fmt.Errorf("function not found")
	}
	csPositional(fd)
	pr.fieldShift, pr.typeMask = -1, -1
	var sw *ast.SwitchStmt
	for _, st := range fd.Body.List {
		switch s := st.(type) {
		case *ast.AssignStmt:
			if len(s.Lhs) == 1 && len(s.Rhs) == 1 {
				switch c.text(s.Lhs[0]) {
				case "a0.field":
					m := csShift.FindStringSubmatch(c.text(s.Rhs[0]))
					if m == nil {
						return fmt.Errorf("field number is not `x >> N`: %s", c.text(s))
					}
					pr.fieldShift, _ = strconv.Atoi(m[1])
				case "a0.typ":
					m := csMask.FindStringSubmatch(c.text(s.Rhs[0]))
					if m == nil {
						return fmt.Errorf("wire type is not `x & N`: %s", c.text(s))
					}
					pr.typeMask, _ = strconv.Atoi(m[1])
				}
			}
		case *ast.SwitchStmt:
			if s.Tag != nil && c.text(s.Tag) == "a0.typ" {
				sw = s
			}
		}
	}
	if pr.fieldShift < 0 || pr.typeMask < 0 || sw == nil {
		return fmt.Errorf("field/type split or `switch b.typ` not found")
	}
	for _, cc := range sw.Body.List {
		cl := cc.(*ast.CaseClause)
		if cl.List == nil {
			// default: must return a non-nil error
			if len(cl.Body) == 1 {
				if rs, ok := cl.Body[0].(*ast.ReturnStmt); ok && len(rs.Results) == 2 && c.text(rs.Results[1]) != "nil" {
					pr.defaultRejects = true
				}
			}
			continue
		}
		vals := map[int]bool{}
		for _, b := range cl.Body {
			ast.Inspect(b, func(n ast.Node) bool {
				if e, ok := n.(ast.Expr); ok {
					if v, ok := csIntLit(e); ok {
						if _, isLit := e.(*ast.BasicLit); isLit {
							vals[v] = true
						}
					}
				}
				return true
			})
		}
		for _, e := range cl.List {
			t, ok := csIntLit(e)
			if !ok {
				return fmt.Errorf("case label is not an integer literal: %s", c.text(e))
			}
			pr.wireTypes = append(pr.wireTypes, t)
			if len(vals) > 1 {
				return fmt.Errorf("wire type %d: inconsistent sizes in %s", t, c.text(cl))
			}
			for v := range vals {
				pr.fixedSizes = append(pr.fixedSizes, [2]int{t, v})
			}
		}
	}
	return nil
}

// ---- rendering -----------------------------------------------------------------------------

func csStrList(l []string) string {
	var q []string
	for _, s := range l {
		q = append(q, leanStr(s))
	}
	return "[" + strings.Join(q, ", ") + "]"
}

func csNatList(l []int) string {
	var q []string
	for _, n := range l {
		q = append(q, strconv.Itoa(n))
	}
	return "[" + strings.Join(q, ", ") + "]"
}

func genCodecSchema(e *Env) (string, error) {
	fset, enc, err := parseFile(e, "profile/encode.go")
	if err != nil {
		return "", err
	}
	c := &csCtx{fset: fset}
	msgs, err := c.messages(enc)
	if err != nil {
		return "", fmt.Errorf("profile/encode.go: %v", err)
	}
	ef := csFuncs(enc)
	if ef["Profile.preEncode"] == nil || ef["Profile.postDecode"] == nil {
		return "", fmt.Errorf("profile/encode.go: (*Profile).preEncode / postDecode not found")
	}
	sites, err := c.internOrder(ef["Profile.preEncode"])
	if err != nil {
		return "", fmt.Errorf("profile/encode.go: preEncode: %v", err)
	}
	dense, err := c.denseTables(ef["Profile.postDecode"])
	if err != nil {
		return "", fmt.Errorf("profile/encode.go: postDecode: %v", err)
	}

	pfset, pf, err := parseFile(e, "profile/proto.go")
	if err != nil {
		return "", err
	}
	pc := &csCtx{fset: pfset}
	pfn := csFuncs(pf)
	var pr csProto
	if pr.packedCondU, pr.packedU, err = pc.packedThreshold(pfn["encodeUint64s"]); err != nil {
		return "", fmt.Errorf("profile/proto.go: encodeUint64s: %v", err)
	}
	if pr.packedCondI, pr.packedI, err = pc.packedThreshold(pfn["encodeInt64s"]); err != nil {
		return "", fmt.Errorf("profile/proto.go: encodeInt64s: %v", err)
	}
	if pr.varintCond, pr.varintLimit, err = pc.varintLimit(pfn["decodeVarint"]); err != nil {
		return "", fmt.Errorf("profile/proto.go: decodeVarint: %v", err)
	}
	if err = pc.decodeField(pfn["decodeField"], &pr); err != nil {
		return "", fmt.Errorf("profile/proto.go: decodeField: %v", err)
	}

	var b strings.Builder
	b.WriteString("/- GENERATED by /verif/tools/extract/codecschema.go from profile/encode.go and profile/proto.go.\n")
	b.WriteString("   Regenerated from the current source on every `bin/check C01` / `bin/check C02`; do not edit.\n")
	b.WriteString("   Receiver = p, buffer = b, message = m, other parameters a0…, locals g0…/v0… (alpha-normalised). -/\n")
	b.WriteString("namespace PV.Gen.CodecSchema\n\n")
	b.WriteString("/-- one statement of an `encode` method -/\n")
	b.WriteString("structure EncStmt where\n  tag : Nat\n  fn : String\n  field : String\n  guard : String\n  guardNonZero : List String\n  deriving DecidableEq, Repr\n\n")
	b.WriteString("/-- one entry of a `[]decoder` table -/\n")
	b.WriteString("structure DecEntry where\n  index : Nat\n  fn : String\n  recv : String\n  field : String\n  msg : String\n  deriving DecidableEq, Repr\n\n")
	b.WriteString("structure Message where\n  name : String\n  decoderVar : String\n  enc : List EncStmt\n  dec : List DecEntry\n  deriving DecidableEq, Repr\n\n")
	b.WriteString("def all : List Message := [\n")
	for i, m := range msgs {
		fmt.Fprintf(&b, "  { name := %s, decoderVar := %s,\n    enc := [\n", leanStr(m.name), leanStr(m.decVar))
		for j, s := range m.enc {
			fmt.Fprintf(&b, "      { tag := %d, fn := %s, field := %s, guard := %s, guardNonZero := %s }", s.tag, leanStr(s.fn), leanStr(s.field), leanStr(s.guard), csStrList(s.nonZero))
			if j+1 < len(m.enc) {
				b.WriteString(",")
			}
			b.WriteString("\n")
		}
		b.WriteString("    ],\n    dec := [\n")
		for j, d := range m.dec {
			fmt.Fprintf(&b, "      { index := %d, fn := %s, recv := %s, field := %s, msg := %s }", d.index, leanStr(d.fn), leanStr(d.recv), leanStr(d.field), leanStr(d.msg))
			if j+1 < len(m.dec) {
				b.WriteString(",")
			}
			b.WriteString("\n")
		}
		b.WriteString("    ] }")
		if i+1 < len(msgs) {
			b.WriteString(",")
		}
		b.WriteString("\n")
	}
	b.WriteString("]\n\n")
	b.WriteString("/-- facts read from profile/proto.go -/\n")
	b.WriteString("structure Proto where\n  packedCondUint64s : String\n  packedThresholdUint64s : Nat\n  packedCondInt64s : String\n  packedThresholdInt64s : Nat\n  varintCond : String\n  varintLimit : Nat\n  fieldShift : Nat\n  typeMask : Nat\n  wireTypes : List Nat\n  defaultRejects : Bool\n  fixedSizes : List (Nat × Nat)\n  deriving DecidableEq, Repr\n\n")
	var fs []string
	for _, p := range pr.fixedSizes {
		fs = append(fs, fmt.Sprintf("(%d, %d)", p[0], p[1]))
	}
	fmt.Fprintf(&b, "def proto : Proto :=\n  { packedCondUint64s := %s, packedThresholdUint64s := %d,\n    packedCondInt64s := %s, packedThresholdInt64s := %d,\n    varintCond := %s, varintLimit := %d,\n    fieldShift := %d, typeMask := %d, wireTypes := %s, defaultRejects := %v,\n    fixedSizes := [%s] }\n\n",
		leanStr(pr.packedCondU), pr.packedU, leanStr(pr.packedCondI), pr.packedI, leanStr(pr.varintCond), pr.varintLimit,
		pr.fieldShift, pr.typeMask, csNatList(pr.wireTypes), pr.defaultRejects, strings.Join(fs, ", "))
	b.WriteString("/-- one `addString(strings, arg)` call of preEncode with the headers of the enclosing statements -/\n")
	b.WriteString("structure InternSite where\n  ctx : String\n  arg : String\n  deriving DecidableEq, Repr\n\n")
	b.WriteString("def internOrder : List InternSite := [\n")
	for i, s := range sites {
		fmt.Fprintf(&b, "  { ctx := %s, arg := %s }", leanStr(s.ctx), leanStr(s.arg))
		if i+1 < len(sites) {
			b.WriteString(",")
		}
		b.WriteString("\n")
	}
	b.WriteString("]\n\n")
	b.WriteString("/-- `make([]*elem, len(p.table)+extra)` of postDecode; every one of the `guardedIndexes` index\n    expressions on it sits under `if idx < uint64(len(slice))` -/\n")
	b.WriteString("structure DenseTable where\n  elem : String\n  table : String\n  extra : Nat\n  guardedIndexes : Nat\n  deriving DecidableEq, Repr\n\n")
	b.WriteString("def denseTables : List DenseTable := [\n")
	for i, d := range dense {
		fmt.Fprintf(&b, "  { elem := %s, table := %s, extra := %d, guardedIndexes := %d }", leanStr(d.elem), leanStr(d.table), d.extra, d.guarded)
		if i+1 < len(dense) {
			b.WriteString(",")
		}
		b.WriteString("\n")
	}
	b.WriteString("]\n\nend PV.Gen.CodecSchema\n")
	return b.String(), nil
}
