// Generator for lean/PprofVerif/Gen/CodecSchema.lean (properties C01 and C02).
//
// It reads /repo/profile/encode.go and /repo/profile/proto.go with go/parser (go/ast only, no
// type checking) and translates the WIRE SCHEMA of the profile codec into Lean data.  It extracts
// semantic FACTS (numbers, tag → kind tables, call order), not statement text:
//
//	(a) for every type with an `encode(b *buffer)` method: the ordered statements of that method —
//	    (field tag, encoder function, Go field) — loops over repeated messages and the guarded
//	    PeriodType message (with the set of fields its guard tests) being kinds of their own;
//	(b) for every `xxxDecoder` table: per index the decode function, the target field, how a nested
//	    message is attached (appended pointer / appended value / set) and which extra checks the
//	    closure performs.  Closures are analysed statement by statement (aliases such as
//	    `pp := m.(*Profile)` are substituted first; order and names of locals do not matter);
//	(c) from proto.go: the packed-encoding threshold (`packed iff len > N`, whichever way the test is
//	    written), the varint byte limit (literal or package-level constant; `i >= N`, `i == N`,
//	    a loop bound `i < N`, or `len(data) > N`), the field/type split, the wire types decodeField
//	    accepts and the sizes it reads for the fixed-width types;
//	(d) from preEncode: the order in which strings are interned — every addString call with the
//	    symbolic path of its argument (`p.Sample[].Label[…][]`) under the symbolic paths of the
//	    enclosing loops/conditions; from postDecode: the dense id tables (`len+N` long) and how many
//	    index expressions on them are NOT under their `id < uint64(len(table))` guard — recognised
//	    inline in postDecode or behind one generic helper type (dense slice + map, constructor,
//	    methods); `none` when the id-table code has neither shape.
//
// Names of receivers, parameters and locals never matter (the receiver is renamed `p`, parameters
// positionally, locals by declaration order), nor does formatting (nodes are printed one by one by
// go/printer and white space is collapsed).  A statement of an encode method or of a decoder closure
// that the translator cannot classify makes the generator return an error (extractor exits non-zero ⇒
// the Gen file is deleted ⇒ broken obligation).
package main

import (
	"bytes"
	"fmt"
	"go/ast"
	"go/printer"
	"go/token"
	"regexp"
	"sort"
	"strconv"
	"strings"
)

func init() { register("CodecSchema.lean", genCodecSchema) }

type csEnc struct {
	tag     int
	fn      string
	field   string
	nonZero []string
}

type csDec struct {
	index int
	fn    string
	recv  string
	field string
	msg   string
}

type csMsg struct {
	name   string
	decVar string
	enc    []csEnc
	dec    []csDec
}

type csSite struct {
	ctx []string
	arg string
}

type csDense struct {
	elem, table string
	extra       int
	unguarded   int
}

type csProto struct {
	packedU, packedI     int
	varintLimit          int
	fieldShift, typeMask int
	wireTypes            []int
	defaultRejects       bool
	fixedSizes           [][2]int
}

type csCtx struct {
	fset   *token.FileSet
	consts map[string]int // package-level integer constants of the file
}

var csSpace = regexp.MustCompile(`\s+`)

// text prints a node and collapses white space, so that line breaks of the source do not matter.
func (c *csCtx) text(n ast.Node) string {
	var b bytes.Buffer
	printer.Fprint(&b, c.fset, n)
	s := strings.TrimSpace(csSpace.ReplaceAllString(b.String(), " "))
	s = strings.ReplaceAll(s, "( ", "(")
	s = strings.ReplaceAll(s, ", )", ")")
	s = strings.ReplaceAll(s, " )", ")")
	return s
}

func csIntLit(e ast.Expr) (int, bool) {
	bl, ok := ast.Unparen(e).(*ast.BasicLit)
	if !ok || bl.Kind != token.INT {
		return 0, false
	}
	n, err := strconv.ParseInt(bl.Value, 0, 64)
	if err != nil {
		return 0, false
	}
	return int(n), true
}

// collectConsts records `const name = <integer literal>` declarations of a file.
func (c *csCtx) collectConsts(f *ast.File) {
	c.consts = map[string]int{}
	for _, d := range f.Decls {
		gd, ok := d.(*ast.GenDecl)
		if !ok || gd.Tok != token.CONST {
			continue
		}
		for _, sp := range gd.Specs {
			vs := sp.(*ast.ValueSpec)
			for i, n := range vs.Names {
				if i < len(vs.Values) {
					if v, ok := csIntLit(vs.Values[i]); ok {
						c.consts[n.Name] = v
					}
				}
			}
		}
	}
}

// intConst evaluates an integer literal or a package-level integer constant.
func (c *csCtx) intConst(e ast.Expr) (int, bool) {
	e = ast.Unparen(e)
	if v, ok := csIntLit(e); ok {
		return v, true
	}
	if id, ok := e.(*ast.Ident); ok && (id.Obj == nil || id.Obj.Kind == ast.Con) {
		v, ok := c.consts[id.Name]
		return v, ok
	}
	return 0, false
}

// csNormalize alpha-renames the variables of one function: `fixed` names the receiver/parameters;
// range variables are named after the number of enclosing loops (`i<d>` for the key, `x<d>` for the
// value); locals declared by a top-level statement become g0, g1, …; other locals v0, v1, … per
// top-level statement.  (go/parser resolves local identifiers to *ast.Object; selectors are not
// resolved.)
func csNormalize(fixed map[*ast.Object]string, body *ast.BlockStmt) {
	names := map[*ast.Object]string{}
	for o, n := range fixed {
		names[o] = n
	}
	g := 0
	for _, st := range body.List {
		v := 0
		topLevel := func(o *ast.Object) bool {
			switch s := st.(type) {
			case *ast.AssignStmt:
				return o.Decl == s
			case *ast.DeclStmt:
				if gd, ok := s.Decl.(*ast.GenDecl); ok {
					for _, sp := range gd.Specs {
						if o.Decl == sp {
							return true
						}
					}
				}
			}
			return false
		}
		var stack []ast.Node
		ast.Inspect(st, func(n ast.Node) bool {
			if n == nil {
				stack = stack[:len(stack)-1]
				return true
			}
			stack = append(stack, n)
			id, ok := n.(*ast.Ident)
			if !ok || id.Name == "_" || id.Obj == nil || id.Obj.Kind != ast.Var {
				return true
			}
			if nm, ok := names[id.Obj]; ok {
				id.Name = nm
				return true
			}
			if p := id.Obj.Pos(); p < body.Pos() || p > body.End() {
				return true // package-level variable
			}
			var nm string
			depth := 0
			for _, s := range stack[:len(stack)-1] {
				switch s.(type) {
				case *ast.RangeStmt, *ast.ForStmt:
					depth++
				}
			}
			var parent ast.Node
			if len(stack) >= 2 {
				parent = stack[len(stack)-2]
			}
			if r, ok := parent.(*ast.RangeStmt); ok && r.Tok == token.DEFINE && (r.Key == ast.Expr(id) || r.Value == ast.Expr(id)) {
				if r.Key == ast.Expr(id) {
					nm = fmt.Sprintf("i%d", depth-1)
				} else {
					nm = fmt.Sprintf("x%d", depth-1)
				}
			} else if topLevel(id.Obj) {
				nm = fmt.Sprintf("g%d", g)
				g++
			} else {
				nm = fmt.Sprintf("v%d", v)
				v++
			}
			names[id.Obj] = nm
			id.Name = nm
			return true
		})
	}
}

// csPath reports whether e is built from identifiers, selectors, index expressions and type
// assertions only (an expression that can be substituted for the local it defines).
func csPath(e ast.Expr) bool {
	switch x := e.(type) {
	case *ast.Ident:
		return true
	case *ast.SelectorExpr:
		return csPath(x.X)
	case *ast.IndexExpr:
		return csPath(x.X) && csPath(x.Index)
	case *ast.TypeAssertExpr:
		return csPath(x.X)
	case *ast.ParenExpr:
		return csPath(x.X)
	}
	return false
}

// csScope is what is known about the locals of one function body.
type csScope struct {
	defs     map[*ast.Object]ast.Expr       // v := <path expression>, assigned once
	decl     map[*ast.Ident]bool            // the defining occurrences of those
	keysOf   map[*ast.Object]ast.Expr       // ks filled by `for k := range M { ks = append(ks, k) }`
	sorted   map[*ast.Object]bool           // … and passed to sort.Strings
	assigned map[*ast.Object]int            // number of assignments
	rangeVal map[*ast.Object]*ast.RangeStmt // value variable of a range loop
	rangeKey map[*ast.Object]*ast.RangeStmt // key variable of a range loop
	countIdx map[*ast.Object]ast.Expr       // i of `for i := 0; i < len(E); i++`  ↦ E
}

// countingLoop recognises `for i := 0; i < len(E); i++` and returns i's object and E.
func (c *csCtx) countingLoop(fs *ast.ForStmt) (*ast.Object, ast.Expr) {
	as, ok := fs.Init.(*ast.AssignStmt)
	if !ok || as.Tok != token.DEFINE || len(as.Lhs) != 1 || len(as.Rhs) != 1 {
		return nil, nil
	}
	id, ok := as.Lhs[0].(*ast.Ident)
	if v, isInt := csIntLit(as.Rhs[0]); !ok || !isInt || v != 0 || id.Obj == nil {
		return nil, nil
	}
	be, ok := fs.Cond.(*ast.BinaryExpr)
	if !ok || be.Op != token.LSS {
		return nil, nil
	}
	if x, ok := be.X.(*ast.Ident); !ok || x.Obj != id.Obj {
		return nil, nil
	}
	call, ok := be.Y.(*ast.CallExpr)
	if !ok || c.text(call.Fun) != "len" || len(call.Args) != 1 {
		return nil, nil
	}
	if inc, ok := fs.Post.(*ast.IncDecStmt); !ok || inc.Tok != token.INC {
		return nil, nil
	}
	return id.Obj, call.Args[0]
}

func (c *csCtx) scan(body *ast.BlockStmt) *csScope {
	sc := &csScope{
		defs: map[*ast.Object]ast.Expr{}, decl: map[*ast.Ident]bool{}, keysOf: map[*ast.Object]ast.Expr{},
		sorted: map[*ast.Object]bool{}, assigned: map[*ast.Object]int{},
		rangeVal: map[*ast.Object]*ast.RangeStmt{}, rangeKey: map[*ast.Object]*ast.RangeStmt{},
		countIdx: map[*ast.Object]ast.Expr{},
	}
	ast.Inspect(body, func(n ast.Node) bool {
		switch s := n.(type) {
		case *ast.AssignStmt:
			for _, l := range s.Lhs {
				if id, ok := l.(*ast.Ident); ok && id.Obj != nil {
					sc.assigned[id.Obj]++
				}
			}
			if s.Tok == token.DEFINE && len(s.Lhs) == 1 && len(s.Rhs) == 1 {
				if id, ok := s.Lhs[0].(*ast.Ident); ok && id.Obj != nil && csPath(s.Rhs[0]) {
					sc.defs[id.Obj] = s.Rhs[0]
					sc.decl[id] = true
				}
			}
		case *ast.IncDecStmt:
			if id, ok := s.X.(*ast.Ident); ok && id.Obj != nil {
				sc.assigned[id.Obj]++
			}
		case *ast.ForStmt:
			if o, e := c.countingLoop(s); o != nil {
				sc.countIdx[o] = e
			}
		case *ast.RangeStmt:
			if s.Tok == token.DEFINE {
				if id, ok := s.Key.(*ast.Ident); ok && id.Obj != nil && id.Name != "_" {
					sc.rangeKey[id.Obj] = s
				}
				if id, ok := s.Value.(*ast.Ident); ok && id.Obj != nil && id.Name != "_" {
					sc.rangeVal[id.Obj] = s
				}
			}
			if s.Key != nil && s.Value == nil && len(s.Body.List) == 1 {
				if as, ok := s.Body.List[0].(*ast.AssignStmt); ok && as.Tok == token.ASSIGN && len(as.Lhs) == 1 && len(as.Rhs) == 1 {
					id, ok1 := as.Lhs[0].(*ast.Ident)
					call, ok2 := as.Rhs[0].(*ast.CallExpr)
					if ok1 && ok2 && id.Obj != nil && len(call.Args) == 2 && c.text(call.Fun) == "append" &&
						c.text(call.Args[0]) == id.Name && c.text(call.Args[1]) == c.text(s.Key) {
						sc.keysOf[id.Obj] = s.X
					}
				}
			}
		case *ast.ExprStmt:
			if call, ok := s.X.(*ast.CallExpr); ok && c.text(call.Fun) == "sort.Strings" && len(call.Args) == 1 {
				if id, ok := call.Args[0].(*ast.Ident); ok && id.Obj != nil {
					sc.sorted[id.Obj] = true
				}
			}
		}
		return true
	})
	return sc
}

// substituteAliases replaces, in a normalised function body, every USE of a local that is defined
// once by `v := <path expression>` (e.g. `pp := m.(*Profile)`) by that expression.
func (c *csCtx) substituteAliases(body *ast.BlockStmt) {
	sc := c.scan(body)
	ast.Inspect(body, func(n ast.Node) bool {
		id, ok := n.(*ast.Ident)
		if !ok || id.Obj == nil || sc.decl[id] {
			return true
		}
		if e, ok := sc.defs[id.Obj]; ok && sc.assigned[id.Obj] == 1 {
			id.Name = c.text(e)
		}
		return true
	})
}

// sym prints an expression symbolically: locals are replaced by what they stand for — the value
// variable of `range E` by `E[]`, its key/index variable by `idx(E)` (and `E[idx(E)]` by `E[]`), a
// local defined once by a path expression by that expression, a key list collected from a map M
// by `keys(M)` / `sorted(keys(M))`.
func (c *csCtx) sym(sc *csScope, e ast.Expr) string {
	switch x := e.(type) {
	case *ast.Ident:
		if x.Obj == nil {
			return x.Name
		}
		if rs, ok := sc.rangeVal[x.Obj]; ok {
			return c.sym(sc, rs.X) + "[]"
		}
		if rs, ok := sc.rangeKey[x.Obj]; ok {
			return "idx(" + c.sym(sc, rs.X) + ")"
		}
		if of, ok := sc.countIdx[x.Obj]; ok {
			return "idx(" + c.sym(sc, of) + ")"
		}
		if d, ok := sc.defs[x.Obj]; ok && sc.assigned[x.Obj] == 1 {
			return c.sym(sc, d)
		}
		if m, ok := sc.keysOf[x.Obj]; ok && sc.assigned[x.Obj] == 1 {
			s := "keys(" + c.sym(sc, m) + ")"
			if sc.sorted[x.Obj] {
				s = "sorted(" + s + ")"
			}
			return s
		}
		return x.Name
	case *ast.SelectorExpr:
		return c.sym(sc, x.X) + "." + x.Sel.Name
	case *ast.IndexExpr:
		base := c.sym(sc, x.X)
		if c.sym(sc, x.Index) == "idx("+base+")" {
			return base + "[]"
		}
		return base + "[" + c.sym(sc, x.Index) + "]"
	case *ast.ParenExpr:
		return "(" + c.sym(sc, x.X) + ")"
	case *ast.UnaryExpr:
		return x.Op.String() + c.sym(sc, x.X)
	case *ast.StarExpr:
		return "*" + c.sym(sc, x.X)
	case *ast.BinaryExpr:
		return c.sym(sc, x.X) + " " + x.Op.String() + " " + c.sym(sc, x.Y)
	case *ast.CallExpr:
		var args []string
		for _, a := range x.Args {
			args = append(args, c.sym(sc, a))
		}
		return c.text(x.Fun) + "(" + strings.Join(args, ", ") + ")"
	case *ast.BasicLit:
		return x.Value
	}
	return c.text(e)
}

// csParams returns the objects of the parameters of a function type, in order.
func csParams(ft *ast.FuncType) []*ast.Object {
	var out []*ast.Object
	if ft.Params == nil {
		return out
	}
	for _, f := range ft.Params.List {
		for _, n := range f.Names {
			out = append(out, n.Obj)
		}
	}
	return out
}

// csRecvType returns the name of the receiver's type (`T`, `*T`, `T[X]`, `*T[X]`).
func csRecvType(fd *ast.FuncDecl) string {
	if fd.Recv == nil || len(fd.Recv.List) != 1 {
		return ""
	}
	t := fd.Recv.List[0].Type
	if st, ok := t.(*ast.StarExpr); ok {
		t = st.X
	}
	if ix, ok := t.(*ast.IndexExpr); ok {
		t = ix.X
	}
	if id, ok := t.(*ast.Ident); ok {
		return id.Name
	}
	return ""
}

func csRecvObj(fd *ast.FuncDecl) *ast.Object {
	if fd.Recv == nil || len(fd.Recv.List) != 1 || len(fd.Recv.List[0].Names) != 1 {
		return nil
	}
	return fd.Recv.List[0].Names[0].Obj
}

// ---- (a) encode methods --------------------------------------------------------------------

// field returns the path of `p.<path>` relative to the (renamed) receiver `p`.
func (c *csCtx) field(e ast.Expr) (string, error) {
	s := c.text(e)
	if !strings.HasPrefix(s, "p.") || len(s) < 3 {
		return "", fmt.Errorf("not a field of the receiver: %s", s)
	}
	return s[2:], nil
}

var csEncoders = map[string]bool{
	"encodeInt64Opt": true, "encodeUint64Opt": true, "encodeBoolOpt": true, "encodeInt64": true,
	"encodeInt64s": true, "encodeUint64s": true, "encodeStrings": true, "encodeUint64": true,
	"encodeString": true, "encodeBool": true,
}

// encCall recognises `<fn>(b, <tag>, <arg>)`.
func (c *csCtx) encCall(s ast.Stmt) (fn string, tag int, arg ast.Expr, err error) {
	es, ok := s.(*ast.ExprStmt)
	if !ok {
		return "", 0, nil, fmt.Errorf("not a call statement: %s", c.text(s))
	}
	call, ok := es.X.(*ast.CallExpr)
	if !ok || len(call.Args) != 3 || call.Ellipsis.IsValid() {
		return "", 0, nil, fmt.Errorf("not a three-argument call: %s", c.text(s))
	}
	id, ok := call.Fun.(*ast.Ident)
	if !ok {
		return "", 0, nil, fmt.Errorf("callee is not a plain function: %s", c.text(s))
	}
	if c.text(call.Args[0]) != "b" {
		return "", 0, nil, fmt.Errorf("first argument is not the buffer parameter: %s", c.text(s))
	}
	tag, ok = c.intConst(call.Args[1])
	if !ok {
		return "", 0, nil, fmt.Errorf("field tag is not an integer constant: %s", c.text(s))
	}
	return id.Name, tag, call.Args[2], nil
}

// guardCond recognises `<v> != nil && (<v>.a != 0 || <v>.b != 0 …)` and returns the SET {a, b, …}.
func (c *csCtx) guardCond(v string, e ast.Expr) ([]string, error) {
	be, ok := ast.Unparen(e).(*ast.BinaryExpr)
	if !ok || be.Op != token.LAND || c.text(be.X) != v+" != nil" {
		return nil, fmt.Errorf("guard is not `%s != nil && (…)`: %s", v, c.text(e))
	}
	var out []string
	var walk func(e ast.Expr) error
	walk = func(e ast.Expr) error {
		e = ast.Unparen(e)
		if b, ok := e.(*ast.BinaryExpr); ok && b.Op == token.LOR {
			if err := walk(b.X); err != nil {
				return err
			}
			return walk(b.Y)
		}
		b, ok := e.(*ast.BinaryExpr)
		if !ok || b.Op != token.NEQ || c.text(b.Y) != "0" {
			return fmt.Errorf("guard disjunct is not `%s.f != 0`: %s", v, c.text(e))
		}
		sel, ok := b.X.(*ast.SelectorExpr)
		if !ok || c.text(sel.X) != v {
			return fmt.Errorf("guard disjunct is not `%s.f != 0`: %s", v, c.text(e))
		}
		out = append(out, sel.Sel.Name)
		return nil
	}
	if err := walk(be.Y); err != nil {
		return nil, err
	}
	sort.Strings(out)
	return out, nil
}

// encodeMethod translates the body of `func (p T) encode(b *buffer)`.
func (c *csCtx) encodeMethod(fd *ast.FuncDecl) ([]csEnc, error) {
	ps := csParams(fd.Type)
	if len(ps) != 1 || csRecvObj(fd) == nil {
		return nil, fmt.Errorf("encode must have a named receiver and one parameter")
	}
	csNormalize(map[*ast.Object]string{csRecvObj(fd): "p", ps[0]: "b"}, fd.Body)
	var out []csEnc
	loop := func(st ast.Stmt, x ast.Expr, body *ast.BlockStmt, elemOK func(arg, f string) bool) error {
		if len(body.List) != 1 {
			return fmt.Errorf("unrecognised loop: %s", c.text(st))
		}
		f, err := c.field(x)
		if err != nil {
			return fmt.Errorf("%s: %v", c.text(st), err)
		}
		fn, tag, arg, err := c.encCall(body.List[0])
		if err != nil {
			return err
		}
		if fn != "encodeMessage" {
			return fmt.Errorf("loop body is not encodeMessage: %s", c.text(st))
		}
		if !elemOK(c.text(arg), f) {
			return fmt.Errorf("loop does not encode the element it ranges over: %s", c.text(st))
		}
		out = append(out, csEnc{tag: tag, fn: "encodeMessage-in-loop", field: f})
		return nil
	}
	for _, st := range fd.Body.List {
		switch s := st.(type) {
		case *ast.ExprStmt:
			fn, tag, arg, err := c.encCall(s)
			if err != nil {
				return nil, err
			}
			if !csEncoders[fn] {
				return nil, fmt.Errorf("unknown encoder %s in %s", fn, c.text(s))
			}
			f, err := c.field(arg)
			if err != nil {
				return nil, fmt.Errorf("%s: %v", c.text(s), err)
			}
			out = append(out, csEnc{tag: tag, fn: fn, field: f})
		case *ast.RangeStmt:
			// for _, x := range p.F { encodeMessage(b, T, x) }   or
			// for i := range p.F { encodeMessage(b, T, &p.F[i]) }
			if s.Tok != token.DEFINE {
				return nil, fmt.Errorf("unrecognised loop: %s", c.text(s))
			}
			err := loop(s, s.X, s.Body, func(a, f string) bool {
				if s.Value != nil && a == c.text(s.Value) {
					return true
				}
				if s.Key != nil && c.text(s.Key) != "_" {
					elem := "p." + f + "[" + c.text(s.Key) + "]"
					return a == "&"+elem || a == elem
				}
				return false
			})
			if err != nil {
				return nil, err
			}
		case *ast.ForStmt:
			// for i := 0; i < len(p.F); i++ { encodeMessage(b, T, &p.F[i]) }
			o, e := c.countingLoop(s)
			if o == nil {
				return nil, fmt.Errorf("unrecognised loop: %s", c.text(s))
			}
			idx := c.text(s.Init.(*ast.AssignStmt).Lhs[0])
			err := loop(s, e, s.Body, func(a, f string) bool {
				elem := "p." + f + "[" + idx + "]"
				return a == "&"+elem || a == elem
			})
			if err != nil {
				return nil, err
			}
		case *ast.IfStmt:
			// if pt := p.F; pt != nil && (pt.a != 0 || pt.b != 0) { encodeMessage(b, T, p.F) }
			if s.Else != nil || len(s.Body.List) != 1 {
				return nil, fmt.Errorf("unrecognised conditional: %s", c.text(s))
			}
			var v, f string
			var err error
			if s.Init != nil {
				as, ok := s.Init.(*ast.AssignStmt)
				if !ok || as.Tok != token.DEFINE || len(as.Lhs) != 1 || len(as.Rhs) != 1 {
					return nil, fmt.Errorf("unrecognised guard initialiser: %s", c.text(s))
				}
				v = c.text(as.Lhs[0])
				if f, err = c.field(as.Rhs[0]); err != nil {
					return nil, fmt.Errorf("%s: %v", c.text(s), err)
				}
			} else {
				be, ok := ast.Unparen(s.Cond).(*ast.BinaryExpr)
				if !ok || be.Op != token.LAND {
					return nil, fmt.Errorf("unrecognised conditional: %s", c.text(s))
				}
				nn, ok := ast.Unparen(be.X).(*ast.BinaryExpr)
				if !ok || nn.Op != token.NEQ || c.text(nn.Y) != "nil" {
					return nil, fmt.Errorf("unrecognised conditional: %s", c.text(s))
				}
				v = c.text(nn.X)
				if f, err = c.field(nn.X); err != nil {
					return nil, fmt.Errorf("%s: %v", c.text(s), err)
				}
			}
			nz, err := c.guardCond(v, s.Cond)
			if err != nil {
				return nil, err
			}
			fn, tag, arg, err := c.encCall(s.Body.List[0])
			if err != nil {
				return nil, err
			}
			if a := c.text(arg); fn != "encodeMessage" || (a != "p."+f && a != v) {
				return nil, fmt.Errorf("guarded statement does not encode the guarded message: %s", c.text(s))
			}
			out = append(out, csEnc{tag: tag, fn: "encodeMessage-guarded", field: f, nonZero: nz})
		default:
			return nil, fmt.Errorf("unrecognised statement: %s", c.text(st))
		}
	}
	return out, nil
}

// ---- (b) decoder closures ------------------------------------------------------------------

// Statement forms of a decoder closure, after alpha-normalisation and alias substitution
// (L = a local, R = `m.(*T)`).
var (
	csL = `([gv]\d+)`
	csR = `m\.\(\*(\w+)\)`

	csStAlias     = regexp.MustCompile(`^` + csL + ` := ` + csR + `$`)
	csStNew       = regexp.MustCompile(`^` + csL + ` := (?:new\((\w+)\)|&(\w+)\{\})$`)
	csStLen       = regexp.MustCompile(`^` + csL + ` := len\(` + csR + `\.(\w+)\)$`)
	csStAppendVar = regexp.MustCompile(`^` + csR + `\.(\w+) = append\(` + csR + `\.(\w+), ` + csL + `\)$`)
	csStSetVar    = regexp.MustCompile(`^` + csR + `\.(\w+) = ` + csL + `$`)
	csStAppendZ   = regexp.MustCompile(`^` + csR + `\.(\w+) = append\(` + csR + `\.(\w+), (\w+)\{\}\)$`)
	csStRetCall   = regexp.MustCompile(`^return (decode\w+)\(b, (.+)\)$`)
	csStAsgCall   = regexp.MustCompile(`^` + csL + ` := (decode\w+)\(b, (.+)\)$`)
	csStIfCall    = regexp.MustCompile(`^if ` + csL + ` := (decode\w+)\(b, (.+)\); ` + csL + ` != nil \{ return ` + csL + ` \}$`)
	csStErrCheck  = regexp.MustCompile(`^if ` + csL + ` != nil \{ return ` + csL + ` \}$`)
	csStRetVar    = regexp.MustCompile(`^return ` + csL + `$`)
	csStRejectSet = regexp.MustCompile(`^if ` + csR + `\.(\w+) != 0 \{ return errConcatProfile \}$`)
	csStFirstEmp  = regexp.MustCompile(`^if ` + csR + `\.(\w+)\[0\] != "" \{ return errors\.New\("[^"]*"\) \}$`)
	csStScratch1  = regexp.MustCompile(`^` + csL + `\.Line = b\.tmpLines\[:0\]$`)
	csStScratch2  = regexp.MustCompile(`^b\.tmpLines = ` + csL + `\.Line\[:0\]$`)
	csStScratch3  = regexp.MustCompile(`^` + csL + `\.Line = append\(\[\]Line\(nil\), ` + csL + `\.Line\.\.\.\)$`)

	csArgDirect = regexp.MustCompile(`^&` + csR + `\.(\w+)$`)
	csArgVar    = regexp.MustCompile(`^` + csL + `$`)
	csArgElem   = regexp.MustCompile(`^&` + csR + `\.(\w+)\[` + csL + `\]$`)
)

// decoderEntry translates one element of a `[]decoder{…}` literal into facts: which decode function
// is called on which field of which receiver type, how a nested message is attached to the field,
// which additional checks are made, and that the closure returns the decoder's error.
func (c *csCtx) decoderEntry(i int, el ast.Expr) (csDec, error) {
	if id, ok := el.(*ast.Ident); ok && id.Name == "nil" {
		return csDec{index: i, fn: "nil"}, nil
	}
	fl, ok := el.(*ast.FuncLit)
	if !ok {
		return csDec{}, fmt.Errorf("entry %d is neither nil nor a function literal: %s", i, c.text(el))
	}
	ps := csParams(fl.Type)
	if len(ps) != 2 {
		return csDec{}, fmt.Errorf("entry %d: decoder closures take (b *buffer, m message)", i)
	}
	csNormalize(map[*ast.Object]string{ps[0]: "b", ps[1]: "m"}, fl.Body)
	c.substituteAliases(fl.Body)

	bad := func(format string, a ...any) (csDec, error) {
		return csDec{}, fmt.Errorf("entry %d: "+format, append([]any{i}, a...)...)
	}
	recvs := map[string]bool{}
	newVar := map[string]string{}    // local ↦ message type it points to
	lenVar := map[string][2]any{}    // local ↦ (field, statement index)
	appendedZ := map[string][2]any{} // field ↦ (message type, statement index)
	attach := map[string][2]string{} // local ↦ (how, field)
	var fn, arg, errVar, rejectField, firstEmptyField string
	callAt, scratch := -1, [3]int{-1, -1, -1}
	returned, errChecked := false, false
	n := len(fl.Body.List)
	for k, st := range fl.Body.List {
		s := c.text(st)
		last := k == n-1
		if m := csStAlias.FindStringSubmatch(s); m != nil {
			recvs[m[2]] = true
		} else if m := csStNew.FindStringSubmatch(s); m != nil {
			newVar[m[1]] = m[2] + m[3]
		} else if m := csStLen.FindStringSubmatch(s); m != nil {
			recvs[m[2]] = true
			lenVar[m[1]] = [2]any{m[3], k}
		} else if m := csStAppendVar.FindStringSubmatch(s); m != nil && m[2] == m[4] && newVar[m[5]] != "" {
			recvs[m[1]], recvs[m[3]] = true, true
			if _, dup := attach[m[5]]; dup {
				return bad("message attached twice: %s", s)
			}
			attach[m[5]] = [2]string{"append-new", m[2]}
		} else if m := csStSetVar.FindStringSubmatch(s); m != nil && newVar[m[3]] != "" {
			recvs[m[1]] = true
			if _, dup := attach[m[3]]; dup {
				return bad("message attached twice: %s", s)
			}
			attach[m[3]] = [2]string{"set-new", m[2]}
		} else if m := csStAppendZ.FindStringSubmatch(s); m != nil && m[2] == m[4] {
			recvs[m[1]], recvs[m[3]] = true, true
			appendedZ[m[2]] = [2]any{m[5], k}
		} else if m := csStRetCall.FindStringSubmatch(s); m != nil && last && callAt < 0 {
			fn, arg, callAt, returned = m[1], m[2], k, true
		} else if m := csStAsgCall.FindStringSubmatch(s); m != nil && callAt < 0 {
			errVar, fn, arg, callAt = m[1], m[2], m[3], k
		} else if m := csStIfCall.FindStringSubmatch(s); m != nil && callAt < 0 && m[1] == m[4] && m[1] == m[5] {
			errVar, fn, arg, callAt, errChecked = m[1], m[2], m[3], k, true
		} else if m := csStErrCheck.FindStringSubmatch(s); m != nil && m[1] == m[2] && m[1] == errVar && k == callAt+1 {
			errChecked = true
		} else if m := csStRetVar.FindStringSubmatch(s); m != nil && m[1] == errVar && last {
			returned = true
		} else if s == "return nil" && last && errChecked {
			returned = true
		} else if m := csStRejectSet.FindStringSubmatch(s); m != nil && callAt < 0 && rejectField == "" {
			recvs[m[1]] = true
			rejectField = m[2]
		} else if m := csStFirstEmp.FindStringSubmatch(s); m != nil && errChecked && firstEmptyField == "" {
			recvs[m[1]] = true
			firstEmptyField = m[2]
		} else if m := csStScratch1.FindStringSubmatch(s); m != nil && newVar[m[1]] != "" && callAt < 0 {
			scratch[0] = k
		} else if m := csStScratch2.FindStringSubmatch(s); m != nil && newVar[m[1]] != "" && callAt >= 0 {
			scratch[1] = k
		} else if m := csStScratch3.FindStringSubmatch(s); m != nil && m[1] == m[2] && newVar[m[1]] != "" && scratch[1] >= 0 {
			scratch[2] = k
		} else {
			return bad("statement of a decoder closure not understood: %s", s)
		}
	}
	if callAt < 0 || !returned {
		return bad("closure does not return the result of one decode call")
	}
	d := csDec{index: i, fn: fn}
	var mods []string
	if m := csArgDirect.FindStringSubmatch(arg); m != nil {
		recvs[m[1]] = true
		d.field = m[2]
	} else if m := csArgVar.FindStringSubmatch(arg); m != nil && newVar[m[1]] != "" {
		at, ok := attach[m[1]]
		if !ok {
			return bad("decoded message is attached to no field")
		}
		d.field, d.msg = at[1], newVar[m[1]]
		mods = append(mods, at[0])
	} else if m := csArgElem.FindStringSubmatch(arg); m != nil {
		recvs[m[1]] = true
		lv, ok1 := lenVar[m[3]]
		az, ok2 := appendedZ[m[2]]
		if !ok1 || !ok2 || lv[0].(string) != m[2] || !(lv[1].(int) < az[1].(int) && az[1].(int) < callAt) {
			return bad("element decoded in place is not the one just appended: %s", arg)
		}
		d.field, d.msg = m[2], az[0].(string)
		mods = append(mods, "append-value")
	} else {
		return bad("target of the decode call not understood: %s", arg)
	}
	for v := range attach {
		if csArgVar.FindStringSubmatch(arg) == nil || v != arg {
			return bad("a message is attached that is not the decoded one")
		}
	}
	if scratch != [3]int{-1, -1, -1} {
		if scratch[0] < 0 || scratch[1] < 0 || scratch[2] < 0 {
			return bad("incomplete handling of the shared b.tmpLines scratch space")
		}
		if len(mods) == 1 && mods[0] == "append-new" {
			mods[0] = "append-new-shared-lines"
		} else {
			mods = append(mods, "shared-lines")
		}
	}
	if rejectField != "" {
		if rejectField == d.field {
			mods = append(mods, "reject-if-set")
		} else {
			mods = append(mods, "reject-if-set("+rejectField+")")
		}
	}
	if firstEmptyField != "" {
		if firstEmptyField == d.field {
			mods = append(mods, "first-must-be-empty")
		} else {
			mods = append(mods, "first-must-be-empty("+firstEmptyField+")")
		}
	}
	if len(mods) > 0 {
		d.fn += "/" + strings.Join(mods, "+")
	}
	if len(recvs) != 1 {
		return bad("closure asserts %d receiver types", len(recvs))
	}
	for r := range recvs {
		d.recv = r
	}
	return d, nil
}

func csFuncs(f *ast.File) map[string]*ast.FuncDecl {
	m := map[string]*ast.FuncDecl{}
	for _, d := range f.Decls {
		if fd, ok := d.(*ast.FuncDecl); ok && fd.Body != nil {
			key := fd.Name.Name
			if fd.Recv != nil {
				key = csRecvType(fd) + "." + key
			}
			m[key] = fd
		}
	}
	return m
}

func (c *csCtx) messages(f *ast.File) ([]csMsg, error) {
	tables := map[string]*ast.CompositeLit{}
	for _, d := range f.Decls {
		gd, ok := d.(*ast.GenDecl)
		if !ok || gd.Tok != token.VAR {
			continue
		}
		for _, sp := range gd.Specs {
			vs := sp.(*ast.ValueSpec)
			for i, n := range vs.Names {
				if i < len(vs.Values) {
					if cl, ok := vs.Values[i].(*ast.CompositeLit); ok && c.text(cl.Type) == "[]decoder" {
						tables[n.Name] = cl
					}
				}
			}
		}
	}
	funcs := csFuncs(f)
	var out []csMsg
	used := map[string]bool{}
	for _, d := range f.Decls {
		fd, ok := d.(*ast.FuncDecl)
		if !ok || fd.Recv == nil || fd.Name.Name != "encode" || fd.Body == nil {
			continue
		}
		name := csRecvType(fd)
		if name == "" {
			return nil, fmt.Errorf("encode method with an unrecognised receiver")
		}
		msg := csMsg{name: name}
		var err error
		if msg.enc, err = c.encodeMethod(fd); err != nil {
			return nil, fmt.Errorf("(%s).encode: %v", name, err)
		}
		dm := funcs[name+".decoder"]
		if dm == nil || len(dm.Body.List) != 1 {
			return nil, fmt.Errorf("(%s).decoder: not a single return statement", name)
		}
		rs, ok := dm.Body.List[0].(*ast.ReturnStmt)
		if !ok || len(rs.Results) != 1 {
			return nil, fmt.Errorf("(%s).decoder: not a single return statement", name)
		}
		id, ok := rs.Results[0].(*ast.Ident)
		if !ok || tables[id.Name] == nil {
			return nil, fmt.Errorf("(%s).decoder does not return a package-level []decoder literal: %s", name, c.text(rs))
		}
		msg.decVar = id.Name
		used[id.Name] = true
		for i, el := range tables[id.Name].Elts {
			if _, isKV := el.(*ast.KeyValueExpr); isKV {
				return nil, fmt.Errorf("%s[%d]: indexed element not supported", id.Name, i)
			}
			de, err := c.decoderEntry(i, el)
			if err != nil {
				return nil, fmt.Errorf("%s: %v", id.Name, err)
			}
			msg.dec = append(msg.dec, de)
		}
		out = append(out, msg)
	}
	for n := range tables {
		if !used[n] {
			return nil, fmt.Errorf("decoder table %s belongs to no message type", n)
		}
	}
	if len(out) == 0 {
		return nil, fmt.Errorf("no encode methods found")
	}
	return out, nil
}

// ---- (d) preEncode / postDecode ------------------------------------------------------------

// internOrder lists the addString calls of preEncode in source order: the symbolic path of the
// interned expression under the symbolic paths of the enclosing loops and conditions.
//
// The mandatory empty string at index 0 is a fact of its own (`seeded`): it is interned before
// everything else either by a leading `addString(strings, "")` in preEncode itself or inside the
// function that creates the table (`strings := newXxx(…)` whose body calls `addString(_, "")` as its
// only addString call, outside any loop or condition).  It is not part of the returned list.
func (c *csCtx) internOrder(f *ast.File, fd *ast.FuncDecl) (sites []csSite, seeded bool, err error) {
	if csRecvObj(fd) == nil {
		return nil, false, fmt.Errorf("preEncode has no named receiver")
	}
	defer func() {
		if err != nil || len(sites) == 0 {
			return
		}
		if len(sites[0].ctx) == 0 && sites[0].arg == `""` {
			sites, seeded = sites[1:], true
			return
		}
		seeded = c.seededByConstructor(f, fd)
	}()
	sites, err = c.internSites(fd)
	return sites, false, err
}

// seededByConstructor: the table handed to the addString calls of preEncode is created by a call
// to a function of this file that interns "" (and nothing else) unconditionally.
func (c *csCtx) seededByConstructor(f *ast.File, fd *ast.FuncDecl) bool {
	var tableObj *ast.Object
	ast.Inspect(fd.Body, func(n ast.Node) bool {
		if call, ok := n.(*ast.CallExpr); ok && tableObj == nil {
			if id, ok := call.Fun.(*ast.Ident); ok && id.Name == "addString" && len(call.Args) == 2 {
				if t, ok := call.Args[0].(*ast.Ident); ok {
					tableObj = t.Obj
				}
			}
		}
		return true
	})
	if tableObj == nil {
		return false
	}
	as, ok := tableObj.Decl.(*ast.AssignStmt)
	if !ok || len(as.Lhs) != 1 || len(as.Rhs) != 1 || len(fd.Body.List) == 0 || fd.Body.List[0] != ast.Stmt(as) {
		return false
	}
	call, ok := as.Rhs[0].(*ast.CallExpr)
	if !ok {
		return false
	}
	ctor, ok := call.Fun.(*ast.Ident)
	if !ok {
		return false
	}
	cd := csFuncs(f)[ctor.Name]
	if cd == nil || cd.Recv != nil {
		return false
	}
	seeds, others := 0, 0
	for _, st := range cd.Body.List {
		es, isExpr := st.(*ast.ExprStmt)
		top := false
		if isExpr {
			if cl, ok := es.X.(*ast.CallExpr); ok {
				if id, ok := cl.Fun.(*ast.Ident); ok && id.Name == "addString" && len(cl.Args) == 2 && c.text(cl.Args[1]) == `""` {
					seeds++
					top = true
				}
			}
		}
		if !top && c.calls(st, "addString") {
			others++
		}
	}
	return seeds == 1 && others == 0
}

func (c *csCtx) internSites(fd *ast.FuncDecl) ([]csSite, error) {
	csNormalize(map[*ast.Object]string{csRecvObj(fd): "p"}, fd.Body)
	sc := c.scan(fd.Body)
	header := func(n ast.Node) string {
		switch s := n.(type) {
		case *ast.RangeStmt:
			return "range " + c.sym(sc, s.X)
		case *ast.ForStmt:
			if o, e := c.countingLoop(s); o != nil {
				return "range " + c.sym(sc, e)
			}
			if s.Cond != nil {
				return "for " + c.sym(sc, s.Cond)
			}
			return "for"
		case *ast.IfStmt:
			return "if " + c.sym(sc, s.Cond)
		case *ast.SwitchStmt, *ast.TypeSwitchStmt, *ast.SelectStmt:
			return "switch"
		case *ast.CaseClause:
			return "case"
		case *ast.FuncLit:
			return "func"
		}
		return ""
	}
	var out []csSite
	var stack []ast.Node
	var bad error
	ast.Inspect(fd.Body, func(n ast.Node) bool {
		if n == nil {
			stack = stack[:len(stack)-1]
			return true
		}
		if call, ok := n.(*ast.CallExpr); ok {
			if id, ok := call.Fun.(*ast.Ident); ok && id.Name == "addString" {
				if len(call.Args) != 2 {
					bad = fmt.Errorf("addString with %d arguments", len(call.Args))
				} else {
					ctx := []string{}
					for i, s := range stack {
						h := header(s)
						if ifs, ok := s.(*ast.IfStmt); ok && i+1 < len(stack) && stack[i+1] == ifs.Else {
							h = "else of " + h
						}
						if h != "" {
							ctx = append(ctx, h)
						}
					}
					out = append(out, csSite{ctx: ctx, arg: c.sym(sc, call.Args[1])})
				}
			}
		}
		stack = append(stack, n)
		return true
	})
	if bad != nil {
		return nil, bad
	}
	if len(out) == 0 {
		return nil, fmt.Errorf("preEncode calls addString nowhere")
	}
	return out, nil
}

var (
	csMakeInline = regexp.MustCompile(`^make\(\[\]\*(\w+), (?:len\(p\.(\w+)\) ?\+ ?(\d+)|(\d+) ?\+ ?len\(p\.(\w+)\))\)$`)
	csMakeHelper = regexp.MustCompile(`^make\(\[\]\*(\w+), (?:a0 ?\+ ?(\d+)|(\d+) ?\+ ?a0)\)$`)
	csLenField   = regexp.MustCompile(`^len\(p\.(\w+)\)$`)
)

// unguarded counts the index expressions `<tbl>[idx]` inside `root` that are NOT protected by the
// guard `idx < uint64(len(<tbl>))`: either the then-branch of such an `if`, or an earlier statement of
// an enclosing block `if idx >= uint64(len(<tbl>)) { …; return/continue/break }`.
func (c *csCtx) unguarded(root ast.Node, isTable func(e ast.Expr) bool) (sites, bad int) {
	terminates := func(b *ast.BlockStmt) bool {
		if len(b.List) == 0 {
			return false
		}
		switch s := b.List[len(b.List)-1].(type) {
		case *ast.ReturnStmt:
			return true
		case *ast.BranchStmt:
			return s.Tok == token.CONTINUE || s.Tok == token.BREAK
		case *ast.ExprStmt:
			if call, ok := s.X.(*ast.CallExpr); ok {
				return c.text(call.Fun) == "panic"
			}
		}
		return false
	}
	var stack []ast.Node
	ast.Inspect(root, func(n ast.Node) bool {
		if n == nil {
			stack = stack[:len(stack)-1]
			return true
		}
		if ie, ok := n.(*ast.IndexExpr); ok && isTable(ie.X) {
			sites++
			idx, tbl := c.text(ie.Index), c.text(ie.X)
			lt := map[string]bool{idx + " < uint64(len(" + tbl + "))": true, "uint64(len(" + tbl + ")) > " + idx: true}
			ge := map[string]bool{idx + " >= uint64(len(" + tbl + "))": true, "uint64(len(" + tbl + ")) <= " + idx: true}
			found := false
			for i, s := range stack {
				if ifs, ok := s.(*ast.IfStmt); ok && i+1 < len(stack) && stack[i+1] == ast.Node(ifs.Body) && lt[c.text(ifs.Cond)] {
					found = true
				}
				if blk, ok := s.(*ast.BlockStmt); ok && i+1 < len(stack) {
					for _, st := range blk.List {
						if ast.Node(st) == stack[i+1] {
							break
						}
						if ifs, ok := st.(*ast.IfStmt); ok && ifs.Init == nil && ge[c.text(ifs.Cond)] && terminates(ifs.Body) {
							found = true
						}
					}
				}
			}
			if !found {
				bad++
			}
		}
		stack = append(stack, n)
		return true
	})
	return
}

// denseTables recognises the id tables of postDecode in one of two shapes:
//
//	inline:  x := make([]*T, len(p.F)+N) in postDecode, indexed there;
//	helper:  x := ctor[T](len(p.F)) where `func ctor[T any](n int) …` returns a struct literal with a
//	         field `dense: make([]*T, n+N)` and the methods of that struct type index `recv.dense`.
//
// It returns nil when the code has neither shape (the obligation is then vacuous; the dynamic
// correspondence and C02's postDecode_id_tables_total remain).
func (c *csCtx) denseTables(f *ast.File, fd *ast.FuncDecl) ([]csDense, string) {
	if csRecvObj(fd) == nil {
		return nil, "unrecognised"
	}
	csNormalize(map[*ast.Object]string{csRecvObj(fd): "p"}, fd.Body)
	// inline shape
	var out []csDense
	idx := map[*ast.Object]int{}
	for _, st := range fd.Body.List {
		as, ok := st.(*ast.AssignStmt)
		if !ok || as.Tok != token.DEFINE || len(as.Lhs) != 1 || len(as.Rhs) != 1 {
			continue
		}
		m := csMakeInline.FindStringSubmatch(c.text(as.Rhs[0]))
		if m == nil {
			continue
		}
		n, _ := strconv.Atoi(m[3] + m[4])
		idx[as.Lhs[0].(*ast.Ident).Obj] = len(out)
		out = append(out, csDense{elem: m[1], table: m[2] + m[5], extra: n})
	}
	if len(out) > 0 {
		for o, k := range idx {
			_, bad := c.unguarded(fd.Body, func(e ast.Expr) bool {
				id, ok := e.(*ast.Ident)
				return ok && id.Obj == o
			})
			out[k].unguarded = bad
		}
		return out, "inline"
	}
	// helper shape: find constructors
	type helper struct {
		typ, field string
		extra      int
	}
	ctors := map[string]helper{}
	for _, d := range f.Decls {
		hd, ok := d.(*ast.FuncDecl)
		if !ok || hd.Recv != nil || hd.Body == nil || len(hd.Body.List) != 1 {
			continue
		}
		ps := csParams(hd.Type)
		rs, ok := hd.Body.List[0].(*ast.ReturnStmt)
		if !ok || len(ps) != 1 || len(rs.Results) != 1 {
			continue
		}
		csNormalize(map[*ast.Object]string{ps[0]: "a0"}, hd.Body)
		e := ast.Unparen(rs.Results[0])
		if u, ok := e.(*ast.UnaryExpr); ok && u.Op == token.AND {
			e = u.X
		}
		cl, ok := e.(*ast.CompositeLit)
		if !ok {
			continue
		}
		t := cl.Type
		if ix, ok := t.(*ast.IndexExpr); ok {
			t = ix.X
		}
		tid, ok := t.(*ast.Ident)
		if !ok {
			continue
		}
		for _, el := range cl.Elts {
			kv, ok := el.(*ast.KeyValueExpr)
			if !ok {
				continue
			}
			if m := csMakeHelper.FindStringSubmatch(c.text(kv.Value)); m != nil {
				n, _ := strconv.Atoi(m[2] + m[3])
				ctors[hd.Name.Name] = helper{typ: tid.Name, field: c.text(kv.Key), extra: n}
			}
		}
	}
	var used *helper
	for _, st := range fd.Body.List {
		as, ok := st.(*ast.AssignStmt)
		if !ok || as.Tok != token.DEFINE || len(as.Lhs) != 1 || len(as.Rhs) != 1 {
			continue
		}
		call, ok := as.Rhs[0].(*ast.CallExpr)
		if !ok || len(call.Args) != 1 {
			continue
		}
		fun, elem := call.Fun, ""
		if ix, ok := fun.(*ast.IndexExpr); ok {
			fun, elem = ix.X, c.text(ix.Index)
		}
		id, ok := fun.(*ast.Ident)
		if !ok {
			continue
		}
		h, ok := ctors[id.Name]
		m := csLenField.FindStringSubmatch(c.text(call.Args[0]))
		if !ok || m == nil {
			continue
		}
		if used != nil && *used != h {
			return nil, "unrecognised" // two different helpers: not a shape we know
		}
		hh := h
		used = &hh
		if elem == "" {
			elem = m[1]
		}
		out = append(out, csDense{elem: elem, table: m[1], extra: h.extra})
	}
	if used == nil {
		return nil, "unrecognised"
	}
	// every index expression on recv.<field> in the methods of the helper type
	sites, bad := 0, 0
	for _, d := range f.Decls {
		md, ok := d.(*ast.FuncDecl)
		if !ok || md.Recv == nil || md.Body == nil || csRecvType(md) != used.typ || csRecvObj(md) == nil {
			continue
		}
		fixed := map[*ast.Object]string{csRecvObj(md): "t"}
		csNormalize(fixed, md.Body)
		s, b := c.unguarded(md.Body, func(e ast.Expr) bool { return c.text(e) == "t."+used.field })
		sites, bad = sites+s, bad+b
	}
	if sites == 0 {
		return nil, "unrecognised"
	}
	for k := range out {
		out[k].unguarded = bad
	}
	return out, "helper " + used.typ
}

// ---- (c) proto.go --------------------------------------------------------------------------

func csPositional(fd *ast.FuncDecl) {
	fixed := map[*ast.Object]string{}
	for i, o := range csParams(fd.Type) {
		fixed[o] = fmt.Sprintf("a%d", i)
	}
	csNormalize(fixed, fd.Body)
}

func (c *csCtx) calls(n ast.Node, names ...string) bool {
	found := false
	ast.Inspect(n, func(x ast.Node) bool {
		if call, ok := x.(*ast.CallExpr); ok {
			if id, ok := call.Fun.(*ast.Ident); ok {
				for _, nm := range names {
					if id.Name == nm {
						found = true
					}
				}
			}
		}
		return true
	})
	return found
}

// packedThreshold returns N such that the encoder uses the packed form iff len(x) > N.
func (c *csCtx) packedThreshold(fd *ast.FuncDecl, single string) (int, error) {
	if fd == nil {
		return 0, fmt.Errorf("function not found")
	}
	csPositional(fd)
	for k, st := range fd.Body.List {
		ifs, ok := st.(*ast.IfStmt)
		if !ok || ifs.Init != nil {
			continue
		}
		be, ok := ast.Unparen(ifs.Cond).(*ast.BinaryExpr)
		if !ok {
			continue
		}
		op, l, r := be.Op, be.X, be.Y
		if _, isConst := c.intConst(l); isConst { // N op len(x)  ⇒  len(x) op' N
			l, r = r, l
			op = map[token.Token]token.Token{token.LSS: token.GTR, token.GTR: token.LSS, token.LEQ: token.GEQ, token.GEQ: token.LEQ}[op]
		}
		n, ok := c.intConst(r)
		if !ok || c.text(l) != "len(a2)" {
			continue
		}
		var rest ast.Node = &ast.BlockStmt{List: fd.Body.List[k+1:]}
		if ifs.Else != nil {
			rest = ifs.Else
		}
		thenPacked := c.calls(ifs.Body, "encodeLength") && !c.calls(ifs.Body, single)
		thenSingle := c.calls(ifs.Body, single) && !c.calls(ifs.Body, "encodeLength")
		restPacked := c.calls(rest, "encodeLength") && !c.calls(rest, single)
		restSingle := c.calls(rest, single) && !c.calls(rest, "encodeLength")
		switch {
		case thenPacked && restSingle && op == token.GTR:
			return n, nil
		case thenPacked && restSingle && op == token.GEQ:
			return n - 1, nil
		case thenSingle && restPacked && op == token.LEQ:
			return n, nil
		case thenSingle && restPacked && op == token.LSS:
			return n - 1, nil
		}
		return 0, fmt.Errorf("cannot tell the packed from the unpacked branch of `if %s`", c.text(ifs.Cond))
	}
	return 0, fmt.Errorf("no test of len(x) against a constant found")
}

// varintLimit returns N such that decodeVarint refuses to read the byte with index N (reads at most
// N bytes): `i >= N`, `i == N`, a loop bound `i < N`, or a truncation `len(data) > N`; N a literal or a
// package-level constant.
func (c *csCtx) varintLimit(fd *ast.FuncDecl) (int, error) {
	if fd == nil {
		return 0, fmt.Errorf("function not found")
	}
	csPositional(fd)
	idx := map[*ast.Object]bool{}
	ast.Inspect(fd.Body, func(n ast.Node) bool {
		switch s := n.(type) {
		case *ast.ForStmt:
			if as, ok := s.Init.(*ast.AssignStmt); ok && as.Tok == token.DEFINE {
				for _, l := range as.Lhs {
					if id, ok := l.(*ast.Ident); ok && id.Obj != nil {
						idx[id.Obj] = true
					}
				}
			}
		case *ast.RangeStmt:
			if id, ok := s.Key.(*ast.Ident); ok && id.Obj != nil && s.Tok == token.DEFINE {
				idx[id.Obj] = true
			}
		}
		return true
	})
	cands := map[int]bool{}
	ast.Inspect(fd.Body, func(n ast.Node) bool {
		be, ok := n.(*ast.BinaryExpr)
		if !ok {
			return true
		}
		op, l, r := be.Op, ast.Unparen(be.X), ast.Unparen(be.Y)
		if _, isConst := c.intConst(l); isConst {
			l, r = r, l
			op = map[token.Token]token.Token{token.LSS: token.GTR, token.GTR: token.LSS, token.LEQ: token.GEQ, token.GEQ: token.LEQ, token.EQL: token.EQL, token.NEQ: token.NEQ}[op]
		}
		n2, ok := c.intConst(r)
		if !ok {
			return true
		}
		if id, ok := l.(*ast.Ident); ok && id.Obj != nil && idx[id.Obj] {
			switch op {
			case token.GEQ, token.EQL, token.LSS, token.NEQ:
				cands[n2] = true
			case token.GTR, token.LEQ:
				cands[n2+1] = true
			}
		} else if call, ok := l.(*ast.CallExpr); ok && c.text(call.Fun) == "len" && n2 > 0 {
			switch op {
			case token.GTR, token.LEQ:
				cands[n2] = true
			case token.GEQ, token.LSS:
				cands[n2-1] = true
			}
		}
		return true
	})
	if len(cands) != 1 {
		return 0, fmt.Errorf("byte limit not found: %d candidate comparisons of the loop index with a constant", len(cands))
	}
	for n := range cands {
		return n, nil
	}
	return 0, nil
}

var (
	csShift = regexp.MustCompile(`^int\(\w+ >> (\w+)\)$`)
	csDiv   = regexp.MustCompile(`^int\(\w+ / (\w+)\)$`)
	csMask  = regexp.MustCompile(`^int\(\w+ & (\w+)\)$`)
	csMod   = regexp.MustCompile(`^int\(\w+ % (\w+)\)$`)
)

func (c *csCtx) num(s string) (int, bool) {
	if v, err := strconv.ParseInt(s, 0, 64); err == nil {
		return int(v), true
	}
	v, ok := c.consts[s]
	return v, ok
}

func csLog2(n int) (int, bool) {
	for k := 0; k < 62; k++ {
		if 1<<k == n {
			return k, true
		}
	}
	return 0, false
}

func (c *csCtx) decodeField(fd *ast.FuncDecl, pr *csProto) error {
	if fd == nil {
		return fmt.Errorf("function not found")
	}
	csPositional(fd)
	pr.fieldShift, pr.typeMask = -1, -1
	var sw *ast.SwitchStmt
	for _, st := range fd.Body.List {
		switch s := st.(type) {
		case *ast.AssignStmt:
			if len(s.Lhs) == 1 && len(s.Rhs) == 1 {
				rhs := c.text(s.Rhs[0])
				switch c.text(s.Lhs[0]) {
				case "a0.field":
					if m := csShift.FindStringSubmatch(rhs); m != nil {
						if v, ok := c.num(m[1]); ok {
							pr.fieldShift = v
						}
					} else if m := csDiv.FindStringSubmatch(rhs); m != nil {
						if v, ok := c.num(m[1]); ok {
							if k, ok := csLog2(v); ok {
								pr.fieldShift = k
							}
						}
					}
					if pr.fieldShift < 0 {
						return fmt.Errorf("field number is not `x >> N`: %s", c.text(s))
					}
				case "a0.typ":
					if m := csMask.FindStringSubmatch(rhs); m != nil {
						if v, ok := c.num(m[1]); ok {
							pr.typeMask = v
						}
					} else if m := csMod.FindStringSubmatch(rhs); m != nil {
						if v, ok := c.num(m[1]); ok {
							pr.typeMask = v - 1
						}
					}
					if pr.typeMask < 0 {
						return fmt.Errorf("wire type is not `x & N`: %s", c.text(s))
					}
				}
			}
		case *ast.SwitchStmt:
			if s.Tag != nil && c.text(s.Tag) == "a0.typ" {
				sw = s
			}
		}
	}
	if pr.fieldShift < 0 || pr.typeMask < 0 || sw == nil {
		return fmt.Errorf("field/type split or `switch b.typ` not found")
	}
	for _, cc := range sw.Body.List {
		cl := cc.(*ast.CaseClause)
		if cl.List == nil {
			// default: must return a non-nil error
			if len(cl.Body) == 1 {
				if rs, ok := cl.Body[0].(*ast.ReturnStmt); ok && len(rs.Results) == 2 && c.text(rs.Results[1]) != "nil" {
					pr.defaultRejects = true
				}
			}
			continue
		}
		vals := map[int]bool{}
		for _, b := range cl.Body {
			ast.Inspect(b, func(n ast.Node) bool {
				switch e := n.(type) {
				case *ast.BasicLit:
					if v, ok := csIntLit(e); ok {
						vals[v] = true
					}
				case *ast.Ident:
					if v, ok := c.consts[e.Name]; ok && e.Obj != nil && e.Obj.Kind == ast.Con {
						vals[v] = true
					}
				}
				return true
			})
		}
		for _, e := range cl.List {
			t, ok := c.intConst(e)
			if !ok {
				return fmt.Errorf("case label is not an integer constant: %s", c.text(e))
			}
			pr.wireTypes = append(pr.wireTypes, t)
			if len(vals) > 1 {
				return fmt.Errorf("wire type %d: inconsistent sizes in %s", t, c.text(cl))
			}
			for v := range vals {
				pr.fixedSizes = append(pr.fixedSizes, [2]int{t, v})
			}
		}
	}
	return nil
}

// ---- rendering -----------------------------------------------------------------------------

func csStrList(l []string) string {
	var q []string
	for _, s := range l {
		q = append(q, leanStr(s))
	}
	return "[" + strings.Join(q, ", ") + "]"
}

func csNatList(l []int) string {
	var q []string
	for _, n := range l {
		q = append(q, strconv.Itoa(n))
	}
	return "[" + strings.Join(q, ", ") + "]"
}

func genCodecSchema(e *Env) (string, error) {
	fset, enc, err := parseFile(e, "profile/encode.go")
	if err != nil {
		return "", err
	}
	c := &csCtx{fset: fset}
	c.collectConsts(enc)
	msgs, err := c.messages(enc)
	if err != nil {
		return "", fmt.Errorf("profile/encode.go: %v", err)
	}
	ef := csFuncs(enc)
	if ef["Profile.preEncode"] == nil || ef["Profile.postDecode"] == nil {
		return "", fmt.Errorf("profile/encode.go: (*Profile).preEncode / postDecode not found")
	}
	sites, seeded, err := c.internOrder(enc, ef["Profile.preEncode"])
	if err != nil {
		return "", fmt.Errorf("profile/encode.go: preEncode: %v", err)
	}
	dense, denseShape := c.denseTables(enc, ef["Profile.postDecode"])

	pfset, pf, err := parseFile(e, "profile/proto.go")
	if err != nil {
		return "", err
	}
	pc := &csCtx{fset: pfset}
	pc.collectConsts(pf)
	pfn := csFuncs(pf)
	var pr csProto
	if pr.packedU, err = pc.packedThreshold(pfn["encodeUint64s"], "encodeUint64"); err != nil {
		return "", fmt.Errorf("profile/proto.go: encodeUint64s: %v", err)
	}
	if pr.packedI, err = pc.packedThreshold(pfn["encodeInt64s"], "encodeInt64"); err != nil {
		return "", fmt.Errorf("profile/proto.go: encodeInt64s: %v", err)
	}
	if pr.varintLimit, err = pc.varintLimit(pfn["decodeVarint"]); err != nil {
		return "", fmt.Errorf("profile/proto.go: decodeVarint: %v", err)
	}
	if err = pc.decodeField(pfn["decodeField"], &pr); err != nil {
		return "", fmt.Errorf("profile/proto.go: decodeField: %v", err)
	}

	var b strings.Builder
	b.WriteString("/- GENERATED by /verif/tools/extract/codecschema.go from profile/encode.go and profile/proto.go.\n")
	b.WriteString("   Regenerated from the current source on every `bin/check C01` / `bin/check C02`; do not edit. -/\n")
	b.WriteString("namespace PV.Gen.CodecSchema\n\n")
	b.WriteString("/-- one statement of an `encode` method; `guardNonZero` = the fields a guarded message tests (sorted) -/\n")
	b.WriteString("structure EncStmt where\n  tag : Nat\n  fn : String\n  field : String\n  guardNonZero : List String\n  deriving DecidableEq, Repr\n\n")
	b.WriteString("/-- one entry of a `[]decoder` table -/\n")
	b.WriteString("structure DecEntry where\n  index : Nat\n  fn : String\n  recv : String\n  field : String\n  msg : String\n  deriving DecidableEq, Repr\n\n")
	b.WriteString("structure Message where\n  name : String\n  decoderVar : String\n  enc : List EncStmt\n  dec : List DecEntry\n  deriving DecidableEq, Repr\n\n")
	b.WriteString("def all : List Message := [\n")
	for i, m := range msgs {
		fmt.Fprintf(&b, "  { name := %s, decoderVar := %s,\n    enc := [\n", leanStr(m.name), leanStr(m.decVar))
		for j, s := range m.enc {
			fmt.Fprintf(&b, "      { tag := %d, fn := %s, field := %s, guardNonZero := %s }", s.tag, leanStr(s.fn), leanStr(s.field), csStrList(s.nonZero))
			if j+1 < len(m.enc) {
				b.WriteString(",")
			}
			b.WriteString("\n")
		}
		b.WriteString("    ],\n    dec := [\n")
		for j, d := range m.dec {
			fmt.Fprintf(&b, "      { index := %d, fn := %s, recv := %s, field := %s, msg := %s }", d.index, leanStr(d.fn), leanStr(d.recv), leanStr(d.field), leanStr(d.msg))
			if j+1 < len(m.dec) {
				b.WriteString(",")
			}
			b.WriteString("\n")
		}
		b.WriteString("    ] }")
		if i+1 < len(msgs) {
			b.WriteString(",")
		}
		b.WriteString("\n")
	}
	b.WriteString("]\n\n")
	b.WriteString("/-- facts read from profile/proto.go: packed form iff len > threshold; decodeVarint reads at most\n    `varintLimit` bytes; key = field <<< fieldShift ||| type, type = key &&& typeMask -/\n")
	b.WriteString("structure Proto where\n  packedThresholdUint64s : Nat\n  packedThresholdInt64s : Nat\n  varintLimit : Nat\n  fieldShift : Nat\n  typeMask : Nat\n  wireTypes : List Nat\n  defaultRejects : Bool\n  fixedSizes : List (Nat × Nat)\n  deriving DecidableEq, Repr\n\n")
	var fs []string
	for _, p := range pr.fixedSizes {
		fs = append(fs, fmt.Sprintf("(%d, %d)", p[0], p[1]))
	}
	fmt.Fprintf(&b, "def proto : Proto :=\n  { packedThresholdUint64s := %d, packedThresholdInt64s := %d, varintLimit := %d,\n    fieldShift := %d, typeMask := %d, wireTypes := %s, defaultRejects := %v,\n    fixedSizes := [%s] }\n\n",
		pr.packedU, pr.packedI, pr.varintLimit, pr.fieldShift, pr.typeMask, csNatList(pr.wireTypes), pr.defaultRejects, strings.Join(fs, ", "))
	b.WriteString("/-- one `addString(strings, arg)` call of preEncode: symbolic path of the argument under the\n    symbolic paths of the enclosing loops / conditions (outermost first) -/\n")
	b.WriteString("structure InternSite where\n  ctx : List String\n  arg : String\n  deriving DecidableEq, Repr\n\n")
	fmt.Fprintf(&b, "/-- the empty string is interned before everything else (a leading `addString(strings, \"\")` in\n    preEncode or in the function creating the table); it is not listed in `internOrder` -/\ndef emptyStringInternedFirst : Bool := %v\n\n", seeded)
	b.WriteString("def internOrder : List InternSite := [\n")
	for i, s := range sites {
		fmt.Fprintf(&b, "  { ctx := %s,\n    arg := %s }", csStrList(s.ctx), leanStr(s.arg))
		if i+1 < len(sites) {
			b.WriteString(",")
		}
		b.WriteString("\n")
	}
	b.WriteString("]\n\n")
	b.WriteString("/-- a dense id table of postDecode: `make([]*elem, len(p.table)+extra)`; `unguardedIndexes` = index\n    expressions on it that are not under `id < uint64(len(table))` -/\n")
	b.WriteString("structure DenseTable where\n  elem : String\n  table : String\n  extra : Nat\n  unguardedIndexes : Nat\n  deriving DecidableEq, Repr\n\n")
	fmt.Fprintf(&b, "/-- shape in which the id-table code was recognised: %s -/\n", denseShape)
	if dense == nil {
		b.WriteString("def denseTables : Option (List DenseTable) := none\n")
	} else {
		b.WriteString("def denseTables : Option (List DenseTable) := some [\n")
		for i, d := range dense {
			fmt.Fprintf(&b, "  { elem := %s, table := %s, extra := %d, unguardedIndexes := %d }", leanStr(d.elem), leanStr(d.table), d.extra, d.unguarded)
			if i+1 < len(dense) {
				b.WriteString(",")
			}
			b.WriteString("\n")
		}
		b.WriteString("]\n")
	}
	b.WriteString("\nend PV.Gen.CodecSchema\n")
	return b.String(), nil
}
