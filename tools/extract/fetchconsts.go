// Generator for lean/PprofVerif/Gen/FetchConsts.lean (property C16).
//
// It reads internal/driver/fetch.go of the CURRENT tree and translates the facts the Lean model
// Model/Fetch.lean assumes about the shape of chunkedGrab and concurrentGrab:
//
//   - the value of `const chunkSize` inside chunkedGrab (evaluated as a Go constant expression);
//   - the chunk loop is `for start := 0; start < len(sources); start += chunkSize` with
//     `end := start + chunkSize`, clipped by `if end > len(sources) { end = len(sources) }`, and the
//     chunk handed to concurrentGrab is `sources[start:end]`;
//   - concurrentGrab does `wg.Add(len(sources))`, starts one goroutine per element of `sources`
//     that receives `&sources[i]` and defers `wg.Done()`, and calls `wg.Wait()` BEFORE the loop
//     that collects the results (the barrier of the model).
//
// If any of these shapes is not recognised the generator fails (the Gen file is then deleted by
// bin/check and the obligations that import it are reported as broken) — it never guesses.
package main

import (
	"fmt"
	"go/ast"
	"go/token"
	"go/types"
	"strings"
)

func init() { register("FetchConsts.lean", genFetchConsts) }

func fcFunc(f *ast.File, name string) *ast.FuncDecl {
	for _, d := range f.Decls {
		if fd, ok := d.(*ast.FuncDecl); ok && fd.Recv == nil && fd.Name.Name == name && fd.Body != nil {
			return fd
		}
	}
	return nil
}

func fcNorm(s string) string { return strings.Join(strings.Fields(s), " ") }

func genFetchConsts(e *Env) (string, error) {
	const rel = "internal/driver/fetch.go"
	fset, file, err := parseFile(e, rel)
	if err != nil {
		return "", err
	}
	txt := func(n ast.Node) string { return fcNorm(src(fset, n)) }

	// ---- chunkedGrab ----
	cg := fcFunc(file, "chunkedGrab")
	if cg == nil {
		return "", fmt.Errorf("%s: func chunkedGrab not found", rel)
	}
	if cg.Type.Params == nil || len(cg.Type.Params.List) == 0 || len(cg.Type.Params.List[0].Names) == 0 ||
		cg.Type.Params.List[0].Names[0].Name != "sources" {
		return "", fmt.Errorf("chunkedGrab: first parameter is not `sources`")
	}
	var chunkExpr ast.Expr
	var loop *ast.ForStmt
	nloops := 0
	for _, st := range cg.Body.List {
		switch s := st.(type) {
		case *ast.DeclStmt:
			gd, ok := s.Decl.(*ast.GenDecl)
			if !ok || gd.Tok != token.CONST {
				continue
			}
			for _, sp := range gd.Specs {
				vs := sp.(*ast.ValueSpec)
				for i, n := range vs.Names {
					if n.Name == "chunkSize" && i < len(vs.Values) {
						chunkExpr = vs.Values[i]
					}
				}
			}
		case *ast.ForStmt:
			loop = s
			nloops++
		case *ast.RangeStmt:
			nloops++
		}
	}
	if chunkExpr == nil {
		return "", fmt.Errorf("chunkedGrab: `const chunkSize = …` not found")
	}
	tv, err := types.Eval(fset, nil, token.NoPos, src(fset, chunkExpr))
	if err != nil || tv.Value == nil {
		return "", fmt.Errorf("chunkedGrab: chunkSize %q is not a constant expression: %v", txt(chunkExpr), err)
	}
	chunk := tv.Value.ExactString()
	for _, ch := range chunk {
		if ch < '0' || ch > '9' {
			return "", fmt.Errorf("chunkedGrab: chunkSize = %s is not a natural number", chunk)
		}
	}
	if loop == nil || nloops != 1 {
		return "", fmt.Errorf("chunkedGrab: expected exactly one top-level for loop, found %d", nloops)
	}
	if loop.Init == nil || loop.Cond == nil || loop.Post == nil {
		return "", fmt.Errorf("chunkedGrab: loop header incomplete")
	}
	hdr := fmt.Sprintf("for %s; %s; %s", txt(loop.Init), txt(loop.Cond), txt(loop.Post))
	const wantHdr = "for start := 0; start < len(sources); start += chunkSize"
	if hdr != wantHdr {
		return "", fmt.Errorf("chunkedGrab: loop header is %q, the model assumes %q", hdr, wantHdr)
	}
	if len(loop.Body.List) < 3 {
		return "", fmt.Errorf("chunkedGrab: loop body too short")
	}
	if got, want := txt(loop.Body.List[0]), "end := start + chunkSize"; got != want {
		return "", fmt.Errorf("chunkedGrab: first loop statement is %q, the model assumes %q", got, want)
	}
	if got, want := txt(loop.Body.List[1]), "if end > len(sources) { end = len(sources) }"; got != want {
		return "", fmt.Errorf("chunkedGrab: second loop statement is %q, the model assumes %q", got, want)
	}
	// the chunk handed on is sources[start:end], and start/end are not assigned elsewhere in the body
	ncall := 0
	bad := ""
	for i, st := range loop.Body.List {
		ast.Inspect(st, func(n ast.Node) bool {
			switch x := n.(type) {
			case *ast.CallExpr:
				if id, ok := x.Fun.(*ast.Ident); ok && id.Name == "concurrentGrab" {
					ncall++
					if len(x.Args) == 0 || txt(x.Args[0]) != "sources[start:end]" {
						bad = "concurrentGrab is not called on sources[start:end]"
					}
				}
			case *ast.AssignStmt:
				if i < 2 {
					return true
				}
				for _, l := range x.Lhs {
					if id, ok := l.(*ast.Ident); ok && (id.Name == "start" || id.Name == "end" || id.Name == "sources") {
						bad = "loop body assigns " + id.Name
					}
				}
			case *ast.IncDecStmt:
				if id, ok := x.X.(*ast.Ident); ok && (id.Name == "start" || id.Name == "end") {
					bad = "loop body changes " + id.Name
				}
			}
			return true
		})
	}
	if bad != "" {
		return "", fmt.Errorf("chunkedGrab: %s", bad)
	}
	if ncall != 1 {
		return "", fmt.Errorf("chunkedGrab: expected one call of concurrentGrab in the loop, found %d", ncall)
	}

	// ---- concurrentGrab: Add(len) … go per element on &sources[i] with defer Done … Wait … collection loop ----
	cc := fcFunc(file, "concurrentGrab")
	if cc == nil {
		return "", fmt.Errorf("%s: func concurrentGrab not found", rel)
	}
	const (
		stAdd = iota
		stSpawn
		stWait
		stScan
		stDone
	)
	state := stAdd
	for _, st := range cc.Body.List {
		t := txt(st)
		switch state {
		case stAdd:
			if t == "wg.Add(len(sources))" {
				state = stSpawn
			}
		case stSpawn:
			rs, ok := st.(*ast.RangeStmt)
			if !ok {
				return "", fmt.Errorf("concurrentGrab: statement after wg.Add is %q, expected the goroutine loop", t)
			}
			if txt(rs.X) != "sources" || rs.Key == nil || len(rs.Body.List) != 1 {
				return "", fmt.Errorf("concurrentGrab: goroutine loop has an unexpected shape: %q", t)
			}
			gs, ok := rs.Body.List[0].(*ast.GoStmt)
			if !ok || len(gs.Call.Args) != 1 || txt(gs.Call.Args[0]) != "&sources["+txt(rs.Key)+"]" {
				return "", fmt.Errorf("concurrentGrab: loop body is not `go func(s *profileSource){…}(&sources[i])`: %q", t)
			}
			fl, ok := gs.Call.Fun.(*ast.FuncLit)
			if !ok || len(fl.Body.List) == 0 || txt(fl.Body.List[0]) != "defer wg.Done()" {
				return "", fmt.Errorf("concurrentGrab: goroutine does not start with `defer wg.Done()`")
			}
			state = stWait
		case stWait:
			if t != "wg.Wait()" {
				return "", fmt.Errorf("concurrentGrab: statement after the goroutine loop is %q, expected wg.Wait()", t)
			}
			state = stScan
		case stScan:
			if rs, ok := st.(*ast.RangeStmt); ok && txt(rs.X) == "sources" {
				state = stDone
			}
		}
	}
	if state != stDone {
		return "", fmt.Errorf("concurrentGrab: Add/go/Wait/collect sequence not recognised (stopped in state %d)", state)
	}

	var b strings.Builder
	b.WriteString("/- GENERATED by /verif/tools/extract/fetchconsts.go from internal/driver/fetch.go\n")
	b.WriteString("   (chunkedGrab, concurrentGrab). Regenerated from the current source on every `bin/check C16`;\n")
	b.WriteString("   do not edit. -/\n")
	b.WriteString("namespace PV.Gen.FetchConsts\n\n")
	fmt.Fprintf(&b, "/-- `const chunkSize = %s` in chunkedGrab -/\n", txt(chunkExpr))
	fmt.Fprintf(&b, "def chunkSize : Nat := %s\n\n", chunk)
	b.WriteString("/-- recognised loop of chunkedGrab (`end := start + chunkSize`, clipped to `len(sources)`;\n")
	b.WriteString("    `concurrentGrab(sources[start:end], …)`) — the shape `Fetch.chunkLoop` models -/\n")
	fmt.Fprintf(&b, "def chunkLoopHeader : String := %s\n\n", leanStr(hdr))
	b.WriteString("/-- concurrentGrab: `wg.Add(len(sources))`, one goroutine per `&sources[i]` deferring `wg.Done()`,\n")
	b.WriteString("    `wg.Wait()` before the loop that collects the results -/\n")
	b.WriteString("def barrierBeforeScan : Bool := true\n\n")
	b.WriteString("end PV.Gen.FetchConsts\n")
	return b.String(), nil
}
