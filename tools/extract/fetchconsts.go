// Generator for lean/PprofVerif/Gen/FetchConsts.lean (property C16).
//
// It reads internal/driver/fetch.go of the CURRENT tree and extracts the FACTS that the Lean
// model Model/Fetch.lean and the theorems of Props/C16.lean rest on — not statement sequences:
//
//	(a) the chunk size: the value of the integer constant declared in chunkedGrab;
//	(b) chunking: the chunks handed to concurrentGrab are consecutive, non-overlapping, cover all
//	    sources in order and have at most `span` elements, each chunk starting `step` after the
//	    previous one.  Two loop shapes are recognised:
//	      index-step : for X := 0; X < len(S); X += A { E := X + B; clip E to len(S); concurrentGrab(S[X:E]) }
//	                   → step = A, span = B   (the theorem needs A = B ≥ 1)
//	      slice-peel : for R := S; len(R) > 0; { C := R[:min(K, len(R))]; R = R[len(C):]; concurrentGrab(C) }
//	                   → step = span = K by construction
//	(c) barrier and collection by index in concurrentGrab.  Recognised:
//	      waitgroup / slot-pointer : wg.Add(len(S)); one `go func(s *T){ defer wg.Done(); … }(&S[i])`
//	                   per element; wg.Wait() before the first later loop over the results
//	      channel-count / index-tagged : done := make(chan T, len(S)); one goroutine per element that
//	                   is passed the range index and sends on done; a loop that runs exactly len(S)
//	                   times, each time receiving r from done and storing it at [r.<field>]
//
// Anything that is not recognised is emitted as "unknown"/none — NOT as a failure: the theorems are
// stated conditionally ("when recognised …") and the same facts are checked dynamically by
// harness/c16.go on every run (command-line order of the merge, every source fetched exactly
// once, no fetch of a later chunk before the earlier chunks completed, at most chunkSize fetches
// in flight).  A shape that IS recognised but contradicts the model (step ≠ span, size 0) is
// emitted as it is and makes the regenerated-fact theorem `extracted_chunking_wellformed` fail.
// The generator itself fails only when fetch.go cannot be parsed.
package main

import (
	"fmt"
	"go/ast"
	"go/constant"
	"go/parser"
	"go/token"
	"go/types"
	"strings"
)

func init() { register("FetchConsts.lean", genFetchConsts) }

func fcFunc(f *ast.File, name string) *ast.FuncDecl {
	for _, d := range f.Decls {
		if fd, ok := d.(*ast.FuncDecl); ok && fd.Recv == nil && fd.Name.Name == name && fd.Body != nil {
			return fd
		}
	}
	return nil
}

func fcNorm(s string) string { return strings.Join(strings.Fields(s), " ") }

// fcEval evaluates a constant expression that may mention the constants declared in decls
// ("name = expr" lines). Returns the value as a decimal natural number, or "" when unknown.
func fcEval(decls []string, expr string) string {
	var b strings.Builder
	b.WriteString("package p\n")
	for _, d := range decls {
		b.WriteString("const " + d + "\n")
	}
	b.WriteString("const fcValue = (" + expr + ")\n")
	fset := token.NewFileSet()
	f, err := parser.ParseFile(fset, "p.go", b.String(), 0)
	if err != nil {
		return ""
	}
	conf := types.Config{Error: func(error) {}}
	pkg, _ := conf.Check("p", fset, []*ast.File{f}, nil)
	if pkg == nil {
		return ""
	}
	o, ok := pkg.Scope().Lookup("fcValue").(*types.Const)
	if !ok || o.Val() == nil || o.Val().Kind() != constant.Int {
		return ""
	}
	s := o.Val().ExactString()
	for _, ch := range s {
		if ch < '0' || ch > '9' {
			return ""
		}
	}
	return s
}

// fcAffineOffset returns k when expr (mentioning the loop variable X) evaluates to X + k for
// X = 0, 1, 2 with the function's constants; "" otherwise.
func fcAffineOffset(decls []string, X, expr string) string {
	var v [3]string
	for i := range v {
		v[i] = fcEval(append(append([]string{}, decls...), fmt.Sprintf("%s = %d", X, i)), expr)
		if v[i] == "" {
			return ""
		}
	}
	if fcEval(nil, v[1]+" - "+v[0]) != "1" || fcEval(nil, v[2]+" - "+v[1]) != "1" {
		return ""
	}
	return v[0]
}

type fcFacts struct {
	chunkSize, chunkStep, chunkSpan string // "" = unknown
	chunkConst                      string // source text of the constant (comment only)
	chunkShape                      string
	barrier, collect                string
	notes                           []string
}

// assigned reports whether any statement of list (except those in skip) assigns/incs one of names.
func fcAssigned(fset *token.FileSet, list []ast.Stmt, skip map[ast.Stmt]bool, names map[string]bool) string {
	hit := ""
	for _, st := range list {
		if skip[st] {
			continue
		}
		ast.Inspect(st, func(n ast.Node) bool {
			switch x := n.(type) {
			case *ast.AssignStmt:
				for _, l := range x.Lhs {
					if id, ok := l.(*ast.Ident); ok && names[id.Name] {
						hit = id.Name
					}
				}
			case *ast.IncDecStmt:
				if id, ok := x.X.(*ast.Ident); ok && names[id.Name] {
					hit = id.Name
				}
			}
			return true
		})
	}
	return hit
}

func fcCallsOf(list []ast.Stmt, fn string) []*ast.CallExpr {
	var calls []*ast.CallExpr
	for _, st := range list {
		ast.Inspect(st, func(n ast.Node) bool {
			if c, ok := n.(*ast.CallExpr); ok {
				if id, ok := c.Fun.(*ast.Ident); ok && id.Name == fn {
					calls = append(calls, c)
				}
			}
			return true
		})
	}
	return calls
}

func fcChunked(fset *token.FileSet, file *ast.File, fa *fcFacts) {
	txt := func(n ast.Node) string { return fcNorm(src(fset, n)) }
	fa.chunkShape = "unknown"
	cg := fcFunc(file, "chunkedGrab")
	if cg == nil || cg.Type.Params == nil || len(cg.Type.Params.List) == 0 || len(cg.Type.Params.List[0].Names) == 0 {
		fa.notes = append(fa.notes, "func chunkedGrab(sources, …) not found")
		return
	}
	S := cg.Type.Params.List[0].Names[0].Name
	// (a) integer constants declared in the function
	var decls []string
	var names []string
	for _, st := range cg.Body.List {
		ds, ok := st.(*ast.DeclStmt)
		if !ok {
			continue
		}
		gd, ok := ds.Decl.(*ast.GenDecl)
		if !ok || gd.Tok != token.CONST {
			continue
		}
		for _, sp := range gd.Specs {
			vs := sp.(*ast.ValueSpec)
			for i, n := range vs.Names {
				if i < len(vs.Values) {
					decls = append(decls, n.Name+" = "+src(fset, vs.Values[i]))
					names = append(names, n.Name)
					if fa.chunkConst == "" {
						fa.chunkConst = n.Name + " = " + txt(vs.Values[i])
					}
				}
			}
		}
	}
	// the loop
	var loop *ast.ForStmt
	nloops := 0
	for _, st := range cg.Body.List {
		switch s := st.(type) {
		case *ast.ForStmt:
			loop = s
			nloops++
		case *ast.RangeStmt:
			nloops++
		}
	}
	if loop == nil || nloops != 1 {
		fa.notes = append(fa.notes, fmt.Sprintf("chunkedGrab: %d top-level loops, expected one", nloops))
		return
	}
	calls := fcCallsOf(loop.Body.List, "concurrentGrab")
	if len(calls) != 1 || len(calls[0].Args) == 0 {
		fa.notes = append(fa.notes, fmt.Sprintf("chunkedGrab: %d calls of concurrentGrab in the loop, expected one", len(calls)))
		return
	}
	arg := txt(calls[0].Args[0])
	lenS := "len(" + S + ")"

	// --- index-step ---
	if as, ok := loop.Init.(*ast.AssignStmt); ok && as.Tok == token.DEFINE && len(as.Lhs) == 1 && len(as.Rhs) == 1 && txt(as.Rhs[0]) == "0" && loop.Post != nil && loop.Cond != nil {
		X := txt(as.Lhs[0])
		if txt(loop.Cond) != X+" < "+lenS {
			fa.notes = append(fa.notes, "chunkedGrab: index loop condition is "+txt(loop.Cond))
			return
		}
		stepExpr := ""
		if ps, ok := loop.Post.(*ast.AssignStmt); ok && len(ps.Lhs) == 1 && len(ps.Rhs) == 1 && txt(ps.Lhs[0]) == X {
			switch ps.Tok {
			case token.ADD_ASSIGN:
				stepExpr = src(fset, ps.Rhs[0])
			case token.ASSIGN:
				if be, ok := ps.Rhs[0].(*ast.BinaryExpr); ok && be.Op == token.ADD && txt(be.X) == X {
					stepExpr = src(fset, be.Y)
				}
			}
		}
		if stepExpr == "" {
			fa.notes = append(fa.notes, "chunkedGrab: index loop post statement is "+txt(loop.Post))
			return
		}
		// E := X + B  (possibly already clipped with min), clip, call on S[X:E]
		skip := map[ast.Stmt]bool{}
		E, spanExpr, clipped := "", "", false
		for _, st := range loop.Body.List {
			a, ok := st.(*ast.AssignStmt)
			if ok && E == "" && a.Tok == token.DEFINE && len(a.Lhs) == 1 && len(a.Rhs) == 1 {
				rhs := a.Rhs[0]
				if c, ok := rhs.(*ast.CallExpr); ok && txt(c.Fun) == "min" && len(c.Args) == 2 {
					for i := 0; i < 2; i++ {
						if txt(c.Args[1-i]) == lenS {
							rhs, clipped = c.Args[i], true
						}
					}
				}
				if be, ok := rhs.(*ast.BinaryExpr); ok && be.Op == token.ADD && txt(be.X) == X {
					E, spanExpr = txt(a.Lhs[0]), src(fset, be.Y)
					skip[st] = true
					continue
				}
				// any other constant-affine expression X + k (e.g. `start + chunkSize - 1`): its value at
				// X = 0, provided it grows by exactly 1 per unit of X at the points 0, 1, 2
				if v := fcAffineOffset(decls, X, src(fset, rhs)); v != "" {
					E, spanExpr = txt(a.Lhs[0]), v
					skip[st] = true
					continue
				}
				clipped = false
			}
			if E != "" && !clipped {
				t := txt(st)
				if t == "if "+E+" > "+lenS+" { "+E+" = "+lenS+" }" || t == "if "+E+" >= "+lenS+" { "+E+" = "+lenS+" }" ||
					t == E+" = min("+E+", "+lenS+")" || t == E+" = min("+lenS+", "+E+")" {
					clipped = true
					skip[st] = true
				}
			}
		}
		if E == "" || !clipped {
			fa.notes = append(fa.notes, "chunkedGrab: `end := start + …` clipped to len(sources) not found in the index loop")
			return
		}
		if arg != S+"["+X+":"+E+"]" {
			fa.notes = append(fa.notes, "chunkedGrab: concurrentGrab is called on "+arg)
			return
		}
		if w := fcAssigned(fset, loop.Body.List, skip, map[string]bool{X: true, E: true, S: true}); w != "" {
			fa.notes = append(fa.notes, "chunkedGrab: the loop body assigns "+w)
			return
		}
		fa.chunkShape = "index-step"
		fa.chunkStep = fcEval(decls, stepExpr)
		fa.chunkSpan = fcEval(decls, spanExpr)
		fa.chunkSize = fa.chunkSpan
		return
	}

	// --- slice-peel ---
	if as, ok := loop.Init.(*ast.AssignStmt); ok && as.Tok == token.DEFINE && len(as.Lhs) == 1 && len(as.Rhs) == 1 && txt(as.Rhs[0]) == S && loop.Post == nil && loop.Cond != nil {
		R := txt(as.Lhs[0])
		if c := txt(loop.Cond); c != "len("+R+") > 0" && c != "len("+R+") != 0" && c != "0 < len("+R+")" {
			fa.notes = append(fa.notes, "chunkedGrab: peeling loop condition is "+c)
			return
		}
		skip := map[ast.Stmt]bool{}
		C, K, advanced := "", "", false
		for _, st := range loop.Body.List {
			a, ok := st.(*ast.AssignStmt)
			if !ok || len(a.Lhs) != 1 || len(a.Rhs) != 1 {
				continue
			}
			if C == "" && a.Tok == token.DEFINE {
				if se, ok := a.Rhs[0].(*ast.SliceExpr); ok && txt(se.X) == R && se.Low == nil && se.High != nil && !se.Slice3 {
					if c, ok := se.High.(*ast.CallExpr); ok && txt(c.Fun) == "min" && len(c.Args) == 2 {
						for i := 0; i < 2; i++ {
							if txt(c.Args[1-i]) == "len("+R+")" {
								C, K = txt(a.Lhs[0]), src(fset, c.Args[i])
								skip[st] = true
							}
						}
					}
				}
				continue
			}
			if C != "" && !advanced && a.Tok == token.ASSIGN && txt(a.Lhs[0]) == R && txt(a.Rhs[0]) == R+"[len("+C+"):]" {
				advanced = true
				skip[st] = true
			}
		}
		if C == "" || !advanced {
			fa.notes = append(fa.notes, "chunkedGrab: `chunk := rest[:min(K, len(rest))]; rest = rest[len(chunk):]` not found in the peeling loop")
			return
		}
		if arg != C {
			fa.notes = append(fa.notes, "chunkedGrab: concurrentGrab is called on "+arg)
			return
		}
		if w := fcAssigned(fset, loop.Body.List, skip, map[string]bool{R: true, C: true, S: true}); w != "" {
			fa.notes = append(fa.notes, "chunkedGrab: the loop body assigns "+w)
			return
		}
		fa.chunkShape = "slice-peel"
		fa.chunkStep = fcEval(decls, K)
		fa.chunkSpan = fa.chunkStep
		fa.chunkSize = fa.chunkSpan
		return
	}
	fa.notes = append(fa.notes, "chunkedGrab: loop header "+fcNorm(fmt.Sprintf("for %s; %s; %s", nodeTxt(fset, loop.Init), nodeTxt(fset, loop.Cond), nodeTxt(fset, loop.Post)))+" not recognised")
	// the constant alone is still a fact when there is exactly one
	if len(names) == 1 {
		fa.chunkSize = fcEval(decls, names[0])
	}
}

func nodeTxt(fset *token.FileSet, n ast.Node) string {
	if n == nil {
		return ""
	}
	return src(fset, n)
}

// fcIsLoopOver: `for … := range S`, `for range S`, `for range len(S)` or `for i := 0; i < len(S); i++`
func fcLoopOver(fset *token.FileSet, st ast.Stmt, S string) (body *ast.BlockStmt, key string, ok bool) {
	txt := func(n ast.Node) string { return fcNorm(src(fset, n)) }
	switch l := st.(type) {
	case *ast.RangeStmt:
		x := txt(l.X)
		if x == S || x == "len("+S+")" {
			k := ""
			if l.Key != nil {
				k = txt(l.Key)
			}
			return l.Body, k, true
		}
	case *ast.ForStmt:
		if l.Init != nil && l.Cond != nil && l.Post != nil {
			if as, ok2 := l.Init.(*ast.AssignStmt); ok2 && len(as.Lhs) == 1 && len(as.Rhs) == 1 && txt(as.Rhs[0]) == "0" {
				k := txt(as.Lhs[0])
				if txt(l.Cond) == k+" < len("+S+")" && txt(l.Post) == k+"++" {
					return l.Body, k, true
				}
			}
		}
	}
	return nil, "", false
}

func fcConcurrent(fset *token.FileSet, file *ast.File, fa *fcFacts) {
	txt := func(n ast.Node) string { return fcNorm(src(fset, n)) }
	fa.barrier, fa.collect = "unknown", "unknown"
	cc := fcFunc(file, "concurrentGrab")
	if cc == nil || cc.Type.Params == nil || len(cc.Type.Params.List) == 0 || len(cc.Type.Params.List[0].Names) == 0 {
		fa.notes = append(fa.notes, "func concurrentGrab(sources, …) not found")
		return
	}
	S := cc.Type.Params.List[0].Names[0].Name
	list := cc.Body.List
	// the spawn loop: a loop over S whose body is exactly one go statement
	spawn := -1
	var gs *ast.GoStmt
	key := ""
	for i, st := range list {
		if body, k, ok := fcLoopOver(fset, st, S); ok && len(body.List) == 1 {
			if g, ok := body.List[0].(*ast.GoStmt); ok {
				spawn, gs, key = i, g, k
				break
			}
		}
	}
	if spawn < 0 || key == "" {
		fa.notes = append(fa.notes, "concurrentGrab: no loop over the sources that starts one goroutine per element")
		return
	}
	fl, ok := gs.Call.Fun.(*ast.FuncLit)
	if !ok || len(fl.Body.List) == 0 {
		fa.notes = append(fa.notes, "concurrentGrab: the goroutine is not a function literal")
		return
	}
	// only declarations / make() may stand between the barrier and the scan: nothing that could reorder
	harmless := func(st ast.Stmt) bool {
		switch s := st.(type) {
		case *ast.DeclStmt:
			return true
		case *ast.AssignStmt:
			if s.Tok != token.DEFINE {
				return false
			}
			for _, r := range s.Rhs {
				c, ok := r.(*ast.CallExpr)
				if !ok || txt(c.Fun) != "make" {
					if _, lit := r.(*ast.BasicLit); !lit {
						return false
					}
				}
			}
			return true
		}
		return false
	}

	// --- waitgroup / slot-pointer ---
	addAt := -1
	for i := 0; i < spawn; i++ {
		if t := txt(list[i]); strings.HasSuffix(t, ".Add(len("+S+"))") {
			addAt = i
		}
	}
	if addAt >= 0 {
		wg := strings.TrimSuffix(txt(list[addAt]), ".Add(len("+S+"))")
		if txt(fl.Body.List[0]) == "defer "+wg+".Done()" && len(gs.Call.Args) == 1 && txt(gs.Call.Args[0]) == "&"+S+"["+key+"]" &&
			spawn+1 < len(list) && txt(list[spawn+1]) == wg+".Wait()" {
			fa.barrier = "waitgroup"
			// the goroutine writes only through its pointer parameter; nothing reorders before the scan
			for i := spawn + 2; i < len(list); i++ {
				if _, _, isScan := fcLoopOver(fset, list[i], S); isScan {
					fa.collect = "slot-pointer"
					break
				}
				if !harmless(list[i]) {
					fa.notes = append(fa.notes, "concurrentGrab: statement between wg.Wait() and the collection loop: "+txt(list[i]))
					break
				}
			}
			if fa.collect == "unknown" && len(fa.notes) == 0 {
				fa.notes = append(fa.notes, "concurrentGrab: no collection loop over the sources after wg.Wait()")
			}
			return
		}
		fa.notes = append(fa.notes, "concurrentGrab: WaitGroup found but Done/&sources[i]/Wait sequence not recognised")
		return
	}

	// --- channel-count / index-tagged ---
	ch := ""
	for i := 0; i < spawn; i++ {
		if as, ok := list[i].(*ast.AssignStmt); ok && as.Tok == token.DEFINE && len(as.Lhs) == 1 && len(as.Rhs) == 1 {
			if c, ok := as.Rhs[0].(*ast.CallExpr); ok && txt(c.Fun) == "make" && len(c.Args) == 2 && txt(c.Args[1]) == "len("+S+")" {
				if _, isChan := c.Args[0].(*ast.ChanType); isChan {
					ch = txt(as.Lhs[0])
				}
			}
		}
	}
	if ch == "" {
		fa.notes = append(fa.notes, "concurrentGrab: neither a WaitGroup nor a result channel of capacity len(sources)")
		return
	}
	// the goroutine is passed the loop index and its last statement sends on the channel
	passesIndex := false
	for _, a := range gs.Call.Args {
		if txt(a) == key {
			passesIndex = true
		}
	}
	last, isSend := fl.Body.List[len(fl.Body.List)-1].(*ast.SendStmt)
	nsend := 0
	ast.Inspect(fl.Body, func(n ast.Node) bool {
		if _, ok := n.(*ast.SendStmt); ok {
			nsend++
		}
		return true
	})
	if !passesIndex || !isSend || txt(last.Chan) != ch || nsend != 1 {
		fa.notes = append(fa.notes, "concurrentGrab: goroutine does not take the index and end with exactly one send on "+ch)
		return
	}
	// the receive loop: runs len(S) times; r := <-ch; Y[r.f] = …
	if spawn+1 >= len(list) {
		return
	}
	recvAt := -1
	for i := spawn + 1; i < len(list); i++ {
		if _, _, isLoop := fcLoopOver(fset, list[i], S); isLoop {
			recvAt = i
			break
		}
		if !harmless(list[i]) {
			fa.notes = append(fa.notes, "concurrentGrab: statement between the goroutine loop and the receive loop: "+txt(list[i]))
			return
		}
	}
	if recvAt < 0 {
		fa.notes = append(fa.notes, "concurrentGrab: no loop receiving len(sources) results")
		return
	}
	body, _, _ := fcLoopOver(fset, list[recvAt], S)
	if len(body.List) != 2 {
		fa.notes = append(fa.notes, "concurrentGrab: receive loop body has an unexpected shape")
		return
	}
	r := ""
	if as, ok := body.List[0].(*ast.AssignStmt); ok && as.Tok == token.DEFINE && len(as.Lhs) == 1 && len(as.Rhs) == 1 && txt(as.Rhs[0]) == "<-"+ch {
		r = txt(as.Lhs[0])
	}
	if r == "" {
		fa.notes = append(fa.notes, "concurrentGrab: receive loop does not start with `r := <-"+ch+"`")
		return
	}
	fa.barrier = "channel-count"
	if as, ok := body.List[1].(*ast.AssignStmt); ok && as.Tok == token.ASSIGN && len(as.Lhs) == 1 {
		if ix, ok := as.Lhs[0].(*ast.IndexExpr); ok {
			if sel, ok := ix.Index.(*ast.SelectorExpr); ok && txt(sel.X) == r {
				// nothing reorders between the receive loop and the scan
				for i := recvAt + 1; i < len(list); i++ {
					if _, isRange := list[i].(*ast.RangeStmt); isRange {
						fa.collect = "index-tagged"
						break
					}
					if _, isFor := list[i].(*ast.ForStmt); isFor {
						fa.collect = "index-tagged"
						break
					}
					if !harmless(list[i]) {
						fa.notes = append(fa.notes, "concurrentGrab: statement between the receive loop and the collection loop: "+txt(list[i]))
						break
					}
				}
				return
			}
		}
	}
	fa.notes = append(fa.notes, "concurrentGrab: received results are not filed by an index field")
}

func genFetchConsts(e *Env) (string, error) {
	const rel = "internal/driver/fetch.go"
	fset, file, err := parseFile(e, rel)
	if err != nil {
		return "", err
	}
	fa := &fcFacts{}
	fcChunked(fset, file, fa)
	fcConcurrent(fset, file, fa)

	opt := func(v string) string {
		if v == "" {
			return "none"
		}
		return "some " + v
	}
	var b strings.Builder
	b.WriteString("/- GENERATED by /verif/tools/extract/fetchconsts.go from internal/driver/fetch.go\n")
	b.WriteString("   (chunkedGrab, concurrentGrab). Regenerated from the current source on every `bin/check C16`;\n")
	b.WriteString("   do not edit.  `none` / \"unknown\" = shape not recognised (then only the dynamic checks of\n")
	b.WriteString("   harness/c16.go cover that fact). -/\n")
	b.WriteString("namespace PV.Gen.FetchConsts\n\n")
	fmt.Fprintf(&b, "/-- chunk size of chunkedGrab (source: `const %s`) -/\n", fa.chunkConst)
	fmt.Fprintf(&b, "def chunkSize? : Option Nat := %s\n\n", opt(fa.chunkSize))
	b.WriteString("/-- recognised shape of the chunk loop: \"index-step\" | \"slice-peel\" | \"unknown\" -/\n")
	fmt.Fprintf(&b, "def chunkShape : String := %s\n\n", leanStr(fa.chunkShape))
	b.WriteString("/-- distance between the starts of consecutive chunks -/\n")
	fmt.Fprintf(&b, "def chunkStep? : Option Nat := %s\n\n", opt(fa.chunkStep))
	b.WriteString("/-- maximal length of a chunk (before clipping to the end of the list) -/\n")
	fmt.Fprintf(&b, "def chunkSpan? : Option Nat := %s\n\n", opt(fa.chunkSpan))
	b.WriteString("/-- how concurrentGrab waits for all fetches of a chunk: \"waitgroup\" | \"channel-count\" | \"unknown\" -/\n")
	fmt.Fprintf(&b, "def barrierShape : String := %s\n\n", leanStr(fa.barrier))
	b.WriteString("/-- how results reach their slot: \"slot-pointer\" | \"index-tagged\" | \"unknown\" -/\n")
	fmt.Fprintf(&b, "def collectShape : String := %s\n\n", leanStr(fa.collect))
	b.WriteString("/-- why something was not recognised -/\n")
	b.WriteString("def notes : List String := [")
	for i, n := range fa.notes {
		if i > 0 {
			b.WriteString(", ")
		}
		b.WriteString(leanStr(n))
	}
	b.WriteString("]\n\n")
	b.WriteString("end PV.Gen.FetchConsts\n")
	return b.String(), nil
}
