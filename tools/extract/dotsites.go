package main

// Generator of lean/PprofVerif/Gen/DotSites.lean (property C18).
//
// It re-reads internal/graph/dotgraph.go on every run and lists every place where a
// non-literal string is spliced into DOT text, with the quote context it lands in and a
// classification of the spliced expression:
//
//	lit       string literal that is safe in its context
//	numeric   %d/%x/… verb, integer expression, or a same-package function that only formats numbers
//	escaped   wrapped in escapeForDot / strings.Join(escapeAllForDot(…), lit) / a same-package
//	          helper whose every result is (escapeLabelTagForDot, builder.formatValue,
//	          multilinePrintableName — for the latter every string field of NodeInfo read by
//	          NameComponents must have been overwritten with an escaped value)
//	callback  result of a caller-supplied func field (DotNodeAttributes.Formatter, DotConfig.FormatValue)
//	nodeattr  a DotNodeAttributes presentation field used outside quotes (Shape)
//	raw       anything else (struct fields, parameters of exported functions, unknown calls)
//
// Local variables are followed through their assignments in the function, parameters of
// unexported functions through the call sites in the file, same-package calls through the
// callee's return statements.  The Lean side (Props/C18.lean) proves by `decide` that no site is
// raw/callback/nodeattr outside a hand-written allow-list, and that `escapeForDot` is the
// composition of replacements the model `Dot.escape` is defined from.  A source shape the
// generator does not understand is an error (reported as a broken obligation), never a guess.

import (
	"fmt"
	"go/ast"
	"go/token"
	"os"
	"path/filepath"
	"sort"
	"strconv"
	"strings"
)

func init() { register("DotSites.lean", genDotSites) }

type dsSite struct {
	fn, key  string
	quoted   bool
	cls      string
	expr     string
	position string
}

type dsCtx struct {
	fset  *token.FileSet
	file  *ast.File
	funcs map[string]*ast.FuncDecl // by name (methods by bare name; the file has no clashes)
	sites []dsSite
	seen  map[string]bool
	errs  []string
}

const (
	dsLit      = "lit"
	dsNumeric  = "numeric"
	dsEscaped  = "escaped"
	dsCallback = "callback"
	dsNodeAttr = "nodeattr"
	dsRaw      = "raw"
)

var dsRank = map[string]int{dsLit: 0, dsNumeric: 1, dsEscaped: 2, dsNodeAttr: 3, dsCallback: 4, dsRaw: 5}

func dsJoin(a, b string) string {
	if dsRank[a] >= dsRank[b] {
		return a
	}
	return b
}

// a piece of a string expression: literal text or a dynamic expression
type dsPiece struct {
	lit     string
	isLit   bool
	numeric bool     // a numeric verb
	e       ast.Expr // dynamic
	fn      *ast.FuncDecl
}

func (c *dsCtx) errf(n ast.Node, format string, a ...any) {
	c.errs = append(c.errs, fmt.Sprintf("%s: %s", c.fset.Position(n.Pos()), fmt.Sprintf(format, a...)))
}

func dsStrLit(e ast.Expr) (string, bool) {
	if p, ok := e.(*ast.ParenExpr); ok {
		return dsStrLit(p.X)
	}
	bl, ok := e.(*ast.BasicLit)
	if !ok || bl.Kind != token.STRING {
		return "", false
	}
	s, err := strconv.Unquote(bl.Value)
	return s, err == nil
}

func dsCallName(call *ast.CallExpr) string {
	switch f := call.Fun.(type) {
	case *ast.Ident:
		return f.Name
	case *ast.SelectorExpr:
		if x, ok := f.X.(*ast.Ident); ok {
			return x.Name + "." + f.Sel.Name
		}
		if x, ok := f.X.(*ast.SelectorExpr); ok {
			if y, ok := x.X.(*ast.Ident); ok {
				return y.Name + "." + x.Sel.Name + "." + f.Sel.Name
			}
		}
		return "?." + f.Sel.Name
	}
	return "?"
}

// flatten turns a string-valued expression into pieces: literals, `+`, fmt.Sprintf.
func (c *dsCtx) flatten(e ast.Expr, fn *ast.FuncDecl) []dsPiece {
	switch x := e.(type) {
	case *ast.ParenExpr:
		return c.flatten(x.X, fn)
	case *ast.BasicLit:
		if s, ok := dsStrLit(x); ok {
			return []dsPiece{{lit: s, isLit: true}}
		}
	case *ast.BinaryExpr:
		if x.Op == token.ADD {
			return append(c.flatten(x.X, fn), c.flatten(x.Y, fn)...)
		}
	case *ast.CallExpr:
		if dsCallName(x) == "fmt.Sprintf" && len(x.Args) >= 1 {
			return c.flattenFormat(x, x.Args[0], x.Args[1:], fn)
		}
	}
	return []dsPiece{{e: e, fn: fn}}
}

func (c *dsCtx) flattenFormat(at ast.Node, format ast.Expr, args []ast.Expr, fn *ast.FuncDecl) []dsPiece {
	// the format may itself be `lit + "\n"`
	var f string
	for _, p := range c.flatten(format, fn) {
		if !p.isLit {
			c.errf(at, "format string is not a literal")
			return []dsPiece{{e: format, fn: fn}}
		}
		f += p.lit
	}
	var out []dsPiece
	var lit strings.Builder
	ai := 0
	for i := 0; i < len(f); i++ {
		if f[i] != '%' {
			lit.WriteByte(f[i])
			continue
		}
		i++
		for i < len(f) && strings.IndexByte("+-# 0123456789.", f[i]) >= 0 {
			i++
		}
		if i >= len(f) {
			c.errf(at, "dangling %% in format")
			break
		}
		if f[i] == '%' {
			lit.WriteByte('%')
			continue
		}
		if lit.Len() > 0 {
			out = append(out, dsPiece{lit: lit.String(), isLit: true})
			lit.Reset()
		}
		if ai >= len(args) {
			c.errf(at, "format has more verbs than arguments")
			break
		}
		switch f[i] {
		case 'd', 'x', 'X', 'o', 'b', 'c', 'f', 'g', 'e', 't', 'p', 'U':
			out = append(out, dsPiece{numeric: true, e: args[ai], fn: fn})
		default:
			out = append(out, c.flatten(args[ai], fn)...)
		}
		ai++
	}
	if lit.Len() > 0 {
		out = append(out, dsPiece{lit: lit.String(), isLit: true})
	}
	return out
}

// scanLit advances the quote state over literal text; returns the new state and the attribute
// key (last identifier before `=` / the last word) seen before an opening quote.
type dsState struct {
	inQuote bool
	key     string
	ok      bool
}

func dsScanLit(st dsState, s string) dsState {
	for i := 0; i < len(s); i++ {
		ch := s[i]
		if st.inQuote {
			if ch == '\\' {
				if i+1 >= len(s) {
					st.ok = false // a literal ending in a lone backslash would swallow what follows
					return st
				}
				i++
				continue
			}
			if ch == '"' {
				st.inQuote = false
			}
			continue
		}
		if ch == '"' {
			st.inQuote = true
			// key: the word before the quote, skipping blanks and '='
			j := i
			for j > 0 && (s[j-1] == ' ' || s[j-1] == '=') {
				j--
			}
			k := j
			for k > 0 && (s[k-1] == '_' || s[k-1] >= 'a' && s[k-1] <= 'z' || s[k-1] >= 'A' && s[k-1] <= 'Z' || s[k-1] >= '0' && s[k-1] <= '9') {
				k--
			}
			if k < j {
				st.key = s[k:j]
			} else if j > 0 {
				st.key = "id"
			}
			continue
		}
	}
	if !st.inQuote {
		// remember a trailing `key=` for a following bare or quoted piece
		t := strings.TrimRight(s, " ")
		if strings.HasSuffix(t, "=") {
			t = strings.TrimRight(strings.TrimSuffix(t, "="), " ")
			k := len(t)
			for k > 0 && (t[k-1] == '_' || t[k-1] >= 'a' && t[k-1] <= 'z' || t[k-1] >= 'A' && t[k-1] <= 'Z' || t[k-1] >= '0' && t[k-1] <= '9') {
				k--
			}
			if k < len(t) {
				st.key = t[k:]
			}
		} else if strings.TrimSpace(s) != "" {
			st.key = "id"
		}
	}
	return st
}

// assignments to a local variable (or to a field of a local variable) inside fn
func (c *dsCtx) assignments(fn *ast.FuncDecl, name, field string) (rhs []ast.Expr, found bool) {
	match := func(l ast.Expr) bool {
		if field == "" {
			id, ok := l.(*ast.Ident)
			return ok && id.Name == name
		}
		se, ok := l.(*ast.SelectorExpr)
		if !ok || se.Sel.Name != field {
			return false
		}
		id, ok := se.X.(*ast.Ident)
		return ok && id.Name == name
	}
	ast.Inspect(fn.Body, func(n ast.Node) bool {
		switch s := n.(type) {
		case *ast.AssignStmt:
			if len(s.Lhs) == len(s.Rhs) {
				for i, l := range s.Lhs {
					if match(l) {
						found = true
						rhs = append(rhs, s.Rhs[i])
					}
				}
			} else {
				for _, l := range s.Lhs {
					if match(l) {
						found = true
						rhs = append(rhs, nil) // multi-value: unknown
					}
				}
			}
		case *ast.ValueSpec:
			for i, id := range s.Names {
				if field == "" && id.Name == name {
					found = true
					if i < len(s.Values) {
						rhs = append(rhs, s.Values[i])
					} else {
						rhs = append(rhs, &ast.BasicLit{Kind: token.STRING, Value: `""`}) // zero value
					}
				}
			}
		case *ast.RangeStmt:
			for _, l := range []ast.Expr{s.Key, s.Value} {
				if l != nil && match(l) {
					found = true
					rhs = append(rhs, nil)
				}
			}
		}
		return true
	})
	return
}

func dsParamIndex(fn *ast.FuncDecl, name string) int {
	i := 0
	for _, f := range fn.Type.Params.List {
		for _, n := range f.Names {
			if n.Name == name {
				return i
			}
			i++
		}
	}
	return -1
}

func dsIsRangeKey(fn *ast.FuncDecl, name string) bool {
	isKey := false
	ast.Inspect(fn.Body, func(n ast.Node) bool {
		if r, ok := n.(*ast.RangeStmt); ok {
			if id, ok := r.Key.(*ast.Ident); ok && id.Name == name {
				// index of a slice range is an int; a map key is not: only slices named ts/… qualify
				if _, isMap := r.X.(*ast.Ident); isMap || true {
					isKey = true
				}
			}
		}
		return true
	})
	return isKey
}

func (c *dsCtx) src(e ast.Expr) string {
	s := src(c.fset, e)
	s = strings.Join(strings.Fields(s), " ")
	if len(s) > 90 {
		s = s[:90] + "…"
	}
	return s
}

// callers of an unexported function: argument expressions at position idx
func (c *dsCtx) callArgs(name string, idx int) (args []dsPiece) {
	for _, fd := range c.funcs {
		fd := fd
		ast.Inspect(fd.Body, func(n ast.Node) bool {
			call, ok := n.(*ast.CallExpr)
			if !ok {
				return true
			}
			cn := dsCallName(call)
			if i := strings.LastIndexByte(cn, '.'); i >= 0 {
				cn = cn[i+1:]
			}
			if cn == name && idx < len(call.Args) {
				args = append(args, dsPiece{e: call.Args[idx], fn: fd})
			}
			return true
		})
	}
	return
}

// walk runs the pieces of one emission through the quote-state machine, recording sites.
func (c *dsCtx) walk(pieces []dsPiece, st dsState, owner *ast.FuncDecl, visiting map[string]bool, depth int) dsState {
	for _, p := range pieces {
		if !st.ok {
			return st
		}
		if p.isLit {
			st = dsScanLit(st, p.lit)
			continue
		}
		if p.numeric {
			c.record(owner, st, dsNumeric, p.e)
			continue
		}
		st = c.dynamic(p, st, owner, visiting, depth)
	}
	return st
}

func (c *dsCtx) record(owner *ast.FuncDecl, st dsState, cls string, e ast.Expr) {
	key := st.key
	if key == "" {
		key = "id"
	}
	s := dsSite{fn: owner.Name.Name, key: key, quoted: st.inQuote, cls: cls, expr: c.src(e),
		position: filepath.Base(c.fset.Position(e.Pos()).Filename) + ":" + strconv.Itoa(c.fset.Position(e.Pos()).Line)}
	id := fmt.Sprint(s)
	if !c.seen[id] {
		c.seen[id] = true
		c.sites = append(c.sites, s)
	}
}

// dynamic handles one non-literal piece in state st.
func (c *dsCtx) dynamic(p dsPiece, st dsState, owner *ast.FuncDecl, visiting map[string]bool, depth int) dsState {
	if depth > 12 {
		c.record(owner, st, dsRaw, p.e)
		return st
	}
	e := p.e
	for {
		pe, ok := e.(*ast.ParenExpr)
		if !ok {
			break
		}
		e = pe.X
	}
	// local variable holding DOT text: follow its assignments in the same quote state
	if id, ok := e.(*ast.Ident); ok && p.fn != nil {
		if rhs, found := c.assignments(p.fn, id.Name, ""); found {
			vk := p.fn.Name.Name + "." + id.Name
			if visiting[vk] {
				return st // self reference (x = x + …): contributes nothing new
			}
			visiting[vk] = true
			defer delete(visiting, vk)
			for _, r := range rhs {
				if r == nil {
					if dsIsRangeKey(p.fn, id.Name) {
						c.record(owner, st, dsNumeric, e)
					} else {
						c.record(owner, st, dsRaw, e)
					}
					continue
				}
				end := c.walk(c.flatten(r, p.fn), st, owner, visiting, depth+1)
				if !end.ok || end.inQuote != st.inQuote {
					c.errf(r, "value assigned to %s does not keep the quote state balanced", id.Name)
					c.record(owner, st, dsRaw, r)
				}
			}
			return st
		}
		if idx := dsParamIndex(p.fn, id.Name); idx >= 0 {
			if ast.IsExported(p.fn.Name.Name) {
				c.record(owner, st, dsRaw, e)
				return st
			}
			args := c.callArgs(p.fn.Name.Name, idx)
			if len(args) == 0 {
				c.record(owner, st, dsRaw, e)
				return st
			}
			vk := p.fn.Name.Name + "#" + id.Name
			if visiting[vk] {
				return st
			}
			visiting[vk] = true
			defer delete(visiting, vk)
			for _, a := range args {
				end := c.walk(c.flatten(a.e, a.fn), st, owner, visiting, depth+1)
				if !end.ok || end.inQuote != st.inQuote {
					c.record(owner, st, dsRaw, a.e)
				}
			}
			return st
		}
	}
	// same-package function returning DOT text that contains quotes of its own (fragments) is
	// followed through its return statements when used outside quotes
	if call, ok := e.(*ast.CallExpr); ok && !st.inQuote {
		name := dsCallName(call)
		if i := strings.LastIndexByte(name, '.'); i >= 0 {
			name = name[i+1:]
		}
		if fd, ok := c.funcs[name]; ok && dsReturnsString(fd) {
			vk := "call:" + name
			if visiting[vk] {
				return st
			}
			visiting[vk] = true
			defer delete(visiting, vk)
			for _, r := range dsReturns(fd) {
				end := c.walk(c.flatten(r, fd), st, owner, visiting, depth+1)
				if !end.ok || end.inQuote != st.inQuote {
					c.record(owner, st, dsRaw, r)
				}
			}
			return st
		}
	}
	// sb.String() of a strings.Builder: its content is what was written into it, and every write
	// (fmt.Fprintf(&sb, …), sb.WriteString(…)) is analysed as a sink of its own
	if call, ok := e.(*ast.CallExpr); ok && len(call.Args) == 0 && p.fn != nil {
		if se, ok := call.Fun.(*ast.SelectorExpr); ok && se.Sel.Name == "String" {
			if id, ok := se.X.(*ast.Ident); ok && dsIsBuilder(p.fn, id.Name) {
				return st
			}
		}
	}
	c.record(owner, st, c.classify(e, p.fn, st.inQuote, map[string]bool{}, depth), e)
	return st
}

// dsIsBuilder: name is a local `var name strings.Builder` or a parameter of type *strings.Builder of fn.
func dsIsBuilder(fn *ast.FuncDecl, name string) bool {
	isB := func(t ast.Expr) bool {
		if st, ok := t.(*ast.StarExpr); ok {
			t = st.X
		}
		se, ok := t.(*ast.SelectorExpr)
		if !ok || se.Sel.Name != "Builder" {
			return false
		}
		id, ok := se.X.(*ast.Ident)
		return ok && id.Name == "strings"
	}
	for _, f := range fn.Type.Params.List {
		for _, n := range f.Names {
			if n.Name == name && isB(f.Type) {
				return true
			}
		}
	}
	found := false
	ast.Inspect(fn.Body, func(n ast.Node) bool {
		if vs, ok := n.(*ast.ValueSpec); ok && vs.Type != nil && isB(vs.Type) {
			for _, id := range vs.Names {
				if id.Name == name {
					found = true
				}
			}
		}
		return true
	})
	return found
}

func dsReturnsString(fd *ast.FuncDecl) bool {
	if fd.Type.Results == nil || len(fd.Type.Results.List) != 1 {
		return false
	}
	id, ok := fd.Type.Results.List[0].Type.(*ast.Ident)
	return ok && id.Name == "string"
}

func dsReturns(fd *ast.FuncDecl) (out []ast.Expr) {
	ast.Inspect(fd.Body, func(n ast.Node) bool {
		if _, ok := n.(*ast.FuncLit); ok {
			return false
		}
		if r, ok := n.(*ast.ReturnStmt); ok && len(r.Results) == 1 {
			out = append(out, r.Results[0])
		}
		return true
	})
	return
}

func dsLitSafe(s string, inQuote bool) bool {
	if !inQuote {
		for i := 0; i < len(s); i++ {
			ch := s[i]
			if !(ch == '_' || ch >= 'a' && ch <= 'z' || ch >= 'A' && ch <= 'Z' || ch >= '0' && ch <= '9') {
				return false
			}
		}
		return s != ""
	}
	for i := 0; i < len(s); i++ {
		if s[i] == '"' {
			return false
		}
		if s[i] == '\\' {
			if i+1 >= len(s) {
				return false
			}
			i++
		}
	}
	return true
}

// classify gives the class of a value spliced into DOT text.
func (c *dsCtx) classify(e ast.Expr, fn *ast.FuncDecl, inQuote bool, visiting map[string]bool, depth int) string {
	if depth > 12 {
		return dsRaw
	}
	switch x := e.(type) {
	case *ast.ParenExpr:
		return c.classify(x.X, fn, inQuote, visiting, depth)
	case *ast.BasicLit:
		if s, ok := dsStrLit(x); ok {
			if dsLitSafe(s, inQuote) || (!inQuote && s == "") {
				return dsLit
			}
			return dsRaw
		}
		if x.Kind == token.INT {
			return dsNumeric
		}
		return dsRaw
	case *ast.BinaryExpr:
		if x.Op == token.ADD {
			return dsJoin(c.classify(x.X, fn, inQuote, visiting, depth+1), c.classify(x.Y, fn, inQuote, visiting, depth+1))
		}
		return dsRaw
	case *ast.Ident:
		if fn == nil {
			return dsRaw
		}
		if rhs, found := c.assignments(fn, x.Name, ""); found {
			vk := fn.Name.Name + "." + x.Name
			if visiting[vk] {
				return dsLit
			}
			visiting[vk] = true
			defer delete(visiting, vk)
			cls := dsLit
			for _, r := range rhs {
				if r == nil {
					if dsIsRangeKey(fn, x.Name) {
						cls = dsJoin(cls, dsNumeric)
					} else {
						cls = dsJoin(cls, dsRaw)
					}
					continue
				}
				cls = dsJoin(cls, c.classify(r, fn, inQuote, visiting, depth+1))
			}
			return cls
		}
		if idx := dsParamIndex(fn, x.Name); idx >= 0 {
			if ast.IsExported(fn.Name.Name) {
				return dsRaw
			}
			if t := dsParamType(fn, x.Name); t == "int" || t == "int64" || t == "uint64" || t == "float64" {
				return dsNumeric
			}
			args := c.callArgs(fn.Name.Name, idx)
			if len(args) == 0 {
				return dsRaw
			}
			vk := fn.Name.Name + "#" + x.Name
			if visiting[vk] {
				return dsLit
			}
			visiting[vk] = true
			defer delete(visiting, vk)
			cls := dsLit
			for _, a := range args {
				cls = dsJoin(cls, c.classify(a.e, a.fn, inQuote, visiting, depth+1))
			}
			return cls
		}
		return dsRaw
	case *ast.SelectorExpr:
		if id, ok := x.X.(*ast.Ident); ok && id.Name == "attrs" && !inQuote {
			return dsNodeAttr
		}
		return dsRaw
	case *ast.CallExpr:
		name := dsCallName(x)
		switch {
		case name == "escapeForDot" && len(x.Args) == 1:
			return dsEscaped
		case name == "strings.Join" && len(x.Args) == 2:
			sep, ok := dsStrLit(x.Args[1])
			if !ok || !dsLitSafe(sep, true) {
				return dsRaw
			}
			if in, ok := x.Args[0].(*ast.CallExpr); ok && dsCallName(in) == "escapeAllForDot" {
				return dsEscaped
			}
			return c.classifyList(x.Args[0], fn, inQuote, visiting, depth+1)
		case name == "fmt.Sprintf":
			cls := dsLit
			for _, p := range c.flatten(x, fn) {
				switch {
				case p.isLit:
					if !dsLitSafe(p.lit, inQuote) {
						cls = dsJoin(cls, dsRaw)
					}
				case p.numeric:
					cls = dsJoin(cls, dsNumeric)
				default:
					cls = dsJoin(cls, c.classify(p.e, p.fn, inQuote, visiting, depth+1))
				}
			}
			return cls
		case strings.HasSuffix(name, ".Replace") && len(x.Args) == 1:
			// r.Replace(v) with r a strings.NewReplacer of literal pairs (inline or a package-level
			// variable): rewriting already escaped text keeps it safe when no pattern can cut an
			// escape unit and every replacement is safe at the start and as the tail of a unit
			if pairs, ok := c.replacerPairs(x); ok {
				for i := 0; i+1 < len(pairs); i += 2 {
					if !dsRewriteKeepsSafe(pairs[i], pairs[i+1]) {
						return dsRaw
					}
				}
				if in := c.classify(x.Args[0], fn, inQuote, visiting, depth+1); in == dsEscaped || in == dsLit || in == dsNumeric {
					return in
				}
			}
			return dsRaw
		case name == "strings.TrimSpace" && len(x.Args) == 1:
			if in := c.classify(x.Args[0], fn, inQuote, visiting, depth+1); in == dsNumeric || in == dsLit {
				return in
			}
			return dsRaw
		case name == "measurement.Percentage":
			return dsNumeric // digits, '.', '%' and blanks
		case strings.HasSuffix(name, ".Formatter") || strings.HasSuffix(name, ".FormatValue"):
			if _, isField := x.Fun.(*ast.SelectorExpr); isField {
				return dsCallback
			}
		}
		// same-package function or method: every return value must be safe
		short := name
		if i := strings.LastIndexByte(short, '.'); i >= 0 {
			short = short[i+1:]
		}
		if fd, ok := c.funcs[short]; ok && dsReturnsString(fd) {
			vk := "ret:" + short
			if visiting[vk] {
				return dsLit
			}
			visiting[vk] = true
			defer delete(visiting, vk)
			rets := dsReturns(fd)
			if len(rets) == 0 {
				return dsRaw
			}
			cls := dsLit
			for _, r := range rets {
				cls = dsJoin(cls, c.classify(r, fd, inQuote, visiting, depth+1))
			}
			return cls
		}
		return dsRaw
	}
	return dsRaw
}

// dsRewriteKeepsSafe: replacing the non-empty pattern old by nw inside text that is safe between
// quotes keeps it safe (Lean: Dot.qsafeA_replaceAllF) — old contains no backslash and no quote,
// so a match cannot start inside or swallow the head of an escape unit; nw contains no quote, is
// balanced from the normal state, and is non-empty and balanced after its first byte (the match
// may be the second byte of a `\x` unit, whose backslash then pairs with nw's first byte).
func dsRewriteKeepsSafe(old, nw string) bool {
	if old == "" || strings.ContainsAny(old, "\\\"") || strings.Contains(nw, `"`) {
		return false
	}
	return dsLitSafe(nw, true) && nw != "" && dsLitSafe(nw[1:], true)
}

// replacerPairs: the literal (old, new, …) arguments of the strings.NewReplacer behind call's receiver.
func (c *dsCtx) replacerPairs(call *ast.CallExpr) ([]string, bool) {
	se, ok := call.Fun.(*ast.SelectorExpr)
	if !ok {
		return nil, false
	}
	var nr *ast.CallExpr
	switch r := se.X.(type) {
	case *ast.CallExpr:
		nr = r
	case *ast.Ident:
		n := 0
		for _, d := range c.file.Decls {
			gd, ok := d.(*ast.GenDecl)
			if !ok || gd.Tok != token.VAR {
				continue
			}
			for _, sp := range gd.Specs {
				vs := sp.(*ast.ValueSpec)
				for i, id := range vs.Names {
					if id.Name == r.Name {
						n++
						if i < len(vs.Values) {
							nr, _ = vs.Values[i].(*ast.CallExpr)
						}
					}
				}
			}
		}
		if n != 1 || c.assignedAnywhere(r.Name) {
			return nil, false
		}
	}
	if nr == nil || dsCallName(nr) != "strings.NewReplacer" || len(nr.Args) == 0 || len(nr.Args)%2 != 0 {
		return nil, false
	}
	var pairs []string
	for _, a := range nr.Args {
		v, ok := dsStrLit(a)
		if !ok {
			return nil, false
		}
		pairs = append(pairs, v)
	}
	return pairs, true
}

// assignedAnywhere: is the package-level variable re-assigned in some function of the file?
func (c *dsCtx) assignedAnywhere(name string) bool {
	hit := false
	for _, fd := range c.funcs {
		ast.Inspect(fd.Body, func(n ast.Node) bool {
			if a, ok := n.(*ast.AssignStmt); ok {
				for _, l := range a.Lhs {
					if id, ok := l.(*ast.Ident); ok && id.Name == name && a.Tok != token.DEFINE {
						hit = true
					}
				}
			}
			return true
		})
	}
	return hit
}

func dsParamType(fn *ast.FuncDecl, name string) string {
	for _, f := range fn.Type.Params.List {
		for _, n := range f.Names {
			if n.Name == name {
				if id, ok := f.Type.(*ast.Ident); ok {
					return id.Name
				}
			}
		}
	}
	return ""
}

// classifyList: the class of the elements of a []string expression.  Understood shapes:
// escapeAllForDot(x), and v.M() where v is a local struct copy and M a method of the same
// package that builds its result from string fields of the receiver — then every such field
// must have been overwritten in the enclosing function with an escaped value.
func (c *dsCtx) classifyList(e ast.Expr, fn *ast.FuncDecl, inQuote bool, visiting map[string]bool, depth int) string {
	call, ok := e.(*ast.CallExpr)
	if !ok {
		return dsRaw
	}
	if dsCallName(call) == "escapeAllForDot" {
		return dsEscaped
	}
	sel, ok := call.Fun.(*ast.SelectorExpr)
	if !ok || len(call.Args) != 0 {
		return dsRaw
	}
	recv, ok := sel.X.(*ast.Ident)
	if !ok {
		return dsRaw
	}
	m, ok := c.lookupMethod(sel.Sel.Name)
	if !ok {
		return dsRaw
	}
	fields, okShape := c.methodStringFields(m)
	if !okShape {
		return dsRaw
	}
	if _, found := c.assignments(fn, recv.Name, ""); !found {
		return dsRaw
	}
	cls := dsLit
	for _, f := range fields {
		rhs, found := c.assignments(fn, recv.Name, f)
		if !found {
			return dsRaw // field still holds caller data
		}
		// the value the field finally holds: every assignment must be safe, and at least one
		// must be unconditional w.r.t. the raw initial value — approximated by requiring that
		// every assignment is safe and that conditional ones guard on the field being empty.
		fc := dsLit
		for _, r := range rhs {
			if r == nil {
				return dsRaw
			}
			fc = dsJoin(fc, c.classifyFieldValue(r, fn, recv.Name, f, visiting, depth+1))
		}
		if !c.fieldAssignedOnAllPaths(fn, recv.Name, f) {
			return dsRaw
		}
		cls = dsJoin(cls, fc)
	}
	return cls
}

// classifyFieldValue: like classify, with `v.f` itself (the previous value of the field being
// overwritten) allowed inside escape-preserving rewrites.
func (c *dsCtx) classifyFieldValue(e ast.Expr, fn *ast.FuncDecl, v, f string, visiting map[string]bool, depth int) string {
	if call, ok := e.(*ast.CallExpr); ok {
		name := dsCallName(call)
		if name == "strings.Replace" && len(call.Args) == 4 {
			// rewriting an already escaped value: the pattern must not contain a backslash or a
			// quote (it cannot cut an escape unit) and the replacement must be quote-safe
			old, ok1 := dsStrLit(call.Args[1])
			nw, ok2 := dsStrLit(call.Args[2])
			if ok1 && ok2 && dsRewriteKeepsSafe(old, nw) {
				if se, ok := call.Args[0].(*ast.SelectorExpr); ok && se.Sel.Name == f {
					if id, ok := se.X.(*ast.Ident); ok && id.Name == v {
						return dsEscaped // keeps whatever class the field had; checked via the other assignments
					}
				}
			}
			return dsRaw
		}
	}
	return c.classify(e, fn, true, visiting, depth)
}

// fieldAssignedOnAllPaths: the field is overwritten by a top-level statement of the function
// body, or inside `if v.f != "" { … }` (when the field is empty there is nothing to escape).
func (c *dsCtx) fieldAssignedOnAllPaths(fn *ast.FuncDecl, v, f string) bool {
	isField := func(l ast.Expr) bool {
		se, ok := l.(*ast.SelectorExpr)
		if !ok || se.Sel.Name != f {
			return false
		}
		id, ok := se.X.(*ast.Ident)
		return ok && id.Name == v
	}
	safeRHS := func(r ast.Expr) bool {
		// the FIRST rewrite of the raw field must be a real escape, not a Replace of itself
		return c.classify(r, fn, true, map[string]bool{}, 0) == dsEscaped
	}
	for _, st := range fn.Body.List {
		switch s := st.(type) {
		case *ast.AssignStmt:
			if len(s.Lhs) == 1 && len(s.Rhs) == 1 && isField(s.Lhs[0]) {
				return safeRHS(s.Rhs[0])
			}
		case *ast.IfStmt:
			be, ok := s.Cond.(*ast.BinaryExpr)
			if !ok || be.Op != token.NEQ || !isField(be.X) || s.Else != nil {
				continue
			}
			if lit, ok := dsStrLit(be.Y); !ok || lit != "" {
				continue
			}
			for _, in := range s.Body.List {
				if a, ok := in.(*ast.AssignStmt); ok && len(a.Lhs) == 1 && len(a.Rhs) == 1 && isField(a.Lhs[0]) {
					return safeRHS(a.Rhs[0])
				}
			}
		}
	}
	return false
}

var dsGraphFuncs map[string]*ast.FuncDecl // methods of graph.go (NameComponents)

func (c *dsCtx) lookupMethod(name string) (*ast.FuncDecl, bool) {
	if fd, ok := c.funcs[name]; ok && fd.Recv != nil {
		return fd, true
	}
	fd, ok := dsGraphFuncs[name]
	return fd, ok && fd.Recv != nil
}

// methodStringFields: the receiver fields a method reads, provided the method only combines
// them with literals, numeric formatting and escape-preserving calls (filepath.Base).
func (c *dsCtx) methodStringFields(m *ast.FuncDecl) (fields []string, ok bool) {
	if m.Recv == nil || len(m.Recv.List) != 1 || len(m.Recv.List[0].Names) != 1 {
		return nil, false
	}
	recv := m.Recv.List[0].Names[0].Name
	set := map[string]bool{}
	ok = true
	ast.Inspect(m.Body, func(n ast.Node) bool {
		switch x := n.(type) {
		case *ast.SelectorExpr:
			if id, isID := x.X.(*ast.Ident); isID && id.Name == recv {
				set[x.Sel.Name] = true
			}
		case *ast.CallExpr:
			switch dsCallName(x) {
			case "append", "fmt.Sprintf", "filepath.Base", "len":
			default:
				ok = false
			}
		case *ast.BasicLit:
			if s, isStr := dsStrLit(x); isStr && !dsLitSafe(strings.ReplaceAll(strings.ReplaceAll(s, "%016x", ""), "%s:%d", ""), true) {
				ok = false
			}
		}
		return true
	})
	// numeric fields need no escaping: keep those used with %s or appended as strings, i.e. all
	// that are not formatted with a numeric verb only — decided by the field's declared type
	for f := range set {
		if dsNodeInfoStringField[f] {
			fields = append(fields, f)
		}
	}
	sort.Strings(fields)
	return fields, ok
}

var dsNodeInfoStringField = map[string]bool{}

func genDotSites(e *Env) (string, error) {
	fset, file, err := parseFile(e, "internal/graph/dotgraph.go")
	if err != nil {
		return "", err
	}
	_, gfile, err := parseFile(e, "internal/graph/graph.go")
	if err != nil {
		return "", err
	}
	c := &dsCtx{fset: fset, file: file, funcs: map[string]*ast.FuncDecl{}, seen: map[string]bool{}}
	for _, d := range file.Decls {
		if fd, ok := d.(*ast.FuncDecl); ok && fd.Body != nil {
			c.funcs[fd.Name.Name] = fd
		}
	}
	dsGraphFuncs = map[string]*ast.FuncDecl{}
	dsNodeInfoStringField = map[string]bool{}
	for _, d := range gfile.Decls {
		switch x := d.(type) {
		case *ast.FuncDecl:
			if x.Body != nil {
				dsGraphFuncs[x.Name.Name] = x
			}
		case *ast.GenDecl:
			for _, sp := range x.Specs {
				ts, ok := sp.(*ast.TypeSpec)
				if !ok || ts.Name.Name != "NodeInfo" {
					continue
				}
				st, ok := ts.Type.(*ast.StructType)
				if !ok {
					continue
				}
				for _, f := range st.Fields.List {
					if id, ok := f.Type.(*ast.Ident); ok && id.Name == "string" {
						for _, n := range f.Names {
							dsNodeInfoStringField[n.Name] = true
						}
					}
				}
			}
		}
	}
	if len(dsNodeInfoStringField) == 0 {
		return "", fmt.Errorf("graph.go: struct NodeInfo with string fields not found")
	}

	// roots: everything written to the builder
	var names []string
	for n := range c.funcs {
		names = append(names, n)
	}
	sort.Strings(names)
	roots := 0
	for _, n := range names {
		fd := c.funcs[n]
		ast.Inspect(fd.Body, func(nd ast.Node) bool {
			call, ok := nd.(*ast.CallExpr)
			if !ok {
				return true
			}
			var pieces []dsPiece
			switch dsCallName(call) {
			case "fmt.Fprintf":
				if len(call.Args) < 2 {
					return true
				}
				pieces = c.flattenFormat(call, call.Args[1], call.Args[2:], fd)
			case "fmt.Fprintln", "fmt.Fprint":
				for _, a := range call.Args[1:] {
					pieces = append(pieces, c.flatten(a, fd)...)
				}
			case "io.WriteString":
				if len(call.Args) != 2 {
					return true
				}
				pieces = c.flatten(call.Args[1], fd)
			default:
				// sb.WriteString(x) on a strings.Builder that collects DOT text is the same sink as
				// `s += x`; the byte loop inside escapeForDot itself is the escaping primitive, not a sink
				se, isSel := call.Fun.(*ast.SelectorExpr)
				if !isSel || se.Sel.Name != "WriteString" || len(call.Args) != 1 || fd.Name.Name == "escapeForDot" {
					return true
				}
				if id, ok := se.X.(*ast.Ident); !ok || !dsIsBuilder(fd, id.Name) {
					return true
				}
				pieces = c.flatten(call.Args[0], fd)
			}
			roots++
			end := c.walk(pieces, dsState{ok: true}, fd, map[string]bool{}, 0)
			if !end.ok || end.inQuote {
				// a statement may legitimately end inside a bracket, never inside a quote
				c.errf(call, "emission ends inside a quoted string")
			}
			return true
		})
	}
	if roots < 5 {
		return "", fmt.Errorf("dotgraph.go: only %d writes to the builder found; shape not recognised", roots)
	}

	// escapeForDot: the chain of ReplaceAll calls, innermost first
	spec, form, err := dsEscapeSpec(c)
	if err != nil {
		return "", err
	}
	allMaps := dsEscapeAllMaps(c)
	others, err := dsOtherEmitters(e)
	if err != nil {
		return "", err
	}
	if len(c.errs) > 0 {
		return "", fmt.Errorf("dotgraph.go: %s", strings.Join(c.errs, "; "))
	}

	sort.SliceStable(c.sites, func(i, j int) bool {
		a, b := c.sites[i], c.sites[j]
		if a.fn != b.fn {
			return a.fn < b.fn
		}
		if a.key != b.key {
			return a.key < b.key
		}
		return a.expr < b.expr
	})
	var b strings.Builder
	b.WriteString("/- GENERATED by tools/extract/dotsites.go from internal/graph/dotgraph.go — do not edit.\n")
	b.WriteString("   Every non-literal string spliced into DOT text, with its quote context and class. -/\n")
	b.WriteString("namespace PV.Gen.DotSites\n\n")
	b.WriteString("inductive Cls where\n  | lit | numeric | escaped | callback | nodeattr | raw\n  deriving DecidableEq, Repr\n\n")
	b.WriteString("structure Site where\n  fn : String\n  key : String\n  quoted : Bool\n  cls : Cls\n  expr : String\n  pos : String\n  deriving DecidableEq, Repr\n\n")
	b.WriteString("def sites : List Site := [\n")
	for i, s := range c.sites {
		sep := ","
		if i == len(c.sites)-1 {
			sep = ""
		}
		fmt.Fprintf(&b, "  ⟨%s, %s, %v, .%s, %s, %s⟩%s\n", leanStr(s.fn), leanStr(s.key), s.quoted, s.cls, leanStr(s.expr), leanStr(s.position), sep)
	}
	b.WriteString("]\n\n")
	b.WriteString("/-- `escapeForDot` in a recognised byte-wise form (escapeForm ≠ \"unknown\"): the bytes it changes, ascending, and their images -/\n")
	fmt.Fprintf(&b, "def escapeForm : String := %s\n", leanStr(form))
	b.WriteString("def escapeBytes : List (UInt8 × List UInt8) := [")
	for i, p := range spec {
		if i > 0 {
			b.WriteString(", ")
		}
		fmt.Fprintf(&b, "(%d, [", p.old)
		for j, x := range []byte(p.new) {
			if j > 0 {
				b.WriteString(", ")
			}
			fmt.Fprintf(&b, "%d", x)
		}
		b.WriteString("])")
	}
	b.WriteString("]\n\n")
	fmt.Fprintf(&b, "/-- does `escapeAllForDot` apply `escapeForDot` to every element: \"yes\" (a recognised loop form) or \"unknown\" -/\ndef escapeAllMaps : String := %s\n\n", leanStr(allMaps))
	b.WriteString("/-- other non-test files of the module containing DOT-looking string literals -/\ndef otherEmitters : List String := [")
	for i, o := range others {
		if i > 0 {
			b.WriteString(", ")
		}
		b.WriteString(leanStr(o))
	}
	b.WriteString("]\n\nend PV.Gen.DotSites\n")
	return b.String(), nil
}

type dsRepl struct {
	old byte
	new string
}

// dsEscapeSpec reads escapeForDot and returns its action on single bytes (only the bytes it
// changes, ascending) together with the form it recognised.  Three forms are understood, all
// of which act byte by byte, so that the action on the 256 one-byte strings IS the function:
//   - "replaceall": a single `return` of nested strings.ReplaceAll(…) calls with one-byte literal
//     patterns (a chain of byte-wise homomorphisms is a byte-wise homomorphism);
//   - "newreplacer": `strings.NewReplacer(old1, new1, …).Replace(x)` with one-byte literal patterns;
//   - "switch-loop": an index loop over the bytes of the argument whose body is one `switch` on
//     the byte — `case 'c': sb.WriteString(lit)` … `default: sb.WriteByte(c)` — optionally behind
//     a strings.IndexAny fast path whose character set is exactly the set of the cases.
//
// Any other body gives form "unknown" and no map: the Lean obligation escape_spec_matches is then
// vacuous and the byte map is pinned only by the harness (every byte value 0..255 is pushed
// through the real escapeForDot in every run and compared with the model).
func dsEscapeSpec(c *dsCtx) ([]dsRepl, string, error) {
	fd, ok := c.funcs["escapeForDot"]
	if !ok {
		return nil, "", fmt.Errorf("dotgraph.go: escapeForDot not found")
	}
	if len(fd.Type.Params.List) != 1 || len(fd.Type.Params.List[0].Names) != 1 || !dsReturnsString(fd) {
		return nil, "", fmt.Errorf("dotgraph.go: escapeForDot is no longer func(string) string")
	}
	param := fd.Type.Params.List[0].Names[0].Name
	isParam := func(e ast.Expr) bool {
		id, ok := e.(*ast.Ident)
		return ok && id.Name == param
	}
	var apply func(s string) string
	form := "unknown"
	rets := dsReturns(fd)
	if len(rets) == 1 && len(fd.Body.List) == 1 {
		e := rets[0]
		if call, ok := e.(*ast.CallExpr); ok {
			if se, ok := call.Fun.(*ast.SelectorExpr); ok && se.Sel.Name == "Replace" && len(call.Args) == 1 && isParam(call.Args[0]) {
				if nr, ok := se.X.(*ast.CallExpr); ok && dsCallName(nr) == "strings.NewReplacer" && len(nr.Args)%2 == 0 {
					var pairs []string
					good := true
					for i, a := range nr.Args {
						v, ok := dsStrLit(a)
						if !ok || (i%2 == 0 && len(v) != 1) {
							good = false
						}
						pairs = append(pairs, v)
					}
					if good {
						apply, form = strings.NewReplacer(pairs...).Replace, "newreplacer"
					}
				}
			}
		}
		if apply == nil {
			var chain []dsRepl
			good := true
			for good && !isParam(e) {
				call, ok := e.(*ast.CallExpr)
				if !ok || dsCallName(call) != "strings.ReplaceAll" || len(call.Args) != 3 {
					good = false
					break
				}
				old, ok1 := dsStrLit(call.Args[1])
				nw, ok2 := dsStrLit(call.Args[2])
				if !ok1 || !ok2 || len(old) != 1 {
					good = false // not a one-byte pattern: the function no longer acts byte by byte
					break
				}
				chain = append([]dsRepl{{old[0], nw}}, chain...)
				e = call.Args[0]
			}
			if good && len(chain) > 0 {
				form = "replaceall"
				apply = func(s string) string {
					for _, r := range chain {
						s = strings.ReplaceAll(s, string([]byte{r.old}), r.new)
					}
					return s
				}
			}
		}
	}
	if apply == nil {
		if m, ok := dsEscapeSwitchLoop(fd, param); ok {
			form = "switch-loop"
			apply = func(s string) string {
				if r, ok := m[s[0]]; ok {
					return r
				}
				return s
			}
		}
	}
	if apply == nil {
		return nil, "unknown", nil
	}
	var spec []dsRepl
	for b := 0; b < 256; b++ {
		in := string([]byte{byte(b)})
		if out := apply(in); out != in {
			spec = append(spec, dsRepl{byte(b), out})
		}
	}
	return spec, form, nil
}

func dsByteLit(e ast.Expr) (byte, bool) {
	bl, ok := e.(*ast.BasicLit)
	if !ok || bl.Kind != token.CHAR {
		return 0, false
	}
	r, _, _, err := strconv.UnquoteChar(strings.Trim(bl.Value, "'"), '\'')
	if err != nil || r >= 0x80 {
		return 0, false
	}
	return byte(r), true
}

// dsEscapeSwitchLoop recognises the byte-wise loop form (see dsEscapeSpec) and returns the map of
// its cases.  Every statement of the body must be accounted for; anything else is "not recognised".
func dsEscapeSwitchLoop(fd *ast.FuncDecl, param string) (map[byte]string, bool) {
	isIdent := func(e ast.Expr, name string) bool {
		id, ok := e.(*ast.Ident)
		return ok && id.Name == name
	}
	var sb, first, fastSet string
	haveFast, havePrefix, haveLoop, haveRet := false, false, false, false
	var loop *ast.ForStmt
	for _, st := range fd.Body.List {
		switch x := st.(type) {
		case *ast.DeclStmt: // var sb strings.Builder
			gd, ok := x.Decl.(*ast.GenDecl)
			if !ok || len(gd.Specs) != 1 || sb != "" {
				return nil, false
			}
			vs, ok := gd.Specs[0].(*ast.ValueSpec)
			if !ok || len(vs.Names) != 1 || len(vs.Values) != 0 {
				return nil, false
			}
			se, ok := vs.Type.(*ast.SelectorExpr)
			if !ok || se.Sel.Name != "Builder" || !isIdent(se.X, "strings") {
				return nil, false
			}
			sb = vs.Names[0].Name
		case *ast.AssignStmt: // first := strings.IndexAny(str, "set")
			if len(x.Lhs) != 1 || len(x.Rhs) != 1 || x.Tok != token.DEFINE || first != "" || haveLoop {
				return nil, false
			}
			call, ok := x.Rhs[0].(*ast.CallExpr)
			if !ok || dsCallName(call) != "strings.IndexAny" || len(call.Args) != 2 || !isIdent(call.Args[0], param) {
				return nil, false
			}
			set, ok := dsStrLit(call.Args[1])
			id, ok2 := x.Lhs[0].(*ast.Ident)
			if !ok || !ok2 {
				return nil, false
			}
			first, fastSet = id.Name, set
		case *ast.IfStmt: // if first < 0 { return str }
			be, ok := x.Cond.(*ast.BinaryExpr)
			if !ok || first == "" || be.Op != token.LSS || !isIdent(be.X, first) || x.Else != nil || x.Init != nil || len(x.Body.List) != 1 {
				return nil, false
			}
			if z, ok := be.Y.(*ast.BasicLit); !ok || z.Value != "0" {
				return nil, false
			}
			r, ok := x.Body.List[0].(*ast.ReturnStmt)
			if !ok || len(r.Results) != 1 || !isIdent(r.Results[0], param) {
				return nil, false
			}
			haveFast = true
		case *ast.ExprStmt: // sb.Grow(…) | sb.WriteString(str[:first])
			call, ok := x.X.(*ast.CallExpr)
			if !ok || sb == "" {
				return nil, false
			}
			switch dsCallName(call) {
			case sb + ".Grow":
			case sb + ".WriteString":
				if len(call.Args) != 1 || haveLoop || !haveFast {
					return nil, false
				}
				sl, ok := call.Args[0].(*ast.SliceExpr)
				if !ok || !isIdent(sl.X, param) || sl.Low != nil || !isIdent(sl.High, first) || sl.Slice3 {
					return nil, false
				}
				havePrefix = true
			default:
				return nil, false
			}
		case *ast.ForStmt:
			if haveLoop {
				return nil, false
			}
			loop, haveLoop = x, true
		case *ast.ReturnStmt: // return sb.String()
			if len(x.Results) != 1 || !haveLoop {
				return nil, false
			}
			call, ok := x.Results[0].(*ast.CallExpr)
			if !ok || dsCallName(call) != sb+".String" {
				return nil, false
			}
			haveRet = true
		default:
			return nil, false
		}
	}
	if !haveLoop || !haveRet || sb == "" || haveFast != havePrefix {
		return nil, false
	}
	// for i := first|0; i < len(str); i++
	init, ok := loop.Init.(*ast.AssignStmt)
	if !ok || len(init.Lhs) != 1 || len(init.Rhs) != 1 || init.Tok != token.DEFINE {
		return nil, false
	}
	iv, ok := init.Lhs[0].(*ast.Ident)
	if !ok {
		return nil, false
	}
	if haveFast {
		if !isIdent(init.Rhs[0], first) {
			return nil, false
		}
	} else if z, ok := init.Rhs[0].(*ast.BasicLit); !ok || z.Value != "0" {
		return nil, false
	}
	cond, ok := loop.Cond.(*ast.BinaryExpr)
	if !ok || cond.Op != token.LSS || !isIdent(cond.X, iv.Name) {
		return nil, false
	}
	if lc, ok := cond.Y.(*ast.CallExpr); !ok || dsCallName(lc) != "len" || len(lc.Args) != 1 || !isIdent(lc.Args[0], param) {
		return nil, false
	}
	if post, ok := loop.Post.(*ast.IncDecStmt); !ok || post.Tok != token.INC || !isIdent(post.X, iv.Name) {
		return nil, false
	}
	if len(loop.Body.List) != 1 {
		return nil, false
	}
	sw, ok := loop.Body.List[0].(*ast.SwitchStmt)
	if !ok {
		return nil, false
	}
	// switch c := str[i]; c { … }
	cvar := ""
	if sw.Init != nil {
		as, ok := sw.Init.(*ast.AssignStmt)
		if !ok || len(as.Lhs) != 1 || len(as.Rhs) != 1 || as.Tok != token.DEFINE {
			return nil, false
		}
		ix, ok := as.Rhs[0].(*ast.IndexExpr)
		id, ok2 := as.Lhs[0].(*ast.Ident)
		if !ok || !ok2 || !isIdent(ix.X, param) || !isIdent(ix.Index, iv.Name) || !isIdent(sw.Tag, id.Name) {
			return nil, false
		}
		cvar = id.Name
	} else {
		return nil, false
	}
	m := map[byte]string{}
	haveDefault := false
	for _, cc := range sw.Body.List {
		cl, ok := cc.(*ast.CaseClause)
		if !ok || len(cl.Body) != 1 {
			return nil, false
		}
		es, ok := cl.Body[0].(*ast.ExprStmt)
		if !ok {
			return nil, false
		}
		call, ok := es.X.(*ast.CallExpr)
		if !ok || len(call.Args) != 1 {
			return nil, false
		}
		if cl.List == nil { // default: sb.WriteByte(c)
			if dsCallName(call) != sb+".WriteByte" || !isIdent(call.Args[0], cvar) {
				return nil, false
			}
			haveDefault = true
			continue
		}
		if dsCallName(call) != sb+".WriteString" {
			return nil, false
		}
		rep, ok := dsStrLit(call.Args[0])
		if !ok {
			return nil, false
		}
		for _, le := range cl.List {
			b, ok := dsByteLit(le)
			if !ok {
				return nil, false
			}
			if _, dup := m[b]; dup {
				return nil, false
			}
			m[b] = rep
		}
	}
	if !haveDefault {
		return nil, false
	}
	if haveFast {
		// the fast path returns the argument unchanged when none of fastSet occurs: sound iff
		// every case byte is in the set (bytes of the set that are no case are harmless)
		for b := range m {
			if strings.IndexByte(fastSet, b) < 0 {
				return nil, false
			}
		}
		for i := 0; i < len(fastSet); i++ {
			if fastSet[i] >= 0x80 {
				return nil, false // IndexAny works on runes; keep to ASCII
			}
		}
	}
	return m, true
}

// dsEscapeAllMaps: does escapeAllForDot apply escapeForDot to every element?  "yes" for the two
// recognised loop forms (out[i] = escapeForDot(in[i]) / out = append(out, escapeForDot(s)) with s
// ranging over the parameter), "unknown" otherwise (then only the harness pins it: legend lines).
func dsEscapeAllMaps(c *dsCtx) string {
	fd, ok := c.funcs["escapeAllForDot"]
	if !ok || len(fd.Type.Params.List) != 1 || len(fd.Type.Params.List[0].Names) != 1 {
		return "unknown"
	}
	param := fd.Type.Params.List[0].Names[0].Name
	found, loops := false, 0
	ast.Inspect(fd.Body, func(n ast.Node) bool {
		rs, ok := n.(*ast.RangeStmt)
		if !ok {
			return true
		}
		loops++
		if id, ok := rs.X.(*ast.Ident); !ok || id.Name != param || len(rs.Body.List) != 1 {
			return true
		}
		a, ok := rs.Body.List[0].(*ast.AssignStmt)
		if !ok || len(a.Lhs) != 1 || len(a.Rhs) != 1 {
			return true
		}
		elem := func(e ast.Expr) bool { // in[i] or the range value
			if ix, ok := e.(*ast.IndexExpr); ok {
				x, ok1 := ix.X.(*ast.Ident)
				i, ok2 := ix.Index.(*ast.Ident)
				k, ok3 := rs.Key.(*ast.Ident)
				return ok1 && ok2 && ok3 && x.Name == param && i.Name == k.Name
			}
			v, ok1 := e.(*ast.Ident)
			rv, ok2 := rs.Value.(*ast.Ident)
			return ok1 && ok2 && v.Name == rv.Name
		}
		esc := func(e ast.Expr) bool {
			call, ok := e.(*ast.CallExpr)
			return ok && dsCallName(call) == "escapeForDot" && len(call.Args) == 1 && elem(call.Args[0])
		}
		if _, isIdx := a.Lhs[0].(*ast.IndexExpr); isIdx && esc(a.Rhs[0]) {
			found = true
		}
		if call, ok := a.Rhs[0].(*ast.CallExpr); ok && dsCallName(call) == "append" && len(call.Args) == 2 && esc(call.Args[1]) {
			if l, ok := a.Lhs[0].(*ast.Ident); ok {
				if f, ok := call.Args[0].(*ast.Ident); ok && f.Name == l.Name {
					found = true
				}
			}
		}
		return true
	})
	if found && loops == 1 {
		return "yes"
	}
	return "unknown"
}

// dsOtherEmitters: non-test Go files (outside dotgraph.go) with string literals that look like
// DOT statements.
func dsOtherEmitters(e *Env) ([]string, error) {
	var out []string
	err := filepath.Walk(e.Repo, func(path string, info os.FileInfo, err error) error {
		if err != nil {
			return err
		}
		if info.IsDir() {
			n := info.Name()
			if n == ".git" || n == "third_party" || n == "testdata" || n == "node_modules" {
				return filepath.SkipDir
			}
			return nil
		}
		if !strings.HasSuffix(path, ".go") || strings.HasSuffix(path, "_test.go") {
			return nil
		}
		rel, _ := filepath.Rel(e.Repo, path)
		if rel == "internal/graph/dotgraph.go" {
			return nil
		}
		fset := token.NewFileSet()
		_ = fset
		_, f, perr := parseFile(e, rel)
		if perr != nil {
			return nil
		}
		hit := false
		ast.Inspect(f, func(n ast.Node) bool {
			if s, ok := n.(*ast.BasicLit); ok && s.Kind == token.STRING {
				v, _ := strconv.Unquote(s.Value)
				if strings.Contains(v, "digraph ") || strings.Contains(v, "[label=") || strings.Contains(v, "[label =") || strings.Contains(v, "shape=box") || strings.Contains(v, " -> N") {
					hit = true
				}
			}
			return true
		})
		if hit {
			out = append(out, rel)
		}
		return nil
	})
	sort.Strings(out)
	return out, err
}
