// Generator of lean/PprofVerif/Gen/LockFacts.lean (property C20).
//
// Reads the CURRENT source of profile/, internal/driver/ and internal/binutils/ (go/parser +
// go/types with the source importer) and regenerates, as Lean data:
//
//   - for every guarded variable (driver.currentCfg, driver.tempFiles, the unexported "X" scratch
//     fields and stringTable of package profile, Binutils.rep, file.base/baseErr/isData, the
//     addr2line / llvm-symbolizer pipes) EVERY syntactic access site (function, file:line,
//     read/write) together with the barrier that dominates it:
//     lock        Lock() … Unlock() region of the guard in the same function
//     deferLock   Lock(); defer Unlock() in the same function
//     rlock / deferRLock / confinedR   the same with RLock/RUnlock of a sync.RWMutex: these
//     guard READS only (a write under a read lock fails all_sites_guarded)
//     confined    the function is only reachable from regions that hold the guard (callers listed)
//     onceBody    inside (or only reachable from) the function passed to guard.Do
//     afterOnce   after guard.Do(…) in the same function (or only reachable from such places)
//     fresh       the object is freshly allocated in this call chain and not yet shared
//     construct   field key of a composite literal (object under construction)
//     pkgInit     package-level initialiser
//     teardown    read inside a Close method (exclusive by the io.Closer contract)
//     none        nothing recognised  — fails the obligation all_sites_guarded
//   - every `go` statement of these packages with the join that orders its writes before the
//     spawner's reads: wg.Wait() / <-done after close(done) / one channel receive per goroutine;
//   - every place where a second lock / Once is acquired while one is held;
//   - the flag bits newTempFile passes to os.OpenFile and whether it retries on EEXIST.
//
// A Lock/Unlock use that does not have one of the two recognised shapes, a guarded variable
// that no longer exists, or a newTempFile without a constant-flag os.OpenFile call is an
// error (non-zero exit): bin/check reports it as a broken obligation.
package main

import (
	"fmt"
	"go/ast"
	"go/build"
	"go/constant"
	"go/importer"
	"go/parser"
	"go/token"
	"go/types"
	"os"
	"path/filepath"
	"sort"
	"strings"
)

func init() { register("LockFacts.lean", genLockFacts) }

// ---------------------------------------------------------------------------------------------
// specification of what is guarded by what (the only hand-written input)

type lfGuardSpec struct {
	pkg   string // directory relative to the repo root
	owner string // struct type name, "" for a package-level variable, "*" = any struct of the package
	field string // variable / field name; suffix match when it starts with '*'
	gOwn  string // struct that holds the guard ("" = package-level)
	guard string // guard variable / field name
	kind  string // "mutex" | "once"
}

var lfSpecs = []lfGuardSpec{
	{"internal/driver", "", "currentCfg", "", "currentMu", "mutex"},
	{"internal/driver", "", "tempFiles", "", "tempFilesMu", "mutex"},
	// the saved-settings file: every writeSettings call is part of a read-modify-write and must
	// run under settingsMu ("()" = the sites are the calls of the function)
	{"internal/driver", "", "writeSettings()", "", "settingsMu", "mutex"},
	{"profile", "*", "*X", "Profile", "encodeMu", "mutex"},
	{"profile", "Profile", "stringTable", "Profile", "encodeMu", "mutex"},
	{"internal/binutils", "Binutils", "rep", "Binutils", "mu", "mutex"},
	{"internal/binutils", "file", "base", "file", "baseOnce", "once"},
	{"internal/binutils", "file", "baseErr", "file", "baseOnce", "once"},
	{"internal/binutils", "file", "isData", "file", "baseOnce", "once"},
	{"internal/binutils", "addr2Liner", "rw", "addr2Liner", "mu", "mutex"},
	{"internal/binutils", "llvmSymbolizer", "rw", "llvmSymbolizer", "Mutex|mu", "mutex"},
	// lazily created nm-based symbolizer of a file opened in fast mode (guard added by
	// fixes/C20-fileNM-lazy-init.patch; without it this row is an error: "guard not found")
	{"internal/binutils", "fileNM", "addr2linernm", "fileNM", "mu", "mutex"},
	// the HTTP transport shared by all concurrent fetches of one invocation: everything in it
	// is set up once (flags in New, certificates under initOnce) and only read afterwards
	{"internal/transport", "transport", "*", "transport", "initOnce", "once"},
}

// structs whose fields may only be written while the object is fresh (copy-on-write values)
var lfImmutable = []struct{ pkg, typ string }{{"internal/binutils", "binrep"}}

var lfPackages = []string{"profile", "internal/binutils", "internal/transport", "internal/driver"}

// ---------------------------------------------------------------------------------------------
// loaded package

type lfUnit struct {
	pkg    *lfPkg
	decl   *ast.FuncDecl // one of decl / lit
	lit    *ast.FuncLit
	fn     *types.Func // for decl
	name   string
	outer  *lfUnit // enclosing unit of a literal
	body   *ast.BlockStmt
	params []*types.Var // receiver first (nil when there is none), then parameters

	callers  []*lfCall // resolved call / reference sites of this unit
	escapes  string    // non-empty: why not all callers are known
	onceBody *types.Var
	regions  []*lfRegion
	onceDos  []*lfOnceDo
	locals   map[*types.Var][]ast.Expr // local variable -> all right-hand sides assigned to it
}

type lfCall struct {
	caller *lfUnit // nil for package level
	pos    token.Pos
	args   []ast.Expr // receiver first (nil when unknown), then arguments; nil = plain reference
	isRef  bool
	isGo   bool
}

type lfRegion struct {
	guard    *types.Var
	base     string // source text of the expression the guard is selected from ("" for package level)
	from, to token.Pos
	deferred bool
	read     bool // RLock … RUnlock of a sync.RWMutex: guards reads only
	lockPos  token.Pos
	holes    [][2]token.Pos // `if … { mu.Unlock(); return }` inside an explicit region: not held there
}

type lfOnceDo struct {
	guard   *types.Var
	base    string
	pos     token.Pos // end of the Do statement; everything after it in the unit is ordered after the init
	end     token.Pos
	derived bool // established by calling a helper of this package whose body runs guard.Do (f.ensureBase())
}

// lfLoose is a use of a sync primitive that has none of the recognised shapes.  It creates no
// guarded region (nothing is claimed to be protected by it); a Lock among them still counts as an
// acquisition for the lock-order facts; kind "leak" (a return inside Lock…Unlock with the mutex
// still held) is rejected by the Lean obligation no_lock_leak.
type lfLoose struct {
	unit  *lfUnit
	guard *types.Var
	pos   token.Pos
	kind  string // acquire | release | leak | other
	text  string
}

type lfPkg struct {
	rel    string
	fset   *token.FileSet
	files  []*ast.File
	info   *types.Info
	pkg    *types.Package
	parent map[ast.Node]ast.Node
	units  []*lfUnit
	byFn   map[*types.Func]*lfUnit
	byLit  map[*ast.FuncLit]*lfUnit
	errs   []string
	loose  []lfLoose
}

func (p *lfPkg) errorf(pos token.Pos, f string, a ...any) {
	p.errs = append(p.errs, fmt.Sprintf("%s: ", p.where(pos))+fmt.Sprintf(f, a...))
}

func (p *lfPkg) where(pos token.Pos) string {
	ps := p.fset.Position(pos)
	return fmt.Sprintf("%s/%s:%d", p.rel, filepath.Base(ps.Filename), ps.Line)
}

func lfLoad(e *Env, fset *token.FileSet, imp types.Importer, rel string) (*lfPkg, error) {
	dir := filepath.Join(e.Repo, rel)
	ents, err := os.ReadDir(dir)
	if err != nil {
		return nil, err
	}
	p := &lfPkg{rel: rel, fset: fset, parent: map[ast.Node]ast.Node{}, byFn: map[*types.Func]*lfUnit{}, byLit: map[*ast.FuncLit]*lfUnit{}}
	ctx := build.Default
	for _, ent := range ents {
		n := ent.Name()
		if ent.IsDir() || !strings.HasSuffix(n, ".go") || strings.HasSuffix(n, "_test.go") {
			continue
		}
		if ok, err := ctx.MatchFile(dir, n); err != nil || !ok {
			continue
		}
		f, err := parser.ParseFile(fset, filepath.Join(dir, n), nil, parser.ParseComments)
		if err != nil {
			return nil, err
		}
		p.files = append(p.files, f)
	}
	if len(p.files) == 0 {
		return nil, fmt.Errorf("%s: no Go files", rel)
	}
	p.info = &types.Info{Types: map[ast.Expr]types.TypeAndValue{}, Defs: map[*ast.Ident]types.Object{},
		Uses: map[*ast.Ident]types.Object{}, Selections: map[*ast.SelectorExpr]*types.Selection{}}
	var terrs []string
	conf := types.Config{Importer: imp, Error: func(err error) { terrs = append(terrs, err.Error()) }}
	p.pkg, _ = conf.Check("github.com/google/pprof/"+rel, fset, p.files, p.info)
	if len(terrs) > 0 {
		return nil, fmt.Errorf("%s does not type-check: %s", rel, strings.Join(terrs[:min(3, len(terrs))], "; "))
	}
	for _, f := range p.files {
		var stack []ast.Node
		ast.Inspect(f, func(n ast.Node) bool {
			if n == nil {
				stack = stack[:len(stack)-1]
				return true
			}
			if len(stack) > 0 {
				p.parent[n] = stack[len(stack)-1]
			}
			stack = append(stack, n)
			return true
		})
	}
	p.collectUnits()
	return p, nil
}

func (p *lfPkg) collectUnits() {
	for _, f := range p.files {
		for _, d := range f.Decls {
			fd, ok := d.(*ast.FuncDecl)
			if !ok || fd.Body == nil {
				continue
			}
			fn := p.info.Defs[fd.Name].(*types.Func)
			u := &lfUnit{pkg: p, decl: fd, fn: fn, body: fd.Body, name: lfFuncName(fn)}
			sig := fn.Type().(*types.Signature)
			u.params = append(u.params, sig.Recv())
			for i := 0; i < sig.Params().Len(); i++ {
				u.params = append(u.params, sig.Params().At(i))
			}
			p.units = append(p.units, u)
			p.byFn[fn] = u
		}
	}
	// literals, outermost first so that outer is known
	for _, f := range p.files {
		ast.Inspect(f, func(n ast.Node) bool {
			lit, ok := n.(*ast.FuncLit)
			if !ok {
				return true
			}
			u := &lfUnit{pkg: p, lit: lit, body: lit.Body}
			u.outer = p.unitAt(lit)
			u.params = append(u.params, nil)
			if sig, ok := p.info.TypeOf(lit).(*types.Signature); ok {
				for i := 0; i < sig.Params().Len(); i++ {
					u.params = append(u.params, sig.Params().At(i))
				}
			}
			on := "package-level"
			if u.outer != nil {
				on = u.outer.name
			}
			u.name = fmt.Sprintf("%s$lit@%d", on, p.fset.Position(lit.Pos()).Line)
			p.units = append(p.units, u)
			p.byLit[lit] = u
			return true
		})
	}
}

func lfFuncName(fn *types.Func) string {
	sig := fn.Type().(*types.Signature)
	if r := sig.Recv(); r != nil {
		t := r.Type()
		if pt, ok := t.(*types.Pointer); ok {
			t = pt.Elem()
		}
		if nt, ok := t.(*types.Named); ok {
			return nt.Obj().Name() + "." + fn.Name()
		}
	}
	return fn.Name()
}

// unitAt returns the innermost function unit strictly enclosing n (nil at package level).
func (p *lfPkg) unitAt(n ast.Node) *lfUnit {
	for x := p.parent[n]; x != nil; x = p.parent[x] {
		switch v := x.(type) {
		case *ast.FuncLit:
			return p.byLit[v]
		case *ast.FuncDecl:
			if fn, ok := p.info.Defs[v.Name].(*types.Func); ok {
				return p.byFn[fn]
			}
			return nil
		}
	}
	return nil
}

func (p *lfPkg) src(n ast.Node) string { return src(p.fset, n) }

// ---------------------------------------------------------------------------------------------
// guards: sync.Mutex / sync.RWMutex / sync.Once values and the calls on them

func lfIsSync(t types.Type, name string) bool {
	if pt, ok := t.(*types.Pointer); ok {
		t = pt.Elem()
	}
	nt, ok := t.(*types.Named)
	return ok && nt.Obj().Pkg() != nil && nt.Obj().Pkg().Path() == "sync" && nt.Obj().Name() == name
}

// guardCall recognises  G.Lock() / G.Unlock() / G.Do(f) / … on a sync primitive and returns the
// variable (package-level var or struct field, embedded fields included) holding the primitive,
// the source text of the object it is selected from, and the method name.
func (p *lfPkg) guardCall(c *ast.CallExpr) (g *types.Var, base string, method string, ok bool) {
	sel, isSel := c.Fun.(*ast.SelectorExpr)
	if !isSel {
		return nil, "", "", false
	}
	s := p.info.Selections[sel]
	if s == nil || s.Kind() != types.MethodVal {
		return nil, "", "", false
	}
	fn, _ := s.Obj().(*types.Func)
	if fn == nil || fn.Pkg() == nil || fn.Pkg().Path() != "sync" {
		return nil, "", "", false
	}
	recv := fn.Type().(*types.Signature).Recv().Type()
	if !(lfIsSync(recv, "Mutex") || lfIsSync(recv, "RWMutex") || lfIsSync(recv, "Once")) {
		return nil, "", "", false
	}
	method = fn.Name()
	if len(s.Index()) > 1 {
		// promoted through an embedded field:  d.Lock()  with  struct{ sync.Mutex; … }
		t := s.Recv()
		if pt, ok := t.(*types.Pointer); ok {
			t = pt.Elem()
		}
		st, ok := t.Underlying().(*types.Struct)
		if !ok || len(s.Index()) != 2 {
			return nil, "", method, false
		}
		return st.Field(s.Index()[0]), p.src(sel.X), method, true
	}
	switch x := ast.Unparen(sel.X).(type) {
	case *ast.Ident:
		if v, ok := p.info.Uses[x].(*types.Var); ok {
			if v.Parent() == p.pkg.Scope() {
				return v, "", method, true
			}
			return v, "", method, false // a local mutex value: not a shape we track
		}
	case *ast.SelectorExpr:
		if fs := p.info.Selections[x]; fs != nil && fs.Kind() == types.FieldVal {
			return fs.Obj().(*types.Var), p.src(x.X), method, true
		}
	}
	return nil, "", method, false
}

// findGuard locates the guard of a spec row.  An embedded `sync.Mutex` and a named field
// `mu sync.Mutex` are the same guard: the listed names ("Mutex|mu") are tried first, then the
// struct's only field of the right sync type.
func (p *lfPkg) findGuard(spec lfGuardSpec) *types.Var {
	okType := func(v *types.Var) bool {
		if spec.kind == "once" {
			return lfIsSync(v.Type(), "Once")
		}
		return lfIsSync(v.Type(), "Mutex") || lfIsSync(v.Type(), "RWMutex")
	}
	for _, name := range strings.Split(spec.guard, "|") {
		for _, v := range p.lookupVar(spec.gOwn, name) {
			if okType(v) {
				return v
			}
		}
	}
	if spec.gOwn == "" {
		return nil
	}
	var only *types.Var
	n := 0
	for _, v := range p.lookupVarAll(spec.gOwn) {
		if _, isPtr := v.Type().(*types.Pointer); !isPtr && okType(v) {
			only = v
			n++
		}
	}
	if n == 1 {
		return only
	}
	return nil
}

func lfGuardName(p *lfPkg, g *types.Var) string {
	if g.IsField() {
		return p.pkg.Name() + "." + lfFieldOwner(p, g) + "." + g.Name()
	}
	return p.pkg.Name() + "." + g.Name()
}

// lfFieldOwner finds the named struct type of the package that declares field v.
func lfFieldOwner(p *lfPkg, v *types.Var) string {
	sc := p.pkg.Scope()
	for _, n := range sc.Names() {
		tn, ok := sc.Lookup(n).(*types.TypeName)
		if !ok {
			continue
		}
		st, ok := tn.Type().Underlying().(*types.Struct)
		if !ok {
			continue
		}
		for i := 0; i < st.NumFields(); i++ {
			if st.Field(i) == v {
				return tn.Name()
			}
		}
	}
	return "?"
}

// scanGuards finds the lock regions and Once.Do statements of every unit; any other shape of
// use of a tracked primitive is an error.
func (p *lfPkg) scanGuards() {
	handled := map[*ast.CallExpr]bool{}
	for _, u := range p.units {
		p.scanBlock(u, u.body, handled)
	}
	// every remaining call on a sync primitive is an unrecognised shape
	for _, f := range p.files {
		ast.Inspect(f, func(n ast.Node) bool {
			c, ok := n.(*ast.CallExpr)
			if !ok || handled[c] {
				return true
			}
			if g, _, m, ok := p.guardCall(c); m != "" && ok {
				kind := "other"
				switch m {
				case "Lock", "RLock", "TryLock", "TryRLock":
					kind = "acquire"
				case "Unlock", "RUnlock":
					kind = "release"
				}
				p.loose = append(p.loose, lfLoose{p.unitAt(c), g, c.Pos(), kind, p.src(c)})
			}
			return true
		})
	}
}

func (p *lfPkg) scanBlock(u *lfUnit, blk *ast.BlockStmt, handled map[*ast.CallExpr]bool) {
	if blk == nil {
		return
	}
	p.scanStmts(u, blk.List, blk.End(), handled)
}

func (p *lfPkg) scanStmts(u *lfUnit, list []ast.Stmt, end token.Pos, handled map[*ast.CallExpr]bool) {
	for i, st := range list {
		if es, ok := st.(*ast.ExprStmt); ok {
			if c, ok := es.X.(*ast.CallExpr); ok {
				g, base, m, ok := p.guardCall(c)
				switch {
				case m == "":
				case !ok:
					// a mutex / once that is a local variable guards nothing this extractor tracks
					handled[c] = true
				case m == "Lock" || m == "RLock":
					handled[c] = true
					unlock := "Unlock"
					if m == "RLock" {
						unlock = "RUnlock"
					}
					r := &lfRegion{guard: g, base: base, from: st.End(), lockPos: st.Pos(), read: m == "RLock"}
					found := false
					for j := i + 1; j < len(list) && !found; j++ {
						switch s2 := list[j].(type) {
						case *ast.DeferStmt:
							if g2, b2, m2, ok2 := p.guardCall(s2.Call); ok2 && m2 == unlock && g2 == g && b2 == base {
								// (a defer later in the same block still releases at function exit;
								// everything after the Lock is under the lock)
								handled[s2.Call] = true
								r.to, r.deferred, found = end, true, true
							}
						case *ast.ExprStmt:
							if c2, ok := s2.X.(*ast.CallExpr); ok {
								if g2, b2, m2, ok2 := p.guardCall(c2); ok2 && m2 == unlock && g2 == g && b2 == base {
									handled[c2] = true
									r.to, found = s2.Pos(), true
									// early exits:  if … { mu.Unlock(); return }  makes a hole (not held from
									// the inner Unlock to the end of that block); a return / jump that
									// leaves the region with the mutex held is a leak
									for _, s3 := range list[i+1 : j] {
										ast.Inspect(s3, func(n ast.Node) bool {
											switch v := n.(type) {
											case *ast.FuncLit:
												return false
											case *ast.CallExpr:
												if g3, b3, m3, ok3 := p.guardCall(v); ok3 && m3 == unlock && g3 == g && b3 == base && !handled[v] {
													if es3, ok := p.parent[v].(*ast.ExprStmt); ok {
														hend := es3.End()
														switch blk := p.parent[es3].(type) {
														case *ast.BlockStmt:
															hend = blk.End()
														case *ast.CaseClause:
															hend = blk.End()
														}
														handled[v] = true
														r.holes = append(r.holes, [2]token.Pos{es3.Pos(), hend})
													}
												}
											case *ast.ReturnStmt:
												inHole := false
												for _, h := range r.holes {
													if h[0] <= v.Pos() && v.Pos() < h[1] {
														inHole = true
													}
												}
												if !inHole {
													p.loose = append(p.loose, lfLoose{u, g, v.Pos(), "leak", "return inside " + m + "…" + unlock + " of " + lfGuardName(p, g)})
												}
											case *ast.BranchStmt:
												if v.Tok == token.GOTO || v.Label != nil {
													p.loose = append(p.loose, lfLoose{u, g, v.Pos(), "leak", "jump inside " + m + "…" + unlock + " of " + lfGuardName(p, g)})
												}
											}
											return true
										})
									}
								}
							}
						}
					}
					if !found {
						// released elsewhere (another block / function): no region is claimed
						p.loose = append(p.loose, lfLoose{u, g, c.Pos(), "acquire", p.src(c)})
					} else {
						u.regions = append(u.regions, r)
					}
				case m == "Do":
					handled[c] = true
					u.onceDos = append(u.onceDos, &lfOnceDo{guard: g, base: base, pos: st.End(), end: end})
					if len(c.Args) == 1 {
						p.noteOnceArg(u, g, c, st)
					}
				}
			}
		}
		// nested blocks
		switch s := st.(type) {
		case *ast.BlockStmt:
			p.scanBlock(u, s, handled)
		case *ast.IfStmt:
			p.scanBlock(u, s.Body, handled)
			if s.Else != nil {
				p.scanStmts(u, []ast.Stmt{s.Else}, s.Else.End(), handled)
			}
		case *ast.ForStmt:
			p.scanBlock(u, s.Body, handled)
		case *ast.RangeStmt:
			p.scanBlock(u, s.Body, handled)
		case *ast.SwitchStmt:
			p.scanBlock(u, s.Body, handled)
		case *ast.TypeSwitchStmt:
			p.scanBlock(u, s.Body, handled)
		case *ast.SelectStmt:
			p.scanBlock(u, s.Body, handled)
		case *ast.CaseClause:
			p.scanStmts(u, s.Body, s.End(), handled)
		case *ast.CommClause:
			p.scanStmts(u, s.Body, s.End(), handled)
		case *ast.LabeledStmt:
			p.scanStmts(u, []ast.Stmt{s.Stmt}, s.End(), handled)
		}
	}
}

// onceArgs records, per unit, that it is the function handed to guard.Do at the given place.
type lfOnceArg struct {
	guard *types.Var
	pos   token.Pos
	in    *lfUnit
}

var lfOnceArgs = map[*lfUnit][]lfOnceArg{}

func (p *lfPkg) noteOnceArg(u *lfUnit, g *types.Var, c *ast.CallExpr, st ast.Stmt) {
	switch a := ast.Unparen(c.Args[0]).(type) {
	case *ast.FuncLit:
		lu := p.byLit[a]
		lu.onceBody = g
		lfOnceArgs[lu] = append(lfOnceArgs[lu], lfOnceArg{g, c.Pos(), u})
	default:
		if fn := p.calleeFunc(a); fn != nil {
			if tu := p.byFn[fn]; tu != nil {
				lfOnceArgs[tu] = append(lfOnceArgs[tu], lfOnceArg{g, c.Pos(), u})
				return
			}
		}
		p.errorf(c.Pos(), "argument of Once.Do is neither a function literal nor a function of this package: %s", p.src(c))
	}
}

// calleeFunc resolves an identifier / selector to a function or method declared in this package.
func (p *lfPkg) calleeFunc(e ast.Expr) *types.Func {
	switch x := ast.Unparen(e).(type) {
	case *ast.Ident:
		if fn, ok := p.info.Uses[x].(*types.Func); ok && fn.Pkg() == p.pkg {
			return fn
		}
	case *ast.SelectorExpr:
		if s := p.info.Selections[x]; s != nil {
			if fn, ok := s.Obj().(*types.Func); ok && fn.Pkg() == p.pkg && (s.Kind() == types.MethodVal || s.Kind() == types.MethodExpr) {
				return fn
			}
			return nil
		}
		if fn, ok := p.info.Uses[x.Sel].(*types.Func); ok && fn.Pkg() == p.pkg {
			return fn
		}
	}
	return nil
}

// ---------------------------------------------------------------------------------------------
// call graph (static calls, calls through interfaces of this package, calls of function
// parameters and of tables of a named function type)

func (p *lfPkg) buildCalls() {
	// which literal is passed at which parameter position of which package function
	type passed struct {
		target *lfUnit
		idx    int
		lit    *lfUnit
	}
	var passes []passed
	// tables of a named func type:  var t = []decoder{ func… }
	tableLits := map[*types.TypeName][]*lfUnit{}
	resolvedLit := map[*ast.FuncLit]bool{}
	resolvedRef := map[*ast.Ident]bool{} // identifiers of functions used as call targets

	for _, f := range p.files {
		ast.Inspect(f, func(n ast.Node) bool {
			switch v := n.(type) {
			case *ast.CompositeLit:
				t := p.info.TypeOf(v)
				if t == nil {
					return true
				}
				var elem types.Type
				switch tt := t.Underlying().(type) {
				case *types.Slice:
					elem = tt.Elem()
				case *types.Array:
					elem = tt.Elem()
				case *types.Map:
					elem = tt.Elem()
				}
				if nt, ok := elem.(*types.Named); ok {
					if _, isSig := nt.Underlying().(*types.Signature); isSig && nt.Obj().Pkg() == p.pkg {
						for _, el := range v.Elts {
							if kv, ok := el.(*ast.KeyValueExpr); ok {
								el = kv.Value
							}
							if lit, ok := ast.Unparen(el).(*ast.FuncLit); ok {
								tableLits[nt.Obj()] = append(tableLits[nt.Obj()], p.byLit[lit])
								resolvedLit[lit] = true
							}
						}
					}
				}
			case *ast.CallExpr:
				caller := p.unitAt(v)
				par := p.parent[v]
				_, isGo := par.(*ast.GoStmt)
				if _, _, m, _ := p.guardCall(v); m == "Do" {
					// handled through lfOnceArgs
					if len(v.Args) == 1 {
						if lit, ok := ast.Unparen(v.Args[0]).(*ast.FuncLit); ok {
							resolvedLit[lit] = true
						} else if id := lfRefIdent(v.Args[0]); id != nil {
							resolvedRef[id] = true
						}
					}
					return true
				}
				// immediately invoked literal:  func(){…}()   go func(x){…}(a)   defer func(){…}()
				if lit, ok := ast.Unparen(v.Fun).(*ast.FuncLit); ok {
					lu := p.byLit[lit]
					lu.callers = append(lu.callers, &lfCall{caller: caller, pos: v.Pos(), args: append([]ast.Expr{nil}, v.Args...), isGo: isGo})
					resolvedLit[lit] = true
					return true
				}
				if fn := p.calleeFunc(v.Fun); fn != nil {
					if id := lfRefIdent(v.Fun); id != nil {
						resolvedRef[id] = true
					}
					var recv ast.Expr
					if sel, ok := ast.Unparen(v.Fun).(*ast.SelectorExpr); ok {
						if s := p.info.Selections[sel]; s != nil && s.Kind() == types.MethodVal {
							recv = sel.X
						}
					}
					args := append([]ast.Expr{recv}, v.Args...)
					if s := p.selOf(v.Fun); s != nil && types.IsInterface(s.Recv()) {
						// call through an interface of this package: every implementation
						for _, tu := range p.implementations(s.Recv(), fn.Name()) {
							tu.callers = append(tu.callers, &lfCall{caller: caller, pos: v.Pos(), args: args, isGo: isGo})
						}
					} else if tu := p.byFn[fn]; tu != nil {
						tu.callers = append(tu.callers, &lfCall{caller: caller, pos: v.Pos(), args: args, isGo: isGo})
						for i, a := range v.Args {
							if lit, ok := ast.Unparen(a).(*ast.FuncLit); ok {
								passes = append(passes, passed{tu, i + 1, p.byLit[lit]})
								resolvedLit[lit] = true
							}
						}
					}
					return true
				}
			}
			return true
		})
	}
	// dynamic calls:  param(args)  and  table[i](args)
	for _, f := range p.files {
		ast.Inspect(f, func(n ast.Node) bool {
			v, ok := n.(*ast.CallExpr)
			if !ok {
				return true
			}
			tv, ok := p.info.Types[v.Fun]
			if !ok || tv.IsType() || tv.IsBuiltin() {
				return true
			}
			if _, isSig := tv.Type.Underlying().(*types.Signature); !isSig {
				return true
			}
			if p.calleeFunc(v.Fun) != nil {
				return true
			}
			if _, ok := ast.Unparen(v.Fun).(*ast.FuncLit); ok {
				return true
			}
			caller := p.unitAt(v)
			args := append([]ast.Expr{nil}, v.Args...)
			if id, ok := ast.Unparen(v.Fun).(*ast.Ident); ok && caller != nil {
				if pv, ok := p.info.Uses[id].(*types.Var); ok {
					for i, prm := range caller.params {
						if prm == pv && i > 0 {
							for _, ps := range passes {
								if ps.target == caller && ps.idx == i {
									ps.lit.callers = append(ps.lit.callers, &lfCall{caller: caller, pos: v.Pos(), args: args})
								}
							}
						}
					}
				}
			}
			if nt, ok := tv.Type.(*types.Named); ok && nt.Obj().Pkg() == p.pkg {
				for _, lu := range tableLits[nt.Obj()] {
					lu.callers = append(lu.callers, &lfCall{caller: caller, pos: v.Pos(), args: args})
				}
			}
			return true
		})
	}
	// escapes: literals in unresolved positions, functions referenced as values, exported names
	for _, u := range p.units {
		switch {
		case u.lit != nil && !resolvedLit[u.lit]:
			u.escapes = "function literal used as a value"
		case u.decl != nil && ast.IsExported(u.decl.Name.Name):
			u.escapes = "exported"
		case u.decl != nil && (u.decl.Name.Name == "init" || u.decl.Name.Name == "main") && u.decl.Recv == nil:
			u.escapes = "entry point"
		}
	}
	for _, f := range p.files {
		ast.Inspect(f, func(n ast.Node) bool {
			id, ok := n.(*ast.Ident)
			if !ok || resolvedRef[id] {
				return true
			}
			fn, ok := p.info.Uses[id].(*types.Func)
			if !ok || fn.Pkg() != p.pkg {
				return true
			}
			if u := p.byFn[fn]; u != nil && u.escapes == "" {
				u.escapes = "referenced as a value at " + p.where(id.Pos())
			}
			return true
		})
	}
	// once arguments are call sites located at the Do call
	for tu, as := range lfOnceArgs {
		if tu.pkg != p {
			continue
		}
		for _, a := range as {
			tu.callers = append(tu.callers, &lfCall{caller: a.in, pos: a.pos, isRef: true})
		}
	}
}

func lfRefIdent(e ast.Expr) *ast.Ident {
	switch x := ast.Unparen(e).(type) {
	case *ast.Ident:
		return x
	case *ast.SelectorExpr:
		return x.Sel
	}
	return nil
}

func (p *lfPkg) selOf(e ast.Expr) *types.Selection {
	if sel, ok := ast.Unparen(e).(*ast.SelectorExpr); ok {
		return p.info.Selections[sel]
	}
	return nil
}

func (p *lfPkg) implementations(iface types.Type, method string) []*lfUnit {
	it, ok := iface.Underlying().(*types.Interface)
	if !ok {
		return nil
	}
	var out []*lfUnit
	for _, u := range p.units {
		if u.fn == nil || u.fn.Name() != method {
			continue
		}
		r := u.fn.Type().(*types.Signature).Recv()
		if r == nil {
			continue
		}
		if types.Implements(r.Type(), it) || types.Implements(types.NewPointer(r.Type()), it) {
			out = append(out, u)
		}
	}
	return out
}

// deriveOnce: a function of this package whose body runs  x.guard.Do(…)  as a top-level statement,
// x being its receiver or a parameter, establishes the Once for its callers:  after
// `f.ensureBase(addr)` (as a statement, in an assignment, or in the init / condition of an if) the
// rest of the enclosing block is ordered after the initialisation, exactly as after
// `f.baseOnce.Do(…)` itself.  Iterated, so helpers of helpers work too.
func (p *lfPkg) deriveOnce() {
	type est struct {
		guard *types.Var
		param int // index into unit.params (0 = receiver)
	}
	for round := 0; round < 3; round++ {
		establishes := map[*lfUnit][]est{}
		for _, u := range p.units {
			if u.decl == nil {
				continue
			}
			for _, d := range u.onceDos {
				if d.end != u.body.End() { // only a Do that dominates the function's exit
					continue
				}
				for i, prm := range u.params {
					if prm != nil && prm.Name() == d.base {
						establishes[u] = append(establishes[u], est{d.guard, i})
					}
				}
			}
		}
		added := false
		for _, f := range p.files {
			ast.Inspect(f, func(n ast.Node) bool {
				c, ok := n.(*ast.CallExpr)
				if !ok {
					return true
				}
				fn := p.calleeFunc(c.Fun)
				if fn == nil {
					return true
				}
				if s := p.selOf(c.Fun); s != nil && types.IsInterface(s.Recv()) {
					return true
				}
				cu := p.byFn[fn]
				es := establishes[cu]
				if cu == nil || len(es) == 0 {
					return true
				}
				u := p.unitAt(c)
				if u == nil {
					return true
				}
				// the call must be evaluated unconditionally by a statement of a block
				var stmt ast.Stmt
				var child ast.Node = c
				for par := p.parent[child]; par != nil; child, par = par, p.parent[par] {
					switch x := par.(type) {
					case *ast.ExprStmt:
						stmt = x
					case *ast.AssignStmt:
						stmt = x
					case *ast.IfStmt:
						if x.Init == child || x.Cond == child {
							stmt = x
						}
					case *ast.ParenExpr, *ast.UnaryExpr:
						continue
					case *ast.BinaryExpr:
						if x.Op == token.LAND || x.Op == token.LOR {
							if x.X != child {
								break // right operand of && / || is conditional
							}
						}
						continue
					}
					break
				}
				if stmt == nil {
					return true
				}
				// `if err := f.ensureBase(a); err != nil {…}`: the init statement belongs to the if
				if is, ok := p.parent[stmt].(*ast.IfStmt); ok && is.Init == stmt {
					stmt = is
				}
				if is, ok := p.parent[stmt].(*ast.SwitchStmt); ok && is.Init == stmt {
					stmt = is
				}
				end := token.NoPos
				switch blk := p.parent[stmt].(type) {
				case *ast.BlockStmt:
					end = blk.End()
				case *ast.CaseClause:
					end = blk.End()
				case *ast.CommClause:
					end = blk.End()
				}
				if end == token.NoPos {
					return true
				}
				var recv ast.Expr
				if sel, ok := ast.Unparen(c.Fun).(*ast.SelectorExpr); ok {
					if sl := p.info.Selections[sel]; sl != nil && sl.Kind() == types.MethodVal {
						recv = sel.X
					}
				}
				for _, e := range es {
					var arg ast.Expr
					if e.param == 0 {
						arg = recv
					} else if e.param-1 < len(c.Args) {
						arg = c.Args[e.param-1]
					}
					if arg == nil {
						continue
					}
					base := p.src(arg)
					dup := false
					for _, d := range u.onceDos {
						if d.guard == e.guard && d.base == base && d.pos == c.End() {
							dup = true
						}
					}
					if !dup {
						u.onceDos = append(u.onceDos, &lfOnceDo{guard: e.guard, base: base, pos: c.End(), end: end, derived: true})
						added = true
					}
				}
				return true
			})
		}
		if !added {
			break
		}
	}
}

func lfContains(outer ast.Node, inner ast.Node) bool {
	if outer == nil {
		return false
	}
	return outer.Pos() <= inner.Pos() && inner.End() <= outer.End()
}

// ---------------------------------------------------------------------------------------------
// analyses

// heldAt returns the region of guard g that covers pos (a write-lock region when there is one).
func (u *lfUnit) heldAt(pos token.Pos, g *types.Var) *lfRegion {
	var found *lfRegion
	for _, r := range u.regions {
		if r.guard == g && r.from <= pos && pos < r.to && (found == nil || !r.read) {
			inHole := false
			for _, h := range r.holes {
				if h[0] <= pos && pos < h[1] {
					inHole = true
				}
			}
			if !inHole {
				found = r
			}
		}
	}
	return found
}

func (u *lfUnit) afterOnce(pos token.Pos, g *types.Var, base string) bool {
	for _, d := range u.onceDos {
		if d.guard == g && d.pos <= pos && pos < d.end && (base == "*" || d.base == base) {
			return true
		}
	}
	return false
}

// confined computes the set of units that are only reachable from places satisfying `safe`
// (greatest fixed point: a unit is dropped when one of its call sites is unsafe and lies in a
// unit that is not itself confined, or when its callers are not all known).
func (p *lfPkg) confined(safe func(c *lfCall) bool) map[*lfUnit]bool {
	in := map[*lfUnit]bool{}
	for _, u := range p.units {
		if u.escapes == "" && len(u.callers) > 0 {
			in[u] = true
		}
	}
	for changed := true; changed; {
		changed = false
		for u := range in {
			for _, c := range u.callers {
				if c.isGo || !(safe(c) || (c.caller != nil && in[c.caller])) {
					delete(in, u)
					changed = true
					break
				}
			}
		}
	}
	return in
}

// fresh parameter analysis: FP[u][i] — at every call site of u the i-th argument (0 = receiver)
// is an object allocated in the calling chain and not yet shared.
type lfFresh struct {
	p  *lfPkg
	fp map[*lfUnit][]bool
}

func (p *lfPkg) freshParams() *lfFresh {
	fr := &lfFresh{p: p, fp: map[*lfUnit][]bool{}}
	for _, u := range p.units {
		b := make([]bool, len(u.params))
		ok := u.escapes == "" && len(u.callers) > 0
		for i := range b {
			b[i] = ok && u.params[i] != nil
		}
		fr.fp[u] = b
	}
	for changed := true; changed; {
		changed = false
		for _, u := range p.units {
			for i, v := range fr.fp[u] {
				if !v {
					continue
				}
				for _, c := range u.callers {
					if c.isRef || c.isGo || i >= len(c.args) || c.args[i] == nil || c.caller == nil || !fr.exprFresh(c.caller, c.args[i], 0) {
						fr.fp[u][i] = false
						changed = true
						break
					}
				}
			}
		}
	}
	return fr
}

// exprFresh: the object denoted by the root of the access path e is fresh in unit u.
func (fr *lfFresh) exprFresh(u *lfUnit, e ast.Expr, depth int) bool {
	if depth > 8 {
		return false
	}
	p := fr.p
	switch x := ast.Unparen(e).(type) {
	case *ast.Ident:
		v, ok := p.info.Uses[x].(*types.Var)
		if !ok {
			if d, ok2 := p.info.Defs[x].(*types.Var); ok2 {
				v = d
			} else {
				return false
			}
		}
		for w := u; w != nil; w = w.outer {
			for i, prm := range w.params {
				if prm == v {
					// a parameter of an enclosing function literal's outer function is captured:
					// only accept parameters of the unit itself
					return w == u && fr.fp[w][i]
				}
			}
		}
		rhs := u.localDefs()[v]
		if len(rhs) == 0 {
			return false
		}
		// a local variable of struct (or array) type is storage of its own: `next := *shared`
		// copies, so next.f and &next denote a fresh object
		switch v.Type().Underlying().(type) {
		case *types.Struct, *types.Array:
			if v.Pos() >= u.body.Pos() && v.Pos() <= u.body.End() {
				return true
			}
		}
		if d := u.reachingDef(v, x); d != nil {
			rhs = []ast.Expr{d}
		}
		for _, r := range rhs {
			if !fr.exprFresh(u, r, depth+1) {
				return false
			}
		}
		return true
	case *ast.SelectorExpr:
		if s := p.info.Selections[x]; s != nil && s.Kind() == types.FieldVal {
			return fr.exprFresh(u, x.X, depth+1)
		}
		return false
	case *ast.IndexExpr:
		return fr.exprFresh(u, x.X, depth+1)
	case *ast.SliceExpr:
		return fr.exprFresh(u, x.X, depth+1)
	case *ast.StarExpr:
		return fr.exprFresh(u, x.X, depth+1)
	case *ast.TypeAssertExpr:
		return fr.exprFresh(u, x.X, depth+1)
	case *ast.UnaryExpr:
		if x.Op == token.AND {
			if _, ok := ast.Unparen(x.X).(*ast.CompositeLit); ok {
				return true
			}
			return fr.exprFresh(u, x.X, depth+1)
		}
		return false
	case *ast.CompositeLit:
		return true
	case *ast.CallExpr:
		if id, ok := x.Fun.(*ast.Ident); ok && id.Name == "new" {
			if _, isB := p.info.Uses[id].(*types.Builtin); isB {
				return true
			}
		}
		return false
	}
	return false
}

// reachingDef: when an assignment to v is a direct statement of a block enclosing the use, lies
// before the use, and no other assignment to v lies between the two, that assignment is the only
// one that reaches the use (straight-line code); its right-hand side is returned.
func (u *lfUnit) reachingDef(v *types.Var, use *ast.Ident) ast.Expr {
	p := u.pkg
	assigns := func(st ast.Stmt) ast.Expr {
		as, ok := st.(*ast.AssignStmt)
		if !ok || len(as.Lhs) != len(as.Rhs) {
			return nil
		}
		for i, l := range as.Lhs {
			if id, ok := l.(*ast.Ident); ok && (p.info.Defs[id] == types.Object(v) || p.info.Uses[id] == types.Object(v)) {
				return as.Rhs[i]
			}
		}
		return nil
	}
	var child ast.Node = use
	for par := p.parent[child]; par != nil; child, par = par, p.parent[par] {
		if par == ast.Node(u.body) || p.parent[par] != nil {
			var list []ast.Stmt
			switch b := par.(type) {
			case *ast.BlockStmt:
				list = b.List
			case *ast.CaseClause:
				list = b.Body
			case *ast.CommClause:
				list = b.Body
			}
			idx := -1
			for i, st := range list {
				if ast.Node(st) == child {
					idx = i
				}
			}
			for i := idx - 1; i >= 0; i-- {
				if r := assigns(list[i]); r != nil {
					// no other assignment to v between list[i] and the use
					clean := true
					ast.Inspect(u.body, func(n ast.Node) bool {
						if as, ok := n.(*ast.AssignStmt); ok && as.Pos() > list[i].End() && as.Pos() < use.Pos() {
							for _, l := range as.Lhs {
								if id, ok := l.(*ast.Ident); ok && (p.info.Defs[id] == types.Object(v) || p.info.Uses[id] == types.Object(v)) {
									clean = false
								}
							}
						}
						return true
					})
					if clean {
						return r
					}
					return nil
				}
			}
		}
		if par == ast.Node(u.body) {
			break
		}
	}
	return nil
}

// localDefs: for every local variable of the unit all expressions it is bound to (:=, =, var,
// range).  A range variable is bound to the ranged expression (it denotes a part of it).
func (u *lfUnit) localDefs() map[*types.Var][]ast.Expr {
	if u.locals != nil {
		return u.locals
	}
	p := u.pkg
	u.locals = map[*types.Var][]ast.Expr{}
	obj := func(e ast.Expr) *types.Var {
		id, ok := e.(*ast.Ident)
		if !ok {
			return nil
		}
		if v, ok := p.info.Defs[id].(*types.Var); ok {
			return v
		}
		v, _ := p.info.Uses[id].(*types.Var)
		return v
	}
	unknown := &ast.BasicLit{Kind: token.STRING, Value: `"unknown"`}
	ast.Inspect(u.body, func(n ast.Node) bool {
		switch s := n.(type) {
		case *ast.FuncLit:
			return false
		case *ast.AssignStmt:
			for i, l := range s.Lhs {
				v := obj(l)
				if v == nil {
					continue
				}
				if len(s.Lhs) == len(s.Rhs) {
					u.locals[v] = append(u.locals[v], s.Rhs[i])
				} else if len(s.Rhs) == 1 && i == 0 {
					if ta, ok := ast.Unparen(s.Rhs[0]).(*ast.TypeAssertExpr); ok {
						u.locals[v] = append(u.locals[v], ta) // x, ok := y.(T)
					} else {
						u.locals[v] = append(u.locals[v], unknown)
					}
				} else {
					u.locals[v] = append(u.locals[v], unknown)
				}
			}
		case *ast.RangeStmt:
			for _, l := range []ast.Expr{s.Key, s.Value} {
				if l == nil {
					continue
				}
				if v := obj(l); v != nil {
					u.locals[v] = append(u.locals[v], s.X)
				}
			}
		case *ast.ValueSpec:
			for i, id := range s.Names {
				if v, ok := p.info.Defs[id].(*types.Var); ok {
					if i < len(s.Values) {
						u.locals[v] = append(u.locals[v], s.Values[i])
					} else {
						u.locals[v] = append(u.locals[v], unknown)
					}
				}
			}
		}
		return true
	})
	return u.locals
}

// ---------------------------------------------------------------------------------------------
// access sites

type lfSite struct {
	variable string
	fn       string
	file     string
	line     int
	write    bool
	barrier  string
	guard    string
	via      []string
}

type lfTarget struct {
	spec  lfGuardSpec
	v     types.Object // *types.Var, or *types.Func when the sites are the calls of a function
	guard *types.Var
	name  string
}

func (p *lfPkg) lookupVar(owner, name string) []*types.Var {
	sc := p.pkg.Scope()
	var out []*types.Var
	if owner == "" {
		if v, ok := sc.Lookup(name).(*types.Var); ok {
			out = append(out, v)
		}
		return out
	}
	for _, n := range sc.Names() {
		tn, ok := sc.Lookup(n).(*types.TypeName)
		if !ok || (owner != "*" && tn.Name() != owner) {
			continue
		}
		st, ok := tn.Type().Underlying().(*types.Struct)
		if !ok {
			continue
		}
		for i := 0; i < st.NumFields(); i++ {
			f := st.Field(i)
			if name == "*" {
				// every field that is not itself a sync primitive
				if !lfIsSync(f.Type(), "Mutex") && !lfIsSync(f.Type(), "RWMutex") && !lfIsSync(f.Type(), "Once") && !lfIsSync(f.Type(), "WaitGroup") {
					out = append(out, f)
				}
			} else if strings.HasPrefix(name, "*") {
				if strings.HasSuffix(f.Name(), name[1:]) && !f.Exported() && len(f.Name()) > len(name)-1 {
					out = append(out, f)
				}
			} else if f.Name() == name {
				out = append(out, f)
			}
		}
	}
	return out
}

// isWrite classifies the occurrence `e` (the identifier or selector denoting the variable).
func (p *lfPkg) isWrite(e ast.Expr) bool {
	var child ast.Node = e
	for par := p.parent[child]; par != nil; child, par = par, p.parent[par] {
		switch x := par.(type) {
		case *ast.ParenExpr:
			continue
		case *ast.IndexExpr:
			if x.X == child {
				continue // v[i] = …  writes (an element of) v
			}
			return false
		case *ast.SliceExpr, *ast.StarExpr:
			return false
		case *ast.SelectorExpr:
			if x.X != child {
				return false
			}
			if s := p.info.Selections[x]; s != nil {
				if s.Kind() == types.FieldVal {
					// v.f = …  writes part of v when v is a struct value (not a pointer)
					if _, isPtr := p.info.TypeOf(child.(ast.Expr)).Underlying().(*types.Pointer); isPtr {
						return false
					}
					continue
				}
				if s.Kind() == types.MethodVal {
					// v.m() with pointer receiver on an addressable value takes &v
					fn := s.Obj().(*types.Func)
					if r := fn.Type().(*types.Signature).Recv(); r != nil {
						_, recvPtr := r.Type().(*types.Pointer)
						_, valPtr := p.info.TypeOf(child.(ast.Expr)).Underlying().(*types.Pointer)
						return recvPtr && !valPtr
					}
				}
			}
			return false
		case *ast.UnaryExpr:
			return x.Op == token.AND // address taken: treated as a write
		case *ast.AssignStmt:
			for _, l := range x.Lhs {
				if l == child {
					return true
				}
			}
			return false
		case *ast.IncDecStmt:
			return x.X == child
		case *ast.RangeStmt:
			return (x.Key == child || x.Value == child) && x.Tok == token.ASSIGN
		case *ast.KeyValueExpr:
			if x.Key == child {
				if _, ok := p.parent[x].(*ast.CompositeLit); ok {
					return true
				}
			}
			return false
		default:
			return false
		}
	}
	return false
}

// root of the access path that selects the variable (nil for package-level variables)
func lfBaseOf(e ast.Expr) ast.Expr {
	if sel, ok := e.(*ast.SelectorExpr); ok {
		return sel.X
	}
	return nil
}

func (p *lfPkg) sitesOf(t *lfTarget, fr *lfFresh, conf, confR map[*lfUnit]bool, onceBody, afterOnce map[*lfUnit]bool) []lfSite {
	var out []lfSite
	gname := lfGuardName(p, t.guard)
	for _, f := range p.files {
		ast.Inspect(f, func(n ast.Node) bool {
			id, ok := n.(*ast.Ident)
			if !ok {
				return true
			}
			if p.info.Uses[id] != t.v {
				return true // the declaration itself (Defs) is not an access
			}
			var expr ast.Expr = id
			if sel, ok := p.parent[id].(*ast.SelectorExpr); ok && sel.Sel == id {
				expr = sel
			}
			ps := p.fset.Position(id.Pos())
			s := lfSite{variable: t.name, file: p.rel + "/" + filepath.Base(ps.Filename), line: ps.Line, guard: gname, barrier: "none"}
			s.write = p.isWrite(expr)
			if _, isFn := t.v.(*types.Func); isFn {
				s.write = true
			}
			u := p.unitAt(id)
			if u == nil {
				s.fn = "package-level"
				s.barrier = "pkgInit"
				out = append(out, s)
				return true
			}
			s.fn = u.name
			// composite literal key
			if kv, ok := p.parent[id].(*ast.KeyValueExpr); ok && kv.Key == id {
				if _, ok := p.parent[kv].(*ast.CompositeLit); ok {
					s.barrier = "construct"
					out = append(out, s)
					return true
				}
			}
			base := ""
			if b := lfBaseOf(expr); b != nil {
				base = p.src(b)
			}
			switch t.spec.kind {
			case "mutex":
				if r := u.heldAt(id.Pos(), t.guard); r != nil && r.base == base {
					switch {
					case r.read && r.deferred:
						s.barrier = "deferRLock"
					case r.read:
						s.barrier = "rlock"
					case r.deferred:
						s.barrier = "deferLock"
					default:
						s.barrier = "lock"
					}
				} else if conf[u] {
					s.barrier = "confined"
					s.via = p.callerNames(u)
				} else if confR[u] {
					s.barrier = "confinedR"
					s.via = p.callerNames(u)
				}
			case "once":
				switch {
				case u.onceBody == t.guard || onceBody[u]:
					s.barrier = "onceBody"
					s.via = p.callerNames(u)
				case u.afterOnce(id.Pos(), t.guard, base):
					s.barrier = "afterOnce"
				case afterOnce[u]:
					s.barrier = "afterOnce"
					s.via = p.callerNames(u)
				}
			}
			if s.barrier == "none" {
				if b := lfBaseOf(expr); b != nil && fr.exprFresh(u, b, 0) {
					s.barrier = "fresh"
					s.via = p.callerNames(u)
				} else if u.decl != nil && u.decl.Name.Name == "Close" && u.decl.Recv != nil && !s.write {
					s.barrier = "teardown"
				}
			}
			out = append(out, s)
			return true
		})
	}
	return out
}

func (p *lfPkg) callerNames(u *lfUnit) []string {
	seen := map[string]bool{}
	var out []string
	for _, c := range u.callers {
		n := "package-level"
		if c.caller != nil {
			n = c.caller.name
		}
		if !seen[n] {
			seen[n] = true
			out = append(out, n)
		}
	}
	sort.Strings(out)
	return out
}

// ---------------------------------------------------------------------------------------------
// nested acquisition

type lfNested struct{ fn, outer, inner, where string }

// mayAcquire: guards a unit may acquire itself or through package-local callees.
func (p *lfPkg) mayAcquire() map[*lfUnit]map[string]bool {
	acq := map[*lfUnit]map[string]bool{}
	callees := map[*lfUnit][]*lfUnit{}
	for _, u := range p.units {
		acq[u] = map[string]bool{}
		for _, r := range u.regions {
			acq[u][lfGuardName(p, r.guard)] = true
		}
		for _, d := range u.onceDos {
			if !d.derived {
				acq[u][lfGuardName(p, d.guard)] = true
			}
		}
		for _, l := range p.loose {
			if l.unit == u && l.kind == "acquire" {
				acq[u][lfGuardName(p, l.guard)] = true
			}
		}
		for _, c := range u.callers {
			if c.caller != nil {
				callees[c.caller] = append(callees[c.caller], u)
			}
		}
		if u.lit != nil && u.outer != nil && len(u.callers) == 0 {
			// a literal whose call sites are unknown may run wherever it is created
			callees[u.outer] = append(callees[u.outer], u)
		}
	}
	for changed := true; changed; {
		changed = false
		for u, cs := range callees {
			for _, c := range cs {
				for g := range acq[c] {
					if !acq[u][g] {
						acq[u][g] = true
						changed = true
					}
				}
			}
		}
	}
	return acq
}

func (p *lfPkg) nested(ext map[string]map[string]bool) []lfNested {
	acq := p.mayAcquire()
	var out []lfNested
	type span struct {
		name     string
		from, to token.Pos
	}
	for _, u := range p.units {
		var spans []span
		for _, l := range p.loose {
			if l.unit == u && l.kind == "acquire" {
				// released somewhere else: assume it is held to the end of the function
				spans = append(spans, span{lfGuardName(p, l.guard), l.pos + 1, u.body.End()})
			}
		}
		for _, r := range u.regions {
			spans = append(spans, span{lfGuardName(p, r.guard), r.from, r.to})
		}
		if u.onceBody != nil {
			spans = append(spans, span{lfGuardName(p, u.onceBody), u.body.Pos(), u.body.End()})
		}
		for _, as := range lfOnceArgs[u] {
			if u.lit == nil {
				spans = append(spans, span{lfGuardName(p, as.guard), u.body.Pos(), u.body.End()})
			}
		}
		for _, sp := range spans {
			// direct acquisitions inside the span
			for _, r := range u.regions {
				if r.lockPos >= sp.from && r.lockPos < sp.to {
					out = append(out, lfNested{u.name, sp.name, lfGuardName(p, r.guard), p.where(r.lockPos)})
				}
			}
			for _, l := range p.loose {
				if l.unit == u && l.kind == "acquire" && l.pos >= sp.from && l.pos < sp.to {
					out = append(out, lfNested{u.name, sp.name, lfGuardName(p, l.guard), p.where(l.pos)})
				}
			}
			for _, d := range u.onceDos {
				if d.derived {
					continue
				}
				if d.pos > sp.from && d.pos <= sp.to {
					out = append(out, lfNested{u.name, sp.name, lfGuardName(p, d.guard), p.where(d.pos)})
				}
			}
			// callees
			for _, v := range p.units {
				for _, c := range v.callers {
					if c.caller == u && c.pos >= sp.from && c.pos < sp.to {
						for g := range acq[v] {
							out = append(out, lfNested{u.name, sp.name, g, p.where(c.pos) + " via " + v.name})
						}
					}
				}
			}
			// calls into the other analysed packages
			ast.Inspect(u.body, func(n ast.Node) bool {
				c, ok := n.(*ast.CallExpr)
				if !ok || c.Pos() < sp.from || c.Pos() >= sp.to {
					return true
				}
				var fn *types.Func
				switch x := ast.Unparen(c.Fun).(type) {
				case *ast.Ident:
					fn, _ = p.info.Uses[x].(*types.Func)
				case *ast.SelectorExpr:
					fn, _ = p.info.Uses[x.Sel].(*types.Func)
				}
				if fn != nil && fn.Pkg() != nil && fn.Pkg() != p.pkg {
					for g := range ext[fn.FullName()] {
						out = append(out, lfNested{u.name, sp.name, g, p.where(c.Pos()) + " via " + fn.FullName()})
					}
				}
				return true
			})
		}
	}
	return out
}

// ---------------------------------------------------------------------------------------------
// go statements

type lfGo struct {
	fn, file      string
	line          int
	callee        string
	join          string   // waitGroup | chanClose | chanRecv | none: what orders the goroutine's writes before the reads
	joinLine      int      // line of the join in the spawning function (0 = none)
	sharedWrites  []string // outer variables assigned inside the goroutine (directly or through closures it calls)
	touchedBefore bool     // one of them (or another slot of the slot slice) is used before the join
	slotParam     bool     // the goroutine writes through a parameter bound to &slice[loopvar]
}

// lfRootIdent strips selectors, indexing, dereferences and address-of from an expression.
func lfRootIdent(e ast.Expr) (*ast.Ident, bool) {
	through := false
	for {
		switch x := ast.Unparen(e).(type) {
		case *ast.SelectorExpr:
			e, through = x.X, true
			continue
		case *ast.IndexExpr:
			e, through = x.X, true
			continue
		case *ast.StarExpr:
			e, through = x.X, true
			continue
		case *ast.UnaryExpr:
			if x.Op == token.AND {
				e = x.X
				continue
			}
		case *ast.Ident:
			return x, through
		}
		return nil, through
	}
}

// lfBinding says what a parameter of a function running inside a goroutine stands for.
type lfBinding struct {
	slot  int          // > 0: the goroutine literal's own parameter number
	outer types.Object // a variable of the spawning function
}

// goWrites collects what the body of a goroutine assigns: variables of the spawning function
// (written) and parameters of the goroutine literal it writes through (throughParam).  Calls
// of closures defined in the spawning function and of functions of this package are followed
// (parameters are substituted), so `grab := func(s *T){ s.x = … }; go func(s *T){ grab(s) }(&xs[i])`
// is seen as a write through the goroutine's parameter.
func (p *lfPkg) goWrites(u *lfUnit, gl *ast.FuncLit, fnNode ast.Node, body *ast.BlockStmt, bind map[types.Object]lfBinding,
	written map[types.Object]bool, throughParam map[int]bool, depth int) {
	if body == nil || depth > 3 {
		return
	}
	local := func(o types.Object) bool { return o.Pos() >= fnNode.Pos() && o.Pos() <= fnNode.End() }
	ast.Inspect(body, func(m ast.Node) bool {
		switch x := m.(type) {
		case *ast.AssignStmt:
			for _, l := range x.Lhs {
				id, through := lfRootIdent(l)
				if id == nil {
					continue
				}
				o := p.info.Uses[id]
				if o == nil {
					continue // := definition
				}
				if b, ok := bind[o]; ok {
					if through {
						if b.slot > 0 {
							throughParam[b.slot] = true
						}
						if b.outer != nil {
							written[b.outer] = true
						}
					}
					continue
				}
				if _, isVar := o.(*types.Var); isVar && !local(o) && (o.Pos() < gl.Pos() || o.Pos() > gl.End()) {
					written[o] = true
				}
			}
		case *ast.IncDecStmt:
			if id, _ := lfRootIdent(x.X); id != nil {
				if o := p.info.Uses[id]; o != nil {
					if _, bound := bind[o]; !bound && !local(o) && (o.Pos() < gl.Pos() || o.Pos() > gl.End()) {
						written[o] = true
					}
				}
			}
		case *ast.CallExpr:
			// callee: closure variable of the spawning function, or function of this package
			var cu *lfUnit
			switch f := ast.Unparen(x.Fun).(type) {
			case *ast.Ident:
				if v, ok := p.info.Uses[f].(*types.Var); ok && u != nil {
					if rhs := u.localDefs()[v]; len(rhs) == 1 {
						if fl, ok := ast.Unparen(rhs[0]).(*ast.FuncLit); ok {
							cu = p.byLit[fl]
						}
					}
				}
			}
			if cu == nil {
				if fn := p.calleeFunc(x.Fun); fn != nil {
					if s := p.selOf(x.Fun); s == nil || !types.IsInterface(s.Recv()) {
						cu = p.byFn[fn]
					}
				}
			}
			if cu == nil {
				return true
			}
			nb := map[types.Object]lfBinding{}
			args := x.Args
			for k, a := range args {
				if k+1 >= len(cu.params) || cu.params[k+1] == nil {
					continue
				}
				id, _ := lfRootIdent(a)
				if id == nil {
					continue
				}
				o := p.info.Uses[id]
				if o == nil {
					continue
				}
				if b, ok := bind[o]; ok {
					nb[cu.params[k+1]] = b
				} else if _, isVar := o.(*types.Var); isVar && !local(o) && (o.Pos() < gl.Pos() || o.Pos() > gl.End()) {
					nb[cu.params[k+1]] = lfBinding{outer: o}
				}
			}
			p.goWrites(u, gl, lfUnitNode(cu), cu.body, nb, written, throughParam, depth+1)
		}
		return true
	})
}

// lfLoopOf returns the innermost for/range statement of unit u that encloses n.
func (p *lfPkg) lfLoopOf(n ast.Node) ast.Stmt {
	for x := p.parent[n]; x != nil; x = p.parent[x] {
		switch l := x.(type) {
		case *ast.RangeStmt:
			return l
		case *ast.ForStmt:
			return l
		case *ast.FuncLit, *ast.FuncDecl:
			return nil
		}
	}
	return nil
}

// lfSameLoop: two loops run the same number of times (same range operand / same header).
func (p *lfPkg) lfSameLoop(a, b ast.Stmt) bool {
	switch x := a.(type) {
	case *ast.RangeStmt:
		y, ok := b.(*ast.RangeStmt)
		return ok && p.src(x.X) == p.src(y.X)
	case *ast.ForStmt:
		y, ok := b.(*ast.ForStmt)
		if !ok || x.Init == nil || y.Init == nil || x.Cond == nil || y.Cond == nil || x.Post == nil || y.Post == nil {
			return false
		}
		return p.src(x.Init) == p.src(y.Init) && p.src(x.Cond) == p.src(y.Cond) && p.src(x.Post) == p.src(y.Post)
	}
	return false
}

// lfRecvFrom: the statement is `<-ch`, `x := <-ch`, `x = <-ch` or `_, ok := <-ch` for channel object ch.
func (p *lfPkg) lfRecvFrom(st ast.Stmt, ch types.Object) bool {
	var e ast.Expr
	switch s := st.(type) {
	case *ast.ExprStmt:
		e = s.X
	case *ast.AssignStmt:
		if len(s.Rhs) == 1 {
			e = s.Rhs[0]
		}
	}
	if e == nil {
		return false
	}
	ue, ok := ast.Unparen(e).(*ast.UnaryExpr)
	if !ok || ue.Op != token.ARROW {
		return false
	}
	id, ok := ast.Unparen(ue.X).(*ast.Ident)
	return ok && p.info.Uses[id] == ch
}

func (p *lfPkg) goSites() []lfGo {
	var out []lfGo
	for _, f := range p.files {
		ast.Inspect(f, func(n ast.Node) bool {
			gs, ok := n.(*ast.GoStmt)
			if !ok {
				return true
			}
			u := p.unitAt(gs)
			ps := p.fset.Position(gs.Pos())
			g := lfGo{file: p.rel + "/" + filepath.Base(ps.Filename), line: ps.Line, fn: "package-level", join: "none"}
			if u != nil {
				g.fn = u.name
			}
			lit, isLit := ast.Unparen(gs.Call.Fun).(*ast.FuncLit)
			if !isLit {
				g.callee = p.src(gs.Call.Fun)
				out = append(out, g)
				return true
			}
			g.callee = "func literal"

			// ---- how the goroutine signals that it is finished
			noReturn := true
			ast.Inspect(lit.Body, func(m ast.Node) bool {
				switch m.(type) {
				case *ast.FuncLit:
					return false
				case *ast.ReturnStmt:
					noReturn = false
				}
				return true
			})
			var syncObj types.Object
			kind := "none"
			signal := func(c *ast.CallExpr) (types.Object, string) {
				if sel, ok := c.Fun.(*ast.SelectorExpr); ok && sel.Sel.Name == "Done" && lfIsSync(p.info.TypeOf(sel.X), "WaitGroup") {
					if id, ok := sel.X.(*ast.Ident); ok {
						return p.info.Uses[id], "waitGroup"
					}
				}
				if id, ok := c.Fun.(*ast.Ident); ok && id.Name == "close" && len(c.Args) == 1 {
					if _, isB := p.info.Uses[id].(*types.Builtin); isB {
						if ch, ok := ast.Unparen(c.Args[0]).(*ast.Ident); ok {
							return p.info.Uses[ch], "chanClose"
						}
					}
				}
				// func() { ch <- v }()
				if fl, ok := ast.Unparen(c.Fun).(*ast.FuncLit); ok && len(fl.Body.List) == 1 {
					if ss, ok := fl.Body.List[0].(*ast.SendStmt); ok {
						if ch, ok := ast.Unparen(ss.Chan).(*ast.Ident); ok {
							return p.info.Uses[ch], "chanRecv"
						}
					}
				}
				return nil, "none"
			}
			if nst := len(lit.Body.List); nst > 0 {
				if ds, ok := lit.Body.List[0].(*ast.DeferStmt); ok {
					syncObj, kind = signal(ds.Call)
				}
				if kind == "none" && noReturn {
					switch last := lit.Body.List[nst-1].(type) {
					case *ast.ExprStmt:
						if c, ok := last.X.(*ast.CallExpr); ok {
							syncObj, kind = signal(c)
							if kind == "chanRecv" {
								syncObj, kind = nil, "none"
							}
						}
					case *ast.SendStmt:
						if ch, ok := ast.Unparen(last.Chan).(*ast.Ident); ok {
							syncObj, kind = p.info.Uses[ch], "chanRecv"
						}
					}
				}
			}
			if syncObj != nil && (syncObj.Pos() >= lit.Pos() && syncObj.Pos() <= lit.End()) {
				syncObj, kind = nil, "none" // a channel / WaitGroup local to the goroutine joins nothing
			}

			// ---- what it writes
			bind := map[types.Object]lfBinding{}
			for i, prm := range p.byLit[lit].params {
				if prm != nil {
					bind[prm] = lfBinding{slot: i}
				}
			}
			written := map[types.Object]bool{}
			throughParam := map[int]bool{}
			p.goWrites(u, lit, lit, lit.Body, bind, written, throughParam, 0)
			for o := range written {
				g.sharedWrites = append(g.sharedWrites, o.Name())
			}
			sort.Strings(g.sharedWrites)

			// ---- slot parameter:  go func(s *T){…}(&xs[i])  inside  for i := range xs / for i := K; …; i++
			var slotSlice types.Object
			slotStart := int64(0)
			loop := p.lfLoopOf(gs)
			if len(throughParam) > 0 {
				g.slotParam = true
				for i := range throughParam {
					okSlot := false
					if i-1 < len(gs.Call.Args) {
						if ua, ok := ast.Unparen(gs.Call.Args[i-1]).(*ast.UnaryExpr); ok && ua.Op == token.AND {
							if ix, ok := ast.Unparen(ua.X).(*ast.IndexExpr); ok {
								iv, ok1 := ast.Unparen(ix.Index).(*ast.Ident)
								sid, ok2 := ast.Unparen(ix.X).(*ast.Ident)
								if ok1 && ok2 {
									switch l := loop.(type) {
									case *ast.RangeStmt:
										if k, ok := l.Key.(*ast.Ident); ok && p.info.Defs[k] == p.info.Uses[iv] && p.src(l.X) == p.src(ix.X) {
											okSlot = true
										}
									case *ast.ForStmt:
										// for i := K; cond; i++   (i not assigned in the body)
										init, ok3 := l.Init.(*ast.AssignStmt)
										post, ok4 := l.Post.(*ast.IncDecStmt)
										if ok3 && ok4 && init.Tok == token.DEFINE && len(init.Lhs) == 1 && post.Tok == token.INC {
											k, ok5 := init.Lhs[0].(*ast.Ident)
											pi, ok6 := post.X.(*ast.Ident)
											if ok5 && ok6 && p.info.Defs[k] == p.info.Uses[iv] && p.info.Uses[pi] == p.info.Defs[k] {
												assigned := false
												ast.Inspect(l.Body, func(q ast.Node) bool {
													if as, ok := q.(*ast.AssignStmt); ok {
														for _, lh := range as.Lhs {
															if id, ok := lh.(*ast.Ident); ok && p.info.Uses[id] == p.info.Defs[k] {
																assigned = true
															}
														}
													}
													return true
												})
												if !assigned {
													okSlot = true
													if tv := p.info.Types[init.Rhs[0]]; tv.Value != nil {
														slotStart, _ = constant.Int64Val(tv.Value)
													}
												}
											}
										}
									}
									if okSlot {
										slotSlice = p.info.Uses[sid]
									}
								}
							}
						}
					}
					if !okSlot {
						g.slotParam = false
					}
				}
			}

			// ---- the join: a statement at the top level of the spawning function, after the spawn
			var joinFrom, joinEnd token.Pos
			if syncObj != nil && u != nil {
				for _, st := range u.body.List {
					if st.Pos() < gs.End() || g.joinLine != 0 {
						continue
					}
					switch kind {
					case "waitGroup":
						if es, ok := st.(*ast.ExprStmt); ok {
							if c, ok := es.X.(*ast.CallExpr); ok {
								if sel, ok := c.Fun.(*ast.SelectorExpr); ok && sel.Sel.Name == "Wait" {
									if id, ok := sel.X.(*ast.Ident); ok && p.info.Uses[id] == syncObj {
										g.joinLine, joinFrom, joinEnd = p.fset.Position(st.Pos()).Line, st.Pos(), st.End()
									}
								}
							}
						}
					case "chanClose":
						if p.lfRecvFrom(st, syncObj) {
							g.joinLine, joinFrom, joinEnd = p.fset.Position(st.Pos()).Line, st.Pos(), st.End()
						}
					case "chanRecv":
						if loop == nil {
							if p.lfRecvFrom(st, syncObj) {
								g.joinLine, joinFrom, joinEnd = p.fset.Position(st.Pos()).Line, st.Pos(), st.End()
							}
							continue
						}
						// one receive per spawned goroutine: a loop with the same header whose body
						// receives exactly once, unconditionally
						var lbody *ast.BlockStmt
						switch l2 := st.(type) {
						case *ast.RangeStmt:
							lbody = l2.Body
						case *ast.ForStmt:
							lbody = l2.Body
						}
						if lbody == nil || !p.lfSameLoop(loop, st) {
							continue
						}
						nrecv := 0
						for _, bs := range lbody.List {
							if p.lfRecvFrom(bs, syncObj) {
								nrecv++
							}
						}
						if nrecv == 1 {
							g.joinLine, joinFrom, joinEnd = p.fset.Position(st.Pos()).Line, st.Pos(), st.End()
						}
					}
				}
			}
			if g.joinLine != 0 {
				g.join = kind
				_ = joinFrom
				// nothing the goroutine writes may be used by the spawner or a sibling before the join
				// is complete; of the slot slice only len/cap and constant slots below the loop start
				touched := func(id *ast.Ident) bool {
					o := p.info.Uses[id]
					if o == nil {
						return false
					}
					if written[o] {
						return true
					}
					if o != slotSlice || slotSlice == nil {
						return false
					}
					switch par := p.parent[id].(type) {
					case *ast.CallExpr:
						if fn, ok := par.Fun.(*ast.Ident); ok && (fn.Name == "len" || fn.Name == "cap") {
							if _, isB := p.info.Uses[fn].(*types.Builtin); isB {
								return false
							}
						}
					case *ast.IndexExpr:
						if par.X == ast.Expr(id) {
							if tv := p.info.Types[par.Index]; tv.Value != nil {
								if c, ok := constant.Int64Val(tv.Value); ok && c >= 0 && c < slotStart {
									return false
								}
							}
						}
					}
					return true
				}
				from := gs.End()
				ast.Inspect(u.body, func(k ast.Node) bool {
					if k == ast.Node(gs) {
						return false
					}
					if fl, ok := k.(*ast.FuncLit); ok {
						// sibling goroutines: their writes must be to other variables
						if _, isGo := p.parent[p.parent[fl]].(*ast.GoStmt); isGo {
							ast.Inspect(fl.Body, func(q ast.Node) bool {
								if id, ok := q.(*ast.Ident); ok && written[p.info.Uses[id]] {
									g.touchedBefore = true
								}
								return true
							})
						}
						return false
					}
					id, ok := k.(*ast.Ident)
					if !ok {
						return true
					}
					inWindow := id.Pos() > from && id.Pos() < joinEnd
					if loop != nil && id.Pos() > loop.Pos() && id.Pos() < loop.End() {
						// inside the spawning loop: earlier iterations' goroutines are already running
						var lb *ast.BlockStmt
						switch l := loop.(type) {
						case *ast.RangeStmt:
							lb = l.Body
						case *ast.ForStmt:
							lb = l.Body
						}
						if lb != nil && id.Pos() > lb.Pos() {
							inWindow = true
						}
					}
					if inWindow && touched(id) {
						g.touchedBefore = true
					}
					return true
				})
			}
			out = append(out, g)
			return true
		})
	}
	return out
}

func lfUnitNode(u *lfUnit) ast.Node {
	if u.decl != nil {
		return u.decl
	}
	return u.lit
}

// ---------------------------------------------------------------------------------------------
// newTempFile

type lfTemp struct {
	flags, oExcl, oCreate, oTrunc int64
	retriesOnExist                bool
	where                         string
}

func (p *lfPkg) tempFile() (*lfTemp, error) {
	var u *lfUnit
	for _, x := range p.units {
		if x.name == "newTempFile" {
			u = x
		}
	}
	if u == nil {
		return nil, fmt.Errorf("%s: function newTempFile not found", p.rel)
	}
	t := &lfTemp{}
	var osPkg *types.Package
	n := 0
	ast.Inspect(u.body, func(m ast.Node) bool {
		c, ok := m.(*ast.CallExpr)
		if !ok {
			return true
		}
		sel, ok := c.Fun.(*ast.SelectorExpr)
		if !ok {
			return true
		}
		fn, ok := p.info.Uses[sel.Sel].(*types.Func)
		if !ok || fn.Pkg() == nil || fn.Pkg().Path() != "os" {
			return true
		}
		switch fn.Name() {
		case "OpenFile":
			n++
			osPkg = fn.Pkg()
			tv := p.info.Types[c.Args[1]]
			if tv.Value == nil {
				p.errorf(c.Pos(), "os.OpenFile flags of newTempFile are not a constant expression")
				return true
			}
			v, _ := constant.Int64Val(tv.Value)
			t.flags = v
			t.where = p.where(c.Pos())
		case "IsExist":
			t.retriesOnExist = true
		case "Create", "CreateTemp", "WriteFile":
			p.errorf(c.Pos(), "newTempFile creates a file with os.%s (not an exclusive create this extractor recognises)", fn.Name())
		}
		return true
	})
	if n != 1 {
		return nil, fmt.Errorf("%s: newTempFile has %d os.OpenFile calls, expected exactly 1", p.rel, n)
	}
	get := func(name string) int64 {
		c, ok := osPkg.Scope().Lookup(name).(*types.Const)
		if !ok {
			return 0
		}
		v, _ := constant.Int64Val(c.Val())
		return v
	}
	t.oExcl, t.oCreate, t.oTrunc = get("O_EXCL"), get("O_CREATE"), get("O_TRUNC")
	if t.oExcl == 0 || t.oCreate == 0 {
		return nil, fmt.Errorf("cannot evaluate os.O_EXCL / os.O_CREATE")
	}
	return t, nil
}

// ---------------------------------------------------------------------------------------------
// driver

// ---------------------------------------------------------------------------------------------
// counting semaphores built from buffered channels

// chanVarOf resolves a channel expression to the package variable or struct field holding it.
func (p *lfPkg) chanVarOf(e ast.Expr) *types.Var {
	switch x := ast.Unparen(e).(type) {
	case *ast.Ident:
		if v, ok := p.info.Uses[x].(*types.Var); ok && v.Parent() == p.pkg.Scope() {
			return v
		}
	case *ast.SelectorExpr:
		if s := p.info.Selections[x]; s != nil && s.Kind() == types.FieldVal {
			return s.Obj().(*types.Var)
		}
	}
	return nil
}

// semLeaks: a buffered channel that is a package variable or struct field, on which the package
// both sends (`sem <- v` as a statement) and receives discarding the value (`<-sem` as a
// statement), is a counting semaphore: send = acquire a slot, receive = release it.  Every way
// out of a function after an acquire must release the slot: a deferred release, a release in a
// block enclosing the return before it, or returning an object of this package whose Close
// method releases (the slot travels with the object).  Anything else is a leak: after `cap`
// leaks every further acquire blocks forever.
func (p *lfPkg) semLeaks() {
	type ev struct {
		u   *lfUnit
		pos token.Pos
		n   ast.Node
	}
	sends, recvs := map[*types.Var][]ev{}, map[*types.Var][]ev{}
	for _, f := range p.files {
		ast.Inspect(f, func(n ast.Node) bool {
			switch x := n.(type) {
			case *ast.SendStmt:
				if v := p.chanVarOf(x.Chan); v != nil {
					sends[v] = append(sends[v], ev{p.unitAt(x), x.Pos(), x})
				}
			case *ast.ExprStmt:
				if ue, ok := ast.Unparen(x.X).(*ast.UnaryExpr); ok && ue.Op == token.ARROW {
					if v := p.chanVarOf(ue.X); v != nil {
						recvs[v] = append(recvs[v], ev{p.unitAt(x), x.Pos(), x})
					}
				}
			}
			return true
		})
	}
	for sem, acqs := range sends {
		if len(recvs[sem]) == 0 {
			continue // a plain producer/consumer channel
		}
		if ch, ok := sem.Type().Underlying().(*types.Chan); !ok || ch.Dir() != types.SendRecv {
			continue
		}
		// types of this package whose Close releases the semaphore
		closers := map[*types.TypeName]bool{}
		for _, r := range recvs[sem] {
			for w := r.u; w != nil; w = w.outer {
				if w.decl != nil && w.decl.Recv != nil && w.decl.Name.Name == "Close" {
					t := w.fn.Type().(*types.Signature).Recv().Type()
					if pt, ok := t.(*types.Pointer); ok {
						t = pt.Elem()
					}
					if nt, ok := t.(*types.Named); ok {
						closers[nt.Obj()] = true
					}
				}
			}
		}
		releasedBefore := func(u *lfUnit, acq token.Pos, at ast.Node) bool {
			for _, r := range recvs[sem] {
				if r.pos <= acq || r.pos >= at.Pos() {
					continue
				}
				// deferred release:  defer func() { <-sem }()   directly in u's body
				for w := r.u; w != nil && w != u; w = w.outer {
					if w.lit != nil && w.outer == u {
						if c, ok := p.parent[w.lit].(*ast.CallExpr); ok {
							if _, isDefer := p.parent[c].(*ast.DeferStmt); isDefer {
								return true
							}
						}
					}
				}
				if r.u != u {
					continue
				}
				// a release in a block that encloses `at`
				blk := p.parent[r.n]
				for x := p.parent[at]; x != nil; x = p.parent[x] {
					if x == blk {
						return true
					}
				}
			}
			return false
		}
		for _, a := range acqs {
			u := a.u
			if u == nil {
				continue
			}
			var exits []ast.Node
			ast.Inspect(u.body, func(n ast.Node) bool {
				switch x := n.(type) {
				case *ast.FuncLit:
					return false
				case *ast.ReturnStmt:
					if x.Pos() > a.pos {
						exits = append(exits, x)
					}
				}
				return true
			})
			results := 0
			if u.decl != nil {
				results = u.fn.Type().(*types.Signature).Results().Len()
			} else if sig, ok := p.info.TypeOf(u.lit).(*types.Signature); ok {
				results = sig.Results().Len()
			}
			if results == 0 && len(u.body.List) > 0 {
				exits = append(exits, &ast.EmptyStmt{Semicolon: u.body.End() - 1}) // falling off the end
			}
			for _, ex := range exits {
				if ex.Pos() < u.body.End()-1 || results > 0 {
					if _, isRet := ex.(*ast.ReturnStmt); !isRet {
						continue
					}
				}
				if rs, ok := ex.(*ast.ReturnStmt); ok {
					if releasedBefore(u, a.pos, rs) {
						continue
					}
					// the slot travels with a returned object whose Close releases it
					handed := false
					for _, res := range rs.Results {
						t := p.info.TypeOf(res)
						if pt, ok := t.(*types.Pointer); ok {
							t = pt.Elem()
						}
						if nt, ok := t.(*types.Named); ok && closers[nt.Obj()] {
							handed = true
						}
					}
					if handed {
						p.loose = append(p.loose, lfLoose{u, sem, rs.Pos(), "handover", "slot of " + lfGuardName(p, sem) + " returned inside an object whose Close releases it"})
						continue
					}
					p.loose = append(p.loose, lfLoose{u, sem, rs.Pos(), "leak", "return with a slot of semaphore " + lfGuardName(p, sem) + " still held: " + strings.SplitN(p.src(rs), "\n", 2)[0]})
				} else {
					// end of a function without results: released at top level after the acquire?
					ok := false
					for _, r := range recvs[sem] {
						if r.u == u && r.pos > a.pos && p.parent[r.n] == ast.Node(u.body) {
							ok = true
						}
						for w := r.u; w != nil && w != u; w = w.outer {
							if w.lit != nil && w.outer == u && r.pos > a.pos {
								if c, isCall := p.parent[w.lit].(*ast.CallExpr); isCall {
									if _, isDefer := p.parent[c].(*ast.DeferStmt); isDefer {
										ok = true
									}
								}
							}
						}
					}
					if !ok {
						p.loose = append(p.loose, lfLoose{u, sem, a.pos, "leak", "function ends with a slot of semaphore " + lfGuardName(p, sem) + " still held"})
					}
				}
			}
		}
	}
}

// ---------------------------------------------------------------------------------------------
// generic facts: barriers of any guard, split read-modify-write, renames, writes to globals

// anyBarrier: which units run only under SOME mutex of the package / only inside SOME once body.
type lfAny struct {
	underMutex map[*lfUnit]string // unit -> name of a mutex that is held at every call site (write lock)
	inOnce     map[*lfUnit]bool
}

func (p *lfPkg) anyBarrier() *lfAny {
	a := &lfAny{underMutex: map[*lfUnit]string{}, inOnce: map[*lfUnit]bool{}}
	guards := map[*types.Var]bool{}
	for _, u := range p.units {
		for _, r := range u.regions {
			if !r.read {
				guards[r.guard] = true
			}
		}
	}
	for g := range guards {
		g := g
		conf := p.confined(func(c *lfCall) bool {
			if c.caller == nil || c.isRef {
				return false
			}
			r := c.caller.heldAt(c.pos, g)
			return r != nil && !r.read
		})
		for u := range conf {
			if _, ok := a.underMutex[u]; !ok {
				a.underMutex[u] = lfGuardName(p, g)
			}
		}
	}
	ob := p.confined(func(c *lfCall) bool { return c.caller != nil && c.caller.onceBody != nil })
	for _, u := range p.units {
		if u.onceBody != nil || ob[u] || (u.decl != nil && len(lfOnceArgs[u]) > 0 && u.escapes == "") {
			a.inOnce[u] = true
		}
	}
	return a
}

// barrierAt names the barrier (of any guard) that covers position pos of unit u, or "none".
func (p *lfPkg) barrierAt(a *lfAny, u *lfUnit, pos token.Pos) (string, string) {
	if u == nil {
		return "pkgInit", ""
	}
	for _, r := range u.regions {
		if r.read || !(r.from <= pos && pos < r.to) {
			continue
		}
		inHole := false
		for _, h := range r.holes {
			if h[0] <= pos && pos < h[1] {
				inHole = true
			}
		}
		if !inHole {
			if r.deferred {
				return "deferLock", lfGuardName(p, r.guard)
			}
			return "lock", lfGuardName(p, r.guard)
		}
	}
	if g, ok := a.underMutex[u]; ok {
		return "confined", g
	}
	if a.inOnce[u] {
		return "onceBody", ""
	}
	if u.decl != nil && u.decl.Recv == nil && u.decl.Name.Name == "init" {
		return "pkgInit", ""
	}
	return "none", ""
}

// mentions: expression e mentions variable v.
func (p *lfPkg) mentions(e ast.Node, v types.Object) bool {
	found := false
	ast.Inspect(e, func(n ast.Node) bool {
		if id, ok := n.(*ast.Ident); ok && p.info.Uses[id] == v {
			found = true
		}
		return !found
	})
	return found
}

type lfSplit struct{ fn, variable, where, how string }

// splitRMW finds the lost-update shape for a mutex-guarded variable v: a function obtains the
// value of v in one critical section (directly, or from a getter: a function whose critical
// section reads v and which returns a value), and later stores a value computed from it in
// ANOTHER critical section (directly, or through a setter: a function whose critical section
// assigns v from a parameter).  Between the two another goroutine's update can be lost.
func (p *lfPkg) splitRMW(v *types.Var, g *types.Var, name string) []lfSplit {
	getters, setters := map[*lfUnit]bool{}, map[*lfUnit]int{}
	type access struct {
		u     *lfUnit
		id    *ast.Ident
		write bool
		r     *lfRegion
	}
	var acc []access
	for _, f := range p.files {
		ast.Inspect(f, func(n ast.Node) bool {
			id, ok := n.(*ast.Ident)
			if !ok || p.info.Uses[id] != types.Object(v) {
				return true
			}
			u := p.unitAt(id)
			if u == nil {
				return true
			}
			var expr ast.Expr = id
			if sel, ok := p.parent[id].(*ast.SelectorExpr); ok && sel.Sel == id {
				expr = sel
			}
			acc = append(acc, access{u, id, p.isWrite(expr), u.heldAt(id.Pos(), g)})
			return true
		})
	}
	for _, a := range acc {
		if a.r == nil || a.u.decl == nil {
			continue
		}
		sig := a.u.fn.Type().(*types.Signature)
		if !a.write && sig.Results().Len() > 0 {
			getters[a.u] = true
		}
		if a.write {
			// v = <expr mentioning parameter k>      (x.v = … for a field)
			var lhs ast.Expr = a.id
			if sel, ok := p.parent[a.id].(*ast.SelectorExpr); ok && sel.Sel == a.id {
				lhs = sel
			}
			if as, ok := p.parent[lhs].(*ast.AssignStmt); ok && len(as.Lhs) == len(as.Rhs) {
				for i, l := range as.Lhs {
					if l == lhs {
						for k, prm := range a.u.params {
							if prm != nil && k > 0 && p.mentions(as.Rhs[i], prm) {
								setters[a.u] = k
							}
						}
					}
				}
			}
		}
	}
	for _, a := range acc {
		if a.write {
			delete(getters, a.u) // a function that also writes v is not a pure getter
		}
	}
	var out []lfSplit
	for _, u := range p.units {
		// read events: local variable <- value of v
		type rd struct {
			local types.Object
			pos   token.Pos
			r     *lfRegion
			how   string
		}
		var reads []rd
		ast.Inspect(u.body, func(n ast.Node) bool {
			if _, ok := n.(*ast.FuncLit); ok {
				return false
			}
			as, ok := n.(*ast.AssignStmt)
			if !ok || len(as.Lhs) != len(as.Rhs) {
				return true
			}
			for i, l := range as.Lhs {
				lid, ok := l.(*ast.Ident)
				if !ok {
					continue
				}
				lo := p.info.Defs[lid]
				if lo == nil {
					lo = p.info.Uses[lid]
				}
				if lo == nil || lo == types.Object(v) {
					continue
				}
				rhs := as.Rhs[i]
				if p.mentions(rhs, v) {
					if r := u.heldAt(as.Pos(), g); r != nil {
						reads = append(reads, rd{lo, as.Pos(), r, "read under " + lfGuardName(p, g)})
					}
				}
				if c, ok := ast.Unparen(rhs).(*ast.CallExpr); ok {
					if fn := p.calleeFunc(c.Fun); fn != nil && getters[p.byFn[fn]] && u.heldAt(as.Pos(), g) == nil {
						reads = append(reads, rd{lo, as.Pos(), nil, "read by " + fn.Name() + "()"})
					}
				}
			}
			return true
		})
		if len(reads) == 0 {
			continue
		}
		ast.Inspect(u.body, func(n ast.Node) bool {
			if _, ok := n.(*ast.FuncLit); ok {
				return false
			}
			switch x := n.(type) {
			case *ast.AssignStmt:
				for i, l := range x.Lhs {
					isV := false
					switch lx := ast.Unparen(l).(type) {
					case *ast.Ident:
						isV = p.info.Uses[lx] == types.Object(v)
					case *ast.SelectorExpr:
						isV = p.info.Uses[lx.Sel] == types.Object(v)
					}
					if !isV {
						if id, _ := lfRootIdent(l); id != nil && !v.IsField() && p.info.Uses[id] == types.Object(v) {
							isV = true // an element / field of the package variable
						}
					}
					if isV && i < len(x.Rhs) {
						wr := u.heldAt(x.Pos(), g)
						// a second critical section that looks at v again before storing (re-check
						// after re-locking) decides on the current value: not a blind write-back
						rechecked := false
						if wr != nil {
							for _, a := range acc {
								if a.u == u && !a.write && a.id.Pos() >= wr.from && a.id.Pos() < x.Pos() {
									rechecked = true
								}
							}
						}
						for _, r := range reads {
							if rechecked && r.r != wr {
								continue
							}
							if r.pos < x.Pos() && p.mentions(x.Rhs[i], r.local) && (r.r == nil || r.r != wr) {
								out = append(out, lfSplit{u.name, name, p.where(x.Pos()), r.how + ", written back in another critical section"})
							}
						}
					}
				}
			case *ast.CallExpr:
				fn := p.calleeFunc(x.Fun)
				if fn == nil {
					return true
				}
				k, isSetter := setters[p.byFn[fn]]
				if !isSetter || k-1 >= len(x.Args) || u.heldAt(x.Pos(), g) != nil {
					return true
				}
				for _, r := range reads {
					if r.pos < x.Pos() && p.mentions(x.Args[k-1], r.local) {
						out = append(out, lfSplit{u.name, name, p.where(x.Pos()), r.how + ", written back by " + fn.Name() + "()"})
					}
				}
			}
			return true
		})
	}
	return out
}

type lfRename struct{ fn, where, dst, guard string }

// renames lists every os.Rename of the package with the mutex that serialises it ("" = none):
// a rename REPLACES its destination, so the destination is protected neither by the O_EXCL of
// the source name nor by anything else unless all such renames run under one lock.
func (p *lfPkg) renames(a *lfAny) []lfRename {
	var out []lfRename
	for _, f := range p.files {
		ast.Inspect(f, func(n ast.Node) bool {
			c, ok := n.(*ast.CallExpr)
			if !ok || len(c.Args) != 2 {
				return true
			}
			sel, ok := c.Fun.(*ast.SelectorExpr)
			if !ok {
				return true
			}
			fn, ok := p.info.Uses[sel.Sel].(*types.Func)
			if !ok || fn.Pkg() == nil || fn.Pkg().Path() != "os" || (fn.Name() != "Rename" && fn.Name() != "Link" && fn.Name() != "Symlink") {
				return true
			}
			u := p.unitAt(c)
			r := lfRename{fn: "package-level", where: p.where(c.Pos()), dst: p.src(c.Args[1])}
			if u != nil {
				r.fn = u.name
				if b, g := p.barrierAt(a, u, c.Pos()); b == "lock" || b == "deferLock" || b == "confined" {
					r.guard = g
				}
			}
			if fn.Name() != "Rename" {
				r.guard = "exclusive:" + fn.Name() // link/symlink fail when the destination exists
			}
			out = append(out, r)
			return true
		})
	}
	return out
}

type lfGlobalWrite struct{ variable, fn, where, barrier string }

// globalWrites lists every assignment to a package-level variable made inside a function
// (lazy initialisation, mutable globals) with the barrier that covers it.
func (p *lfPkg) globalWrites(a *lfAny) []lfGlobalWrite {
	var out []lfGlobalWrite
	for _, f := range p.files {
		ast.Inspect(f, func(n ast.Node) bool {
			id, ok := n.(*ast.Ident)
			if !ok {
				return true
			}
			v, ok := p.info.Uses[id].(*types.Var)
			if !ok || v.Pkg() != p.pkg || v.Parent() != p.pkg.Scope() {
				return true
			}
			u := p.unitAt(id)
			if u == nil {
				return true
			}
			var expr ast.Expr = id
			if !p.isWrite(expr) {
				return true
			}
			if lfIsSync(v.Type(), "Mutex") || lfIsSync(v.Type(), "RWMutex") || lfIsSync(v.Type(), "Once") || lfIsSync(v.Type(), "WaitGroup") {
				return true // calling mu.Lock() "writes" the mutex
			}
			b, _ := p.barrierAt(a, u, id.Pos())
			out = append(out, lfGlobalWrite{p.pkg.Name() + "." + v.Name(), u.name, p.where(id.Pos()), b})
			return true
		})
	}
	return out
}

func genLockFacts(e *Env) (string, error) {
	fset := token.NewFileSet()
	// the source importer resolves module-local import paths with `go list`, which must run
	// inside the pprof module (this process runs in /verif/tools/extract)
	if abs, err := filepath.Abs(e.Repo); err == nil {
		build.Default.Dir = abs
	}
	imp := importer.ForCompiler(fset, "source", nil)
	for k := range lfOnceArgs {
		delete(lfOnceArgs, k)
	}
	var sites []lfSite
	var nested []lfNested
	var gos []lfGo
	var temp *lfTemp
	var immut []lfSite
	var errs []string
	type regionRow struct{ guard, fn, shape, where string }
	var regions []regionRow
	var guardRows [][3]string
	var looseRows [][5]string
	var splits []lfSplit
	var renames []lfRename
	var globals []lfGlobalWrite
	ext := map[string]map[string]bool{}
	for _, rel := range lfPackages {
		p, err := lfLoad(e, fset, imp, rel)
		if err != nil {
			return "", err
		}
		p.scanGuards()
		p.buildCalls()
		p.deriveOnce()
		p.semLeaks()
		fr := p.freshParams()
		for _, u := range p.units {
			for _, r := range u.regions {
				shape := "explicit"
				if r.deferred {
					shape = "defer"
				}
				if r.read {
					shape = "read-" + shape
				}
				regions = append(regions, regionRow{lfGuardName(p, r.guard), u.name, shape, p.where(r.lockPos)})
			}
			for _, d := range u.onceDos {
				shape := "once.Do"
				if d.derived {
					shape = "once.Do via helper"
				}
				regions = append(regions, regionRow{lfGuardName(p, d.guard), u.name, shape, p.where(d.pos)})
			}
		}
		for _, spec := range lfSpecs {
			if spec.pkg != rel {
				continue
			}
			var vars []types.Object
			if strings.HasSuffix(spec.field, "()") {
				if fn, ok := p.pkg.Scope().Lookup(strings.TrimSuffix(spec.field, "()")).(*types.Func); ok {
					vars = append(vars, fn)
				}
			} else {
				for _, v := range p.lookupVar(spec.owner, spec.field) {
					vars = append(vars, v)
				}
			}
			if len(vars) == 0 {
				errs = append(errs, fmt.Sprintf("%s: guarded variable %s.%s not found", rel, spec.owner, spec.field))
				continue
			}
			g := p.findGuard(spec)
			if g == nil {
				// no such guard in the source (any more): every site is reported with barrier
				// `none` and the Lean obligation all_sites_guarded decides
				g = types.NewVar(token.NoPos, p.pkg, "<no "+spec.kind+" "+spec.gOwn+"."+spec.guard+">", types.Typ[types.Invalid])
			}
			var conf, confR, ob, ao map[*lfUnit]bool
			if spec.kind == "mutex" {
				held := func(needWrite bool) func(c *lfCall) bool {
					return func(c *lfCall) bool {
						if c.caller == nil || c.isRef {
							return false
						}
						r := c.caller.heldAt(c.pos, g)
						if r == nil || (needWrite && r.read) {
							return false
						}
						if r.base == "" {
							return true
						}
						// the locked object must be handed to the callee (receiver or argument)
						for _, a := range c.args {
							if a != nil && p.src(a) == r.base {
								return true
							}
						}
						return false
					}
				}
				conf = p.confined(held(true))   // only reachable with the write lock held
				confR = p.confined(held(false)) // only reachable with the read or the write lock held
			} else {
				ob = p.confined(func(c *lfCall) bool { return c.caller != nil && c.caller.onceBody == g })
				ao = p.confined(func(c *lfCall) bool {
					return c.caller != nil && (c.caller.afterOnce(c.pos, g, "*") || c.caller.onceBody == g || ob[c.caller])
				})
			}
			for _, v := range vars {
				name := p.pkg.Name() + "." + v.Name()
				if fv, ok := v.(*types.Var); ok && fv.IsField() {
					name = p.pkg.Name() + "." + lfFieldOwner(p, fv) + "." + v.Name()
				}
				if _, ok := v.(*types.Func); ok {
					name += "()"
				}
				t := &lfTarget{spec: spec, v: v, guard: g, name: name}
				guardRows = append(guardRows, [3]string{name, lfGuardName(p, g), spec.kind})
				if fv, ok := v.(*types.Var); ok && spec.kind == "mutex" {
					splits = append(splits, p.splitRMW(fv, g, name)...)
				}
				ss := p.sitesOf(t, fr, conf, confR, ob, ao)
				if len(ss) == 0 {
					errs = append(errs, fmt.Sprintf("%s: no access site of %s found", rel, name))
				}
				sites = append(sites, ss...)
			}
		}
		for _, im := range lfImmutable {
			if im.pkg != rel {
				continue
			}
			vars := p.lookupVarAll(im.typ)
			if len(vars) == 0 {
				errs = append(errs, fmt.Sprintf("%s: struct %s not found", rel, im.typ))
			}
			for _, v := range vars {
				t := &lfTarget{spec: lfGuardSpec{kind: "none"}, v: v, guard: v, name: p.pkg.Name() + "." + im.typ + "." + v.Name()}
				for _, s := range p.sitesOf(t, fr, nil, nil, nil, nil) {
					if s.write {
						s.guard = ""
						immut = append(immut, s)
					}
				}
			}
		}
		anyB := p.anyBarrier()
		renames = append(renames, p.renames(anyB)...)
		globals = append(globals, p.globalWrites(anyB)...)
		for _, l := range p.loose {
			fn := "package-level"
			if l.unit != nil {
				fn = l.unit.name
			}
			looseRows = append(looseRows, [5]string{fn, lfGuardName(p, l.guard), l.kind, l.text, p.where(l.pos)})
		}
		nested = append(nested, p.nested(ext)...)
		for u, gsx := range p.mayAcquire() {
			if u.fn != nil && len(gsx) > 0 {
				ext[u.fn.FullName()] = gsx
			}
		}
		gos = append(gos, p.goSites()...)
		if rel == "internal/driver" {
			temp, err = p.tempFile()
			if err != nil {
				errs = append(errs, err.Error())
			}
		}
		errs = append(errs, p.errs...)
	}
	if len(errs) > 0 {
		return "", fmt.Errorf("unrecognised source shape(s):\n  %s", strings.Join(errs, "\n  "))
	}
	sort.SliceStable(sites, func(i, j int) bool {
		a, b := sites[i], sites[j]
		if a.variable != b.variable {
			return a.variable < b.variable
		}
		if a.file != b.file {
			return a.file < b.file
		}
		return a.line < b.line
	})

	var b strings.Builder
	b.WriteString("/- GENERATED by tools/extract/lockfacts.go from the current pprof source — do not edit. -/\n")
	b.WriteString("import PprofVerif.Model.ConcFacts\nnamespace PV.Gen.LockFacts\nopen PV.ConcFacts\n\n")
	// guard table
	b.WriteString("/-- guarded variable ↦ (guard, kind) -/\ndef guards : List GuardSpec := [\n")
	sort.Slice(guardRows, func(i, j int) bool { return guardRows[i][0] < guardRows[j][0] })
	varID, guardID := map[string]int{}, map[string]int{"": 0}
	for i, g := range guardRows {
		varID[g[0]] = i + 1
		if _, ok := guardID[g[1]]; !ok {
			guardID[g[1]] = len(guardID)
		}
		if i > 0 {
			b.WriteString(",\n")
		}
		fmt.Fprintf(&b, "  ⟨%d, %s, %d, %s, .%s⟩", varID[g[0]], leanStr(g[0]), guardID[g[1]], leanStr(g[1]), g[2])
	}
	b.WriteString("]\n\n")
	writeSites := func(name, doc string, ss []lfSite) {
		fmt.Fprintf(&b, "/-- %s -/\ndef %s : List Site := [\n", doc, name)
		for i, s := range ss {
			if i > 0 {
				b.WriteString(",\n")
			}
			fmt.Fprintf(&b, "  ⟨%d, %s, %s, %s, %d, %t, .%s, %d, %s, %s⟩", varID[s.variable], leanStr(s.variable), leanStr(s.fn), leanStr(s.file), s.line, s.write, s.barrier, guardID[s.guard], leanStr(s.guard), lfLeanList(s.via))
		}
		b.WriteString("]\n\n")
	}
	writeSites("sites", "every syntactic access site of a guarded variable", sites)
	writeSites("immutableWrites", "every write to a field of a copy-on-write struct (binrep)", immut)
	b.WriteString("/-- every Lock region / Once.Do of the analysed packages: (guard, function, shape, place) -/\ndef regions : List (String × String × String × String) := [\n")
	for i, r := range regions {
		if i > 0 {
			b.WriteString(",\n")
		}
		fmt.Fprintf(&b, "  (%s, %s, %s, %s)", leanStr(r.guard), leanStr(r.fn), leanStr(r.shape), leanStr(r.where))
	}
	b.WriteString("]\n\n")
	b.WriteString("/-- places where a guard is acquired while another is held: (function, outer, inner, place) -/\ndef nested : List (String × String × String × String) := [\n")
	for i, n := range nested {
		if i > 0 {
			b.WriteString(",\n")
		}
		fmt.Fprintf(&b, "  (%s, %s, %s, %s)", leanStr(n.fn), leanStr(n.outer), leanStr(n.inner), leanStr(n.where))
	}
	b.WriteString("]\n\n")
	// lock order: ids for every guard that occurs in a region, the nesting edges, and a rank
	// certificate (topological order; when the nesting relation has a cycle no valid rank exists
	// and the ranks emitted here fail the check lock_order_acyclic)
	for _, r := range regions {
		if _, ok := guardID[r.guard]; !ok {
			guardID[r.guard] = len(guardID)
		}
	}
	type edge struct{ o, i int }
	var edges []edge
	seenEdge := map[edge]bool{}
	for _, n := range nested {
		e := edge{guardID[n.outer], guardID[n.inner]}
		if !seenEdge[e] {
			seenEdge[e] = true
			edges = append(edges, e)
		}
	}
	rank := map[int]int{}
	for pass := 0; pass <= len(guardID); pass++ { // longest-path layering; stabilises iff acyclic
		for _, e := range edges {
			if rank[e.i] < rank[e.o]+1 && rank[e.o]+1 <= len(guardID)+1 {
				rank[e.i] = rank[e.o] + 1
			}
		}
	}
	b.WriteString("/-- nesting edges (outer guard id, inner guard id) -/\ndef nestedEdges : List (Nat × Nat) := [")
	for i, e := range edges {
		if i > 0 {
			b.WriteString(", ")
		}
		fmt.Fprintf(&b, "(%d, %d)", e.o, e.i)
	}
	b.WriteString("]\n\n/-- rank certificate: (guard id, name, rank); every nesting edge must go to a higher rank -/\ndef lockRank : List (Nat × String × Nat) := [\n")
	var gnames []string
	for g := range guardID {
		if g != "" {
			gnames = append(gnames, g)
		}
	}
	sort.Slice(gnames, func(i, j int) bool { return guardID[gnames[i]] < guardID[gnames[j]] })
	for i, g := range gnames {
		if i > 0 {
			b.WriteString(",\n")
		}
		fmt.Fprintf(&b, "  (%d, %s, %d)", guardID[g], leanStr(g), rank[guardID[g]])
	}
	b.WriteString("]\n\n")
	b.WriteString("/-- every `go` statement of the analysed packages -/\ndef goSites : List GoSite := [\n")
	for i, g := range gos {
		if i > 0 {
			b.WriteString(",\n")
		}
		fmt.Fprintf(&b, "  ⟨%s, %s, %d, %s, .%s, %d, %s, %t, %t⟩", leanStr(g.fn), leanStr(g.file), g.line, leanStr(g.callee), g.join, g.joinLine, lfLeanList(g.sharedWrites), g.touchedBefore, g.slotParam)
	}
	b.WriteString("]\n\n")
	b.WriteString("/-- uses of sync primitives that have none of the recognised shapes: (function, guard, kind, text, place).\nThey create no guarded region; kind \"leak\" = the function returns inside Lock…Unlock with the mutex held -/\ndef looseSync : List (String × String × String × String × String) := [\n")
	for i, l := range looseRows {
		if i > 0 {
			b.WriteString(",\n")
		}
		fmt.Fprintf(&b, "  (%s, %s, %s, %s, %s)", leanStr(l[0]), leanStr(l[1]), leanStr(l[2]), leanStr(l[3]), leanStr(l[4]))
	}
	b.WriteString("]\n\n")
	b.WriteString("/-- lost-update shapes: a function reads a mutex-guarded package variable in one critical section and\nwrites a value computed from it back in another: (function, variable, place, how) -/\ndef splitRMW : List (String × String × String × String) := [\n")
	for i, x := range splits {
		if i > 0 {
			b.WriteString(",\n")
		}
		fmt.Fprintf(&b, "  (%s, %s, %s, %s)", leanStr(x.fn), leanStr(x.variable), leanStr(x.where), leanStr(x.how))
	}
	b.WriteString("]\n\n/-- every os.Rename (a rename REPLACES its destination): (function, place, destination, mutex that\nserialises it or \"\") -/\ndef renames : List (String × String × String × String) := [\n")
	for i, x := range renames {
		if i > 0 {
			b.WriteString(",\n")
		}
		fmt.Fprintf(&b, "  (%s, %s, %s, %s)", leanStr(x.fn), leanStr(x.where), leanStr(x.dst), leanStr(x.guard))
	}
	b.WriteString("]\n\n/-- every assignment to a package-level variable made inside a function: (variable, function, place) and its barrier -/\ndef globalWrites : List (String × String × String × Barrier) := [\n")
	for i, x := range globals {
		if i > 0 {
			b.WriteString(",\n")
		}
		fmt.Fprintf(&b, "  (%s, %s, %s, .%s)", leanStr(x.variable), leanStr(x.fn), leanStr(x.where), x.barrier)
	}
	b.WriteString("]\n\n")
	fmt.Fprintf(&b, "/-- flags newTempFile passes to os.OpenFile (%s) and the os constants of this platform -/\n", temp.where)
	fmt.Fprintf(&b, "def tempFile : TempFileFacts := ⟨%d, %d, %d, %d, %t⟩\n\n", temp.flags, temp.oExcl, temp.oCreate, temp.oTrunc, temp.retriesOnExist)
	b.WriteString("end PV.Gen.LockFacts\n")
	return b.String(), nil
}

func (p *lfPkg) lookupVarAll(typ string) []*types.Var {
	tn, ok := p.pkg.Scope().Lookup(typ).(*types.TypeName)
	if !ok {
		return nil
	}
	st, ok := tn.Type().Underlying().(*types.Struct)
	if !ok {
		return nil
	}
	var out []*types.Var
	for i := 0; i < st.NumFields(); i++ {
		out = append(out, st.Field(i))
	}
	return out
}

func lfLeanList(ss []string) string {
	var q []string
	for _, s := range ss {
		q = append(q, leanStr(s))
	}
	return "[" + strings.Join(q, ", ") + "]"
}
