// Generator for Gen/Comparators.lean (property C08).
//
// Translates the comparator functions of internal/graph/graph.go — tags.Less, edgeList.Less, the
// closures of Nodes.Sort (one per NodeOrder constant) with compareNodes inlined — into DATA: per
// comparator a list of key descriptors in source order
//
//	⟨projection, guard = raw|abs|same, direction = asc|desc, transform = id|abs⟩
//
// The interpreter `PV.Order.lessOf` (fixed Lean, Model/Order.lean) gives the list its meaning, the
// generic theorem `lessOf_strict_total` is proved once, and Props/C08.lean re-checks on every run
// that each regenerated list is proper (the guard tests the quantity the order compares) and ends
// in keys that determine the identity of the thing ordered.
//
// Recognised statement shapes inside a comparator body (A/B = the two elements compared):
//
//	if fA != fB { return gA < gB }                       guard raw|abs (as written), order g
//	if x, y := gA, gB; x != y { return x > y }           guard same-as-order
//	x := gA ; y := gB ; if x != y { return x < y }       (locals, as in edgeList.Less)
//	if <cond not mentioning A or B> { …keys… }           two variants of the comparator
//	return gA < gB | return gB > gA | return false       last key
//	return other(A, B)                                   other comparator inlined (compareNodes)
//
// where f, g are a field path of the element, optionally wrapped in abs64(…), a zero-argument
// method call (PrintableName()), fmt.Sprint(path) or score[elem].  Anything else is an error:
// the extractor exits non-zero and bin/check reports a broken obligation.
package main

import (
	"fmt"
	"go/ast"
	"go/token"
	"sort"
	"strings"
)

func init() { register("Comparators.lean", genComparators) }

type keyDesc struct {
	proj   string // Lean term of the projection, e.g. ".Cum", "(.Src .Info_PrintableName)"
	guard  string // raw | abs | same
	dir    string // asc | desc
	xf     string // id | abs
	goText string
	path   string // Go path of the projection below the element, e.g. "Src.Info.Name", "Sprint(Info)"
}

// side expression after normalisation
type sideExpr struct {
	side int    // 0 = A, 1 = B
	path string // Go-ish path below the element, e.g. "Info.PrintableName()"
	abs  bool
	via  string // name of the local it was read through ("" if written in place)
	key  bool   // the expression is the precomputed key STRUCT of that element (not yet a field of it)
}

type cmpCtx struct {
	fset   *token.FileSet
	file   *ast.File
	isA    func(ast.Expr) bool // is this expression the A element itself
	isB    func(ast.Expr) bool
	locals map[string]*sideExpr
	funcs  map[string]*ast.FuncDecl // package-level functions by name (for inlining)
	projOf func(path string) (string, error)
	depth  int
	// precomputed-key style: keyRef recognises `recv.keys[i]`; keyDefs maps a field of the key struct
	// to the expression of the element it was computed from at the construction site
	keyRef  func(ast.Expr) (side int, ok bool)
	keyDefs map[string]*sideExpr
	keyType string
	// set in a comparator inlined for a SUB-element (compareNodes(el[i].Src, el[j].Src)): the path of
	// that sub-element below the outer element
	prefix string
	// struct types of the file (field lists), to check that a whole-struct guard is decided by the keys
	structs map[string][]string
}

// prefixed puts the sub-element prefix in front of a path: Info.Name -> Src.Info.Name,
// Sprint(Info) -> Sprint(Src.Info).
func (c *cmpCtx) prefixed(p string) string { return prefixPath(c.prefix, p) }

func prefixPath(prefix, p string) string {
	if prefix == "" {
		return p
	}
	if strings.HasPrefix(p, "Sprint(") {
		return "Sprint(" + prefix + "." + p[len("Sprint("):]
	}
	return prefix + "." + p
}

func (c *cmpCtx) errf(n ast.Node, format string, a ...any) error {
	return fmt.Errorf("%s: %s", c.fset.Position(n.Pos()), fmt.Sprintf(format, a...))
}

// side normalises an expression that must depend on exactly one of the two elements.
func (c *cmpCtx) sideOf(e ast.Expr) (*sideExpr, error) {
	if c.keyRef != nil {
		if side, ok := c.keyRef(e); ok {
			return &sideExpr{side: side, key: true}, nil
		}
	}
	switch x := e.(type) {
	case *ast.ParenExpr:
		return c.sideOf(x.X)
	case *ast.UnaryExpr:
		// &recv.keys[i]
		if x.Op == token.AND {
			in, err := c.sideOf(x.X)
			if err != nil {
				return nil, err
			}
			if in.key {
				return in, nil
			}
		}
		return nil, c.errf(e, "unsupported expression %s", src(c.fset, e))
	case *ast.StarExpr:
		in, err := c.sideOf(x.X)
		if err != nil {
			return nil, err
		}
		if in.key {
			return in, nil
		}
		return nil, c.errf(e, "unsupported expression %s", src(c.fset, e))
	case *ast.Ident:
		if c.isA(x) {
			return &sideExpr{side: 0}, nil
		}
		if c.isB(x) {
			return &sideExpr{side: 1}, nil
		}
		if l, ok := c.locals[x.Name]; ok {
			cp := *l
			cp.via = x.Name
			return &cp, nil
		}
		return nil, c.errf(e, "identifier %s is neither an element nor a recognised local", x.Name)
	case *ast.IndexExpr:
		if c.isA(x) {
			return &sideExpr{side: 0}, nil
		}
		if c.isB(x) {
			return &sideExpr{side: 1}, nil
		}
		// m[elem]  (score[l])
		if id, ok := x.X.(*ast.Ident); ok {
			in, err := c.sideOf(x.Index)
			if err != nil {
				return nil, err
			}
			if in.path != "" || in.abs || in.key {
				return nil, c.errf(e, "unsupported index expression %s", src(c.fset, e))
			}
			return &sideExpr{side: in.side, path: id.Name + "[]"}, nil
		}
		return nil, c.errf(e, "unsupported index expression %s", src(c.fset, e))
	case *ast.SelectorExpr:
		in, err := c.sideOf(x.X)
		if err != nil {
			return nil, err
		}
		if in.key {
			// a field of the precomputed key: replace it by the expression it was computed from
			def, ok := c.keyDefs[x.Sel.Name]
			if !ok {
				return nil, c.errf(e, "field %s of the precomputed key %s cannot be traced to a defining expression at the construction site", x.Sel.Name, c.keyType)
			}
			return &sideExpr{side: in.side, path: def.path, abs: def.abs, via: "key." + x.Sel.Name}, nil
		}
		if in.abs {
			return nil, c.errf(e, "selector applied to abs64 result")
		}
		return &sideExpr{side: in.side, path: joinPath(in.path, x.Sel.Name)}, nil
	case *ast.CallExpr:
		// abs64(x)
		if id, ok := x.Fun.(*ast.Ident); ok && id.Name == "abs64" && len(x.Args) == 1 {
			in, err := c.sideOf(x.Args[0])
			if err != nil {
				return nil, err
			}
			if in.key {
				return nil, c.errf(e, "abs64 applied to a key struct")
			}
			if in.abs {
				return in, nil // abs64(abs64(x)) = abs64(x) except at MinInt64 where both are MinInt64
			}
			return &sideExpr{side: in.side, path: in.path, abs: true}, nil
		}
		// fmt.Sprint(x)
		if sel, ok := x.Fun.(*ast.SelectorExpr); ok {
			if pk, ok := sel.X.(*ast.Ident); ok && pk.Name == "fmt" && sel.Sel.Name == "Sprint" && len(x.Args) == 1 {
				in, err := c.sideOf(x.Args[0])
				if err != nil {
					return nil, err
				}
				if in.key || in.abs {
					return nil, c.errf(e, "unsupported argument of fmt.Sprint")
				}
				return &sideExpr{side: in.side, path: "Sprint(" + in.path + ")"}, nil
			}
			// zero-argument method call
			if len(x.Args) == 0 {
				in, err := c.sideOf(sel.X)
				if err != nil {
					return nil, err
				}
				if in.key || in.abs {
					return nil, c.errf(e, "unsupported method call %s", src(c.fset, e))
				}
				return &sideExpr{side: in.side, path: joinPath(in.path, sel.Sel.Name+"()")}, nil
			}
		}
		return nil, c.errf(e, "unsupported call %s", src(c.fset, e))
	}
	return nil, c.errf(e, "unsupported expression %s", src(c.fset, e))
}

func joinPath(a, b string) string {
	if a == "" {
		return b
	}
	return a + "." + b
}

// mentionsElem reports whether the expression mentions A or B (or a local derived from them).
func (c *cmpCtx) mentionsElem(e ast.Expr) bool {
	found := false
	ast.Inspect(e, func(n ast.Node) bool {
		if ex, ok := n.(ast.Expr); ok {
			if c.isA(ex) || c.isB(ex) {
				found = true
			}
			if c.keyRef != nil {
				if _, ok := c.keyRef(ex); ok {
					found = true
				}
			}
			if id, ok := ex.(*ast.Ident); ok {
				if _, ok := c.locals[id.Name]; ok {
					found = true
				}
			}
		}
		return !found
	})
	return found
}

// pair parses `X op Y` into (A-side, B-side, op with A on the left).
func (c *cmpCtx) pair(e ast.Expr) (a, b *sideExpr, op token.Token, err error) {
	for {
		p, ok := e.(*ast.ParenExpr)
		if !ok {
			break
		}
		e = p.X
	}
	be, ok := e.(*ast.BinaryExpr)
	if !ok {
		return nil, nil, 0, c.errf(e, "expected a comparison, found %s", src(c.fset, e))
	}
	x, err := c.sideOf(be.X)
	if err != nil {
		return nil, nil, 0, err
	}
	y, err := c.sideOf(be.Y)
	if err != nil {
		return nil, nil, 0, err
	}
	op = be.Op
	if x.key || y.key {
		return nil, nil, 0, c.errf(e, "comparison of whole key structs is not a recognised shape")
	}
	if x.side == y.side {
		return nil, nil, 0, c.errf(e, "both operands of %s refer to the same element", src(c.fset, e))
	}
	if x.side == 1 { // B op A  ⇒  A op' B
		x, y = y, x
		switch op {
		case token.LSS:
			op = token.GTR
		case token.GTR:
			op = token.LSS
		case token.LEQ:
			op = token.GEQ
		case token.GEQ:
			op = token.LEQ
		}
	}
	if x.path != y.path || x.abs != y.abs {
		return nil, nil, 0, c.errf(e, "the two operands of %s are not the same projection of the two elements", src(c.fset, e))
	}
	return x, y, op, nil
}

func (c *cmpCtx) orderKey(e ast.Expr) (*keyDesc, *sideExpr, error) {
	a, _, op, err := c.pair(e)
	if err != nil {
		return nil, nil, err
	}
	k := &keyDesc{xf: "id", goText: src(c.fset, e)}
	if a.abs {
		k.xf = "abs"
	}
	switch op {
	case token.LSS:
		k.dir = "asc"
	case token.GTR:
		k.dir = "desc"
	default:
		return nil, nil, c.errf(e, "order expression must use < or >, found %s", src(c.fset, e))
	}
	p, err := c.projOf(a.path)
	if err != nil {
		return nil, nil, c.errf(e, "%v", err)
	}
	k.proj = p
	k.path = c.prefixed(a.path)
	return k, a, nil
}

// a variant is one list of keys; conditional sections multiply the variants.
type variant struct {
	suffix string
	keys   []keyDesc
	done   bool // a final return was seen
}

func cloneVariants(vs []variant) []variant {
	out := make([]variant, len(vs))
	for i, v := range vs {
		out[i] = variant{suffix: v.suffix, keys: append([]keyDesc(nil), v.keys...), done: v.done}
	}
	return out
}

// condNames names the two variants of a configuration condition independently of the receiver's
// name: `!t.flat` gives ("not_flat", "flat"), `t.flat` gives ("flat", "not_flat").
func condNames(fset *token.FileSet, e ast.Expr) (pos, neg string) {
	negated := false
	x := e
	for {
		if p, ok := x.(*ast.ParenExpr); ok {
			x = p.X
			continue
		}
		if u, ok := x.(*ast.UnaryExpr); ok && u.Op == token.NOT {
			negated = !negated
			x = u.X
			continue
		}
		break
	}
	name := leanIdent(src(fset, x))
	if sel, ok := x.(*ast.SelectorExpr); ok {
		name = sel.Sel.Name
	}
	if negated {
		return "not_" + name, name
	}
	return name, "not_" + name
}

func leanIdent(s string) string {
	var b strings.Builder
	for _, r := range s {
		switch {
		case r >= 'a' && r <= 'z', r >= 'A' && r <= 'Z', r >= '0' && r <= '9', r == '_':
			b.WriteRune(r)
		case r == '!':
			b.WriteString("not_")
		case r == '.', r == ' ':
			b.WriteRune('_')
		}
	}
	return b.String()
}

// block translates a statement list; every variant in vs is extended.
func (c *cmpCtx) block(stmts []ast.Stmt, vs []variant, top bool) ([]variant, error) {
	for _, st := range stmts {
		alive := false
		for _, v := range vs {
			if !v.done {
				alive = true
			}
		}
		if !alive {
			return nil, c.errf(st, "statement after the final return")
		}
		switch s := st.(type) {
		case *ast.AssignStmt:
			if s.Tok != token.DEFINE || len(s.Lhs) != len(s.Rhs) {
				return nil, c.errf(st, "unsupported assignment %s", src(c.fset, st))
			}
			for i := range s.Lhs {
				id, ok := s.Lhs[i].(*ast.Ident)
				if !ok {
					return nil, c.errf(st, "unsupported assignment target")
				}
				se, err := c.sideOf(s.Rhs[i])
				if err != nil {
					return nil, err
				}
				c.locals[id.Name] = se
			}
		case *ast.IfStmt:
			if s.Else != nil {
				return nil, c.errf(st, "if with else is not a recognised comparator shape")
			}
			var added []string
			if s.Init != nil {
				as, ok := s.Init.(*ast.AssignStmt)
				if !ok || as.Tok != token.DEFINE || len(as.Lhs) != len(as.Rhs) {
					return nil, c.errf(st, "unsupported if-initialiser %s", src(c.fset, s.Init))
				}
				for i := range as.Lhs {
					id, ok := as.Lhs[i].(*ast.Ident)
					if !ok {
						return nil, c.errf(st, "unsupported if-initialiser")
					}
					se, err := c.sideOf(as.Rhs[i])
					if err != nil {
						return nil, err
					}
					c.locals[id.Name] = se
					added = append(added, id.Name)
				}
			}
			if !c.mentionsElem(s.Cond) {
				// configuration switch: the body's keys are present in one variant, absent in the other
				if s.Init != nil {
					return nil, c.errf(st, "configuration condition with initialiser")
				}
				pos, neg := condNames(c.fset, s.Cond)
				with := cloneVariants(vs)
				for i := range with {
					with[i].suffix += "__" + pos
				}
				with, err := c.block(s.Body.List, with, false)
				if err != nil {
					return nil, err
				}
				without := cloneVariants(vs)
				for i := range without {
					without[i].suffix += "__" + neg
				}
				vs = append(with, without...)
				break
			}
			// guarded key
			ga, _, op, err := c.pair(s.Cond)
			if err != nil {
				return nil, err
			}
			if op != token.NEQ {
				return nil, c.errf(st, "guard must be a != comparison, found %s", src(c.fset, s.Cond))
			}
			if len(s.Body.List) != 1 {
				return nil, c.errf(st, "guarded block must contain exactly one return")
			}
			ret, ok := s.Body.List[0].(*ast.ReturnStmt)
			if !ok || len(ret.Results) != 1 {
				return nil, c.errf(st, "guarded block must contain exactly one return")
			}
			if ks, isCall, err := c.structGuard(st, ga, ret.Results[0]); isCall {
				if err != nil {
					return nil, err
				}
				for i := range vs {
					if !vs[i].done {
						vs[i].keys = append(vs[i].keys, ks...)
					}
				}
				for _, n := range added {
					delete(c.locals, n)
				}
				break
			}
			k, oa, err := c.orderKey(ret.Results[0])
			if err != nil {
				return nil, err
			}
			if ga.path != oa.path {
				return nil, c.errf(st, "guard tests %q but the order compares %q", ga.path, oa.path)
			}
			switch {
			case ga.via != "" && ga.via == oa.via:
				k.guard = "same"
			case ga.abs:
				k.guard = "abs"
			default:
				k.guard = "raw"
			}
			k.goText = "if " + src(c.fset, s.Cond) + " { return " + src(c.fset, ret.Results[0]) + " }"
			if s.Init != nil {
				k.goText = "if " + src(c.fset, s.Init) + "; " + k.goText[3:]
			}
			for i := range vs {
				if !vs[i].done {
					vs[i].keys = append(vs[i].keys, *k)
				}
			}
			for _, n := range added {
				delete(c.locals, n)
			}
		case *ast.ReturnStmt:
			if !top {
				return nil, c.errf(st, "unguarded return inside a configuration block")
			}
			if len(s.Results) != 1 {
				return nil, c.errf(st, "return must have one result")
			}
			ks, err := c.finalReturn(s.Results[0])
			if err != nil {
				return nil, err
			}
			for i := range vs {
				if !vs[i].done {
					vs[i].keys = append(vs[i].keys, ks...)
					vs[i].done = true
				}
			}
		default:
			return nil, c.errf(st, "statement is not a recognised comparator shape: %s", firstLine(src(c.fset, st)))
		}
	}
	return vs, nil
}

func firstLine(s string) string {
	if i := strings.IndexByte(s, '\n'); i >= 0 {
		return s[:i] + " …"
	}
	return s
}

// inlineCall inlines `other(X, Y)` where X and Y are the two elements themselves or the same
// sub-element of each (el[i].Src, el[j].Src).  It returns the keys of `other` (paths prefixed) and the
// path of the sub-element ("" for the elements themselves).  ok=false: e is not such a call.
func (c *cmpCtx) inlineCall(e ast.Expr) (keys []keyDesc, sub string, ok bool, err error) {
	call, isCall := e.(*ast.CallExpr)
	if !isCall {
		return nil, "", false, nil
	}
	id, isId := call.Fun.(*ast.Ident)
	if !isId || id.Name == "abs64" {
		return nil, "", false, nil
	}
	fd, known := c.funcs[id.Name]
	if !known || len(call.Args) != 2 {
		return nil, "", true, c.errf(e, "call to unknown comparator %s", id.Name)
	}
	if c.depth > 3 {
		return nil, "", true, c.errf(e, "comparator inlining too deep")
	}
	a0, err := c.sideOf(call.Args[0])
	if err != nil {
		return nil, "", true, err
	}
	a1, err := c.sideOf(call.Args[1])
	if err != nil {
		return nil, "", true, err
	}
	if a0.path != a1.path || a0.abs || a1.abs || a0.key || a1.key || a0.side == a1.side {
		return nil, "", true, c.errf(e, "comparator call must pass the two elements, or the same sub-element of each")
	}
	names := paramNames(fd.Type)
	if len(names) != 2 || fd.Body == nil {
		return nil, "", true, c.errf(e, "comparator %s must take two parameters", id.Name)
	}
	an, bn := names[0], names[1]
	if a0.side == 1 { // other(B, A): parameters swap roles
		an, bn = bn, an
	}
	pre := c.prefixed(a0.path)
	outer := c.projOf
	subc := &cmpCtx{fset: c.fset, file: c.file, locals: map[string]*sideExpr{}, funcs: c.funcs, depth: c.depth + 1, prefix: pre, structs: c.structs,
		projOf: func(p string) (string, error) { return outer(prefixPath(a0.path, p)) },
		isA:    func(x ast.Expr) bool { i, ok := x.(*ast.Ident); return ok && i.Name == an },
		isB:    func(x ast.Expr) bool { i, ok := x.(*ast.Ident); return ok && i.Name == bn }}
	vs, err := subc.block(fd.Body.List, []variant{{}}, true)
	if err != nil {
		return nil, "", true, err
	}
	if len(vs) != 1 || !vs[0].done {
		return nil, "", true, c.errf(e, "inlined comparator %s has configuration variants or no final return", id.Name)
	}
	return vs[0].keys, a0.path, true, nil
}

func (c *cmpCtx) finalReturn(e ast.Expr) ([]keyDesc, error) {
	if id, ok := e.(*ast.Ident); ok && id.Name == "false" {
		return nil, nil
	}
	if keys, _, ok, err := c.inlineCall(e); ok {
		return keys, err
	}
	k, _, err := c.orderKey(e)
	if err != nil {
		return nil, err
	}
	k.guard = "same"
	k.goText = "return " + k.goText
	return []keyDesc{*k}, nil
}

// structGuard handles `if X.G != Y.G { return other(X.P, Y.P) }` where G is a whole struct (NodeInfo).
// It is the inlined key chain of `other` exactly when (a) every key of `other` is a function of G and
// (b) the keys decide G: every field of the struct is compared untransformed — then "G differs" and
// "some key differs" are the same condition.
func (c *cmpCtx) structGuard(st ast.Stmt, ga *sideExpr, ret ast.Expr) ([]keyDesc, bool, error) {
	keys, sub, ok, err := c.inlineCall(ret)
	if !ok || err != nil {
		return nil, ok, err
	}
	if ga.abs || ga.key {
		return nil, true, c.errf(st, "unsupported guard before a comparator call")
	}
	g := c.prefixed(ga.path)
	if !strings.HasPrefix(ga.path, sub) {
		return nil, true, c.errf(st, "guard %q does not belong to the sub-element %q handed to the comparator", ga.path, sub)
	}
	field := ga.path[strings.LastIndexByte(ga.path, '.')+1:]
	fields, known := c.structs[map[string]string{"Info": "NodeInfo"}[field]]
	if !known {
		return nil, true, c.errf(st, "guard on %q: not a struct the translator knows the fields of", ga.path)
	}
	have := map[string]bool{}
	for _, k := range keys {
		if k.path != "Sprint("+g+")" && !strings.HasPrefix(k.path, g+".") {
			return nil, true, c.errf(st, "key %q of the inlined comparator is not a function of the guarded %q", k.path, g)
		}
		if k.xf == "id" {
			have[k.path] = true
		}
	}
	for _, f := range fields {
		if !have[g+"."+f] {
			return nil, true, c.errf(st, "guard on the whole %q, but the inlined comparator does not compare its field %s: a difference there would not be decided", g, f)
		}
	}
	return keys, true, nil
}

// ---- projection tables: Go path below the element  →  Lean constructor (Model/GraphOrder.lean) ----

var tagProj = map[string]string{"Name": ".Name", "Unit": ".Unit", "Value": ".Value", "Flat": ".Flat", "FlatDiv": ".FlatDiv", "Cum": ".Cum", "CumDiv": ".CumDiv"}
var nodeProj = map[string]string{"Flat": ".Flat", "FlatDiv": ".FlatDiv", "Cum": ".Cum", "CumDiv": ".CumDiv", "score[]": ".Score",
	"Info.Name": ".Info_Name", "Info.OrigName": ".Info_OrigName", "Info.Address": ".Info_Address", "Info.File": ".Info_File",
	"Info.StartLine": ".Info_StartLine", "Info.Lineno": ".Info_Lineno", "Info.Columnno": ".Info_Columnno", "Info.Objfile": ".Info_Objfile",
	"Info.PrintableName()": ".Info_PrintableName", "Sprint(Info)": ".Sprint_Info"}

func projTable(kind string) func(string) (string, error) {
	return func(p string) (string, error) {
		switch kind {
		case "tag":
			if v, ok := tagProj[p]; ok {
				return v, nil
			}
		case "node":
			if v, ok := nodeProj[p]; ok {
				return v, nil
			}
		case "edge":
			switch {
			case p == "Weight":
				return ".Weight", nil
			case p == "WeightDiv":
				return ".WeightDiv", nil
			case strings.HasPrefix(p, "Src."):
				if v, ok := nodeProj[p[4:]]; ok {
					return "(.Src " + v + ")", nil
				}
			case strings.HasPrefix(p, "Dest."):
				if v, ok := nodeProj[p[5:]]; ok {
					return "(.Dest " + v + ")", nil
				}
			case p == "Sprint(Src.Info)":
				return "(.Src .Sprint_Info)", nil
			case p == "Sprint(Dest.Info)":
				return "(.Dest .Sprint_Info)", nil
			}
		}
		return "", fmt.Errorf("projection %q of a %s is not in the translator's table (add it to tools/extract/comparators.go and Model/GraphOrder.lean)", p, kind)
	}
}

// ---- locating the comparators ----

type comparator struct {
	name   string // Lean identifier
	kind   string // tag | node | edge
	keys   []keyDesc
	goName string
	pos    string
	score  string // for score-based node orders: Lean term of the score source
}

func recvTypeName(fd *ast.FuncDecl) string {
	if fd.Recv == nil || len(fd.Recv.List) != 1 {
		return ""
	}
	t := fd.Recv.List[0].Type
	if s, ok := t.(*ast.StarExpr); ok {
		t = s.X
	}
	if id, ok := t.(*ast.Ident); ok {
		return id.Name
	}
	return ""
}

func recvName(fd *ast.FuncDecl) string {
	if fd.Recv == nil || len(fd.Recv.List) != 1 || len(fd.Recv.List[0].Names) != 1 {
		return ""
	}
	return fd.Recv.List[0].Names[0].Name
}

func paramNames(ft *ast.FuncType) []string {
	var names []string
	for _, f := range ft.Params.List {
		for _, n := range f.Names {
			names = append(names, n.Name)
		}
	}
	return names
}

// sorterInfo describes the sort.Interface implementation a sorting function hands to sort.Sort.
//
//	slice style     type edgeList []*Edge                  elements are recv[i]
//	struct style    type tags struct{ t []*Tag; … }        elements are recv.t[i]
//	key style       type edgeSorter struct{ edges []*Edge; keys []edgeSortKey }
//	                elements are recv.edges[i]; recv.keys[i].f stands for the expression f was
//	                computed from where the sorter is built — accepted only if the extractor can show
//	                that keys[k] is always the key of edges[k] (built in lockstep, swapped in lockstep,
//	                touched nowhere else)
type sorterInfo struct {
	typeName  string
	less      *ast.FuncDecl
	elemField string
	keyField  string
	keyType   string
	keyDefs   map[string]*sideExpr
}

// structFields lists the fields of the struct types declared in the file.
func structFields(file *ast.File) map[string][]string {
	out := map[string][]string{}
	for _, d := range file.Decls {
		gd, ok := d.(*ast.GenDecl)
		if !ok || gd.Tok != token.TYPE {
			continue
		}
		for _, sp := range gd.Specs {
			ts := sp.(*ast.TypeSpec)
			if st, ok := ts.Type.(*ast.StructType); ok {
				for _, f := range st.Fields.List {
					for _, n := range f.Names {
						out[ts.Name.Name] = append(out[ts.Name.Name], n.Name)
					}
				}
			}
		}
	}
	return out
}

type fileIndex struct {
	fset    *token.FileSet
	file    *ast.File
	funcs   map[string]*ast.FuncDecl            // package-level functions
	methods map[string]map[string]*ast.FuncDecl // receiver type -> method name -> decl
	types   map[string]*ast.TypeSpec
}

func indexFile(fset *token.FileSet, file *ast.File) *fileIndex {
	ix := &fileIndex{fset: fset, file: file, funcs: map[string]*ast.FuncDecl{}, methods: map[string]map[string]*ast.FuncDecl{}, types: map[string]*ast.TypeSpec{}}
	for _, d := range file.Decls {
		switch x := d.(type) {
		case *ast.FuncDecl:
			if x.Body == nil {
				continue
			}
			if x.Recv == nil {
				ix.funcs[x.Name.Name] = x
				continue
			}
			r := recvTypeName(x)
			if ix.methods[r] == nil {
				ix.methods[r] = map[string]*ast.FuncDecl{}
			}
			ix.methods[r][x.Name.Name] = x
		case *ast.GenDecl:
			if x.Tok == token.TYPE {
				for _, sp := range x.Specs {
					ts := sp.(*ast.TypeSpec)
					ix.types[ts.Name.Name] = ts
				}
			}
		}
	}
	return ix
}

func isSortCall(fset *token.FileSet, call *ast.CallExpr) bool {
	f := src(fset, call.Fun)
	return f == "sort.Sort" || f == "sort.Stable"
}

// findSorter locates, in the sorting function fn, the value handed to sort.Sort and analyses its type.
func findSorter(ix *fileIndex, fn *ast.FuncDecl) (*sorterInfo, error) {
	fset := ix.fset
	at := func(n ast.Node) string { return fset.Position(n.Pos()).String() }
	var sortArg *ast.Ident
	nsort := 0
	ast.Inspect(fn.Body, func(n ast.Node) bool {
		if call, ok := n.(*ast.CallExpr); ok && isSortCall(fset, call) && len(call.Args) == 1 {
			nsort++
			sortArg, _ = call.Args[0].(*ast.Ident)
		}
		return true
	})
	if nsort != 1 || sortArg == nil {
		return nil, fmt.Errorf("%s: %s must call sort.Sort exactly once, on a local variable", at(fn), fn.Name.Name)
	}
	x := sortArg.Name
	// the definition of x
	var def ast.Expr
	ndef := 0
	ast.Inspect(fn.Body, func(n ast.Node) bool {
		if as, ok := n.(*ast.AssignStmt); ok && len(as.Lhs) == 1 && len(as.Rhs) == 1 && as.Tok == token.DEFINE {
			if id, ok := as.Lhs[0].(*ast.Ident); ok && id.Name == x {
				ndef++
				def = as.Rhs[0]
			}
		}
		return true
	})
	if ndef != 1 {
		return nil, fmt.Errorf("%s: the value sorted in %s must be defined by exactly one := statement", at(fn), fn.Name.Name)
	}
	si := &sorterInfo{}
	var lit *ast.CompositeLit
	switch d := def.(type) {
	case *ast.CallExpr: // make(T, …) or T(x)
		if id, ok := d.Fun.(*ast.Ident); ok && id.Name == "make" && len(d.Args) >= 1 {
			if t, ok := d.Args[0].(*ast.Ident); ok {
				si.typeName = t.Name
			}
		} else if id, ok := d.Fun.(*ast.Ident); ok && len(d.Args) == 1 {
			si.typeName = id.Name // conversion
		}
	case *ast.CompositeLit:
		if t, ok := d.Type.(*ast.Ident); ok {
			si.typeName = t.Name
			lit = d
		}
	}
	ts := ix.types[si.typeName]
	if si.typeName == "" || ts == nil {
		return nil, fmt.Errorf("%s: cannot determine the type of the value sorted in %s", at(fn), fn.Name.Name)
	}
	si.less = ix.methods[si.typeName]["Less"]
	if si.less == nil {
		return nil, fmt.Errorf("%s: type %s has no Less method", at(ts), si.typeName)
	}
	switch t := ts.Type.(type) {
	case *ast.ArrayType:
		if t.Len != nil {
			return nil, fmt.Errorf("%s: sorter type %s is an array", at(ts), si.typeName)
		}
		return si, nil
	case *ast.StructType:
		var slices []*ast.Field
		for _, f := range t.Fields.List {
			if a, ok := f.Type.(*ast.ArrayType); ok && a.Len == nil {
				if len(f.Names) != 1 {
					return nil, fmt.Errorf("%s: unsupported field list in sorter type %s", at(ts), si.typeName)
				}
				slices = append(slices, f)
			}
		}
		isKeyStruct := func(f *ast.Field) (string, bool) {
			id, ok := f.Type.(*ast.ArrayType).Elt.(*ast.Ident)
			if !ok {
				return "", false
			}
			kt, ok := ix.types[id.Name]
			if !ok {
				return "", false
			}
			_, ok = kt.Type.(*ast.StructType)
			return id.Name, ok
		}
		switch len(slices) {
		case 1:
			si.elemField = slices[0].Names[0].Name
			return si, nil
		case 2:
			for k, f := range slices {
				if kt, ok := isKeyStruct(f); ok {
					if _, both := isKeyStruct(slices[1-k]); both {
						break
					}
					si.keyField, si.keyType = f.Names[0].Name, kt
					si.elemField = slices[1-k].Names[0].Name
				}
			}
		}
		if si.keyField == "" {
			return nil, fmt.Errorf("%s: sorter type %s: cannot tell the element slice from a key slice", at(ts), si.typeName)
		}
	default:
		return nil, fmt.Errorf("%s: unsupported sorter type %s", at(ts), si.typeName)
	}

	// ---- key style: show that keys[k] is always the key of elems[k] ----
	if lit == nil {
		return nil, fmt.Errorf("%s: a sorter with precomputed keys must be built by a composite literal", at(fn))
	}
	// (1) built empty
	for _, el := range lit.Elts {
		kv, ok := el.(*ast.KeyValueExpr)
		if !ok {
			return nil, fmt.Errorf("%s: the %s literal must use field names", at(lit), si.typeName)
		}
		name := src(fset, kv.Key)
		if name != si.elemField && name != si.keyField {
			continue
		}
		empty := false
		switch v := kv.Value.(type) {
		case *ast.Ident:
			empty = v.Name == "nil"
		case *ast.CallExpr:
			if id, ok := v.Fun.(*ast.Ident); ok && id.Name == "make" && len(v.Args) >= 2 {
				if bl, ok := v.Args[1].(*ast.BasicLit); ok && bl.Value == "0" {
					empty = true
				}
			}
		}
		if !empty {
			return nil, fmt.Errorf("%s: field %s of the %s literal must start empty", at(kv), name, si.typeName)
		}
	}
	// (2) no other literal of the type, no other method
	nlit := 0
	ast.Inspect(ix.file, func(n ast.Node) bool {
		if cl, ok := n.(*ast.CompositeLit); ok {
			if id, ok := cl.Type.(*ast.Ident); ok && id.Name == si.typeName {
				nlit++
			}
		}
		return true
	})
	if nlit != 1 {
		return nil, fmt.Errorf("%s: %s values are built in %d places; exactly one construction site can be traced", at(ts), si.typeName, nlit)
	}
	for name := range ix.methods[si.typeName] {
		if name != "Len" && name != "Less" && name != "Swap" {
			return nil, fmt.Errorf("%s: sorter type %s has a method %s besides Len/Less/Swap", at(ts), si.typeName, name)
		}
	}
	// (3) Swap exchanges both slices at the same indices
	swap := ix.methods[si.typeName]["Swap"]
	if swap == nil {
		return nil, fmt.Errorf("%s: type %s has no Swap method", at(ts), si.typeName)
	}
	sp := paramNames(swap.Type)
	rn := recvName(swap)
	if len(sp) != 2 || rn == "" || len(swap.Body.List) != 2 {
		return nil, fmt.Errorf("%s: Swap of %s must consist of the two lockstep exchanges", at(swap), si.typeName)
	}
	want := map[string]bool{}
	for _, f := range []string{si.elemField, si.keyField} {
		a := fmt.Sprintf("%s.%s[%s]", rn, f, sp[0])
		b := fmt.Sprintf("%s.%s[%s]", rn, f, sp[1])
		want[a+", "+b+" = "+b+", "+a] = true
	}
	for _, st := range swap.Body.List {
		txt := strings.Join(strings.Fields(src(fset, st)), " ")
		if !want[txt] {
			return nil, fmt.Errorf("%s: Swap of %s: unexpected statement %q", at(st), si.typeName, txt)
		}
		delete(want, txt)
	}
	if len(want) != 0 {
		return nil, fmt.Errorf("%s: Swap of %s does not exchange both slices", at(swap), si.typeName)
	}
	// (4) in the constructing function: x is only appended to in lockstep, sorted, and its element
	// slice read
	var appends []*ast.AssignStmt
	var bad error
	ast.Inspect(fn.Body, func(n ast.Node) bool {
		switch s := n.(type) {
		case *ast.AssignStmt:
			for _, l := range s.Lhs {
				if id := baseIdent(l); id != nil && id.Name == x {
					if _, plain := l.(*ast.Ident); plain {
						if s.Tok != token.DEFINE {
							bad = fmt.Errorf("%s: the sorter is reassigned", at(s))
						}
						continue // the definition itself
					}
					appends = append(appends, s)
				}
			}
		case *ast.IncDecStmt:
			if id := baseIdent(s.X); id != nil && id.Name == x {
				bad = fmt.Errorf("%s: unexpected modification of the sorter", at(s))
			}
		case *ast.CallExpr:
			for _, a := range s.Args {
				if id, ok := a.(*ast.Ident); ok && id.Name == x && !isSortCall(fset, s) {
					bad = fmt.Errorf("%s: the sorter is passed to %s", at(s), src(fset, s.Fun))
				}
				if u, ok := a.(*ast.UnaryExpr); ok && u.Op == token.AND {
					if id := baseIdent(u.X); id != nil && id.Name == x {
						bad = fmt.Errorf("%s: the address of (part of) the sorter is taken", at(s))
					}
				}
			}
		}
		return true
	})
	if bad != nil {
		return nil, bad
	}
	if len(appends) != 2 {
		return nil, fmt.Errorf("%s: the sorter's slices must be extended by exactly two append statements (found %d assignments)", at(fn), len(appends))
	}
	// both in one statement list, consecutive
	var block []ast.Stmt
	ast.Inspect(fn.Body, func(n ast.Node) bool {
		if b, ok := n.(*ast.BlockStmt); ok {
			for k := 0; k+1 < len(b.List); k++ {
				if (b.List[k] == ast.Stmt(appends[0]) && b.List[k+1] == ast.Stmt(appends[1])) || (b.List[k] == ast.Stmt(appends[1]) && b.List[k+1] == ast.Stmt(appends[0])) {
					block = b.List
				}
			}
		}
		return true
	})
	if block == nil {
		return nil, fmt.Errorf("%s: the two appends to the sorter must be consecutive statements of one block", at(appends[0]))
	}
	var elemVar string
	var keyLit *ast.CompositeLit
	for _, as := range appends {
		if len(as.Lhs) != 1 || len(as.Rhs) != 1 || as.Tok != token.ASSIGN {
			return nil, fmt.Errorf("%s: unsupported assignment to the sorter", at(as))
		}
		call, ok := as.Rhs[0].(*ast.CallExpr)
		if !ok || src(fset, call.Fun) != "append" || len(call.Args) != 2 || call.Ellipsis.IsValid() || src(fset, call.Args[0]) != src(fset, as.Lhs[0]) {
			return nil, fmt.Errorf("%s: assignment to the sorter is not `f = append(f, one element)`", at(as))
		}
		switch src(fset, as.Lhs[0]) {
		case x + "." + si.elemField:
			id, ok := call.Args[1].(*ast.Ident)
			if !ok {
				return nil, fmt.Errorf("%s: the appended element must be a variable", at(as))
			}
			elemVar = id.Name
		case x + "." + si.keyField:
			cl, ok := call.Args[1].(*ast.CompositeLit)
			if !ok || src(fset, cl.Type) != si.keyType {
				return nil, fmt.Errorf("%s: the appended key must be a %s literal", at(as), si.keyType)
			}
			keyLit = cl
		default:
			return nil, fmt.Errorf("%s: unexpected assignment to the sorter", at(as))
		}
	}
	if elemVar == "" || keyLit == nil {
		return nil, fmt.Errorf("%s: the element and its key must be appended together", at(appends[0]))
	}
	// each key field is an expression of the appended element
	kc := &cmpCtx{fset: fset, file: ix.file, locals: map[string]*sideExpr{}, funcs: ix.funcs, projOf: func(p string) (string, error) { return p, nil },
		isA: func(e ast.Expr) bool { id, ok := e.(*ast.Ident); return ok && id.Name == elemVar },
		isB: func(ast.Expr) bool { return false }}
	si.keyDefs = map[string]*sideExpr{}
	for _, el := range keyLit.Elts {
		kv, ok := el.(*ast.KeyValueExpr)
		if !ok {
			return nil, fmt.Errorf("%s: the %s literal must use field names", at(keyLit), si.keyType)
		}
		se, err := kc.sideOf(kv.Value)
		if err != nil {
			// a field whose definition cannot be traced is simply not defined: reading it in Less fails
			continue
		}
		si.keyDefs[src(fset, kv.Key)] = &sideExpr{path: se.path, abs: se.abs}
	}
	return si, nil
}

// lessMethod translates the Less method of the sorter used by the sorting function fn.
func lessMethod(ix *fileIndex, fn *ast.FuncDecl, kind string) ([]variant, *sorterInfo, error) {
	fset := ix.fset
	si, err := findSorter(ix, fn)
	if err != nil {
		return nil, nil, err
	}
	fd := si.less
	ps := paramNames(fd.Type)
	if len(ps) != 2 {
		return nil, nil, fmt.Errorf("%s: Less must take two parameters", fset.Position(fd.Pos()))
	}
	rn := recvName(fd)
	// recv[p] (slice style) or recv.field[p]
	indexOf := func(x ast.Expr, field, p string) bool {
		ix, ok := x.(*ast.IndexExpr)
		if !ok {
			return false
		}
		id, ok := ix.Index.(*ast.Ident)
		if !ok || id.Name != p {
			return false
		}
		if field == "" {
			b, ok := ix.X.(*ast.Ident)
			return ok && b.Name == rn
		}
		sel, ok := ix.X.(*ast.SelectorExpr)
		if !ok || sel.Sel.Name != field {
			return false
		}
		b, ok := sel.X.(*ast.Ident)
		return ok && b.Name == rn
	}
	c := &cmpCtx{fset: fset, file: ix.file, locals: map[string]*sideExpr{}, funcs: ix.funcs, projOf: projTable(kind), structs: structFields(ix.file),
		isA: func(x ast.Expr) bool { return indexOf(x, si.elemField, ps[0]) },
		isB: func(x ast.Expr) bool { return indexOf(x, si.elemField, ps[1]) }}
	if si.keyField != "" {
		c.keyDefs, c.keyType = si.keyDefs, si.keyType
		c.keyRef = func(x ast.Expr) (int, bool) {
			if indexOf(x, si.keyField, ps[0]) {
				return 0, true
			}
			if indexOf(x, si.keyField, ps[1]) {
				return 1, true
			}
			return 0, false
		}
	}
	vs, err := c.block(fd.Body.List, []variant{{}}, true)
	if err != nil {
		return nil, nil, err
	}
	for _, v := range vs {
		if !v.done {
			return nil, nil, fmt.Errorf("%s: comparator has no final return", fset.Position(fd.Pos()))
		}
	}
	return vs, si, nil
}

func funcLitComparator(fset *token.FileSet, file *ast.File, funcs map[string]*ast.FuncDecl, fl *ast.FuncLit, kind string) ([]keyDesc, error) {
	ps := paramNames(fl.Type)
	if len(ps) != 2 {
		return nil, fmt.Errorf("%s: comparator closure must take two parameters", fset.Position(fl.Pos()))
	}
	c := &cmpCtx{fset: fset, file: file, locals: map[string]*sideExpr{}, funcs: funcs, projOf: projTable(kind), structs: structFields(file),
		isA: func(x ast.Expr) bool { i, ok := x.(*ast.Ident); return ok && i.Name == ps[0] },
		isB: func(x ast.Expr) bool { i, ok := x.(*ast.Ident); return ok && i.Name == ps[1] }}
	vs, err := c.block(fl.Body.List, []variant{{}}, true)
	if err != nil {
		return nil, err
	}
	if len(vs) != 1 || !vs[0].done {
		return nil, fmt.Errorf("%s: comparator closure has configuration variants or no final return", fset.Position(fl.Pos()))
	}
	return vs[0].keys, nil
}

// nodesSort walks Nodes.Sort: `switch o { case X: s = nodeSorter{ns, func…} … }`.
func nodesSort(fset *token.FileSet, file *ast.File, funcs map[string]*ast.FuncDecl, fd *ast.FuncDecl) ([]comparator, error) {
	ps := paramNames(fd.Type)
	if len(ps) != 1 {
		return nil, fmt.Errorf("%s: Nodes.Sort must take the order as its only parameter", fset.Position(fd.Pos()))
	}
	orderParam := ps[0]
	var out []comparator
	var sortCalls int

	var walk func(stmts []ast.Stmt, names []string, lits map[string]*ast.FuncLit, score string) error
	walk = func(stmts []ast.Stmt, names []string, lits map[string]*ast.FuncLit, score string) error {
		for _, st := range stmts {
			switch s := st.(type) {
			case *ast.DeclStmt:
				// var s nodeSorter / var score map[*Node]int64
			case *ast.AssignStmt:
				if len(s.Lhs) != 1 || len(s.Rhs) != 1 {
					return fmt.Errorf("%s: unsupported assignment in Nodes.Sort", fset.Position(st.Pos()))
				}
				lhs, _ := s.Lhs[0].(*ast.Ident)
				switch r := s.Rhs[0].(type) {
				case *ast.FuncLit:
					if lhs == nil {
						return fmt.Errorf("%s: unsupported assignment in Nodes.Sort", fset.Position(st.Pos()))
					}
					lits[lhs.Name] = r
				case *ast.CompositeLit:
					// s = nodeSorter{ns, <less>}
					if len(r.Elts) != 2 {
						return fmt.Errorf("%s: nodeSorter literal must have two elements", fset.Position(st.Pos()))
					}
					var fl *ast.FuncLit
					switch l := r.Elts[1].(type) {
					case *ast.FuncLit:
						fl = l
					case *ast.Ident:
						fl = lits[l.Name]
					case *ast.KeyValueExpr:
						switch v := l.Value.(type) {
						case *ast.FuncLit:
							fl = v
						case *ast.Ident:
							fl = lits[v.Name]
						}
					}
					if fl == nil {
						return fmt.Errorf("%s: cannot find the less function of the nodeSorter literal", fset.Position(st.Pos()))
					}
					if len(names) == 0 {
						return fmt.Errorf("%s: nodeSorter assigned outside a case of the order switch", fset.Position(st.Pos()))
					}
					keys, err := funcLitComparator(fset, file, funcs, fl, "node")
					if err != nil {
						return err
					}
					usesScore := false
					for _, k := range keys {
						if k.proj == ".Score" {
							usesScore = true
						}
					}
					if usesScore && score == "" {
						return fmt.Errorf("%s: comparator reads score[] but no `score[n] = …` loop was found in this case", fset.Position(st.Pos()))
					}
					for _, n := range names {
						cmp := comparator{name: "nodes_" + n, kind: "node", keys: keys, goName: "Nodes.Sort case " + n, pos: fset.Position(fl.Pos()).String()}
						if usesScore {
							cmp.score = score
						}
						out = append(out, cmp)
					}
				case *ast.CallExpr:
					// score = make(map[*Node]int64, len(ns))
					if id, ok := r.Fun.(*ast.Ident); !ok || id.Name != "make" {
						return fmt.Errorf("%s: unsupported assignment in Nodes.Sort: %s", fset.Position(st.Pos()), src(fset, st))
					}
				default:
					return fmt.Errorf("%s: unsupported assignment in Nodes.Sort: %s", fset.Position(st.Pos()), src(fset, st))
				}
			case *ast.RangeStmt:
				// for _, n := range ns { score[n] = <expr of n> }
				if len(s.Body.List) != 1 {
					return fmt.Errorf("%s: unsupported score loop", fset.Position(st.Pos()))
				}
				as, ok := s.Body.List[0].(*ast.AssignStmt)
				v, _ := s.Value.(*ast.Ident)
				if !ok || v == nil || len(as.Lhs) != 1 || len(as.Rhs) != 1 || as.Tok != token.ASSIGN {
					return fmt.Errorf("%s: unsupported score loop", fset.Position(st.Pos()))
				}
				ix, ok := as.Lhs[0].(*ast.IndexExpr)
				if !ok || src(fset, ix.Index) != v.Name {
					return fmt.Errorf("%s: unsupported score loop", fset.Position(st.Pos()))
				}
				switch r := as.Rhs[0].(type) {
				case *ast.SelectorExpr:
					if src(fset, r.X) != v.Name {
						return fmt.Errorf("%s: unsupported score source %s", fset.Position(st.Pos()), src(fset, r))
					}
					p, ok := nodeProj[r.Sel.Name]
					if !ok || strings.HasPrefix(p, ".Info") || p == ".Score" {
						return fmt.Errorf("%s: unsupported score source %s", fset.Position(st.Pos()), src(fset, r))
					}
					score = "(.field " + p + ")"
				case *ast.CallExpr:
					if len(r.Args) != 1 || src(fset, r.Args[0]) != v.Name {
						return fmt.Errorf("%s: unsupported score source %s", fset.Position(st.Pos()), src(fset, r))
					}
					score = "(.external " + leanStr(src(fset, r.Fun)) + ")"
				default:
					return fmt.Errorf("%s: unsupported score source %s", fset.Position(st.Pos()), src(fset, as.Rhs[0]))
				}
			case *ast.SwitchStmt:
				if s.Init != nil || s.Tag == nil || src(fset, s.Tag) != orderParam {
					return fmt.Errorf("%s: unsupported switch in Nodes.Sort", fset.Position(st.Pos()))
				}
				for _, cl := range s.Body.List {
					cc := cl.(*ast.CaseClause)
					if cc.List == nil {
						// default: must not install a sorter
						for _, b := range cc.Body {
							if _, ok := b.(*ast.ReturnStmt); !ok {
								return fmt.Errorf("%s: default case of the order switch must only return", fset.Position(b.Pos()))
							}
						}
						continue
					}
					var ns []string
					for _, e := range cc.List {
						id, ok := e.(*ast.Ident)
						if !ok {
							return fmt.Errorf("%s: case label is not a NodeOrder constant", fset.Position(e.Pos()))
						}
						ns = append(ns, id.Name)
					}
					cp := map[string]*ast.FuncLit{}
					for k, v := range lits {
						cp[k] = v
					}
					// a nested switch refines the label set; the outer labels only scope the shared closures
					if err := walk(cc.Body, ns, cp, score); err != nil {
						return err
					}
				}
			case *ast.ExprStmt:
				if call, ok := s.X.(*ast.CallExpr); ok && src(fset, call.Fun) == "sort.Sort" {
					sortCalls++
					continue
				}
				return fmt.Errorf("%s: unsupported statement in Nodes.Sort: %s", fset.Position(st.Pos()), firstLine(src(fset, st)))
			case *ast.ReturnStmt:
			default:
				return fmt.Errorf("%s: unsupported statement in Nodes.Sort: %s", fset.Position(st.Pos()), firstLine(src(fset, st)))
			}
		}
		return nil
	}
	if err := walk(fd.Body.List, nil, map[string]*ast.FuncLit{}, ""); err != nil {
		return nil, err
	}
	if sortCalls != 1 {
		return nil, fmt.Errorf("%s: Nodes.Sort must call sort.Sort exactly once", fset.Position(fd.Pos()))
	}
	// a label handled by an outer clause AND refined by a nested switch is emitted by the nested one
	// only (the outer clause has no nodeSorter assignment of its own); duplicates are an error.
	seen := map[string]bool{}
	for _, c := range out {
		if seen[c.name] {
			return nil, fmt.Errorf("Nodes.Sort installs two comparators for %s", c.name)
		}
		seen[c.name] = true
	}
	return out, nil
}

// nodeOrderConsts lists the constants of type NodeOrder in declaration order.
func nodeOrderConsts(file *ast.File) []string {
	var out []string
	for _, d := range file.Decls {
		gd, ok := d.(*ast.GenDecl)
		if !ok || gd.Tok != token.CONST {
			continue
		}
		is := false
		for _, sp := range gd.Specs {
			vs := sp.(*ast.ValueSpec)
			if id, ok := vs.Type.(*ast.Ident); ok && id.Name == "NodeOrder" {
				is = true
			}
		}
		if !is {
			continue
		}
		for _, sp := range gd.Specs {
			for _, n := range sp.(*ast.ValueSpec).Names {
				out = append(out, n.Name)
			}
		}
	}
	return out
}

func genComparators(e *Env) (string, error) {
	const rel = "internal/graph/graph.go"
	fset, file, err := parseFile(e, rel)
	if err != nil {
		return "", err
	}
	ix := indexFile(fset, file)
	funcs := ix.funcs
	sortTags := ix.funcs["SortTags"]
	edgeSort := ix.methods["EdgeMap"]["Sort"]
	nsort := ix.methods["Nodes"]["Sort"]
	if sortTags == nil || edgeSort == nil || nsort == nil {
		return "", fmt.Errorf("%s: SortTags, EdgeMap.Sort or Nodes.Sort not found", rel)
	}
	var cmps []comparator
	vs, si, err := lessMethod(ix, sortTags, "tag")
	if err != nil {
		return "", err
	}
	for _, v := range vs {
		cmps = append(cmps, comparator{name: "tags_Less" + v.suffix, kind: "tag", keys: v.keys, goName: si.typeName + ".Less" + strings.ReplaceAll(v.suffix, "__", " | "), pos: fset.Position(si.less.Pos()).String()})
	}
	vs, si, err = lessMethod(ix, edgeSort, "edge")
	if err != nil {
		return "", err
	}
	if len(vs) != 1 {
		return "", fmt.Errorf("%s: the edge comparator has configuration variants", fset.Position(si.less.Pos()))
	}
	style := ""
	if si.keyField != "" {
		style = ", keys precomputed in EdgeMap.Sort"
	}
	cmps = append(cmps, comparator{name: "edgeList_Less", kind: "edge", keys: vs[0].keys, goName: si.typeName + ".Less" + style, pos: fset.Position(si.less.Pos()).String()})
	ncs, err := nodesSort(fset, file, funcs, nsort)
	if err != nil {
		return "", err
	}
	cmps = append(cmps, ncs...)

	// every NodeOrder constant must have a comparator, and the set of names Props/C08.lean relies on
	// must be exactly the set generated (a missing name makes the Lean build fail, which is a broken
	// obligation; an extra one is listed in `names` and compared there).
	have := map[string]bool{}
	for _, c := range cmps {
		have[c.name] = true
	}
	for _, n := range nodeOrderConsts(file) {
		if !have["nodes_"+n] {
			return "", fmt.Errorf("%s: NodeOrder constant %s has no comparator in Nodes.Sort", rel, n)
		}
	}

	var b strings.Builder
	b.WriteString("import PprofVerif.Model.GraphOrder\n")
	b.WriteString("/-! REGENERATED by tools/extract (comparators.go) from " + rel + " on every `bin/check C08` — do not edit.\n")
	b.WriteString("Each comparator of the Go source as a list of key descriptors ⟨projection, guard, direction, transform⟩\nin source order; `PV.Order.lessOf` interprets them. -/\n")
	b.WriteString("namespace PV.Gen.Comparators\nopen PV.Order PV.GraphOrder\n\n")
	for _, c := range cmps {
		ty := map[string]string{"tag": "TagProj", "node": "NodeProj", "edge": "EdgeProj"}[c.kind]
		fmt.Fprintf(&b, "/-- %s  (%s) -/\n", c.goName, strings.TrimPrefix(c.pos, e.Repo+"/"))
		fmt.Fprintf(&b, "def %s : List (KD %s) := [\n", c.name, ty)
		for i, k := range c.keys {
			sep := ","
			if i == len(c.keys)-1 {
				sep = ""
			}
			fmt.Fprintf(&b, "  ⟨%s, .%s, .%s, .%s⟩%s  -- %s\n", k.proj, k.guard, k.dir, k.xf, sep, strings.Join(strings.Fields(k.goText), " "))
		}
		b.WriteString("]\n")
		if c.score != "" {
			fmt.Fprintf(&b, "/-- what `score[n]` holds for this order -/\ndef %s_score : ScoreSrc := %s\n", c.name, strings.Trim(c.score, "()"))
		}
		b.WriteString("\n")
	}
	var names []string
	for _, c := range cmps {
		names = append(names, c.name)
	}
	sort.Strings(names)
	b.WriteString("/-- names of all generated comparators (compared with the list Props/C08.lean covers) -/\ndef names : List String := [")
	for i, n := range names {
		if i > 0 {
			b.WriteString(", ")
		}
		b.WriteString(leanStr(n))
	}
	b.WriteString("]\n\nend PV.Gen.Comparators\n")
	return b.String(), nil
}
