// Generator for Gen/Comparators.lean (property C08).
//
// Translates the comparator functions of internal/graph/graph.go — tags.Less, edgeList.Less, the
// closures of Nodes.Sort (one per NodeOrder constant) with compareNodes inlined — into DATA: per
// comparator a list of key descriptors in source order
//
//	⟨projection, guard = raw|abs|same, direction = asc|desc, transform = id|abs⟩
//
// The interpreter `PV.Order.lessOf` (fixed Lean, Model/Order.lean) gives the list its meaning, the
// generic theorem `lessOf_strict_total` is proved once, and Props/C08.lean re-checks on every run
// that each regenerated list is proper (the guard tests the quantity the order compares) and ends
// in keys that determine the identity of the thing ordered.
//
// Recognised statement shapes inside a comparator body (A/B = the two elements compared):
//
//	if fA != fB { return gA < gB }                       guard raw|abs (as written), order g
//	if x, y := gA, gB; x != y { return x > y }           guard same-as-order
//	x := gA ; y := gB ; if x != y { return x < y }       (locals, as in edgeList.Less)
//	if <cond not mentioning A or B> { …keys… }           two variants of the comparator
//	return gA < gB | return gB > gA | return false       last key
//	return other(A, B)                                   other comparator inlined (compareNodes)
//
// where f, g are a field path of the element, optionally wrapped in abs64(…), a zero-argument
// method call (PrintableName()), fmt.Sprint(path) or score[elem].  Anything else is an error:
// the extractor exits non-zero and bin/check reports a broken obligation.
package main

import (
	"fmt"
	"go/ast"
	"go/token"
	"sort"
	"strings"
)

func init() { register("Comparators.lean", genComparators) }

type keyDesc struct {
	proj   string // Lean term of the projection, e.g. ".Cum", "(.Src .Info_PrintableName)"
	guard  string // raw | abs | same
	dir    string // asc | desc
	xf     string // id | abs
	goText string
}

// side expression after normalisation
type sideExpr struct {
	side int    // 0 = A, 1 = B
	path string // Go-ish path below the element, e.g. "Info.PrintableName()"
	abs  bool
	via  string // name of the local it was read through ("" if written in place)
	key  bool   // the expression is the precomputed key STRUCT of that element (not yet a field of it)
}

type cmpCtx struct {
	fset   *token.FileSet
	file   *ast.File
	isA    func(ast.Expr) bool // is this expression the A element itself
	isB    func(ast.Expr) bool
	locals map[string]*sideExpr
	funcs  map[string]*ast.FuncDecl // package-level functions by name (for inlining)
	projOf func(path string) (string, error)
	depth  int
	// precomputed-key style: keyRef recognises `recv.keys[i]`; keyDefs maps a field of the key struct
	// to the expression of the element it was computed from at the construction site
	keyRef  func(ast.Expr) (side int, ok bool)
	keyDefs map[string]*sideExpr
	keyType string
}

func (c *cmpCtx) errf(n ast.Node, format string, a ...any) error {
	return fmt.Errorf("%s: %s", c.fset.Position(n.Pos()), fmt.Sprintf(format, a...))
}

// side normalises an expression that must depend on exactly one of the two elements.
func (c *cmpCtx) sideOf(e ast.Expr) (*sideExpr, error) {
	if c.keyRef != nil {
		if side, ok := c.keyRef(e); ok {
			return &sideExpr{side: side, key: true}, nil
		}
	}
	switch x := e.(type) {
	case *ast.ParenExpr:
		return c.sideOf(x.X)
	case *ast.UnaryExpr:
		// &recv.keys[i]
		if x.Op == token.AND {
			in, err := c.sideOf(x.X)
			if err != nil {
				return nil, err
			}
			if in.key {
				return in, nil
			}
		}
		return nil, c.errf(e, "unsupported expression %s", src(c.fset, e))
	case *ast.StarExpr:
		in, err := c.sideOf(x.X)
		if err != nil {
			return nil, err
		}
		if in.key {
			return in, nil
		}
		return nil, c.errf(e, "unsupported expression %s", src(c.fset, e))
	case *ast.Ident:
		if c.isA(x) {
			return &sideExpr{side: 0}, nil
		}
		if c.isB(x) {
			return &sideExpr{side: 1}, nil
		}
		if l, ok := c.locals[x.Name]; ok {
			cp := *l
			cp.via = x.Name
			return &cp, nil
		}
		return nil, c.errf(e, "identifier %s is neither an element nor a recognised local", x.Name)
	case *ast.IndexExpr:
		if c.isA(x) {
			return &sideExpr{side: 0}, nil
		}
		if c.isB(x) {
			return &sideExpr{side: 1}, nil
		}
		// m[elem]  (score[l])
		if id, ok := x.X.(*ast.Ident); ok {
			in, err := c.sideOf(x.Index)
			if err != nil {
				return nil, err
			}
			if in.path != "" || in.abs {
				return nil, c.errf(e, "unsupported index expression %s", src(c.fset, e))
			}
			return &sideExpr{side: in.side, path: id.Name + "[]"}, nil
		}
		return nil, c.errf(e, "unsupported index expression %s", src(c.fset, e))
	case *ast.SelectorExpr:
		in, err := c.sideOf(x.X)
		if err != nil {
			return nil, err
		}
		if in.key {
			// a field of the precomputed key: replace it by the expression it was computed from
			def, ok := c.keyDefs[x.Sel.Name]
			if !ok {
				return nil, c.errf(e, "field %s of the precomputed key %s cannot be traced to a defining expression at the construction site", x.Sel.Name, c.keyType)
			}
			return &sideExpr{side: in.side, path: def.path, abs: def.abs, via: "key." + x.Sel.Name}, nil
		}
		if in.abs {
			return nil, c.errf(e, "selector applied to abs64 result")
		}
		return &sideExpr{side: in.side, path: joinPath(in.path, x.Sel.Name)}, nil
	case *ast.CallExpr:
		// abs64(x)
		if id, ok := x.Fun.(*ast.Ident); ok && id.Name == "abs64" && len(x.Args) == 1 {
			in, err := c.sideOf(x.Args[0])
			if err != nil {
				return nil, err
			}
			if in.key {
				return nil, c.errf(e, "abs64 applied to a key struct")
			}
			if in.abs {
				return in, nil // abs64(abs64(x)) = abs64(x) except at MinInt64 where both are MinInt64
			}
			return &sideExpr{side: in.side, path: in.path, abs: true}, nil
		}
		// fmt.Sprint(x)
		if sel, ok := x.Fun.(*ast.SelectorExpr); ok {
			if pk, ok := sel.X.(*ast.Ident); ok && pk.Name == "fmt" && sel.Sel.Name == "Sprint" && len(x.Args) == 1 {
				in, err := c.sideOf(x.Args[0])
				if err != nil {
					return nil, err
				}
				return &sideExpr{side: in.side, path: "Sprint(" + in.path + ")"}, nil
			}
			// zero-argument method call
			if len(x.Args) == 0 {
				in, err := c.sideOf(sel.X)
				if err != nil {
					return nil, err
				}
				return &sideExpr{side: in.side, path: joinPath(in.path, sel.Sel.Name+"()")}, nil
			}
		}
		return nil, c.errf(e, "unsupported call %s", src(c.fset, e))
	}
	return nil, c.errf(e, "unsupported expression %s", src(c.fset, e))
}

func joinPath(a, b string) string {
	if a == "" {
		return b
	}
	return a + "." + b
}

// mentionsElem reports whether the expression mentions A or B (or a local derived from them).
func (c *cmpCtx) mentionsElem(e ast.Expr) bool {
	found := false
	ast.Inspect(e, func(n ast.Node) bool {
		if ex, ok := n.(ast.Expr); ok {
			if c.isA(ex) || c.isB(ex) {
				found = true
			}
			if c.keyRef != nil {
				if _, ok := c.keyRef(ex); ok {
					found = true
				}
			}
			if id, ok := ex.(*ast.Ident); ok {
				if _, ok := c.locals[id.Name]; ok {
					found = true
				}
			}
		}
		return !found
	})
	return found
}

// pair parses `X op Y` into (A-side, B-side, op with A on the left).
func (c *cmpCtx) pair(e ast.Expr) (a, b *sideExpr, op token.Token, err error) {
	for {
		p, ok := e.(*ast.ParenExpr)
		if !ok {
			break
		}
		e = p.X
	}
	be, ok := e.(*ast.BinaryExpr)
	if !ok {
		return nil, nil, 0, c.errf(e, "expected a comparison, found %s", src(c.fset, e))
	}
	x, err := c.sideOf(be.X)
	if err != nil {
		return nil, nil, 0, err
	}
	y, err := c.sideOf(be.Y)
	if err != nil {
		return nil, nil, 0, err
	}
	op = be.Op
	if x.key || y.key {
		return nil, nil, 0, c.errf(e, "comparison of whole key structs is not a recognised shape")
	}
	if x.side == y.side {
		return nil, nil, 0, c.errf(e, "both operands of %s refer to the same element", src(c.fset, e))
	}
	if x.side == 1 { // B op A  ⇒  A op' B
		x, y = y, x
		switch op {
		case token.LSS:
			op = token.GTR
		case token.GTR:
			op = token.LSS
		case token.LEQ:
			op = token.GEQ
		case token.GEQ:
			op = token.LEQ
		}
	}
	if x.path != y.path || x.abs != y.abs {
		return nil, nil, 0, c.errf(e, "the two operands of %s are not the same projection of the two elements", src(c.fset, e))
	}
	return x, y, op, nil
}

func (c *cmpCtx) orderKey(e ast.Expr) (*keyDesc, *sideExpr, error) {
	a, _, op, err := c.pair(e)
	if err != nil {
		return nil, nil, err
	}
	k := &keyDesc{xf: "id", goText: src(c.fset, e)}
	if a.abs {
		k.xf = "abs"
	}
	switch op {
	case token.LSS:
		k.dir = "asc"
	case token.GTR:
		k.dir = "desc"
	default:
		return nil, nil, c.errf(e, "order expression must use < or >, found %s", src(c.fset, e))
	}
	p, err := c.projOf(a.path)
	if err != nil {
		return nil, nil, c.errf(e, "%v", err)
	}
	k.proj = p
	return k, a, nil
}

// a variant is one list of keys; conditional sections multiply the variants.
type variant struct {
	suffix string
	keys   []keyDesc
	done   bool // a final return was seen
}

func cloneVariants(vs []variant) []variant {
	out := make([]variant, len(vs))
	for i, v := range vs {
		out[i] = variant{suffix: v.suffix, keys: append([]keyDesc(nil), v.keys...), done: v.done}
	}
	return out
}

// condNames names the two variants of a configuration condition independently of the receiver's
// name: `!t.flat` gives ("not_flat", "flat"), `t.flat` gives ("flat", "not_flat").
func condNames(fset *token.FileSet, e ast.Expr) (pos, neg string) {
	negated := false
	x := e
	for {
		if p, ok := x.(*ast.ParenExpr); ok {
			x = p.X
			continue
		}
		if u, ok := x.(*ast.UnaryExpr); ok && u.Op == token.NOT {
			negated = !negated
			x = u.X
			continue
		}
		break
	}
	name := leanIdent(src(fset, x))
	if sel, ok := x.(*ast.SelectorExpr); ok {
		name = sel.Sel.Name
	}
	if negated {
		return "not_" + name, name
	}
	return name, "not_" + name
}

func leanIdent(s string) string {
	var b strings.Builder
	for _, r := range s {
		switch {
		case r >= 'a' && r <= 'z', r >= 'A' && r <= 'Z', r >= '0' && r <= '9', r == '_':
			b.WriteRune(r)
		case r == '!':
			b.WriteString("not_")
		case r == '.', r == ' ':
			b.WriteRune('_')
		}
	}
	return b.String()
}

// block translates a statement list; every variant in vs is extended.
func (c *cmpCtx) block(stmts []ast.Stmt, vs []variant, top bool) ([]variant, error) {
	for _, st := range stmts {
		alive := false
		for _, v := range vs {
			if !v.done {
				alive = true
			}
		}
		if !alive {
			return nil, c.errf(st, "statement after the final return")
		}
		switch s := st.(type) {
		case *ast.AssignStmt:
			if s.Tok != token.DEFINE || len(s.Lhs) != len(s.Rhs) {
				return nil, c.errf(st, "unsupported assignment %s", src(c.fset, st))
			}
			for i := range s.Lhs {
				id, ok := s.Lhs[i].(*ast.Ident)
				if !ok {
					return nil, c.errf(st, "unsupported assignment target")
				}
				se, err := c.sideOf(s.Rhs[i])
				if err != nil {
					return nil, err
				}
				c.locals[id.Name] = se
			}
		case *ast.IfStmt:
			if s.Else != nil {
				return nil, c.errf(st, "if with else is not a recognised comparator shape")
			}
			var added []string
			if s.Init != nil {
				as, ok := s.Init.(*ast.AssignStmt)
				if !ok || as.Tok != token.DEFINE || len(as.Lhs) != len(as.Rhs) {
					return nil, c.errf(st, "unsupported if-initialiser %s", src(c.fset, s.Init))
				}
				for i := range as.Lhs {
					id, ok := as.Lhs[i].(*ast.Ident)
					if !ok {
						return nil, c.errf(st, "unsupported if-initialiser")
					}
					se, err := c.sideOf(as.Rhs[i])
					if err != nil {
						return nil, err
					}
					c.locals[id.Name] = se
					added = append(added, id.Name)
				}
			}
			if !c.mentionsElem(s.Cond) {
				// configuration switch: the body's keys are present in one variant, absent in the other
				if s.Init != nil {
					return nil, c.errf(st, "configuration condition with initialiser")
				}
				pos, neg := condNames(c.fset, s.Cond)
				with := cloneVariants(vs)
				for i := range with {
					with[i].suffix += "__" + pos
				}
				with, err := c.block(s.Body.List, with, false)
				if err != nil {
					return nil, err
				}
				without := cloneVariants(vs)
				for i := range without {
					without[i].suffix += "__" + neg
				}
				vs = append(with, without...)
				break
			}
			// guarded key
			ga, _, op, err := c.pair(s.Cond)
			if err != nil {
				return nil, err
			}
			if op != token.NEQ {
				return nil, c.errf(st, "guard must be a != comparison, found %s", src(c.fset, s.Cond))
			}
			if len(s.Body.List) != 1 {
				return nil, c.errf(st, "guarded block must contain exactly one return")
			}
			ret, ok := s.Body.List[0].(*ast.ReturnStmt)
			if !ok || len(ret.Results) != 1 {
				return nil, c.errf(st, "guarded block must contain exactly one return")
			}
			k, oa, err := c.orderKey(ret.Results[0])
			if err != nil {
				return nil, err
			}
			if ga.path != oa.path {
				return nil, c.errf(st, "guard tests %q but the order compares %q", ga.path, oa.path)
			}
			switch {
			case ga.via != "" && ga.via == oa.via:
				k.guard = "same"
			case ga.abs:
				k.guard = "abs"
			default:
				k.guard = "raw"
			}
			k.goText = "if " + src(c.fset, s.Cond) + " { return " + src(c.fset, ret.Results[0]) + " }"
			if s.Init != nil {
				k.goText = "if " + src(c.fset, s.Init) + "; " + k.goText[3:]
			}
			for i := range vs {
				if !vs[i].done {
					vs[i].keys = append(vs[i].keys, *k)
				}
			}
			for _, n := range added {
				delete(c.locals, n)
			}
		case *ast.ReturnStmt:
			if !top {
				return nil, c.errf(st, "unguarded return inside a configuration block")
			}
			if len(s.Results) != 1 {
				return nil, c.errf(st, "return must have one result")
			}
			ks, err := c.finalReturn(s.Results[0])
			if err != nil {
				return nil, err
			}
			for i := range vs {
				if !vs[i].done {
					vs[i].keys = append(vs[i].keys, ks...)
					vs[i].done = true
				}
			}
		default:
			return nil, c.errf(st, "statement is not a recognised comparator shape: %s", firstLine(src(c.fset, st)))
		}
	}
	return vs, nil
}

func firstLine(s string) string {
	if i := strings.IndexByte(s, '\n'); i >= 0 {
		return s[:i] + " …"
	}
	return s
}

func (c *cmpCtx) finalReturn(e ast.Expr) ([]keyDesc, error) {
	if id, ok := e.(*ast.Ident); ok && id.Name == "false" {
		return nil, nil
	}
	if call, ok := e.(*ast.CallExpr); ok {
		if id, ok := call.Fun.(*ast.Ident); ok && id.Name != "abs64" {
			fd, ok := c.funcs[id.Name]
			if !ok || len(call.Args) != 2 {
				return nil, c.errf(e, "call to unknown comparator %s", id.Name)
			}
			if c.depth > 3 {
				return nil, c.errf(e, "comparator inlining too deep")
			}
			a0, err := c.sideOf(call.Args[0])
			if err != nil {
				return nil, err
			}
			a1, err := c.sideOf(call.Args[1])
			if err != nil {
				return nil, err
			}
			if a0.path != "" || a1.path != "" || a0.abs || a1.abs || a0.side == a1.side {
				return nil, c.errf(e, "comparator call must pass the two elements themselves")
			}
			ps := fd.Type.Params.List
			var names []string
			for _, f := range ps {
				for _, n := range f.Names {
					names = append(names, n.Name)
				}
			}
			if len(names) != 2 || fd.Body == nil {
				return nil, c.errf(e, "comparator %s must take two parameters", id.Name)
			}
			an, bn := names[0], names[1]
			if a0.side == 1 { // other(B, A): parameters swap roles
				an, bn = bn, an
			}
			sub := &cmpCtx{fset: c.fset, file: c.file, locals: map[string]*sideExpr{}, funcs: c.funcs, projOf: c.projOf, depth: c.depth + 1,
				isA: func(x ast.Expr) bool { i, ok := x.(*ast.Ident); return ok && i.Name == an },
				isB: func(x ast.Expr) bool { i, ok := x.(*ast.Ident); return ok && i.Name == bn }}
			vs, err := sub.block(fd.Body.List, []variant{{}}, true)
			if err != nil {
				return nil, err
			}
			if len(vs) != 1 || !vs[0].done {
				return nil, c.errf(e, "inlined comparator %s has configuration variants or no final return", id.Name)
			}
			return vs[0].keys, nil
		}
	}
	k, _, err := c.orderKey(e)
	if err != nil {
		return nil, err
	}
	k.guard = "same"
	k.goText = "return " + k.goText
	return []keyDesc{*k}, nil
}

// ---- projection tables: Go path below the element  →  Lean constructor (Model/GraphOrder.lean) ----

var tagProj = map[string]string{"Name": ".Name", "Unit": ".Unit", "Value": ".Value", "Flat": ".Flat", "FlatDiv": ".FlatDiv", "Cum": ".Cum", "CumDiv": ".CumDiv"}
var nodeProj = map[string]string{"Flat": ".Flat", "FlatDiv": ".FlatDiv", "Cum": ".Cum", "CumDiv": ".CumDiv", "score[]": ".Score",
	"Info.Name": ".Info_Name", "Info.OrigName": ".Info_OrigName", "Info.Address": ".Info_Address", "Info.File": ".Info_File",
	"Info.StartLine": ".Info_StartLine", "Info.Lineno": ".Info_Lineno", "Info.Columnno": ".Info_Columnno", "Info.Objfile": ".Info_Objfile",
	"Info.PrintableName()": ".Info_PrintableName", "Sprint(Info)": ".Sprint_Info"}

func projTable(kind string) func(string) (string, error) {
	return func(p string) (string, error) {
		switch kind {
		case "tag":
			if v, ok := tagProj[p]; ok {
				return v, nil
			}
		case "node":
			if v, ok := nodeProj[p]; ok {
				return v, nil
			}
		case "edge":
			switch {
			case p == "Weight":
				return ".Weight", nil
			case p == "WeightDiv":
				return ".WeightDiv", nil
			case strings.HasPrefix(p, "Src."):
				if v, ok := nodeProj[p[4:]]; ok {
					return "(.Src " + v + ")", nil
				}
			case strings.HasPrefix(p, "Dest."):
				if v, ok := nodeProj[p[5:]]; ok {
					return "(.Dest " + v + ")", nil
				}
			case p == "Sprint(Src.Info)":
				return "(.Src .Sprint_Info)", nil
			case p == "Sprint(Dest.Info)":
				return "(.Dest .Sprint_Info)", nil
			}
		}
		return "", fmt.Errorf("projection %q of a %s is not in the translator's table (add it to tools/extract/comparators.go and Model/GraphOrder.lean)", p, kind)
	}
}

// ---- locating the comparators ----

type comparator struct {
	name   string // Lean identifier
	kind   string // tag | node | edge
	keys   []keyDesc
	goName string
	pos    string
	score  string // for score-based node orders: Lean term of the score source
}

func recvTypeName(fd *ast.FuncDecl) string {
	if fd.Recv == nil || len(fd.Recv.List) != 1 {
		return ""
	}
	t := fd.Recv.List[0].Type
	if s, ok := t.(*ast.StarExpr); ok {
		t = s.X
	}
	if id, ok := t.(*ast.Ident); ok {
		return id.Name
	}
	return ""
}

func recvName(fd *ast.FuncDecl) string {
	if fd.Recv == nil || len(fd.Recv.List) != 1 || len(fd.Recv.List[0].Names) != 1 {
		return ""
	}
	return fd.Recv.List[0].Names[0].Name
}

func paramNames(ft *ast.FuncType) []string {
	var names []string
	for _, f := range ft.Params.List {
		for _, n := range f.Names {
			names = append(names, n.Name)
		}
	}
	return names
}

// lessMethod translates `func (r T) Less(i, j int) bool`; the elements are elemExpr(i), elemExpr(j)
// where the element expression is found by pattern: the IndexExpr whose index is the parameter.
func lessMethod(fset *token.FileSet, file *ast.File, funcs map[string]*ast.FuncDecl, fd *ast.FuncDecl, kind string) ([]variant, error) {
	ps := paramNames(fd.Type)
	if len(ps) != 2 {
		return nil, fmt.Errorf("%s: Less must take two parameters", fset.Position(fd.Pos()))
	}
	rn := recvName(fd)
	isElem := func(p string) func(ast.Expr) bool {
		return func(x ast.Expr) bool {
			ix, ok := x.(*ast.IndexExpr)
			if !ok {
				return false
			}
			id, ok := ix.Index.(*ast.Ident)
			if !ok || id.Name != p {
				return false
			}
			// base must be the receiver or a field of the receiver
			base := ix.X
			for {
				if s, ok := base.(*ast.SelectorExpr); ok {
					base = s.X
					continue
				}
				break
			}
			b, ok := base.(*ast.Ident)
			return ok && b.Name == rn
		}
	}
	c := &cmpCtx{fset: fset, file: file, locals: map[string]*sideExpr{}, funcs: funcs, projOf: projTable(kind), isA: isElem(ps[0]), isB: isElem(ps[1])}
	vs, err := c.block(fd.Body.List, []variant{{}}, true)
	if err != nil {
		return nil, err
	}
	for _, v := range vs {
		if !v.done {
			return nil, fmt.Errorf("%s: comparator has no final return", fset.Position(fd.Pos()))
		}
	}
	return vs, nil
}

func funcLitComparator(fset *token.FileSet, file *ast.File, funcs map[string]*ast.FuncDecl, fl *ast.FuncLit, kind string) ([]keyDesc, error) {
	ps := paramNames(fl.Type)
	if len(ps) != 2 {
		return nil, fmt.Errorf("%s: comparator closure must take two parameters", fset.Position(fl.Pos()))
	}
	c := &cmpCtx{fset: fset, file: file, locals: map[string]*sideExpr{}, funcs: funcs, projOf: projTable(kind),
		isA: func(x ast.Expr) bool { i, ok := x.(*ast.Ident); return ok && i.Name == ps[0] },
		isB: func(x ast.Expr) bool { i, ok := x.(*ast.Ident); return ok && i.Name == ps[1] }}
	vs, err := c.block(fl.Body.List, []variant{{}}, true)
	if err != nil {
		return nil, err
	}
	if len(vs) != 1 || !vs[0].done {
		return nil, fmt.Errorf("%s: comparator closure has configuration variants or no final return", fset.Position(fl.Pos()))
	}
	return vs[0].keys, nil
}

// nodesSort walks Nodes.Sort: `switch o { case X: s = nodeSorter{ns, func…} … }`.
func nodesSort(fset *token.FileSet, file *ast.File, funcs map[string]*ast.FuncDecl, fd *ast.FuncDecl) ([]comparator, error) {
	ps := paramNames(fd.Type)
	if len(ps) != 1 {
		return nil, fmt.Errorf("%s: Nodes.Sort must take the order as its only parameter", fset.Position(fd.Pos()))
	}
	orderParam := ps[0]
	var out []comparator
	var sortCalls int

	var walk func(stmts []ast.Stmt, names []string, lits map[string]*ast.FuncLit, score string) error
	walk = func(stmts []ast.Stmt, names []string, lits map[string]*ast.FuncLit, score string) error {
		for _, st := range stmts {
			switch s := st.(type) {
			case *ast.DeclStmt:
				// var s nodeSorter / var score map[*Node]int64
			case *ast.AssignStmt:
				if len(s.Lhs) != 1 || len(s.Rhs) != 1 {
					return fmt.Errorf("%s: unsupported assignment in Nodes.Sort", fset.Position(st.Pos()))
				}
				lhs, _ := s.Lhs[0].(*ast.Ident)
				switch r := s.Rhs[0].(type) {
				case *ast.FuncLit:
					if lhs == nil {
						return fmt.Errorf("%s: unsupported assignment in Nodes.Sort", fset.Position(st.Pos()))
					}
					lits[lhs.Name] = r
				case *ast.CompositeLit:
					// s = nodeSorter{ns, <less>}
					if len(r.Elts) != 2 {
						return fmt.Errorf("%s: nodeSorter literal must have two elements", fset.Position(st.Pos()))
					}
					var fl *ast.FuncLit
					switch l := r.Elts[1].(type) {
					case *ast.FuncLit:
						fl = l
					case *ast.Ident:
						fl = lits[l.Name]
					case *ast.KeyValueExpr:
						switch v := l.Value.(type) {
						case *ast.FuncLit:
							fl = v
						case *ast.Ident:
							fl = lits[v.Name]
						}
					}
					if fl == nil {
						return fmt.Errorf("%s: cannot find the less function of the nodeSorter literal", fset.Position(st.Pos()))
					}
					if len(names) == 0 {
						return fmt.Errorf("%s: nodeSorter assigned outside a case of the order switch", fset.Position(st.Pos()))
					}
					keys, err := funcLitComparator(fset, file, funcs, fl, "node")
					if err != nil {
						return err
					}
					usesScore := false
					for _, k := range keys {
						if k.proj == ".Score" {
							usesScore = true
						}
					}
					if usesScore && score == "" {
						return fmt.Errorf("%s: comparator reads score[] but no `score[n] = …` loop was found in this case", fset.Position(st.Pos()))
					}
					for _, n := range names {
						cmp := comparator{name: "nodes_" + n, kind: "node", keys: keys, goName: "Nodes.Sort case " + n, pos: fset.Position(fl.Pos()).String()}
						if usesScore {
							cmp.score = score
						}
						out = append(out, cmp)
					}
				case *ast.CallExpr:
					// score = make(map[*Node]int64, len(ns))
					if id, ok := r.Fun.(*ast.Ident); !ok || id.Name != "make" {
						return fmt.Errorf("%s: unsupported assignment in Nodes.Sort: %s", fset.Position(st.Pos()), src(fset, st))
					}
				default:
					return fmt.Errorf("%s: unsupported assignment in Nodes.Sort: %s", fset.Position(st.Pos()), src(fset, st))
				}
			case *ast.RangeStmt:
				// for _, n := range ns { score[n] = <expr of n> }
				if len(s.Body.List) != 1 {
					return fmt.Errorf("%s: unsupported score loop", fset.Position(st.Pos()))
				}
				as, ok := s.Body.List[0].(*ast.AssignStmt)
				v, _ := s.Value.(*ast.Ident)
				if !ok || v == nil || len(as.Lhs) != 1 || len(as.Rhs) != 1 || as.Tok != token.ASSIGN {
					return fmt.Errorf("%s: unsupported score loop", fset.Position(st.Pos()))
				}
				ix, ok := as.Lhs[0].(*ast.IndexExpr)
				if !ok || src(fset, ix.Index) != v.Name {
					return fmt.Errorf("%s: unsupported score loop", fset.Position(st.Pos()))
				}
				switch r := as.Rhs[0].(type) {
				case *ast.SelectorExpr:
					if src(fset, r.X) != v.Name {
						return fmt.Errorf("%s: unsupported score source %s", fset.Position(st.Pos()), src(fset, r))
					}
					p, ok := nodeProj[r.Sel.Name]
					if !ok || strings.HasPrefix(p, ".Info") || p == ".Score" {
						return fmt.Errorf("%s: unsupported score source %s", fset.Position(st.Pos()), src(fset, r))
					}
					score = "(.field " + p + ")"
				case *ast.CallExpr:
					if len(r.Args) != 1 || src(fset, r.Args[0]) != v.Name {
						return fmt.Errorf("%s: unsupported score source %s", fset.Position(st.Pos()), src(fset, r))
					}
					score = "(.external " + leanStr(src(fset, r.Fun)) + ")"
				default:
					return fmt.Errorf("%s: unsupported score source %s", fset.Position(st.Pos()), src(fset, as.Rhs[0]))
				}
			case *ast.SwitchStmt:
				if s.Init != nil || s.Tag == nil || src(fset, s.Tag) != orderParam {
					return fmt.Errorf("%s: unsupported switch in Nodes.Sort", fset.Position(st.Pos()))
				}
				for _, cl := range s.Body.List {
					cc := cl.(*ast.CaseClause)
					if cc.List == nil {
						// default: must not install a sorter
						for _, b := range cc.Body {
							if _, ok := b.(*ast.ReturnStmt); !ok {
								return fmt.Errorf("%s: default case of the order switch must only return", fset.Position(b.Pos()))
							}
						}
						continue
					}
					var ns []string
					for _, e := range cc.List {
						id, ok := e.(*ast.Ident)
						if !ok {
							return fmt.Errorf("%s: case label is not a NodeOrder constant", fset.Position(e.Pos()))
						}
						ns = append(ns, id.Name)
					}
					cp := map[string]*ast.FuncLit{}
					for k, v := range lits {
						cp[k] = v
					}
					// a nested switch refines the label set; the outer labels only scope the shared closures
					if err := walk(cc.Body, ns, cp, score); err != nil {
						return err
					}
				}
			case *ast.ExprStmt:
				if call, ok := s.X.(*ast.CallExpr); ok && src(fset, call.Fun) == "sort.Sort" {
					sortCalls++
					continue
				}
				return fmt.Errorf("%s: unsupported statement in Nodes.Sort: %s", fset.Position(st.Pos()), firstLine(src(fset, st)))
			case *ast.ReturnStmt:
			default:
				return fmt.Errorf("%s: unsupported statement in Nodes.Sort: %s", fset.Position(st.Pos()), firstLine(src(fset, st)))
			}
		}
		return nil
	}
	if err := walk(fd.Body.List, nil, map[string]*ast.FuncLit{}, ""); err != nil {
		return nil, err
	}
	if sortCalls != 1 {
		return nil, fmt.Errorf("%s: Nodes.Sort must call sort.Sort exactly once", fset.Position(fd.Pos()))
	}
	// a label handled by an outer clause AND refined by a nested switch is emitted by the nested one
	// only (the outer clause has no nodeSorter assignment of its own); duplicates are an error.
	seen := map[string]bool{}
	for _, c := range out {
		if seen[c.name] {
			return nil, fmt.Errorf("Nodes.Sort installs two comparators for %s", c.name)
		}
		seen[c.name] = true
	}
	return out, nil
}

// nodeOrderConsts lists the constants of type NodeOrder in declaration order.
func nodeOrderConsts(file *ast.File) []string {
	var out []string
	for _, d := range file.Decls {
		gd, ok := d.(*ast.GenDecl)
		if !ok || gd.Tok != token.CONST {
			continue
		}
		is := false
		for _, sp := range gd.Specs {
			vs := sp.(*ast.ValueSpec)
			if id, ok := vs.Type.(*ast.Ident); ok && id.Name == "NodeOrder" {
				is = true
			}
		}
		if !is {
			continue
		}
		for _, sp := range gd.Specs {
			for _, n := range sp.(*ast.ValueSpec).Names {
				out = append(out, n.Name)
			}
		}
	}
	return out
}

func genComparators(e *Env) (string, error) {
	const rel = "internal/graph/graph.go"
	fset, file, err := parseFile(e, rel)
	if err != nil {
		return "", err
	}
	funcs := map[string]*ast.FuncDecl{}
	var tagsLess, edgeLess, nsort *ast.FuncDecl
	for _, d := range file.Decls {
		fd, ok := d.(*ast.FuncDecl)
		if !ok || fd.Body == nil {
			continue
		}
		if fd.Recv == nil {
			funcs[fd.Name.Name] = fd
			continue
		}
		switch recvTypeName(fd) + "." + fd.Name.Name {
		case "tags.Less":
			tagsLess = fd
		case "edgeList.Less":
			edgeLess = fd
		case "Nodes.Sort":
			nsort = fd
		}
	}
	if tagsLess == nil || edgeLess == nil || nsort == nil {
		return "", fmt.Errorf("%s: tags.Less, edgeList.Less or Nodes.Sort not found", rel)
	}
	var cmps []comparator
	vs, err := lessMethod(fset, file, funcs, tagsLess, "tag")
	if err != nil {
		return "", err
	}
	for _, v := range vs {
		cmps = append(cmps, comparator{name: "tags_Less" + v.suffix, kind: "tag", keys: v.keys, goName: "tags.Less" + strings.ReplaceAll(v.suffix, "__", " | "), pos: fset.Position(tagsLess.Pos()).String()})
	}
	vs, err = lessMethod(fset, file, funcs, edgeLess, "edge")
	if err != nil {
		return "", err
	}
	if len(vs) != 1 {
		return "", fmt.Errorf("%s: edgeList.Less has configuration variants", fset.Position(edgeLess.Pos()))
	}
	cmps = append(cmps, comparator{name: "edgeList_Less", kind: "edge", keys: vs[0].keys, goName: "edgeList.Less", pos: fset.Position(edgeLess.Pos()).String()})
	ncs, err := nodesSort(fset, file, funcs, nsort)
	if err != nil {
		return "", err
	}
	cmps = append(cmps, ncs...)

	// every NodeOrder constant must have a comparator, and the set of names Props/C08.lean relies on
	// must be exactly the set generated (a missing name makes the Lean build fail, which is a broken
	// obligation; an extra one is listed in `names` and compared there).
	have := map[string]bool{}
	for _, c := range cmps {
		have[c.name] = true
	}
	for _, n := range nodeOrderConsts(file) {
		if !have["nodes_"+n] {
			return "", fmt.Errorf("%s: NodeOrder constant %s has no comparator in Nodes.Sort", rel, n)
		}
	}

	var b strings.Builder
	b.WriteString("import PprofVerif.Model.GraphOrder\n")
	b.WriteString("/-! REGENERATED by tools/extract (comparators.go) from " + rel + " on every `bin/check C08` — do not edit.\n")
	b.WriteString("Each comparator of the Go source as a list of key descriptors ⟨projection, guard, direction, transform⟩\nin source order; `PV.Order.lessOf` interprets them. -/\n")
	b.WriteString("namespace PV.Gen.Comparators\nopen PV.Order PV.GraphOrder\n\n")
	for _, c := range cmps {
		ty := map[string]string{"tag": "TagProj", "node": "NodeProj", "edge": "EdgeProj"}[c.kind]
		fmt.Fprintf(&b, "/-- %s  (%s) -/\n", c.goName, strings.TrimPrefix(c.pos, e.Repo+"/"))
		fmt.Fprintf(&b, "def %s : List (KD %s) := [\n", c.name, ty)
		for i, k := range c.keys {
			sep := ","
			if i == len(c.keys)-1 {
				sep = ""
			}
			fmt.Fprintf(&b, "  ⟨%s, .%s, .%s, .%s⟩%s  -- %s\n", k.proj, k.guard, k.dir, k.xf, sep, strings.Join(strings.Fields(k.goText), " "))
		}
		b.WriteString("]\n")
		if c.score != "" {
			fmt.Fprintf(&b, "/-- what `score[n]` holds for this order -/\ndef %s_score : ScoreSrc := %s\n", c.name, strings.Trim(c.score, "()"))
		}
		b.WriteString("\n")
	}
	var names []string
	for _, c := range cmps {
		names = append(names, c.name)
	}
	sort.Strings(names)
	b.WriteString("/-- names of all generated comparators (compared with the list Props/C08.lean covers) -/\ndef names : List String := [")
	for i, n := range names {
		if i > 0 {
			b.WriteString(", ")
		}
		b.WriteString(leanStr(n))
	}
	b.WriteString("]\n\nend PV.Gen.Comparators\n")
	return b.String(), nil
}
