package main

// Generator of lean/PprofVerif/Gen/HtmlSinks.lean (property C18).
//
// Lists every place of the module (non-test Go files) where text can reach an HTTP response
// without passing html/template's contextual auto-escaping:
//   - conversions to the "trusted" types template.HTML / JS / URL / CSS / HTMLAttr / JSStr / Srcset,
//     with the provenance of the converted value (result of dotToSvg, of json.Marshal, or other);
//   - imports of text/template and calls of (*Template).Funcs (custom functions can return
//     trusted types);
//   - in internal/driver: every use of an http.ResponseWriter — Write of a buffer filled by
//     renderHTML (template output), http.Error (text/plain; nosniff), profile Write (protobuf
//     download), http.Redirect, delegation to another handler, or anything else.
// The Lean side compares the kinds with a hand-written allow-list by `decide`.

import (
	"fmt"
	"go/ast"
	"go/token"
	"os"
	"path/filepath"
	"sort"
	"strings"
)

func init() { register("HtmlSinks.lean", genHTMLSinks) }

type hsSink struct{ file, fn, kind, detail string }

var hsTrusted = map[string]bool{"HTML": true, "JS": true, "URL": true, "CSS": true, "HTMLAttr": true, "JSStr": true, "Srcset": true}

func hsIsRW(t ast.Expr) bool {
	se, ok := t.(*ast.SelectorExpr)
	if !ok || se.Sel.Name != "ResponseWriter" {
		return false
	}
	id, ok := se.X.(*ast.Ident)
	return ok && id.Name == "http"
}

func hsRWParams(ft *ast.FuncType) []string {
	var out []string
	if ft.Params == nil {
		return nil
	}
	for _, f := range ft.Params.List {
		if hsIsRW(f.Type) {
			for _, n := range f.Names {
				out = append(out, n.Name)
			}
		}
	}
	return out
}

// hsProvenance: where does the identifier converted to a trusted type come from?
func hsProvenance(body *ast.BlockStmt, e ast.Expr) string {
	for {
		switch x := e.(type) {
		case *ast.ParenExpr:
			e = x.X
			continue
		case *ast.CallExpr:
			if id, ok := x.Fun.(*ast.Ident); ok && (id.Name == "string" || id.Name == "[]byte") && len(x.Args) == 1 {
				e = x.Args[0]
				continue
			}
		}
		break
	}
	id, ok := e.(*ast.Ident)
	if !ok || body == nil {
		return "other"
	}
	prov := "other"
	n := 0
	ast.Inspect(body, func(nd ast.Node) bool {
		a, ok := nd.(*ast.AssignStmt)
		if !ok {
			return true
		}
		for _, l := range a.Lhs {
			if li, ok := l.(*ast.Ident); ok && li.Name == id.Name {
				n++
				if len(a.Rhs) == 1 {
					if call, ok := a.Rhs[0].(*ast.CallExpr); ok {
						switch dsCallName(call) {
						case "dotToSvg":
							prov = "svg:dotToSvg"
						case "json.Marshal":
							prov = "json.Marshal"
						default:
							prov = "other"
						}
					} else {
						prov = "other"
					}
				}
			}
		}
		return true
	})
	if n != 1 {
		return "other"
	}
	return prov
}

func genHTMLSinks(e *Env) (string, error) {
	var sinks []hsSink
	// functions of internal/driver that take a ResponseWriter (targets of delegation)
	rwFuncs := map[string]bool{}
	type parsed struct {
		rel  string
		fset *token.FileSet
		file *ast.File
	}
	var files []parsed
	err := filepath.Walk(e.Repo, func(path string, info os.FileInfo, err error) error {
		if err != nil {
			return err
		}
		if info.IsDir() {
			n := info.Name()
			if n == ".git" || n == "third_party" || n == "testdata" || n == "node_modules" || n == "browsertests" {
				return filepath.SkipDir
			}
			return nil
		}
		if !strings.HasSuffix(path, ".go") || strings.HasSuffix(path, "_test.go") {
			return nil
		}
		rel, _ := filepath.Rel(e.Repo, path)
		fset, f, perr := parseFile(e, rel)
		if perr != nil {
			return fmt.Errorf("%s: %v", rel, perr)
		}
		files = append(files, parsed{rel, fset, f})
		return nil
	})
	if err != nil {
		return "", err
	}
	for _, pf := range files {
		if filepath.Dir(pf.rel) != "internal/driver" {
			continue
		}
		for _, d := range pf.file.Decls {
			if fd, ok := d.(*ast.FuncDecl); ok && len(hsRWParams(fd.Type)) > 0 {
				rwFuncs[fd.Name.Name] = true
			}
		}
	}
	sawWebui := false
	for _, pf := range files {
		rel := pf.rel
		if rel == "internal/driver/webui.go" {
			sawWebui = true
		}
		for _, imp := range pf.file.Imports {
			if imp.Path.Value == `"text/template"` {
				sinks = append(sinks, hsSink{rel, "", "import:text/template", ""})
			}
		}
		// walk functions, keeping the innermost enclosing body for provenance
		var visit func(n ast.Node, fnName string, body *ast.BlockStmt, rw map[string]bool)
		visit = func(n ast.Node, fnName string, body *ast.BlockStmt, rw map[string]bool) {
			ast.Inspect(n, func(nd ast.Node) bool {
				switch x := nd.(type) {
				case *ast.FuncLit:
					rw2 := map[string]bool{}
					for k := range rw {
						rw2[k] = true
					}
					for _, p := range hsRWParams(x.Type) {
						rw2[p] = true
					}
					visit(x.Body, fnName+"/func", x.Body, rw2)
					return false
				case *ast.CallExpr:
					// trusted-type conversions and Funcs
					if se, ok := x.Fun.(*ast.SelectorExpr); ok {
						if id, ok := se.X.(*ast.Ident); ok && id.Name == "template" && hsTrusted[se.Sel.Name] && len(x.Args) == 1 {
							sinks = append(sinks, hsSink{rel, fnName, "template." + se.Sel.Name + "(" + hsProvenance(body, x.Args[0]) + ")", src(pf.fset, x.Args[0])})
						}
						if se.Sel.Name == "Funcs" && len(x.Args) == 1 {
							sinks = append(sinks, hsSink{rel, fnName, "template.Funcs", src(pf.fset, x.Args[0])})
						}
					}
					if len(rw) == 0 {
						return true
					}
					name := dsCallName(x)
					// method on the writer itself
					if se, ok := x.Fun.(*ast.SelectorExpr); ok {
						if id, ok := se.X.(*ast.Ident); ok && rw[id.Name] {
							switch se.Sel.Name {
							case "Header", "WriteHeader":
							case "Write":
								kind := "write:other"
								if len(x.Args) == 1 {
									if c2, ok := x.Args[0].(*ast.CallExpr); ok {
										if s2, ok := c2.Fun.(*ast.SelectorExpr); ok && s2.Sel.Name == "Bytes" {
											if buf, ok := s2.X.(*ast.Ident); ok && hsFilledByRenderHTML(body, buf.Name) {
												kind = "write:template-output"
											}
										}
									}
								}
								sinks = append(sinks, hsSink{rel, fnName, kind, src(pf.fset, x)})
							default:
								sinks = append(sinks, hsSink{rel, fnName, "write:other", src(pf.fset, x)})
							}
							return true
						}
					}
					// the writer passed as an argument
					for i, a := range x.Args {
						id, ok := a.(*ast.Ident)
						if !ok || !rw[id.Name] {
							continue
						}
						short := name
						if j := strings.LastIndexByte(short, '.'); j >= 0 {
							short = short[j+1:]
						}
						kind := "write:other"
						switch {
						case name == "http.Error" && i == 0:
							kind = "http.Error"
						case name == "http.Redirect" && i == 0:
							kind = "http.Redirect"
						case short == "ServeHTTP" && i == 0:
							kind = "delegate:ServeHTTP"
						case short == "Write" && len(x.Args) == 1:
							kind = "profile.Write"
						case rwFuncs[short] && i == 0:
							kind = "delegate:handler"
						}
						sinks = append(sinks, hsSink{rel, fnName, kind, strings.Join(strings.Fields(src(pf.fset, x)), " ")})
					}
				}
				return true
			})
		}
		for _, d := range pf.file.Decls {
			fd, ok := d.(*ast.FuncDecl)
			if !ok || fd.Body == nil {
				continue
			}
			rw := map[string]bool{}
			if filepath.Dir(rel) == "internal/driver" {
				for _, p := range hsRWParams(fd.Type) {
					rw[p] = true
				}
			}
			visit(fd.Body, fd.Name.Name, fd.Body, rw)
		}
	}
	if !sawWebui {
		return "", fmt.Errorf("internal/driver/webui.go not found")
	}
	sort.SliceStable(sinks, func(i, j int) bool {
		a, b := sinks[i], sinks[j]
		if a.file != b.file {
			return a.file < b.file
		}
		if a.fn != b.fn {
			return a.fn < b.fn
		}
		return a.kind < b.kind
	})
	nWrite := 0
	for _, s := range sinks {
		if s.kind == "write:template-output" {
			nWrite++
		}
	}
	if nWrite == 0 {
		return "", fmt.Errorf("internal/driver: no write of template output to a ResponseWriter found; shape not recognised")
	}
	var b strings.Builder
	b.WriteString("/- GENERATED by tools/extract/htmlsinks.go — do not edit.\n   Places where text reaches an HTTP response outside html/template's auto-escaping. -/\n")
	b.WriteString("namespace PV.Gen.HtmlSinks\n\nstructure Sink where\n  file : String\n  fn : String\n  kind : String\n  detail : String\n  deriving DecidableEq, Repr\n\n")
	b.WriteString("def sinks : List Sink := [\n")
	for i, s := range sinks {
		d := s.detail
		if len(d) > 100 {
			d = d[:100] + "…"
		}
		sep := ","
		if i == len(sinks)-1 {
			sep = ""
		}
		fmt.Fprintf(&b, "  ⟨%s, %s, %s, %s⟩%s\n", leanStr(s.file), leanStr(s.fn), leanStr(s.kind), leanStr(d), sep)
	}
	b.WriteString("]\n\nend PV.Gen.HtmlSinks\n")
	return b.String(), nil
}

// hsFilledByRenderHTML: buf is a local buffer handed to renderHTML (which only calls
// ExecuteTemplate on it) in the same function.
func hsFilledByRenderHTML(body *ast.BlockStmt, buf string) bool {
	if body == nil {
		return false
	}
	ok := false
	ast.Inspect(body, func(n ast.Node) bool {
		call, isCall := n.(*ast.CallExpr)
		if !isCall {
			return true
		}
		name := dsCallName(call)
		if (name == "renderHTML" || strings.HasSuffix(name, ".ExecuteTemplate")) && len(call.Args) > 0 {
			if id, isID := call.Args[0].(*ast.Ident); isID && id.Name == buf {
				ok = true
			}
		}
		return true
	})
	return ok
}
