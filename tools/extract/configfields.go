package main

// Generator for lean/PprofVerif/Gen/ConfigFields.lean (property C19).
//
// Reads internal/driver/config.go and internal/driver/settings.go of the CURRENT tree and emits
// the configuration-field table that config.go's init() builds at run time with reflection:
// per field of `type config struct` the Go name, the variable/JSON name, whether it is saved
// (JSON tag is not "-"), `omitempty`, the URL parameter (urlparam map), the kind
// (bool/int/float/string/choice), the choices (choices map) and the value in defaultConfig().
// Additionally: the fields resetTransient() overwrites, whether readSettings decodes into a
// zero-valued `settings{}`, and (informational) whether editSettings takes a mutex.
//
// The Lean theorems of Props/C19.lean are proved for ANY table satisfying `TableOK`; the
// generated file is the table they are instantiated with, and `TableOK` is re-decided by the
// kernel on every check.  An unrecognised source shape is an error (broken obligation), never a
// silent default.

import (
	"fmt"
	"go/ast"
	"go/token"
	"reflect"
	"sort"
	"strconv"
	"strings"
)

func init() { register("ConfigFields.lean", genConfigFields) }

type cfField struct {
	goName    string
	goType    string // bool | int | float64 | string
	jsonName  string // first element of the json tag ("-" when not saved)
	omitempty bool
}

// mapLit finds `name := map[...]...{...}` / `var name = map...{...}` / `name = map...{...}` anywhere
// in the file and returns its key/value expressions.
func cfMapLit(f *ast.File, name string) (*ast.CompositeLit, bool) {
	var found *ast.CompositeLit
	ast.Inspect(f, func(n ast.Node) bool {
		if found != nil {
			return false
		}
		switch s := n.(type) {
		case *ast.AssignStmt:
			for i, l := range s.Lhs {
				if id, ok := l.(*ast.Ident); ok && id.Name == name && i < len(s.Rhs) {
					if cl, ok := s.Rhs[i].(*ast.CompositeLit); ok {
						if _, ok := cl.Type.(*ast.MapType); ok {
							found = cl
						}
					}
				}
			}
		case *ast.ValueSpec:
			for i, id := range s.Names {
				if id.Name == name && i < len(s.Values) {
					if cl, ok := s.Values[i].(*ast.CompositeLit); ok {
						if _, ok := cl.Type.(*ast.MapType); ok {
							found = cl
						}
					}
				}
			}
		}
		return true
	})
	return found, found != nil
}

func cfStrLit(e ast.Expr) (string, bool) {
	bl, ok := e.(*ast.BasicLit)
	if !ok || bl.Kind != token.STRING {
		return "", false
	}
	s, err := strconv.Unquote(bl.Value)
	return s, err == nil
}

func cfStringMap(f *ast.File, name string) (map[string]string, error) {
	cl, ok := cfMapLit(f, name)
	if !ok {
		return nil, fmt.Errorf("map literal %q not found in config.go", name)
	}
	m := map[string]string{}
	for _, el := range cl.Elts {
		kv, ok := el.(*ast.KeyValueExpr)
		if !ok {
			return nil, fmt.Errorf("%s: element is not key: value", name)
		}
		k, ok1 := cfStrLit(kv.Key)
		v, ok2 := cfStrLit(kv.Value)
		if !ok1 || !ok2 {
			return nil, fmt.Errorf("%s: non-literal key or value", name)
		}
		if _, dup := m[k]; dup {
			return nil, fmt.Errorf("%s: duplicate key %q", name, k)
		}
		m[k] = v
	}
	return m, nil
}

func cfStringListMap(f *ast.File, name string) (map[string][]string, error) {
	cl, ok := cfMapLit(f, name)
	if !ok {
		return nil, fmt.Errorf("map literal %q not found in config.go", name)
	}
	m := map[string][]string{}
	for _, el := range cl.Elts {
		kv, ok := el.(*ast.KeyValueExpr)
		if !ok {
			return nil, fmt.Errorf("%s: element is not key: value", name)
		}
		k, ok1 := cfStrLit(kv.Key)
		vl, ok2 := kv.Value.(*ast.CompositeLit)
		if !ok1 || !ok2 {
			return nil, fmt.Errorf("%s: unrecognised element", name)
		}
		var vs []string
		for _, e := range vl.Elts {
			s, ok := cfStrLit(e)
			if !ok {
				return nil, fmt.Errorf("%s[%s]: non-literal choice", name, k)
			}
			vs = append(vs, s)
		}
		m[k] = vs
	}
	return m, nil
}

func cfFuncDecl(f *ast.File, name string, recv bool) *ast.FuncDecl {
	for _, d := range f.Decls {
		if fd, ok := d.(*ast.FuncDecl); ok && fd.Name.Name == name && (fd.Recv != nil) == recv {
			return fd
		}
	}
	return nil
}

// cfDefault renders the value of an expression in defaultConfig()'s composite literal.
func cfDefault(goType string, e ast.Expr) (string, error) {
	neg := false
	if u, ok := e.(*ast.UnaryExpr); ok && (u.Op == token.SUB || u.Op == token.ADD) {
		neg = u.Op == token.SUB
		e = u.X
	}
	switch goType {
	case "bool":
		if id, ok := e.(*ast.Ident); ok && (id.Name == "true" || id.Name == "false") && !neg {
			return ".b " + id.Name, nil
		}
	case "int":
		if bl, ok := e.(*ast.BasicLit); ok && bl.Kind == token.INT {
			n, err := strconv.ParseInt(bl.Value, 0, 64)
			if err != nil {
				return "", err
			}
			if neg {
				n = -n
			}
			return fmt.Sprintf(".i (%d)", n), nil
		}
	case "float64":
		if bl, ok := e.(*ast.BasicLit); ok && (bl.Kind == token.FLOAT || bl.Kind == token.INT) {
			v, err := strconv.ParseFloat(strings.ReplaceAll(bl.Value, "_", ""), 64)
			if err != nil {
				return "", err
			}
			if neg {
				v = -v
			}
			return ".f b!" + leanStr(fmt.Sprint(v)), nil
		}
	case "string":
		if s, ok := cfStrLit(e); ok && !neg {
			return ".s b!" + leanStr(s), nil
		}
	}
	return "", fmt.Errorf("default value of type %s is not a literal", goType)
}

func cfZero(goType string) string {
	switch goType {
	case "bool":
		return ".b false"
	case "int":
		return ".i (0)"
	case "float64":
		return ".f b!\"0\""
	}
	return ".s b!\"\""
}

func genConfigFields(e *Env) (string, error) {
	_, f, err := parseFile(e, "internal/driver/config.go")
	if err != nil {
		return "", err
	}
	// 1. struct config
	var st *ast.StructType
	for _, d := range f.Decls {
		gd, ok := d.(*ast.GenDecl)
		if !ok || gd.Tok != token.TYPE {
			continue
		}
		for _, sp := range gd.Specs {
			ts := sp.(*ast.TypeSpec)
			if ts.Name.Name == "config" {
				st, _ = ts.Type.(*ast.StructType)
			}
		}
	}
	if st == nil {
		return "", fmt.Errorf("type config struct not found")
	}
	var fields []cfField
	for _, fl := range st.Fields.List {
		id, ok := fl.Type.(*ast.Ident)
		if !ok {
			return "", fmt.Errorf("config field of unsupported type %T", fl.Type)
		}
		switch id.Name {
		case "bool", "int", "float64", "string":
		default:
			return "", fmt.Errorf("config field of unsupported type %s", id.Name)
		}
		if len(fl.Names) == 0 {
			return "", fmt.Errorf("embedded field in config")
		}
		tag := ""
		if fl.Tag != nil {
			t, err := strconv.Unquote(fl.Tag.Value)
			if err != nil {
				return "", err
			}
			tag = reflect.StructTag(t).Get("json")
		}
		for _, n := range fl.Names {
			if tag == "" {
				return "", fmt.Errorf("config field %s has no json tag", n.Name)
			}
			parts := strings.Split(tag, ",")
			c := cfField{goName: n.Name, goType: id.Name, jsonName: parts[0]}
			for _, p := range parts[1:] {
				switch p {
				case "omitempty":
					c.omitempty = true
				default:
					return "", fmt.Errorf("config field %s: unsupported json option %q", n.Name, p)
				}
			}
			if c.jsonName == "" {
				return "", fmt.Errorf("config field %s: empty json name", n.Name)
			}
			fields = append(fields, c)
		}
	}
	// 2. tables of init()
	notSaved, err := cfStringMap(f, "notSaved")
	if err != nil {
		return "", err
	}
	urlparam, err := cfStringMap(f, "urlparam")
	if err != nil {
		return "", err
	}
	choices, err := cfStringListMap(f, "choices")
	if err != nil {
		return "", err
	}
	// 3. defaultConfig()
	defaults := map[string]ast.Expr{}
	dc := cfFuncDecl(f, "defaultConfig", false)
	if dc == nil || dc.Body == nil || len(dc.Body.List) != 1 {
		return "", fmt.Errorf("defaultConfig: unrecognised shape")
	}
	ret, ok := dc.Body.List[0].(*ast.ReturnStmt)
	if !ok || len(ret.Results) != 1 {
		return "", fmt.Errorf("defaultConfig: unrecognised shape")
	}
	dcl, ok := ret.Results[0].(*ast.CompositeLit)
	if !ok {
		return "", fmt.Errorf("defaultConfig: does not return a composite literal")
	}
	for _, el := range dcl.Elts {
		kv, ok := el.(*ast.KeyValueExpr)
		if !ok {
			return "", fmt.Errorf("defaultConfig: positional literal")
		}
		k, ok := kv.Key.(*ast.Ident)
		if !ok {
			return "", fmt.Errorf("defaultConfig: key is not a field name")
		}
		defaults[k.Name] = kv.Value
	}
	// 4. resetTransient(): cfg.X = current.X
	var transient []string
	rt := cfFuncDecl(f, "resetTransient", true)
	if rt == nil || rt.Body == nil {
		return "", fmt.Errorf("resetTransient not found")
	}
	ast.Inspect(rt.Body, func(n ast.Node) bool {
		if as, ok := n.(*ast.AssignStmt); ok {
			for _, l := range as.Lhs {
				if se, ok := l.(*ast.SelectorExpr); ok {
					transient = append(transient, se.Sel.Name)
				}
			}
		}
		return true
	})
	sort.Strings(transient)
	// 5. settings.go: decode base and lock
	_, sf, err := parseFile(e, "internal/driver/settings.go")
	if err != nil {
		return "", err
	}
	rs := cfFuncDecl(sf, "readSettings", false)
	if rs == nil {
		return "", fmt.Errorf("readSettings not found")
	}
	zeroBase, callsReset := false, false
	ast.Inspect(rs.Body, func(n ast.Node) bool {
		switch x := n.(type) {
		case *ast.CompositeLit:
			if id, ok := x.Type.(*ast.Ident); ok && id.Name == "settings" && len(x.Elts) == 0 {
				zeroBase = true
			}
		case *ast.CallExpr:
			if se, ok := x.Fun.(*ast.SelectorExpr); ok && se.Sel.Name == "resetTransient" {
				callsReset = true
			}
		}
		return true
	})
	locked := false
	if es := cfFuncDecl(sf, "editSettings", false); es != nil && es.Body != nil {
		ast.Inspect(es.Body, func(n ast.Node) bool {
			if c, ok := n.(*ast.CallExpr); ok {
				if se, ok := c.Fun.(*ast.SelectorExpr); ok && se.Sel.Name == "Lock" {
					locked = true
				}
			}
			return true
		})
	}

	var b strings.Builder
	b.WriteString("import PprofVerif.Model.SettingsTypes\n")
	b.WriteString("/-! REGENERATED by tools/extract/configfields.go from internal/driver/config.go and settings.go — do not edit. -/\n")
	b.WriteString("namespace PV.Gen.ConfigFields\nopen PV.Settings\n\n")
	b.WriteString("/-- `configFields` of config.go, in struct order (fields without a variable name are not configurable and omitted). -/\n")
	b.WriteString("def fields : List FieldSpec := [\n")
	first := true
	n := 0
	for _, c := range fields {
		name, saved := c.jsonName, true
		if c.jsonName == "-" {
			saved = false
			name = notSaved[c.goName]
			if name == "" {
				continue // not a configurable field
			}
		}
		kind := map[string]string{"bool": ".bool", "int": ".int", "float64": ".float", "string": ".string"}[c.goType]
		ch := choices[name]
		if len(ch) > 0 {
			if c.goType != "string" {
				return "", fmt.Errorf("choices on non-string field %s", c.goName)
			}
			kind = ".choice"
		}
		def := cfZero(c.goType)
		if d, ok := defaults[c.goName]; ok {
			if def, err = cfDefault(c.goType, d); err != nil {
				return "", fmt.Errorf("defaultConfig.%s: %v", c.goName, err)
			}
		}
		var chs []string
		for _, s := range ch {
			chs = append(chs, "b!"+leanStr(s))
		}
		if !first {
			b.WriteString(",\n")
		}
		first = false
		n++
		fmt.Fprintf(&b, "  { goName := %s, name := b!%s, saved := %v, omitempty := %v, urlparam := b!%s, kind := %s,\n    choices := [%s], default := %s }",
			leanStr(c.goName), leanStr(name), saved, saved && c.omitempty, leanStr(urlparam[name]), kind, strings.Join(chs, ", "), def)
	}
	b.WriteString("\n]\n\n")
	if n == 0 {
		return "", fmt.Errorf("no configurable fields found")
	}
	// keys of the tables that name no field would be silently ignored by config.go: report them
	known := map[string]bool{}
	for _, c := range fields {
		if c.jsonName != "-" {
			known[c.jsonName] = true
		} else if notSaved[c.goName] != "" {
			known[notSaved[c.goName]] = true
		}
	}
	var orphan []string
	for k := range urlparam {
		if !known[k] {
			orphan = append(orphan, k)
		}
	}
	sort.Strings(orphan)
	var os []string
	for _, k := range orphan {
		os = append(os, leanStr(k))
	}
	fmt.Fprintf(&b, "/-- keys of the `urlparam` map that name no field (config.go ignores them silently). -/\ndef orphanURLParams : List String := [%s]\n\n", strings.Join(os, ", "))
	var ts []string
	for _, t := range transient {
		ts = append(ts, leanStr(t))
	}
	fmt.Fprintf(&b, "/-- struct fields overwritten by `resetTransient` after a load. -/\ndef transient : List String := [%s]\n\n", strings.Join(ts, ", "))
	fmt.Fprintf(&b, "/-- `readSettings` unmarshals into a zero-valued `settings{}` and then calls `resetTransient`. -/\ndef decodeFromZero : Bool := %v\ndef loadResetsTransient : Bool := %v\n\n", zeroBase, callsReset)
	fmt.Fprintf(&b, "/-- (informational) `editSettings` calls a `Lock()` method. -/\ndef editSettingsTakesLock : Bool := %v\n\n", locked)
	b.WriteString("end PV.Gen.ConfigFields\n")
	return b.String(), nil
}
