#!/usr/bin/env python3
"""Regenerates MANIFEST.json from checks.json (one entry per claimed property)."""
import json, os
V = os.path.dirname(os.path.dirname(os.path.abspath(__file__)))
import glob
ready = set(open(os.path.join(V, "checks", "READY")).read().split())
checks = {os.path.basename(f)[:-5]: json.load(open(f)) for f in glob.glob(os.path.join(V, "checks", "C*.json")) if os.path.basename(f)[:-5] in ready}
props = [json.loads(l) for l in open(os.path.join(V, "properties.jsonl"))]
m = {
 "version": 1,
 "setup_cmd": "bin/setup",
 "hooks": {
  "guard": "verif",
  "enable": "no hook files live in /repo: the harness sources /verif/harness/*.go carry //go:build verif and are compiled INTO the module with `go build -tags verif -overlay /verif/.build/overlay.json ./internal/zzverif` (virtual directory); /repo's tree is compiled as it is",
  "baseline_off_cmd": "cd /repo && GOFLAGS=-mod=mod GOPROXY=off GOSUMDB=off go test -vet=off -count=1 -timeout 25m ./... && cd browsertests && GOFLAGS=-mod=mod GOPROXY=off GOSUMDB=off go test -vet=off -count=1 -timeout 25m ./...",
  "source_commits": [],
  "add_only": True
 },
 "engines": [
  {"name": "lean-model", "path": "lean/", "serves_properties": sorted(checks), "kind_free_text": "Lean 4 model (PprofVerif/Model, Spec), property theorems (PprofVerif/Props), regenerated facts (PprofVerif/Gen), compiled line-protocol driver pvdrv"},
  {"name": "harness", "path": "harness/", "serves_properties": sorted(checks), "kind_free_text": "Go correspondence harness compiled into /repo's module by overlay; generators, canonical printers, direct oracles"},
  {"name": "extract", "path": "tools/extract/", "serves_properties": sorted(k for k in checks if checks[k].get("extract")), "kind_free_text": "go/ast fact extractor regenerating Gen/*.lean from /repo's current source"}
 ],
 "checks": [],
 "not_applicable": [],
 "notes": "Technique family: machine-checked proof in Lean 4 + checked model/code correspondence. See DESIGN.md."
}
for p in props:
    pid = p["id"]
    if pid in checks:
        c = checks[pid]
        m["checks"].append({
            "property_id": pid,
            "quick_cmd": "bin/check %s --tier quick" % pid,
            "thorough_cmd": "bin/check %s --tier thorough" % pid,
            "evidence_file": "evidence/%s.json" % pid,
            "replay_cmd_template": "bin/check %s --replay {path}" % pid,
            "engine": "lean-model+harness",
            "level_claimed": {"category": c.get("level", "proof"), "text": c["level_text"], "design_ref": "DESIGN.md §3 " + pid},
            "level_note": c["level_note"],
            "technique": c["technique"],
        })
    else:
        m["not_applicable"].append({"property_id": pid, "reason": "not claimed yet: the check for this property is still being built (the technique applies; see DESIGN.md §3 %s)" % pid})
json.dump(m, open(os.path.join(V, "MANIFEST.json"), "w"), indent=1, ensure_ascii=False)
print("claimed:", sorted(checks))
