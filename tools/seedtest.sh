#!/bin/bash
# tools/seedtest.sh <Cxx> <patch.diff> [worktree]  — apply a seeded change in a scratch worktree, run the
# quick check against it, restore the worktree. Prints the check's last lines; exit status = check's.
P=$1; PATCH=$(readlink -f "$2")
# a private worktree per invocation: concurrent callers (lead, builders) must not share one
WT=/tmp/seedwt-$P-$$; git -C /repo worktree add --detach "$WT" HEAD -q
trap 'git -C /repo worktree remove --force "$WT" 2>/dev/null' EXIT
git -C "$WT" checkout -q -- . && git -C "$WT" clean -fdq
git -C "$WT" checkout -q --detach $(git -C /repo rev-parse HEAD)
git -C "$WT" apply "$PATCH" || { echo "patch does not apply"; exit 2; }
out=$(cd /verif && VERIF_REPO="$WT" bin/check $P "${@:4}" 2>&1); rc=$?; echo "$out" | grep -aE "^VIOLATION|^  # C[0-9][0-9]/|^  # no longer|^check " | cut -c1-400 | head -40
git -C "$WT" checkout -q -- . && git -C "$WT" clean -fdq
exit $rc
