#!/bin/bash
# tools/coverage.sh [props...] — measure which /repo code the quick tier of the checks executes:
# builds each property's harness and pprof with `go build -cover`, runs the harness with GOCOVERDIR,
# merges, and prints per-package and per-function coverage (functions with 0% first).
cd "$(dirname "$0")/.."
export GOFLAGS=-mod=mod GOPROXY=off GOSUMDB=off GOTOOLCHAIN=local
props=${@:-$(cat checks/READY)}
COV=$PWD/.build/cover; rm -rf $COV; mkdir -p $COV/data
# the cover tool does not honour -overlay for the main package, so build from a scratch worktree of
# /repo's HEAD that really contains the harness files
WT=/tmp/covwt; [ -d $WT ] || git -C /repo worktree add --detach $WT HEAD -q
git -C $WT checkout -q -- . ; git -C $WT clean -fdq; git -C $WT checkout -q --detach $(git -C /repo rev-parse HEAD)
for p in $props; do
  python3 bin/check $p --build-only >/dev/null 2>&1
  rm -rf $WT/internal/zzverif; mkdir -p $WT/internal/zzverif
  python3 - $p $WT <<'PY'
import json,sys,shutil,os
p,wt=sys.argv[1],sys.argv[2]
ov=json.load(open('/verif/.build/overlay-%s.json'%p))
for dst,src in ov["Replace"].items(): shutil.copy(src, os.path.join(wt,'internal/zzverif',os.path.basename(dst)))
PY
  (cd $WT && go build -cover -coverpkg=./... -tags verif -o $COV/pvh-$p ./internal/zzverif && go build -cover -coverpkg=./... -o $COV/pprof-$p .) 2>&1 | grep -v "^warning" || true
  [ -x $COV/pvh-$p ] || { echo "cover build failed for $p"; continue; }
  (cd lean && flock ../.build/lake.lock lake build pvdrv-$p >/dev/null 2>&1)
  w=$COV/work-$p; mkdir -p $w $COV/data/$p
  (cd $w && GOCOVERDIR=$COV/data/$p VERIF_DIR=/verif VERIF_REPO=/repo timeout 900 $COV/pvh-$p -prop $p -tier quick -seed 1 -dir $COV/replays-$p -out $COV/result-$p.json -pprof $COV/pprof-$p -corpus /verif/corpus/$p -drv /verif/lean/.lake/build/bin/pvdrv-$p >/dev/null 2>&1)
  echo "$p done: $(ls $COV/data/$p | wc -l) cover files"
done
rm -rf $WT/internal/zzverif
dirs=$(ls -d $COV/data/* | tr '\n' ',' | sed 's/,$//')
go tool covdata percent -i=$dirs | grep -v zzverif > $COV/percent.txt
go tool covdata textfmt -i=$dirs -o $COV/cover-all.txt
grep -v zzverif $COV/cover-all.txt > $COV/cover.txt
(cd /repo && go tool cover -func=$COV/cover.txt | grep -v zzverif > $COV/func.txt)
cat $COV/percent.txt
echo "--- functions never executed by any check:"
awk '$NF=="0.0%"' $COV/func.txt | wc -l
