#!/usr/bin/env python3
"""tools/seed_confirm.py <Cxx> <srcdir> <name> [worktree]
Confirms a seeded change independently and files it under /verif/seeded/<name>/:
  1. pristine worktree: demo passes;  2. patch applied: go build + full existing suite pass;
  3. patch applied: demo fails;  4. our quick check against the patched tree: VIOLATION or not.
Writes meta.json (the agent's own meta + 'confirmed' block with what was run)."""
import json, os, shutil, subprocess, sys
prop, src, name = sys.argv[1], os.path.abspath(sys.argv[2]), sys.argv[3]
wt = "/tmp/seedwt-%s-%d" % (prop, os.getpid())  # private worktree per invocation
env = dict(os.environ, GOFLAGS="-mod=mod", GOPROXY="off", GOSUMDB="off", GOTOOLCHAIN="local")
def sh(cmd, cwd=None, timeout=1800):
    p = subprocess.run(cmd, shell=True, cwd=cwd, env=env, stdout=subprocess.PIPE, stderr=subprocess.STDOUT, text=True, timeout=timeout)
    return p.returncode, p.stdout
if not os.path.isdir(wt):
    sh("git -C /repo worktree add --detach %s HEAD -q" % wt)
def pristine():
    sh("git checkout -q -- . && git clean -fdq", cwd=wt)
pristine()
sh("git checkout -q --detach $(git -C /repo rev-parse HEAD)", cwd=wt)  # always test against /repo's current HEAD
ran = []
rc, out = sh("bash %s/demo.sh %s" % (src, wt)); ran.append({"cmd": "demo.sh on pristine tree", "rc": rc, "tail": out[-400:]})
demo_pass_without = rc == 0
pristine()
rc, out = sh("git apply %s/patch.diff" % src, cwd=wt); ran.append({"cmd": "git apply patch.diff", "rc": rc})
applies = rc == 0
rc, out = sh("go build ./... && go test -vet=off -count=1 ./... 2>&1 | tail -20 && (cd browsertests && go build ./... )", cwd=wt)
suite_ok = rc == 0 and "FAIL" not in out
ran.append({"cmd": "go build ./... && go test -vet=off -count=1 ./... (patched, without demo)", "rc": rc, "tail": out[-600:]})
rc, out = sh("bash %s/demo.sh %s" % (src, wt)); ran.append({"cmd": "demo.sh on patched tree", "rc": rc, "tail": out[-600:]})
demo_fails_with = rc != 0
sh("git clean -fdq", cwd=wt)  # remove demo files, keep patch
rc, out = sh("VERIF_REPO=%s bin/check %s" % (wt, prop), cwd="/verif")
caught = "VIOLATION property=%s" % prop in out
ran.append({"cmd": "VERIF_REPO=<patched worktree> bin/check %s" % prop, "rc": rc, "tail": out[-1500:]})
pristine()
meta = {}
try: meta = json.load(open(os.path.join(src, "meta.json")))
except Exception as e: meta = {"note": "agent meta.json unreadable: %s" % e}
meta["property"] = prop
meta["confirmed"] = {"applies": applies, "suite_passes_with_patch": suite_ok, "demo_passes_without_patch": demo_pass_without,
                     "demo_fails_with_patch": demo_fails_with, "caught_by_quick_check": caught, "ran": ran}
ok = applies and suite_ok and demo_pass_without and demo_fails_with
print(json.dumps({k: v for k, v in meta["confirmed"].items() if k != "ran"}), "KEEP" if ok else "REJECT")
if ok:
    dst = os.path.join("/verif/seeded", name)
    os.makedirs(dst, exist_ok=True)
    for f in os.listdir(src):
        if f == "meta.json": continue
        if os.path.isdir(os.path.join(src, f)): shutil.copytree(os.path.join(src, f), os.path.join(dst, f), dirs_exist_ok=True)
        else: shutil.copy(os.path.join(src, f), dst)
    json.dump(meta, open(os.path.join(dst, "meta.json"), "w"), indent=1)
subprocess.run("git -C /repo worktree remove --force %s" % wt, shell=True)
