//go:build verif

package main

// C15 — unit conversion and value formatting preserve magnitude.
//
// Every case (1) runs the real code of internal/measurement under recover, (2) evaluates the
// property's own statement on the observable result, taking the MEANING of a unit string from the
// hand-written Lean dictionary Spec/Units.lean (driver ops c15.spec / c15.recognise) — never from
// the table under test — and (3) compares with the Lean model Model/Measure.lean, which runs over
// the table regenerated from /repo (Gen/Units.lean).  Floats are never compared exactly unless
// IEEE arithmetic makes the result exact (see c15CheckValue).

import (
	"encoding/hex"
	"fmt"
	"math"
	"math/big"
	"regexp"
	"sort"
	"strconv"
	"strings"

	"github.com/google/pprof/internal/measurement"
	"github.com/google/pprof/profile"
)

func init() { register("C15", runC15) }

// ---------------------------------------------------------------------------------------------
// replay format

type c15VT struct {
	Type string `json:"type"` // hex
	Unit string `json:"unit"` // hex
	Text string `json:"text,omitempty"`
}

type c15Prof struct {
	Period     int64     `json:"period"`
	PeriodType *c15VT    `json:"period_type,omitempty"`
	SampleType []c15VT   `json:"sample_type"`
	Samples    [][]int64 `json:"samples"`
}

type c15Case struct {
	Kind     string    `json:"kind"` // scale | mono | pct | common | sp
	V        int64     `json:"v,omitempty"`
	V2       int64     `json:"v2,omitempty"`
	From     string    `json:"from,omitempty"` // hex of the bytes of the unit string
	To       string    `json:"to,omitempty"`   // hex
	Text     string    `json:"text,omitempty"` // human-readable rendering, not used by the replay
	Types    []c15VT   `json:"types,omitempty"`
	Profiles []c15Prof `json:"profiles,omitempty"`
	Stream   string    `json:"stream,omitempty"`
	Values   []int64   `json:"values,omitempty"` // kind cli: one function per value
	Rpt      *c15Rpt   `json:"rpt,omitempty"`    // kind rpt: report-level label case
	Tags     []c15Tag  `json:"tags,omitempty"`   // kind nodelets: numeric tags of one graph node
}

func c15hex(s string) string { return hex.EncodeToString([]byte(s)) }
func c15unhex(s string) string {
	b, _ := hex.DecodeString(s)
	return string(b)
}
func c15tok(s string) string { return "x" + hex.EncodeToString([]byte(s)) }

func c15safely(f func()) (panicked string) {
	defer func() {
		if e := recover(); e != nil {
			panicked = fmt.Sprint(e)
		}
	}()
	f()
	return ""
}

func c15trunc(s string) string {
	if len(s) > 160 {
		return s[:160] + "…"
	}
	return s
}

// ---------------------------------------------------------------------------------------------
// the spec dictionary (from Lean) and the regenerated table (as the model sees it)

type c15Unit struct {
	display string
	names   []string
	f       *big.Rat // size relative to the family's reference unit
}

type c15Family struct {
	def     string
	units   []c15Unit
	integer bool // every factor is an integer
}

type c15State struct {
	c      *Ctx
	spec   []c15Family
	table  []c15Family // Gen table (names = aliases, def = default unit's canonical name)
	rec    map[string]*c15Rec
	alive  bool
	noteNA bool
}

// c15Rec is what the spec says a (lower-cased) string denotes.
type c15Rec struct {
	known   bool
	fam     int
	display string
	f       *big.Rat
	name    string // the spec name that matched (for signatures)
}

type c15tr struct {
	toks []string
	pos  int
	bad  bool
}

func (r *c15tr) tok() string {
	if r.pos >= len(r.toks) {
		r.bad = true
		return "0"
	}
	t := r.toks[r.pos]
	r.pos++
	return t
}
func (r *c15tr) n() int {
	v, err := strconv.Atoi(r.tok())
	if err != nil || v < 0 || v > 1<<20 {
		r.bad = true
		return 0
	}
	return v
}
func (r *c15tr) big() *big.Int {
	v, ok := new(big.Int).SetString(r.tok(), 10)
	if !ok {
		r.bad = true
		return big.NewInt(0)
	}
	return v
}
func (r *c15tr) str() string {
	t := r.tok()
	if !strings.HasPrefix(t, "x") {
		r.bad = true
		return ""
	}
	b, err := hex.DecodeString(t[1:])
	if err != nil {
		r.bad = true
	}
	return string(b)
}

// rat reads `num den`; ok=false when den = 0 (the model's "division by zero").
func (r *c15tr) rat() (*big.Rat, bool) {
	n, d := r.big(), r.big()
	if d.Sign() == 0 {
		return new(big.Rat), false
	}
	return new(big.Rat).SetFrac(n, d), true
}

func c15parseFamilies(s string, withName bool) ([]c15Family, bool) {
	r := &c15tr{toks: strings.Fields(s)}
	unit := func() c15Unit {
		var u c15Unit
		u.display = r.str()
		for k, n := 0, r.n(); k < n && !r.bad; k++ {
			u.names = append(u.names, r.str())
		}
		f, ok := r.rat()
		if !ok {
			r.bad = true
		}
		u.f = f
		return u
	}
	var fams []c15Family
	for i, n := 0, r.n(); i < n && !r.bad; i++ {
		var f c15Family
		if withName {
			r.str() // family name
			f.def = unit().display
		} else {
			f.def = r.str()
		}
		f.integer = true
		for k, m := 0, r.n(); k < m && !r.bad; k++ {
			u := unit()
			if !u.f.IsInt() {
				f.integer = false
			}
			f.units = append(f.units, u)
		}
		fams = append(fams, f)
	}
	return fams, !r.bad && r.pos == len(r.toks) && len(fams) > 0
}

func c15Init(c *Ctx) *c15State {
	st := &c15State{c: c, rec: map[string]*c15Rec{}}
	sp, ok1 := c15parseFamilies(c.Drv.Ask("c15.spec"), false)
	tb, ok2 := c15parseFamilies(c.Drv.Ask("c15.table"), true)
	if !ok1 || !ok2 {
		c.Disagree("C15/driver-unavailable", "the Lean model driver pvdrv-C15 is not available (spec dictionary / regenerated table cannot be read), so neither the oracle nor the correspondence can be evaluated", "build of the model over the regenerated unit table (Gen/Units.lean)", c15Case{Kind: "none"})
		return st
	}
	st.spec, st.table, st.alive = sp, tb, true
	return st
}

// asciiLower is the model's / the spec's lower-casing.
func c15asciiLower(s string) string {
	b := []byte(s)
	for i, x := range b {
		if 'A' <= x && x <= 'Z' {
			b[i] = x + 32
		}
	}
	return string(b)
}

// modelDomain: the Lean model lower-cases ASCII only; it is asked only where Go agrees.
func c15modelDomain(ss ...string) bool {
	for _, s := range ss {
		if strings.ToLower(s) != c15asciiLower(s) {
			return false
		}
	}
	return true
}

// recognise asks the SPEC what unit a string denotes.  Case-insensitivity is Go's
// strings.ToLower (trusted); the spec is asked about the lower-cased string.
func (st *c15State) recognise(s string) *c15Rec {
	l := strings.ToLower(s)
	if r, ok := st.rec[s]; ok {
		return r
	}
	rep := st.c.Drv.Ask("c15.recognise " + c15tok(s) + " " + c15tok(l))
	r := &c15Rec{}
	t := &c15tr{toks: strings.Fields(rep)}
	if t.tok() == "1" {
		r.known = true
		r.fam = t.n()
		r.display = t.str()
		f, ok := t.rat()
		r.f = f
		if t.bad || !ok || r.fam >= len(st.spec) {
			r = &c15Rec{}
		} else {
			// which name matched (for signatures)
			for _, u := range st.spec[r.fam].units {
				for _, n := range u.names {
					if l == n || (len(n) >= 2 && l == n+"s") {
						r.name = n
					}
				}
				if s == u.display && r.name == "" {
					r.name = u.display // the printed name, matched exactly
				}
			}
		}
	}
	st.rec[s] = r
	return r
}

// ---------------------------------------------------------------------------------------------
// numeric comparison

var c15two53 = new(big.Int).Lsh(big.NewInt(1), 53)
var c15tol = new(big.Rat).SetFrac(big.NewInt(1), new(big.Int).Lsh(big.NewInt(1), 50)) // 2^-50

func c15abs(r *big.Rat) *big.Rat { return new(big.Rat).Abs(r) }

func c15ratOfFloat(g float64) (*big.Rat, bool) {
	if math.IsInf(g, 0) || math.IsNaN(g) {
		return nil, false
	}
	return new(big.Rat).SetFloat64(g), true
}

// within: |g - R| <= |R|*rel + abs
func c15within(g float64, R, rel, abs *big.Rat) bool {
	gr, ok := c15ratOfFloat(g)
	if !ok {
		return false
	}
	d := c15abs(new(big.Rat).Sub(gr, R))
	lim := new(big.Rat).Mul(c15abs(R), rel)
	if abs != nil {
		lim.Add(lim, abs)
	}
	return d.Cmp(lim) <= 0
}

func c15absLE53(r *big.Rat) bool {
	if !r.IsInt() {
		return false
	}
	return new(big.Int).Abs(r.Num()).Cmp(c15two53) <= 0
}

// exactRegime: every intermediate of float64(v)*from.Factor is an integer of magnitude <= 2^53
// and all factors of the family are integers, so the Go arithmetic up to the final division is exact.
func c15exactRegime(fam *c15Family, v int64, sf *big.Rat) bool {
	if !fam.integer {
		return false
	}
	vr := new(big.Rat).SetInt64(v)
	return c15absLE53(vr) && c15absLE53(new(big.Rat).Mul(vr, sf))
}

// checkValue: the Go value g against the exact rational R.  When the arithmetic is exact and R is
// a float64, g must BE R; otherwise relative 2^-50.
func c15CheckValue(g float64, R *big.Rat, exact bool) (ok bool, how string) {
	if exact {
		if f, isExact := R.Float64(); isExact {
			return g == f, "exactly"
		}
	}
	return c15within(g, R, c15tol, nil), "within relative 2^-50"
}

// ---------------------------------------------------------------------------------------------
// Scale / ScaledLabel / Label

var c15skip = map[string]bool{"count": true, "sample": true, "unit": true, "minimum": true, "auto": true}

func c15passUnit(to string) string {
	if c15skip[to] {
		return ""
	}
	return to
}

func c15minInt(v int64) bool { return v == math.MinInt64 }

type c15ScaleObs struct {
	x     float64
	u     string
	label string
	panic string
}

func c15RunScale(v int64, from, to string) c15ScaleObs {
	var o c15ScaleObs
	o.panic = c15safely(func() {
		o.x, o.u = measurement.Scale(v, from, to)
		o.label = measurement.ScaledLabel(v, from, to)
	})
	return o
}

// acceptableAuto: display names of the units automatic selection may pick for magnitude |v|*sf,
// by the property: the largest unit keeping the magnitude >= 1, the family default when there is
// none.  tau > 0 widens the comparison with 1 where float rounding can decide either way.
func (st *c15State) acceptableAuto(fam *c15Family, v int64, sf *big.Rat, exact bool) map[string]*big.Rat {
	return st.acceptableAutoM(fam, c15abs(new(big.Rat).Mul(new(big.Rat).SetInt64(v), sf)), exact)
}

// acceptableAutoM: the same for a magnitude M (in reference units of the family).
func (st *c15State) acceptableAutoM(fam *c15Family, M *big.Rat, exact bool) map[string]*big.Rat {
	one := big.NewRat(1, 1)
	lo, hi := new(big.Rat).Set(one), new(big.Rat).Set(one)
	if !exact {
		lo.Sub(one, c15tol)
		hi.Add(one, c15tol)
	}
	acc := map[string]*big.Rat{}
	any := false
	for _, u := range fam.units {
		rho := new(big.Rat).Quo(M, u.f)
		if rho.Cmp(lo) < 0 {
			continue
		}
		ok := true
		for _, w := range fam.units {
			if w.f.Cmp(u.f) > 0 && new(big.Rat).Quo(M, w.f).Cmp(hi) >= 0 {
				ok = false
			}
		}
		if ok {
			acc[u.display] = u.f
			any = true
		}
	}
	// default unit when no unit keeps the magnitude >= 1
	noneGE := true
	for _, u := range fam.units {
		if new(big.Rat).Quo(M, u.f).Cmp(hi) >= 0 {
			noneGE = false
		}
	}
	if noneGE || !any {
		// which unit of the family is used then is not promised by the property (pprof uses the
		// family's default unit); the value check still demands the exact magnitude in it
		for _, u := range fam.units {
			acc[u.display] = u.f
		}
	}
	return acc
}

func (st *c15State) unitByDisplay(fam *c15Family, d string) *c15Unit {
	for i := range fam.units {
		if fam.units[i].display == d {
			return &fam.units[i]
		}
	}
	return nil
}

func c15valClass(v int64) string {
	switch {
	case v == 0:
		return "zero"
	case v == math.MinInt64:
		return "minint64"
	case v == math.MaxInt64 || v == math.MinInt64+1:
		return "extreme"
	case v == 1 || v == -1:
		return "one"
	case v > 1<<53 || v < -(1<<53):
		return "beyond-2^53"
	case v < 0:
		return "negative"
	}
	return "positive"
}

var c15labelNum = regexp.MustCompile(`^-?[0-9]+(\.[0-9][0-9])?$`)

// c15Scale evaluates one (value, from, to) case.  Returns whether it was non-trivial.
func (st *c15State) scaleCase(cs c15Case) bool {
	c := st.c
	v, from, to := cs.V, c15unhex(cs.From), c15unhex(cs.To)
	cs.Text = fmt.Sprintf("Scale(%d, %q, %q)", v, from, to)
	o := c15RunScale(v, from, to)
	if o.panic != "" {
		c.Violation("C15/scale/panic", cs.Text+" panics: "+o.panic, cs)
		return false
	}
	rf, rt := st.recognise(from), st.recognise(to)
	isAuto := to == "auto" || to == "minimum"
	fv := float64(v)
	failed := false
	viol := func(sig, what string) {
		failed = true
		c.Violation(sig, fmt.Sprintf("%s = (%v, %q): %s", cs.Text, o.x, o.u, what), cs)
	}

	var expUnit string // the unit Go's result is judged against
	var expR *big.Rat  // exact expected value in that unit
	exact := false
	if !rf.known {
		// unknown source unit: factor 1, value unchanged, target string passed through
		c.Res.Hit("from:unknown")
		expUnit, expR, exact = c15passUnit(to), new(big.Rat).SetInt64(v), true
		if o.x != fv || o.u != expUnit {
			if o.u != expUnit {
				viol("C15/scale/unknown-unit-treated-as-known", fmt.Sprintf("%q is not a unit name, so the value must come back unchanged with unit %q", from, expUnit))
			} else {
				viol("C15/scale/unknown-unit/value-changed", "the source unit is unknown, the value must be unchanged")
			}
		}
	} else {
		fam := &st.spec[rf.fam]
		c.Res.Hit("from:family-" + fam.def)
		exact = c15exactRegime(fam, v, rf.f)
		vr := new(big.Rat).SetInt64(v)
		m := new(big.Rat).Mul(vr, rf.f)
		accept := map[string]*big.Rat{}
		mode := ""
		switch {
		case isAuto:
			mode = "auto"
			accept = st.acceptableAuto(fam, v, rf.f, exact)
		case rt.known && rt.fam == rf.fam:
			mode = "same-family"
			accept[rt.display] = rt.f
		default:
			if rt.known {
				mode = "other-family"
			} else {
				mode = "unknown-target"
			}
			// the result must stay in the source's family; which of its units is used for a target
			// outside the family (pprof: the family's default unit) is not promised by the property
			for _, u := range fam.units {
				accept[u.display] = u.f
			}
		}
		c.Res.Hit("target:" + mode)
		uf, okU := accept[o.u]
		if !okU {
			var want []string
			for k := range accept {
				want = append(want, k)
			}
			sort.Strings(want)
			wantS := strings.Join(want, "|")
			// classify
			switch {
			case o.x == fv && o.u == c15passUnit(to):
				viol("C15/sniffUnit/unrecognised-spelling/"+rf.name, fmt.Sprintf("%q is a spelling of the unit name %q (%s) but was treated as an unknown unit; expected unit %s", from, rf.name, rf.display, wantS))
			case mode == "same-family" && st.unitByDisplay(fam, o.u) != nil && c15within(o.x, new(big.Rat).Quo(m, st.unitByDisplay(fam, o.u).f), c15tol, nil):
				viol("C15/sniffUnit/unrecognised-spelling/"+rt.name, fmt.Sprintf("target %q is a spelling of the unit name %q (%s) but was treated as unknown (result given in the default unit)", to, rt.name, rt.display))
			case mode == "auto" && st.unitByDisplay(fam, o.u) != nil:
				sig := "C15/scale/auto/unit-not-largest-keeping-magnitude>=1"
				if c15minInt(v) {
					sig += "/minint64"
				}
				viol(sig, fmt.Sprintf("automatic selection must pick %s", wantS))
			case st.unitByDisplay(fam, o.u) == nil:
				viol("C15/scale/crosses-family", fmt.Sprintf("the source unit is of the %s family; the result unit must be %s", fam.def, wantS))
			default:
				viol("C15/scale/"+mode+"/unit", fmt.Sprintf("expected unit %s", wantS))
			}
		} else {
			expUnit = o.u
			expR = new(big.Rat).Quo(m, uf)
			if ok, how := c15CheckValue(o.x, expR, exact); !ok {
				f, _ := expR.Float64()
				if o.x == fv && o.u == c15passUnit(to) {
					viol("C15/sniffUnit/unrecognised-spelling/"+rf.name, fmt.Sprintf("%q is a spelling of the unit name %q (%s) but was treated as an unknown unit (value unchanged); expected %s %v", from, rf.name, rf.display, how, f))
				} else {
					viol("C15/scale/"+mode+"/value", fmt.Sprintf("expected %s %v (value × %s / %s)", how, f, rf.f.RatString(), uf.RatString()))
				}
			}
		}
		// identity for equal units
		if mode == "same-family" && rt.display == rf.display && !failed {
			if ok, _ := c15CheckValue(o.x, vr, exact); !ok {
				viol("C15/scale/identity", "source and target are the same unit, the value must be unchanged")
			}
		}
	}

	// commutes with negation (exactly: the code negates the float)
	if v != math.MinInt64 && v != 0 {
		n := c15RunScale(-v, from, to)
		if n.panic != "" {
			c.Violation("C15/scale/panic", fmt.Sprintf("Scale(%d, %q, %q) panics: %s", -v, from, to, n.panic), cs)
		} else if n.x != -o.x || n.u != o.u {
			viol("C15/scale/negation", fmt.Sprintf("Scale(%d, …) = (%v, %q) is not the negation", -v, n.x, n.u))
		}
	}

	// the label: "<number rounded to 2 decimals><unit>", "0" for a value that rounds to zero
	st.labelCheck(cs, o, v, from, to, viol)

	// correspondence with the Lean model
	if c15modelDomain(from, to) {
		c.Res.ModelCompared++
		st.modelScale(cs, o, v, from, to, rf, exact, failed)
	} else {
		c.Res.Hit("model:skipped-non-ascii-case")
	}
	return rf.known
}

func (st *c15State) labelCheck(cs c15Case, o c15ScaleObs, v int64, from, to string, viol func(sig, what string)) {
	xr, ok := c15ratOfFloat(o.x)
	if !ok {
		viol("C15/scale/not-finite", "the scaled value is not finite")
		return
	}
	half := big.NewRat(5001, 1000000) // 0.005 (+ a hair: %.2f rounds the binary value)
	if to == "auto" {
		var l string
		if pn := c15safely(func() { l = measurement.Label(v, from) }); pn != "" || l != o.label {
			viol("C15/label/Label-differs-from-ScaledLabel-auto", fmt.Sprintf("Label = %q, ScaledLabel(…, auto) = %q %s", l, o.label, pn))
		}
	}
	if o.label == "0" {
		if c15abs(xr).Cmp(half) > 0 {
			viol("C15/label/zero-for-nonzero", fmt.Sprintf("label %q for a value of magnitude >= 0.005", o.label))
		}
		return
	}
	if !strings.HasSuffix(o.label, o.u) {
		viol("C15/label/unit", fmt.Sprintf("label %q does not end with the unit of Scale %q", o.label, o.u))
		return
	}
	num := o.label[:len(o.label)-len(o.u)]
	if !c15labelNum.MatchString(num) {
		viol("C15/label/format", fmt.Sprintf("label %q: %q is not a number with 0 or 2 decimals", o.label, num))
		return
	}
	nr, ok2 := new(big.Rat).SetString(num)
	if !ok2 {
		viol("C15/label/format", fmt.Sprintf("label %q: unparsable number", o.label))
		return
	}
	if c15abs(new(big.Rat).Sub(nr, xr)).Cmp(half) > 0 {
		viol("C15/label/rounding", fmt.Sprintf("label %q is not within display rounding (0.005) of the scaled value", o.label))
	}
	if nr.Sign() == 0 {
		viol("C15/label/zero-with-unit", fmt.Sprintf("label %q: a zero must be printed as \"0\"", o.label))
	}
}

func (st *c15State) modelScale(cs c15Case, o c15ScaleObs, v int64, from, to string, rf *c15Rec, exact, failed bool) {
	c := st.c
	rep := c.Drv.Ask(fmt.Sprintf("c15.scale %d %s %s", v, c15tok(from), c15tok(to)))
	t := &c15tr{toks: strings.Fields(rep)}
	mr, okq := t.rat()
	mu := t.str()
	if t.bad || !okq {
		if !failed {
			c.Disagree("C15/model-scale/bad-reply", "model reply: "+c15trunc(rep), "correspondence Measure.scale ~ measurement.Scale", cs)
		}
		return
	}
	if failed {
		return // the oracle already reported this case
	}
	if mu != o.u {
		// float rounding may pick the neighbouring unit exactly at a unit step when the arithmetic
		// is not exact; then both units must be acceptable, which the oracle above has checked
		// for Go's; accept the model's when the magnitudes agree
		if rf.known && (to == "auto" || to == "minimum") && !exact {
			fam := &st.spec[rf.fam]
			gu, mu2 := st.unitByDisplay(fam, o.u), st.unitByDisplay(fam, mu)
			if gu != nil && mu2 != nil && c15within(o.x, new(big.Rat).Mul(mr, new(big.Rat).Quo(mu2.f, gu.f)), new(big.Rat).Mul(c15tol, big.NewRat(4, 1)), nil) {
				c.Res.Hit("model:unit-step-ambiguous")
				return
			}
		}
		c.Disagree("C15/model-scale/unit", fmt.Sprintf("%s: Go unit %q, model unit %q", cs.Text, o.u, mu), "correspondence Measure.scale ~ measurement.Scale (unit)", cs)
		return
	}
	if ok, how := c15CheckValue(o.x, mr, exact || !rf.known); !ok {
		f, _ := mr.Float64()
		c.Disagree("C15/model-scale/value", fmt.Sprintf("%s: Go %v, model %s = %v (%s)", cs.Text, o.x, mr.RatString(), f, how), "correspondence Measure.scale ~ measurement.Scale (value)", cs)
		return
	}
	// label: model's rounded number vs Go's label
	rep = c.Drv.Ask(fmt.Sprintf("c15.label %d %s %s", v, c15tok(from), c15tok(to)))
	t = &c15tr{toks: strings.Fields(rep)}
	lr, okq := t.rat()
	lu := t.str()
	if t.bad || !okq {
		c.Disagree("C15/model-label/bad-reply", "model reply: "+c15trunc(rep), "correspondence Measure.label ~ measurement.ScaledLabel", cs)
		return
	}
	var gnum *big.Rat
	gunit := ""
	if o.label == "0" {
		gnum = new(big.Rat)
	} else if strings.HasSuffix(o.label, o.u) {
		gnum, _ = new(big.Rat).SetString(o.label[:len(o.label)-len(o.u)])
		gunit = o.u
	}
	if gnum == nil {
		return // format problems were reported by the oracle
	}
	// a tie (x.xx5) or a float ulp may move the printed number by one unit in the last place
	if c15abs(new(big.Rat).Sub(gnum, lr)).Cmp(new(big.Rat).Add(big.NewRat(1, 100), new(big.Rat).Mul(c15abs(lr), c15tol))) > 0 {
		c.Disagree("C15/model-label/number", fmt.Sprintf("%s: label %q, model number %s", cs.Text, o.label, lr.FloatString(2)), "correspondence Measure.label ~ measurement.ScaledLabel", cs)
	} else if gnum.Sign() != 0 && lr.Sign() != 0 && gunit != lu {
		c.Disagree("C15/model-label/unit", fmt.Sprintf("%s: label %q, model unit %q", cs.Text, o.label, lu), "correspondence Measure.label ~ measurement.ScaledLabel", cs)
	}
}

// labelMagnitude: the label read back with its unit, in reference units of the family.
func (st *c15State) labelMagnitude(fam *c15Family, v int64, from string) (*big.Rat, string, bool) {
	var l, u string
	if pn := c15safely(func() { l = measurement.Label(v, from); _, u = measurement.Scale(v, from, "auto") }); pn != "" {
		return nil, l, false
	}
	if l == "0" {
		return new(big.Rat), l, true
	}
	if !strings.HasSuffix(l, u) {
		return nil, l, false
	}
	n, ok := new(big.Rat).SetString(l[:len(l)-len(u)])
	un := st.unitByDisplay(fam, u)
	if !ok || un == nil {
		return nil, l, false
	}
	return n.Mul(n, un.f), l, true
}

// monoCase: labels are monotone in the value (read back with their unit).
func (st *c15State) monoCase(cs c15Case) bool {
	c := st.c
	from := c15unhex(cs.From)
	v1, v2 := cs.V, cs.V2
	if v1 > v2 {
		v1, v2 = v2, v1
	}
	rf := st.recognise(from)
	if !rf.known {
		return false
	}
	fam := &st.spec[rf.fam]
	m1, l1, ok1 := st.labelMagnitude(fam, v1, from)
	m2, l2, ok2 := st.labelMagnitude(fam, v2, from)
	cs.Text = fmt.Sprintf("Label(%d, %q) = %q, Label(%d, %q) = %q", v1, from, l1, v2, from, l2)
	if !ok1 || !ok2 {
		// a label that cannot be read back is reported by the scale cases; nothing to compare here
		c.Res.Hit("mono:unreadable-label")
		if len(c.Res.Notes) < 4 {
			c.Res.Notes = append(c.Res.Notes, "unreadable: "+cs.Text)
		}
		return true
	}
	// m1 <= m2 (+ relative 2^-40 for families whose factors are not exact doubles)
	slack := new(big.Rat)
	if !fam.integer {
		slack.Mul(c15abs(m2), new(big.Rat).SetFrac(big.NewInt(1), new(big.Int).Lsh(big.NewInt(1), 40)))
	}
	if m1.Cmp(new(big.Rat).Add(m2, slack)) > 0 {
		c.Violation("C15/label/not-monotone", cs.Text+": the smaller value has the larger label", cs)
	}
	// each label within display rounding of the original: |label − v·f| <= 0.005 unit (+ float)
	if c15modelDomain(from) {
		c.Res.ModelCompared++
		for _, v := range []int64{v1, v2} {
			o := c15RunScale(v, from, "auto")
			st.modelScale(c15Case{Kind: "scale", V: v, From: cs.From, To: c15hex("auto"), Text: fmt.Sprintf("Scale(%d, %q, auto)", v, from)}, o, v, from, "auto", rf, c15exactRegime(fam, v, rf.f), false)
		}
	}
	return true
}

// ---------------------------------------------------------------------------------------------
// Percentage

func (st *c15State) pctCase(cs c15Case) bool {
	c := st.c
	v, t := cs.V, cs.V2
	cs.Text = fmt.Sprintf("Percentage(%d, %d)", v, t)
	var s string
	if pn := c15safely(func() { s = measurement.Percentage(v, t) }); pn != "" {
		c.Violation("C15/percentage/panic", cs.Text+" panics: "+pn, cs)
		return false
	}
	failed := false
	viol := func(sig, what string) {
		failed = true
		c.Violation(sig, fmt.Sprintf("%s = %q: %s", cs.Text, s, what), cs)
	}
	R := new(big.Rat)
	if t != 0 {
		R.Quo(new(big.Rat).SetInt64(v), new(big.Rat).SetInt64(t))
		R.Abs(R)
		R.Mul(R, big.NewRat(100, 1))
	}
	if !strings.HasSuffix(s, "%") {
		viol("C15/percentage/format", "no % sign")
		return true
	}
	p, err := strconv.ParseFloat(strings.TrimSpace(strings.TrimSuffix(s, "%")), 64)
	if err != nil || math.IsNaN(p) || math.IsInf(p, 0) {
		viol("C15/percentage/format", "not a number")
		return true
	}
	if p < 0 || strings.HasPrefix(strings.TrimSpace(s), "-") {
		viol("C15/percentage/sign", "percentages are absolute ratios, never negative")
	}
	pr, _ := c15ratOfFloat(p)
	// class by the exact ratio; near a class boundary (float rounding of the division) either side
	near := func(b *big.Rat) bool {
		return c15abs(new(big.Rat).Sub(R, b)).Cmp(new(big.Rat).Mul(b, new(big.Rat).Mul(c15tol, big.NewRat(8, 1)))) <= 0
	}
	lo, hi, one := big.NewRat(9995, 100), big.NewRat(10005, 100), big.NewRat(1, 1)
	class := "short"
	switch {
	case R.Cmp(lo) >= 0 && R.Cmp(hi) <= 0:
		class = "hundred"
	case R.Cmp(one) >= 0:
		class = "fixed"
	}
	c.Res.Hit("pct:" + class)
	ambiguous := near(lo) || near(hi) || near(one)
	checkClass := func(cl string) bool {
		switch cl {
		case "hundred":
			return s == "  100%"
		case "fixed":
			// two decimals, within 0.005 (+float) of the ratio
			lim := new(big.Rat).Add(big.NewRat(5001, 1000000), new(big.Rat).Mul(R, c15tol))
			return c15abs(new(big.Rat).Sub(pr, R)).Cmp(lim) <= 0
		default:
			// two significant digits
			if R.Sign() == 0 {
				return p == 0
			}
			f, _ := R.Float64()
			e := math.Floor(math.Log10(f))
			lim := new(big.Rat).SetFloat64(0.5001 * math.Pow(10, e-1) * 1.0000001)
			if lim == nil {
				return false
			}
			// rounding may carry into the next decade (0.0999 -> 0.1)
			return c15abs(new(big.Rat).Sub(pr, R)).Cmp(lim) <= 0
		}
	}
	okc := checkClass(class)
	if !okc && ambiguous {
		for _, cl := range []string{"hundred", "fixed", "short"} {
			okc = okc || checkClass(cl)
		}
	}
	if !okc {
		f, _ := R.Float64()
		viol("C15/percentage/value/"+class, fmt.Sprintf("the absolute ratio is %v%%", f))
	}
	// sign-insensitive
	for _, alt := range [][2]int64{{-v, t}, {v, -t}, {-v, -t}} {
		if (v == math.MinInt64 && alt[0] != v) || (t == math.MinInt64 && alt[1] != t) {
			continue
		}
		var s2 string
		if pn := c15safely(func() { s2 = measurement.Percentage(alt[0], alt[1]) }); pn != "" || s2 != s {
			viol("C15/percentage/sign", fmt.Sprintf("Percentage(%d, %d) = %q differs %s", alt[0], alt[1], s2, pn))
			break
		}
	}
	// model
	c.Res.ModelCompared++
	rep := c.Drv.Ask(fmt.Sprintf("c15.pct %d %d", v, t))
	tk := &c15tr{toks: strings.Fields(rep)}
	mr, okq := tk.rat()
	mcl := tk.tok()
	if tk.bad || !okq {
		if !failed {
			c.Disagree("C15/model-pct/bad-reply", "model reply: "+c15trunc(rep), "correspondence Measure.percentage ~ measurement.Percentage", cs)
		}
		return t != 0
	}
	if !failed {
		if mr.Cmp(R) != 0 {
			c.Disagree("C15/model-pct/ratio", fmt.Sprintf("%s: model ratio %s, |v/t|*100 = %s", cs.Text, mr.RatString(), R.RatString()), "theorem percentage_abs / correspondence Measure.percentage", cs)
		} else if mcl != class {
			c.Disagree("C15/model-pct/class", fmt.Sprintf("%s: model class %s, expected %s", cs.Text, mcl, class), "correspondence Measure.percentage ~ measurement.Percentage", cs)
		}
	}
	return t != 0
}

// ---------------------------------------------------------------------------------------------
// CommonValueType / ScaleProfiles

func c15trimS(s string) string { return strings.TrimSuffix(s, "s") }

// goKnows: does the real code treat the string as a unit name?  (a known source unit converted to
// an unknown target comes back with its family's default unit, an unknown one with unit "")
func c15goKnows(u string) bool {
	var unit string
	c15safely(func() { _, unit = measurement.Scale(1, u, "") })
	return unit != ""
}

// unrecognised: a unit string of the case that the spec knows and the real code does not.
func (st *c15State) unrecognised(units []string) (name, spelling string) {
	for _, u := range units {
		if r := st.recognise(u); r.known && !c15goKnows(u) {
			return r.name, u
		}
	}
	return "", ""
}

// specCompatible: the property's notion of compatible value types: same type up to a plural s and
// either the very same unit string or two units of one family.
func (st *c15State) specCompatible(a, b c15VT) bool {
	if c15trimS(c15unhex(a.Type)) != c15trimS(c15unhex(b.Type)) {
		return false
	}
	ua, ub := c15unhex(a.Unit), c15unhex(b.Unit)
	if ua == ub {
		return true
	}
	ra, rb := st.recognise(ua), st.recognise(ub)
	return ra.known && rb.known && ra.fam == rb.fam
}

// physical size of a unit string (1 for unknown units)
func (st *c15State) phys(u string) *big.Rat {
	if r := st.recognise(u); r.known {
		return r.f
	}
	return big.NewRat(1, 1)
}

func c15vtText(ts []c15VT) string {
	var b []string
	for _, t := range ts {
		b = append(b, fmt.Sprintf("%q/%q", c15unhex(t.Type), c15unhex(t.Unit)))
	}
	return strings.Join(b, " ")
}

func c15vtToks(ts []c15VT) string {
	var b strings.Builder
	fmt.Fprintf(&b, "%d", len(ts))
	for _, t := range ts {
		b.WriteString(" x" + t.Type + " x" + t.Unit)
	}
	return b.String()
}

func (st *c15State) commonCase(cs c15Case) bool {
	c := st.c
	cs.Text = "CommonValueType(" + c15vtText(cs.Types) + ")"
	var ts []*profile.ValueType
	for _, t := range cs.Types {
		ts = append(ts, &profile.ValueType{Type: c15unhex(t.Type), Unit: c15unhex(t.Unit)})
	}
	var res *profile.ValueType
	var err error
	if pn := c15safely(func() { res, err = measurement.CommonValueType(ts) }); pn != "" {
		c.Violation("C15/common/panic", cs.Text+" panics: "+pn, cs)
		return false
	}
	failed := false
	viol := func(sig, what string) {
		failed = true
		c.Violation(sig, fmt.Sprintf("%s: %s", cs.Text, what), cs)
	}
	allCompat := true
	for _, t := range cs.Types {
		if !st.specCompatible(cs.Types[0], t) {
			allCompat = false
		}
	}
	class := "ok"
	switch {
	case len(cs.Types) <= 1:
		class = "nil"
		if res != nil || err != nil {
			viol("C15/common/fewer-than-two", "must return nil, nil")
		}
	case !allCompat:
		class = "err"
		if err == nil {
			viol("C15/common/incompatible-accepted", fmt.Sprintf("types of different kinds or unit families were harmonised to %v", res))
		}
	default:
		if err != nil || res == nil {
			var us []string
			for _, t := range ts {
				us = append(us, t.Unit)
			}
			if n, sp := st.unrecognised(us); n != "" {
				viol("C15/sniffUnit/unrecognised-spelling/"+n, fmt.Sprintf("%q is a spelling of the unit name %q but is not recognised, so compatible types are rejected: %v", sp, n, err))
			} else {
				viol("C15/common/compatible-rejected", fmt.Sprintf("compatible types rejected: %v", err))
			}
			break
		}
		// the result is one of the inputs and no input is finer
		found := false
		for _, t := range ts {
			if *t == *res {
				found = true
			}
		}
		if !found {
			viol("C15/common/not-an-input", fmt.Sprintf("result %v is none of the inputs", *res))
		}
		for _, t := range ts {
			if st.phys(t.Unit).Cmp(st.phys(res.Unit)) < 0 {
				viol("C15/common/not-finest", fmt.Sprintf("result unit %q is coarser than input unit %q", res.Unit, t.Unit))
				break
			}
		}
	}
	c.Res.Hit("common:" + class)
	// model
	ok := true
	for _, t := range cs.Types {
		ok = ok && c15modelDomain(c15unhex(t.Unit))
	}
	if ok && !failed {
		c.Res.ModelCompared++
		rep := c.Drv.Ask("c15.common " + c15vtToks(cs.Types))
		g := "err"
		if err == nil {
			g = "ok 0"
			if res != nil {
				// compare by type string and by the UNIT DENOTED (a different spelling of the same finest unit would be harmless)
				g = "ok 1 " + c15tok(res.Type)
			}
		}
		mrep := rep
		munit := ""
		if f := strings.Fields(rep); len(f) == 4 && f[0] == "ok" && f[1] == "1" {
			mrep = "ok 1 " + f[2]
			munit = c15unhex(strings.TrimPrefix(f[3], "x"))
		}
		if mrep != g {
			c.Disagree("C15/model-common/class", fmt.Sprintf("%s: Go %s, model %s", cs.Text, g, c15trunc(rep)), "correspondence Measure.commonValueType ~ measurement.CommonValueType", cs)
		} else if res != nil && st.phys(munit).Cmp(st.phys(res.Unit)) != 0 {
			c.Disagree("C15/model-common/unit", fmt.Sprintf("%s: Go unit %q, model unit %q", cs.Text, res.Unit, munit), "correspondence Measure.commonValueType ~ measurement.CommonValueType", cs)
		}
	}
	return len(cs.Types) >= 2 && allCompat
}

func c15buildProfiles(ps []c15Prof) []*profile.Profile {
	var out []*profile.Profile
	for _, p := range ps {
		q := &profile.Profile{Period: p.Period}
		if p.PeriodType != nil {
			q.PeriodType = &profile.ValueType{Type: c15unhex(p.PeriodType.Type), Unit: c15unhex(p.PeriodType.Unit)}
		}
		for _, t := range p.SampleType {
			q.SampleType = append(q.SampleType, &profile.ValueType{Type: c15unhex(t.Type), Unit: c15unhex(t.Unit)})
		}
		for _, s := range p.Samples {
			q.Sample = append(q.Sample, &profile.Sample{Value: append([]int64(nil), s...)})
		}
		out = append(out, q)
	}
	return out
}

func (st *c15State) spCase(cs c15Case) bool {
	c := st.c
	ps := c15buildProfiles(cs.Profiles)
	var desc []string
	for _, p := range cs.Profiles {
		d := c15vtText(p.SampleType)
		if p.PeriodType != nil {
			d += fmt.Sprintf(" period %d %s", p.Period, c15vtText([]c15VT{*p.PeriodType}))
		}
		desc = append(desc, "["+d+fmt.Sprintf(" ×%d samples]", len(p.Samples)))
	}
	cs.Text = "ScaleProfiles(" + strings.Join(desc, ", ") + ")"
	var err error
	if pn := c15safely(func() { err = measurement.ScaleProfiles(ps) }); pn != "" {
		c.Violation("C15/scaleProfiles/panic", cs.Text+" panics: "+pn, cs)
		return false
	}
	failed := false
	viol := func(sig, what string) {
		failed = true
		c.Violation(sig, fmt.Sprintf("%s: %s", c15trunc(cs.Text), what), cs)
	}
	// expected error class
	wantErr := false
	nst := len(cs.Profiles[0].SampleType)
	for _, p := range cs.Profiles {
		if len(p.SampleType) != nst {
			wantErr = true
		}
	}
	var pts []c15VT
	for _, p := range cs.Profiles {
		if p.PeriodType != nil {
			pts = append(pts, *p.PeriodType)
		}
	}
	for _, t := range pts {
		if !st.specCompatible(pts[0], t) {
			wantErr = true
		}
	}
	if !wantErr {
		for i := 0; i < nst; i++ {
			for _, p := range cs.Profiles {
				if !st.specCompatible(cs.Profiles[0].SampleType[i], p.SampleType[i]) {
					wantErr = true
				}
			}
		}
	}
	nontrivial := false
	switch {
	case wantErr && err == nil:
		viol("C15/scaleProfiles/incompatible-accepted", "profiles with incompatible sample/period types were harmonised")
	case !wantErr && err != nil:
		var us []string
		for _, p := range cs.Profiles {
			for _, t := range p.SampleType {
				us = append(us, c15unhex(t.Unit))
			}
			if p.PeriodType != nil {
				us = append(us, c15unhex(p.PeriodType.Unit))
			}
		}
		if n, sp := st.unrecognised(us); n != "" {
			viol("C15/sniffUnit/unrecognised-spelling/"+n, fmt.Sprintf("%q is a spelling of the unit name %q but is not recognised, so compatible profiles are rejected: %v", sp, n, err))
		} else {
			viol("C15/scaleProfiles/compatible-rejected", "compatible profiles rejected: "+err.Error())
		}
	case !wantErr:
		one := big.NewRat(1, 1)
		for i := 0; i < nst; i++ {
			// the common unit: identical in all profiles, and the finest of the column
			u0 := ps[0].SampleType[i].Unit
			finest := st.phys(c15unhex(cs.Profiles[0].SampleType[i].Unit))
			for _, p := range cs.Profiles {
				if f := st.phys(c15unhex(p.SampleType[i].Unit)); f.Cmp(finest) < 0 {
					finest = f
				}
			}
			for j, p := range ps {
				old := cs.Profiles[j]
				if p.SampleType[i].Type != c15unhex(old.SampleType[i].Type) {
					viol("C15/scaleProfiles/type-changed", "a sample type's Type was changed")
				}
				if len(ps) >= 2 && p.SampleType[i].Unit != u0 {
					viol("C15/scaleProfiles/units-not-harmonised", fmt.Sprintf("column %d: units %q and %q after harmonising", i, u0, p.SampleType[i].Unit))
					continue
				}
				fNew, fOld := st.phys(p.SampleType[i].Unit), st.phys(c15unhex(old.SampleType[i].Unit))
				if len(ps) >= 2 && fNew.Cmp(finest) != 0 {
					viol("C15/scaleProfiles/not-finest-unit", fmt.Sprintf("column %d harmonised to %q, not to the finest unit of the column", i, p.SampleType[i].Unit))
					continue
				}
				if fNew.Cmp(fOld) != 0 {
					nontrivial = true
				}
				// physical total of the column: Σ value × unit size, preserved up to rounding of each value
				tOld, tNew := new(big.Rat), new(big.Rat)
				for _, s := range old.Samples {
					tOld.Add(tOld, new(big.Rat).Mul(new(big.Rat).SetInt64(s[i]), fOld))
				}
				for _, s := range p.Sample {
					tNew.Add(tNew, new(big.Rat).Mul(new(big.Rat).SetInt64(s.Value[i]), fNew))
				}
				// each value: |new − old·ratio| <= 1/2 (+ float), i.e. fNew/2 in physical units
				lim := new(big.Rat).Mul(fNew, big.NewRat(int64(len(old.Samples)), 2))
				lim.Add(lim, new(big.Rat).Mul(c15abs(tOld), new(big.Rat).Mul(c15tol, big.NewRat(int64(len(old.Samples)+1), 1))))
				if fNew.Cmp(fOld) == 0 {
					lim = new(big.Rat)
				}
				if c15abs(new(big.Rat).Sub(tNew, tOld)).Cmp(lim) > 0 {
					// is the difference explained by dropped samples whose scaled columns were all zero?
					sig := "C15/scaleProfiles/total-changed"
					if len(p.Sample) < len(old.Samples) && st.explainedByDrop(cs, ps, j, i, tNew, lim) {
						sig = "C15/scaleProfiles/total-changed/sample-with-only-unscaled-values-dropped"
					}
					a, _ := tOld.Float64()
					b, _ := tNew.Float64()
					viol(sig, fmt.Sprintf("profile %d column %d: physical total %v before, %v after (units %q → %q)", j, i, a, b, c15unhex(old.SampleType[i].Unit), p.SampleType[i].Unit))
				}
				_ = one
			}
		}
		// period
		if len(pts) >= 2 {
			var pu string
			first := true
			for j, p := range ps {
				old := cs.Profiles[j]
				if old.PeriodType == nil {
					continue
				}
				if first {
					pu, first = p.PeriodType.Unit, false
				} else if p.PeriodType.Unit != pu {
					viol("C15/scaleProfiles/period-units-not-harmonised", "period units differ after harmonising")
				}
				fNew, fOld := st.phys(p.PeriodType.Unit), st.phys(c15unhex(old.PeriodType.Unit))
				want := new(big.Rat).Mul(new(big.Rat).SetInt64(old.Period), new(big.Rat).Quo(fOld, fNew))
				lim := new(big.Rat).Add(big.NewRat(1, 1), new(big.Rat).Mul(c15abs(want), c15tol))
				if c15abs(new(big.Rat).Sub(new(big.Rat).SetInt64(p.Period), want)).Cmp(lim) > 0 {
					viol("C15/scaleProfiles/period-changed", fmt.Sprintf("profile %d: period %d %q became %d %q", j, old.Period, c15unhex(old.PeriodType.Unit), p.Period, p.PeriodType.Unit))
				}
			}
		}
	}
	if wantErr {
		c.Res.Hit("sp:err")
	} else {
		c.Res.Hit("sp:ok")
	}
	// model
	dom := true
	for _, p := range cs.Profiles {
		for _, t := range p.SampleType {
			dom = dom && c15modelDomain(c15unhex(t.Unit))
		}
		if p.PeriodType != nil {
			dom = dom && c15modelDomain(c15unhex(p.PeriodType.Unit))
		}
	}
	if dom && !failed {
		c.Res.ModelCompared++
		st.modelSP(cs, ps, err)
	}
	return nontrivial
}

// explainedByDrop: profile.ScaleN drops a sample when its values in all RESCALED columns (ratio
// != 1) are zero, even if it carries values in columns whose unit did not change (defect #5 of
// DESIGN §5, filed under C07).  True when the new total of column i is the old total minus exactly
// those samples.
func (st *c15State) explainedByDrop(cs c15Case, ps []*profile.Profile, j, i int, tNew, lim *big.Rat) bool {
	old := cs.Profiles[j]
	var scaled []int
	for k := range old.SampleType {
		if st.phys(ps[j].SampleType[k].Unit).Cmp(st.phys(c15unhex(old.SampleType[k].Unit))) != 0 {
			scaled = append(scaled, k)
		}
	}
	if len(scaled) == 0 {
		return false
	}
	fOld, fNew := st.phys(c15unhex(old.SampleType[i].Unit)), st.phys(ps[j].SampleType[i].Unit)
	if fOld.Cmp(fNew) != 0 {
		return false // a rescaled column loses nothing by the drop
	}
	kept, dropped := new(big.Rat), 0
	for _, s := range old.Samples {
		zero := true
		for _, k := range scaled {
			zero = zero && s[k] == 0
		}
		if zero {
			dropped++
			continue
		}
		kept.Add(kept, new(big.Rat).Mul(new(big.Rat).SetInt64(s[i]), fOld))
	}
	return dropped > 0 && len(ps[j].Sample) == len(old.Samples)-dropped && c15abs(new(big.Rat).Sub(tNew, kept)).Cmp(lim) <= 0
}

func (st *c15State) modelSP(cs c15Case, ps []*profile.Profile, gerr error) {
	c := st.c
	var b strings.Builder
	fmt.Fprintf(&b, "c15.scaleprofiles %d", len(cs.Profiles))
	for _, p := range cs.Profiles {
		if p.PeriodType == nil {
			b.WriteString(" 0")
		} else {
			b.WriteString(" 1 x" + p.PeriodType.Type + " x" + p.PeriodType.Unit)
		}
		fmt.Fprintf(&b, " %d %s %d", p.Period, c15vtToks(p.SampleType), len(p.Samples))
		for _, s := range p.Samples {
			fmt.Fprintf(&b, " %d", len(s))
			for _, v := range s {
				fmt.Fprintf(&b, " %d", v)
			}
		}
	}
	rep := c.Drv.Ask(b.String())
	bk := "correspondence Measure.scaleProfiles ~ measurement.ScaleProfiles"
	if gerr != nil {
		if rep != "err" {
			c.Disagree("C15/model-sp/class", fmt.Sprintf("%s: Go error %v, model %s", c15trunc(cs.Text), gerr, c15trunc(rep)), bk, cs)
		}
		return
	}
	t := &c15tr{toks: strings.Fields(rep)}
	if t.tok() != "ok" {
		c.Disagree("C15/model-sp/class", fmt.Sprintf("%s: Go ok, model %s", c15trunc(cs.Text), c15trunc(rep)), bk, cs)
		return
	}
	if n := t.n(); n != len(ps) {
		c.Disagree("C15/model-sp/shape", "profile count", bk, cs)
		return
	}
	for j, p := range ps {
		old := cs.Profiles[j]
		hasPT := t.tok() == "1"
		var mpu string
		if hasPT {
			t.str()
			mpu = t.str()
		}
		mper, okp := t.rat()
		if hasPT != (p.PeriodType != nil) || t.bad || !okp {
			c.Disagree("C15/model-sp/shape", "period type presence / reply shape: "+c15trunc(rep), bk, cs)
			return
		}
		if hasPT {
			if st.phys(mpu).Cmp(st.phys(p.PeriodType.Unit)) != 0 || (mpu == c15unhex(old.PeriodType.Unit)) != (p.PeriodType.Unit == c15unhex(old.PeriodType.Unit)) {
				c.Disagree("C15/model-sp/period-unit", fmt.Sprintf("%s: profile %d period unit Go %q, model %q", c15trunc(cs.Text), j, p.PeriodType.Unit, mpu), bk, cs)
				return
			}
			lim := new(big.Rat).Add(big.NewRat(1, 1), new(big.Rat).Mul(c15abs(mper), c15tol))
			if c15abs(new(big.Rat).Sub(new(big.Rat).SetInt64(p.Period), mper)).Cmp(lim) > 0 {
				c.Disagree("C15/model-sp/period", fmt.Sprintf("%s: profile %d period Go %d, model %s", c15trunc(cs.Text), j, p.Period, mper.RatString()), bk, cs)
				return
			}
		}
		nt := t.n()
		var munits []string
		for k := 0; k < nt; k++ {
			t.str()
			munits = append(munits, t.str())
		}
		nr := t.n()
		var ratios []*big.Rat
		for k := 0; k < nr; k++ {
			r, ok := t.rat()
			if !ok {
				t.bad = true
			}
			ratios = append(ratios, r)
		}
		if t.bad || nt != len(p.SampleType) || nr != nt {
			c.Disagree("C15/model-sp/shape", "sample types: "+c15trunc(rep), bk, cs)
			return
		}
		for i := range p.SampleType {
			if st.phys(munits[i]).Cmp(st.phys(p.SampleType[i].Unit)) != 0 {
				c.Disagree("C15/model-sp/unit", fmt.Sprintf("%s: profile %d column %d unit Go %q, model %q", c15trunc(cs.Text), j, i, p.SampleType[i].Unit, munits[i]), bk, cs)
				return
			}
		}
		// values: Go's int64(round(v*ratio)) vs the model's exact v*ratio, sample by sample when none was dropped
		if len(p.Sample) == len(old.Samples) {
			for s := range p.Sample {
				for i := range p.SampleType {
					want := new(big.Rat).Mul(new(big.Rat).SetInt64(old.Samples[s][i]), ratios[i])
					lim := new(big.Rat).Add(big.NewRat(1, 2), new(big.Rat).Mul(c15abs(want), new(big.Rat).Mul(c15tol, big.NewRat(2, 1))))
					if c15abs(new(big.Rat).Sub(new(big.Rat).SetInt64(p.Sample[s].Value[i]), want)).Cmp(lim) > 0 {
						c.Disagree("C15/model-sp/value", fmt.Sprintf("%s: profile %d sample %d column %d: Go %d, model %s", c15trunc(cs.Text), j, s, i, p.Sample[s].Value[i], want.RatString()), bk, cs)
						return
					}
				}
			}
		}
	}
}

// ---------------------------------------------------------------------------------------------
// dispatch

func (st *c15State) run(cs c15Case) bool {
	switch cs.Kind {
	case "scale":
		return st.scaleCase(cs)
	case "mono":
		return st.monoCase(cs)
	case "pct":
		return st.pctCase(cs)
	case "common":
		return st.commonCase(cs)
	case "rpt":
		return st.rptCase(cs)
	case "nodelets":
		return st.nodeletCase(cs)
	case "cli":
		return st.cliReplay(c15CLI{Values: cs.Values, From: cs.From, To: cs.To})
	case "sp":
		if len(cs.Profiles) == 0 {
			return false
		}
		for _, p := range cs.Profiles {
			for _, s := range p.Samples {
				if len(s) != len(p.SampleType) {
					return false // outside the modelled domain (every sample has one value per type)
				}
			}
		}
		return st.spCase(cs)
	}
	return false
}

func c15canon(cs c15Case) string {
	var b strings.Builder
	fmt.Fprintf(&b, "%s|%d|%d|%s|%s|%s|%v", cs.Kind, cs.V, cs.V2, cs.From, cs.To, c15vtToks(cs.Types), cs.Values)
	for _, t := range cs.Tags {
		fmt.Fprintf(&b, "|%d %s %d", t.Value, t.Unit, t.Weight)
	}
	if cs.Rpt != nil {
		fmt.Fprintf(&b, "|%s %v %v %s %v %v %v", cs.Rpt.Mode, cs.Rpt.CLI, cs.Rpt.Reverse, cs.Rpt.RootKey, cs.Rpt.DivideBy, cs.Rpt.DurationNanos, cs.Rpt.NodeFraction)
		for _, s := range cs.Rpt.Samples {
			fmt.Fprintf(&b, " %d%v", s.Value, s.Labels)
		}
	}
	for _, p := range cs.Profiles {
		fmt.Fprintf(&b, "|%d %s %v", p.Period, c15vtToks(p.SampleType), p.Samples)
		if p.PeriodType != nil {
			b.WriteString(c15vtToks([]c15VT{*p.PeriodType}))
		}
	}
	return b.String()
}

func runC15(c *Ctx) {
	c.Res.Rule = "scale: every spelling (name, UPPER, Title, plural, UPPER plural, mixed case; printed names; unknown/odd strings) of every unit name of the Lean spec dictionary and of the regenerated table × targets (every unit of the family, auto, minimum, other family, unknown, skip words) × int64 strategies (0, ±1, every unit step ±1 for the pair, rounding ties, 2^53±1, MaxInt64, MinInt64(+1), random widths); mono: neighbouring values around unit steps and rounding ties; pct: value/total pairs around 1%, 99.95%, 100.05%, zero total, extremes; common/sp: 1–4 value types / profiles over compatible and incompatible unit spellings; cli: `pprof -top -unit=…` on generated one-function-per-value profiles (printed flat values = ScaledLabel, flat% = Percentage, one output unit for the report); rpt: report-level labels — profiles with 2–4 numeric tag keys whose units belong to different families and whose values coincide, both sample orders, rendered as tags / traces / top / tree / peek / dot in-process (report.Generate) and tags / traces / tree / -tagroot / peek / dot / top through the pprof binary, with -divide_by ∈ {none, 1024, 1000, 0.001, 3, 60, 0.5, 1e6, 2^20, 7} × output unit ∈ {minimum, auto, fixed units of the sample's or a tag's family} (sample-value labels must be admissible labels of the DIVIDED value: the automatic unit suits the value actually printed); every printed label (tag values, tag weights and totals, sample values, flat/cum/edge values, legend total, tagroot frames) is read back and must lie in the family of ITS OWN unit within display rounding, and agree with the model's label. Non-trivial = the source unit is a unit name by the spec, so the conversion mechanism (sniffUnit → convertUnit/autoScale) is reached (scale/mono); total ≠ 0 (pct); ≥2 compatible types (common); at least one column actually rescaled (sp); tag units of ≥ 2 families, or a known sample unit for top/tree (rpt). nodelets: graph.New+ComposeDot on one node with 5–9 numeric tag values in per-value units of one family (collapsed into ranges): every value inside a printed label or range, every end a tag's label. Distinct by canonical case text."
	st := c15Init(c)
	if !st.alive {
		return
	}
	if c.Replay != "" {
		var cs c15Case
		if err := c.LoadReplay(&cs); err != nil {
			c.Res.HarnessError = err.Error()
			return
		}
		nt := st.run(cs)
		c.Res.Count(c15canon(cs), nt)
		return
	}
	c15Generate(st)
}
