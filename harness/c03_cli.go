//go:build verif

package main

import (
	"bytes"
	"fmt"
	"os"
	"os/exec"
	"path/filepath"
	"strings"
	"sync"

	"github.com/google/pprof/profile"
)

// C03, CLI-level observation: `pprof -proto a b … > out` with 2–4 generated compatible profile
// files, one pprof process per case (the binary c.Pprof built from the same tree), and the SAME
// direct oracle as the in-process stream evaluated on the parsed output: validity, weight
// conservation per semantic stack key against the Lean Spec (`merge.spec`), each stack once,
// no all-zero sample, per-type totals, header rules; plus the model correspondence.
//
// Between the files and the output the driver does more than Merge: it parses each file, looks
// for local binaries, makes sample types and units compatible, merges, symbolizes, demangles,
// prunes with drop_frames/keep_frames and re-encodes. The generated profiles are chosen so
// that every one of those stages is the identity and the observation is about Merge alone:
//   - every profile has at least one mapping (otherwise the driver attaches a fake one to all
//     locations) and every mapping has HasFunctions (+ the other Has* flags), so neither local
//     nor remote symbolization touches it; PPROF_BINARY_PATH points to an empty directory;
//   - function names are non-empty and either differ from the system name ("already
//     demangled") or are plain identifiers the demangler and the C++ heuristics leave alone;
//   - drop_frames and keep_frames are empty (RemoveUninteresting is then a no-op);
//   - sample types and units are identical across the inputs, the type names of one profile
//     are pairwise distinct (the driver matches sample types across files by name) and the
//     period is below 2^53 (the unit scaling goes through float64);
//   - the inputs are first passed through Write/Parse in the harness and the *parsed* profiles
//     are the case (the oracle is computed from them), so that what the encoding normalises —
//     C01's subject — is not attributed to Merge; an input that is not a fixed point of
//     Parse∘Write after that is skipped and counted.
// Inputs outside this family (drop_frames set, unsymbolized mappings, …) are covered by the
// in-process stream, where nothing but Merge runs.

type c03CLIRun struct {
	stdout []byte
	stderr string
	exit   int    // exit status; -1 = the process could not be run at all
	runErr string // why it could not be run
}

var c03PlainName = func(s string) bool {
	if s == "" || !(s[0] >= 'a' && s[0] <= 'z') {
		return false
	}
	for i := 0; i < len(s); i++ {
		c := s[i]
		if !(c >= 'a' && c <= 'z' || c >= '0' && c <= '9' || c == '_' || c == '.') {
			return false
		}
	}
	return true
}

// c03CLISanitize moves a generated profile into the family described above (in place).
func c03CLISanitize(p *profile.Profile) {
	p.DropFrames, p.KeepFrames = "", ""
	if p.Period < 0 {
		p.Period = -p.Period
	}
	p.Period %= 1 << 40
	seenType, hasDefault := map[string]bool{}, false
	for i, st := range p.SampleType {
		if seenType[st.Type] {
			st.Type = fmt.Sprintf("%s_%d", st.Type, i)
		}
		seenType[st.Type] = true
		hasDefault = hasDefault || st.Type == p.DefaultSampleType
	}
	if !hasDefault {
		p.DefaultSampleType = ""
	}
	if len(p.Mapping) == 0 {
		p.Mapping = []*profile.Mapping{{ID: 1, Start: 0x1000, Limit: 0x2000, File: "/cli/none"}}
	}
	for _, m := range p.Mapping {
		m.HasFunctions, m.HasFilenames, m.HasLineNumbers, m.HasInlineFrames = true, true, true, true
	}
	for _, f := range p.Function {
		if f.Name == "" {
			f.Name = "anon"
		}
		if f.Name == f.SystemName && !c03PlainName(f.Name) {
			f.SystemName = f.Name + "@sys"
		}
	}
}

func c03WriteParse(p *profile.Profile) (*profile.Profile, error) {
	var b bytes.Buffer
	if err := p.Write(&b); err != nil {
		return nil, err
	}
	return profile.Parse(&b)
}

// c03CLIStable returns Parse(Write(p)) when that is a fixed point of Parse∘Write.
func c03CLIStable(p *profile.Profile) (*profile.Profile, string) {
	q, err := c03WriteParse(p)
	if err != nil {
		return nil, "unparseable"
	}
	q2, err := c03WriteParse(q)
	if err != nil {
		return nil, "unparseable"
	}
	if Canon(q) != Canon(q2) {
		return nil, "not-a-fixed-point-of-write-parse"
	}
	return q, ""
}

// genCLI: a family of 2–4 compatible profiles inside the CLI-neutral family.
func genCLI(c *Ctx, r *Rng, i int) (c03Case, bool) {
	ps, _ := genFamily(r, i)
	for len(ps) < 2 {
		v := cloneP(ps[0])
		renumber(r, v)
		if r.Bool() {
			aslr(r, v)
		}
		ps = append(ps, v)
	}
	cs := c03Case{Kind: "cli/" + c03Bases[i%len(c03Bases)].name}
	for _, p := range ps {
		c03CLISanitize(p)
		q, why := c03CLIStable(p)
		if q == nil {
			c.Res.Hit("cli-skip:" + why)
			return cs, false
		}
		if err := checkValidClosed(q); err != nil {
			c.Res.Hit("cli-skip:invalid-after-parse")
			return cs, false
		}
		cs.Profiles = append(cs.Profiles, Canon(q))
	}
	return cs, true
}

// c03CLIExec writes the inputs of one case under its own directory and runs one pprof process.
func c03CLIExec(c *Ctx, cs c03Case, slot int) c03CLIRun {
	run := c03CLIRun{exit: -1}
	if c.Pprof == "" {
		run.runErr = "no pprof binary"
		return run
	}
	dir, err := os.MkdirTemp(c.Dir, fmt.Sprintf("cli%04d-", slot))
	if err != nil {
		run.runErr = err.Error()
		return run
	}
	defer os.RemoveAll(dir)
	empty := filepath.Join(dir, "nobinaries")
	os.MkdirAll(empty, 0o755)
	args := []string{"-proto"}
	for i, canon := range cs.Profiles {
		p, err := ParseCanon(canon)
		if err != nil {
			run.runErr = "ParseCanon: " + err.Error()
			return run
		}
		var b bytes.Buffer
		if err := p.Write(&b); err != nil {
			run.runErr = "Write: " + err.Error()
			return run
		}
		name := filepath.Join(dir, fmt.Sprintf("in%d.pb.gz", i))
		if err := os.WriteFile(name, b.Bytes(), 0o644); err != nil {
			run.runErr = err.Error()
			return run
		}
		args = append(args, name)
	}
	cmd := exec.Command(c.Pprof, args...)
	cmd.Dir = dir
	cmd.Env = append(os.Environ(), "PPROF_TMPDIR="+empty, "PPROF_BINARY_PATH="+empty, "HOME="+empty)
	var so, se bytes.Buffer
	cmd.Stdout, cmd.Stderr = &so, &se
	err = cmd.Run()
	run.stdout, run.stderr = so.Bytes(), se.String()
	if err == nil {
		run.exit = 0
	} else if ee, ok := err.(*exec.ExitError); ok {
		run.exit = ee.ExitCode()
		if run.exit < 0 { // killed by a signal
			run.exit = 255
		}
	} else {
		run.runErr = err.Error()
	}
	return run
}

func c03LastLine(s string) string {
	l := strings.Split(strings.TrimSpace(s), "\n")
	return c3trunc(l[len(l)-1])
}

// c03CLIEval: the direct oracle and the model correspondence on the output of one pprof run.
func c03CLIEval(c *Ctx, cs c03Case, run c03CLIRun) (nontrivial bool) {
	sig := func(s string) string { return "C03/cli/" + s }
	if run.exit < 0 {
		c.Res.Notes = append(c.Res.Notes, "C03 cli: cannot run pprof: "+run.runErr)
		c.Res.Hit("cli-not-run")
		return false
	}
	ps := parseAll(c, cs.Profiles)
	if len(ps) < 2 {
		return false
	}
	args := joinProfiles(cs.Profiles)
	specReply := c.Drv.Ask("merge.spec " + args)
	exp, err := parseTable(specReply)
	if err != nil {
		c.Res.HarnessError = "cli: merge.spec on a generated compatible family: " + c3trunc(specReply)
		return false
	}
	if run.exit != 0 {
		if strings.Contains(run.stderr, "panic:") || strings.Contains(run.stderr, "goroutine ") {
			c.Violation(sig("panic"), "pprof -proto on compatible valid profiles crashed: "+c03LastLine(run.stderr), cs)
		} else {
			c.Violation(sig("merge-failed"), fmt.Sprintf("pprof -proto on compatible valid profiles exits %d: %s", run.exit, c03LastLine(run.stderr)), cs)
		}
		return false
	}
	out, err := profile.ParseData(run.stdout)
	if err != nil {
		c.Violation(sig("unparseable-output"), "the -proto output of pprof does not parse: "+err.Error(), cs)
		return false
	}
	c.Res.Hit("cli-outcome:ok")
	oracleFailed := false
	viol := func(s, what string) {
		oracleFailed = true
		c.Violation(sig(s), "pprof -proto "+fmt.Sprint(len(ps))+" files: "+what, cs)
	}
	if err := checkValidClosed(out); err != nil {
		viol("valid/"+c3firstWord(err.Error()), "the result is not a valid profile: "+err.Error())
		return false
	}
	obs, obsReply := c.absTable(out)
	if obs == nil {
		if obsReply == "unresolvable" {
			viol("valid/unresolvable", "the result has dangling references")
		} else {
			c.Res.HarnessError = "cli: merge.abs: " + c3trunc(obsReply)
		}
		return false
	}
	if s, what := compareTables(obs, exp, cs.Tag); s != "" {
		viol(s, what)
	}
	tin, tout := totals(ps), totals([]*profile.Profile{out})
	for i := range tin {
		var o int64
		if i < len(tout) {
			o = tout[i]
		}
		if o != tin[i] {
			viol("totals", fmt.Sprintf("total of sample type %d changed from %d to %d", i, tin[i], o))
			break
		}
	}
	for _, s := range out.Sample {
		z := true
		for _, v := range s.Value {
			z = z && v == 0
		}
		if z {
			viol("zero-sample-kept", "the result contains a sample whose values are all zero")
			break
		}
	}
	if d := firstHeaderDiff(headerTokens(out), exp.header); d != "" {
		viol("header/"+d, fmt.Sprintf("header field %s is not combined as documented: got %q, want %q", d, headerFields(headerTokens(out))[d], headerFields(exp.header)[d]))
	}

	// measured: memo hits, and whether the driver's other stages really were the identity
	inL := 0
	for _, p := range ps {
		inL += len(p.Location)
	}
	if len(out.Sample) < nonZeroSamples(ps) {
		c.Res.Hit("cli-memo-hit:sample")
		nontrivial = true
	}
	if len(out.Location) < inL && len(out.Location) > 0 {
		c.Res.Hit("cli-memo-hit:location")
		nontrivial = true
	}
	if r := runMerge(parseAll(c, cs.Profiles), false); r.panic_ == "" && r.err == nil && r.out != nil {
		if q, err := c03WriteParse(r.out); err == nil && Canon(q) == Canon(out) {
			c.Res.Hit("cli-output-identical-to-inprocess-merge")
		} else {
			c.Res.Hit("cli-output-differs-from-inprocess-merge")
		}
	}

	// correspondence with the Lean model
	c.Res.ModelCompared++
	mreply := c.Drv.Ask("merge.model " + args)
	if !strings.HasPrefix(mreply, "ok ") {
		if !oracleFailed {
			c.Disagree(sig("model/outcome-class/"+c3firstWord(mreply)), "model does not produce a profile where pprof -proto does: "+c3trunc(mreply), c03Corr, cs)
		}
		return nontrivial
	}
	mabs := c.Drv.Ask("merge.abs " + mreply[3:])
	if mt, err := parseTable(mabs); err != nil {
		c.Disagree(sig("model/invalid-output"), "the model's output does not resolve: "+c3trunc(mabs), c03Corr, cs)
	} else if !oracleFailed {
		if s, what := compareTables(obs, mt, cs.Tag); s != "" {
			c.Disagree(sig("model/"+s), "model and pprof -proto disagree on the weight table: "+what, c03Corr, cs)
		} else if d := firstHeaderDiff(headerTokens(out), mt.header); d != "" {
			c.Disagree(sig("model/header/"+d), "model and pprof -proto disagree on header field "+d, c03Corr, cs)
		}
	}
	return nontrivial
}

// c03CLIStream: n cases; generation and judgement are sequential (one PRNG, one model driver),
// the pprof processes run in parallel.
func c03CLIStream(c *Ctx, r *Rng, n int) {
	if c.Pprof == "" {
		c.Res.Notes = append(c.Res.Notes, "C03 cli: no pprof binary, CLI stream skipped")
		return
	}
	var cases []c03Case
	for i := 0; len(cases) < n && i < 3*n; i++ {
		if cs, ok := genCLI(c, r, i); ok {
			cases = append(cases, cs)
		}
	}
	runs := make([]c03CLIRun, len(cases))
	var wg sync.WaitGroup
	sem := make(chan struct{}, 16)
	for i := range cases {
		wg.Add(1)
		sem <- struct{}{}
		go func(i int) {
			defer wg.Done()
			defer func() { <-sem }()
			runs[i] = c03CLIExec(c, cases[i], i)
		}(i)
	}
	wg.Wait()
	for i, cs := range cases {
		nt := c03CLIEval(c, cs, runs[i])
		c.Res.Count("cli|"+strings.Join(cs.Profiles, "|"), nt)
		c.Res.Hit("kind:cli")
		c.Res.Hit(fmt.Sprintf("cli-inputs:%d", len(cs.Profiles)))
	}
}
