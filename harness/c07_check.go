//go:build verif

package main

import (
	"fmt"
	"math"
	"sort"
	"strconv"
	"strings"

	"github.com/google/pprof/profile"
)

type c07W map[c07Key][]int64

func c07DropZeroW(w c07W) {
	for k, v := range w {
		z := true
		for _, x := range v {
			z = z && x == 0
		}
		if z {
			delete(w, k)
		}
	}
}

func c07WStr(w c07W) string {
	var ls []string
	for k, v := range w {
		ls = append(ls, fmt.Sprintf("%s|%s|%v=%v", k.Stack, k.Tag, k.Base, v))
	}
	sort.Strings(ls)
	return strings.Join(ls, "; ")
}

// negation used for the base: exact, or as Scale(-1) computes it through float64 (to recognise the
// known precision finding on the large stream)
func c07Neg(v int64, viaFloat bool) int64 {
	if viaFloat {
		return int64(math.Round(float64(v) * -1))
	}
	return -v
}

// expected weight function of the result in physical units, straight from the property statement:
// sum of the sources minus the bases, per stack and common sample type.
func c07ExpectedW(cs *c07Case, types []string, viaFloat bool) c07W {
	w := c07W{}
	add := func(p *c07Prof, base bool) {
		colOf := make([]int, len(types))
		for i, t := range types {
			colOf[i] = -1
			for j, u := range p.Types {
				if u.Type == t && colOf[i] < 0 {
					colOf[i] = j
				}
			}
		}
		for _, s := range p.Samples {
			k := c07Key{Stack: c07StackStr(s.Stack), Tag: s.Tag, Base: base && cs.Mode == "diff_base"}
			if w[k] == nil {
				w[k] = make([]int64, len(types))
			}
			for i, j := range colOf {
				if j < 0 {
					continue
				}
				v := s.Values[j]
				if base {
					v = c07Neg(v, viaFloat)
				}
				w[k][i] += v * c07Factor(p.Types[j].Unit)
			}
		}
	}
	for i := range cs.Sources {
		add(&cs.Sources[i], false)
	}
	if cs.Mode != "plain" {
		for i := range cs.Bases {
			add(&cs.Bases[i], true)
		}
	}
	c07DropZeroW(w)
	return w
}

func c07ActualW(a *c07Prof, base []bool) c07W {
	w := c07W{}
	for i, s := range a.Samples {
		k := c07Key{Stack: c07StackStr(s.Stack), Tag: s.Tag, Base: base[i]}
		if w[k] == nil {
			w[k] = make([]int64, len(a.Types))
		}
		for j, v := range s.Values {
			w[k][j] += v * c07Factor(a.Types[j].Unit)
		}
	}
	c07DropZeroW(w)
	return w
}

func c07HasLarge(cs *c07Case) bool {
	for _, p := range append(append([]c07Prof(nil), cs.Sources...), cs.Bases...) {
		for _, s := range p.Samples {
			for _, v := range s.Values {
				if v > 1<<53 || v < -(1<<53) {
					return true
				}
			}
		}
	}
	return false
}

func c07HasNegative(cs *c07Case) bool {
	for _, p := range append(append([]c07Prof(nil), cs.Sources...), cs.Bases...) {
		for _, sm := range p.Samples {
			for _, v := range sm.Values {
				if v < 0 {
					return true
				}
			}
		}
	}
	return false
}

func c07MixedSignDuplicates(cs *c07Case) bool {
	for _, p := range cs.Bases {
		col := -1
		for j, t := range p.Types {
			if t.Type == cs.Index {
				col = j
			}
		}
		if col < 0 {
			continue
		}
		pos, neg := map[c07Key]bool{}, map[c07Key]bool{}
		for _, sm := range p.Samples {
			k := c07Key{Stack: c07StackStr(sm.Stack), Tag: sm.Tag}
			if sm.Values[col] > 0 {
				pos[k] = true
			} else if sm.Values[col] < 0 {
				neg[k] = true
			}
		}
		for k := range pos {
			if neg[k] {
				return true
			}
		}
	}
	return false
}

func c07WithinRounding(cs *c07Case, model, actual []c07MSample) bool {
	sum := func(ss []c07MSample) map[c07Key][]int64 {
		w := map[c07Key][]int64{}
		for _, s := range ss {
			if w[s.Key] == nil {
				w[s.Key] = make([]int64, len(s.Vals))
			}
			for j, v := range s.Vals {
				if j < len(w[s.Key]) {
					w[s.Key][j] += v
				}
			}
		}
		return w
	}
	cnt := map[c07Key]int64{}
	for _, p := range cs.Sources {
		for _, s := range p.Samples {
			cnt[c07Key{Stack: c07StackStr(s.Stack), Tag: s.Tag}]++
		}
	}
	wm, wa := sum(model), sum(actual)
	for k := range wa {
		if _, ok := wm[k]; !ok {
			wm[k] = make([]int64, len(wa[k]))
		}
	}
	for k, mv := range wm {
		av := wa[k]
		if av == nil {
			av = make([]int64, len(mv))
		}
		if len(av) != len(mv) {
			return false
		}
		tol := cnt[c07Key{Stack: k.Stack, Tag: k.Tag}]
		if k.Base {
			tol = 0
		}
		for j := range mv {
			d := mv[j] - av[j]
			if d < 0 {
				d = -d
			}
			if d > tol {
				return false
			}
		}
	}
	return true
}

const c07SigFilesDup = "C07/files-granularity/file-listed-once-per-function-start-line"

const c07SigScaleNDrop = "C07/scaleN/drops-sample-nonzero-only-in-unscaled-columns"

func c07PctOK(got string, value, total int64) bool {
	g, err := strconv.ParseFloat(strings.TrimSuffix(strings.TrimSpace(got), "%"), 64)
	if err != nil {
		return false
	}
	exp := 0.0
	if total != 0 {
		exp = math.Abs(float64(value)/float64(total)) * 100
	}
	tol := math.Max(0.0061, 0.06*exp)
	return math.Abs(g-exp) <= tol
}

// checkCLI evaluates the direct oracles on the real outputs and compares with the Lean model.
// Returns whether the case is non-trivial.
func (run *c07Run) checkCLI(orig *c07Case, o *c07CLIOut) bool {
	c := run.c
	cs, serr := run.semantic(orig)
	if serr != nil {
		c.Res.HarnessError = "C07: " + serr.Error()
		return false
	}
	c.Res.Hit("cli:" + cs.Stream + ":" + cs.Mode + map[bool]string{true: "+normalize", false: ""}[cs.Normalize])
	c.Res.Hit("strategy:" + cs.Strategy)
	if o == nil || o.Err != "" || o.ProtoAll == nil {
		c.Res.HarnessError = "C07 cli: " + fmt.Sprint(o)
		return false
	}
	sig := func(s string) string { return "C07/" + s }
	nt := false
	seen := map[c07Key]int{}
	for pi, p := range append(append([]c07Prof(nil), cs.Sources...), cs.Bases...) {
		ks := map[c07Key]bool{}
		for _, s := range p.Samples {
			ks[c07Key{Stack: c07StackStr(s.Stack), Tag: s.Tag}] = true
		}
		for k := range ks {
			seen[k]++
			if seen[k] > 1 && pi > 0 {
				nt = true
			}
		}
	}
	model := c07AskFetch(c, cs, false)
	mcls, mr := c07Reply(model)
	c.Res.ModelCompared++
	pinned := c07AskFetch(c, cs, true)
	pcls, pr := c07Reply(pinned)

	// ---- pprof refused ----
	if o.ProtoAll.RC != 0 {
		c.Res.Hit("cli-error")
		if cs.Normalize && strings.Contains(o.ProtoAll.Stderr, "incompatible sample types") && cs.Stream == "normalize-unaligned" {
			c.Violation(sig("normalize/refuses-differing-sample-types"), "-normalize with a base whose sample types are ordered/united differently is refused instead of aligned: "+c07Trunc(o.ProtoAll.Stderr), orig)
			return nt
		}
		if mcls == "err" {
			c.Res.Hit("both-refuse")
			return false
		}
		c.Violation(sig("cli/refused/"+cs.Mode), "pprof fails on a compatible profile tuple: "+c07Trunc(o.ProtoAll.Stderr), orig)
		return nt
	}
	outP, err := profile.ParseData(o.ProtoAll.Stdout)
	if err != nil {
		c.Violation(sig("proto/unparsable"), "-proto output does not parse: "+err.Error(), orig)
		return nt
	}
	act, actBase, err := run.abstract(outP)
	if err != nil {
		c.Violation(sig("proto/foreign-content"), "-proto output contains something that is in no input: "+err.Error(), orig)
		return nt
	}
	if cs.Stream == "normalize-unaligned" {
		c.Res.Hit("normalize-unaligned-accepted")
		return nt
	}
	if mcls != "ok" {
		c.Disagree(sig("model/fetch-"+mcls), "the model refuses a tuple pprof accepts: "+c07Trunc(model), "correspondence Combine.fetch ~ fetchProfiles", orig)
		return nt
	}
	mp := mr.tprof()
	tie := mr.n() != 0
	if mr.bad {
		c.Res.HarnessError = "C07: bad model reply " + c07Trunc(model)
		return nt
	}
	// Known finding (ScaleN survival rule of the pinned tree): a case belongs to the separate
	// stream "scalen-drop" when the pinned and the repaired model differ on it; an output that is
	// exactly the pinned model's is that defect and nothing else.
	actM := c07MSamples(act.Samples, actBase)
	cm, ca := c07CanonSamples(mp.Samples, true), c07CanonSamples(actM, true)
	cmPinned := ""
	if pcls == "ok" {
		cmPinned = c07CanonSamples(pr.tprof().Samples, true)
	}
	dropStream := pcls != "ok" || cmPinned != cm
	if dropStream {
		c.Res.Hit("stream:scalen-drop(cli)")
	} else if cs.Stream == "main" {
		c.Res.Hit("stream:main-unaffected-by-known-findings")
	}
	pruned := false
	for _, p := range append(append([]c07Prof(nil), orig.Sources...), orig.Bases...) {
		pruned = pruned || p.Drop != ""
	}
	if pruned && dropStream {
		// drop_frames prune the result, so it cannot be matched against the pinned model: keep the
		// known ScaleN finding out of these tuples altogether
		c.Res.Hit("dropframes-on-scalen-drop-stream-skipped")
		return nt
	}
	pinnedExplains := dropStream && pcls == "ok" && ca == cmPinned
	realViolation := c.Violation
	violation := func(s, what string, cse any) {
		if pinnedExplains {
			realViolation(c07SigScaleNDrop, "ScaleN decides survival only from the columns it scales: a sample that is zero there but non-zero elsewhere is lost (output equals the pinned-rule model) — seen as: "+what, cse)
			return
		}
		realViolation(s, what, cse)
	}

	// ---- sample types: the common ones, in the first profile's order ----
	var outTypes []string
	for _, t := range act.Types {
		outTypes = append(outTypes, t.Type)
	}
	want := c07CommonTypes(cs)
	if strings.Join(outTypes, ",") != strings.Join(want, ",") {
		violation(sig("types/not-common-in-first-order"), fmt.Sprintf("result sample types %v, want %v", outTypes, want), orig)
		return nt
	}
	for j, t := range act.Types {
		if u, ok := c07Units[t.Unit]; !ok || u.fam != c07TypeFam(t.Type) {
			violation(sig("types/unit-family"), fmt.Sprintf("result unit %q for %s", t.Unit, t.Type), orig)
			return nt
		}
		if j < len(mp.Cols) {
			u := c07Units[t.Unit]
			if mp.Cols[j].Fam != u.fam || mp.Cols[j].Factor != u.factor {
				c.Disagree(sig("model/unit"), fmt.Sprintf("column %s: result unit %q, model factor %d", t.Type, t.Unit, mp.Cols[j].Factor), "theorem commonUnit_finest / correspondence Combine.scaleProfiles ~ ScaleProfiles", orig)
			}
		}
	}
	actW := c07ActualW(act, actBase)
	okDirect := true

	// ---- weight level: sum of sources minus bases, converted, nothing dropped ----
	if !cs.Normalize && !pruned {
		expW := c07ExpectedW(cs, outTypes, false)
		if c07WStr(expW) != c07WStr(actW) {
			okDirect = false
			s := sig("cli/" + cs.Mode + "/weights")
			what := "result is not the sum of the sources minus the bases per stack (physical units)"
			switch {
			case c07HasLarge(cs) && c07WStr(c07ExpectedW(cs, outTypes, true)) == c07WStr(actW):
				s = sig("scale/|v|>2^53")
				what = "Scale(-1) goes through float64: values beyond 2^53 are not negated exactly, the difference keeps residue"
			}
			violation(s, what+": want {"+c07Trunc(c07WStr(expW))+"} got {"+c07Trunc(c07WStr(actW))+"}", orig)
		}
		if strings.HasPrefix(cs.Strategy, "self-difference") && cs.Mode == "base" && okDirect && len(act.Samples) != 0 {
			okDirect = false
			violation(sig("self-difference/not-empty"), fmt.Sprintf("p - p has %d samples", len(act.Samples)), orig)
		}
	}

	// ---- report level: -top and -traces ----
	idx := -1
	for j, t := range outTypes {
		if t == cs.Index {
			idx = j
		}
	}
	var topAll *c07Top
	filesGran := orig.Gran == "files"
	dupName := ""
	if idx >= 0 && o.TopAll != nil {
		bad := func(what string, p *c07Proc) {
			okDirect = false
			if strings.Contains(what, "entry listed twice") {
				violation(sig("cli/"+cs.Mode+"/entry-split-in-two"), "an entry that the inputs share by name is listed twice instead of summed — "+what+": "+c07Trunc(string(p.Stdout)), orig)
				return
			}
			violation(sig("cli/report-failed"), what+": "+c07Trunc(p.Stderr+string(p.Stdout)), orig)
		}
		if o.TopAll.RC != 0 {
			bad("-top fails", o.TopAll)
		} else if topAll = c07ParseTop(o.TopAll.Stdout, filesGran); topAll.Bad != "" {
			bad("-top output: "+topAll.Bad, o.TopAll)
			topAll = nil
		}
		trAll, trBad := map[string]int64{}, ""
		if o.TrAll.RC != 0 {
			bad("-traces fails", o.TrAll)
		} else if trAll, trBad = c07ParseTraces(o.TrAll.Stdout); trBad != "" {
			bad("-traces output: "+trBad, o.TrAll)
		}
		if topAll != nil && !cs.Normalize && trBad == "" {
			expFlat, expCum, expTr := map[string]int64{}, map[string]int64{}, map[string]int64{}
			indiv := true
			var baseTotal, sumTotal int64
			sumTotalOK := !c07HasNegative(orig)
			for k := range o.TopX {
				sign := int64(1)
				if k >= len(cs.Sources) {
					sign = -1
				}
				if o.TopX[k].RC != 0 || o.TrX[k].RC != 0 {
					bad("report of a single input fails", o.TopX[k])
					indiv = false
					break
				}
				tx := c07ParseTop(o.TopX[k].Stdout, filesGran)
				trx, b2 := c07ParseTraces(o.TrX[k].Stdout)
				if tx.Bad != "" || b2 != "" {
					bad("report of a single input: "+tx.Bad+b2, o.TopX[k])
					indiv = false
					break
				}
				if tx.Dup != "" {
					dupName = tx.Dup
				}
				for n, r := range tx.Rows {
					expFlat[n] += sign * r.Flat
					expCum[n] += sign * r.Cum
				}
				for n, v := range trx {
					expTr[n] += sign * v
				}
				if sign < 0 {
					baseTotal = tx.Total
				}
				sumTotal += tx.Total
				for _, r := range tx.Rows {
					sumTotalOK = sumTotalOK && r.Flat >= 0
				}
			}
			if indiv && !c07HasLarge(cs) {
				names := map[string]bool{}
				for n := range expFlat {
					names[n] = true
				}
				for n := range topAll.Rows {
					names[n] = true
				}
				var ns []string
				for n := range names {
					ns = append(ns, n)
				}
				sort.Strings(ns)
				for _, n := range ns {
					r := topAll.Rows[n]
					if r.Flat != expFlat[n] || r.Cum != expCum[n] {
						if okDirect {
							violation(sig("cli/"+cs.Mode+"/top-entry"), fmt.Sprintf("-top entry %s: flat %d cum %d, sum of the individual reports: flat %d cum %d", n, r.Flat, r.Cum, expFlat[n], expCum[n]), orig)
						}
						okDirect = false
						break
					}
				}
				for n := range trAll {
					if _, ok := expTr[n]; !ok {
						expTr[n] = 0
					}
				}
				for n, v := range expTr {
					if trAll[n] != v {
						if okDirect {
							violation(sig("cli/"+cs.Mode+"/traces-entry"), fmt.Sprintf("-traces stack %q: %d, sum of the individual reports %d", n, trAll[n], v), orig)
						}
						okDirect = false
						break
					}
				}
				// totals: with no negative value in the column the total of the combined report is the sum of the totals
				if cs.Mode == "plain" && sumTotalOK && dupName == "" {
					c.Res.Hit("plain-total-checked")
					if topAll.Total != sumTotal {
						violation(sig("cli/plain/total"), fmt.Sprintf("total of the combined report %d, sum of the totals of the individual reports %d", topAll.Total, sumTotal), orig)
						okDirect = false
					}
				}
				// -diff_base: percentages relative to the base total
				if topAll.Dup != "" {
					dupName = topAll.Dup
				}
				if dupName != "" {
					// known finding: at -files granularity the start line of the (blanked) function stays in the
					// entry's identity, so one file is listed once per distinct start line
					realViolation(c07SigFilesDup, "-files lists "+dupName+" more than once (its functions have different start lines); the rows are summed for the linearity oracle", orig)
				}
				if cs.Mode == "diff_base" && dupName == "" {
					if o.TopBases != nil {
						if o.TopBases.RC == 0 {
							baseTotal = c07ParseTop(o.TopBases.Stdout, filesGran).Total
						} else {
							baseTotal = 0
						}
					}
					if c07MixedSignDuplicates(cs) {
						// the report of a single base file is made without merging equal stacks, the
						// difference merges them: Σ|v| differs when equal stacks carry opposite signs.
						// The total is then checked against the Spec (c07.report) only.
						c.Res.Hit("diffbase-total-mixed-sign-duplicates-skipped")
						baseTotal = 0
					}
					if baseTotal > 0 {
						c.Res.Hit("diffbase-total-checked")
						if topAll.Total != baseTotal {
							violation(sig("diff_base/total-not-base-total"), fmt.Sprintf("total %d, report of the base alone has total %d", topAll.Total, baseTotal), orig)
							okDirect = false
						} else {
							for n, r := range topAll.Rows {
								if !c07PctOK(r.FlatPct, r.Flat, baseTotal) || !c07PctOK(r.CumPct, r.Cum, baseTotal) {
									violation(sig("diff_base/percentage"), fmt.Sprintf("entry %s: flat %d (%s) cum %d (%s) of base total %d", n, r.Flat, r.FlatPct, r.Cum, r.CumPct, baseTotal), orig)
									okDirect = false
									break
								}
							}
						}
					}
				}
			}
		}
		// -proto and reopen gives the same report
		if topAll != nil && o.TopRe != nil && o.TrRe != nil {
			if o.TopRe.RC != 0 || o.TrRe.RC != 0 {
				bad("report of the reopened -proto output fails", o.TopRe)
			} else {
				re := c07ParseTop(o.TopRe.Stdout, filesGran)
				if strings.Join(re.Lines, "\n") != strings.Join(topAll.Lines, "\n") {
					violation(sig("proto-reopen/top-differs/"+cs.Mode), "saving with -proto and reopening changes the -top report: "+c07Trunc(strings.Join(re.Lines, " / "))+" vs "+c07Trunc(strings.Join(topAll.Lines, " / ")), orig)
					okDirect = false
				}
				trRe, _ := c07ParseTraces(o.TrRe.Stdout)
				if fmt.Sprint(trRe) != fmt.Sprint(trAll) {
					violation(sig("proto-reopen/traces-differ/"+cs.Mode), "saving with -proto and reopening changes the -traces report", orig)
					okDirect = false
				}
			}
		}
	}

	// ---- -normalize: scaled source total equals the base total within #samples/2 ----
	if cs.Normalize {
		okDirect = run.checkNormalizeCLI(orig, cs, act, violation) && okDirect
	}

	// ---- model ----
	if c07HasLarge(cs) {
		return nt
	}
	if pruned {
		// the -proto result is pruned by drop_frames: the model (unpruned) is not compared; the
		// report-level oracles above and the Spec comparison below (on the real result) remain
		cm = ca
	}
	if cm != ca && cs.Normalize && !pinnedExplains && c07WithinRounding(cs, mp.Samples, actM) {
		// -normalize rounds once per sample; where equal stacks are merged before or after the
		// rounding is not promised, so the comparison allows half a unit per source sample of a stack
		c.Res.Hit("normalize-within-rounding")
		cm = ca
	}
	if cm != ca {
		switch {
		case pinnedExplains:
			violation(c07SigScaleNDrop, "merged result {"+c07Trunc(ca)+"} misses weight of the repaired model {"+c07Trunc(cm)+"}", orig)
		case tie:
			c.Res.Hit("normalize-near-tie-skipped")
		case okDirect:
			c.Disagree(sig("model/fetch/"+cs.Mode), "merged result differs from the model: model {"+c07Trunc(cm)+"} pprof {"+c07Trunc(ca)+"}", "theorems combine_report_eq_sum, base_report_eq_difference / correspondence Combine.fetch ~ fetchProfiles", orig)
		}
		return nt
	}
	if topAll != nil && idx >= 0 && orig.Gran == "" {
		var sb strings.Builder
		fmt.Fprintf(&sb, "c07.report %d", idx)
		c07TokProf(&sb, act.Samples, actBase)
		fmt.Fprintf(&sb, " %d", len(run.intern.locNodes))
		for _, fs := range run.intern.locNodes {
			fmt.Fprintf(&sb, " %d", len(fs))
			for _, f := range fs {
				fmt.Fprintf(&sb, " %d", f)
			}
		}
		nfn := len(run.intern.fnNames)
		fmt.Fprintf(&sb, " %d", nfn)
		rep := c.Drv.Ask(sb.String())
		cls, rr := c07Reply(rep)
		f := c07Factor(act.Types[idx].Unit)
		mism := ""
		if cls != "ok" {
			mism = "model report: " + c07Trunc(rep)
		} else {
			for n := 0; n < nfn && mism == ""; n++ {
				fl, cu := rr.int()*f, rr.int()*f
				if strings.HasPrefix(run.intern.fnNames[n], "\x00") {
					continue
				}
				r := topAll.Rows[run.intern.fnNames[n]]
				if r.Flat != fl || r.Cum != cu {
					mism = fmt.Sprintf("%s: -top flat %d cum %d, spec flat %d cum %d", run.intern.fnNames[n], r.Flat, r.Cum, fl, cu)
				}
			}
			if tot := rr.int() * f; mism == "" && tot != topAll.Total {
				mism = fmt.Sprintf("total %d, spec (computeTotal diff-base rule) %d", topAll.Total, tot)
			}
		}
		if mism != "" && okDirect {
			c.Disagree(sig("model/report"), mism, "theorem diffbase_total_spec / Spec figure = Σ over selected samples ~ -top", orig)
		}
	}
	return nt
}

// checkNormalizeCLI: with -normalize every column whose source total is non-zero satisfies
// |Σ(result)| = |Σ scaled − Σ base| ≤ #source samples / 2 (plus the float slack, < 1/2 here).
func (run *c07Run) checkNormalizeCLI(orig, cs *c07Case, act *c07Prof, violation func(string, string, any)) bool {
	c := run.c
	srcs := make([]*profile.Profile, len(cs.Sources))
	for i := range cs.Sources {
		srcs[i] = c07Build(&orig.Sources[i], i+1)
	}
	n := 0
	var merged *profile.Profile
	if len(srcs) == 1 {
		merged = srcs[0]
	} else if m, err := profile.Merge(srcs); err == nil {
		merged = m
	}
	if merged == nil {
		return true
	}
	n = len(merged.Sample)
	ok := true
	for j, t := range act.Types {
		col := -1
		for k, u := range cs.Sources[0].Types {
			if u.Type == t.Type {
				col = k
			}
		}
		if col < 0 {
			continue
		}
		var srcSum, absSum, baseSum, got int64
		for _, s := range merged.Sample {
			srcSum += s.Value[col]
			if s.Value[col] < 0 {
				absSum -= s.Value[col]
			} else {
				absSum += s.Value[col]
			}
		}
		for _, b := range cs.Bases {
			for _, s := range b.Samples {
				baseSum += s.Values[col]
			}
		}
		for _, s := range act.Samples {
			got += s.Values[j]
		}
		if srcSum == 0 {
			c.Res.Hit("normalize-zero-source-column")
			continue
		}
		ratio := math.Abs(float64(baseSum) / float64(srcSum))
		slack := float64(absSum) * ratio * math.Pow(2, -50)
		if slack >= 0.5 {
			c.Res.Hit("normalize-slack-too-large-skipped")
			continue
		}
		c.Res.Hit("normalize-bound-checked")
		if 2*math.Abs(float64(got)) > float64(n)+2*slack {
			violation("C07/normalize/total-off", fmt.Sprintf("column %s: scaled source total − base total = %d with %d source samples (base total %d, source total %d)", t.Type, got, n, baseSum, srcSum), orig)
			ok = false
		}
	}
	return ok
}
