//go:build verif

package main

// C11 — frame-dropping rules remove only the frames they name.
//
// Per case: (1) the real code ((*Profile).Prune / RemoveUninteresting / PruneFrom in process,
// `pprof -proto` on profiles carrying drop_frames/keep_frames and with -prune_from as a child
// process); (2) the direct oracle: the frame-level rule of lean/PprofVerif/Spec/Prune.lean
// evaluated by the driver (Go's regexp is evaluated here on the simplified names and sent as
// tables), plus Go-side checks: number of samples, values, labels unchanged, no sample that had
// frames becomes empty, no expressions ⇒ untouched; (3) the correspondence real code vs Lean
// model (id-for-id canonical profile).  `simplifyFunc` is unexported: it is compared with the
// model's by pruning with the anchored, quoted simplified name the model predicts.

import (
	"bytes"
	"fmt"
	"os"
	"os/exec"
	"path/filepath"
	"regexp"
	"sort"
	"strings"
	"sync"

	"github.com/google/pprof/profile"
)

func init() { register("C11", runC11) }

type c11Case struct {
	Kind      string `json:"kind"`             // prune | ru | prunefrom | simplify | cli
	Stream    string `json:"stream,omitempty"` // main | known-prune-H | known-prune_from
	Profile   string `json:"profile,omitempty"`
	Drop      string `json:"drop,omitempty"` // expression (prune: used as given; ru/cli: the profile's DropFrames)
	Keep      string `json:"keep,omitempty"`
	PruneFrom string `json:"prune_from,omitempty"`
	Name      string `json:"name,omitempty"` // simplify: hex of the function name
	// cli: sample-filter options given together with -prune_from / drop_frames
	Opts map[string]string `json:"opts,omitempty"`
	// agg: frame dropping observed through aggregating outputs
	Out     string   `json:"out,omitempty"`   // traces | proto
	Flags   []string `json:"flags,omitempty"` // granularity, -noinlines
	Rel     bool     `json:"relative_percentages,omitempty"`
	TagRoot string   `json:"tagroot,omitempty"`
	TagLeaf string   `json:"tagleaf,omitempty"`
	// multi: several sources; Profile is the first (main) source, Profile2 the second / the base
	Profile2 string `json:"profile2,omitempty"`
	Profile3 string `json:"profile3,omitempty"` // optional third source (always a plain source, after the first)
	Mode     string `json:"mode,omitempty"`     // two: pprof a [c] b | base: -base=b a [c] | diff_base: -diff_base=b a [c]
}

// simplified asks the model for simplifyFunc(name), cached.
type c11Env struct {
	c    *Ctx
	simp map[string]string
}

func (e *c11Env) simplify(name string) string {
	if s, ok := e.simp[name]; ok {
		return s
	}
	rep := e.c.Drv.Ask("simplify " + hexTok([]byte(name)))
	r := newTR(rep)
	s := r.str()
	if r.err != nil {
		s = "\x00drv:" + rep
	}
	e.simp[name] = s
	return s
}

// tbl: the simplified names of the profile's functions that re matches.
func (e *c11Env) tbl(re *regexp.Regexp, p *profile.Profile) string {
	var names []string
	for _, f := range p.Function {
		names = append(names, e.simplify(f.Name))
	}
	names = uniq(names)
	var w tw
	var ms []string
	for _, s := range names {
		if re.MatchString(s) {
			ms = append(ms, s)
		}
	}
	w.n(len(ms))
	for _, s := range ms {
		w.str(s)
	}
	return w.String()
}

func (e *c11Env) optTbl(re *regexp.Regexp, p *profile.Profile) string {
	if re == nil {
		return "0"
	}
	return "1 " + e.tbl(re, p)
}

// matcher: does a line match (function with non-empty name whose simplified name matches drop, not keep)
func (e *c11Env) lineMatcher(drop, keep *regexp.Regexp) func(profile.Line) bool {
	return func(ln profile.Line) bool {
		if ln.Function == nil || ln.Function.Name == "" {
			return false
		}
		s := e.simplify(ln.Function.Name)
		return drop.MatchString(s) && (keep == nil || !keep.MatchString(s))
	}
}

// pruneFamilies: how the hypothesis H of prune_spec_frames_partial fails for some sample. Scanning
// from the root, before the first location without any matching line:
//   famA — a location with a matching line whose root-most line does not match (its root-side lines
//          are user frames the per-sample loop does not count);
//   famB — a location whose root-most line matches but which has a non-matching line.
func pruneFamilies(p *profile.Profile, m func(profile.Line) bool) (famA, famB bool) {
	for _, s := range p.Sample {
		for i := len(s.Location) - 1; i >= 0; i-- {
			l := s.Location[i]
			n := 0
			for _, ln := range l.Line {
				if m(ln) {
					n++
				}
			}
			if n == 0 {
				break // first user location: from here on the loop and the rule agree
			}
			if !m(l.Line[len(l.Line)-1]) {
				famA = true
			} else if n < len(l.Line) {
				famB = true
			}
		}
	}
	return
}

func hypBViolated(p *profile.Profile, m func(profile.Line) bool) bool {
	a, b := pruneFamilies(p, m)
	return a || b
}

// pruneHyp asks the model which samples violate the hypothesis PruneH of prune_spec_frames_partial
// and how; the Go classification above is only used to cross-check the reply.
func pruneHyp(c *Ctx, args string, p *profile.Profile, m func(profile.Line) bool) (known bool, sig string) {
	ga, gb := pruneFamilies(p, m)
	rep := strings.Fields(c.Drv.Ask("prune.H " + args))
	a, b := false, false
	for _, f := range rep {
		a = a || f == "1"
		b = b || f == "2"
	}
	if len(rep) != len(p.Sample) || (a || b) != (ga || gb) {
		c.Disagree("C11/hypothesis-classifier", "harness and model disagree on which samples satisfy the hypothesis PruneH", "hypothesis PruneH of prune_spec_frames_partial (driver op prune.H)", map[string]string{"args": c06trunc(args)})
	}
	if a {
		return true, "C11/prune/H-violated/partial-first-user-location"
	}
	return b, "C11/prune/H-violated/top-line-match"
}

func pruneFromHyp(c *Ctx, args string, p *profile.Profile, m func(profile.Line) bool) bool {
	rep := strings.Fields(c.Drv.Ask("prunefrom.H " + args))
	v := false
	for _, f := range rep {
		v = v || f == "1"
	}
	if len(rep) != len(p.Sample) || v != hypPFViolated(p, m) {
		c.Disagree("C11/hypothesis-classifier", "harness and model disagree on which samples satisfy the hypothesis PruneFromH", "hypothesis PruneFromH of pruneFrom_spec_partial (driver op prunefrom.H)", map[string]string{"args": c06trunc(args)})
	}
	return v
}

func pruneKnownSig(p *profile.Profile, m func(profile.Line) bool) string {
	a, _ := pruneFamilies(p, m)
	if a {
		return "C11/prune/H-violated/partial-first-user-location"
	}
	return "C11/prune/H-violated/top-line-match"
}

// hypPF: the hypothesis of pruneFrom_spec_partial fails for some sample: a location on the root
// side of the sample's leaf-most matching location has a match that is not on its leaf-most line.
func hypPFViolated(p *profile.Profile, m func(profile.Line) bool) bool {
	for _, s := range p.Sample {
		seen := false
		for _, l := range s.Location {
			any := false
			for _, ln := range l.Line {
				any = any || m(ln)
			}
			if !any {
				continue
			}
			if seen && !m(l.Line[0]) {
				return true
			}
			seen = true
		}
	}
	return false
}

// unchangedData: number of samples, values, labels unchanged (the property's last sentence).
func unchangedData(before, after []string) bool {
	if len(before) != len(after) {
		return false
	}
	for i := range before {
		hb, _ := viewFrames(before[i])
		ha, _ := viewFrames(after[i])
		if hb != ha {
			return false
		}
	}
	return true
}

func isSuffix(a, b []string) bool { // a is a suffix of b (root side of a leaf-first stack)
	if len(a) > len(b) {
		return false
	}
	for i := range a {
		if a[len(a)-1-i] != b[len(b)-1-i] {
			return false
		}
	}
	return true
}

// c11RemovesOnly: every sample's location-id list in `after` is a suffix (root side) of the one in
// `before`, and every location's line list likewise; "" when so.
func c11RemovesOnly(before, after *profile.Profile) string {
	if len(before.Sample) != len(after.Sample) {
		return "sample count"
	}
	for i := range before.Sample {
		var b, a []string
		for _, l := range before.Sample[i].Location {
			b = append(b, fmt.Sprint(l.ID))
		}
		for _, l := range after.Sample[i].Location {
			a = append(a, fmt.Sprint(l.ID))
		}
		if !isSuffix(a, b) {
			return fmt.Sprintf("sample %d locations %v -> %v", i, b, a)
		}
	}
	lines := func(l *profile.Location) []string {
		var out []string
		for _, ln := range l.Line {
			var fid uint64
			if ln.Function != nil {
				fid = ln.Function.ID
			}
			out = append(out, fmt.Sprintf("%d:%d:%d", fid, ln.Line, ln.Column))
		}
		return out
	}
	bl := map[uint64][]string{}
	for _, l := range before.Location {
		bl[l.ID] = lines(l)
	}
	if len(before.Location) != len(after.Location) {
		return "location table size"
	}
	for _, l := range after.Location {
		b, ok := bl[l.ID]
		if !ok {
			return fmt.Sprintf("new location id %d", l.ID)
		}
		if a := lines(l); !isSuffix(a, b) {
			return fmt.Sprintf("location %d lines %v -> %v", l.ID, b, a)
		}
	}
	return ""
}

func c11Compile(cs c11Case, anchoredExpr bool) (drop, keep *regexp.Regexp, ok bool) {
	wrap := func(s string) string {
		if anchoredExpr {
			return "^(" + s + ")$"
		}
		return s
	}
	var err error
	if drop, err = regexp.Compile(wrap(cs.Drop)); err != nil {
		return nil, nil, false
	}
	if cs.Keep != "" {
		if keep, err = regexp.Compile(wrap(cs.Keep)); err != nil {
			return nil, nil, false
		}
	}
	return drop, keep, true
}

// c11Judge compares a pruned profile with the rule and the model. real = profile after the real code.
func c11Judge(c *Ctx, e *c11Env, cs c11Case, what string, in, real *profile.Profile, inViews []string, specS, model, unrepaired string, knownSig string, known bool) {
	realV := viewList(real)
	oracleFailed := false
	// Go-side part of the property
	if !unchangedData(inViews, realV) {
		oracleFailed = true
		c.Violation("C11/"+what+"/samples-values-labels-changed", what+" changed the number of samples, their values or labels", cs)
	} else {
		for i := range realV {
			_, fb := viewFrames(inViews[i])
			_, fa := viewFrames(realV[i])
			if len(fb) > 0 && len(fa) == 0 {
				oracleFailed = true
				c.Violation("C11/"+what+"/sample-became-empty", what+" emptied a sample that had frames", cs)
				break
			}
		}
	}
	// theorems prune_removes_only_leaf_side, pruneFrom_removes_only_leaf_side on the real code (unconditional: also in the known-finding
	// families): location lists and line lists only lose elements on the leaf side
	if !oracleFailed {
		if msg := c11RemovesOnly(in, real); msg != "" {
			oracleFailed = true
			c.Violation("C11/"+what+"/not-a-root-side-suffix", what+" did more than remove leaf-side locations/lines: "+msg, cs)
		}
	}
	// theorems prune_frames_only_removed, pruneFrom_frames_only_removed on the real code: frames after are a subsequence of frames before
	if !oracleFailed {
		for i := range realV {
			_, fb := viewFrames(inViews[i])
			_, fa := viewFrames(realV[i])
			k := 0
			for _, f := range fb {
				if k < len(fa) && fa[k] == f {
					k++
				}
			}
			if k != len(fa) {
				oracleFailed = true
				c.Violation("C11/"+what+"/frames-not-a-subsequence", fmt.Sprintf("%s: sample %d has frames %q after, not a subsequence of %q before", what, i, c06trunc(fmt.Sprint(fa)), c06trunc(fmt.Sprint(fb))), cs)
				break
			}
		}
	}
	if spec, ok := splitViews(specS); !ok {
		c.Disagree("C11/"+what+"/spec-unreadable", c06trunc(specS), "Spec (driver)", cs)
	} else if kind, rv, sv := diffViews(realV, spec); kind != "" && !oracleFailed {
		oracleFailed = true
		sig := "C11/" + what + "/" + kind
		msg := fmt.Sprintf("%s differs from the frame-level rule (%s): real %q, rule %q", what, kind, c06trunc(rv), c06trunc(sv))
		switch {
		case known && (kind == "frames-extra" || (what == "prune_from" && kind == "frames-lost")):
			sig = knownSig
		}
		c.Violation(sig, msg, cs)
	}
	c.Res.ModelCompared++
	if got := Canon(real); got != model && (!oracleFailed || known) {
		if os.Getenv("VERIF_DEBUG") != "" {
			fmt.Fprintf(os.Stderr, "REAL  %s\nMODEL %s\n", got, model)
		}
		c.Disagree("C11/"+what+"-model", what+" and the Lean model differ", "correspondence Prune model ~ profile/prune.go (theorems prune_spec_frames_partial, pruneFrom_spec_partial, prune_sample_count_values_labels)", cs)
	}
}

func c11Prune(c *Ctx, e *c11Env, cs c11Case) {
	p, err := ParseCanon(cs.Profile)
	if err != nil {
		c.Res.HarnessError = "ParseCanon: " + err.Error()
		return
	}
	drop, keep, ok := c11Compile(cs, cs.Kind == "ru")
	if !ok {
		return
	}
	args := e.tbl(drop, p) + " " + e.optTbl(keep, p) + " " + cs.Profile
	specS := c.Drv.Ask("prune.spec " + args)
	model := c.Drv.Ask("prune.model " + args)
	unrep := ""
	known, knownSig := pruneHyp(c, args, p, e.lineMatcher(drop, keep))
	in, _ := ParseCanon(cs.Profile)
	inViews := viewList(in)
	what := "prune"
	if cs.Kind == "ru" {
		what = "remove_uninteresting"
		p.DropFrames, p.KeepFrames = cs.Drop, cs.Keep
		// the model reads the expressions from the profile; they are part of the canonical text
		var rerr error
		if pn := c06safely(func() { rerr = p.RemoveUninteresting() }); pn != "" {
			c.Violation("C11/remove_uninteresting/panic", pn, cs)
			return
		}
		if rerr != nil {
			c.Violation("C11/remove_uninteresting/error-on-compilable-expression", rerr.Error(), cs)
			return
		}
		// model through removeUninteresting itself
		pin, _ := ParseCanon(cs.Profile)
		pin.DropFrames, pin.KeepFrames = cs.Drop, cs.Keep
		var w tw
		n := 1
		if cs.Keep != "" {
			n = 2
		}
		w.n(n)
		w.str("^(" + cs.Drop + ")$")
		w.tok(e.optTbl(drop, p))
		if cs.Keep != "" {
			w.str("^(" + cs.Keep + ")$")
			w.tok(e.optTbl(keep, p))
		}
		rep := c.Drv.Ask("ru.model " + w.String() + " " + Canon(pin))
		if !strings.HasPrefix(rep, "ok ") {
			c.Disagree("C11/ru-model/"+c06firstWord(rep), "model of RemoveUninteresting does not accept compilable expressions: "+c06trunc(rep), "correspondence Prune.removeUninteresting ~ RemoveUninteresting", cs)
			return
		}
		model = rep[3:]
	} else {
		if pn := c06safely(func() { p.Prune(drop, keep) }); pn != "" {
			c.Violation("C11/prune/panic", pn, cs)
			return
		}
	}
	c11Judge(c, e, cs, what, in, p, inViews, specS, model, unrep, knownSig, known)
}

func c11PruneFrom(c *Ctx, e *c11Env, cs c11Case) {
	p, err := ParseCanon(cs.Profile)
	if err != nil {
		c.Res.HarnessError = "ParseCanon: " + err.Error()
		return
	}
	re, err := regexp.Compile(cs.PruneFrom)
	if err != nil {
		return
	}
	args := e.tbl(re, p) + " " + cs.Profile
	specS := c.Drv.Ask("prunefrom.spec " + args)
	model := c.Drv.Ask("prunefrom.model " + args)
	known := pruneFromHyp(c, args, p, e.lineMatcher(re, nil))
	in, _ := ParseCanon(cs.Profile)
	inViews := viewList(in)
	if pn := c06safely(func() { p.PruneFrom(re) }); pn != "" {
		c.Violation("C11/prune_from/panic", pn, cs)
		return
	}
	c11Judge(c, e, cs, "prune_from", in, p, inViews, specS, model, "", "C11/prune_from/inlined-location-above-lowest-match", known)
}

// c11Simplify: simplifyFunc(name) of the real code equals the model's, observed through Prune:
// stack [leaf: name | root: user]; drop = ^(quoted model result)$ must remove the leaf, and
// drop = ^(quoted model result + "x")$ / a proper prefix must not.
func c11Simplify(c *Ctx, e *c11Env, cs c11Case) {
	r := newTR(cs.Name)
	name := r.str()
	if r.err != nil || name == "" {
		return
	}
	want := e.simplify(name)
	mk := func() *profile.Profile {
		f1 := &profile.Function{ID: 1, Name: name, SystemName: name}
		f2 := &profile.Function{ID: 2, Name: "user_root", SystemName: "user_root"}
		l1 := &profile.Location{ID: 1, Address: 1, Line: []profile.Line{{Function: f1, Line: 1}}}
		l2 := &profile.Location{ID: 2, Address: 2, Line: []profile.Line{{Function: f2, Line: 2}}}
		return &profile.Profile{SampleType: []*profile.ValueType{{Type: "s", Unit: "count"}}, Function: []*profile.Function{f1, f2},
			Location: []*profile.Location{l1, l2}, Sample: []*profile.Sample{{Location: []*profile.Location{l1, l2}, Value: []int64{1}}}}
	}
	run := func(expr string) (int, bool) {
		re, err := regexp.Compile("^(" + expr + ")$")
		if err != nil {
			return 0, false
		}
		p := mk()
		if pn := c06safely(func() { p.Prune(re, nil) }); pn != "" {
			c.Violation("C11/simplify/panic", pn, cs)
			return 0, false
		}
		return len(p.Sample[0].Location), true
	}
	c.Res.ModelCompared++
	if n, ok := run(regexp.QuoteMeta(want)); ok && n != 1 {
		c.Disagree("C11/simplify-model/not-equal", fmt.Sprintf("simplifyFunc(%q) is not %q (the anchored quoted name does not match)", name, want), "correspondence Prune.simplifyFunc ~ simplifyFunc", cs)
	}
	if n, ok := run(regexp.QuoteMeta(want + "\x01")); ok && n != 2 {
		c.Disagree("C11/simplify-model/longer-matches", fmt.Sprintf("simplifyFunc(%q): a longer name matches fully", name), "correspondence Prune.simplifyFunc ~ simplifyFunc", cs)
	}
	if len(want) > 0 {
		if n, ok := run(regexp.QuoteMeta(want[:len(want)-1])); ok && n != 2 {
			c.Disagree("C11/simplify-model/prefix-matches", fmt.Sprintf("simplifyFunc(%q): a proper prefix of %q matches fully", name, want), "correspondence Prune.simplifyFunc ~ simplifyFunc", cs)
		}
	}
}

// ---------- command line ----------

func c11CliEval(c *Ctx, e *c11Env, cs c11Case, res cliOut) {
	p, err := ParseCanon(cs.Profile) // carries drop_frames / keep_frames in its header
	if err != nil {
		c.Res.HarnessError = "ParseCanon: " + err.Error()
		return
	}
	if res.err == "harness" {
		c.Res.HarnessError = res.msg
		return
	}
	broken := "correspondence Prune model ~ pprof -proto on a profile with drop_frames/keep_frames / -prune_from"
	cur := cs.Profile
	known := false
	knownSig := ""
	var specS string
	if p.DropFrames != "" {
		drop, keep, ok := c11Compile(c11Case{Drop: p.DropFrames, Keep: p.KeepFrames}, true)
		if !ok {
			if res.err == "" {
				// RemoveUninteresting's error is ignored by fetchProfiles: the profile is used unpruned
				c.Res.Hit("cli:uncompilable-expression-ignored")
			}
			return
		}
		var w tw
		n := 1
		if p.KeepFrames != "" {
			n = 2
		}
		w.n(n)
		w.str("^(" + p.DropFrames + ")$")
		w.tok(e.optTbl(drop, p))
		if p.KeepFrames != "" {
			w.str("^(" + p.KeepFrames + ")$")
			w.tok(e.optTbl(keep, p))
		}
		rep := c.Drv.Ask("ru.model " + w.String() + " " + cur)
		if !strings.HasPrefix(rep, "ok ") {
			c.Disagree("C11/cli-model/"+c06firstWord(rep), c06trunc(rep), broken, cs)
			return
		}
		cur = rep[3:]
		known = hypBViolated(p, e.lineMatcher(drop, keep))
		knownSig = pruneKnownSig(p, e.lineMatcher(drop, keep))
		if cs.PruneFrom == "" {
			specS = c.Drv.Ask("prune.spec " + e.tbl(drop, p) + " " + e.optTbl(keep, p) + " " + cs.Profile)
		}
	}
	if len(cs.Opts) > 0 {
		// applyFocus: the sample filters decide on the stacks as fetched (after drop/keep frames),
		// prune_from comes last
		q, _ := ParseCanon(cur)
		ot, ok := optsTok(cs.Opts, q)
		if !ok {
			return
		}
		rep := c.Drv.Ask("apply.model " + ot + " " + cur)
		i := strings.Index(rep, " | ")
		if !strings.HasPrefix(rep, "ok ") || i < 0 {
			if res.err == "" {
				c.Disagree("C11/cli-model/filters-"+c06firstWord(rep), "model rejects the filter options, pprof accepts them", broken, cs)
			}
			return
		}
		cur = rep[3:i]
		specS = "" // the prune-only rule does not apply; see the composition oracle below
	}
	if cs.PruneFrom != "" {
		re, err := regexp.Compile(cs.PruneFrom)
		if err != nil {
			return
		}
		q, _ := ParseCanon(cur)
		if p.DropFrames == "" && len(cs.Opts) == 0 {
			specS = c.Drv.Ask("prunefrom.spec " + e.tbl(re, q) + " " + cur)
			known = hypPFViolated(q, e.lineMatcher(re, nil))
			knownSig = "C11/prune_from/inlined-location-above-lowest-match"
		}
		cur = c.Drv.Ask("prunefrom.model " + e.tbl(re, q) + " " + cur)
	}
	c.Res.ModelCompared++
	if res.err != "" {
		c.Violation("C11/cli/"+res.err, "pprof -proto fails on a valid profile with frame-dropping expressions: "+res.msg, cs)
		return
	}
	mviews, ok := splitViews(c.Drv.Ask("views " + cur))
	if !ok {
		c.Disagree("C11/cli-model/unreadable", c06trunc(cur), broken, cs)
		return
	}
	in, _ := ParseCanon(cs.Profile)
	oracleFailed := false
	if len(cs.Opts) == 0 {
		if !unchangedData(viewList(in), res.views) {
			oracleFailed = true
			c.Violation("C11/cli/samples-values-labels-changed", "frame dropping through pprof changed the number of samples, their values or labels", cs)
		}
	} else if p.DropFrames == "" {
		// composition rule: WHICH samples stay (with their values and labels) is decided by the sample
		// filters on the unpruned stacks (frame-level rule of C06); prune_from then only shortens stacks.
		nameOnly := true
		for k := range cs.Opts {
			if k != "focus" && k != "ignore" && k != "hide" && k != "show" {
				nameOnly = false
			}
		}
		if nameOnly {
			var rx [4]string
			cands := nameCands(in)
			for i, k := range []string{"focus", "ignore", "hide", "show"} {
				re, err := compileOpt(cs.Opts[k])
				if err != nil {
					return
				}
				rx[i] = rxTok(re, cands)
			}
			if spec, ok := splitViews(c.Drv.Ask("name.spec " + strings.Join(rx[:], " ") + " " + cs.Profile)); ok {
				heads := func(vs []string) []string {
					out := make([]string, len(vs))
					for i, v := range vs {
						out[i], _ = viewFrames(v)
					}
					return out
				}
				hr, hs := heads(res.views), heads(spec)
				if strings.Join(hr, "|") != strings.Join(hs, "|") {
					oracleFailed = true
					c.Violation("C11/cli/filters-with-prune_from/kept-samples", fmt.Sprintf("pprof -proto %v -prune_from=%q keeps %d samples; the sample filters evaluated on the unpruned stacks keep %d (values/labels %q vs %q)", cs.Opts, cs.PruneFrom, len(hr), len(hs), c06trunc(strings.Join(hr, "|")), c06trunc(strings.Join(hs, "|"))), cs)
				}
			}
		}
	}
	if specS != "" && !oracleFailed {
		if spec, ok := splitViews(specS); ok {
			if kind, rv, sv := diffViews(res.views, spec); kind != "" {
				oracleFailed = true
				sig := "C11/cli/" + kind
				if known && (kind == "frames-extra" || (cs.PruneFrom != "" && kind == "frames-lost")) {
					sig = knownSig
				}
				c.Violation(sig, fmt.Sprintf("pprof -proto (drop_frames=%q keep_frames=%q prune_from=%q) differs from the frame-level rule (%s): real %q, rule %q", p.DropFrames, p.KeepFrames, cs.PruneFrom, kind, c06trunc(rv), c06trunc(sv)), cs)
			}
		}
	}
	if kind, rv, mv := diffViews(res.views, mviews); kind != "" && (!oracleFailed || known) {
		c.Disagree("C11/cli-model/"+kind, fmt.Sprintf("pprof -proto and the Lean model differ: real %q, model %q", c06trunc(rv), c06trunc(mv)), broken, cs)
	}
}

// ---------- frame dropping seen through aggregating outputs ----------
//
// drop_frames/keep_frames are applied when the profile is fetched, -tagroot/-tagleaf then add the
// label frames, -prune_from runs with the sample filters — all on the ORIGINAL frame names; only
// then does the chosen granularity / -noinlines erase names and inlined lines. Expected stacks:
// aggregate ∘ prune_from ∘ tags ∘ drop/keep (model), observed: -traces (value and number of frames
// per sample) or -proto -noinlines (stacks by name).

func (cs c11Case) asC06() c06Case {
	fl := append([]string(nil), cs.Flags...)
	if cs.PruneFrom != "" {
		fl = append(fl, "-prune_from="+cs.PruneFrom)
	}
	return c06Case{Out: cs.Out, Flags: fl, Rel: cs.Rel, TagRoot: cs.TagRoot, TagLeaf: cs.TagLeaf}
}

type c11AggOut struct {
	text string
	prof cliOut
	errs string
}

func c11RunAgg(bin, dir string, i int, p *profile.Profile, cs c11Case) c11AggOut {
	k := cs.asC06()
	if cs.Out == "proto" {
		extra := append(append([]string(nil), k.Flags...), tagFlags(k)...)
		if cs.Rel {
			extra = append(extra, "-relative_percentages")
		}
		r := runPprofProto(bin, dir, 200000+i, p, nil, extra...)
		return c11AggOut{prof: r, errs: r.err}
	}
	t, e := runPprofAgg(bin, dir, 200000+i, p, k)
	return c11AggOut{text: t, errs: e}
}

func c11AggEval(c *Ctx, e *c11Env, cs c11Case, res c11AggOut) {
	p, err := ParseCanon(cs.Profile)
	if err != nil {
		c.Res.HarnessError = "ParseCanon: " + err.Error()
		return
	}
	if strings.HasPrefix(res.errs, "harness") {
		c.Res.HarnessError = res.errs + res.prof.msg
		return
	}
	cur := cs.Profile
	if p.DropFrames != "" {
		drop, keep, ok := c11Compile(c11Case{Drop: p.DropFrames, Keep: p.KeepFrames}, true)
		if !ok {
			return
		}
		var w tw
		n := 1
		if p.KeepFrames != "" {
			n = 2
		}
		w.n(n)
		w.str("^(" + p.DropFrames + ")$")
		w.tok(e.optTbl(drop, p))
		if p.KeepFrames != "" {
			w.str("^(" + p.KeepFrames + ")$")
			w.tok(e.optTbl(keep, p))
		}
		rep := c.Drv.Ask("ru.model " + w.String() + " " + cur)
		if !strings.HasPrefix(rep, "ok ") {
			c.Disagree("C11/agg-model/"+c06firstWord(rep), c06trunc(rep), "correspondence Prune.removeUninteresting ~ RemoveUninteresting", cs)
			return
		}
		cur = rep[3:]
	}
	q, err := ParseCanon(cur)
	if err != nil {
		c.Disagree("C11/agg-model/unreadable", c06trunc(cur), "driver", cs)
		return
	}
	if cs.TagRoot != "" || cs.TagLeaf != "" {
		q = extendWithTags(q, cs.TagRoot, cs.TagLeaf)
		cur = Canon(q)
	}
	if cs.PruneFrom != "" {
		re, err := regexp.Compile(cs.PruneFrom)
		if err != nil {
			return
		}
		cur = c.Drv.Ask("prunefrom.model " + e.tbl(re, q) + " " + cur)
		if q, err = ParseCanon(cur); err != nil {
			c.Disagree("C11/agg-model/unreadable", c06trunc(cur), "driver", cs)
			return
		}
	}
	c.Res.ModelCompared++
	desc := fmt.Sprintf("drop_frames=%q keep_frames=%q prune_from=%q tagroot=%q tagleaf=%q %v relative_percentages=%v", p.DropFrames, p.KeepFrames, cs.PruneFrom, cs.TagRoot, cs.TagLeaf, cs.Flags, cs.Rel)
	if res.errs != "" {
		c.Violation("C11/agg/"+cs.Out+"/"+c06firstWord(res.errs), "pprof -"+cs.Out+" fails on a valid profile ("+desc+"): "+res.errs+" "+res.prof.msg, cs)
		return
	}
	noinl := hasFlag(cs.Flags, "-noinlines")
	col := len(q.SampleType) - 1
	if cs.Out == "traces" {
		var want []string
		for _, sm := range q.Sample {
			if len(sm.Location) == 0 {
				continue
			}
			n := 0
			for _, l := range sm.Location {
				if noinl || len(l.Line) == 0 {
					n++
				} else {
					n += len(l.Line)
				}
			}
			want = append(want, fmt.Sprintf("%d/%d", sm.Value[col], n))
		}
		got := parseTraces(res.text)
		if strings.Join(got, " ") != strings.Join(want, " ") {
			c.Violation("C11/agg/traces/stacks", fmt.Sprintf("pprof -traces (%s) prints samples (value/frames) %v; frame dropping on the original names followed by aggregation gives %v", desc, got, want), cs)
		}
		return
	}
	// -proto: granularity is forced to addresses; -noinlines keeps the outermost line of a location
	if noinl {
		for _, l := range q.Location {
			if len(l.Line) > 1 {
				l.Line = l.Line[len(l.Line)-1:]
			}
		}
	}
	erase := func(vs []string) []string { // line/column are erased or kept depending on flags: compare names only
		return vs
	}
	want, got := c11Stacks(q), c11Stacks(res.prof.prof)
	_ = erase
	if strings.Join(got, "\n") != strings.Join(want, "\n") {
		i := 0
		for i < len(got) && i < len(want) && got[i] == want[i] {
			i++
		}
		g, w := "", ""
		if i < len(got) {
			g = got[i]
		}
		if i < len(want) {
			w = want[i]
		}
		c.Violation("C11/agg/proto/stacks", fmt.Sprintf("pprof -proto (%s): sample %d has stack %q; frame dropping on the original names followed by aggregation gives %q", desc, i, c06trunc(g), c06trunc(w)), cs)
	}
}

// c11Stacks: per sample its values and the function names of its frames (leaf first).
func c11Stacks(p *profile.Profile) []string {
	out := make([]string, len(p.Sample))
	for i, s := range p.Sample {
		var fr []string
		for _, l := range s.Location {
			if len(l.Line) == 0 {
				fr = append(fr, "<unsymbolized>")
			}
			for _, ln := range l.Line {
				fr = append(fr, fmt.Sprintf("%q", ln.Function.Name))
			}
		}
		out[i] = fmt.Sprint(s.Value) + " " + strings.Join(fr, " ")
	}
	return out
}

// ---------- several sources: the frame-dropping rules are those of the FIRST source ----------

// ruModelOn applies the model of RemoveUninteresting to q carrying the given expressions.
func ruModelOn(c *Ctx, e *c11Env, q *profile.Profile, dropF, keepF string) (*profile.Profile, bool) {
	q.DropFrames, q.KeepFrames = dropF, keepF
	cur := Canon(q)
	if dropF == "" {
		return q, true
	}
	drop, keep, ok := c11Compile(c11Case{Drop: dropF, Keep: keepF}, true)
	if !ok {
		return nil, false
	}
	var w tw
	n := 1
	if keepF != "" {
		n = 2
	}
	w.n(n)
	w.str("^(" + dropF + ")$")
	w.tok(e.optTbl(drop, q))
	if keepF != "" {
		w.str("^(" + keepF + ")$")
		w.tok(e.optTbl(keep, q))
	}
	rep := c.Drv.Ask("ru.model " + w.String() + " " + cur)
	if !strings.HasPrefix(rep, "ok ") {
		return nil, false
	}
	r, err := ParseCanon(rep[3:])
	return r, err == nil
}

// sampleLines: values, labels and frame names of every sample, sorted (a multiset).
func sampleLines(p *profile.Profile) []string {
	vs := viewList(p)
	st := c11Stacks(p)
	out := make([]string, len(vs))
	for i := range vs {
		h, _ := viewFrames(vs[i])
		out[i] = h + " :: " + st[i][strings.Index(st[i], "]")+1:]
	}
	sort.Strings(out)
	return out
}

func c11RunMulti(bin, dir string, i int, a, b, c3 *profile.Profile, mode string) cliOut {
	fa := filepath.Join(dir, fmt.Sprintf("ma-%d.pb.gz", i))
	fb := filepath.Join(dir, fmt.Sprintf("mb-%d.pb.gz", i))
	fc := filepath.Join(dir, fmt.Sprintf("mc-%d.pb.gz", i))
	out := filepath.Join(dir, fmt.Sprintf("mo-%d.pb.gz", i))
	srcs := []struct {
		f string
		p *profile.Profile
	}{{fa, a}, {fb, b}}
	if c3 != nil {
		srcs = append(srcs, struct {
			f string
			p *profile.Profile
		}{fc, c3})
	}
	for _, x := range srcs {
		f, err := os.Create(x.f)
		if err != nil {
			return cliOut{err: "harness", msg: err.Error()}
		}
		if err := x.p.Write(f); err != nil {
			f.Close()
			return cliOut{err: "harness", msg: err.Error()}
		}
		f.Close()
	}
	args := []string{"-proto", "-symbolize=none", "-output=" + out}
	main := []string{fa}
	if c3 != nil {
		main = append(main, fc) // the third source is the MIDDLE one: a c b
	}
	switch mode {
	case "base":
		args = append(append(args, "-base="+fb), main...)
	case "diff_base":
		args = append(append(args, "-diff_base="+fb), main...)
	default:
		args = append(append(args, main...), fb)
	}
	cmd := exec.Command(bin, args...)
	cmd.Env = append(os.Environ(), "PPROF_BINARY_PATH="+filepath.Join(dir, "nobin"), "PPROF_TMPDIR="+dir, "HOME="+dir)
	var stderr bytes.Buffer
	cmd.Stderr = &stderr
	if err := cmd.Run(); err != nil {
		return cliOut{err: "exit", msg: c06trunc(stderr.String())}
	}
	bs, err := os.ReadFile(out)
	if err != nil {
		return cliOut{err: "exit", msg: "no output: " + c06trunc(stderr.String())}
	}
	q, err := profile.ParseData(bs)
	if err != nil {
		return cliOut{err: "parse", msg: err.Error()}
	}
	os.Remove(fa)
	os.Remove(fb)
	os.Remove(fc)
	os.Remove(out)
	return cliOut{prof: q, views: viewList(q)}
}

func c11MultiEval(c *Ctx, e *c11Env, cs c11Case, res cliOut) {
	a, err1 := ParseCanon(cs.Profile)
	b, err2 := ParseCanon(cs.Profile2)
	if err1 != nil || err2 != nil {
		c.Res.HarnessError = "ParseCanon (multi)"
		return
	}
	if res.err == "harness" {
		c.Res.HarnessError = res.msg
		return
	}
	dropF, keepF := a.DropFrames, a.KeepFrames // the rules of the first source on the command line, and only those
	desc := fmt.Sprintf("mode=%s first source (%d samples) drop_frames=%q keep_frames=%q, other source (%d samples) drop_frames=%q keep_frames=%q", cs.Mode, len(a.Sample), dropF, keepF, len(b.Sample), b.DropFrames, b.KeepFrames)
	var ec *profile.Profile
	ok3 := true
	if cs.Profile3 != "" {
		c3, err := ParseCanon(cs.Profile3)
		if err != nil {
			c.Res.HarnessError = "ParseCanon (multi, third source)"
			return
		}
		desc += fmt.Sprintf(", middle source (%d samples) drop_frames=%q keep_frames=%q", len(c3.Sample), c3.DropFrames, c3.KeepFrames)
		ec, ok3 = ruModelOn(c, e, c3, dropF, keepF)
	}
	ea, ok1 := ruModelOn(c, e, a, dropF, keepF)
	eb, ok2 := ruModelOn(c, e, b, dropF, keepF)
	if !ok1 || !ok2 || !ok3 {
		c.Disagree("C11/multi-model", "model of RemoveUninteresting gives no result", "correspondence Prune.removeUninteresting ~ RemoveUninteresting", cs)
		return
	}
	if cs.Mode != "two" {
		for _, sm := range eb.Sample {
			for i := range sm.Value {
				sm.Value[i] = -sm.Value[i]
			}
			if cs.Mode == "diff_base" {
				if sm.Label == nil {
					sm.Label = map[string][]string{}
				}
				sm.Label["pprof::base"] = []string{"true"}
			}
		}
	}
	c.Res.ModelCompared++
	if res.err != "" {
		c.Violation("C11/multi/"+res.err, "pprof -proto on two valid sources fails ("+desc+"): "+res.msg, cs)
		return
	}
	want := append(sampleLines(ea), sampleLines(eb)...)
	if ec != nil {
		want = append(want, sampleLines(ec)...)
	}
	sort.Strings(want)
	got := sampleLines(res.prof)
	if strings.Join(got, "\n") != strings.Join(want, "\n") {
		i := 0
		for i < len(got) && i < len(want) && got[i] == want[i] {
			i++
		}
		g, w := "", ""
		if i < len(got) {
			g = got[i]
		}
		if i < len(want) {
			w = want[i]
		}
		c.Violation("C11/multi/first-source-rules", fmt.Sprintf("pprof -proto on two sources (%s): %d samples, first difference %q; applying the first source's drop/keep rules to every sample gives %d samples, %q", desc, len(got), c06trunc(g), len(want), c06trunc(w)), cs)
	}
}

// ---------- interactive mode: option assignments whose VALUE contains '=' ----------

// c11RunInteractive feeds `prune_from=<value>` and `proto` to pprof's interactive mode (stdin) and
// reads the profile it writes (profile001.pb.gz in the working directory).
func c11RunInteractive(bin, dir string, i int, p *profile.Profile, cs c11Case) c11AggOut {
	wd, err := os.MkdirTemp(dir, fmt.Sprintf("inter-%d-", i))
	if err != nil {
		return c11AggOut{errs: "harness: " + err.Error()}
	}
	in := filepath.Join(wd, "in.pb.gz")
	f, err := os.Create(in)
	if err != nil {
		return c11AggOut{errs: "harness: " + err.Error()}
	}
	if err := p.Write(f); err != nil {
		f.Close()
		return c11AggOut{errs: "harness: " + err.Error()}
	}
	f.Close()
	cmd := exec.Command(bin, "-symbolize=none", in)
	cmd.Dir = wd
	cmd.Env = append(os.Environ(), "PPROF_BINARY_PATH="+filepath.Join(dir, "nobin"), "PPROF_TMPDIR="+wd, "HOME="+wd)
	cmd.Stdin = strings.NewReader("prune_from=" + cs.PruneFrom + "\nproto\nquit\n")
	var stderr bytes.Buffer
	cmd.Stderr = &stderr
	if err := cmd.Run(); err != nil {
		return c11AggOut{errs: "exit: " + c06trunc(stderr.String())}
	}
	b, err := os.ReadFile(filepath.Join(wd, "profile001.pb.gz"))
	if err != nil {
		return c11AggOut{errs: "exit: no report written: " + c06trunc(stderr.String())}
	}
	q, err := profile.ParseData(b)
	if err != nil {
		return c11AggOut{errs: "parse: " + err.Error()}
	}
	return c11AggOut{prof: cliOut{prof: q, views: viewList(q)}}
}

// ---------- generators ----------

var c11Names = []string{"d1", "d2", "d3", "k1", "kd", "u1", "u2", "main", ".d1", "d2(int)", "ns::(anonymous namespace)::d1(int)",
	"A::operator()(int)", "operator()", "(anonymous namespace)", "d1(y)(z)", "", "u(", "k1<int>(x)", "(d1", ".", "..d1", "doperator()x(", "d1 (anonymous namespace)(",
	"operator new", "operators_impl", "d1 x", "u 1"}

// prune_from values, among them values whose leading / trailing blanks and empty alternatives are
// significant (an empty alternative matches every frame): they must be compiled exactly as given.
var c11PruneFroms = []string{"d1", "^d", "d.$", "k1|d2", "main", "u", "1$", "nomatch", "operator", "operator ", "main|", "|d1", "d1||d2", " d1", "d1 ", "\td1", " x", " 1", "u ", "operator n"}
var c11Drops = []string{"d1", "d.", "d.*", "d1|d2", "d2|d3", "k1|d.*", ".*", "[dk].*", "d1|kd", "u1", "main|d1", "A::operator\\(\\)", "ns::\\(anonymous namespace\\)::d1", "", "d1 \\(anonymous namespace\\)", "nomatch"}
var c11Keeps = []string{"", "", "k1", "d2", "kd|d1", "k.*", ".*1", "d.*", "nomatch"}

func genC11Profile(r *Rng, forCLI bool) *profile.Profile {
	p := &profile.Profile{SampleType: []*profile.ValueType{{Type: "samples", Unit: "count"}}}
	if r.Chance(50) {
		p.SampleType = append(p.SampleType, &profile.ValueType{Type: "cpu", Unit: "count"})
	}
	m := &profile.Mapping{ID: 1, Start: 0x400000, Limit: 0x480000, File: "/nonexistent/bin/prog"}
	p.Mapping = []*profile.Mapping{m}
	nf := 3 + r.Intn(8)
	for i := 0; i < nf; i++ {
		n := c11Names[r.Intn(len(c11Names))]
		if r.Chance(55) {
			n = c11Names[r.Intn(8)] // the plain ones more often
		}
		p.Function = append(p.Function, &profile.Function{ID: uint64(i + 1), Name: n, SystemName: n, Filename: "f.cc"})
	}
	nl := 2 + r.Intn(7)
	for i := 0; i < nl; i++ {
		l := &profile.Location{ID: uint64(i + 1), Mapping: m, Address: m.Start + uint64(16*i)}
		nln := 1
		switch {
		case r.Chance(8):
			nln = 0
		case r.Chance(50):
			nln = 2 + r.Intn(3)
		}
		for j := 0; j < nln; j++ {
			l.Line = append(l.Line, profile.Line{Function: p.Function[r.Intn(len(p.Function))], Line: int64(1 + r.Intn(50))})
		}
		p.Location = append(p.Location, l)
	}
	ns := 1 + r.Intn(6)
	for i := 0; i < ns; i++ {
		s := &profile.Sample{}
		d := 1 + r.Intn(6)
		if r.Chance(8) {
			d = 0
		}
		for j := 0; j < d; j++ {
			s.Location = append(s.Location, p.Location[r.Intn(len(p.Location))])
		}
		for range p.SampleType {
			s.Value = append(s.Value, int64(r.Intn(1000))-100)
		}
		if r.Chance(40) {
			s.Label = map[string][]string{"k": {[]string{"v", "w"}[r.Intn(2)]}}
		}
		if r.Chance(30) {
			s.NumLabel = map[string][]int64{"bytes": {int64(r.Intn(100))}}
			s.NumUnit = map[string][]string{"bytes": {"kb"}}
		}
		p.Sample = append(p.Sample, s)
	}
	return p
}

func c11Stats(c *Ctx, e *c11Env, p *profile.Profile, m func(profile.Line) bool, pfx string) bool {
	uses := map[uint64]int{}
	for _, s := range p.Sample {
		seen := map[uint64]bool{}
		for _, l := range s.Location {
			if !seen[l.ID] {
				seen[l.ID] = true
				uses[l.ID]++
			}
		}
	}
	some, all := false, true
	for _, l := range p.Location {
		if uses[l.ID] == 0 {
			continue
		}
		n := 0
		for _, ln := range l.Line {
			if m(ln) {
				n++
			}
		}
		if n > 0 {
			some = true
		} else {
			all = false
		}
		switch {
		case n > 0 && n < len(l.Line) && m(l.Line[len(l.Line)-1]):
			c.Res.Hit(pfx + ":location:root-most-line-matches-inner-does-not")
		case n > 0 && n < len(l.Line):
			c.Res.Hit(pfx + ":location:match-in-the-middle-or-leaf-of-inlined-location")
			if uses[l.ID] > 1 {
				c.Res.Hit(pfx + ":location:partial-match-shared-by-samples")
			}
		case n > 0:
			c.Res.Hit(pfx + ":location:all-lines-match")
		}
	}
	for _, s := range p.Sample {
		if k := len(s.Location); k > 0 {
			root, leaf := s.Location[k-1], s.Location[0]
			if len(root.Line) > 0 && m(root.Line[len(root.Line)-1]) {
				c.Res.Hit(pfx + ":sample:match-at-root")
			}
			if len(leaf.Line) > 0 && m(leaf.Line[0]) {
				c.Res.Hit(pfx + ":sample:match-at-leaf")
			}
		}
	}
	return some && !all
}

func c11Key(cs c11Case) string {
	return fmt.Sprintf("%s|%s|%s|%s|%s|%s", cs.Kind, cs.Drop, cs.Keep, cs.PruneFrom, cs.Name, cs.Profile)
}

func runC11Case(c *Ctx, e *c11Env, cs c11Case) {
	switch cs.Kind {
	case "prune", "ru":
		c11Prune(c, e, cs)
	case "prunefrom":
		c11PruneFrom(c, e, cs)
	case "simplify":
		c11Simplify(c, e, cs)
	case "noexpr":
		c11NoExpr(c, cs)
	case "inter":
		p, err := ParseCanon(cs.Profile)
		if err != nil {
			c.Res.HarnessError = err.Error()
			return
		}
		dir, err := os.MkdirTemp("", "pv-c11-")
		if err != nil {
			c.Res.HarnessError = err.Error()
			return
		}
		defer os.RemoveAll(dir)
		ev := cs
		ev.Out = "proto"
		c11AggEval(c, e, ev, c11RunInteractive(c.Pprof, dir, 0, p, cs))
	case "multi":
		a, err1 := ParseCanon(cs.Profile)
		b, err2 := ParseCanon(cs.Profile2)
		if err1 != nil || err2 != nil {
			c.Res.HarnessError = "ParseCanon (multi)"
			return
		}
		dir, err := os.MkdirTemp("", "pv-c11-")
		if err != nil {
			c.Res.HarnessError = err.Error()
			return
		}
		defer os.RemoveAll(dir)
		var c3 *profile.Profile
		if cs.Profile3 != "" {
			if c3, err = ParseCanon(cs.Profile3); err != nil {
				c.Res.HarnessError = "ParseCanon (multi)"
				return
			}
		}
		c11MultiEval(c, e, cs, c11RunMulti(c.Pprof, dir, 0, a, b, c3, cs.Mode))
	case "agg":
		p, err := ParseCanon(cs.Profile)
		if err != nil {
			c.Res.HarnessError = err.Error()
			return
		}
		dir, err := os.MkdirTemp("", "pv-c11-")
		if err != nil {
			c.Res.HarnessError = err.Error()
			return
		}
		defer os.RemoveAll(dir)
		c11AggEval(c, e, cs, c11RunAgg(c.Pprof, dir, 0, p, cs))
	case "cli":
		p, err := ParseCanon(cs.Profile)
		if err != nil {
			c.Res.HarnessError = err.Error()
			return
		}
		dir, err := os.MkdirTemp("", "pv-c11-")
		if err != nil {
			c.Res.HarnessError = err.Error()
			return
		}
		defer os.RemoveAll(dir)
		c11CliEval(c, e, cs, c11RunCli(c.Pprof, dir, 0, p, cs))
	default:
		c.Res.HarnessError = "unknown case kind " + cs.Kind
	}
}

func c11RunCli(bin, dir string, i int, p *profile.Profile, cs c11Case) cliOut {
	var extra []string
	if cs.PruneFrom != "" {
		extra = append(extra, "-prune_from="+cs.PruneFrom)
	}
	return runPprofProto(bin, dir, i, p, cs.Opts, extra...)
}

// c11NoExpr: a profile without drop_frames is left untouched by RemoveUninteresting (also when
// keep_frames is set).
func c11NoExpr(c *Ctx, cs c11Case) {
	p, err := ParseCanon(cs.Profile)
	if err != nil {
		c.Res.HarnessError = err.Error()
		return
	}
	p.DropFrames, p.KeepFrames = "", cs.Keep
	before := Canon(p)
	var rerr error
	if pn := c06safely(func() { rerr = p.RemoveUninteresting() }); pn != "" {
		c.Violation("C11/remove_uninteresting/panic", pn, cs)
		return
	}
	if rerr != nil || Canon(p) != before {
		c.Violation("C11/remove_uninteresting/no-expressions-not-identity", "a profile without drop_frames is changed by RemoveUninteresting", cs)
	}
	c.Res.ModelCompared++
	if rep := c.Drv.Ask("ru.model 0 " + before); rep != "ok "+before {
		c.Disagree("C11/ru-model/noexpr", c06trunc(rep), "theorem removeUninteresting_noexpr_id", cs)
	}
}

func runC11(c *Ctx) {
	c.Res.Rule = "profiles with inlined multi-line locations (match at the root-most line, in the middle, at the leaf-most line), locations shared by several samples, unsymbolized locations, empty stacks, functions with empty names and names that simplifyFunc rewrites (leading '.', argument lists, reserved '(anonymous namespace)' / 'operator()'); drop/keep expressions from a list of alternations/classes/wildcards, anchored as RemoveUninteresting does and unanchored for Prune; streams: Prune, RemoveUninteresting, PruneFrom (inputs violating the hypothesis of the _partial theorems on known-finding streams), simplifyFunc through anchored quoted names, no-expression identity, `pprof -proto` on profiles carrying drop_frames/keep_frames and with -prune_from, also combined with focus/ignore/hide/show/tagfocus expressions that match on the leaf side of the prune point (the filters must decide on the unpruned stacks), and `pprof -traces` / `-proto -noinlines` with every granularity (default, functions, files, lines, addresses, filefunctions), -noinlines, -relative_percentages on/off and -tagroot/-tagleaf (expected stacks = aggregation applied AFTER drop/keep frames, label frames and prune_from on the original names; sparse ids and id tables that are not sorted), and two-source runs (pprof a b, -base, -diff_base) with two or three sources that carry different, also empty, drop_frames/keep_frames, half of them with a source that has NO samples (first, middle or last) (the rules of the first source on the command line only apply, to every sample), and the interactive mode (`prune_from=<value containing '='>` then `proto` on stdin). non-trivial = the expressions match at least one but not all locations in use; distinct by expressions + canonical profile"
	e := &c11Env{c: c, simp: map[string]string{}}
	if c.Replay != "" {
		var cs c11Case
		if err := c.LoadReplay(&cs); err != nil {
			c.Res.HarnessError = err.Error()
			return
		}
		runC11Case(c, e, cs)
		c.Res.Evaluations++
		return
	}
	r := NewRng(c.Seed).Fork()
	pick := func(ss []string) string { return ss[r.Intn(len(ss))] }
	for i := 0; i < 1200*c.Scale; i++ {
		p := genC11Profile(r, false)
		cs := c11Case{Kind: "prune", Stream: "main", Profile: Canon(p), Drop: pick(c11Drops), Keep: pick(c11Keeps)}
		if i%2 == 1 {
			cs.Kind = "ru"
			if cs.Drop == "" {
				cs.Drop = "d1"
			}
		} else if r.Chance(50) {
			cs.Drop = "^(" + cs.Drop + ")$"
		}
		drop, keep, ok := c11Compile(cs, cs.Kind == "ru")
		if !ok {
			continue
		}
		m := e.lineMatcher(drop, keep)
		if hypBViolated(p, m) {
			cs.Stream = "known-prune-H"
		}
		c.Res.Hit(cs.Kind + ":stream:" + cs.Stream)
		if keep != nil {
			c.Res.Hit(cs.Kind + ":with-keep")
		}
		c.Res.Count(c11Key(cs), c11Stats(c, e, p, m, "prune"))
		if i < 2 {
			c.Res.Sample(map[string]any{"kind": cs.Kind, "drop": cs.Drop, "keep": cs.Keep, "shape": describe(p), "profile": c06trunc(cs.Profile)})
		}
		c11Prune(c, e, cs)
	}
	for i := 0; i < 500*c.Scale; i++ {
		p := genC11Profile(r, false)
		cs := c11Case{Kind: "prunefrom", Stream: "main", Profile: Canon(p), PruneFrom: pick(append([]string{"^$", "\\(anonymous", "."}, c11PruneFroms...))}
		re, err := regexp.Compile(cs.PruneFrom)
		if err != nil {
			continue
		}
		m := e.lineMatcher(re, nil)
		if hypPFViolated(p, m) {
			cs.Stream = "known-prune_from"
		}
		c.Res.Hit("prunefrom:stream:" + cs.Stream)
		c.Res.Count(c11Key(cs), c11Stats(c, e, p, m, "prunefrom"))
		c11PruneFrom(c, e, cs)
	}
	// simplifyFunc
	parts := []string{".", "d1", "(", ")", "(anonymous namespace)", "operator()", "operator", "::", "x", "(int)", " ", "\xff", "é", "(anonymous", "namespace)", "op"}
	for i := 0; i < 400*c.Scale; i++ {
		var sb strings.Builder
		if i < len(c11Names) {
			sb.WriteString(c11Names[i])
		} else {
			for k, n := 0, 1+r.Intn(5); k < n; k++ {
				sb.WriteString(parts[r.Intn(len(parts))])
			}
		}
		cs := c11Case{Kind: "simplify", Name: hexTok([]byte(sb.String()))}
		c.Res.Hit("simplify")
		c.Res.Count(c11Key(cs), e.simplify(sb.String()) != sb.String())
		c11Simplify(c, e, cs)
	}
	for i := 0; i < 100*c.Scale; i++ {
		p := genC11Profile(r, false)
		cs := c11Case{Kind: "noexpr", Profile: Canon(p), Keep: pick(c11Keeps)}
		c.Res.Hit("noexpr")
		c.Res.Count(c11Key(cs), len(p.Sample) > 0)
		c11NoExpr(c, cs)
	}
	if c.Pprof == "" {
		c.Res.Notes = append(c.Res.Notes, "no pprof binary: command-line stream skipped")
		return
	}
	dir, err := os.MkdirTemp("", "pv-c11-")
	if err != nil {
		c.Res.HarnessError = err.Error()
		return
	}
	defer os.RemoveAll(dir)
	nCombo := 200 * c.Scale
	nCli := 300*c.Scale + nCombo
	cases := make([]c11Case, nCli)
	profs := make([]*profile.Profile, nCli)
	plain := map[string]bool{"d1": true, "d2": true, "d3": true, "k1": true, "kd": true, "u1": true, "u2": true, "main": true}
	for i := range cases {
		p := genC11Profile(r, true)
		cs := c11Case{Kind: "cli", Stream: "main"}
		if i >= nCli-nCombo {
			// -prune_from (every third case also drop_frames) TOGETHER with sample filters whose
			// expression matches a frame on the LEAF side of the prune point of some sample
			cs.Opts = map[string]string{}
			pf, fe := "", ""
			for try := 0; try < 20 && pf == ""; try++ {
				if len(p.Sample) == 0 {
					break
				}
				sm := p.Sample[r.Intn(len(p.Sample))]
				if len(sm.Location) < 2 {
					continue
				}
				j := 1 + r.Intn(len(sm.Location)-1)
				lj, li := sm.Location[j], sm.Location[r.Intn(j)]
				if len(lj.Line) == 0 || len(li.Line) == 0 {
					continue
				}
				nj, ni := lj.Line[r.Intn(len(lj.Line))].Function.Name, li.Line[r.Intn(len(li.Line))].Function.Name
				if plain[nj] && plain[ni] && nj != ni {
					pf, fe = "^"+nj+"$", "^"+ni+"$"
				}
			}
			if pf == "" {
				pf, fe = pick(c11PruneFroms), pick([]string{"d2", "k1", "u1", "^u", "main", "u |", " 1", "d1|"})
				c.Res.Hit("cli:combo:random-expressions")
			} else {
				c.Res.Hit("cli:combo:filter-matches-leaf-side-of-prune-point")
			}
			cs.PruneFrom = pf
			k := []string{"focus", "ignore", "focus", "ignore", "hide", "show"}[i%6]
			cs.Opts[k] = fe
			if i%5 == 0 {
				cs.Opts["tagfocus"] = pick([]string{"k=v", "k=w", "bytes=:50", "bytes=50kb:"})
			}
			if i%3 == 0 {
				p.DropFrames, p.KeepFrames = pick(c11Drops), pick(c11Keeps)
			}
			c.Res.Hit("cli:combo:" + optSet(cs.Opts))
			var buf bytes.Buffer
			p.Write(&buf)
			p, err = profile.ParseData(buf.Bytes())
			if err != nil {
				c.Res.HarnessError = "generated profile does not round-trip: " + err.Error()
				return
			}
			cs.Profile = Canon(p)
			cases[i], profs[i] = cs, p
			continue
		}
		switch i % 3 {
		case 0:
			p.DropFrames, p.KeepFrames = pick(c11Drops), pick(c11Keeps)
		case 1:
			cs.PruneFrom = pick(c11PruneFroms)
		default:
			p.DropFrames, p.KeepFrames = pick(c11Drops), pick(c11Keeps)
			cs.PruneFrom = pick(c11PruneFroms)
		}
		var buf bytes.Buffer
		p.Write(&buf)
		p, err = profile.ParseData(buf.Bytes())
		if err != nil {
			c.Res.HarnessError = "generated profile does not round-trip: " + err.Error()
			return
		}
		cs.Profile = Canon(p)
		cases[i], profs[i] = cs, p
	}
	outs := make([]cliOut, nCli)
	var wg sync.WaitGroup
	sem := make(chan struct{}, 16)
	for i := range cases {
		wg.Add(1)
		sem <- struct{}{}
		go func(i int) {
			defer wg.Done()
			defer func() { <-sem }()
			outs[i] = c11RunCli(c.Pprof, dir, i, profs[i], cases[i])
		}(i)
	}
	wg.Wait()
	for i, cs := range cases {
		p := profs[i]
		nt := false
		if p.DropFrames != "" {
			if drop, keep, ok := c11Compile(c11Case{Drop: p.DropFrames, Keep: p.KeepFrames}, true); ok {
				m := e.lineMatcher(drop, keep)
				nt = c11Stats(c, e, p, m, "cli-prune")
				if hypBViolated(p, m) {
					cs.Stream = "known-prune-H"
				}
			}
			c.Res.Hit("cli:drop_frames")
		}
		if cs.PruneFrom != "" {
			c.Res.Hit("cli:prune_from")
			if re, err := regexp.Compile(cs.PruneFrom); err == nil {
				nt = c11Stats(c, e, p, e.lineMatcher(re, nil), "cli-prunefrom") || nt
			}
		}
		c.Res.Count(c11Key(cs), nt)
		c11CliEval(c, e, cs, outs[i])
	}
	// ---- frame dropping through aggregating outputs: every granularity, -noinlines, both percentage
	// modes, -tagroot/-tagleaf
	nAgg := 260 * c.Scale
	acs := make([]c11Case, nAgg)
	aps := make([]*profile.Profile, nAgg)
	grans := [][]string{nil, {"-functions"}, {"-files"}, {"-lines"}, {"-addresses"}, {"-filefunctions"}, {"-files"}}
	for i := range acs {
		p := genC11Profile(r, true)
		cs := c11Case{Kind: "agg", Stream: "main", Out: "traces", Rel: i%4 >= 2}
		cs.Flags = append([]string(nil), grans[r.Intn(len(grans))]...)
		if r.Chance(45) {
			cs.Flags = append(cs.Flags, "-noinlines")
		}
		if i%5 == 4 { // -proto forces address granularity; only -noinlines aggregates
			cs.Out, cs.Flags = "proto", []string{"-noinlines"}
		}
		// prune_from anchored on a function of the profile, preferably one that occurs as an inlined
		// (non-outermost) line
		var inl, all []string
		for _, l := range p.Location {
			for j, ln := range l.Line {
				if plain[ln.Function.Name] {
					all = append(all, ln.Function.Name)
					if j+1 < len(l.Line) {
						inl = append(inl, ln.Function.Name)
					}
				}
			}
		}
		switch {
		case i%3 != 2 && len(inl) > 0 && r.Chance(70):
			cs.PruneFrom = "^" + inl[r.Intn(len(inl))] + "$"
			c.Res.Hit("agg:prune_from-anchor-occurs-inlined")
		case i%3 != 2 && len(all) > 0 && r.Chance(40):
			cs.PruneFrom = "^" + all[r.Intn(len(all))] + "$"
		case i%3 != 2:
			cs.PruneFrom = pick(c11PruneFroms)
		}
		if i%3 != 0 {
			p.DropFrames, p.KeepFrames = pick(c11Drops), pick(c11Keeps)
		}
		if r.Chance(60) {
			sparsifyIDs(r, p) // sparse ids, tables not sorted by id
			c.Res.Hit("agg:sparse-or-unsorted-ids")
		}
		if i%4 == 1 || (cs.Out == "proto" && r.Chance(60)) {
			if r.Bool() {
				cs.TagRoot = pick([]string{"k", "bytes", "k,bytes", "nokey"})
			} else {
				cs.TagLeaf = pick([]string{"k", "bytes", "bytes,k"})
			}
			c.Res.Hit("agg:tagroot-or-tagleaf")
		}
		var buf bytes.Buffer
		p.Write(&buf)
		p, err = profile.ParseData(buf.Bytes())
		if err != nil {
			c.Res.HarnessError = "generated profile does not round-trip: " + err.Error()
			return
		}
		cs.Profile = Canon(p)
		acs[i], aps[i] = cs, p
		c.Res.Hit("agg:" + cs.Out + ":" + strings.Join(cs.Flags, "") + fmt.Sprintf(":rel=%v", cs.Rel))
	}
	aouts := make([]c11AggOut, nAgg)
	for i := range acs {
		wg.Add(1)
		sem <- struct{}{}
		go func(i int) {
			defer wg.Done()
			defer func() { <-sem }()
			aouts[i] = c11RunAgg(c.Pprof, dir, i, aps[i], acs[i])
		}(i)
	}
	wg.Wait()
	for i, cs := range acs {
		nt := false
		if cs.PruneFrom != "" {
			if re, err := regexp.Compile(cs.PruneFrom); err == nil {
				nt = c11Stats(c, e, aps[i], e.lineMatcher(re, nil), "agg-prunefrom")
			}
		}
		if aps[i].DropFrames != "" {
			if drop, keep, ok := c11Compile(c11Case{Drop: aps[i].DropFrames, Keep: aps[i].KeepFrames}, true); ok {
				nt = c11Stats(c, e, aps[i], e.lineMatcher(drop, keep), "agg-prune") || nt
			}
		}
		c.Res.Count(c11Key(cs)+fmt.Sprint(cs.Out, cs.Flags, cs.Rel, cs.TagRoot, cs.TagLeaf), nt)
		c11AggEval(c, e, cs, aouts[i])
	}
	// ---- several sources with DIFFERENT drop_frames/keep_frames (also empty): pprof a b, -base, -diff_base
	nM := 150 * c.Scale
	mcs := make([]c11Case, nM)
	mas := make([]*profile.Profile, nM)
	mbs := make([]*profile.Profile, nM)
	m3s := make([]*profile.Profile, nM)
	prep := func(p *profile.Profile, tag string) *profile.Profile {
		for i, sm := range p.Sample {
			for j := range sm.Value {
				sm.Value[j] = int64(1 + r.Intn(500)) // no zero samples: Merge would drop them
			}
			if sm.Label == nil {
				sm.Label = map[string][]string{}
			}
			sm.Label["src"] = []string{fmt.Sprintf("%s%d", tag, i)} // no two samples merge
		}
		var buf bytes.Buffer
		p.Write(&buf)
		q, err := profile.ParseData(buf.Bytes())
		if err != nil {
			return nil
		}
		return q
	}
	for i := range mcs {
		a := genC11Profile(r, true)
		b := genC11Profile(r, true)
		for k := 0; k < 50 && len(b.SampleType) != len(a.SampleType); k++ {
			b = genC11Profile(r, true)
		}
		switch i % 4 {
		case 0: // the main source has no rules, the other one does
			b.DropFrames, b.KeepFrames = pick(c11Drops[:13]), pick(c11Keeps)
		case 1: // drop rule only in the first, keep rule only in the other
			a.DropFrames = pick(c11Drops[:13])
			b.DropFrames, b.KeepFrames = pick(c11Drops), pick(c11Keeps[2:])
		case 2:
			a.DropFrames, a.KeepFrames = pick(c11Drops[:13]), pick(c11Keeps)
			b.DropFrames, b.KeepFrames = pick(c11Drops), pick(c11Keeps)
		default:
			a.DropFrames, a.KeepFrames = pick(c11Drops[:13]), pick(c11Keeps)
		}
		if len(b.SampleType) != len(a.SampleType) {
			b.SampleType = a.SampleType
		}
		// a third (middle) source in 40% of the cases; sources WITHOUT samples — first, middle or last,
		// with and without rules — in half of the cases (never all of them)
		var c3 *profile.Profile
		if r.Chance(40) {
			c3 = genC11Profile(r, true)
			for k := 0; k < 50 && len(c3.SampleType) != len(a.SampleType); k++ {
				c3 = genC11Profile(r, true)
			}
			if len(c3.SampleType) != len(a.SampleType) {
				c3 = nil
			} else if r.Chance(60) {
				c3.DropFrames, c3.KeepFrames = pick(c11Drops), pick(c11Keeps)
			}
		}
		if i%2 == 1 {
			switch r.Intn(4) {
			case 0, 1:
				a.Sample = nil
				c.Res.Hit("multi:first-source-without-samples")
			case 2:
				if c3 != nil {
					c3.Sample = nil
					c.Res.Hit("multi:middle-source-without-samples")
				} else {
					a.Sample = nil
					c.Res.Hit("multi:first-source-without-samples")
				}
			default:
				b.Sample = nil
				c.Res.Hit("multi:last-source-without-samples")
			}
			if len(a.Sample) == 0 && len(b.Sample) == 0 && (c3 == nil || len(c3.Sample) == 0) {
				b = genC11Profile(r, true)
				b.SampleType = a.SampleType
				for _, sm := range b.Sample {
					sm.Value = sm.Value[:0]
					for range b.SampleType {
						sm.Value = append(sm.Value, 1)
					}
				}
			}
		}
		a, b = prep(a, "a"), prep(b, "b")
		if c3 != nil {
			c3 = prep(c3, "c")
		}
		if a == nil || b == nil {
			c.Res.HarnessError = "generated profile does not round-trip"
			return
		}
		mcs[i] = c11Case{Kind: "multi", Stream: "main", Profile: Canon(a), Profile2: Canon(b), Mode: []string{"two", "base", "diff_base"}[i%3]}
		if c3 != nil {
			mcs[i].Profile3 = Canon(c3)
			c.Res.Hit("multi:three-sources")
		}
		mas[i], mbs[i], m3s[i] = a, b, c3
		c.Res.Hit("multi:" + mcs[i].Mode)
		c.Res.Hit(fmt.Sprintf("multi:first-has-drop=%v,keep=%v;other-has-drop=%v,keep=%v", a.DropFrames != "", a.KeepFrames != "", b.DropFrames != "", b.KeepFrames != ""))
	}
	mouts := make([]cliOut, nM)
	for i := range mcs {
		wg.Add(1)
		sem <- struct{}{}
		go func(i int) {
			defer wg.Done()
			defer func() { <-sem }()
			mouts[i] = c11RunMulti(c.Pprof, dir, i, mas[i], mbs[i], m3s[i], mcs[i].Mode)
		}(i)
	}
	wg.Wait()
	for i, cs := range mcs {
		c.Res.Count(c11Key(cs)+cs.Profile2+cs.Mode, mas[i].DropFrames != mbs[i].DropFrames || mas[i].KeepFrames != mbs[i].KeepFrames)
		c11MultiEval(c, e, cs, mouts[i])
	}
	// ---- interactive mode: `prune_from=<value containing '='>` then `proto`
	nI := 40 * c.Scale
	ics := make([]c11Case, nI)
	ips := make([]*profile.Profile, nI)
	for i := range ics {
		p := genC11Profile(r, true)
		eqNames := []string{"Key::operator==", "a=b", "x=", "Key::operator=="}
		for j, f := range p.Function {
			if j%2 == 0 {
				f.Name = eqNames[r.Intn(len(eqNames))]
				f.SystemName = f.Name
			}
		}
		var buf bytes.Buffer
		p.Write(&buf)
		p, err = profile.ParseData(buf.Bytes())
		if err != nil {
			c.Res.HarnessError = "generated profile does not round-trip: " + err.Error()
			return
		}
		ics[i] = c11Case{Kind: "inter", Stream: "main", Profile: Canon(p), PruneFrom: pick([]string{"operator==", "^Key::operator==$", "a=b", "=", "x=$", "^a=", "d1"})}
		ips[i] = p
		c.Res.Hit("inter:prune_from-value-with-equals-sign")
	}
	iouts := make([]c11AggOut, nI)
	for i := range ics {
		wg.Add(1)
		sem <- struct{}{}
		go func(i int) {
			defer wg.Done()
			defer func() { <-sem }()
			iouts[i] = c11RunInteractive(c.Pprof, dir, i, ips[i], ics[i])
		}(i)
	}
	wg.Wait()
	for i, cs := range ics {
		nt := false
		if re, err := regexp.Compile(cs.PruneFrom); err == nil {
			nt = c11Stats(c, e, ips[i], e.lineMatcher(re, nil), "inter-prunefrom")
		}
		c.Res.Count(c11Key(cs), nt)
		ev := cs
		ev.Out = "proto"
		c11AggEval(c, e, ev, iouts[i])
	}
}
