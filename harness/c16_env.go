//go:build verif

package main

// C16, stream "environment": the URL / real-transport cases are run in child processes whose
// ENVIRONMENT varies — HOME unset / empty / unusable / usable, PPROF_TMPDIR unset / usable /
// unusable, TMPDIR unset / usable / unusable, working directory writable or not.  A successfully
// fetched remote source makes fetchProfiles save a copy of the merged profile; where (and whether)
// that copy can be written must not change the verdict, the merged result or the per-source error
// lines: in every environment they equal the expectation computed from the source list alone, and
// the report is byte-identical across environments.  The save step's own lines ("Saved profile
// in …", "Could not save profile", "Could not use temp dir …") are classified separately; they are
// not per-source errors.  (The harness runs as root, so "unusable" directories are paths below a
// regular file or below /proc — chmod would not stop root.)

import (
	"bytes"
	"encoding/json"
	"fmt"
	"os"
	"os/exec"
	"path/filepath"
	"strings"
)

type c16Env struct {
	Home     string `json:"home"`      // unset | empty | file | proc | ok
	PprofTmp string `json:"pprof_tmp"` // unset | ok | bad
	Tmp      string `json:"tmp"`       // unset | ok | bad
	Cwd      string `json:"cwd"`       // ok | proc
}

func (e c16Env) String() string {
	return fmt.Sprintf("HOME=%s PPROF_TMPDIR=%s TMPDIR=%s cwd=%s", e.Home, e.PprofTmp, e.Tmp, e.Cwd)
}

// usable reports whether the environment leaves setTmpDir any directory it can create.
func (e c16Env) usable() bool {
	return e.PprofTmp == "ok" || e.Home == "ok" || e.Tmp != "bad"
}

type c16ChildResult struct {
	Failed     bool     `json:"failed"`
	Err        string   `json:"err"`
	Panic      string   `json:"panic"`
	Hang       bool     `json:"hang"`
	Out        []byte   `json:"out"`
	ErrLines   []string `json:"err_lines"`
	Completion [2][]int `json:"completion"`
	MaxActive  [2]int   `json:"max_active"`
	Fetches    []int    `json:"fetches"`
	StartDone  []int    `json:"start_done"`
	HErr       string   `json:"harness_error"`
}

func init() {
	path := os.Getenv("PVC16_ENV_CASE")
	if path == "" || filepath.Base(os.Args[0]) == "perf_to_profile" {
		return
	}
	// child: run one case in THIS process' environment, report what happened on stdout
	res := c16ChildResult{}
	emit := func() {
		b, _ := json.Marshal(res)
		fmt.Println(string(b))
		os.Exit(0)
	}
	var cs c16Case
	b, err := os.ReadFile(path)
	if err != nil || json.Unmarshal(b, &cs) != nil {
		res.HErr = "cannot read the case"
		emit()
	}
	root := os.Getenv("PVC16_ROOT")
	if err := os.MkdirAll(root, 0o755); err != nil || root == "" {
		res.HErr = "no scratch directory"
		emit()
	}
	kinds := c16Kinds(&cs, false)
	var delays []int
	if len(cs.Schedules) > 0 {
		delays = cs.Schedules[0]
	}
	obs := c16ExecOrd(root, &cs, kinds, delays, nil, "proto", "allocs")
	res.Failed, res.Err, res.Panic, res.Hang, res.Out = obs.Failed, obs.Err, obs.Panic, obs.Hang, obs.Out
	res.ErrLines, res.Completion, res.MaxActive = obs.ErrLines, obs.Completion, obs.MaxActive
	for _, sl := range obs.Slots {
		res.Fetches = append(res.Fetches, sl.fetches)
		res.StartDone = append(res.StartDone, sl.startDone)
	}
	emit()
}

func (k *c16Checker) runEnv(cs *c16Case) {
	c := k.c
	exe, err := os.Executable()
	if err != nil {
		return
	}
	kinds := c16Kinds(cs, false)
	exp := c16Expected(cs, kinds)
	n := len(cs.Sources)
	var outs [][]byte
	var labels []string
	var verdicts []bool
	for ei, env := range cs.Envs {
		base := filepath.Join(k.root, fmt.Sprintf("envrun%d", ei))
		os.RemoveAll(base)
		os.MkdirAll(base, 0o755)
		afile := filepath.Join(base, "afile")
		os.WriteFile(afile, []byte("not a directory\n"), 0o644)
		dir := func(name string) string {
			d := filepath.Join(base, name)
			os.MkdirAll(d, 0o755)
			return d
		}
		var envv []string
		for _, kv := range os.Environ() {
			if strings.HasPrefix(kv, "HOME=") || strings.HasPrefix(kv, "PPROF_TMPDIR=") || strings.HasPrefix(kv, "TMPDIR=") || strings.HasPrefix(kv, "PVC16_") {
				continue
			}
			envv = append(envv, kv)
		}
		switch env.Home {
		case "empty":
			envv = append(envv, "HOME=")
		case "file":
			envv = append(envv, "HOME="+filepath.Join(afile, "home"))
		case "proc":
			envv = append(envv, "HOME=/proc/pvc16-no-such-home")
		case "ok":
			envv = append(envv, "HOME="+dir("home"))
		}
		switch env.PprofTmp {
		case "ok":
			envv = append(envv, "PPROF_TMPDIR="+dir("ppt"))
		case "bad":
			envv = append(envv, "PPROF_TMPDIR="+filepath.Join(afile, "ppt"))
		}
		switch env.Tmp {
		case "ok":
			envv = append(envv, "TMPDIR="+dir("tmp"))
		case "bad":
			envv = append(envv, "TMPDIR="+filepath.Join(afile, "tmp"))
		}
		cf := filepath.Join(base, "case.json")
		b, _ := json.Marshal(cs)
		os.WriteFile(cf, b, 0o644)
		envv = append(envv, "PVC16_ENV_CASE="+cf, "PVC16_ROOT="+dir("scratch"))
		cmd := exec.Command(exe)
		cmd.Env = envv
		if env.Cwd == "proc" {
			cmd.Dir = "/proc"
		} else {
			cmd.Dir = dir("cwd")
		}
		var so, se bytes.Buffer
		cmd.Stdout, cmd.Stderr = &so, &se
		label := fmt.Sprintf("env#%d{%s}", ei, env)
		if err := cmd.Run(); err != nil {
			c.Violation("C16/crash/environment", fmt.Sprintf("[%s %s] the process running driver.PProf died: %v: %s", cs.Name, label, err, trunc16(lastLine16(se.String()))), cs)
			return
		}
		var res c16ChildResult
		if json.Unmarshal([]byte(lastLine16(so.String())), &res) != nil || res.HErr != "" {
			c.Res.Notes = append(c.Res.Notes, "environment child gave no result: "+trunc16(so.String()+res.HErr))
			return
		}
		obs := &c16Obs{Failed: res.Failed, Err: res.Err, Panic: res.Panic, Hang: res.Hang, Out: res.Out, ErrLines: res.ErrLines,
			ErrCount: map[string]int{}, Completion: res.Completion, MaxActive: res.MaxActive}
		for i, s := range cs.all() {
			g, id := 0, i
			if i >= n {
				g, id = 1, i-n
			}
			sl := &c16Slot{group: g, id: id, src: s}
			if i < len(res.Fetches) {
				sl.fetches, sl.startDone = res.Fetches[i], res.StartDone[i]
			}
			obs.Slots = append(obs.Slots, sl)
		}
		saved, notSaved, noDir := 0, 0, 0
		for _, l := range obs.ErrLines {
			switch {
			case strings.HasPrefix(l, "Saved profile in"):
				saved++
				continue
			case strings.HasPrefix(l, "Could not save profile"):
				notSaved++
				continue
			case strings.HasPrefix(l, "Could not use temp dir"):
				noDir++
				continue
			}
			if m := c16TokRe.FindStringSubmatch(l); m != nil {
				obs.ErrCount[m[1]]++
			}
		}
		c.Res.Hit(fmt.Sprintf("env-save-lines-saved%d-notsaved%d", saved, notSaved))
		if noDir > 0 {
			c.Res.Hit("env-could-not-use-temp-dir-lines")
		}
		if res.Failed && !exp.Fail && strings.Contains(res.Err, "temp dir") {
			// more specific than the generic verdict signature: the save step made the whole fetch fail
			sig := "C16/verdict/save-step-fails-the-fetch"
			if !env.usable() {
				sig = "C16/verdict/no-usable-temp-dir-fails-the-fetch"
			}
			c.Violation(sig, fmt.Sprintf("[%s %s] PProf failed (%s) although %d source(s) and %d of %d base(s) were fetched: saving a copy of the merged profile is not fetching",
				cs.Name, label, trunc16(res.Err), len(exp.OkSrc), len(exp.OkBase), len(cs.Bases)), cs)
			// the fetch model does not contain the save step: no model comparison for this run, and the
			// run is not compared with the other environments again (same root cause)
			continue
		} else {
			k.check(cs, label, kinds, exp, obs, "proto", 0)
		}
		k.model(cs, label, kinds, obs, "proto")
		outs = append(outs, obs.Out)
		labels = append(labels, label)
		verdicts = append(verdicts, obs.Failed)
		c.Res.Hit("env-runs")
		c.Res.Hit("env-home-" + env.Home)
		c.Res.Hit("env-pprof_tmpdir-" + env.PprofTmp)
		c.Res.Hit("env-tmpdir-" + env.Tmp)
	}
	for i := 1; i < len(outs); i++ {
		if verdicts[i] != verdicts[0] {
			c.Violation("C16/environment/verdict-differs", fmt.Sprintf("[%s] %s failed=%v, %s failed=%v", cs.Name, labels[0], verdicts[0], labels[i], verdicts[i]), cs)
		} else if !bytes.Equal(outs[i], outs[0]) {
			c.Violation("C16/environment/report-differs", fmt.Sprintf("[%s] the -proto report under %s differs from the one under %s", cs.Name, labels[i], labels[0]), cs)
		}
	}
	c.Res.Count(fmt.Sprintf("env|%v|%v", kinds, cs.Envs), len(exp.OkSrc) >= 1 && len(cs.Envs) >= 2)
	c.Res.Hit("environment-cases")
}

func c16GenEnv(r *Rng, idx int) *c16Case {
	cs := c16GenReal(r, idx)
	cs.Name = fmt.Sprintf("environment-%d", idx)
	cs.Orders = nil
	// make sure a REMOTE source is fetched successfully, so that the save step runs
	cs.Sources[0] = c16Src{Kind: c16RealHTTP, Seed: r.U64() >> 16}
	homes := []string{"unset", "empty", "file", "proc", "ok"}
	ppts := []string{"unset", "ok", "bad"}
	tmps := []string{"unset", "ok", "bad"}
	cwds := []string{"ok", "proc"}
	cs.Envs = []c16Env{
		{"ok", "unset", "unset", "ok"},   // the ordinary interactive environment
		{"unset", "ok", "unset", "ok"},   // cron / systemd / env -i with PPROF_TMPDIR
		{"unset", "unset", "ok", "proc"}, // minimal container
	}
	for len(cs.Envs) < 6 {
		e := c16Env{r.Pick(homes), r.Pick(ppts), r.Pick(tmps), r.Pick(cwds)}
		if !e.usable() { // no directory at all: separate, single-purpose case (corpus)
			continue
		}
		cs.Envs = append(cs.Envs, e)
	}
	return cs
}
