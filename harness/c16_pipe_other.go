//go:build verif && !linux

package main

import "os"

func c16SmallPipe(w *os.File) {}
