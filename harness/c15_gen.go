//go:build verif

package main

// Case generators of C15.  All randomness comes from NewRng(c.Seed); the enumeration part
// (spellings × targets × unit steps) is deterministic.

import (
	"fmt"
	"math"
	"math/big"
	"sort"
	"strings"
)

type c15Spelling struct {
	s     string
	class string
}

// spellings of one unit name
func c15SpellingsOf(n string, r *Rng) []c15Spelling {
	up := strings.ToUpper(n)
	title := n
	if len(n) > 0 && n[0] >= 'a' && n[0] <= 'z' {
		title = string(n[0]-32) + n[1:]
	}
	mixed := []byte(n)
	for i := range mixed {
		if mixed[i] >= 'a' && mixed[i] <= 'z' && r.Bool() {
			mixed[i] -= 32
		}
	}
	out := []c15Spelling{
		{n, "name"}, {up, "upper"}, {title, "title"}, {string(mixed), "mixed"},
		{n + "s", "plural"}, {up + "S", "upper-plural"}, {title + "s", "title-plural"},
		{n + "ss", "double-plural"},
	}
	// ASCII-only upper-casing of names with non-ASCII letters (the model's domain)
	if up != strings.ToUpper(c15asciiLower(n)) || c15asciiLower(up) != n {
		b := []byte(n)
		for i := range b {
			if b[i] >= 'a' && b[i] <= 'z' {
				b[i] -= 32
			}
		}
		out = append(out, c15Spelling{string(b), "ascii-upper"}, c15Spelling{string(b) + "S", "ascii-upper-plural"})
	}
	return out
}

var c15OddUnits = []string{
	"", "x", "widgets", "bs", "ss", "μ", "μ\xff", "k b", " kb", "kb ", "kb\x00", "count", "sample", "unit", "auto", "minimum",
	"Auto", "objects", "inuse_space", "bytess", "n*GCU", "nGCU", "nano", "second s", "\xce", "\xff\xfe", "hrss", "h", "hours ", "us\n",
	"kib", "kibibyte", "min", "minute", "day", "gcus", "GCUs", "ΜS", "µs" /* U+00B5 micro sign */, "ʼs", "İs", "KİLOBYTE",
}

func c15StepValues(ratio *big.Rat) []int64 {
	// ratio = su/sf: the number of source units in one target unit
	var out []int64
	if ratio.Cmp(big.NewRat(1, 1)) < 0 {
		return out
	}
	fl := new(big.Int).Quo(ratio.Num(), ratio.Denom())
	if !fl.IsInt64() {
		return out
	}
	t := fl.Int64()
	add := func(v int64) { out = append(out, v) }
	for _, d := range []int64{-2, -1, 0, 1, 2} {
		if t+d >= 0 {
			add(t + d)
		}
	}
	// just below / at / above 100 and 1000 target units, and display-rounding ties x.xx5
	for _, k := range []int64{100, 1000, 1024} {
		if t > 0 && t < math.MaxInt64/(k+1) {
			add(t*k - 1)
			add(t * k)
			add(t*k + 1)
		}
	}
	if t > 0 && t%200 == 0 && t < math.MaxInt64/2000 {
		h := t / 200
		for _, k := range []int64{1, 3, 199, 201, 1001} {
			add(h * k)
			add(h*k - 1)
			add(h*k + 1)
		}
	}
	if t >= 8 && t%8 == 0 {
		add(t / 8) // 0.125: an exact binary tie of %.2f
		add(3 * t / 8)
	}
	return out
}

var c15BaseValues = []int64{0, 1, -1, 2, 3, 7, 99, 100, 101, 999, 1000, 1001, 1023, 1024, 1025, 3599, 3600, 3601,
	1<<53 - 1, 1 << 53, 1<<53 + 1, -(1 << 53) - 1, 1<<62 + 12345, math.MaxInt64, math.MaxInt64 - 1, math.MinInt64, math.MinInt64 + 1}

func c15RandValue(r *Rng) int64 {
	switch r.Intn(6) {
	case 0:
		return int64(r.U64())
	case 1:
		return int64(r.U64() >> uint(r.Intn(64)))
	case 2:
		return -int64(r.U64() >> uint(1+r.Intn(63)))
	case 3:
		return int64(r.Intn(100000))
	case 4:
		// around a power of ten / two
		p := int64(1)
		for k := r.Intn(18); k > 0; k-- {
			p *= 10
		}
		return p + int64(r.Intn(5)) - 2
	default:
		return (int64(1) << uint(r.Intn(63))) + int64(r.Intn(5)) - 2
	}
}

func (st *c15State) do(cs c15Case, classes ...string) {
	c := st.c
	nt := st.run(cs)
	c.Res.Count(c15canon(cs), nt)
	c.Res.Hit("kind:" + cs.Kind)
	for _, k := range classes {
		c.Res.Hit(k)
	}
	if nt {
		c.Res.Hit("nontrivial:" + cs.Kind)
	}
}

func c15Generate(st *c15State) {
	// thorough tier: several independent seeds on top of the larger per-seed counts
	n := 1
	if st.c.Scale > 1 {
		n = 6
	}
	for k := 0; k < n; k++ {
		c15GenerateSeed(st, st.c.Seed+uint64(k)*7919)
	}
}

func c15GenerateSeed(st *c15State, seed uint64) {
	c := st.c
	r := NewRng(seed)

	// ---- the pool of source spellings -------------------------------------------------------
	type src struct {
		sp  c15Spelling
		fam int // spec family or -1
	}
	var srcs []src
	seen := map[string]bool{}
	addSrc := func(sp c15Spelling) {
		if seen[sp.s] {
			return
		}
		seen[sp.s] = true
		fam := -1
		if rc := st.recognise(sp.s); rc.known {
			fam = rc.fam
		}
		srcs = append(srcs, src{sp, fam})
	}
	var allNames []string
	for _, f := range st.spec {
		for _, u := range f.units {
			allNames = append(allNames, u.names...)
		}
	}
	// names of the regenerated table too: an alias the dictionary does not know must behave as unknown
	for _, f := range st.table {
		for _, u := range f.units {
			for _, a := range u.names {
				found := false
				for _, n := range allNames {
					found = found || n == a
				}
				if !found {
					allNames = append(allNames, a)
					c.Res.Hit("table-alias-not-in-spec")
				}
			}
		}
	}
	for _, n := range allNames {
		for _, sp := range c15SpellingsOf(n, r) {
			addSrc(sp)
		}
	}
	for _, f := range st.spec {
		for _, u := range f.units {
			addSrc(c15Spelling{u.display, "printed-name"})
		}
	}
	for _, f := range st.table {
		for _, u := range f.units {
			addSrc(c15Spelling{u.display, "printed-name"})
		}
	}
	for _, s := range c15OddUnits {
		addSrc(c15Spelling{s, "odd"})
	}

	// ---- scale ---------------------------------------------------------------------------------
	nrand := 2 * c.Scale
	sampled := 0
	for _, s := range srcs {
		var targets []c15Spelling
		if s.fam >= 0 {
			fam := st.spec[s.fam]
			for _, u := range fam.units {
				// one spelling per unit, rotating through names / printed name / plural / upper
				n := u.names[r.Intn(len(u.names))]
				sps := c15SpellingsOf(n, r)
				targets = append(targets, sps[r.Intn(len(sps))])
				if r.Chance(30) {
					targets = append(targets, c15Spelling{u.display, "printed-name"})
				}
			}
			other := st.spec[(s.fam+1+r.Intn(len(st.spec)-1))%len(st.spec)]
			ou := other.units[r.Intn(len(other.units))]
			targets = append(targets, c15Spelling{ou.names[0], "other-family"})
		} else {
			f := st.spec[r.Intn(len(st.spec))]
			u := f.units[r.Intn(len(f.units))]
			targets = append(targets, c15Spelling{u.names[0], "known-target"})
		}
		targets = append(targets, c15Spelling{"auto", "auto"}, c15Spelling{"minimum", "minimum"},
			c15Spelling{c15OddUnits[r.Intn(len(c15OddUnits))], "odd"})
		if r.Chance(50) {
			targets = append(targets, c15Spelling{[]string{"count", "sample", "unit", "", "Auto", "MINIMUM"}[r.Intn(6)], "skip-word"})
		}
		rf := st.recognise(s.sp.s)
		for _, t := range targets {
			var vals []int64
			if rf.known {
				if rt := st.recognise(t.s); rt.known && rt.fam == rf.fam {
					vals = append(vals, c15StepValues(new(big.Rat).Quo(rt.f, rf.f))...)
				} else if t.s == "auto" || t.s == "minimum" {
					for _, u := range st.spec[rf.fam].units {
						sv := c15StepValues(new(big.Rat).Quo(u.f, rf.f))
						if len(sv) > 5 {
							sv = sv[:5]
						}
						vals = append(vals, sv...)
					}
				}
			}
			// thin the step list, keep the immediate neighbourhood of the step
			if len(vals) > 12 {
				keep := vals[:5]
				for k := 0; k < 7; k++ {
					keep = append(keep, vals[5+r.Intn(len(vals)-5)])
				}
				vals = keep
			}
			for k := 0; k < 3; k++ {
				vals = append(vals, c15BaseValues[r.Intn(len(c15BaseValues))])
			}
			if t.s == "auto" {
				vals = append(vals, math.MinInt64, 0)
			}
			for k := 0; k < nrand; k++ {
				vals = append(vals, c15RandValue(r))
			}
			sort.Slice(vals, func(i, j int) bool { return vals[i] < vals[j] })
			var last int64
			for i, v := range vals {
				if i > 0 && v == last {
					continue
				}
				last = v
				cs := c15Case{Kind: "scale", V: v, From: c15hex(s.sp.s), To: c15hex(t.s)}
				if sampled < 2 && rf.known && v > 1 && (t.class == "auto" || (t.class != "odd" && st.recognise(t.s).known && len(t.s) > 3)) && r.Chance(2) {
					sampled++
					c.Res.Sample(map[string]any{"kind": "scale", "v": v, "from": s.sp.s, "to": t.s})
				}
				st.do(cs, "from-spelling:"+s.sp.class, "to-spelling:"+t.class, "value:"+c15valClass(v))
			}
		}
	}

	// ---- monotone labels -----------------------------------------------------------------------
	for fi, f := range st.spec {
		for _, u := range f.units {
			from := u.names[r.Intn(len(u.names))]
			if rc := st.recognise(from); !rc.known || rc.fam != fi {
				continue
			}
			var pts []int64
			for _, w := range f.units {
				pts = append(pts, c15StepValues(new(big.Rat).Quo(w.f, u.f))...)
			}
			for k := 0; k < 10*c.Scale; k++ {
				pts = append(pts, c15RandValue(r))
			}
			for _, p := range pts {
				for _, d := range []int64{1, 2, int64(1 + r.Intn(1000))} {
					if p > math.MaxInt64-d {
						continue
					}
					st.do(c15Case{Kind: "mono", V: p, V2: p + d, From: c15hex(from)}, "mono-delta:"+fmt.Sprint(min(d, 3)))
				}
			}
		}
	}

	// ---- percentages ---------------------------------------------------------------------------
	for k := 0; k < 1500*c.Scale; k++ {
		var v, t int64
		switch k % 10 {
		case 0:
			t = 0
			v = c15RandValue(r)
		case 1:
			t = c15RandValue(r)
			v = 0
		case 2, 3, 4:
			// around the class boundaries 1%, 99.95%, 100.05%
			t = int64(1+r.Intn(1000000)) * 10000
			b := []int64{100, 9995, 10005, 9994, 10006, 99, 10000}[r.Intn(7)]
			v = t/10000*b + int64(r.Intn(3)) - 1
			if r.Bool() {
				v = -v
			}
			if r.Chance(30) {
				t = -t
			}
		case 5:
			v, t = c15BaseValues[r.Intn(len(c15BaseValues))], c15BaseValues[r.Intn(len(c15BaseValues))]
		case 6:
			t = c15RandValue(r)
			v = t
			if r.Bool() && t != math.MinInt64 {
				v = -t
			}
		default:
			v, t = c15RandValue(r), c15RandValue(r)
		}
		if k == 2 {
			c.Res.Sample(map[string]any{"kind": "pct", "v": v, "total": t})
		}
		st.do(c15Case{Kind: "pct", V: v, V2: t})
	}

	// ---- CommonValueType / ScaleProfiles -------------------------------------------------------
	types := []string{"cpu", "cpus", "alloc_space", "samples", "sample", "", "s", "ss"}
	unitPool := func(fam int) []string {
		if fam < 0 {
			return []string{"widgets", "count", "", "auto", "objects", "Widgets"}
		}
		var out []string
		for _, u := range st.spec[fam].units {
			for _, n := range u.names {
				out = append(out, n, n+"s", strings.ToUpper(n[:1])+n[1:])
			}
			if st.recognise(u.display).known { // "n*GCU" is printed but is not a name
				out = append(out, u.display)
			}
		}
		return out
	}
	pickVT := func(ty string, fam int) c15VT {
		p := unitPool(fam)
		u := p[r.Intn(len(p))]
		return c15VT{Type: c15hex(ty), Unit: c15hex(u), Text: ty + "/" + u}
	}
	for k := 0; k < 1200*c.Scale; k++ {
		n := r.Intn(5)
		ty := types[r.Intn(len(types))]
		fam := r.Intn(len(st.spec)+1) - 1
		var ts []c15VT
		for i := 0; i < n; i++ {
			t, f := ty, fam
			if r.Chance(8) {
				t = types[r.Intn(len(types))]
			}
			if r.Chance(8) {
				f = r.Intn(len(st.spec)+1) - 1
			}
			vt := pickVT(t, f)
			if fam < 0 && i > 0 && r.Chance(70) {
				vt.Unit = ts[0].Unit // unknown units are compatible only when identical
			}
			ts = append(ts, vt)
		}
		if k == 5 {
			c.Res.Sample(map[string]any{"kind": "common", "types": c15vtText(ts)})
		}
		st.do(c15Case{Kind: "common", Types: ts})
	}

	genSP := func(rr *Rng, zeros bool) c15Case {
		np := 2 + rr.Intn(2)
		if rr.Chance(12) {
			np = 1
		}
		nst := 1 + rr.Intn(3)
		colFam := make([]int, nst)
		colTy := make([]string, nst)
		for i := range colFam {
			colFam[i] = rr.Intn(len(st.spec)+1) - 1
			colTy[i] = types[rr.Intn(4)]
		}
		pfam := rr.Intn(len(st.spec)+1) - 1
		var ps []c15Prof
		for j := 0; j < np; j++ {
			var p c15Prof
			n := nst
			if rr.Chance(3) {
				n = 1 + rr.Intn(3)
			}
			for i := 0; i < n; i++ {
				f, ty := -1, "x"
				if i < nst {
					f, ty = colFam[i], colTy[i]
				}
				if rr.Chance(2) {
					f = rr.Intn(len(st.spec)+1) - 1
				}
				pool := unitPool(f)
				u := pool[rr.Intn(len(pool))]
				if f < 0 && j > 0 && i < len(ps[0].SampleType) && rr.Chance(96) {
					u = c15unhex(ps[0].SampleType[i].Unit)
				}
				p.SampleType = append(p.SampleType, c15VT{Type: c15hex(ty), Unit: c15hex(u), Text: ty + "/" + u})
			}
			if rr.Chance(70) {
				pool := unitPool(pfam)
				u := pool[rr.Intn(len(pool))]
				if pfam < 0 {
					u = "widgets"
				}
				p.PeriodType = &c15VT{Type: c15hex("cpu"), Unit: c15hex(u), Text: "cpu/" + u}
				p.Period = int64(1 + rr.Intn(100000))
			}
			ns := rr.Intn(5)
			for s := 0; s < ns; s++ {
				var vals []int64
				for i := 0; i < n; i++ {
					v := int64(1 + rr.Intn(2000))
					if rr.Chance(20) {
						v = -v
					}
					if zeros && rr.Chance(45) {
						v = 0
					}
					vals = append(vals, v)
				}
				p.Samples = append(p.Samples, vals)
			}
			ps = append(ps, p)
		}
		// keep |value × ratio| below 2^61 so that the int64 results cannot overflow (assumption of
		// the property: the harmonised values are representable)
		limit := new(big.Rat).SetInt(new(big.Int).Lsh(big.NewInt(1), 61))
		for i := 0; i < nst; i++ {
			finest := (*big.Rat)(nil)
			for _, p := range ps {
				if i < len(p.SampleType) {
					if f := st.phys(c15unhex(p.SampleType[i].Unit)); finest == nil || f.Cmp(finest) < 0 {
						finest = f
					}
				}
			}
			tooWide := false
			for j := range ps {
				if i < len(ps[j].SampleType) {
					ratio := new(big.Rat).Quo(st.phys(c15unhex(ps[j].SampleType[i].Unit)), finest)
					if new(big.Rat).Quo(limit, ratio).Cmp(big.NewRat(4000, 1)) < 0 {
						tooWide = true
					}
				}
			}
			for j := range ps {
				if i >= len(ps[j].SampleType) {
					continue
				}
				if tooWide && i < len(ps[0].SampleType) {
					ps[j].SampleType[i].Unit = ps[0].SampleType[i].Unit // the span of the column does not fit int64
					ps[j].SampleType[i].Text = ""
					continue
				}
				ratio := new(big.Rat).Quo(st.phys(c15unhex(ps[j].SampleType[i].Unit)), finest)
				capR := new(big.Rat).Quo(limit, ratio)
				capI := new(big.Int).Quo(capR.Num(), capR.Denom())
				if capI.Sign() == 0 {
					continue
				}
				if capI.IsInt64() {
					cp := capI.Int64()
					for _, s := range ps[j].Samples {
						if s[i] > cp || s[i] < -cp {
							s[i] = s[i] % (cp + 1)
						}
					}
				}
			}
		}
		var pf *big.Rat
		for _, p := range ps {
			if p.PeriodType != nil {
				if f := st.phys(c15unhex(p.PeriodType.Unit)); pf == nil || f.Cmp(pf) < 0 {
					pf = f
				}
			}
		}
		for j := range ps {
			if ps[j].PeriodType == nil {
				continue
			}
			ratio := new(big.Rat).Quo(st.phys(c15unhex(ps[j].PeriodType.Unit)), pf)
			capR := new(big.Rat).Quo(limit, ratio)
			capI := new(big.Int).Quo(capR.Num(), capR.Denom())
			if capI.IsInt64() {
				if cp := capI.Int64(); cp == 0 {
					ps[j].Period = 0
				} else if ps[j].Period > cp {
					ps[j].Period = ps[j].Period % (cp + 1)
				}
			}
		}
		return c15Case{Kind: "sp", Profiles: ps}
	}
	for k := 0; k < 700*c.Scale; k++ {
		cs := genSP(r, false)
		if k == 3 {
			c.Res.Sample(map[string]any{"kind": "sp", "profiles": cs.Profiles})
		}
		st.do(cs, "sp-stream:nonzero")
	}
	// ---- the report: values printed by `pprof -top -unit=…` ----------------------------------------
	st.cliStream(r.Fork())
	st.reportStream(r.Fork())
	st.nodeletStream(r.Fork())

	// separate stream: samples with zero values (ScaleN's sample dropping lives here, so that a
	// finding of that stream cannot hide one of the main stream)
	rz := NewRng(seed ^ 0x5a5a5a5a)
	for k := 0; k < 300*c.Scale; k++ {
		cs := genSP(rz, true)
		cs.Stream = "zeros"
		st.do(cs, "sp-stream:zeros")
	}
}
