//go:build verif

package main

import (
	"bytes"
	"crypto/sha256"
	"encoding/hex"
	"fmt"
	"io"
	"os"
	"os/exec"
	"path/filepath"
	"regexp"
	"sort"
	"strings"
	"time"
)

// One interactive session of the REAL pprof binary, driven synchronously: after every script line
// a marker line (an unknown command name, which the shell answers with one error line and which —
// by the property itself — cannot influence anything) is sent, and the harness waits for the
// marker's echo before it looks at the files the line produced and sends the next line.  stdout
// and stderr share one pipe, so the transcript keeps the order in which the process wrote it.

type c10Seg struct {
	Text  string            `json:"text"`            // normalised transcript of the line (stdout+stderr)
	Files map[string]string `json:"files,omitempty"` // files the line left behind: name → size:sha256
	Bags  map[string]string `json:"-"`               // the same files as token bags (order erased)
	Dead  bool              `json:"dead,omitempty"`  // the process had already exited
}

// mkey: the observation with order erased (sorted white-space separated tokens): pprof has reports
// whose line order varies from run to run on identical input (weblist; that is C08's subject).
func (s c10Seg) mkey() string {
	t := s
	t.Text = c10TokenBag(s.Text)
	t.Files = s.Bags
	return t.key()
}

func c10TokenBag(text string) string {
	f := strings.Fields(text)
	sort.Strings(f)
	h := sha256.Sum256([]byte(strings.Join(f, " ")))
	return fmt.Sprintf("%d:%s", len(f), hex.EncodeToString(h[:8]))
}

func (s c10Seg) key() string {
	ks := make([]string, 0, len(s.Files))
	for k := range s.Files {
		ks = append(ks, k)
	}
	sort.Strings(ks)
	var sb strings.Builder
	if s.Dead {
		sb.WriteString("<dead>")
	}
	sb.WriteString(s.Text)
	for _, k := range ks {
		sb.WriteString("\x00" + k + "=" + s.Files[k])
	}
	return sb.String()
}

type c10Session struct {
	Segs    []c10Seg
	Options string // transcript of a final `o` (empty when the session ended before)
	Err     string // harness-level problem (marker protocol broken, timeout): never a verdict
	Exited  bool
}

var c10TmpNameRE = regexp.MustCompile(`(profile|pprof)\d{3,}`)

func c10Normalise(text, dir string) string {
	text = strings.ReplaceAll(text, dir, "<DIR>")
	return c10TmpNameRE.ReplaceAllString(text, "$1<N>")
}

type c10Proc struct {
	cmd    *exec.Cmd
	in     io.WriteCloser
	chunks chan []byte
	buf    []byte
	pos    int
	eof    bool
	prefix string // what the shell prints in front of an echoed marker
}

func (p *c10Proc) waitMarker(k int, timeout time.Duration) (seg string, ok bool) {
	tok := []byte(fmt.Sprintf("@@m%d@@", k))
	deadline := time.After(timeout)
	for {
		if i := bytes.Index(p.buf[p.pos:], tok); i >= 0 {
			if j := bytes.IndexByte(p.buf[p.pos+i:], '\n'); j >= 0 {
				at := p.pos + i
				start := at
				if p.prefix != "" && at-len(p.prefix) >= p.pos && string(p.buf[at-len(p.prefix):at]) == p.prefix {
					start = at - len(p.prefix)
				} else if ls := bytes.LastIndexByte(p.buf[p.pos:at], '\n'); ls >= 0 {
					start = p.pos + ls + 1
				} else {
					start = p.pos
				}
				if k == 0 {
					ls := bytes.LastIndexByte(p.buf[p.pos:at], '\n')
					p.prefix = string(p.buf[p.pos+ls+1 : at])
				}
				seg = string(p.buf[p.pos:start])
				p.pos = p.pos + i + j + 1
				return seg, true
			}
		}
		if p.eof {
			seg = string(p.buf[p.pos:])
			p.pos = len(p.buf)
			return seg, false
		}
		select {
		case c, more := <-p.chunks:
			if !more {
				p.eof = true
			} else {
				p.buf = append(p.buf, c...)
			}
		case <-deadline:
			return "", false
		}
	}
}

// c10Snapshot looks at every regular file below dir after a line has run. Files the user named (`> file`,
// `output=file`) STAY where they are — a later command writing to the same name must replace them — and
// are reported for this line iff the line WROTE them: after every snapshot the harness sets their
// modification time to a sentinel in the past, so any create/truncate/write shows (even one that leaves
// the same bytes). Automatically named files (profile001.pb.gz …, everything under tmp/) are reported and
// removed, so that their numbering does not depend on the history.
var c10Sentinel = time.Unix(1000000000, 0)

func c10Snapshot(dir string) (files, bags map[string]string) {
	filepath.Walk(dir, func(path string, info os.FileInfo, err error) error {
		if err != nil || info.IsDir() {
			return nil
		}
		rel, _ := filepath.Rel(dir, path)
		auto := strings.HasPrefix(rel, "tmp"+string(filepath.Separator)) || c10TmpNameRE.MatchString(filepath.Base(rel))
		if !auto && info.ModTime().Equal(c10Sentinel) {
			return nil // untouched since the previous snapshot
		}
		b, _ := os.ReadFile(path)
		b = bytes.ReplaceAll(b, []byte(dir), []byte("<DIR>")) // the session directory is not part of the observation
		if auto {
			os.Remove(path)
			rel = c10TmpNameRE.ReplaceAllString(rel, "$1<N>")
		} else {
			os.Chtimes(path, c10Sentinel, c10Sentinel)
		}
		if files == nil {
			files, bags = map[string]string{}, map[string]string{}
		}
		h := sha256.Sum256(b)
		files[rel] = fmt.Sprintf("%d:%s", len(b), hex.EncodeToString(h[:8]))
		bags[rel] = c10TokenBag(string(b))
		return nil
	})
	return files, bags
}

// c10Outs: the `must` list of a reference script — nothing for the replayed assignments, `last` for the probe.
func c10Outs(n int, last string) []string {
	o := make([]string, n)
	if n > 0 {
		o[n-1] = last
	}
	return o
}

// c10RunSession runs `lines` in a fresh pprof process with working directory caseDir/<name>.
func c10RunSession(pprofBin, caseDir, name string, lines []string, _ []string, wantOptions bool) *c10Session {
	res := &c10Session{}
	dir := filepath.Join(caseDir, name)
	os.RemoveAll(dir)
	if err := os.MkdirAll(filepath.Join(dir, "tmp"), 0o755); err != nil {
		res.Err = err.Error()
		return res
	}
	defer os.RemoveAll(dir)
	cmd := exec.Command(pprofBin, "-symbolize=none", filepath.Join(caseDir, "prof.pb.gz"))
	cmd.Dir = dir
	// no graphviz, no viewers, no user configuration, temp files inside the session directory
	path := filepath.Join(caseDir, "nopath")
	if _, err := os.Stat(filepath.Join(caseDir, "use-system-tools")); err == nil {
		path = "/usr/bin:/bin" // real-binary cases: objdump, nm, addr2line / llvm-symbolizer (graphviz is not installed)
	}
	cmd.Env = []string{"PATH=" + path, "HOME=" + dir, "XDG_CONFIG_HOME=" + filepath.Join(dir, "tmp"),
		"TMPDIR=" + filepath.Join(dir, "tmp"), "PPROF_TMPDIR=" + filepath.Join(dir, "tmp"), "TZ=UTC", "TERM=dumb"}
	in, err := cmd.StdinPipe()
	if err != nil {
		res.Err = err.Error()
		return res
	}
	pr, pw, err := os.Pipe()
	if err != nil {
		res.Err = err.Error()
		return res
	}
	cmd.Stdout, cmd.Stderr = pw, pw
	if err := cmd.Start(); err != nil {
		pr.Close()
		pw.Close()
		res.Err = err.Error()
		return res
	}
	pw.Close()
	p := &c10Proc{cmd: cmd, in: in, chunks: make(chan []byte, 64)}
	go func() {
		for {
			b := make([]byte, 32<<10)
			n, err := pr.Read(b)
			if n > 0 {
				p.chunks <- b[:n]
			}
			if err != nil {
				close(p.chunks)
				pr.Close()
				return
			}
		}
	}()
	finish := func() {
		in.Close()
		done := make(chan struct{})
		go func() { cmd.Wait(); close(done) }()
		select {
		case <-done:
		case <-time.After(10 * time.Second):
			cmd.Process.Kill()
			<-done
		}
		for range p.chunks { // drain
		}
	}
	defer finish()
	const tmo = 30 * time.Second
	send := func(s string) bool {
		_, err := io.WriteString(in, s+"\n")
		return err == nil
	}
	// marker 0: everything before it is the greeting
	send("@@m0@@")
	if _, ok := p.waitMarker(0, tmo); !ok {
		res.Err = "marker protocol: no echo of the first marker (greeting: " + c10Trunc(string(p.buf)) + ")"
		return res
	}
	c10Snapshot(dir)
	dead := false
	for i, l := range lines {
		if dead {
			res.Segs = append(res.Segs, c10Seg{Dead: true})
			continue
		}
		send(l)
		send(fmt.Sprintf("@@m%d@@", i+1))
		text, ok := p.waitMarker(i+1, tmo)
		if !ok && !p.eof {
			res.Err = fmt.Sprintf("marker protocol: timeout after line %d %q", i, l)
			return res
		}
		seg := c10Seg{Text: c10Normalise(text, dir)}
		seg.Files, seg.Bags = c10Snapshot(dir)
		res.Segs = append(res.Segs, seg)
		if !ok {
			dead = true
			res.Exited = true
		}
	}
	if wantOptions && !dead {
		send("o")
		send("@@m999999@@")
		text, ok := p.waitMarker(999999, tmo)
		if ok {
			res.Options = text
		}
	}
	return res
}

// c10ParseOptions reads the output of `o`: name → displayed value.
var c10OptLineRE = regexp.MustCompile(`^\s*(\S+)\s+=\s(.*)$`)

func c10ParseOptions(text string) map[string]string {
	out := map[string]string{}
	for _, ln := range strings.Split(text, "\n") {
		m := c10OptLineRE.FindStringSubmatch(ln)
		if m == nil {
			continue
		}
		v := m[2]
		if i := strings.Index(v, " //: "); i >= 0 {
			v = v[:i]
		}
		out[m[1]] = strings.TrimRight(v, " ")
	}
	return out
}
