//go:build verif

package main

// C19 (i''): a FIXED grid, run on every check: a request whose settings write FAILS part-way
// ({save an existing name with new options, save a new name, delete} × the file system accepting
// only {0, 1, half, all-but-one} bytes — RLIMIT_FSIZE in the harness process, i.e. the real
// handlers in the SAME process as what follows), followed by {a save of another name, a delete of
// another name, a menu render + apply}.  Oracle: the failed request leaves settings.json
// byte-identical (refinement "failed write = state unchanged"), and every following step is judged
// as always — file after = model(file before, request), other names untouched, menu = file, a
// menu URL applied gives the stored configuration.  Anything a handler keeps in memory from the
// request that failed (a parsed-settings cache edited in place, a remembered "last saved") leaks
// into the next request and shows up there.

import (
	"os"
	"path/filepath"
	"strconv"
	"syscall"
)

// c19WithFsize runs f while the process may grow files only to k bytes.
func c19WithFsize(k int, f func() (int, string, string)) (int, string, string) {
	var old syscall.Rlimit
	if err := syscall.Getrlimit(syscall.RLIMIT_FSIZE, &old); err != nil {
		return f()
	}
	lim := syscall.Rlimit{Cur: uint64(k), Max: old.Max}
	if err := syscall.Setrlimit(syscall.RLIMIT_FSIZE, &lim); err != nil {
		return f()
	}
	defer syscall.Setrlimit(syscall.RLIMIT_FSIZE, &old)
	return f()
}

// failPosition resolves "mid"/"last-1" against the size the document WOULD have: the same request is
// performed on a copy of the settings file by a twin server in a sibling directory.
func (e *c19Env) failPosition(srv *c19Server, st c19Step) int {
	switch st.FailAt {
	case "mid", "last-1":
		twin := e.dir()
		tf := filepath.Join(twin, "pprof", "settings.json")
		os.MkdirAll(filepath.Dir(tf), 0o700)
		if raw, err := os.ReadFile(srv.file); err == nil {
			os.WriteFile(tf, raw, 0o644)
		}
		size := 0
		if ts, err := c19NewServer(twin); err == nil {
			plain := st
			plain.FailAt = ""
			ts.get(plain.request())
			if fi, err := os.Stat(tf); err == nil {
				size = int(fi.Size())
			}
		}
		if st.FailAt == "mid" {
			return size / 2
		}
		if size > 0 {
			return size - 1
		}
		return 0
	}
	n, _ := strconv.Atoi(st.FailAt)
	return n
}

func c19Grid() []c19Case {
	iv := func(s string) c19Intent { return c19Intent{Kind: "val", Val: c19Val{K: 's', S: s}} }
	save := func(name, f string) c19Step {
		return c19Step{Op: "save", Name: name, Params: map[string]string{"f": f}, Intent: map[string]c19Intent{"f": iv(f)}}
	}
	init := []c19Step{save("A", "alpha"), save("B", "beta"), save("C", "gamma")}
	failing := []c19Step{save("B", "beta-changed"), save("N", "new"), {Op: "delete", Name: "B"}}
	var out []c19Case
	for _, fl := range failing {
		for _, at := range []string{"0", "1", "mid", "last-1"} {
			for follow := 0; follow < 3; follow++ {
				f := fl
				f.FailAt = at
				steps := append(append([]c19Step{}, init...), f)
				switch follow {
				case 0:
					steps = append(steps, save("A", "alpha-2"))
				case 1:
					steps = append(steps, c19Step{Op: "delete", Name: "A"})
				case 2:
					steps = append(steps, c19Step{Op: "menu", Page: map[string]string{}},
						c19Step{Op: "apply", Name: "B", Page: map[string]string{"n": "3"}},
						c19Step{Op: "apply", Name: "C", Page: map[string]string{}})
				}
				steps = append(steps, c19Step{Op: "menu", Page: map[string]string{"f": "main"}}, save("Z", "last"))
				out = append(out, c19Case{Kind: "seq", Steps: steps, Note: "failed write then another request"})
			}
		}
	}
	return out
}
