//go:build verif

package main

import (
	"reflect"
	"sort"
	"strings"
	"unsafe"
)

// Pointer reachability for the C03 purity obligation "the result of Merge is independent of
// the input profiles": collect every mutable memory cell (pointer targets, slice elements, map
// headers) reachable from a value, exported and unexported fields alike. Strings are
// immutable and skipped; zero-length slices own no cells.

type reachSet map[unsafe.Pointer]string // cell -> path (indices erased) by which it was first reached

func reachable(root any) reachSet {
	rs := reachSet{}
	walkReach(reflect.ValueOf(root), "", rs, map[unsafe.Pointer]bool{})
	return rs
}

func walkReach(v reflect.Value, path string, rs reachSet, visiting map[unsafe.Pointer]bool) {
	switch v.Kind() {
	case reflect.Ptr:
		if v.IsNil() {
			return
		}
		p := v.UnsafePointer()
		if v.Type().Elem().Size() != 0 {
			if _, ok := rs[p]; !ok {
				rs[p] = path
			}
		}
		if visiting[p] {
			return
		}
		visiting[p] = true
		walkReach(v.Elem(), path, rs, visiting)
	case reflect.Interface:
		if !v.IsNil() {
			walkReach(v.Elem(), path, rs, visiting)
		}
	case reflect.Struct:
		t := v.Type()
		for i := 0; i < v.NumField(); i++ {
			walkReach(v.Field(i), path+"."+t.Field(i).Name, rs, visiting)
		}
	case reflect.Slice:
		if v.IsNil() || v.Len() == 0 || v.Type().Elem().Size() == 0 {
			return
		}
		for i := 0; i < v.Len(); i++ {
			e := v.Index(i)
			p := e.Addr().UnsafePointer()
			if _, ok := rs[p]; !ok {
				rs[p] = path + "[]"
			}
			walkReach(e, path+"[]", rs, visiting)
		}
	case reflect.Array:
		for i := 0; i < v.Len(); i++ {
			walkReach(v.Index(i), path+"[]", rs, visiting)
		}
	case reflect.Map:
		if v.IsNil() {
			return
		}
		p := v.UnsafePointer()
		if _, ok := rs[p]; !ok {
			rs[p] = path + "{}"
		}
		it := v.MapRange()
		for it.Next() {
			walkReach(it.Value(), path+"{}", rs, visiting)
		}
	}
}

// aliasPaths returns the (sorted, distinct) paths in out by which a cell of in is reached.
func aliasPaths(out, in reachSet) []string {
	seen := map[string]bool{}
	for p, path := range out {
		if _, ok := in[p]; ok {
			seen[strings.TrimPrefix(path, ".")] = true
		}
	}
	var ps []string
	for p := range seen {
		ps = append(ps, p)
	}
	sort.Strings(ps)
	return ps
}
