//go:build verif

package main

import (
	"reflect"
	"sort"
	"strings"
	"unsafe"
)

// Pointer reachability for the C03 purity obligation "the result of Merge is independent of
// the input profiles": collect every mutable memory cell (pointer targets, slice elements, map
// headers) reachable from a value, exported and unexported fields alike — the walk is by
// reflection over the types, so EVERY pointer-, slice- and map-typed field reachable from a
// profile is covered without being named: SampleType/PeriodType pointers, the Sample, Mapping,
// Location and Function slices and their targets, Sample.Location/Value, the Label/NumLabel/
// NumUnit maps and the slices stored in them, Location.Line (and Line.Function), Comments, and
// the unexported encoding scratch fields. Strings are immutable and skipped. A slice owns the
// cells of its whole backing array from index 0 to its capacity: the spare capacity behind len
// is recorded too (not followed), so that `append(in.X[:0], …)` and `in.X[:k]` count as shared
// memory even when the visible elements are disjoint or the shared slice is empty.

type reachSet map[unsafe.Pointer]string // cell -> path (indices erased) by which it was first reached

func reachable(root any) reachSet {
	rs := reachSet{}
	walkReach(reflect.ValueOf(root), "", rs, map[unsafe.Pointer]bool{})
	return rs
}

func walkReach(v reflect.Value, path string, rs reachSet, visiting map[unsafe.Pointer]bool) {
	switch v.Kind() {
	case reflect.Ptr:
		if v.IsNil() {
			return
		}
		p := v.UnsafePointer()
		if v.Type().Elem().Size() != 0 {
			if _, ok := rs[p]; !ok {
				rs[p] = path
			}
		}
		if visiting[p] {
			return
		}
		visiting[p] = true
		walkReach(v.Elem(), path, rs, visiting)
	case reflect.Interface:
		if !v.IsNil() {
			walkReach(v.Elem(), path, rs, visiting)
		}
	case reflect.Struct:
		t := v.Type()
		for i := 0; i < v.NumField(); i++ {
			walkReach(v.Field(i), path+"."+t.Field(i).Name, rs, visiting)
		}
	case reflect.Slice:
		if v.IsNil() || v.Cap() == 0 || v.Type().Elem().Size() == 0 {
			return
		}
		for i := 0; i < v.Len(); i++ {
			e := v.Index(i)
			p := e.Addr().UnsafePointer()
			if _, ok := rs[p]; !ok {
				rs[p] = path + "[]"
			}
			walkReach(e, path+"[]", rs, visiting)
		}
		if v.Cap() > v.Len() {
			// spare capacity: cells an append would write to (addresses only, never dereferenced)
			base, sz := v.UnsafePointer(), v.Type().Elem().Size()
			for i := v.Len(); i < v.Cap(); i++ {
				p := unsafe.Add(base, uintptr(i)*sz)
				if _, ok := rs[p]; !ok {
					rs[p] = path + "[cap]"
				}
			}
		}
	case reflect.Array:
		for i := 0; i < v.Len(); i++ {
			walkReach(v.Index(i), path+"[]", rs, visiting)
		}
	case reflect.Map:
		if v.IsNil() {
			return
		}
		p := v.UnsafePointer()
		if _, ok := rs[p]; !ok {
			rs[p] = path + "{}"
		}
		it := v.MapRange()
		for it.Next() {
			walkReach(it.Value(), path+"{}", rs, visiting)
		}
	}
}

// cellKinds is the set of field kinds that own at least one cell in rs: the last component of
// the path by which the cell was first reached ("Label{}", "Label{}[]", "Line[]", "Comments[]",
// "PeriodType", ...). Used to measure which parts of the aliasing surface a case exercises.
func (rs reachSet) cellKinds() map[string]bool {
	ks := map[string]bool{}
	for _, path := range rs {
		if i := strings.LastIndex(path, "."); i >= 0 {
			path = path[i+1:]
		}
		ks[path] = true
	}
	return ks
}

// c03AliasSurface: the field kinds of profile.Profile through which a result could share memory
// with an input. A run must exercise every one of them (cells on that path both in some input
// and in the result), otherwise the "not aliased" verdict for that field kind is vacuous.
var c03AliasSurface = []string{"SampleType[]", "PeriodType", "Sample[]", "Location[]", "Value[]",
	"Label{}", "Label{}[]", "NumLabel{}", "NumLabel{}[]", "NumUnit{}", "NumUnit{}[]",
	"Mapping[]", "Mapping", "Line[]", "Function", "Function[]", "Comments[]"}

// aliasPaths returns the (sorted, distinct) paths in out by which a cell of in is reached.
func aliasPaths(out, in reachSet) []string {
	seen := map[string]bool{}
	for p, path := range out {
		if _, ok := in[p]; ok {
			seen[strings.TrimPrefix(path, ".")] = true
		}
	}
	var ps []string
	for p := range seen {
		ps = append(ps, p)
	}
	sort.Strings(ps)
	return ps
}
