//go:build verif

package main

// splitmix64: every random choice of the harness derives from one state seeded by VERIF_SEED.
type Rng struct{ s uint64 }

// NewRng scrambles the seed first: with a linear seed-to-state map consecutive seeds would
// yield shifted copies of one stream (state advances by the same constant per draw).
func NewRng(seed uint64) *Rng {
	z := seed + 0x1234567
	z = (z ^ (z >> 30)) * 0xBF58476D1CE4E5B9
	z = (z ^ (z >> 27)) * 0x94D049BB133111EB
	z ^= z >> 31
	z = (z ^ (z >> 33)) * 0xFF51AFD7ED558CCD
	return &Rng{s: z ^ (z >> 29)}
}

func (r *Rng) U64() uint64 {
	r.s += 0x9E3779B97F4A7C15
	z := r.s
	z = (z ^ (z >> 30)) * 0xBF58476D1CE4E5B9
	z = (z ^ (z >> 27)) * 0x94D049BB133111EB
	return z ^ (z >> 31)
}
func (r *Rng) Intn(n int) int {
	if n <= 0 {
		return 0
	}
	return int(r.U64() % uint64(n))
}
func (r *Rng) Bool() bool        { return r.U64()&1 == 1 }
func (r *Rng) Chance(p int) bool { return r.Intn(100) < p } // p percent
func (r *Rng) Pick(ss []string) string {
	return ss[r.Intn(len(ss))]
}
func (r *Rng) Fork() *Rng { return &Rng{s: r.U64()} }

// Int64 draws from a distribution that over-represents boundary values.
func (r *Rng) Int64() int64 {
	switch r.Intn(10) {
	case 0:
		return 0
	case 1:
		return int64(r.Intn(3)) - 1
	case 2:
		b := []int64{1<<63 - 1, -1 << 63, 1<<53 + 1, -(1<<53 + 1), 1 << 32, -(1 << 31), 127, 128, 16383, 16384}
		return b[r.Intn(len(b))]
	case 3:
		return int64(r.U64())
	case 4:
		return -int64(r.Intn(1000))
	default:
		return int64(r.Intn(1000))
	}
}
