//go:build verif

package main

// C08, stream "symbolize": local symbolization through the REAL symbolizer with a scripted ObjTool.
//
// The answers of the object tool are a fixed function of (binary, address); the only thing that
// changes between repetitions is TIMING: the per-mapping latency of SourceLine is permuted per
// repetition (sleep + Gosched loops) and GOMAXPROCS varies.  The symbolized profile must serialize to
// the same bytes in every repetition (direct oracle), and the function ids / the order of
// prof.Function must be the model's first-come numbering over the frames taken in prof.Mapping /
// prof.Location / leaf-first order (Model/SymIds.lean through the driver).

import (
	"bytes"
	"fmt"
	"regexp"
	"runtime"
	"sort"
	"strconv"
	"strings"
	"time"

	"github.com/google/pprof/internal/plugin"
	"github.com/google/pprof/internal/symbolizer"
	"github.com/google/pprof/profile"
)

type c08Frame struct {
	Func      string
	File      string
	Line      int
	StartLine int
}

// c08SymCase is the replay form of one symbolization case.
type c08SymCase struct {
	Kind    string                           `json:"kind"`     // "symbolize"
	Profile string                           `json:"profile"`  // canonical, unsymbolized
	Script  map[string]map[string][]c08Frame `json:"script"`   // binary -> hex address -> frames, leaf first
	Seed    uint64                           `json:"lat_seed"` // seeds the latency permutations
	Reps    int                              `json:"reps"`
	Outs    []string                         `json:"observed,omitempty"`
	Model   string                           `json:"model,omitempty"`
}

type c08QuietUI struct{}

func (c08QuietUI) ReadLine(string) (string, error)     { return "", fmt.Errorf("no input") }
func (c08QuietUI) Print(...interface{})                {}
func (c08QuietUI) PrintErr(...interface{})             {}
func (c08QuietUI) IsTerminal() bool                    { return false }
func (c08QuietUI) WantBrowser() bool                   { return false }
func (c08QuietUI) SetAutoComplete(func(string) string) {}

type c08ObjTool struct {
	script map[string]map[string][]c08Frame
	delay  map[string]time.Duration // per binary, this repetition
	spins  map[string]int
}

func (o *c08ObjTool) Open(file string, start, limit, offset uint64, relocationSymbol string) (plugin.ObjFile, error) {
	s, ok := o.script[file]
	if !ok {
		return nil, fmt.Errorf("no such file %s", file)
	}
	return &c08ObjFile{name: file, answers: s, delay: o.delay[file], spins: o.spins[file]}, nil
}

func (o *c08ObjTool) Disasm(file string, start, end uint64, intelSyntax bool) ([]plugin.Inst, error) {
	return nil, fmt.Errorf("not implemented")
}

type c08ObjFile struct {
	name    string
	answers map[string][]c08Frame
	delay   time.Duration
	spins   int
}

func (f *c08ObjFile) Name() string                        { return f.name }
func (f *c08ObjFile) ObjAddr(addr uint64) (uint64, error) { return addr, nil }
func (f *c08ObjFile) BuildID() string                     { return "" }
func (f *c08ObjFile) Close() error                        { return nil }
func (f *c08ObjFile) Symbols(r *regexp.Regexp, addr uint64) ([]*plugin.Sym, error) {
	return nil, fmt.Errorf("not implemented")
}
func (f *c08ObjFile) SourceLine(addr uint64) ([]plugin.Frame, error) {
	for i := 0; i < f.spins; i++ {
		runtime.Gosched()
	}
	if f.delay > 0 {
		time.Sleep(f.delay)
	}
	var out []plugin.Frame
	for _, fr := range f.answers[strconv.FormatUint(addr, 16)] {
		out = append(out, plugin.Frame{Func: fr.Func, File: fr.File, Line: fr.Line, StartLine: fr.StartLine})
	}
	return out, nil
}

// c08FuncKey is the function value addFunction deduplicates on (Name, SystemName, Filename, StartLine).
func c08FuncKey(name, file string, startLine int64) string {
	return name + "\x00" + file + "\x00" + strconv.FormatInt(startLine, 10)
}

func c08GenSymCase(r *Rng) c08SymCase {
	nm := 3 + r.Intn(3)
	p := &profile.Profile{
		SampleType: []*profile.ValueType{{Type: "cpu", Unit: "milliseconds"}},
		PeriodType: &profile.ValueType{Type: "cpu", Unit: "milliseconds"}, Period: 1,
	}
	cs := c08SymCase{Kind: "symbolize", Script: map[string]map[string][]c08Frame{}, Seed: r.U64(), Reps: 5}
	bins := []string{"/bin/app", "/lib/libwork.so", "/lib/libc.so.6", "/opt/plug.so", "/lib/libm.so"}
	// some functions (inlined helpers, same header) are answered by several binaries: they are the
	// values addFunction deduplicates across mappings
	shared := []c08Frame{{Func: "inline_helper", File: "/src/util.h", Line: 7, StartLine: 5}, {Func: "memcpy", File: "/src/string.h", Line: 40}}
	if r.Chance(30) {
		// pre-existing functions with sparse ids: new ids must continue above the maximum
		p.Function = []*profile.Function{{ID: 7, Name: "old", SystemName: "old", Filename: "/src/old.c"}}
	}
	var lid uint64
	for i := 0; i < nm; i++ {
		m := &profile.Mapping{ID: uint64(i + 1), Start: uint64(0x1000 * (2*i + 1)), Limit: uint64(0x1000 * (2*i + 2)), File: bins[i]}
		p.Mapping = append(p.Mapping, m)
		cs.Script[m.File] = map[string][]c08Frame{}
	}
	// locations interleaved over the mappings (prof.Location order is not grouped by mapping)
	nl := nm*2 + r.Intn(nm*2)
	for k := 0; k < nl; k++ {
		m := p.Mapping[k%nm]
		if k >= nm {
			m = p.Mapping[r.Intn(nm)]
		}
		lid++
		addr := m.Start + uint64(0x10*(1+r.Intn(8)))
		l := &profile.Location{ID: lid, Mapping: m, Address: addr}
		p.Location = append(p.Location, l)
		base := strings.TrimSuffix(m.File[strings.LastIndexByte(m.File, '/')+1:], ".so")
		var frames []c08Frame
		if r.Chance(35) {
			frames = append(frames, shared[r.Intn(len(shared))])
		}
		frames = append(frames, c08Frame{Func: fmt.Sprintf("%s_f%x", base, addr&0xff), File: "/src/" + base + ".c", Line: int(addr & 0xff), StartLine: 1})
		if r.Chance(10) {
			frames = nil // address the tool cannot resolve
		}
		cs.Script[m.File][strconv.FormatUint(addr, 16)] = frames
	}
	for i, n := 0, 2+r.Intn(4); i < n; i++ {
		s := &profile.Sample{Value: []int64{int64(1 + r.Intn(9))}}
		for j, d := 0, 1+r.Intn(4); j < d; j++ {
			s.Location = append(s.Location, p.Location[r.Intn(len(p.Location))])
		}
		p.Sample = append(p.Sample, s)
	}
	cs.Profile = Canon(p)
	return cs
}

// c08SymExpected asks the model for the sequential numbering.
func c08SymExpected(c *Ctx, p *profile.Profile, cs c08SymCase) (ids []uint64, added []string, reply string) {
	var start uint64
	for _, f := range p.Function {
		if f.ID > start {
			start = f.ID
		}
	}
	var keys []string
	for _, m := range p.Mapping {
		for _, l := range p.Location {
			if l.Mapping != m {
				continue
			}
			for _, fr := range cs.Script[m.File][strconv.FormatUint(l.Address, 16)] {
				keys = append(keys, c08FuncKey(fr.Func, fr.File, int64(fr.StartLine)))
			}
		}
	}
	var w tw
	w.tok("sym.ids")
	w.nat(start)
	w.n(len(keys))
	for _, k := range keys {
		w.str(k)
	}
	reply = c.Drv.Ask(w.String())
	f := strings.Fields(reply)
	if len(f) < 3 || f[0] != "ok" {
		return nil, nil, reply
	}
	n, _ := strconv.Atoi(f[1])
	if len(f) < 3+n {
		return nil, nil, reply
	}
	for _, t := range f[2 : 2+n] {
		v, _ := strconv.ParseUint(t, 10, 64)
		ids = append(ids, v)
	}
	added = f[3+n:]
	return ids, added, reply
}

func c08Symbolize(c *Ctx, cs c08SymCase) {
	bins := make([]string, 0, len(cs.Script))
	for b := range cs.Script {
		bins = append(bins, b)
	}
	sort.Strings(bins)
	r := NewRng(cs.Seed)
	procs := []int{0, 1, 2, 4, 8}
	old := runtime.GOMAXPROCS(0)
	defer runtime.GOMAXPROCS(old)
	var outs [][]byte
	var last *profile.Profile
	reps := cs.Reps
	if reps < 4 {
		reps = 4
	}
	for rep := 0; rep < reps; rep++ {
		p, err := ParseCanon(cs.Profile)
		if err != nil {
			c.Res.HarnessError = "ParseCanon: " + err.Error()
			return
		}
		// latency ranks permuted per repetition; repetition 0 has no latency at all
		ot := &c08ObjTool{script: cs.Script, delay: map[string]time.Duration{}, spins: map[string]int{}}
		if rep > 0 {
			for rank, i := range perm(r, len(bins)) {
				ot.delay[bins[i]] = time.Duration(rank) * 150 * time.Microsecond
				ot.spins[bins[i]] = rank * 3
			}
		}
		if n := procs[rep%len(procs)]; n > 0 {
			runtime.GOMAXPROCS(n)
		} else {
			runtime.GOMAXPROCS(old)
		}
		s := &symbolizer.Symbolizer{Obj: ot, UI: c08QuietUI{}}
		var serr error
		if pn := safely(func() { serr = s.Symbolize("local", nil, p) }); pn != "" || serr != nil {
			c.Violation("C08/symbolize/panic-or-error", fmt.Sprint(pn, serr), cs)
			return
		}
		b, pn := writeU(p)
		if pn != "" {
			c.Violation("C08/symbolize/write-panic", pn, cs)
			return
		}
		outs = append(outs, b)
		last = p
	}
	runtime.GOMAXPROCS(old)
	for k := 1; k < len(outs); k++ {
		if !bytes.Equal(outs[k], outs[0]) {
			q0, _ := profile.ParseData(outs[0])
			qk, _ := profile.ParseData(outs[k])
			cs.Outs = []string{c08FuncList(q0), c08FuncList(qk)}
			c.Violation("C08/symbolize/serialization-depends-on-lookup-latency", fmt.Sprintf("local symbolization of the same profile with the same object-tool answers serialized differently in repetition %d (only the per-mapping lookup latency and GOMAXPROCS differ)", k), cs)
			return
		}
	}
	// correspondence with the model's sequential first-come numbering
	p0, _ := ParseCanon(cs.Profile)
	ids, added, reply := c08SymExpected(c, p0, cs)
	c.Res.ModelCompared++
	cs.Model = trunc(reply)
	if ids == nil && !strings.HasPrefix(reply, "ok 0") {
		c.Disagree("C08/symbolize/model-"+firstWord(reply), "model did not answer sym.ids: "+trunc(reply), "correspondence SymIds.assign ~ doLocalSymbolize/addFunction", cs)
		return
	}
	var got []uint64
	for _, m := range last.Mapping {
		for _, l := range last.Location {
			if l.Mapping != m {
				continue
			}
			if len(cs.Script[m.File][strconv.FormatUint(l.Address, 16)]) == 0 {
				continue
			}
			for _, ln := range l.Line {
				if ln.Function != nil {
					got = append(got, ln.Function.ID)
				} else {
					got = append(got, 0)
				}
			}
		}
	}
	var gotAdded []string
	for _, f := range last.Function[len(p0.Function):] {
		gotAdded = append(gotAdded, hexTok([]byte(c08FuncKey(f.Name, f.Filename, f.StartLine))))
	}
	if fmt.Sprint(got) != fmt.Sprint(ids) || strings.Join(gotAdded, " ") != strings.Join(added, " ") {
		cs.Outs = []string{fmt.Sprint("ids ", got), "functions " + c08FuncList(last)}
		c.Disagree("C08/symbolize/id-assignment", "function ids / prof.Function order after local symbolization differ from first-come numbering in prof.Mapping, prof.Location, leaf-first order", "correspondence SymIds.assign ~ doLocalSymbolize/addFunction (symbolize_ids_follow_processing_order)", cs)
	}
}

func c08FuncList(p *profile.Profile) string {
	if p == nil {
		return "unparsable"
	}
	var s []string
	for _, f := range p.Function {
		s = append(s, fmt.Sprintf("%d:%s", f.ID, f.Name))
	}
	return strings.Join(s, " ")
}

func c08SymStream(c *Ctx, r *Rng, n int) {
	for i := 0; i < n; i++ {
		cs := c08GenSymCase(r)
		c08Symbolize(c, cs)
		shared := 0
		for _, m := range cs.Script {
			for _, fr := range m {
				if len(fr) > 1 {
					shared++
				}
			}
		}
		c.Res.Hit(fmt.Sprintf("symbolize:mappings=%d", len(cs.Script)))
		if shared > 0 {
			c.Res.Hit("symbolize:with-functions-shared-across-mappings")
		}
		c.Res.Count("symbolize/"+cs.Profile+fmt.Sprint(cs.Script), len(cs.Script) >= 3)
	}
}
