//go:build verif

package main

import (
	"bytes"
	"encoding/hex"
	"fmt"
	"net/url"
	"strings"
	"unicode"

	"github.com/google/pprof/profile"
)

// ---------------------------------------------------------------------------------------------
// Generators for C09: profiles with odd content, option assignments, interactive scripts from a
// command grammar plus noise, URL query strings. All randomness comes from the *Rng passed in.
// ---------------------------------------------------------------------------------------------

var c09Regexps = []string{
	"", "main", "foo|bar", ".*", "^$", "a.b", "f\\(int\\)", "[", "(", ")", "a{1000}{1000}", "(?i)MAIN", "\\", "*", "+", "?",
	"[[:alpha:]]+", "(?P<n>x)", "\\pL", "a{2,1}", "x{99999}", "\xff", "μs", "\\x00", "(a*)*b", "runtime\\..*", "^main$", "std::.*",
	"a|", "|", "(?:)", "[^a]", "\\Q", "\\E", "(?U)a+", "a**", "日本", "<tag>", "sp ace", "k:v", "key2:.*",
}

var c09Units = []string{"", "kb", "KB", "kB", "mb", "ms", "s", "us", "ns", "hrs", "hour", "bytes", "byte", "b", "gcu", "nanogcu",
	"x", "zz", "seconds", "minimum", "auto", "count", "sample", "unit", "megabytes", "kilobyte", "S", "Ms", "ss", "bs"}

var c09Numbers = []string{"0", "1", "-1", "+1", "10", "007", "32", "64", "1024", "4096", "2147483647", "2147483648", "-2147483648",
	"-2147483649", "4294967296", "9223372036854775807", "9223372036854775808", "-9223372036854775808", "-9223372036854775809",
	"18446744073709551615", "18446744073709551616", "99999999999999999999", "-99999999999999999999", "+99999999999999999999",
	"000000000000000000000001", "123456789012345678901234567890", "1e3", "0x10", "1_000", "１２", "1.5", "", "-", "+", "--1", "+-1"}

// c09SizedValues: regexp-valid option values whose length straddles the size limits of the code in
// bytes AND in runes: long ASCII (79, 80, 81, 200, 5000 bytes), 20-100 runes of 2-, 3- and 4-byte
// characters, mixtures with ASCII, combining marks; plus a few that are not valid UTF-8 (rejected
// by regexp.Compile: they exercise the error path only).
var c09SizedValues = func() []string {
	var out []string
	for _, n := range []int{79, 80, 81, 200, 5000} {
		out = append(out, strings.Repeat("a", n))
	}
	for _, ch := range []string{"é", "日", "😀"} {
		for _, n := range []int{20, 26, 27, 28, 30, 40, 41, 60, 77, 79, 80, 81, 100} {
			out = append(out, strings.Repeat(ch, n))
		}
	}
	out = append(out, strings.Repeat("a日", 30), strings.Repeat("日a", 41), "main|"+strings.Repeat("é", 45), strings.Repeat("e\u0301", 30), strings.Repeat("e\u0301", 45),
		strings.Repeat("a", 78)+"日", strings.Repeat("a", 79)+"日", strings.Repeat("a", 80)+"日", "(?i)"+strings.Repeat("Ж", 50), "^("+strings.Repeat("語|", 30)+"x)$",
		strings.Repeat("\xff", 90), strings.Repeat("日", 26)+"\xe6", strings.Repeat("é", 40)+"\xc3")
	return out
}()

// c09Rx draws a regexp-like option value: mostly from the small pool, sometimes a sized value.
func c09Rx(r *Rng) string {
	if r.Chance(15) {
		return c09SizedValues[r.Intn(len(c09SizedValues))]
	}
	return c09Rx(r)
}

// c09TagValue draws a -tagfocus/-tagignore value: ranges (the four documented forms and near
// misses), out-of-int64 numbers, key=value forms, regexps. big=false keeps every number inside
// int64 (the stream that cannot trigger the ParseInt overflow finding).
func c09TagValue(r *Rng, big bool) string {
	num := func() string {
		for {
			n := c09Numbers[r.Intn(len(c09Numbers))]
			if r.Chance(30) {
				n = fmt.Sprint(r.Int64())
			}
			if !big && c09Overflows(n) {
				continue
			}
			return n
		}
	}
	q := func() string { return num() + c09Units[r.Intn(len(c09Units))] }
	var v string
	switch r.Intn(12) {
	case 0:
		v = q()
	case 1:
		v = q() + ":"
	case 2:
		v = ":" + q()
	case 3:
		v = q() + ":" + q()
	case 4:
		v = q() + ":" + q() + ":" + q()
	case 5:
		v = c09Rx(r)
		if !big && c09HasLongDigits(v) {
			v = "main"
		}
	case 6:
		v = c09Regexps[r.Intn(len(c09Regexps))] + "," + c09Regexps[r.Intn(len(c09Regexps))]
	case 7:
		v = "x" + q() + "y"
	case 8:
		v = q() + "," + q()
	case 9:
		v = q() + " :" + q()
	case 10:
		v = strings.Repeat("9", r.Intn(25))
		if !big && c09Overflows(v) {
			v = "9"
		}
	default:
		v = q() + c09Noise(r, 3, false)
		if !big && c09HasLongDigits(v) {
			v = "1kb"
		}
	}
	switch r.Intn(6) {
	case 0:
		v = r.Pick([]string{"bytes", "k", "key2", "", "request", "a=b", "1"}) + "=" + v
	case 1:
		v = "=" + v
	}
	if !big && c09HasLongDigits(v) {
		return "1:2"
	}
	return v
}

// c09Overflows: a digit run of 19 or more digits may exceed int64.
func c09Overflows(s string) bool { return c09HasLongDigits(s) }

func c09HasLongDigits(s string) bool {
	run := 0
	for i := 0; i < len(s); i++ {
		if s[i] >= '0' && s[i] <= '9' {
			run++
			if run >= 19 {
				return true
			}
		} else {
			run = 0
		}
	}
	return false
}

// c09Noise: random bytes. ctl=false avoids control characters (the real binary's readline treats
// ^C/^D/escape sequences as keys, which is terminal behaviour, not a typed line).
func c09Noise(r *Rng, max int, ctl bool) string {
	n := r.Intn(max + 1)
	var b bytes.Buffer
	alphabet := " \t=:>-+|,./\\()[]{}*?^$\"'`<&;#%0123456789abcxyzTOPqo_\x7f\x80\xff\xc2\xa0\xe2\x80\x83μ日"
	for i := 0; i < n; i++ {
		switch r.Intn(8) {
		case 0:
			if ctl {
				ch := byte(r.Intn(32))
				if ch == '\n' {
					ch = 0
				}
				b.WriteByte(ch)
			} else {
				b.WriteByte(' ')
			}
		case 1:
			b.WriteByte(byte(0x80 + r.Intn(128)))
		default:
			b.WriteByte(alphabet[r.Intn(len(alphabet))])
		}
	}
	return b.String()
}

type c09Field struct{ name, kind string }

var c09Fields = []c09Field{
	{"output", "string"}, {"call_tree", "bool"}, {"relative_percentages", "bool"}, {"unit", "string"}, {"compact_labels", "bool"},
	{"source_path", "string"}, {"trim_path", "string"}, {"intel_syntax", "bool"}, {"mean", "bool"}, {"sample_index", "string"},
	{"divide_by", "float"}, {"normalize", "bool"}, {"sort", "choice"}, {"tagroot", "string"}, {"tagleaf", "string"},
	{"drop_negative", "bool"}, {"nodecount", "int"}, {"nodefraction", "float"}, {"edgefraction", "float"}, {"trim", "bool"},
	{"focus", "string"}, {"ignore", "string"}, {"prune_from", "string"}, {"hide", "string"}, {"show", "string"}, {"show_from", "string"},
	{"tagfocus", "string"}, {"tagignore", "string"}, {"tagshow", "string"}, {"taghide", "string"}, {"noinlines", "bool"},
	{"showcolumns", "bool"}, {"granularity", "choice"},
}
var c09Choices = []string{"cum", "flat", "functions", "filefunctions", "files", "lines", "addresses"}
var c09Commands = []string{"comments", "disasm", "dot", "list", "peek", "raw", "tags", "text", "top", "traces", "tree", "callgrind",
	"proto", "topproto", "gif", "pdf", "png", "ps", "svg", "eog", "evince", "gv", "web", "kcachegrind", "weblist"}
var c09ParamCommands = map[string]bool{"disasm": true, "list": true, "peek": true, "weblist": true}

var c09Bools = []string{"", "true", "false", "t", "f", "T", "F", "1", "0", "yes", "no", "y", "n", "YES", "True", "FALSE", "2", "maybe", "tru", " true", "ｔ"}
var c09Floats = []string{"0", "1", "-1", "0.5", "1e3", "1e400", "NaN", "nan", "Inf", "-inf", "+Inf", "0x1p-2", "1_0", ".", "", "e", "1e", "--1", "1.5.5",
	"0.000000000000000000000000000001", "1e-400", "１"}

// c09FloatOK: the pool entries strconv.ParseFloat accepts (evaluated with the real strconv by the caller).

// c09OptionValue draws a value for a field kind; safe=false may produce a ParseInt-overflowing tag range.
func c09OptionValue(r *Rng, f c09Field, sampleTypes []string, big bool) string {
	if r.Chance(6) {
		return c09Noise(r, 12, false)
	}
	switch f.kind {
	case "bool":
		if r.Chance(60) {
			return r.Pick([]string{"true", "false", "1", "0", "t", "f"})
		}
		return c09Bools[r.Intn(len(c09Bools))]
	case "int":
		if r.Chance(40) {
			return r.Pick([]string{"0", "1", "2", "5", "10", "100", "-1", "-7", "2147483647"})
		}
		if r.Chance(50) {
			return c09Numbers[r.Intn(len(c09Numbers))]
		}
		return fmt.Sprint(r.Int64())
	case "float":
		if r.Chance(50) {
			return r.Pick([]string{"0", "1", "0.5", "0.01", "2", "1e3", "-1", "1e-9", "NaN", "Inf"})
		}
		return c09Floats[r.Intn(len(c09Floats))]
	case "choice":
		if r.Chance(70) {
			return c09Choices[r.Intn(len(c09Choices))]
		}
		return r.Pick([]string{"", "CUM", "cum ", "line", "x"})
	}
	if r.Chance(8) { // every string-valued option, whatever its meaning
		return c09SizedValues[r.Intn(len(c09SizedValues))]
	}
	switch f.name {
	case "tagfocus", "tagignore":
		return c09TagValue(r, big)
	case "sample_index":
		switch r.Intn(6) {
		case 0:
			return c09Numbers[r.Intn(len(c09Numbers))]
		case 1:
			return "inuse_" + r.Pick(append([]string{"space"}, sampleTypes...))
		case 2:
			return r.Pick([]string{"", "nosuch", "-0", "00", "+1"})
		default:
			if len(sampleTypes) > 0 {
				return sampleTypes[r.Intn(len(sampleTypes))]
			}
			return "0"
		}
	case "unit":
		return c09Units[r.Intn(len(c09Units))]
	case "tagroot", "tagleaf":
		return r.Pick([]string{"", "k", "key2,bytes", ",", ",,k", "nosuch", "bytes", "request,thread", "\xff", "a b"})
	case "output":
		return r.Pick([]string{"", "out.txt", "out/../x", "/nonexistent/dir/file", "a b", ".", "\xff"})
	case "source_path", "trim_path":
		return r.Pick([]string{"", "/", ":", "/a:/b", "::", "\xff", "*"})
	}
	return c09Regexps[r.Intn(len(c09Regexps))]
}

// c09ScriptLine draws one interactive line from the command grammar or noise. ctl allows control
// characters (in-process scripted UI only). It never produces a line that quits the session.
func c09ScriptLine(r *Rng, sampleTypes []string, big, ctl bool) string {
	rx := func() string {
		s := c09Rx(r)
		if strings.ContainsAny(s, " \t") || s == "" {
			return "main"
		}
		return s
	}
	var line string
	if r.Chance(15) { // a mutated valid command / assignment / help request
		return c09CleanLine(c09MutatedValid(r), ctl)
	}
	switch r.Intn(17) {
	case 16: // text report into a file: the legend carries the parsed filters
		toks := []string{r.Pick([]string{"top", "text", "tree", "top5", "tree20", "tags", "peek main"})}
		for i, n := 0, r.Intn(4); i < n; i++ {
			switch r.Intn(5) {
			case 0:
				toks = append(toks, "-"+rx())
			case 1:
				toks = append(toks, r.Pick([]string{"3", "-cum", "--cum", "0", "-5"}))
			default:
				toks = append(toks, rx())
			}
		}
		toks = append(toks, r.Pick([]string{">out", "> out2", ">o.txt"}))
		line = strings.Join(toks, " ")
	case 0, 1, 2, 3: // report command with arguments
		cmd := c09Commands[r.Intn(len(c09Commands))]
		var toks []string
		if r.Chance(25) {
			cmd += r.Pick([]string{"10", "0", "5", "99999999999", "007", "1", "2147483648"})
		}
		toks = append(toks, cmd)
		if c09ParamCommands[strings.TrimRight(cmd, "0123456789")] && r.Chance(85) {
			toks = append(toks, rx())
		}
		for i, n := 0, r.Intn(4); i < n; i++ {
			switch r.Intn(9) {
			case 0:
				toks = append(toks, c09Numbers[r.Intn(len(c09Numbers))])
			case 1:
				toks = append(toks, "-"+rx())
			case 2:
				toks = append(toks, r.Pick([]string{"-cum", "--cum", "-", "--", "-flat"}))
			case 3:
				toks = append(toks, ">"+r.Pick([]string{"out1", "o.txt", "/nonexistent/x", ">", "-"}))
			case 4:
				toks = append(toks, ">")
				if r.Chance(60) {
					toks = append(toks, r.Pick([]string{"out2", ">", "10", "-x"}))
				}
			default:
				toks = append(toks, rx())
			}
		}
		line = strings.Join(toks, r.Pick([]string{" ", " ", "  ", "\t"}))
	case 4, 5, 6, 7: // assignment
		f := c09Fields[r.Intn(len(c09Fields))]
		v := c09OptionValue(r, f, sampleTypes, big)
		v = strings.ReplaceAll(v, "\n", " ")
		switch r.Intn(8) {
		case 0:
			line = f.name
		case 1:
			line = f.name + " = " + v + " //: [a | b]"
		case 2:
			line = " " + f.name + "=" + v + "//://:"
		case 3:
			line = f.name + "=" + v + "=" + v
		default:
			line = f.name + "=" + v
		}
	case 8: // choice as variable
		ch := c09Choices[r.Intn(len(c09Choices))]
		line = ch + r.Pick([]string{"", "=", "=true", "=1", "=false", "=0", "=T", "=x", "= true", "=TRUE"})
	case 9: // shortcuts
		st := "samples"
		if len(sampleTypes) > 0 {
			st = sampleTypes[r.Intn(len(sampleTypes))]
		}
		line = r.Pick([]string{":", " : ", st, "total_" + st, "mean_" + st, "total_", "mean_", st + " "})
	case 10:
		line = r.Pick([]string{"o", "options", "help", "help top", "help  nodecount", "help nosuch", "help help", "help cum", "o o", "help >"})
	case 11:
		line = r.Pick([]string{"", " ", "\t", "=", " = ", "==", ">", "> x", "-", "--cum", "10", "top>", "top >", "top > ", "top>x>", "=top", "top=", "top =1", "//:", "focus=//:", "x=//:y"})
	case 12:
		line = c09Commands[r.Intn(len(c09Commands))] + c09Noise(r, 10, ctl)
	case 13:
		line = c09Noise(r, 10, ctl) + "=" + c09Noise(r, 10, ctl)
	default:
		line = c09Noise(r, 40, ctl)
	}
	// mutation operators over the grammar's lines (case, abbreviations, separators, redirections, …)
	if r.Chance(20) {
		line = c09MutateLine(r, line)
	}
	return c09CleanLine(line, ctl)
}

// c09ValidLines: plain valid commands, assignments and help requests — the seeds of the mutation
// operators (every one of them is answered with a report, an option change or a help text).
var c09ValidLines = []string{"top", "top 5", "top -cum main", "top10", "text", "tree", "tree 3 main", "traces", "tags", "tags k", "peek main", "peek .",
	"raw", "comments", "dot", "list main", "disasm main", "callgrind", "proto", "topproto", "svg", "weblist main", "web", "kcachegrind",
	"top >out", "tree > out2", "text main -foo >o.txt", "help", "help top", "help nodecount", "help cum", "o", "options",
	"focus=main", "ignore=foo", "granularity=lines", "sort=cum", "nodecount=5", "nodefraction=0.1", "sample_index=0", "mean=1", "mean", "trim=false",
	"call_tree", "cum", "flat", "lines", "files=true", "tagfocus=1:", "unit=ms", "hide=x", "show=.", "divide_by=2", ":"}

// c09MutateLine applies one or two command-line mutation operators to a line: case changes of the
// command / option name (upper, title, random mixed, unicode case variants), digit abbreviations,
// separator noise, redirections and pipes with odd targets, names that are prefixes, suffixes or
// concatenations of command names, mixed-case `help <cmd>`.
func c09MutateLine(r *Rng, line string) string {
	// split off the name (first token, up to '=' or white space), keeping what follows
	lead := line[:len(line)-len(strings.TrimLeft(line, " \t"))]
	rest := line[len(lead):]
	end := strings.IndexAny(rest, " \t=")
	if end < 0 {
		end = len(rest)
	}
	name, tail := rest[:end], rest[end:]
	mixed := func(s string) string {
		b := []byte(s)
		for i := range b {
			if r.Bool() {
				b[i] = byte(unicode.ToUpper(rune(b[i])))
			}
		}
		return string(b)
	}
	caseOp := func(s string) string {
		switch r.Intn(6) {
		case 0:
			return strings.ToUpper(s)
		case 1:
			if s == "" {
				return s
			}
			return strings.ToUpper(s[:1]) + s[1:]
		case 2, 3:
			return mixed(s)
		case 4: // unicode letters whose lower/upper case folds onto ASCII letters
			return strings.NewReplacer("s", "ſ", "i", "İ", "k", "\u212a", "I", "ı").Replace(s)
		default:
			return strings.ToUpper(s[:len(s)/2]) + s[len(s)/2:]
		}
	}
	for n := 1 + r.Intn(2); n > 0; n-- {
		switch r.Intn(9) {
		case 0, 1, 2:
			name = caseOp(name)
		case 3: // mixed-case help / case change of the word after help
			if strings.EqualFold(name, "help") {
				name, tail = caseOp(name), " "+caseOp(strings.TrimSpace(tail))
			} else {
				name, tail = r.Pick([]string{"help", "HELP", "Help"}), " "+caseOp(name)
			}
		case 4: // digit abbreviation
			name += r.Pick([]string{"10", "5", "0", "007", "99999999999", "1e3", "１０"})
		case 5: // separators
			switch r.Intn(4) {
			case 0:
				lead = r.Pick([]string{" ", "\t", "   ", " \t "})
			case 1:
				tail += r.Pick([]string{" ", "\t", "    ", " \t"})
			case 2:
				tail = strings.ReplaceAll(tail, " ", r.Pick([]string{"  ", "\t", " \t ", "   "}))
			default:
				tail = strings.Replace(tail, "=", r.Pick([]string{" =", "= ", " = ", "\t=\t", "=="}), 1)
			}
		case 6: // redirections and pipes with odd targets
			tail += r.Pick([]string{" >", " > ", " >>x", " >|x", " | less", " |", "|x", " > .", " > ..", " > /", " >/dev/null", " > /dev/full", " >-", " > \"q\"",
				" > a/b/c", " >" + strings.Repeat("n", 300), " > ~", " >x >y", " > > x", " 2>&1", " >x|y", " <in", " > ../up"})
		case 7: // prefixes, suffixes, concatenations of command names
			other := c09Commands[r.Intn(len(c09Commands))]
			switch r.Intn(5) {
			case 0:
				if len(name) > 1 {
					name = name[:1+r.Intn(len(name)-1)]
				}
			case 1:
				if len(name) > 1 {
					name = name[1+r.Intn(len(name)-1):]
				}
			case 2:
				name += other
			case 3:
				name = other + name
			default:
				name += r.Pick([]string{"s", "_", ".", "-", "x", "proto", "list"})
			}
		default: // case change of the first argument / value as well
			f := strings.Fields(tail)
			if len(f) > 0 {
				tail = strings.Replace(tail, f[0], caseOp(f[0]), 1)
			} else {
				name = caseOp(name)
			}
		}
	}
	return lead + name + tail
}

// c09MutatedValid: a valid line with mutation operators applied (always at least one).
func c09MutatedValid(r *Rng) string {
	return c09MutateLine(r, c09ValidLines[r.Intn(len(c09ValidLines))])
}

// c09CleanLine makes a generated line typeable: no newline; for the real binary (ctl=false) no
// control characters either (its readline treats them as keys); never a line that quits.
func c09CleanLine(line string, ctl bool) string {
	line = strings.ReplaceAll(line, "\n", " ")
	if !ctl {
		line = strings.Map(func(c rune) rune {
			if c < 0x20 && c != '\t' {
				return ' '
			}
			return c
		}, line)
		line = strings.ReplaceAll(line, "\x7f", "~")
	}
	if c09Quits(line) {
		line = "o " + line
	}
	return line
}

// c09Quits: would this line end the session (exit/quit/q as the first token)?
func c09Quits(line string) bool {
	f := strings.Fields(line)
	return len(f) > 0 && (f[0] == "exit" || f[0] == "quit" || f[0] == "q")
}

// c09Profile builds a valid profile with odd content. shortBuildID selects the stream with 1- and
// 2-character build ids (kept separate: on an unrepaired tree those profiles crash at load).
// extremeLines selects the stream whose line numbers may be anywhere in int64 (kept separate: on a
// tree without fixes/C09-weblist-line-overflow.patch source listings of such profiles do not end).
func c09Profile(r *Rng, shortBuildID, extremeLines bool) *profile.Profile {
	o := &GenOpts{MaxSampleTypes: 4, MaxFuncs: 8, MaxMappings: 3, MaxLocs: 10, MaxLines: 3, MaxSamples: 12, MaxDepth: 6,
		SparseIDs: r.Chance(50), WeirdStrings: r.Chance(70), Labels: r.Chance(70), ExtremeValues: r.Chance(40),
		EmptyStacks: r.Chance(30), NoLineLocs: r.Chance(40), Header: r.Chance(70)}
	if r.Chance(30) {
		o.Names = []string{"top", "o", "quit", "a(b", "[", "x\ny", "日本", strings.Repeat("L", 300), "main", "foo", "q", ":"}
	}
	p := GenProfile(r, o)
	if !extremeLines {
		const lim = int64(1) << 40
		for _, l := range p.Location {
			for i := range l.Line {
				if l.Line[i].Line > lim || l.Line[i].Line < -lim {
					l.Line[i].Line %= lim
				}
			}
		}
		for _, f := range p.Function {
			if f.StartLine > lim || f.StartLine < -lim {
				f.StartLine %= lim
			}
		}
	}
	if r.Chance(30) {
		c09ValuePattern(r, p)
	}
	odd := []string{"top", "quit", "o", ":", "inuse_space", "space", "total_x", "=", "a=b", "cum", "focus", "1", "0", "-1", "//:", " ", "samples/count", "\xff", "", "cpu"}
	for _, st := range p.SampleType {
		if r.Chance(20) {
			st.Type = odd[r.Intn(len(odd))]
		}
		if r.Chance(30) {
			st.Unit = r.Pick(append([]string{"\xff", "nanoseconds", "GCU", "hrs", "kilobytes", "ｍｓ", "s", "ss"}, c09Units...))
		}
	}
	if r.Chance(15) && len(p.SampleType) > 0 {
		p.DefaultSampleType = r.Pick([]string{"nosuch", "", p.SampleType[0].Type, "0"})
	}
	for i, m := range p.Mapping {
		switch {
		case shortBuildID && (i == 0 || r.Chance(50)):
			m.BuildID = r.Pick([]string{"a", "ab", "7", "\xff", "/", ".."})
		case r.Chance(40):
			m.BuildID = r.Pick([]string{"", "abc", "abcd", "../..", "a/b/c", "*", "[", "\xff\xfe\xfd", strings.Repeat("f", 40), "ab\x00cd"})
		}
		if r.Chance(30) {
			m.File = r.Pick([]string{"", "/", ".", "..", "[vdso]", "[heap]", "//anon", "/dev/zero (deleted)", "http://host/x", "C:\\a\\b.exe", "a b", "\xff", "linux-vdso.so.1", strings.Repeat("/d", 200)})
		}
		if r.Chance(10) {
			m.KernelRelocationSymbol = r.Pick([]string{"_text", "_stext", "x"})
		}
		if r.Chance(10) {
			m.Start, m.Limit = m.Limit, m.Start
		}
	}
	return p
}

// c09CLIArgs draws an option assignment for a one-shot invocation: a format plus option flags.
func c09CLIArgs(r *Rng, sampleTypes []string, big bool) []string {
	var args []string
	cmd := c09Commands[r.Intn(len(c09Commands))]
	if r.Chance(50) {
		cmd = r.Pick([]string{"top", "text", "tree", "tags", "traces", "raw", "dot", "peek", "list", "callgrind", "topproto", "comments"})
	}
	if c09ParamCommands[cmd] {
		args = append(args, "-"+cmd+"="+c09Rx(r))
	} else {
		args = append(args, "-"+cmd)
	}
	for i, n := 0, r.Intn(5); i < n; i++ {
		f := c09Fields[r.Intn(len(c09Fields))]
		if f.name == "normalize" {
			continue
		}
		v := c09OptionValue(r, f, sampleTypes, big)
		if strings.ContainsRune(v, 0) {
			continue // not passable through exec
		}
		switch f.kind {
		case "choice":
			ch := c09Choices[r.Intn(len(c09Choices))]
			args = append(args, "-"+ch+r.Pick([]string{"", "=true", "=false", "=x"}))
		case "bool":
			if v == "" {
				args = append(args, "-"+f.name)
			} else {
				args = append(args, "-"+f.name+"="+v)
			}
		default:
			args = append(args, "-"+f.name+"="+v)
		}
	}
	if r.Chance(15) {
		args = append(args, r.Pick([]string{"-symbolize=none", "-symbolize=local", "-symbolize=fastlocal:force", "-symbolize=remote", "-symbolize=demangle=full",
			"-symbolize=junk", "-symbolize=", "-symbolize=force:demangle=templates", "-symbolize=demangle=none:local"}))
	}
	if r.Chance(10) {
		args = append(args, r.Pick([]string{"-buildid=a", "-buildid=", "-buildid=abcdef", "-add_comment=hello", "-add_comment=", "-seconds=0", "-timeout=-5",
			"-inuse_space", "-alloc_objects", "-total_delay", "-mean_delay", "-contentions", "-no_browser", "-tools=/nonexistent", "-nosuchflag", "-http=", "--", "-"}))
	}
	return args
}

// c09Query draws a URL query string for the web handlers.
func c09Query(r *Rng, sampleTypes []string, big bool) string {
	params := map[string]string{"dropneg": "bool", "calltree": "bool", "rel": "bool", "unit": "unit", "compact": "bool", "intel": "bool", "n": "int",
		"nf": "float", "ef": "float", "trim": "bool", "f": "rx", "i": "rx", "prunefrom": "rx", "h": "rx", "s": "rx", "sf": "rx", "tf": "tag", "ti": "tag",
		"ts": "rx", "th": "rx", "mean": "bool", "si": "si", "norm": "bool", "sort": "choice", "g": "choice", "noinlines": "bool", "showcolumns": "bool",
		"config": "rx", "nosuch": "rx", "": "rx"}
	keys := make([]string, 0, len(params))
	for k := range params {
		keys = append(keys, k)
	}
	sortStrings(keys)
	var parts []string
	for i, n := 0, r.Intn(5); i < n; i++ {
		k := keys[r.Intn(len(keys))]
		var v string
		switch params[k] {
		case "bool":
			v = c09Bools[r.Intn(len(c09Bools))]
		case "int":
			v = c09Numbers[r.Intn(len(c09Numbers))]
		case "float":
			v = c09Floats[r.Intn(len(c09Floats))]
		case "unit":
			v = c09Units[r.Intn(len(c09Units))]
		case "choice":
			v = r.Pick(append([]string{"", "x"}, c09Choices...))
		case "tag":
			v = c09TagValue(r, big)
		case "si":
			v = c09OptionValue(r, c09Field{"sample_index", "string"}, sampleTypes, big)
		default:
			v = c09Rx(r)
		}
		switch r.Intn(10) {
		case 0:
			parts = append(parts, k+"="+v) // raw, possibly malformed escapes
		case 1:
			parts = append(parts, k)
		case 2:
			parts = append(parts, k+"=%zz"+url.QueryEscape(v))
		default:
			parts = append(parts, url.QueryEscape(k)+"="+url.QueryEscape(v))
		}
	}
	q := strings.Join(parts, r.Pick([]string{"&", "&", "&", ";", "&&"}))
	if r.Chance(5) {
		q += c09Noise(r, 20, true)
	}
	return q
}

func sortStrings(s []string) {
	for i := 1; i < len(s); i++ {
		for j := i; j > 0 && s[j] < s[j-1]; j-- {
			s[j], s[j-1] = s[j-1], s[j]
		}
	}
}

// ---------------------------------------------------------------------------------------------
// value patterns per sample-type column, base profiles, and the boolean/choice option grid
// ---------------------------------------------------------------------------------------------

// c09ValuePattern rewrites the sample values of p column-wise so that every division, percentage,
// mean and rate computed from them meets a zero (or overflowing) divisor candidate: one column all
// zero, all columns zero but one, everything zero, cancelling +v/-v sums, MinInt64/MaxInt64, all
// negative, all ones. Returns the name of the pattern.
func c09ValuePattern(r *Rng, p *profile.Profile) string {
	n := len(p.SampleType)
	if n == 0 || len(p.Sample) == 0 {
		return "none"
	}
	k := 0
	if r.Chance(50) {
		k = r.Intn(n)
	}
	pat := r.Pick([]string{"zero-col", "zero-col", "only-col", "all-zero", "cancel", "cancel-col", "extreme-col", "extreme", "negative", "ones", "zero-first-rest-big"})
	switch pat {
	case "zero-col":
		for _, s := range p.Sample {
			s.Value[k] = 0
		}
	case "zero-first-rest-big":
		for _, s := range p.Sample {
			for j := range s.Value {
				if j == 0 {
					s.Value[j] = 0
				} else if s.Value[j] == 0 {
					s.Value[j] = int64(1 + r.Intn(1000))
				}
			}
		}
	case "only-col":
		for _, s := range p.Sample {
			for j := range s.Value {
				if j != k {
					s.Value[j] = 0
				} else if s.Value[j] == 0 {
					s.Value[j] = int64(1 + r.Intn(1000))
				}
			}
		}
	case "all-zero":
		for _, s := range p.Sample {
			for j := range s.Value {
				s.Value[j] = 0
			}
		}
	case "cancel", "cancel-col":
		var neg []*profile.Sample
		for _, s := range p.Sample {
			c := *s
			c.Value = make([]int64, len(s.Value))
			for j, v := range s.Value {
				if pat == "cancel" || j == k {
					c.Value[j] = -v
				} else {
					c.Value[j] = v
				}
			}
			neg = append(neg, &c)
		}
		p.Sample = append(p.Sample, neg...)
	case "extreme-col", "extreme":
		ext := []int64{1<<63 - 1, -1 << 63, 1<<63 - 2, -1<<63 + 1, 1 << 62, -(1 << 62)}
		for _, s := range p.Sample {
			for j := range s.Value {
				if pat == "extreme" || j == k {
					s.Value[j] = ext[r.Intn(len(ext))]
				}
			}
		}
	case "negative":
		for _, s := range p.Sample {
			for j, v := range s.Value {
				if v > 0 {
					s.Value[j] = -v
				} else if v == 0 {
					s.Value[j] = -1
				}
			}
		}
	case "ones":
		for _, s := range p.Sample {
			for j := range s.Value {
				s.Value[j] = 1
			}
		}
	}
	return pat
}

// c09BaseFor draws a base profile for p (for -base / -diff_base): the profile itself, the same
// stacks with other value patterns, a subset, another profile with the same sample types, a profile
// with different or reordered sample types. Returns the base and a short description.
func c09BaseFor(r *Rng, p *profile.Profile) (*profile.Profile, string) {
	switch r.Intn(8) {
	case 0:
		return p.Copy(), "same"
	case 1, 2, 3:
		b := p.Copy()
		return b, "same-stacks/" + c09ValuePattern(r, b)
	case 4:
		b := p.Copy()
		if len(b.Sample) > 1 {
			b.Sample = b.Sample[:1+r.Intn(len(b.Sample)-1)]
		}
		if r.Chance(50) {
			return b, "subset/" + c09ValuePattern(r, b)
		}
		return b, "subset"
	case 5: // another profile, same sample types
		b := c09Profile(r, false, false)
		b.SampleType = nil
		for _, st := range p.SampleType {
			c := *st
			b.SampleType = append(b.SampleType, &c)
		}
		for _, s := range b.Sample {
			s.Value = make([]int64, len(b.SampleType))
			for j := range s.Value {
				s.Value[j] = r.value(&GenOpts{})
			}
		}
		b.DefaultSampleType = p.DefaultSampleType
		if r.Chance(60) {
			return b, "other/" + c09ValuePattern(r, b)
		}
		return b, "other"
	case 6: // reordered / renamed / re-united sample types
		b := p.Copy()
		if n := len(b.SampleType); n > 1 && r.Chance(50) {
			i, j := r.Intn(n), r.Intn(n)
			b.SampleType[i], b.SampleType[j] = b.SampleType[j], b.SampleType[i]
			for _, s := range b.Sample {
				s.Value[i], s.Value[j] = s.Value[j], s.Value[i]
			}
			return b, "reordered-types"
		}
		if len(b.SampleType) > 0 {
			st := b.SampleType[r.Intn(len(b.SampleType))]
			if r.Chance(50) {
				st.Unit = r.Pick([]string{"bytes", "kb", "ms", "count", "", "hrs"})
				return b, "other-unit"
			}
			st.Type = r.Pick([]string{"other", "", "samples", "cpu"})
		}
		return b, "renamed-type"
	default:
		return c09Profile(r, false, false), "unrelated"
	}
}

// c09GridArgs draws flags from the boolean / choice / sample_index option grid (each with a fixed
// probability, independent of the others), for the cases that run with base profiles.
func c09GridArgs(r *Rng, sampleTypes []string) []string {
	var a []string
	for _, b := range []string{"mean", "normalize", "relative_percentages", "call_tree", "drop_negative", "noinlines", "showcolumns", "compact_labels"} {
		if r.Chance(30) {
			a = append(a, "-"+b+r.Pick([]string{"", "", "=true", "=false"}))
		}
	}
	if r.Chance(15) {
		a = append(a, "-trim=false")
	}
	if r.Chance(25) {
		a = append(a, "-"+r.Pick([]string{"functions", "filefunctions", "files", "lines", "addresses"}))
	}
	if r.Chance(25) {
		a = append(a, "-"+r.Pick([]string{"cum", "flat"}))
	}
	if r.Chance(55) {
		if len(sampleTypes) > 0 && r.Chance(70) {
			a = append(a, "-sample_index="+sampleTypes[r.Intn(len(sampleTypes))])
		} else {
			a = append(a, "-sample_index="+r.Pick([]string{"0", "1", "2", "3"}))
		}
	}
	if r.Chance(15) {
		a = append(a, "-divide_by="+r.Pick([]string{"2", "0.5", "1e9", "-1", "1e-300"}))
	}
	if r.Chance(15) {
		a = append(a, "-unit="+c09Units[r.Intn(len(c09Units))])
	}
	return a
}

// c09GridLine: the same grid as interactive assignments.
func c09GridLine(r *Rng, sampleTypes []string) string {
	switch r.Intn(6) {
	case 0, 1:
		return r.Pick([]string{"mean", "normalize", "relative_percentages", "call_tree", "drop_negative", "noinlines", "trim"}) + r.Pick([]string{"", "=1", "=true", "=0", "=false"})
	case 2:
		if len(sampleTypes) > 0 {
			return r.Pick([]string{"sample_index=", "", "total_", "mean_"}) + sampleTypes[r.Intn(len(sampleTypes))]
		}
		return "sample_index=0"
	case 3:
		return "sample_index=" + r.Pick([]string{"0", "1", "2"})
	case 4:
		return r.Pick([]string{"top", "tree", "text", "traces", "tags", "peek .", "dot >o.dot", "top 5 -cum"})
	default:
		return r.Pick([]string{"cum", "flat", "lines", "files", "functions", "addresses"}) + r.Pick([]string{"", "=1"})
	}
}

// c09GridQuery: the same grid as URL parameters.
func c09GridQuery(r *Rng, sampleTypes []string) string {
	var parts []string
	for _, b := range []string{"mean", "norm", "rel", "calltree", "dropneg", "noinlines", "showcolumns", "trim"} {
		if r.Chance(30) {
			parts = append(parts, b+"="+r.Pick([]string{"t", "true", "1", "f", "false"}))
		}
	}
	if r.Chance(55) {
		if len(sampleTypes) > 0 && r.Chance(70) {
			parts = append(parts, "si="+url.QueryEscape(sampleTypes[r.Intn(len(sampleTypes))]))
		} else {
			parts = append(parts, "si="+r.Pick([]string{"0", "1", "2"}))
		}
	}
	if r.Chance(25) {
		parts = append(parts, "g="+r.Pick([]string{"functions", "filefunctions", "files", "lines", "addresses"}))
	}
	if r.Chance(20) {
		parts = append(parts, "sort="+r.Pick([]string{"cum", "flat"}))
	}
	if r.Chance(20) {
		parts = append(parts, "f=.")
	}
	return strings.Join(parts, "&")
}

// ---------------------------------------------------------------------------------------------
// remote sources: fault injection on the path that saves a local copy of a fetched profile
// ---------------------------------------------------------------------------------------------

// c09BadSaveNames edits the strings the driver builds the saved copy's file name from
// ("pprof.<base of first mapping's file>.<sample types…>") so that creating it can fail: path
// separators, NUL, over-long names, dots. Returns a description.
func c09BadSaveNames(r *Rng, p *profile.Profile) string {
	if r.Chance(40) {
		return "plain-names"
	}
	bad := []string{"cpu/ticks", "a\x00b", strings.Repeat("L", 300), "..", "/", "a/../b", "con:", "\xff\xfe", " ", "*", strings.Repeat("é", 140), "x\ny"}
	what := ""
	if len(p.SampleType) > 0 && r.Chance(75) {
		st := p.SampleType[r.Intn(len(p.SampleType))]
		st.Type = bad[r.Intn(len(bad))]
		what += fmt.Sprintf("sample-type=%.20q", st.Type)
	}
	if len(p.Mapping) > 0 && r.Chance(40) {
		p.Mapping[0].File = r.Pick([]string{"/bin/" + strings.Repeat("m", 300), "/bin/a\x00b", "/bin/..", "/", "dir/", "/bin/x y"})
		what += fmt.Sprintf(" mapping-file=%.20q", p.Mapping[0].File)
	}
	return strings.TrimSpace(what)
}

// c09SaveFaultEnv draws an environment in which the directory for saved profiles is unusable or
// unwritable: PPROF_TMPDIR naming a file, a directory below a file, a missing directory, a
// directory in which files cannot be created (/proc), $HOME empty or a file, TMPDIR a file.
func c09SaveFaultEnv(r *Rng, e *c09Env) []string {
	file := "{TMP}/afile" // {TMP} is expanded to the run's scratch directory when the case is executed
	switch r.Intn(9) {
	case 0:
		return []string{"PPROF_TMPDIR=" + file}
	case 1:
		return []string{"PPROF_TMPDIR=" + file + "/sub"}
	case 2:
		return []string{"PPROF_TMPDIR=/proc"}
	case 3:
		return []string{"PPROF_TMPDIR=/proc/self/nosuch/dir"}
	case 4:
		return []string{"PPROF_TMPDIR=", "HOME="}
	case 5:
		return []string{"PPROF_TMPDIR=", "HOME=" + file}
	case 6:
		return []string{"PPROF_TMPDIR=" + file, "HOME=" + file, "TMPDIR=" + file}
	case 7:
		return []string{"PPROF_TMPDIR={TMP}/ptmp/new/deep/dir"}
	}
	return nil
}

// ---------------------------------------------------------------------------------------------
// deterministic grid: output command x graph-construction / trimming option
// ---------------------------------------------------------------------------------------------

// c09GridProfile: functions with more than one calling context, recursion, an inlined frame, a
// negative sample, labels, and a skewed weight distribution, so that nodecount / nodefraction
// settings really drop nodes and edges.
func c09GridProfile() *profile.Profile {
	m := &profile.Mapping{ID: 1, Start: 0x1000, Limit: 0x9000, File: "/bin/gridprog", BuildID: "abcdef12", HasFunctions: true, HasFilenames: true, HasLineNumbers: true}
	names := []string{"main", "a", "b", "c", "d", "e", "f", "g", "inl"}
	fn := map[string]*profile.Function{}
	loc := map[string]*profile.Location{}
	var fns []*profile.Function
	var locs []*profile.Location
	for i, n := range names {
		f := &profile.Function{ID: uint64(i + 1), Name: n, SystemName: n, Filename: n + ".go", StartLine: int64(10 * i)}
		l := &profile.Location{ID: uint64(i + 1), Mapping: m, Address: uint64(0x1100 + 32*i), Line: []profile.Line{{Function: f, Line: int64(10*i + 3)}}}
		fn[n], loc[n] = f, l
		fns, locs = append(fns, f), append(locs, l)
	}
	loc["d"].Line = append([]profile.Line{{Function: fn["inl"], Line: 85}}, loc["d"].Line...) // inl inlined into d
	st := func(v1, v2 int64, lbl string, frames ...string) *profile.Sample {
		s := &profile.Sample{Value: []int64{v1, v2}}
		for _, f := range frames {
			s.Location = append(s.Location, loc[f])
		}
		if lbl != "" {
			s.Label = map[string][]string{"k": {lbl}}
			s.NumLabel = map[string][]int64{"bytes": {v2}}
			s.NumUnit = map[string][]string{"bytes": {"bytes"}}
		}
		return s
	}
	return &profile.Profile{
		SampleType: []*profile.ValueType{{Type: "samples", Unit: "count"}, {Type: "cpu", Unit: "nanoseconds"}},
		PeriodType: &profile.ValueType{Type: "cpu", Unit: "nanoseconds"}, Period: 1,
		Mapping: []*profile.Mapping{m}, Function: fns, Location: locs,
		Sample: []*profile.Sample{
			st(50, 5000, "v", "c", "a", "main"), st(40, 4000, "w", "c", "b", "main"), st(5, 500, "", "d", "c", "a", "main"),
			st(4, 400, "", "d", "c", "b", "main"), st(1, 100, "v", "e", "b", "main"), st(1, 100, "", "f", "a", "main"),
			st(3, 300, "", "c", "c", "a", "main"), st(2, 200, "", "main"), st(-3, -300, "w", "g", "main"), st(1, 1, "", "e", "d", "c", "a", "main"),
		},
	}
}

// c09GridCases: every output command crossed with every option that changes how the graph is built
// or trimmed (alone, and together with call_tree), under two trimming settings that drop nodes.
func c09GridCases() []*c09Case {
	pb := c09ProfileBytes(c09GridProfile())
	if pb == nil {
		return nil
	}
	ph := hex.EncodeToString(pb)
	cmds := []string{"-top", "-text", "-tree", "-peek=.", "-traces", "-dot", "-callgrind", "-list=.", "-weblist=.", "-disasm=.", "-tags", "-raw", "-proto", "-topproto", "-svg", "-comments"}
	opts := [][]string{{}, {"-call_tree"}, {"-cum"}, {"-flat"}, {"-noinlines"}, {"-trim=false"}, {"-compact_labels"}, {"-relative_percentages"}, {"-showcolumns"}, {"-mean"},
		{"-drop_negative"}, {"-hide=c"}, {"-show=c|main"}, {"-focus=c"}, {"-ignore=d"}, {"-show_from=a"}, {"-prune_from=c"}, {"-tagfocus=k=v"}, {"-tagignore=1:"},
		{"-lines"}, {"-files"}, {"-addresses"}, {"-filefunctions"}, {"-sample_index=samples"}, {"-tagroot=k"}, {"-tagleaf=k"}, {"-divide_by=3"}, {"-unit=seconds"}}
	trims := [][]string{{"-nodecount=2"}, {"-nodefraction=0.25", "-edgefraction=0.3"}}
	var out []*c09Case
	add := func(args []string) {
		a := append(append([]string{}, args...), "-symbolize=none", "-output=grid.out")
		out = append(out, &c09Case{Kind: "cli", Profile: ph, Args: hexAll(a), Text: fmt.Sprintf("grid: pprof %q <grid profile: diamond a/b->c, recursion, inlining, a negative sample>", a)})
	}
	// every string-valued option x every sized value (byte and rune lengths around the limits)
	for _, o := range []string{"focus", "ignore", "hide", "show", "show_from", "prune_from", "tagfocus", "tagignore", "tagshow", "taghide", "tagroot", "tagleaf", "unit", "trim_path", "source_path"} {
		for _, v := range c09SizedValues {
			add([]string{"-top", "-" + o + "=" + v})
		}
	}
	out = append(out, c09SourceSpecCases()...)
	// name adversaries: each profile with four of the output commands (rotating)
	nameCmds := [][]string{{"-top"}, {"-tree"}, {"-traces"}, {"-tags"}, {"-dot"}, {"-callgrind"}, {"-weblist=."}, {"-list=."}, {"-peek=."}, {"-top", "-lines"}, {"-raw"}, {"-topproto"}}
	for i, nc := range c09NameCases() {
		npb := c09ProfileBytes(nc.p)
		if npb == nil {
			continue
		}
		for k := 0; k < 4; k++ {
			a := append(append([]string{}, nameCmds[(i+3*k)%len(nameCmds)]...), "-symbolize=none", "-output=grid.out")
			out = append(out, &c09Case{Kind: "cli", Profile: hex.EncodeToString(npb), Args: hexAll(a), Text: fmt.Sprintf("grid: pprof %q <grid profile with %s>", a, nc.what)})
		}
	}
	for _, c := range cmds {
		for _, o := range opts {
			for ti, t := range trims {
				add(append(append([]string{c}, o...), t...))
				if ti == 0 && len(o) > 0 && o[0] != "-call_tree" { // together with call_tree
					add(append(append([]string{c, "-call_tree"}, o...), t...))
				}
			}
		}
	}
	return out
}

// ---------------------------------------------------------------------------------------------
// name adversaries: every separator the code splits names on, as prefix / suffix / whole name
// ---------------------------------------------------------------------------------------------

var c09NameTokens = []string{":", "::", ":::", ".", "..", "/", "//", "(", ")", "()", "<", ">", "<>", "[", "]", "*", "&", "$", " ", "\x00", "\\", "", "x",
	"-", "~", ",", ";", "|", "=", "%", "@", "#", "\"", "'", "\xff", "\n", "\t", "::(", ")::", "<:", ".(", "(*", strings.Repeat("n", 3000), strings.Repeat("a::", 200), strings.Repeat("(", 100)}

type c09NameCase struct {
	p         *profile.Profile
	what      string
	preflight bool // the string reaches code that runs while the profile is being fetched (mapping file)
}

// c09NameCases: the grid profile with one group of name-like strings replaced by a token applied as
// prefix, suffix or whole name: (a) a function's name and system name, (b) its file name and the
// mapping's file, (c) label keys and values, (d) a sample type, its unit and a comment.
func c09NameCases() []c09NameCase {
	var out []c09NameCase
	apply := func(pos int, tok, base string) string {
		switch pos {
		case 0:
			return tok + base
		case 1:
			return base + tok
		}
		return tok
	}
	posName := []string{"prefix", "suffix", "whole"}
	for _, tok := range c09NameTokens {
		for pos := 0; pos < 3; pos++ {
			for grp := 0; grp < 4; grp++ {
				p := c09GridProfile()
				what := ""
				switch grp {
				case 0:
					for _, f := range p.Function {
						if f.Name == "c" || f.Name == "inl" {
							f.Name = apply(pos, tok, "std::basic_string")
							f.SystemName = f.Name
						}
					}
					what = "function name"
				case 1:
					for _, f := range p.Function {
						if f.Name == "c" || f.Name == "main" {
							f.Filename = apply(pos, tok, "src/pkg/c.go")
						}
					}
					p.Mapping[0].File = apply(pos, tok, "/bin/gridprog")
					what = "file names"
				case 2:
					for _, s := range p.Sample {
						if s.Label != nil {
							s.Label = map[string][]string{apply(pos, tok, "k"): {apply(pos, tok, "v"), "w"}}
							s.NumLabel = map[string][]int64{apply(pos, tok, "bytes"): s.NumLabel["bytes"]}
							s.NumUnit = map[string][]string{apply(pos, tok, "bytes"): {apply(pos, tok, "bytes")}}
						}
					}
					what = "label keys/values"
				default:
					p.SampleType[1].Type = apply(pos, tok, "cpu")
					p.SampleType[1].Unit = apply(pos, tok, "nanoseconds")
					p.Comments = []string{apply(pos, tok, "comment")}
					p.DefaultSampleType = p.SampleType[1].Type
					what = "sample type/unit/comment"
				}
				out = append(out, c09NameCase{p, fmt.Sprintf("%s = %s %.24q", what, posName[pos], tok), grp == 1})
			}
		}
	}
	return out
}

// ---------------------------------------------------------------------------------------------
// degenerate (but valid) profiles x source-spec forms
// ---------------------------------------------------------------------------------------------

type c09Shape struct {
	name string
	p    *profile.Profile
}

// c09DegenerateProfiles: valid profiles in which one kind of entity is missing altogether.
func c09DegenerateProfiles() []c09Shape {
	var out []c09Shape
	add := func(name string, edit func(p *profile.Profile)) {
		p := c09GridProfile()
		edit(p)
		out = append(out, c09Shape{name, p})
	}
	add("full", func(p *profile.Profile) {})
	add("no-samples", func(p *profile.Profile) { p.Sample = nil })
	add("no-locations", func(p *profile.Profile) {
		for _, s := range p.Sample {
			s.Location = nil
		}
		p.Location, p.Function = nil, nil
	})
	add("no-mappings", func(p *profile.Profile) {
		for _, l := range p.Location {
			l.Mapping = nil
		}
		p.Mapping = nil
	})
	add("no-functions", func(p *profile.Profile) {
		for _, l := range p.Location {
			l.Line = nil
		}
		p.Function = nil
	})
	add("locations-without-mappings", func(p *profile.Profile) {
		for _, l := range p.Location {
			l.Mapping = nil
		}
	})
	add("mappings-without-locations", func(p *profile.Profile) {
		p.Sample, p.Location, p.Function = nil, nil, nil
		p.Mapping = append(p.Mapping, &profile.Mapping{ID: 2, Start: 0x10000, Limit: 0x20000, File: "/lib/other.so"})
	})
	add("one-sample-no-locations", func(p *profile.Profile) {
		p.Sample = []*profile.Sample{{Value: []int64{7, 70}}}
		p.Location, p.Function, p.Mapping = nil, nil, nil
	})
	add("idle-process", func(p *profile.Profile) {
		p.Sample, p.Location, p.Function, p.Mapping = nil, nil, nil, nil
		p.Comments = []string{"idle"}
		p.DurationNanos, p.TimeNanos = 1e9, 1
	})
	add("empty-strings", func(p *profile.Profile) {
		for _, st := range p.SampleType {
			st.Unit = ""
		}
		p.SampleType[0].Type = ""
		p.PeriodType = &profile.ValueType{}
		for _, f := range p.Function {
			f.Name, f.SystemName, f.Filename = "", "", ""
		}
		p.Mapping[0].File, p.Mapping[0].BuildID = "", ""
		p.Comments = []string{""}
	})
	add("one-sample-type", func(p *profile.Profile) {
		p.SampleType = p.SampleType[:1]
		for _, s := range p.Sample {
			s.Value = s.Value[:1]
		}
		p.PeriodType, p.Period = nil, 0
	})
	add("no-mappings-no-functions", func(p *profile.Profile) {
		for _, l := range p.Location {
			l.Mapping, l.Line = nil, nil
		}
		p.Mapping, p.Function = nil, nil
	})
	add("zero-values-only", func(p *profile.Profile) {
		for _, s := range p.Sample {
			for i := range s.Value {
				s.Value[i] = 0
			}
		}
	})
	out = append(out, c09Shape{"no-sample-types", &profile.Profile{}}) // loads with an error, never a crash
	return out
}

// c09SourceSpecCases: every source-spec form x every degenerate profile x {-top, -raw, interactive}.
func c09SourceSpecCases() []*c09Case {
	type form struct {
		name   string
		args   []string
		binary bool
		twice  bool
		remote bool
		base   int // 0 none, 1 -base same, 2 -diff_base same
	}
	forms := []form{
		{name: "plain"}, {name: "binary", binary: true}, {name: "buildid", args: []string{"-buildid=abcdef0123"}}, {name: "buildid-1char", args: []string{"-buildid=a"}},
		{name: "binary+buildid", args: []string{"-buildid=ff00"}, binary: true}, {name: "symbolize=none", args: []string{"-symbolize=none"}},
		{name: "symbolize=local", args: []string{"-symbolize=local"}}, {name: "symbolize=fastlocal:force", args: []string{"-symbolize=fastlocal:force"}},
		{name: "symbolize=remote", args: []string{"-symbolize=remote"}}, {name: "symbolize=demangle=full", args: []string{"-symbolize=demangle=full"}},
		{name: "base", base: 1}, {name: "diff_base", base: 2}, {name: "diff_base+normalize", args: []string{"-normalize"}, base: 2},
		{name: "add_comment", args: []string{"-add_comment=note"}}, {name: "tools", args: []string{"-tools=/nonexistent/tools"}},
		{name: "source_path", args: []string{"-source_path=/nonexistent/src", "-trim_path=/src"}}, {name: "two-sources", twice: true},
		{name: "binary+two-sources", binary: true, twice: true}, {name: "http-source", remote: true}, {name: "http-source+binary+buildid", args: []string{"-buildid=abc"}, binary: true, remote: true},
	}
	var out []*c09Case
	for _, sh := range c09DegenerateProfiles() {
		pb := c09ProfileBytes(sh.p)
		if pb == nil {
			continue
		}
		ph := hex.EncodeToString(pb)
		for _, f := range forms {
			for mode := 0; mode < 3; mode++ {
				cs := &c09Case{Kind: "cli", Profile: ph, Binary: f.binary, Twice: f.twice, Remote: f.remote}
				args := append([]string{}, f.args...)
				switch mode {
				case 0:
					args = append(args, "-top", "-output=grid.out")
				case 1:
					args = append(args, "-raw", "-output=grid.out")
				default:
					cs.Kind = "script"
					cs.Lines = hexAll([]string{"top", "o", "tags", "traces >t.out"})
				}
				if f.base > 0 {
					cs.Bases, cs.Diff = []string{ph}, f.base == 2
				}
				cs.Args = hexAll(args)
				cs.Text = fmt.Sprintf("grid: source spec %q (pprof %q, binary=%v, twice=%v, http=%v, base=%d, script=%q) x profile shape %q", f.name, args, f.binary, f.twice, f.remote, f.base, unhexAll(cs.Lines), sh.name)
				out = append(out, cs)
			}
		}
	}
	return out
}
