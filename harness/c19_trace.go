//go:build verif

package main

// C19 (ii) syscall-trace refinement and (iii) fault enumeration.
//
// The harness binary re-executes itself as a HELPER (env PVH_C19_HELPER=1) that creates the web
// UI exactly like the main process does and performs ONE request (PVH_C19_REQ) against
// $XDG_CONFIG_HOME/pprof/settings.json.  The helper is run
//   * under `strace -f -e trace=openat,write,fsync,fdatasync,rename,renameat,renameat2,close,unlink,unlinkat`:
//     the lines that touch the settings directory become model operations and the Lean driver
//     decides (`fs.accepts`) whether that sequence is old-or-new at EVERY crash point;
//   * under `strace -e inject=write:error=ENOSPC:when=k`, `…:signal=KILL:when=k`, kill at
//     rename/fsync, and with RLIMIT_FSIZE=k for every byte position k (the k-th byte is the last one
//     the kernel accepts; optionally followed by a KILL on the next write): afterwards the file
//     must be byte-identical to the complete old or the complete new contents.

import (
	"bytes"
	"fmt"
	"os"
	"os/exec"
	"os/signal"
	"path/filepath"
	"regexp"
	"runtime"
	"strconv"
	"strings"
	"sync"
	"syscall"
)

const c19Marker = 999983 // close(c19Marker) = EBADF marks the start of the request in the trace

func c19HelperMain() {
	if os.Getenv("PVH_C19_HELPER") == "" {
		return
	}
	runtime.LockOSThread() // the request's system calls all come from the main thread
	signal.Ignore(syscall.SIGXFSZ)
	early := os.Getenv("PVH_C19_MARK_EARLY") != ""
	if early {
		syscall.Close(c19Marker) // restart refinement: the start-up itself is under observation
	}
	srv, err := c19NewServer(os.Getenv("XDG_CONFIG_HOME"))
	if err != nil {
		fmt.Println("helper-error", err)
		os.Exit(3)
	}
	if v := os.Getenv("PVH_C19_FSIZE"); v != "" {
		n, _ := strconv.ParseUint(v, 10, 64)
		lim := syscall.Rlimit{Cur: n, Max: n}
		if err := syscall.Setrlimit(syscall.RLIMIT_FSIZE, &lim); err != nil {
			fmt.Println("helper-error", err)
			os.Exit(3)
		}
	}
	if !early {
		syscall.Close(c19Marker)
	}
	status, _, pn := srv.get(os.Getenv("PVH_C19_REQ"))
	fmt.Println("status", status, pn)
	os.Exit(0)
}

type c19Run struct {
	out    string
	killed bool
	trace  string // path of the strace output ("" when not traced)
}

// c19Helper runs one request in a helper process; straceArgs non-nil ⇒ under strace.
func (e *c19Env) helper(xdg, req string, fsize int, straceArgs []string, tag string, extraEnv ...string) c19Run {
	self, _ := os.Executable()
	env := append(append(os.Environ(), extraEnv...), "PVH_C19_HELPER=1", "XDG_CONFIG_HOME="+xdg, "PVH_C19_REQ="+req, "HOME="+xdg, "PPROF_TMPDIR="+xdg, "GOMAXPROCS=2")
	if fsize >= 0 {
		env = append(env, "PVH_C19_FSIZE="+strconv.Itoa(fsize))
	}
	var cmd *exec.Cmd
	r := c19Run{}
	if straceArgs != nil {
		r.trace = filepath.Join(xdg, "trace-"+tag+".txt")
		args := append([]string{"-f", "-o", r.trace, "-s", "4000000", "-xx",
			"-e", "trace=openat,write,fsync,fdatasync,rename,renameat,renameat2,close,unlink,unlinkat"}, straceArgs...)
		cmd = exec.Command("strace", append(args, self)...)
	} else {
		cmd = exec.Command(self)
	}
	cmd.Env = env
	var ob bytes.Buffer
	cmd.Stdout, cmd.Stderr = &ob, &ob
	err := cmd.Run()
	r.out = ob.String()
	if err != nil {
		if ee, ok := err.(*exec.ExitError); ok {
			if ws, ok := ee.Sys().(syscall.WaitStatus); ok && (ws.Signaled() || ws.ExitStatus() >= 128) {
				r.killed = true
			}
		}
	}
	return r
}

// ---- strace output → model operations ----

type c19Sys struct {
	tid    int
	name   string
	args   []string
	ret    int64
	failed bool
	inj    bool
	killed bool // unfinished when the tracee died
}

func c19Unescape(s string) []byte {
	// strace -xx string literal (without the quotes) → bytes
	var out []byte
	for i := 0; i < len(s); i++ {
		if s[i] == '\\' && i+3 < len(s) && s[i+1] == 'x' {
			if v, err := strconv.ParseUint(s[i+2:i+4], 16, 8); err == nil {
				out = append(out, byte(v))
				i += 3
				continue
			}
		}
		out = append(out, s[i])
	}
	return out
}

func c19SplitArgs(s string) []string {
	var out []string
	depth, inq, start := 0, false, 0
	for i := 0; i < len(s); i++ {
		ch := s[i]
		switch {
		case inq:
			if ch == '\\' {
				i++
			} else if ch == '"' {
				inq = false
			}
		case ch == '"':
			inq = true
		case ch == '(' || ch == '[' || ch == '{':
			depth++
		case ch == ')' || ch == ']' || ch == '}':
			depth--
		case ch == ',' && depth == 0:
			out = append(out, strings.TrimSpace(s[start:i]))
			start = i + 1
		}
	}
	if t := strings.TrimSpace(s[start:]); t != "" {
		out = append(out, t)
	}
	return out
}

func c19ParseTrace(path string) ([]c19Sys, error) {
	b, err := os.ReadFile(path)
	if err != nil {
		return nil, err
	}
	pending := map[int]string{}
	var out []c19Sys
	for _, line := range strings.Split(string(b), "\n") {
		sp := strings.IndexByte(line, ' ')
		if sp <= 0 {
			continue
		}
		tid, err := strconv.Atoi(line[:sp])
		if err != nil {
			continue
		}
		rest := strings.TrimSpace(line[sp+1:])
		if strings.HasPrefix(rest, "+++") || strings.HasPrefix(rest, "---") {
			if strings.HasPrefix(rest, "+++ killed") {
				if p, ok := pending[tid]; ok {
					if sc, ok := c19ParseCall(tid, p+") = ?"); ok {
						sc.killed = true
						out = append(out, sc)
					}
					delete(pending, tid)
				}
			}
			continue
		}
		if strings.HasSuffix(rest, "<unfinished ...>") {
			pending[tid] = strings.TrimSpace(strings.TrimSuffix(rest, "<unfinished ...>"))
			continue
		}
		if strings.HasPrefix(rest, "<... ") {
			i := strings.Index(rest, "resumed>")
			if i < 0 {
				continue
			}
			rest = pending[tid] + rest[i+len("resumed>"):]
			delete(pending, tid)
		}
		if sc, ok := c19ParseCall(tid, rest); ok {
			out = append(out, sc)
		}
	}
	// calls still unfinished when the process was killed
	for tid, p := range pending {
		if sc, ok := c19ParseCall(tid, p+") = ?"); ok {
			sc.killed = true
			out = append(out, sc)
		}
	}
	return out, nil
}

// the last ") = " of a line separates arguments and return value
var c19RetRe = regexp.MustCompile(`^.*()\)\s+= (.*)$`)

func c19ParseCall(tid int, s string) (c19Sys, bool) {
	op := strings.IndexByte(s, '(')
	m := c19RetRe.FindStringSubmatchIndex(s)
	if op <= 0 || m == nil || m[2] < op {
		return c19Sys{}, false
	}
	sc := c19Sys{tid: tid, name: s[:op], args: c19SplitArgs(s[op+1 : m[2]])}
	rs := strings.TrimSpace(s[m[4]:])
	sc.inj = strings.Contains(rs, "(INJECTED)")
	f := strings.Fields(rs)
	if len(f) > 0 {
		if f[0] == "?" {
			sc.killed = true
		} else if n, err := strconv.ParseInt(f[0], 0, 64); err == nil {
			sc.ret = n
			sc.failed = n < 0
		}
	}
	return sc, true
}

func c19Str(arg string) string {
	arg = strings.TrimSuffix(strings.TrimSpace(arg), "...")
	if len(arg) >= 2 && arg[0] == '"' {
		if j := strings.LastIndexByte(arg, '"'); j > 0 {
			return string(c19Unescape(arg[1:j]))
		}
	}
	return arg
}

type c19ModelOp struct {
	Tok  string // driver token form
	Kind string // open write fsync close rename unlink
	Desc string // human-readable
}

// c19MapTrace turns the system calls after the marker that touch `dir` into model operations.
// It also returns, per thread, how many write(2) calls preceded the marker (for when=k).
func c19MapTrace(calls []c19Sys, dir string) (ops []c19ModelOp, mainTid int, writesBefore int, settingsWrites int, problems []string) {
	mainTid = -1
	for _, sc := range calls {
		if sc.name == "close" && len(sc.args) == 1 && sc.args[0] == strconv.Itoa(c19Marker) {
			mainTid = sc.tid
		}
	}
	if mainTid < 0 {
		return nil, -1, 0, 0, []string{"marker close() not found in trace"}
	}
	fds := map[int]string{}
	started := false
	under := func(p string) bool { return strings.HasPrefix(p, dir+"/") || p == dir }
	for _, sc := range calls {
		if !started {
			if sc.name == "close" && len(sc.args) == 1 && sc.args[0] == strconv.Itoa(c19Marker) {
				started = true
			} else if sc.name == "write" && sc.tid == mainTid {
				writesBefore++
			}
			continue
		}
		if sc.failed && !sc.killed {
			continue // a failed call changes nothing
		}
		switch sc.name {
		case "openat":
			if len(sc.args) < 3 {
				continue
			}
			p := c19Str(sc.args[1])
			if !under(p) || sc.killed {
				continue
			}
			flags := sc.args[2]
			if strings.Contains(flags, "O_DIRECTORY") || (!strings.Contains(flags, "O_WRONLY") && !strings.Contains(flags, "O_RDWR")) {
				continue // reads do not change the file system
			}
			fd := int(sc.ret)
			fds[fd] = p
			b := func(x bool) string {
				if x {
					return "1"
				}
				return "0"
			}
			ops = append(ops, c19ModelOp{Kind: "open", Desc: "open " + filepath.Base(p) + " " + flags,
				Tok: fmt.Sprintf("open %d %s %s %s %s", fd, hexTok([]byte(p)), b(strings.Contains(flags, "O_CREAT")), b(strings.Contains(flags, "O_TRUNC")), b(strings.Contains(flags, "O_EXCL")))})
		case "write":
			if len(sc.args) < 2 {
				continue
			}
			fd, err := strconv.Atoi(sc.args[0])
			if err != nil {
				continue
			}
			p, ok := fds[fd]
			if !ok {
				continue
			}
			settingsWrites++
			if sc.killed {
				continue
			}
			data := []byte(c19Str(sc.args[1]))
			if int(sc.ret) < len(data) {
				data = data[:sc.ret]
			}
			if int(sc.ret) > len(data) {
				problems = append(problems, "write data truncated in trace")
			}
			ops = append(ops, c19ModelOp{Kind: "write", Desc: fmt.Sprintf("write %s %d bytes", filepath.Base(p), len(data)),
				Tok: fmt.Sprintf("write %d %s", fd, hexTok(data))})
		case "fsync", "fdatasync", "close":
			if len(sc.args) < 1 || sc.killed {
				continue
			}
			fd, err := strconv.Atoi(sc.args[0])
			if err != nil {
				continue
			}
			p, ok := fds[fd]
			if !ok {
				continue
			}
			if sc.name == "close" {
				delete(fds, fd)
				ops = append(ops, c19ModelOp{Kind: "close", Desc: "close " + filepath.Base(p), Tok: fmt.Sprintf("close %d", fd)})
			} else {
				ops = append(ops, c19ModelOp{Kind: "fsync", Desc: sc.name + " " + filepath.Base(p), Tok: fmt.Sprintf("fsync %d", fd)})
			}
		case "rename", "renameat", "renameat2":
			if sc.killed {
				continue
			}
			var a, b string
			if sc.name == "rename" && len(sc.args) >= 2 {
				a, b = c19Str(sc.args[0]), c19Str(sc.args[1])
			} else if len(sc.args) >= 4 {
				a, b = c19Str(sc.args[1]), c19Str(sc.args[3])
			}
			if under(a) || under(b) {
				ops = append(ops, c19ModelOp{Kind: "rename", Desc: "rename " + filepath.Base(a) + " -> " + filepath.Base(b),
					Tok: "rename " + hexTok([]byte(a)) + " " + hexTok([]byte(b))})
			}
		case "unlink", "unlinkat":
			if sc.killed {
				continue
			}
			var a string
			if sc.name == "unlink" && len(sc.args) >= 1 {
				a = c19Str(sc.args[0])
			} else if len(sc.args) >= 2 {
				a = c19Str(sc.args[1])
			}
			if under(a) {
				ops = append(ops, c19ModelOp{Kind: "unlink", Desc: "unlink " + filepath.Base(a), Tok: "unlink " + hexTok([]byte(a))})
			}
		}
	}
	return
}

// ---- scenarios ----

func c19OldSteps() []c19Step {
	return []c19Step{
		{Op: "save", Name: "first", Params: map[string]string{"f": "main", "n": "20", "trim": "false"}},
		{Op: "save", Name: "second", Params: map[string]string{"sort": "cum", "nf": "0.01", "h": "runtime\\..*", "g": "lines"}},
	}
}

// prepare builds the previous contents with the real code (in-process) and returns dir, settings path.
func (e *c19Env) prepare(old []c19Step) (xdg, file string, err error) {
	xdg = e.dir()
	srv, err := c19NewServer(xdg)
	if err != nil {
		return "", "", err
	}
	for _, st := range old {
		if status, body, pn := srv.get(st.request()); status != 200 || pn != "" {
			return "", "", fmt.Errorf("preparing old contents: %d %s %s", status, body, pn)
		}
	}
	return xdg, srv.file, nil
}

// leftovers: files in the settings directory other than settings.json (temp files are allowed to
// remain only after a kill).
func c19Leftovers(file string) []string {
	var out []string
	ents, _ := os.ReadDir(filepath.Dir(file))
	for _, en := range ents {
		if en.Name() != filepath.Base(file) {
			out = append(out, en.Name())
		}
	}
	return out
}

func c19Classify(got []byte, exists bool, old []byte, oldExists bool, new []byte) string {
	switch {
	case exists && bytes.Equal(got, new):
		return "new"
	case exists == oldExists && bytes.Equal(got, old):
		return "old"
	case !exists:
		return "missing"
	case len(got) == 0:
		return "empty"
	case bytes.HasPrefix(new, got):
		return "prefix-of-new"
	}
	return "garbage"
}

func (e *c19Env) runTrace(cs c19Case) {
	c := e.c
	xdg, file, err := e.prepare(cs.Old)
	if err != nil {
		c.Disagree("C19/trace/prepare", err.Error(), "syscall-trace refinement of writeSettings", cs)
		return
	}
	old, oerr := os.ReadFile(file)
	oldExists := oerr == nil
	run := e.helper(xdg, cs.Save.request(), -1, []string{}, "base")
	if !strings.Contains(run.out, "status 200") {
		c.Disagree("C19/trace/helper", "traced save did not succeed: "+c19Trunc(run.out), "syscall-trace refinement of writeSettings", cs)
		return
	}
	newb, _ := os.ReadFile(file)
	calls, err := c19ParseTrace(run.trace)
	if err != nil {
		c.Disagree("C19/trace/parse", err.Error(), "syscall-trace refinement of writeSettings", cs)
		return
	}
	ops, _, _, _, problems := c19MapTrace(calls, filepath.Dir(file))
	if len(problems) > 0 || len(ops) == 0 {
		c.Disagree("C19/trace/map", fmt.Sprintf("trace not understood: %v (%d ops)", problems, len(ops)), "syscall-trace refinement of writeSettings", cs)
		return
	}
	var toks, descs []string
	for _, o := range ops {
		toks = append(toks, o.Tok)
		descs = append(descs, o.Desc)
		c.Res.Hit("trace-op:" + o.Kind)
	}
	oldTok, files := "0", "0"
	if oldExists {
		oldTok = "1 " + hexTok(old)
		files = "1 " + hexTok([]byte(file)) + " " + hexTok(old)
	}
	c.Res.ModelCompared++
	ask := fmt.Sprintf("fs.accepts %s %s %s 0 %s %d %s", hexTok([]byte(file)), oldTok, hexTok(newb), files, len(ops), strings.Join(toks, " "))
	rep := c.Drv.Ask(ask)
	c.Res.Hit("trace-verdict:" + firstWordC19(rep))
	cs.OpsTok = strings.Join(descs, " ; ")
	switch {
	case rep == "atomic":
	case strings.HasPrefix(rep, "bad "):
		f := strings.Fields(rep)
		k, _ := strconv.Atoi(f[1])
		after := "start"
		if k > 0 && k <= len(ops) {
			after = ops[k-1].Kind
		}
		cs.Point = fmt.Sprintf("after %d of %d operations (%s): %s", k, len(ops), after, f[2])
		c.Violation("C19/trace/"+f[2]+"/after-"+after,
			"the system calls of one save ("+cs.OpsTok+") are not crash-atomic: "+cs.Point+" — a crash there leaves settings.json neither complete-old nor complete-new", cs)
	default:
		c.Disagree("C19/trace/driver", "fs.accepts: "+c19Trunc(rep), "syscall-trace refinement of writeSettings (model driver)", cs)
	}
	if lo := c19Leftovers(file); len(lo) > 1 { // the strace output file lives in xdg, not in pprof/
		c.Res.Hit("trace-leftover-files")
	}
}

func firstWordC19(s string) string {
	if i := strings.IndexByte(s, ' '); i >= 0 {
		return s[:i]
	}
	return s
}

// ---- fault enumeration ----

type c19FaultJob struct {
	cs        c19Case
	xdg, file string
	old       []byte
	oldExists bool
	run       c19Run
}

// faultBase builds (with the real code, in-process) the previous contents and, by a clean helper
// run, the complete new contents of the save under test.
func (e *c19Env) faultBase(cs c19Case) (old []byte, oldExists bool, newb []byte, err error) {
	_, file, err := e.prepare(cs.Old)
	if err != nil {
		return nil, false, nil, err
	}
	old, oerr := os.ReadFile(file)
	xdg2, file2, err := e.prepare(cs.Old)
	if err != nil {
		return nil, false, nil, err
	}
	if r := e.helper(xdg2, cs.Save.request(), -1, nil, ""); !strings.Contains(r.out, "status 200") {
		return nil, false, nil, fmt.Errorf("clean helper run failed: %s", c19Trunc(r.out))
	}
	newb, _ = os.ReadFile(file2)
	return old, oerr == nil, newb, nil
}

func (e *c19Env) faultPrepare(cs c19Case, old []byte, oldExists bool) *c19FaultJob {
	j := &c19FaultJob{cs: cs, xdg: e.dir(), old: old, oldExists: oldExists}
	j.file = filepath.Join(j.xdg, "pprof", "settings.json")
	os.MkdirAll(filepath.Dir(j.file), 0o700)
	if oldExists {
		os.WriteFile(j.file, old, 0o644)
	}
	return j
}

// faultExec only runs the helper process: safe to call from several goroutines.
func (e *c19Env) faultExec(j *c19FaultJob) {
	cs := j.cs
	kind, arg, _ := strings.Cut(cs.Fault, ":")
	n, _ := strconv.Atoi(arg)
	req := cs.Save.request()
	switch kind {
	case "write-error":
		j.run = e.helper(j.xdg, req, -1, []string{"-e", fmt.Sprintf("inject=write:error=ENOSPC:when=%d", n)}, "f")
	case "kill-at-write":
		j.run = e.helper(j.xdg, req, -1, []string{"-e", fmt.Sprintf("inject=write:signal=KILL:when=%d", n)}, "f")
	case "kill-at-rename":
		j.run = e.helper(j.xdg, req, -1, []string{"-e", "inject=rename,renameat,renameat2:signal=KILL:when=1"}, "f")
	case "kill-at-fsync":
		j.run = e.helper(j.xdg, req, -1, []string{"-e", "inject=fsync,fdatasync:signal=KILL:when=1"}, "f")
	case "fsize":
		j.run = e.helper(j.xdg, req, n, nil, "")
	case "fsize-kill":
		// n bytes accepted, then the process is killed on entering the next write of the main thread
		j.run = e.helper(j.xdg, req, n, []string{"-e", fmt.Sprintf("inject=write:signal=KILL:when=%d", cs.WritesBefore+2)}, "f")
	default:
		j.run = c19Run{out: "unknown fault " + cs.Fault}
	}
}

func (e *c19Env) faultJudge(j *c19FaultJob, newb []byte) string {
	c, cs := e.c, j.cs
	kind, _, _ := strings.Cut(cs.Fault, ":")
	got, gerr := os.ReadFile(j.file)
	verdict := c19Classify(got, gerr == nil, j.old, j.oldExists, newb)
	c.Res.Hit("fault:" + kind + ":" + verdict)
	if j.run.killed {
		c.Res.Hit("fault:" + kind + ":helper-killed")
	}
	if verdict != "old" && verdict != "new" {
		c.Violation("C19/fault/"+kind+"/file-"+verdict,
			fmt.Sprintf("save interrupted by %s: settings.json afterwards is %s (%d bytes; old %d, new %d) — neither the complete previous nor the complete new contents; helper said %q", cs.Fault, verdict, len(got), len(j.old), len(newb), strings.TrimSpace(c19Trunc(j.run.out))), cs)
	}
	// after a reported write error the next load must still work: the old configurations are all there
	return verdict
}

// runFault: one fault case start to finish (replay).
func (e *c19Env) runFault(cs c19Case) {
	old, oldExists, newb, err := e.faultBase(cs)
	if err != nil {
		e.c.Disagree("C19/fault/prepare", err.Error(), "fault enumeration", cs)
		return
	}
	j := e.faultPrepare(cs, old, oldExists)
	e.faultExec(j)
	e.faultJudge(j, newb)
	e.restartJudge(j.cs, j.xdg, j.file, j.old, j.oldExists, newb)
}

// traceAndFaults: parts (ii) and (iii) of a normal run.
func (e *c19Env) traceAndFaults(r *Rng) {
	c := e.c
	if _, err := exec.LookPath("strace"); err != nil {
		c.Disagree("C19/strace-missing", "strace not found", "syscall-trace refinement / fault enumeration", c19Case{Kind: "trace"})
		return
	}
	save := c19Step{Op: "save", Name: "third", Params: map[string]string{"f": "foo|bar", "i": "baz", "n": "7", "rel": "true", "unit": "ms"}}
	scen := []c19Case{
		{Kind: "trace", Old: c19OldSteps(), Save: &save, Note: "overwrite an existing settings file"},
		{Kind: "trace", Old: nil, Save: &save, Note: "first save: no settings file yet"},
		{Kind: "trace", Old: c19OldSteps(), Save: &c19Step{Op: "delete", Name: "first"}, Note: "delete shrinks the file"},
	}
	for _, cs := range scen {
		e.runTrace(cs)
		c.Res.Count("trace:"+cs.Note, true)
	}
	// baseline trace again, to learn which write indices of the main thread hit the settings file
	proto := c19Case{Kind: "fault", Old: c19OldSteps(), Save: &save}
	old, oldExists, newb, err := e.faultBase(proto)
	if err != nil {
		c.Disagree("C19/fault/prepare", err.Error(), "fault enumeration", proto)
		return
	}
	bj := e.faultPrepare(proto, old, oldExists)
	base := e.helper(bj.xdg, save.request(), -1, []string{}, "count")
	calls, err := c19ParseTrace(base.trace)
	if err != nil {
		c.Disagree("C19/fault/baseline", err.Error(), "fault enumeration", proto)
		return
	}
	_, _, wb, sw, _ := c19MapTrace(calls, filepath.Dir(bj.file))
	c.Res.Hit(fmt.Sprintf("fault-baseline:settings-writes=%d,writes-before=%d", sw, wb))
	var faults []string
	for k := 1; k <= sw; k++ {
		faults = append(faults, fmt.Sprintf("write-error:%d", wb+k), fmt.Sprintf("kill-at-write:%d", wb+k))
	}
	faults = append(faults, "kill-at-rename:1", "kill-at-fsync:1")
	// every byte position of the new contents (quick tier: a seed-dependent sample of ~100 positions)
	step := 1
	if c.Scale == 1 && len(newb) > 96 {
		step = len(newb)/96 + 1
	}
	off := r.Intn(step)
	for k := 0; k <= len(newb); k++ {
		if k == 0 || k >= len(newb)-1 || (k+off)%step == 0 {
			faults = append(faults, fmt.Sprintf("fsize:%d", k))
		}
	}
	for _, k := range []int{0, 1, len(newb) / 2, len(newb) - 1} {
		faults = append(faults, fmt.Sprintf("fsize-kill:%d", k))
	}
	var jobs []*c19FaultJob
	for _, f := range faults {
		cs := proto
		cs.Fault, cs.WritesBefore = f, wb
		jobs = append(jobs, e.faultPrepare(cs, old, oldExists))
	}
	// second scenario: the very first save (no settings file yet; "old" = no file)
	first := c19Case{Kind: "fault", Old: nil, Save: &save}
	_, _, newFirst, err := e.faultBase(first)
	nMain := len(jobs)
	if err == nil {
		for _, f := range []string{fmt.Sprintf("write-error:%d", wb+1), fmt.Sprintf("kill-at-write:%d", wb+1), "kill-at-rename:1",
			"fsize:0", fmt.Sprintf("fsize:%d", 1+r.Intn(len(newFirst)-1)), fmt.Sprintf("fsize-kill:%d", r.Intn(len(newFirst)))} {
			cs := first
			cs.Fault, cs.WritesBefore = f, wb
			jobs = append(jobs, e.faultPrepare(cs, nil, false))
		}
	}
	var wg sync.WaitGroup
	sem := make(chan bool, 12)
	for _, j := range jobs {
		wg.Add(1)
		sem <- true
		go func(j *c19FaultJob) {
			defer wg.Done()
			defer func() { <-sem }()
			e.faultExec(j)
		}(j)
	}
	wg.Wait()
	var partial *c19FaultJob // a crash that left a non-empty temp file behind: used for the traced restart
	for i, j := range jobs {
		nb := newb
		if i < nMain {
			e.faultJudge(j, newb)
			c.Res.Count("fault:"+j.cs.Fault, true)
		} else {
			nb = newFirst
			e.faultJudge(j, newFirst)
			c.Res.Count("fault-first-save:"+j.cs.Fault, true)
		}
		if partial == nil && j.oldExists {
			for _, lo := range c19Leftovers(j.file) {
				if fi, err := os.Stat(filepath.Join(filepath.Dir(j.file), lo)); err == nil && fi.Size() > 0 && fi.Size() < int64(len(nb)) {
					partial = j
				}
			}
		}
		if partial == j {
			e.restartTrace(j) // before the in-process restart below touches the directory
		}
		e.restartJudge(j.cs, j.xdg, j.file, j.old, j.oldExists, nb)
	}
}
