//go:build verif

package main

import (
	"bytes"
	"fmt"
	"regexp"
	"sort"
	"strconv"
	"strings"

	"github.com/google/pprof/profile"
)

// Parsers that read the numbers back from pprof's output forms. All reports are produced with
// sample unit "count" and |values| < 2^50, so every figure is printed as an exact integer.

type dispEdge struct {
	Name     string
	W        int64
	Residual bool
}

type dispNode struct {
	ID        int // dot only
	Name      string
	Flat, Cum int64
	In, Out   []dispEdge
	Extra     string // further identity shown by the format (callgrind: ob/fl/addr/line; topproto: all fields)
}

type parsedReport struct {
	Labels []string
	Nodes  []dispNode
	// dot only: edges by node ids (0 = a node that is not declared)
	DotEdges []dotEdge
}

type dotEdge struct {
	From, To int
	W        int64
	Residual bool
}

const unlistedName = "<unlisted>"

func parseIntField(s string) (int64, error) {
	s = strings.TrimSpace(s)
	if s == "." {
		return 0, nil
	}
	v, err := strconv.ParseInt(s, 10, 64)
	if err != nil {
		return 0, fmt.Errorf("value %q is not an exact integer", s)
	}
	return v, nil
}

func stripInline(name string) string {
	for _, suf := range []string{" (inline)", " (partial-inline)"} {
		name = strings.TrimSuffix(name, suf)
	}
	return name
}

var textRowRE = regexp.MustCompile(`^\s*(\S+)\s+(\S+%)\s+(\S+%)\s+(\S+)\s+(\S+%)  (.*)$`)

func parseText(out string) (*parsedReport, error) {
	lines := strings.Split(strings.TrimRight(out, "\n"), "\n")
	pr := &parsedReport{}
	i := 0
	for ; i < len(lines); i++ {
		if strings.HasPrefix(strings.TrimSpace(lines[i]), "flat  flat%") {
			break
		}
		pr.Labels = append(pr.Labels, lines[i])
	}
	if i == len(lines) {
		return nil, fmt.Errorf("text report: no column header")
	}
	for _, l := range lines[i+1:] {
		m := textRowRE.FindStringSubmatch(l)
		if m == nil {
			return nil, fmt.Errorf("text report: unparsable row %q", l)
		}
		flat, err := parseIntField(m[1])
		if err != nil {
			return nil, err
		}
		cum, err := parseIntField(m[4])
		if err != nil {
			return nil, err
		}
		pr.Nodes = append(pr.Nodes, dispNode{Name: stripInline(m[6]), Flat: flat, Cum: cum})
	}
	return pr, nil
}

func parseTree(out string) (*parsedReport, error) {
	lines := strings.Split(strings.TrimRight(out, "\n"), "\n")
	pr := &parsedReport{}
	i := 0
	for ; i < len(lines); i++ {
		if strings.HasPrefix(lines[i], "----------------------------------------------------------+") {
			break
		}
		pr.Labels = append(pr.Labels, lines[i])
	}
	if i == len(lines) {
		return nil, fmt.Errorf("tree report: no separator")
	}
	var cur *dispNode
	var pendingIn []dispEdge
	flush := func() error {
		if cur != nil {
			pr.Nodes = append(pr.Nodes, *cur)
			cur = nil
		} else if len(pendingIn) > 0 {
			return fmt.Errorf("tree report: edges without an entry row")
		}
		pendingIn = nil
		return nil
	}
	for _, l := range lines[i:] {
		if strings.HasPrefix(l, "----------------------------------------------------------+") {
			if err := flush(); err != nil {
				return nil, err
			}
			continue
		}
		if strings.HasPrefix(strings.TrimSpace(l), "flat  flat%") {
			continue
		}
		bar := strings.Index(l, "|")
		if bar < 0 {
			return nil, fmt.Errorf("tree report: unparsable line %q", l)
		}
		left := strings.Fields(l[:bar])
		name := stripInline(strings.TrimSpace(l[bar+1:]))
		switch len(left) {
		case 5:
			flat, err := parseIntField(left[0])
			if err != nil {
				return nil, err
			}
			cum, err := parseIntField(left[3])
			if err != nil {
				return nil, err
			}
			if cur != nil {
				return nil, fmt.Errorf("tree report: two entry rows in one block")
			}
			cur = &dispNode{Name: name, Flat: flat, Cum: cum, In: pendingIn}
			pendingIn = nil
		case 2:
			w, err := parseIntField(left[0])
			if err != nil {
				return nil, err
			}
			if cur == nil {
				pendingIn = append(pendingIn, dispEdge{Name: name, W: w})
			} else {
				cur.Out = append(cur.Out, dispEdge{Name: name, W: w})
			}
		default:
			return nil, fmt.Errorf("tree report: unparsable line %q", l)
		}
	}
	if err := flush(); err != nil {
		return nil, err
	}
	return pr, nil
}

var (
	dotNodeRE   = regexp.MustCompile(`^N(\d+) \[label="(.*?)" id="node\d+" .*? tooltip="(.*) \((-?[0-9.]+)\)" color=`)
	dotEdgeRE   = regexp.MustCompile(`^N(\d+) -> N(\d+) \[label=" (-?[0-9.]+)(?:\\n \(inline\))?"(.*)\]$`)
	dotLegendRE = regexp.MustCompile(`^subgraph cluster_L \{ ".*?" \[shape=box fontsize=16 label="(.*?)\\l"`)
	dotValRE    = regexp.MustCompile(`^(-?[0-9.]+) \(`)
	dotOfRE     = regexp.MustCompile(`^of (-?[0-9.]+) \(`)
	dotZeroOfRE = regexp.MustCompile(`^0 of (-?[0-9.]+) \(`)
)

func parseDot(out string) (*parsedReport, error) {
	pr := &parsedReport{}
	for _, l := range strings.Split(out, "\n") {
		switch {
		case strings.HasPrefix(l, "subgraph cluster_L"):
			if m := dotLegendRE.FindStringSubmatch(l); m != nil {
				pr.Labels = strings.Split(m[1], `\l`)
			}
		case strings.Contains(l, " -> "):
			m := dotEdgeRE.FindStringSubmatch(l)
			if m == nil {
				if strings.Contains(l, "_") { // nodelet edge N1 -> N1_0
					continue
				}
				return nil, fmt.Errorf("dot: unparsable edge %q", l)
			}
			from, _ := strconv.Atoi(m[1])
			to, _ := strconv.Atoi(m[2])
			w, err := parseIntField(m[3])
			if err != nil {
				return nil, err
			}
			pr.DotEdges = append(pr.DotEdges, dotEdge{From: from, To: to, W: w, Residual: strings.Contains(m[4], `style="dotted"`)})
		case strings.HasPrefix(l, "N") && strings.Contains(l, `id="node`):
			m := dotNodeRE.FindStringSubmatch(l)
			if m == nil {
				return nil, fmt.Errorf("dot: unparsable node %q", l)
			}
			id, _ := strconv.Atoi(m[1])
			segs := strings.Split(m[2], `\n`)
			last := segs[len(segs)-1]
			var flat, cum int64
			var err error
			switch {
			case dotOfRE.MatchString(last):
				if cum, err = parseIntField(dotOfRE.FindStringSubmatch(last)[1]); err != nil {
					return nil, err
				}
				if len(segs) < 2 || !dotValRE.MatchString(segs[len(segs)-2]) {
					return nil, fmt.Errorf("dot: node label without flat value %q", m[2])
				}
				if flat, err = parseIntField(dotValRE.FindStringSubmatch(segs[len(segs)-2])[1]); err != nil {
					return nil, err
				}
			case dotZeroOfRE.MatchString(last):
				if cum, err = parseIntField(dotZeroOfRE.FindStringSubmatch(last)[1]); err != nil {
					return nil, err
				}
			case last == "0":
			case dotValRE.MatchString(last):
				if flat, err = parseIntField(dotValRE.FindStringSubmatch(last)[1]); err != nil {
					return nil, err
				}
				cum = flat
			default:
				return nil, fmt.Errorf("dot: node label without values %q", m[2])
			}
			tipCum, err := parseIntField(m[4])
			if err != nil {
				return nil, err
			}
			if tipCum != cum {
				return nil, fmt.Errorf("dot: node %q label shows cum %d but tooltip %d", m[3], cum, tipCum)
			}
			pr.Nodes = append(pr.Nodes, dispNode{ID: id, Name: m[3], Flat: flat, Cum: cum})
		}
	}
	// attach edges by name
	byID := map[int]int{}
	for i, n := range pr.Nodes {
		if _, dup := byID[n.ID]; dup {
			return nil, fmt.Errorf("dot: node id %d declared twice", n.ID)
		}
		byID[n.ID] = i
	}
	nameOf := func(id int) string {
		if i, ok := byID[id]; ok {
			return pr.Nodes[i].Name
		}
		return unlistedName
	}
	for _, e := range pr.DotEdges {
		if i, ok := byID[e.From]; ok {
			pr.Nodes[i].Out = append(pr.Nodes[i].Out, dispEdge{Name: nameOf(e.To), W: e.W, Residual: e.Residual})
		}
		if i, ok := byID[e.To]; ok {
			pr.Nodes[i].In = append(pr.Nodes[i].In, dispEdge{Name: nameOf(e.From), W: e.W, Residual: e.Residual})
		}
	}
	return pr, nil
}

// parseCallgrind decodes the name and sub-position compression of printCallgrind.
func parseCallgrind(out string) (*parsedReport, error) {
	pr := &parsedReport{}
	tables := map[string]map[int]string{"ob": {}, "fl": {}, "fn": {}}
	tblOf := func(k string) map[int]string {
		switch k {
		case "ob":
			return tables["ob"]
		case "fl", "cfl":
			return tables["fl"]
		default:
			return tables["fn"]
		}
	}
	nameRE := regexp.MustCompile(`^\((\d+)\)(?: (.*))?$`)
	decode := func(k, v string) (string, error) {
		if v == "" {
			return "", nil
		}
		m := nameRE.FindStringSubmatch(v)
		if m == nil {
			return "", fmt.Errorf("callgrind: bad name %q", v)
		}
		id, _ := strconv.Atoi(m[1])
		t := tblOf(k)
		if strings.Contains(v, ") ") {
			if old, ok := t[id]; ok && old != m[2] {
				return "", fmt.Errorf("callgrind: id (%d) defined twice", id)
			}
			t[id] = m[2]
			return m[2], nil
		}
		n, ok := t[id]
		if !ok {
			return "", fmt.Errorf("callgrind: back reference (%d) to an undefined name", id)
		}
		return n, nil
	}
	var ob, fl, fn, cfl, cfn string
	var prevAddr, nodeAddr uint64
	havePrev := false
	addrOf := func(s string) (uint64, error) {
		switch {
		case s == "*":
			return prevAddr, nil
		case strings.HasPrefix(s, "0x"):
			return strconv.ParseUint(s[2:], 16, 64)
		case strings.HasPrefix(s, "+") || strings.HasPrefix(s, "-"):
			d, err := strconv.ParseInt(s, 10, 64)
			return prevAddr + uint64(d), err
		}
		return 0, fmt.Errorf("callgrind: bad address %q", s)
	}
	var cur *dispNode
	var pendCallee string
	// the disambiguation suffix " [i/n]" of an EMPTY name reaches the output as "[i/n]": callgrind names
	// are written without leading blanks (commit 60810e9)
	suffixRE := regexp.MustCompile(`(?:^| )\[\d+/\d+\]$`)
	for _, l := range strings.Split(out, "\n") {
		if l == "" || strings.HasPrefix(l, "positions:") || strings.HasPrefix(l, "events:") {
			continue
		}
		if eq := strings.Index(l, "="); eq > 0 && !strings.Contains(l[:eq], " ") {
			k, v := l[:eq], l[eq+1:]
			var err error
			switch k {
			case "ob":
				ob, err = decode(k, v)
			case "fl":
				fl, err = decode(k, v)
			case "fn":
				fn, err = decode(k, v)
				fn = suffixRE.ReplaceAllString(fn, "")
			case "cfl":
				cfl, err = decode(k, v)
			case "cfn":
				cfn, err = decode(k, v)
				cfn = suffixRE.ReplaceAllString(cfn, "")
			case "calls":
				f := strings.Fields(v)
				if len(f) != 3 || cur == nil {
					return nil, fmt.Errorf("callgrind: bad calls line %q", l)
				}
				// the callee's sub-position (and the reference it is relative to) is property C18's
				// business; the call is identified by callee file and name here
				pendCallee = fmt.Sprintf("%s|%s", cfl, cfn)
			default:
				err = fmt.Errorf("callgrind: unknown line %q", l)
			}
			if err != nil {
				return nil, err
			}
			continue
		}
		f := strings.Fields(l)
		if len(f) != 3 {
			return nil, fmt.Errorf("callgrind: unparsable line %q", l)
		}
		if f[0] == "*" && f[1] == "*" && pendCallee != "" {
			w, err := parseIntField(f[2])
			if err != nil {
				return nil, err
			}
			cur.Out = append(cur.Out, dispEdge{Name: pendCallee, W: w})
			pendCallee = ""
			continue
		}
		// cost line of a new node
		if cur != nil {
			pr.Nodes = append(pr.Nodes, *cur)
			prevAddr, havePrev = nodeAddr, true
		}
		_ = havePrev
		a, err := addrOf(f[0])
		if err != nil {
			return nil, err
		}
		flat, err := parseIntField(f[2])
		if err != nil {
			return nil, err
		}
		nodeAddr = a
		cur = &dispNode{Name: fn, Flat: flat, Extra: fmt.Sprintf("%s|%s|%#x|%s", ob, fl, a, f[1])}
		// calls lines of this node are relative to the PREVIOUS node's address (prevInfo), which
		// prevAddr still holds
	}
	if cur != nil {
		pr.Nodes = append(pr.Nodes, *cur)
	}
	return pr, nil
}

func parseTopProto(out []byte) (*parsedReport, error) {
	p, err := profile.Parse(bytes.NewReader(out))
	if err != nil {
		return nil, fmt.Errorf("topproto: %v", err)
	}
	if len(p.SampleType) != 2 || p.SampleType[0].Type != "cum" || p.SampleType[1].Type != "flat" {
		return nil, fmt.Errorf("topproto: unexpected sample types")
	}
	pr := &parsedReport{}
	for _, s := range p.Sample {
		if len(s.Location) != 1 || len(s.Location[0].Line) != 1 || len(s.Value) != 2 {
			return nil, fmt.Errorf("topproto: unexpected sample shape")
		}
		l := s.Location[0]
		f := l.Line[0].Function
		pr.Nodes = append(pr.Nodes, dispNode{Name: f.Name, Cum: s.Value[0], Flat: s.Value[1],
			Extra: fmt.Sprintf("%q|%q|%d|%#x|%d|%d", f.SystemName, f.Filename, f.StartLine, l.Address, l.Line[0].Line, l.Line[0].Column)})
	}
	return pr, nil
}

type traceRow struct {
	Value  int64
	Frames []string // leaf first, as printed
}

func parseTraces(out string) ([]string, []traceRow, error) {
	const sep = "-----------+-------------------------------------------------------"
	lines := strings.Split(strings.TrimRight(out, "\n"), "\n")
	var labels []string
	i := 0
	for ; i < len(lines) && lines[i] != sep; i++ {
		labels = append(labels, lines[i])
	}
	var rows []traceRow
	var cur *traceRow
	for ; i < len(lines); i++ {
		l := lines[i]
		if l == sep {
			if cur != nil {
				rows = append(rows, *cur)
			}
			cur = nil
			continue
		}
		var name string
		if strings.HasPrefix(l, "             ") { // continuation row: 10 blanks + 3 separator blanks
			if cur == nil {
				return nil, nil, fmt.Errorf("traces: first row without a value %q", l)
			}
			name = strings.TrimSuffix(l[13:], " (inline)")
		} else {
			t := strings.TrimLeft(l, " ")
			sp := strings.Index(t, "   ")
			if sp < 0 || strings.HasSuffix(t[:sp], ":") || strings.Contains(t[:sp], ":") {
				continue // label line "%10s:  values"
			}
			if cur != nil {
				return nil, nil, fmt.Errorf("traces: value on an inner row %q", l)
			}
			v, err := parseIntField(t[:sp])
			if err != nil {
				return nil, nil, fmt.Errorf("traces: %v", err)
			}
			cur = &traceRow{Value: v}
			name = strings.TrimSuffix(t[sp+3:], " (inline)")
		}
		cur.Frames = append(cur.Frames, name)
	}
	if cur != nil {
		return nil, nil, fmt.Errorf("traces: missing final separator")
	}
	return labels, rows, nil
}

// canonNodes renders display nodes as a sorted list of strings (multiset comparison).
func canonNodes(nodes []dispNode, withCum, withEdges, withResidual bool) []string {
	var out []string
	ed := func(es []dispEdge) string {
		var s []string
		for _, e := range es {
			x := fmt.Sprintf("%s=%d", e.Name, e.W)
			if withResidual && e.Residual {
				x += "~"
			}
			s = append(s, x)
		}
		sort.Strings(s)
		return strings.Join(s, ",")
	}
	for _, n := range nodes {
		s := fmt.Sprintf("%s {%s} flat=%d", n.Name, n.Extra, n.Flat)
		if withCum {
			s += fmt.Sprintf(" cum=%d", n.Cum)
		}
		if withEdges {
			s += " in[" + ed(n.In) + "] out[" + ed(n.Out) + "]"
		}
		out = append(out, s)
	}
	sort.Strings(out)
	return out
}

func firstDiff(got, want []string) string {
	gm := map[string]int{}
	for _, g := range got {
		gm[g]++
	}
	for _, w := range want {
		if gm[w] > 0 {
			gm[w]--
		} else {
			// find the shown row with the same name
			name := w
			if i := strings.Index(w, " {"); i >= 0 {
				name = w[:i]
			}
			for g, c := range gm {
				if c > 0 && strings.HasPrefix(g, name+" {") {
					return fmt.Sprintf("shown %q, expected %q", g, w)
				}
			}
			return fmt.Sprintf("expected row %q is not shown", w)
		}
	}
	for g, c := range gm {
		if c > 0 {
			return fmt.Sprintf("row %q is shown but not expected", g)
		}
	}
	return ""
}
