//go:build verif

package main

// C17 — flame-graph stack data is a faithful, self-consistent index of samples.
//
// Every case: (1) run the real code — report.New(prof, opts).Stacks() in-process ("direct"), or the
// /flamegraph handler of the web UI obtained through the HTTPServer plug-in hook of driver.PProf
// ("web") — under recover; (2) direct oracle: the statements of the property evaluated on the real
// StackSet (c17_oracle.go); (3) correspondence with the Lean model `PV.Stacks.stacks` through
// pvdrv-C17 (canonical, attribute based text; indices are erased except the promised root = 0).

import (
	"encoding/json"
	"fmt"
	"os"
	"path/filepath"
	"reflect"
	"sort"
	"strconv"
	"strings"

	"github.com/google/pprof/internal/report"
	"github.com/google/pprof/profile"
)

func init() { register("C17", runC17) }

type c17Case struct {
	Mode        string `json:"mode"`         // "direct" | "web"
	Profile     string `json:"profile"`      // canonical token form (harness/canon.go)
	SampleIndex int    `json:"sample_index"` // selected sample value
	Gran        string `json:"granularity"`  // "raw" (direct only: no aggregation), "", functions, filefunctions, files, lines, addresses
	NoInlines   bool   `json:"noinlines,omitempty"`
	ShowColumns bool   `json:"showcolumns,omitempty"`
	// web only: further URL parameters of this request (f, i, h, s, tf, ti: the driver's filters) and
	// the requests issued on the SAME server before it (a sequence differing in one parameter)
	Filters map[string]string `json:"filters,omitempty"`
	Before  []c17Req          `json:"before,omitempty"`
	// selection by NAME: when BySel, the sample value is selected with the text Sel (si=<Sel>,
	// Profile.SampleIndexByName(Sel)) and SampleIndex is ignored; "" is the default selection
	BySel bool   `json:"by_name,omitempty"`
	Sel   string `json:"si,omitempty"`
	// environment: basename of the working directory the real code is started from ("" = wherever
	// the harness runs) and of a second one from which the result must be identical
	CwdBase    string `json:"cwd_basename,omitempty"`
	AltCwdBase string `json:"alt_cwd_basename,omitempty"`
	// report options -trim_path / -source_path (process-level configuration, not URL parameters)
	TrimPath   string `json:"trim_path,omitempty"`
	SourcePath string `json:"source_path,omitempty"`
}

// c17Chdir enters <replay dir>/.cwd-<pid>/<base> (created on demand; only its basename matters
// and is recorded in the case, so a replay runs from a directory of the same name), points HOME
// and TMPDIR below it, and returns the function that restores the previous state.
func c17Chdir(c *Ctx, base, home string) func() {
	if base == "" {
		return func() {}
	}
	old, err := os.Getwd()
	if err != nil {
		c.Res.HarnessError = "C17 getwd: " + err.Error()
		return func() {}
	}
	root := filepath.Join(c.Dir, fmt.Sprintf(".cwd-%d", os.Getpid()))
	dir := filepath.Join(root, filepath.Base(base))
	h := filepath.Join(root, home)
	for _, d := range []string{dir, h, filepath.Join(h, "tmp")} {
		os.MkdirAll(d, 0o755)
	}
	oldHome, oldTmp := os.Getenv("HOME"), os.Getenv("TMPDIR")
	os.Setenv("HOME", h)
	os.Setenv("TMPDIR", filepath.Join(h, "tmp"))
	if err := os.Chdir(dir); err != nil {
		c.Res.HarnessError = "C17 chdir: " + err.Error()
	}
	return func() {
		os.Chdir(old)
		os.Setenv("HOME", oldHome)
		os.Setenv("TMPDIR", oldTmp)
	}
}

// c17Req is one GET /flamegraph request.
type c17Req struct {
	SampleIndex int               `json:"sample_index"`
	Gran        string            `json:"granularity"`
	NoInlines   bool              `json:"noinlines,omitempty"`
	ShowColumns bool              `json:"showcolumns,omitempty"`
	Filters     map[string]string `json:"filters,omitempty"`
	BySel       bool              `json:"by_name,omitempty"`
	Sel         string            `json:"si,omitempty"`
}

func (cs c17Case) req() c17Req {
	return c17Req{cs.SampleIndex, cs.Gran, cs.NoInlines, cs.ShowColumns, cs.Filters, cs.BySel, cs.Sel}
}

// c17SelectIndex: the documented rules of -sample_index / si= (Profile.SampleIndexByName): "" is
// the type named by DefaultSampleType (first such) or else the last type; a number (strconv.Atoi)
// is that index, an error outside the range; any other text is the FIRST type whose name is
// byte-equal to it or to it without a leading "inuse_". Identical to `selectIndex` in Lean
// (Model/StacksSelect.lean), compared on every case that selects by name.
func c17SelectIndex(p *profile.Profile, sel string) (int, bool) {
	if len(p.SampleType) == 0 {
		return 0, false
	}
	if sel == "" {
		if p.DefaultSampleType != "" {
			for i, t := range p.SampleType {
				if t.Type == p.DefaultSampleType {
					return i, true
				}
			}
		}
		return len(p.SampleType) - 1, true
	}
	if i, err := strconv.Atoi(sel); err == nil {
		return i, i >= 0 && i < len(p.SampleType)
	}
	for i, t := range p.SampleType {
		if t.Type == sel || t.Type == strings.TrimPrefix(sel, "inuse_") {
			return i, true
		}
	}
	return 0, false
}

// ---- raw (index based) stack set, common to the real code, its JSON and the model ----

type c17Slot struct{ Stack, Pos int }
type c17Stack struct {
	Value  int64
	NonNil bool
	Srcs   []int
}
type c17Source struct {
	Full, File, Unique string
	Inlined            bool
	Self               int64
	PlacesNonNil       bool
	Places             []c17Slot
	DisplayOK          bool // non-nil and non-empty
}
type c17Set struct {
	Type          string // StackSet.Type (JSON only)
	HasType       bool
	Total         int64
	StacksNonNil  bool
	SourcesNonNil bool
	Stacks        []c17Stack
	Sources       []c17Source
}

func c17FromReal(ss *report.StackSet) *c17Set {
	out := &c17Set{Total: ss.Total, StacksNonNil: ss.Stacks != nil, SourcesNonNil: ss.Sources != nil}
	for _, st := range ss.Stacks {
		out.Stacks = append(out.Stacks, c17Stack{Value: st.Value, NonNil: st.Sources != nil, Srcs: append([]int(nil), st.Sources...)})
	}
	for _, s := range ss.Sources {
		x := c17Source{Full: s.FullName, File: s.FileName, Unique: s.UniqueName, Inlined: s.Inlined, Self: s.Self,
			PlacesNonNil: s.Places != nil, DisplayOK: len(s.Display) > 0}
		for _, pl := range s.Places {
			x.Places = append(x.Places, c17Slot{pl.Stack, pl.Pos})
		}
		out.Sources = append(out.Sources, x)
	}
	return out
}

// c17JSONNulls returns the paths of JSON nulls (what the client would dereference as a missing
// element) in an encoded StackSet.
func c17JSONNulls(v any, path string, out *[]string) {
	switch t := v.(type) {
	case nil:
		*out = append(*out, path)
	case map[string]any:
		ks := make([]string, 0, len(t))
		for k := range t {
			ks = append(ks, k)
		}
		sort.Strings(ks)
		for _, k := range ks {
			c17JSONNulls(t[k], path+"."+k, out)
		}
	case []any:
		for _, e := range t {
			c17JSONNulls(e, path+"[]", out)
		}
	}
}

// c17JSONShape walks the decoded JSON along the Go type it encodes (every exported field of
// report.StackSet and of the types it contains, found by reflection — fields added later are
// covered without touching this file): wherever the type has a slice, map or struct the JSON must
// have an array / object — not null, not a missing key (omitempty), not another kind.
func c17JSONShape(v any, t reflect.Type, path string, out *[]string) {
	switch t.Kind() {
	case reflect.Slice, reflect.Array:
		if t.Elem().Kind() == reflect.Uint8 {
			return // []byte is a base64 string
		}
		arr, ok := v.([]any)
		if !ok {
			*out = append(*out, fmt.Sprintf("%s:%s-for-array", path, c17JSONKind(v)))
			return
		}
		for _, e := range arr {
			c17JSONShape(e, t.Elem(), path+"[]", out)
		}
	case reflect.Map:
		m, ok := v.(map[string]any)
		if !ok {
			*out = append(*out, fmt.Sprintf("%s:%s-for-object", path, c17JSONKind(v)))
			return
		}
		for _, k := range sortedKeys(m) {
			c17JSONShape(m[k], t.Elem(), path+"{}", out)
		}
	case reflect.Ptr:
		if v == nil {
			*out = append(*out, path+":null-for-pointer")
			return
		}
		c17JSONShape(v, t.Elem(), path, out)
	case reflect.Struct:
		m, ok := v.(map[string]any)
		if !ok {
			*out = append(*out, fmt.Sprintf("%s:%s-for-object", path, c17JSONKind(v)))
			return
		}
		for i := 0; i < t.NumField(); i++ {
			f := t.Field(i)
			if f.PkgPath != "" { // unexported: not encoded
				continue
			}
			name := f.Name
			if tag := strings.Split(f.Tag.Get("json"), ",")[0]; tag == "-" {
				continue
			} else if tag != "" {
				name = tag
			}
			switch f.Type.Kind() {
			case reflect.Slice, reflect.Array, reflect.Map, reflect.Struct, reflect.Ptr:
				fv, present := m[name]
				if !present {
					*out = append(*out, path+"."+name+":missing")
					continue
				}
				c17JSONShape(fv, f.Type, path+"."+name, out)
			}
		}
	}
}

func c17JSONKind(v any) string {
	switch v.(type) {
	case nil:
		return "null"
	case []any:
		return "array"
	case map[string]any:
		return "object"
	case string:
		return "string"
	default:
		return "scalar"
	}
}

// c17NilWalk: the same walk on the in-memory value — nil slices, maps and pointers in exported
// fields (what encoding/json prints as null).
func c17NilWalk(v reflect.Value, path string, out *[]string) {
	switch v.Kind() {
	case reflect.Slice, reflect.Map, reflect.Ptr, reflect.Interface:
		if v.IsNil() {
			*out = append(*out, path)
			return
		}
	}
	switch v.Kind() {
	case reflect.Slice, reflect.Array:
		for i := 0; i < v.Len(); i++ {
			c17NilWalk(v.Index(i), path+"[]", out)
		}
	case reflect.Ptr, reflect.Interface:
		c17NilWalk(v.Elem(), path, out)
	case reflect.Map:
		it := v.MapRange()
		for it.Next() {
			c17NilWalk(it.Value(), path+"{}", out)
		}
	case reflect.Struct:
		for i := 0; i < v.NumField(); i++ {
			if f := v.Type().Field(i); f.PkgPath == "" {
				c17NilWalk(v.Field(i), path+"."+f.Name, out)
			}
		}
	}
}

type c17JSONSet struct {
	Total  int64
	Type   string
	Unit   string
	Stacks *[]struct {
		Value   int64
		Sources *[]int
	}
	Sources *[]struct {
		FullName   string
		FileName   string
		UniqueName string
		Inlined    bool
		Display    *[]string
		Places     *[]struct{ Stack, Pos int }
		Self       int64
	}
}

// c17FromJSON decodes the JSON text handed to the page.
func c17FromJSON(b []byte) (*c17Set, []string, error) {
	var generic any
	if err := json.Unmarshal(b, &generic); err != nil {
		return nil, nil, err
	}
	var nulls []string
	c17JSONNulls(generic, "$", &nulls)
	var shape []string
	c17JSONShape(generic, reflect.TypeOf(report.StackSet{}), "$", &shape)
	for _, sh := range shape {
		if !strings.HasSuffix(sh, ":null-for-array") && !strings.HasSuffix(sh, ":null-for-object") && !strings.HasSuffix(sh, ":null-for-pointer") {
			nulls = append(nulls, sh) // nulls are already listed by the untyped walk
		}
	}
	var js c17JSONSet
	if err := json.Unmarshal(b, &js); err != nil {
		return nil, nulls, err
	}
	out := &c17Set{Type: js.Type, HasType: true, Total: js.Total, StacksNonNil: js.Stacks != nil, SourcesNonNil: js.Sources != nil}
	if js.Stacks != nil {
		for _, st := range *js.Stacks {
			x := c17Stack{Value: st.Value, NonNil: st.Sources != nil}
			if st.Sources != nil {
				x.Srcs = *st.Sources
			}
			out.Stacks = append(out.Stacks, x)
		}
	}
	if js.Sources != nil {
		for _, s := range *js.Sources {
			x := c17Source{Full: s.FullName, File: s.FileName, Unique: s.UniqueName, Inlined: s.Inlined, Self: s.Self,
				PlacesNonNil: s.Places != nil, DisplayOK: s.Display != nil && len(*s.Display) > 0}
			if s.Places != nil {
				for _, pl := range *s.Places {
					x.Places = append(x.Places, c17Slot{pl.Stack, pl.Pos})
				}
			}
			out.Sources = append(out.Sources, x)
		}
	}
	return out, nulls, nil
}

// c17FromModel parses the reply of `stacks.model` (Driver/Ops/C17.lean: wStackSet).
func c17FromModel(reply string) (*c17Set, error) {
	if !strings.HasPrefix(reply, "ok ") {
		return nil, fmt.Errorf("model: %s", c17Trunc(reply))
	}
	r := newTR(reply[3:])
	out := &c17Set{}
	out.Total = r.int()
	out.StacksNonNil = r.bool()
	for i, n := 0, r.n(); i < n && r.err == nil; i++ {
		st := c17Stack{Value: r.int(), NonNil: r.bool()}
		for j, m := 0, r.n(); j < m && r.err == nil; j++ {
			st.Srcs = append(st.Srcs, r.n())
		}
		out.Stacks = append(out.Stacks, st)
	}
	out.SourcesNonNil = r.bool()
	for i, n := 0, r.n(); i < n && r.err == nil; i++ {
		s := c17Source{Full: r.str(), File: r.str(), Unique: r.str(), Inlined: r.bool(), Self: r.int(), PlacesNonNil: r.bool(), DisplayOK: true}
		for j, m := 0, r.n(); j < m && r.err == nil; j++ {
			s.Places = append(s.Places, c17Slot{r.n(), r.n()})
		}
		out.Sources = append(out.Sources, s)
	}
	if r.err != nil {
		return nil, r.err
	}
	if r.pos != len(r.toks) {
		return nil, fmt.Errorf("trailing tokens in model reply")
	}
	return out, nil
}

// c17Canon: the property-level canonical text. Source identities appear by their attributes
// (full name, file name, inlined flag), never by index, except the promised root at index 0;
// sources other than the root are listed as a sorted multiset; place lists are sorted.
// UniqueName is left out (which of two equal names keeps the plain one is not promised).
// Sections are separated by '\n' so that the first differing section names the signature.
func c17Canon(s *c17Set, ascii bool) string {
	q := func(x string) string {
		if ascii {
			return strconv.Quote(x)
		}
		return fmt.Sprintf("%x", x)
	}
	desc := func(i int) string {
		if i < 0 || i >= len(s.Sources) {
			return fmt.Sprintf("<out-of-range %d>", i)
		}
		x := s.Sources[i]
		return fmt.Sprintf("(%s %s %v)", q(x.Full), q(x.File), x.Inlined)
	}
	var b strings.Builder
	fmt.Fprintf(&b, "total %d\n", s.Total)
	fmt.Fprintf(&b, "nonnil stacks=%v sources=%v", s.StacksNonNil, s.SourcesNonNil)
	for i, st := range s.Stacks {
		if !st.NonNil {
			fmt.Fprintf(&b, " stack%d.Sources=nil", i)
		}
	}
	nilPlaces := 0
	for _, x := range s.Sources {
		if !x.PlacesNonNil {
			nilPlaces++
		}
	}
	fmt.Fprintf(&b, " nilPlaces=%d\n", nilPlaces)
	fmt.Fprintf(&b, "stacks %d", len(s.Stacks))
	for _, st := range s.Stacks {
		fmt.Fprintf(&b, " [%d:", st.Value)
		for j, i := range st.Srcs {
			if j == 0 && i == 0 {
				b.WriteString(" root")
			} else {
				b.WriteString(" " + desc(i))
			}
		}
		b.WriteString("]")
	}
	b.WriteString("\n")
	line := func(i int) string {
		x := s.Sources[i]
		pl := append([]c17Slot(nil), x.Places...)
		sort.Slice(pl, func(a, c int) bool {
			if pl[a].Stack != pl[c].Stack {
				return pl[a].Stack < pl[c].Stack
			}
			return pl[a].Pos < pl[c].Pos
		})
		return fmt.Sprintf("%s self=%d places=%v", desc(i), x.Self, pl)
	}
	fmt.Fprintf(&b, "sources %d", len(s.Sources))
	if len(s.Sources) > 0 {
		b.WriteString(" root:" + line(0))
		var rest []string
		for i := 1; i < len(s.Sources); i++ {
			rest = append(rest, line(i))
		}
		sort.Strings(rest)
		for _, l := range rest {
			b.WriteString(" " + l)
		}
	}
	return b.String()
}

func c17DiffSection(a, b string) string {
	la, lb := strings.Split(a, "\n"), strings.Split(b, "\n")
	for i := 0; i < len(la) && i < len(lb); i++ {
		if la[i] != lb[i] {
			return c17FirstWord(la[i])
		}
	}
	return "length"
}

func c17FirstWord(s string) string {
	if i := strings.IndexByte(s, ' '); i >= 0 {
		return s[:i]
	}
	return s
}

func c17Trunc(s string) string {
	if len(s) > 300 {
		return s[:300] + "…"
	}
	return s
}

func c17Safely(f func()) (panicked string) {
	defer func() {
		if e := recover(); e != nil {
			panicked = fmt.Sprint(e)
		}
	}()
	f()
	return ""
}

// ---- granularity: the documented meaning of the driver's granularity options ----

type c17AggFlags struct{ none, inlines, function, filename, linenumber, columns, address bool }

func c17GranFlags(gran string, noInlines, showColumns bool) (c17AggFlags, error) {
	f := c17AggFlags{inlines: !noInlines, columns: showColumns}
	switch gran {
	case "raw":
		f.none = true
	case "functions":
		f.function = true
	case "addresses":
		if f.inlines {
			f.none = true
		}
		f.function, f.filename, f.linenumber, f.address = true, true, true, true
	case "lines":
		f.function, f.filename, f.linenumber = true, true, true
	case "files":
		f.filename = true
	case "", "filefunctions": // the flame graph view's default
		f.function, f.filename = true, true
	default:
		return f, fmt.Errorf("unknown granularity %q", gran)
	}
	return f, nil
}

// c17Aggregate: the REAL aggregation step (exported Profile.Aggregate, what the driver calls
// between fetching and report.New); part of the code under test on the direct path.
func c17Aggregate(p *profile.Profile, gran string, noInlines, showColumns bool) error {
	f, err := c17GranFlags(gran, noInlines, showColumns)
	if err != nil || f.none {
		return err
	}
	return p.Aggregate(f.inlines, f.function, f.filename, f.linenumber, f.columns, f.address)
}

// c17Expected: the profile whose frames the stacks must show, computed WITHOUT Profile.Aggregate
// from the meaning of the granularity: every line of every location stays a frame (only
// noinlines keeps the last line alone); a frame keeps its function name iff functions are shown,
// its file name iff files are, its line iff lines are, its column iff lines and columns are.
// Identical to `Spec.aggregate` in Lean (Spec/StacksAggregate.lean), compared on every case.
func c17Expected(p *profile.Profile, f c17AggFlags) *profile.Profile {
	q := p.Copy()
	if f.none {
		return q
	}
	for _, fn := range q.Function {
		if !f.function {
			fn.Name, fn.SystemName = "", ""
		}
		if !f.filename {
			fn.Filename = ""
		}
	}
	for _, l := range q.Location {
		if !f.inlines && len(l.Line) > 1 {
			l.Line = append([]profile.Line(nil), l.Line[len(l.Line)-1])
		}
		for i := range l.Line {
			if !f.linenumber {
				l.Line[i].Line, l.Line[i].Column = 0, 0
			}
			if !f.columns {
				l.Line[i].Column = 0
			}
		}
	}
	return q
}

func c17TypeNamesOf(p *profile.Profile) []string {
	var out []string
	for _, t := range p.SampleType {
		out = append(out, t.Type)
	}
	return out
}

// siText is the value of the si= URL parameter ("" = parameter absent).
func (rq c17Req) siText() string {
	if rq.BySel {
		return rq.Sel
	}
	return strconv.Itoa(rq.SampleIndex)
}

func c17FlagsText(f c17AggFlags) string {
	b := func(x bool) string {
		if x {
			return "1"
		}
		return "0"
	}
	return strings.Join([]string{b(f.none), b(f.inlines), b(f.function), b(f.filename), b(f.linenumber), b(f.columns)}, " ")
}

// c17StackView: the part of a profile Stacks() reads (functions: id name file; locations: id and
// lines; samples: locations and values), in the token form of Driver/Ops/C17.lean `wStackView`.
func c17StackView(p *profile.Profile) string {
	var w tw
	w.n(len(p.Function))
	for _, f := range p.Function {
		w.nat(f.ID)
		w.str(f.Name)
		w.str(f.Filename)
	}
	w.n(len(p.Location))
	for _, l := range p.Location {
		w.nat(l.ID)
		w.n(len(l.Line))
		for _, ln := range l.Line {
			w.nat(ln.Function.ID)
			w.int(ln.Line)
			w.int(ln.Column)
		}
	}
	w.n(len(p.Sample))
	for _, s := range p.Sample {
		w.n(len(s.Location))
		for _, l := range s.Location {
			w.nat(l.ID)
		}
		w.n(len(s.Value))
		for _, v := range s.Value {
			w.int(v)
		}
	}
	return w.String()
}

// c17ChangedParam names the URL parameters in which the checked request differs from some earlier
// request of its sequence.
func c17ChangedParam(cs c17Case) string {
	if len(cs.Before) == 0 {
		return "none"
	}
	b := cs.req()
	set := map[string]bool{}
	for _, a := range cs.Before {
		if a.siText() != b.siText() {
			set["si"] = true
		}
		if a.Gran != b.Gran {
			set["g"] = true
		}
		if a.NoInlines != b.NoInlines {
			set["noinlines"] = true
		}
		if a.ShowColumns != b.ShowColumns {
			set["showcolumns"] = true
		}
		for _, k := range []string{"f", "i", "h", "s", "tf", "ti"} {
			if a.Filters[k] != b.Filters[k] {
				set[k] = true
			}
		}
	}
	if len(set) == 0 {
		return "reload"
	}
	var d []string
	for _, k := range []string{"si", "g", "noinlines", "showcolumns", "f", "i", "h", "s", "tf", "ti"} {
		if set[k] {
			d = append(d, k)
		}
	}
	return strings.Join(d, "+")
}

// Unique lists the unique names (compared between two answers of the same code, never with the model).
func (s *c17Set) Unique() string {
	var b strings.Builder
	for _, x := range s.Sources {
		b.WriteString(strconv.Quote(x.Unique) + " ")
	}
	return b.String()
}

func c17IsASCII(p *profile.Profile) bool {
	for _, f := range p.Function {
		for _, s := range []string{f.Name, f.Filename} {
			for i := 0; i < len(s); i++ {
				if s[i] < 0x20 || s[i] > 0x7e {
					return false
				}
			}
		}
	}
	return true
}

// c17Run executes one case and reports findings.
func c17Run(c *Ctx, cs c17Case) {
	p, err := ParseCanon(cs.Profile)
	if err != nil {
		c.Res.HarnessError = "C17 ParseCanon: " + err.Error()
		return
	}
	// which column is selected
	expIdx, selOK := cs.SampleIndex, cs.SampleIndex >= 0 && cs.SampleIndex < len(p.SampleType)
	if cs.BySel {
		expIdx, selOK = c17SelectIndex(p, cs.Sel)
		want := "err"
		if selOK {
			want = "ok " + strconv.Itoa(expIdx)
		}
		if ls := c.Drv.Ask("stacks.select " + hexTok([]byte(cs.Sel)) + " " + cs.Profile); ls != want {
			c.Disagree("C17/spec-select", fmt.Sprintf("selectIndex(%q) in Lean is %s, the harness oracle says %s", cs.Sel, c17Trunc(ls), want),
				"correspondence Stacks.selectIndex ~ oracle selection rules", cs)
		}
		c.Res.Hit("select-by-name")
	} else if !selOK {
		c.Res.HarnessError = "C17: sample index outside the sample types"
		return
	}
	if !selOK {
		// a text that names no column exactly must be refused, not mapped to some column
		if cs.Mode == "direct" {
			if ri, err := p.Copy().SampleIndexByName(cs.Sel); err == nil {
				c.Violation("C17/select/accepts-unknown-name", fmt.Sprintf("SampleIndexByName(%q) = %d although no sample type has exactly that name (types %+q)", cs.Sel, ri, c17TypeNamesOf(p)), cs)
			}
			c.Res.Count("select-unknown|"+cs.Sel+"|"+cs.Profile, true)
			c.Res.Hit("select-unknown-name")
		}
		return
	}
	cs.SampleIndex = expIdx // from here on: the column the stacks must show
	// the profile whose frames the stacks must show (own reading of the granularity, not Aggregate)
	flags, err := c17GranFlags(cs.Gran, cs.NoInlines, cs.ShowColumns)
	if err != nil {
		c.Res.HarnessError = "C17 granularity: " + err.Error()
		return
	}
	agg := c17Expected(p, flags)
	canonAgg := Canon(agg)
	ascii := c17IsASCII(agg)
	filtered := len(cs.Filters) > 0
	if filtered && cs.Mode != "web" {
		c.Res.HarnessError = "C17: filters only on the web path"
		return
	}
	// Lean's Spec.aggregate must be the reading used here
	if la := c.Drv.Ask("stacks.aggregate " + c17FlagsText(flags) + " " + Canon(p)); la != "ok "+c17StackView(agg) {
		c.Disagree("C17/spec-aggregate", "Spec.aggregate differs from the harness's expected profile: "+c17Trunc(la)+" vs "+c17Trunc(c17StackView(agg)),
			"correspondence Spec.aggregate ~ oracle granularity reading", cs)
	}

	// (1) the real code. It runs with the working directory (and HOME, TMPDIR) the case names: the
	// stack set must not depend on where pprof was started (no -source_path / -trim_path given).
	exec := func(cwdBase, home string) *c17Set {
		restore := c17Chdir(c, cwdBase, home)
		defer restore()
		var real *c17Set
		switch cs.Mode {
		case "direct":
			in := p.Copy() // the driver's order: aggregate (real Profile.Aggregate), then report.New(...).Stacks()
			if err := c17Aggregate(in, cs.Gran, cs.NoInlines, cs.ShowColumns); err != nil {
				c.Violation("C17/aggregate/error", "Profile.Aggregate fails on a valid profile: "+err.Error(), cs)
				return nil
			}
			idx := cs.SampleIndex
			if cs.BySel { // the real selection step of the driver (sampleFormat)
				ri, err := in.SampleIndexByName(cs.Sel)
				if err != nil {
					c.Violation("C17/select/rejects-exact-name", fmt.Sprintf("SampleIndexByName(%q) fails (%v) although column %d has that name (types %q)", cs.Sel, err, idx, c17TypeNamesOf(p)), cs)
					return nil
				}
				if ri != idx {
					c.Violation("C17/select/wrong-column", fmt.Sprintf("SampleIndexByName(%q) = %d, the first column with exactly that name is %d (types %q)", cs.Sel, ri, idx, c17TypeNamesOf(p)), cs)
				}
				if ri < 0 || ri >= len(in.SampleType) {
					return nil
				}
				idx = ri
			}
			opts := &report.Options{
				OutputFormat: report.Dot,
				CallTree:     true,
				SampleType:   in.SampleType[idx].Type,
				SampleUnit:   in.SampleType[idx].Unit,
				SampleValue:  func(v []int64) int64 { return v[idx] },
				TrimPath:     cs.TrimPath,
				SourcePath:   cs.SourcePath,
			}
			var ss report.StackSet
			if pn := c17Safely(func() { ss = report.New(in, opts).Stacks() }); pn != "" {
				c.Violation("C17/panic/Stacks", "report.Stacks() panics on a valid profile: "+pn, cs)
				return nil
			}
			real = c17FromReal(&ss)
			var nils []string
			c17NilWalk(reflect.ValueOf(ss), "StackSet", &nils)
			if len(nils) > 0 {
				c.Violation("C17/nil/"+nils[0], "nil slice/map/pointer in the stack set (JSON null): "+c17Trunc(strings.Join(nils, ", ")), cs)
			}
			// the JSON encoding handed to the page
			b, err := json.Marshal(ss)
			if err != nil {
				c.Violation("C17/json/marshal-error", err.Error(), cs)
				return nil
			}
			js, nulls, err := c17FromJSON(b)
			if err != nil {
				c.Violation("C17/json/undecodable", err.Error(), cs)
				return nil
			}
			if len(nulls) > 0 {
				c.Violation("C17/json/null:"+nulls[0], "the JSON encoding of the stack set contains null at "+strings.Join(nulls, ", "), cs)
			}
			// the JSON carries the same indices as the in-memory value
			if ascii && c17Canon(js, true) != c17Canon(real, true) {
				c.Violation("C17/json/differs-from-stackset", "decoded JSON differs from the StackSet it encodes", cs)
			}
		case "web":
			reqs := append(append([]c17Req(nil), cs.Before...), cs.req())
			pages, werr := c17WebSession(p, reqs, cs.TrimPath, cs.SourcePath)
			if werr != "" {
				c.Violation("C17/web/"+c17FirstWord(werr), "the /flamegraph handler did not serve stack data: "+werr, cs)
				return nil
			}
			b := pages[len(pages)-1]
			js, nulls, err := c17FromJSON(b)
			if err != nil {
				c.Violation("C17/json/undecodable", err.Error(), cs)
				return nil
			}
			if len(nulls) > 0 {
				c.Violation("C17/json/null:"+nulls[0], "the JSON in the /flamegraph page contains null at "+strings.Join(nulls, ", "), cs)
			}
			real = js
			if want := p.SampleType[cs.SampleIndex].Type; js.HasType && js.Type != want && c17PlainASCII(want) {
				c.Violation("C17/select/type-name", fmt.Sprintf("the served stack set says Type %+q, the selected column (si=%+q) is %+q", js.Type, cs.req().siText(), want), cs)
			}
			// the answer must not depend on what the server was asked before: the same request on a
			// fresh server (and, with filters, that is the reference for the stack data itself)
			if len(cs.Before) > 0 || filtered {
				fp, ferr := c17WebSession(p, []c17Req{cs.req()}, cs.TrimPath, cs.SourcePath)
				if ferr != "" {
					c.Violation("C17/web/fresh-"+c17FirstWord(ferr), "fresh server: "+ferr, cs)
					return nil
				}
				fjs, _, err := c17FromJSON(fp[0])
				if err != nil {
					c.Violation("C17/json/undecodable", err.Error(), cs)
					return nil
				}
				if a, b := c17Canon(js, true), c17Canon(fjs, true); a != b || js.Unique() != fjs.Unique() {
					c.Violation("C17/web/answer-depends-on-earlier-request/"+c17ChangedParam(cs),
						fmt.Sprintf("after %d earlier request(s) on the same server /flamegraph serves different stack data than a fresh server: %s vs fresh %s", len(cs.Before), c17Trunc(a), c17Trunc(b)), cs)
				}
				c.Res.Hit("web-sequence")
			}
		default:
			c.Res.HarnessError = "C17: unknown mode " + cs.Mode
			return nil
		}
		return real
	}
	real := exec(cs.CwdBase, "home-a")
	if real == nil {
		return
	}
	if cs.AltCwdBase != "" {
		alt := exec(cs.AltCwdBase, "home-b")
		if alt == nil {
			return
		}
		if a, b := c17Canon(real, ascii), c17Canon(alt, ascii); a != b || real.Unique() != alt.Unique() {
			c.Violation("C17/env/depends-on-working-directory/"+c17DiffSection(a, b),
				fmt.Sprintf("started in a directory named %q the stack set is %s; started in %q it is %s", cs.CwdBase, c17Trunc(a), cs.AltCwdBase, c17Trunc(b)), cs)
		}
		c.Res.Hit("env-two-working-directories")
	}

	// (2) direct oracle on the real stack set
	if filtered {
		// which samples/frames survive a filter is C06/C11's business: here only the index structure
		c17Oracle(c, cs, real, nil, false)
		c.Res.Count("web-filtered|"+fmt.Sprint(cs.Filters)+"|"+canonAgg, len(cs.Before) > 0)
		c.Res.Hit("mode:web-filtered")
		return
	}
	frames := c17Frames(agg, cs.SampleIndex)
	ok := c17Oracle(c, cs, real, frames, true)

	// the Spec's reading of "the sample's frames" must be the one the oracle used
	sf := c.Drv.Ask("stacks.frames " + strconv.Itoa(cs.SampleIndex) + " " + canonAgg)
	if want := c17FramesText(frames); sf != want {
		c.Disagree("C17/spec-frames", "Spec.sampleFrames differs from the harness oracle's frames: "+c17Trunc(sf)+" vs "+c17Trunc(want),
			"correspondence Spec.sampleFrames ~ oracle frames", cs)
	}

	// (3) correspondence with the Lean model
	c.Res.ModelCompared++
	optTok := hexTok([]byte(cs.TrimPath)) + " " + hexTok([]byte(cs.SourcePath)) + " "
	ask := "stacks.model " + optTok + strconv.Itoa(cs.SampleIndex) + " " + canonAgg
	if cs.BySel { // the model selects by name itself (exact equality)
		ask = "stacks.modelsel " + optTok + hexTok([]byte(cs.Sel)) + " " + canonAgg
	}
	// Lean's trimPath must be the documented reading the oracle used
	seenFile := map[string]bool{}
	for _, f := range agg.Function {
		if !seenFile[f.Filename] {
			seenFile[f.Filename] = true
			want := "ok " + hexTok([]byte(c17Trim(f.Filename, cs.TrimPath, cs.SourcePath)))
			if lt := c.Drv.Ask("stacks.trimpath " + optTok + hexTok([]byte(f.Filename))); lt != want {
				c.Disagree("C17/spec-trimpath", fmt.Sprintf("trimPath(%+q, trim_path=%+q, source_path=%+q): Lean %s, harness oracle %s", f.Filename, cs.TrimPath, cs.SourcePath, c17Trunc(lt), c17Trunc(want)),
					"correspondence Stacks.trimPath ~ oracle reading of -trim_path/-source_path", cs)
			}
		}
	}
	reply := c.Drv.Ask(ask)
	model, merr := c17FromModel(reply)
	if merr != nil {
		if ok {
			c.Disagree("C17/model/"+c17FirstWord(reply), "model does not yield a stack set: "+c17Trunc(reply), "theorem stacks_never_panic / correspondence Stacks.stacks ~ report.Stacks", cs)
		}
		return
	}
	cm, cr := c17Canon(model, ascii), c17Canon(real, ascii)
	if cm != cr {
		if ok {
			c.Disagree("C17/model/"+c17DiffSection(cr, cm), "real stack set differs from the model's: "+c17Trunc(cr)+" vs model "+c17Trunc(cm),
				"correspondence Stacks.stacks ~ report.(*Report).Stacks", cs)
		}
	} else {
		c.Res.Hit("model-agrees")
	}
	// unique names: compared exactly with the model (the code as it is) whenever the sources were
	// interned in the model's order (which source of a homonym group keeps the plain name depends on it)
	un, sameOrder := true, len(model.Sources) == len(real.Sources) && len(model.Stacks) == len(real.Stacks)
	if sameOrder { // same interning order: every stack has the same index list
		for i := range model.Stacks {
			if fmt.Sprint(model.Stacks[i].Srcs) != fmt.Sprint(real.Stacks[i].Srcs) {
				sameOrder = false
			}
		}
	}
	if sameOrder {
		for i := range model.Sources {
			a, b := model.Sources[i], real.Sources[i]
			if a.Full != b.Full || a.File != b.File || a.Inlined != b.Inlined {
				sameOrder = false
			}
			if i > 0 && ascii && a.Unique != b.Unique {
				un = false
			}
		}
	}
	// (no alarm on a difference: with the same order the only freedom left by the oracle — one plain
	// name per full name, FullName#<id of a function the source stands for> otherwise — is WHICH of
	// several function ids of one source is printed, i.e. which frame created the source)
	if sameOrder && !un {
		c.Res.Hit("info:unique-name-id-choice-differs-from-model")
	}
	if un {
		c.Res.Hit("info:unique-names-agree")
	} else {
		c.Res.Hit("info:unique-names-differ")
	}

	// informational only: UniqueName is documented as disambiguating, the property does not promise it
	uq := map[string]bool{}
	for i, x := range real.Sources {
		if i > 0 && uq[x.Unique] {
			c.Res.Hit("info:unique-name-shared-by-two-sources")
			break
		}
		uq[x.Unique] = true
	}

	// distribution / non-triviality
	slots, recursive, inl, empty := 0, false, false, 0
	for _, st := range real.Stacks {
		seen := map[int]bool{}
		for _, i := range st.Srcs {
			if seen[i] {
				recursive = true
			}
			seen[i] = true
		}
		slots += len(st.Srcs)
		if len(st.Srcs) <= 1 {
			empty++
		}
	}
	for _, s := range real.Sources {
		if s.Inlined {
			inl = true
		}
	}
	shared := slots-len(real.Stacks) > len(real.Sources)-1 // some getSrc call found its key
	names := map[string]map[string]bool{}
	sameName := false
	for _, f := range agg.Function {
		if names[f.Name] == nil {
			names[f.Name] = map[string]bool{}
		}
		names[f.Name][f.Filename] = true
		if len(names[f.Name]) > 1 {
			sameName = true
		}
	}
	c.Res.Count(cs.Mode+"|"+cs.Gran+"|"+strconv.Itoa(cs.SampleIndex)+"|"+canonAgg, shared)
	c.Res.Hit("mode:" + cs.Mode)
	c.Res.Hit("gran:" + cs.Gran)
	if cs.TrimPath != "" || cs.SourcePath != "" {
		c.Res.Hit("with-trim_path/source_path")
	}
	if recursive {
		c.Res.Hit("recursive-stack")
	}
	if inl {
		c.Res.Hit("inlined-source")
	}
	if empty > 0 {
		c.Res.Hit("empty-stack")
	}
	if sameName {
		c.Res.Hit("same-name-different-file")
	}
	if shared {
		c.Res.Hit("interning-hit")
	}
	maxName := 0
	for _, f := range agg.Function {
		if len(f.Name) > maxName {
			maxName = len(f.Name)
		}
		if len(f.Filename) > maxName {
			maxName = len(f.Filename)
		}
	}
	switch {
	case maxName >= 65536:
		c.Res.Hit("name-len>=65536")
	case maxName > 1024:
		c.Res.Hit("name-len>1024")
	case maxName >= 1023:
		c.Res.Hit("name-len1023-1024")
	}
	if len(real.Stacks) == 0 {
		c.Res.Hit("no-samples")
	}
	if len(p.SampleType) > 1 {
		c.Res.Hit("several-sample-types")
	}
	switch n := len(real.Sources); {
	case n <= 2:
		c.Res.Hit("sources<=2")
	case n <= 8:
		c.Res.Hit("sources3-8")
	default:
		c.Res.Hit("sources>8")
	}
	c.Res.Sample(map[string]any{"mode": cs.Mode, "granularity": cs.Gran, "stacks": len(real.Stacks), "sources": len(real.Sources), "recursive": recursive})
}

func runC17(c *Ctx) {
	defer os.RemoveAll(filepath.Join(c.Dir, fmt.Sprintf(".cwd-%d", os.Getpid())))
	c.Res.Rule = "direct: structured valid profiles (small name/location alphabets so that recursion, inlined lines, " +
		"equal names in different files, locations without lines and empty stacks are frequent; 1–3 sample types, every " +
		"sample index; negative/zero values; names \"\" and non-UTF-8 on a separate share; in 8% of the cases function/file " +
		"names of boundary lengths 0/1/1023..1026/2048/4096/65536 in seven separator shapes) aggregated with the exported " +
		"Profile.Aggregate per granularity (raw, functions, filefunctions, files, lines, addresses ± noinlines ± columns), " +
		"then report.New(p, opts).Stacks(); plus hand-built shapes (a a a, a b a b, inlined+non-inlined same function, " +
		"no samples, only empty stacks). web: ASCII profiles through driver.PProf(-http) with the HTTPServer hook, GET " +
		"/flamegraph?si=&g=&noinlines=, JSON taken from the page; webseq: the same on profiles with >=2 sample types and labels, after 1-2 " +
		"earlier requests on the SAME server that differ in one URL parameter (si, g, noinlines, showcolumns, f, i, h, s, tf, ti, reload), " +
		"answer compared with oracle/model for this request and with a fresh server. In 45% of all cases the sample-type names are adversarial " +
		"(case-fold families, numbers, inuse_/alloc_ relations, spaces, empty, duplicates) and the column is selected by index or BY NAME. In 12% of the direct and web cases the real code runs from a scratch directory whose basename is a component of the file names, and again " +
		"from an unrelated one with other HOME/TMPDIR: identical stack sets required. 22% of the direct and web cases run with -trim_path/-source_path values (prefixes of some files, base names occurring in other paths, relative, lists); " +
		"30% use homonym functions (same name and line in different files; same name+file, different ids). Expected frames come from the harness's own reading " +
		"of the granularity (= Lean Spec.aggregate), never from Profile.Aggregate; 25% of locations repeat a function in their inline chain. Non-trivial: at least one getSrc call finds an " +
		"already interned source (slots > distinct sources), i.e. the interning table and the place index are shared " +
		"between stack slots; recursion (a source twice in one stack) is measured separately."
	if c.Replay != "" {
		var cs c17Case
		if err := c.LoadReplay(&cs); err != nil {
			c.Res.HarnessError = "C17 replay: " + err.Error()
			return
		}
		c17Run(c, cs)
		return
	}
	cfgDir := filepath.Join(c.Dir, fmt.Sprintf(".cfg-%d", os.Getpid()))
	os.MkdirAll(cfgDir, 0o755)
	os.Setenv("XDG_CONFIG_HOME", cfgDir) // the web UI reads (never writes here) settings.json
	defer os.RemoveAll(cfgDir)

	r := NewRng(c.Seed)
	if os.Getenv("C17_NO_SHAPES") == "" { // self-test of the generators alone: C17_NO_SHAPES=1 and an empty -corpus
		for _, cs := range c17Shapes() {
			c17Run(c, cs)
		}
	}
	nDirect, nWeb, nSeq := 9000*c.Scale, 600*c.Scale, 400*c.Scale
	for i := 0; i < nDirect; i++ {
		c17Run(c, c17Gen(r.Fork(), "direct", i))
	}
	for i := 0; i < nWeb; i++ {
		c17Run(c, c17Gen(r.Fork(), "web", i))
	}
	for i := 0; i < nSeq; i++ {
		c17Run(c, c17Gen(r.Fork(), "webseq", i))
	}
}
