//go:build verif

package main

// C17 — flame-graph stack data is a faithful, self-consistent index of samples.
//
// Every case: (1) run the real code — report.New(prof, opts).Stacks() in-process ("direct"), or the
// /flamegraph handler of the web UI obtained through the HTTPServer plug-in hook of driver.PProf
// ("web") — under recover; (2) direct oracle: the statements of the property evaluated on the real
// StackSet (c17_oracle.go); (3) correspondence with the Lean model `PV.Stacks.stacks` through
// pvdrv-C17 (canonical, attribute based text; indices are erased except the promised root = 0).

import (
	"encoding/json"
	"fmt"
	"os"
	"path/filepath"
	"reflect"
	"sort"
	"strconv"
	"strings"

	"github.com/google/pprof/internal/report"
	"github.com/google/pprof/profile"
)

func init() { register("C17", runC17) }

type c17Case struct {
	Mode        string `json:"mode"`         // "direct" | "web"
	Profile     string `json:"profile"`      // canonical token form (harness/canon.go)
	SampleIndex int    `json:"sample_index"` // selected sample value
	Gran        string `json:"granularity"`  // "raw" (direct only: no aggregation), "", functions, filefunctions, files, lines, addresses
	NoInlines   bool   `json:"noinlines,omitempty"`
	ShowColumns bool   `json:"showcolumns,omitempty"`
}

// ---- raw (index based) stack set, common to the real code, its JSON and the model ----

type c17Slot struct{ Stack, Pos int }
type c17Stack struct {
	Value  int64
	NonNil bool
	Srcs   []int
}
type c17Source struct {
	Full, File, Unique string
	Inlined            bool
	Self               int64
	PlacesNonNil       bool
	Places             []c17Slot
	DisplayOK          bool // non-nil and non-empty
}
type c17Set struct {
	Total         int64
	StacksNonNil  bool
	SourcesNonNil bool
	Stacks        []c17Stack
	Sources       []c17Source
}

func c17FromReal(ss *report.StackSet) *c17Set {
	out := &c17Set{Total: ss.Total, StacksNonNil: ss.Stacks != nil, SourcesNonNil: ss.Sources != nil}
	for _, st := range ss.Stacks {
		out.Stacks = append(out.Stacks, c17Stack{Value: st.Value, NonNil: st.Sources != nil, Srcs: append([]int(nil), st.Sources...)})
	}
	for _, s := range ss.Sources {
		x := c17Source{Full: s.FullName, File: s.FileName, Unique: s.UniqueName, Inlined: s.Inlined, Self: s.Self,
			PlacesNonNil: s.Places != nil, DisplayOK: len(s.Display) > 0}
		for _, pl := range s.Places {
			x.Places = append(x.Places, c17Slot{pl.Stack, pl.Pos})
		}
		out.Sources = append(out.Sources, x)
	}
	return out
}

// c17JSONNulls returns the paths of JSON nulls (what the client would dereference as a missing
// element) in an encoded StackSet.
func c17JSONNulls(v any, path string, out *[]string) {
	switch t := v.(type) {
	case nil:
		*out = append(*out, path)
	case map[string]any:
		ks := make([]string, 0, len(t))
		for k := range t {
			ks = append(ks, k)
		}
		sort.Strings(ks)
		for _, k := range ks {
			c17JSONNulls(t[k], path+"."+k, out)
		}
	case []any:
		for _, e := range t {
			c17JSONNulls(e, path+"[]", out)
		}
	}
}

// c17JSONShape walks the decoded JSON along the Go type it encodes (every exported field of
// report.StackSet and of the types it contains, found by reflection — fields added later are
// covered without touching this file): wherever the type has a slice, map or struct the JSON must
// have an array / object — not null, not a missing key (omitempty), not another kind.
func c17JSONShape(v any, t reflect.Type, path string, out *[]string) {
	switch t.Kind() {
	case reflect.Slice, reflect.Array:
		if t.Elem().Kind() == reflect.Uint8 {
			return // []byte is a base64 string
		}
		arr, ok := v.([]any)
		if !ok {
			*out = append(*out, fmt.Sprintf("%s:%s-for-array", path, c17JSONKind(v)))
			return
		}
		for _, e := range arr {
			c17JSONShape(e, t.Elem(), path+"[]", out)
		}
	case reflect.Map:
		m, ok := v.(map[string]any)
		if !ok {
			*out = append(*out, fmt.Sprintf("%s:%s-for-object", path, c17JSONKind(v)))
			return
		}
		for _, k := range sortedKeys(m) {
			c17JSONShape(m[k], t.Elem(), path+"{}", out)
		}
	case reflect.Ptr:
		if v == nil {
			*out = append(*out, path+":null-for-pointer")
			return
		}
		c17JSONShape(v, t.Elem(), path, out)
	case reflect.Struct:
		m, ok := v.(map[string]any)
		if !ok {
			*out = append(*out, fmt.Sprintf("%s:%s-for-object", path, c17JSONKind(v)))
			return
		}
		for i := 0; i < t.NumField(); i++ {
			f := t.Field(i)
			if f.PkgPath != "" { // unexported: not encoded
				continue
			}
			name := f.Name
			if tag := strings.Split(f.Tag.Get("json"), ",")[0]; tag == "-" {
				continue
			} else if tag != "" {
				name = tag
			}
			switch f.Type.Kind() {
			case reflect.Slice, reflect.Array, reflect.Map, reflect.Struct, reflect.Ptr:
				fv, present := m[name]
				if !present {
					*out = append(*out, path+"."+name+":missing")
					continue
				}
				c17JSONShape(fv, f.Type, path+"."+name, out)
			}
		}
	}
}

func c17JSONKind(v any) string {
	switch v.(type) {
	case nil:
		return "null"
	case []any:
		return "array"
	case map[string]any:
		return "object"
	case string:
		return "string"
	default:
		return "scalar"
	}
}

// c17NilWalk: the same walk on the in-memory value — nil slices, maps and pointers in exported
// fields (what encoding/json prints as null).
func c17NilWalk(v reflect.Value, path string, out *[]string) {
	switch v.Kind() {
	case reflect.Slice, reflect.Map, reflect.Ptr, reflect.Interface:
		if v.IsNil() {
			*out = append(*out, path)
			return
		}
	}
	switch v.Kind() {
	case reflect.Slice, reflect.Array:
		for i := 0; i < v.Len(); i++ {
			c17NilWalk(v.Index(i), path+"[]", out)
		}
	case reflect.Ptr, reflect.Interface:
		c17NilWalk(v.Elem(), path, out)
	case reflect.Map:
		it := v.MapRange()
		for it.Next() {
			c17NilWalk(it.Value(), path+"{}", out)
		}
	case reflect.Struct:
		for i := 0; i < v.NumField(); i++ {
			if f := v.Type().Field(i); f.PkgPath == "" {
				c17NilWalk(v.Field(i), path+"."+f.Name, out)
			}
		}
	}
}

type c17JSONSet struct {
	Total   int64
	Type    string
	Unit    string
	Stacks  *[]struct {
		Value   int64
		Sources *[]int
	}
	Sources *[]struct {
		FullName   string
		FileName   string
		UniqueName string
		Inlined    bool
		Display    *[]string
		Places     *[]struct{ Stack, Pos int }
		Self       int64
	}
}

// c17FromJSON decodes the JSON text handed to the page.
func c17FromJSON(b []byte) (*c17Set, []string, error) {
	var generic any
	if err := json.Unmarshal(b, &generic); err != nil {
		return nil, nil, err
	}
	var nulls []string
	c17JSONNulls(generic, "$", &nulls)
	var shape []string
	c17JSONShape(generic, reflect.TypeOf(report.StackSet{}), "$", &shape)
	for _, sh := range shape {
		if !strings.HasSuffix(sh, ":null-for-array") && !strings.HasSuffix(sh, ":null-for-object") && !strings.HasSuffix(sh, ":null-for-pointer") {
			nulls = append(nulls, sh) // nulls are already listed by the untyped walk
		}
	}
	var js c17JSONSet
	if err := json.Unmarshal(b, &js); err != nil {
		return nil, nulls, err
	}
	out := &c17Set{Total: js.Total, StacksNonNil: js.Stacks != nil, SourcesNonNil: js.Sources != nil}
	if js.Stacks != nil {
		for _, st := range *js.Stacks {
			x := c17Stack{Value: st.Value, NonNil: st.Sources != nil}
			if st.Sources != nil {
				x.Srcs = *st.Sources
			}
			out.Stacks = append(out.Stacks, x)
		}
	}
	if js.Sources != nil {
		for _, s := range *js.Sources {
			x := c17Source{Full: s.FullName, File: s.FileName, Unique: s.UniqueName, Inlined: s.Inlined, Self: s.Self,
				PlacesNonNil: s.Places != nil, DisplayOK: s.Display != nil && len(*s.Display) > 0}
			if s.Places != nil {
				for _, pl := range *s.Places {
					x.Places = append(x.Places, c17Slot{pl.Stack, pl.Pos})
				}
			}
			out.Sources = append(out.Sources, x)
		}
	}
	return out, nulls, nil
}

// c17FromModel parses the reply of `stacks.model` (Driver/Ops/C17.lean: wStackSet).
func c17FromModel(reply string) (*c17Set, error) {
	if !strings.HasPrefix(reply, "ok ") {
		return nil, fmt.Errorf("model: %s", c17Trunc(reply))
	}
	r := newTR(reply[3:])
	out := &c17Set{}
	out.Total = r.int()
	out.StacksNonNil = r.bool()
	for i, n := 0, r.n(); i < n && r.err == nil; i++ {
		st := c17Stack{Value: r.int(), NonNil: r.bool()}
		for j, m := 0, r.n(); j < m && r.err == nil; j++ {
			st.Srcs = append(st.Srcs, r.n())
		}
		out.Stacks = append(out.Stacks, st)
	}
	out.SourcesNonNil = r.bool()
	for i, n := 0, r.n(); i < n && r.err == nil; i++ {
		s := c17Source{Full: r.str(), File: r.str(), Unique: r.str(), Inlined: r.bool(), Self: r.int(), PlacesNonNil: r.bool(), DisplayOK: true}
		for j, m := 0, r.n(); j < m && r.err == nil; j++ {
			s.Places = append(s.Places, c17Slot{r.n(), r.n()})
		}
		out.Sources = append(out.Sources, s)
	}
	if r.err != nil {
		return nil, r.err
	}
	if r.pos != len(r.toks) {
		return nil, fmt.Errorf("trailing tokens in model reply")
	}
	return out, nil
}

// c17Canon: the property-level canonical text. Source identities appear by their attributes
// (full name, file name, inlined flag), never by index, except the promised root at index 0;
// sources other than the root are listed as a sorted multiset; place lists are sorted.
// UniqueName is left out (which of two equal names keeps the plain one is not promised).
// Sections are separated by '\n' so that the first differing section names the signature.
func c17Canon(s *c17Set, ascii bool) string {
	q := func(x string) string {
		if ascii {
			return strconv.Quote(x)
		}
		return fmt.Sprintf("%x", x)
	}
	desc := func(i int) string {
		if i < 0 || i >= len(s.Sources) {
			return fmt.Sprintf("<out-of-range %d>", i)
		}
		x := s.Sources[i]
		return fmt.Sprintf("(%s %s %v)", q(x.Full), q(x.File), x.Inlined)
	}
	var b strings.Builder
	fmt.Fprintf(&b, "total %d\n", s.Total)
	fmt.Fprintf(&b, "nonnil stacks=%v sources=%v", s.StacksNonNil, s.SourcesNonNil)
	for i, st := range s.Stacks {
		if !st.NonNil {
			fmt.Fprintf(&b, " stack%d.Sources=nil", i)
		}
	}
	nilPlaces := 0
	for _, x := range s.Sources {
		if !x.PlacesNonNil {
			nilPlaces++
		}
	}
	fmt.Fprintf(&b, " nilPlaces=%d\n", nilPlaces)
	fmt.Fprintf(&b, "stacks %d", len(s.Stacks))
	for _, st := range s.Stacks {
		fmt.Fprintf(&b, " [%d:", st.Value)
		for j, i := range st.Srcs {
			if j == 0 && i == 0 {
				b.WriteString(" root")
			} else {
				b.WriteString(" " + desc(i))
			}
		}
		b.WriteString("]")
	}
	b.WriteString("\n")
	line := func(i int) string {
		x := s.Sources[i]
		pl := append([]c17Slot(nil), x.Places...)
		sort.Slice(pl, func(a, c int) bool {
			if pl[a].Stack != pl[c].Stack {
				return pl[a].Stack < pl[c].Stack
			}
			return pl[a].Pos < pl[c].Pos
		})
		return fmt.Sprintf("%s self=%d places=%v", desc(i), x.Self, pl)
	}
	fmt.Fprintf(&b, "sources %d", len(s.Sources))
	if len(s.Sources) > 0 {
		b.WriteString(" root:" + line(0))
		var rest []string
		for i := 1; i < len(s.Sources); i++ {
			rest = append(rest, line(i))
		}
		sort.Strings(rest)
		for _, l := range rest {
			b.WriteString(" " + l)
		}
	}
	return b.String()
}

func c17DiffSection(a, b string) string {
	la, lb := strings.Split(a, "\n"), strings.Split(b, "\n")
	for i := 0; i < len(la) && i < len(lb); i++ {
		if la[i] != lb[i] {
			return c17FirstWord(la[i])
		}
	}
	return "length"
}

func c17FirstWord(s string) string {
	if i := strings.IndexByte(s, ' '); i >= 0 {
		return s[:i]
	}
	return s
}

func c17Trunc(s string) string {
	if len(s) > 300 {
		return s[:300] + "…"
	}
	return s
}

func c17Safely(f func()) (panicked string) {
	defer func() {
		if e := recover(); e != nil {
			panicked = fmt.Sprint(e)
		}
	}()
	f()
	return ""
}

// ---- granularity: the documented meaning of the driver's granularity options, applied with the
// exported Profile.Aggregate (the direct path has no driver in front of report.New) ----

func c17Aggregate(p *profile.Profile, gran string, noInlines, showColumns bool) error {
	var function, filename, linenumber, address bool
	inlines := !noInlines
	switch gran {
	case "raw":
		return nil
	case "functions":
		function = true
	case "addresses":
		if inlines {
			return nil
		}
		function, filename, linenumber, address = true, true, true, true
	case "lines":
		function, filename, linenumber = true, true, true
	case "files":
		filename = true
	case "", "filefunctions": // the flame graph view's default
		function, filename = true, true
	default:
		return fmt.Errorf("unknown granularity %q", gran)
	}
	return p.Aggregate(inlines, function, filename, linenumber, showColumns, address)
}

func c17IsASCII(p *profile.Profile) bool {
	for _, f := range p.Function {
		for _, s := range []string{f.Name, f.Filename} {
			for i := 0; i < len(s); i++ {
				if s[i] < 0x20 || s[i] > 0x7e {
					return false
				}
			}
		}
	}
	return true
}

// c17Run executes one case and reports findings.
func c17Run(c *Ctx, cs c17Case) {
	p, err := ParseCanon(cs.Profile)
	if err != nil {
		c.Res.HarnessError = "C17 ParseCanon: " + err.Error()
		return
	}
	if cs.SampleIndex < 0 || cs.SampleIndex >= len(p.SampleType) {
		c.Res.HarnessError = "C17: sample index outside the sample types"
		return
	}
	// the profile as Stacks() will see it
	agg := p.Copy()
	if err := c17Aggregate(agg, cs.Gran, cs.NoInlines, cs.ShowColumns); err != nil {
		c.Res.HarnessError = "C17 Aggregate: " + err.Error()
		return
	}
	canonAgg := Canon(agg)
	ascii := c17IsASCII(agg)

	var real *c17Set
	switch cs.Mode {
	case "direct":
		in := agg.Copy() // Stacks() gets its own copy; it must not need to modify it
		idx := cs.SampleIndex
		opts := &report.Options{
			OutputFormat: report.Dot,
			CallTree:     true,
			SampleType:   in.SampleType[idx].Type,
			SampleUnit:   in.SampleType[idx].Unit,
			SampleValue:  func(v []int64) int64 { return v[idx] },
		}
		var ss report.StackSet
		if pn := c17Safely(func() { ss = report.New(in, opts).Stacks() }); pn != "" {
			c.Violation("C17/panic/Stacks", "report.Stacks() panics on a valid profile: "+pn, cs)
			return
		}
		real = c17FromReal(&ss)
		var nils []string
		c17NilWalk(reflect.ValueOf(ss), "StackSet", &nils)
		if len(nils) > 0 {
			c.Violation("C17/nil/"+nils[0], "nil slice/map/pointer in the stack set (JSON null): "+c17Trunc(strings.Join(nils, ", ")), cs)
		}
		// the JSON encoding handed to the page
		b, err := json.Marshal(ss)
		if err != nil {
			c.Violation("C17/json/marshal-error", err.Error(), cs)
			return
		}
		js, nulls, err := c17FromJSON(b)
		if err != nil {
			c.Violation("C17/json/undecodable", err.Error(), cs)
			return
		}
		if len(nulls) > 0 {
			c.Violation("C17/json/null:"+nulls[0], "the JSON encoding of the stack set contains null at "+strings.Join(nulls, ", "), cs)
		}
		// the JSON carries the same indices as the in-memory value
		if ascii && c17Canon(js, true) != c17Canon(real, true) {
			c.Violation("C17/json/differs-from-stackset", "decoded JSON differs from the StackSet it encodes", cs)
		}
	case "web":
		b, werr := c17Web(c, p, cs)
		if werr != "" {
			c.Violation("C17/web/"+c17FirstWord(werr), "the /flamegraph handler did not serve stack data: "+werr, cs)
			return
		}
		js, nulls, err := c17FromJSON(b)
		if err != nil {
			c.Violation("C17/json/undecodable", err.Error(), cs)
			return
		}
		if len(nulls) > 0 {
			c.Violation("C17/json/null:"+nulls[0], "the JSON in the /flamegraph page contains null at "+strings.Join(nulls, ", "), cs)
		}
		real = js
	default:
		c.Res.HarnessError = "C17: unknown mode " + cs.Mode
		return
	}

	// (2) direct oracle on the real stack set
	frames := c17Frames(agg, cs.SampleIndex)
	ok := c17Oracle(c, cs, real, frames)

	// the Spec's reading of "the sample's frames" must be the one the oracle used
	sf := c.Drv.Ask("stacks.frames " + strconv.Itoa(cs.SampleIndex) + " " + canonAgg)
	if want := c17FramesText(frames); sf != want {
		c.Disagree("C17/spec-frames", "Spec.sampleFrames differs from the harness oracle's frames: "+c17Trunc(sf)+" vs "+c17Trunc(want),
			"correspondence Spec.sampleFrames ~ oracle frames", cs)
	}

	// (3) correspondence with the Lean model
	c.Res.ModelCompared++
	reply := c.Drv.Ask("stacks.model " + strconv.Itoa(cs.SampleIndex) + " " + canonAgg)
	model, merr := c17FromModel(reply)
	if merr != nil {
		if ok {
			c.Disagree("C17/model/"+c17FirstWord(reply), "model does not yield a stack set: "+c17Trunc(reply), "theorem stacks_never_panic / correspondence Stacks.stacks ~ report.Stacks", cs)
		}
		return
	}
	cm, cr := c17Canon(model, ascii), c17Canon(real, ascii)
	if cm != cr {
		if ok {
			c.Disagree("C17/model/"+c17DiffSection(cr, cm), "real stack set differs from the model's: "+c17Trunc(cr)+" vs model "+c17Trunc(cm),
				"correspondence Stacks.stacks ~ report.(*Report).Stacks", cs)
		}
	} else {
		c.Res.Hit("model-agrees")
	}
	// informational only: unique names are not promised by the property
	un := true
	if len(model.Sources) == len(real.Sources) {
		for i := range model.Sources {
			if i > 0 && ascii && model.Sources[i].Unique != real.Sources[i].Unique {
				un = false
			}
		}
	}
	if un {
		c.Res.Hit("info:unique-names-agree")
	} else {
		c.Res.Hit("info:unique-names-differ")
	}

	// informational only: UniqueName is documented as disambiguating, the property does not promise it
	uq := map[string]bool{}
	for i, x := range real.Sources {
		if i > 0 && uq[x.Unique] {
			c.Res.Hit("info:unique-name-shared-by-two-sources")
			break
		}
		uq[x.Unique] = true
	}

	// distribution / non-triviality
	slots, recursive, inl, empty := 0, false, false, 0
	for _, st := range real.Stacks {
		seen := map[int]bool{}
		for _, i := range st.Srcs {
			if seen[i] {
				recursive = true
			}
			seen[i] = true
		}
		slots += len(st.Srcs)
		if len(st.Srcs) <= 1 {
			empty++
		}
	}
	for _, s := range real.Sources {
		if s.Inlined {
			inl = true
		}
	}
	shared := slots-len(real.Stacks) > len(real.Sources)-1 // some getSrc call found its key
	names := map[string]map[string]bool{}
	sameName := false
	for _, f := range agg.Function {
		if names[f.Name] == nil {
			names[f.Name] = map[string]bool{}
		}
		names[f.Name][f.Filename] = true
		if len(names[f.Name]) > 1 {
			sameName = true
		}
	}
	c.Res.Count(cs.Mode+"|"+cs.Gran+"|"+strconv.Itoa(cs.SampleIndex)+"|"+canonAgg, shared)
	c.Res.Hit("mode:" + cs.Mode)
	c.Res.Hit("gran:" + cs.Gran)
	if recursive {
		c.Res.Hit("recursive-stack")
	}
	if inl {
		c.Res.Hit("inlined-source")
	}
	if empty > 0 {
		c.Res.Hit("empty-stack")
	}
	if sameName {
		c.Res.Hit("same-name-different-file")
	}
	if shared {
		c.Res.Hit("interning-hit")
	}
	maxName := 0
	for _, f := range agg.Function {
		if len(f.Name) > maxName {
			maxName = len(f.Name)
		}
		if len(f.Filename) > maxName {
			maxName = len(f.Filename)
		}
	}
	switch {
	case maxName >= 65536:
		c.Res.Hit("name-len>=65536")
	case maxName > 1024:
		c.Res.Hit("name-len>1024")
	case maxName >= 1023:
		c.Res.Hit("name-len1023-1024")
	}
	if len(real.Stacks) == 0 {
		c.Res.Hit("no-samples")
	}
	if len(p.SampleType) > 1 {
		c.Res.Hit("several-sample-types")
	}
	switch n := len(real.Sources); {
	case n <= 2:
		c.Res.Hit("sources<=2")
	case n <= 8:
		c.Res.Hit("sources3-8")
	default:
		c.Res.Hit("sources>8")
	}
	c.Res.Sample(map[string]any{"mode": cs.Mode, "granularity": cs.Gran, "stacks": len(real.Stacks), "sources": len(real.Sources), "recursive": recursive})
}

func runC17(c *Ctx) {
	c.Res.Rule = "direct: structured valid profiles (small name/location alphabets so that recursion, inlined lines, " +
		"equal names in different files, locations without lines and empty stacks are frequent; 1–3 sample types, every " +
		"sample index; negative/zero values; names \"\" and non-UTF-8 on a separate share; in 8% of the cases function/file " +
		"names of boundary lengths 0/1/1023..1026/2048/4096/65536 in seven separator shapes) aggregated with the exported " +
		"Profile.Aggregate per granularity (raw, functions, filefunctions, files, lines, addresses ± noinlines ± columns), " +
		"then report.New(p, opts).Stacks(); plus hand-built shapes (a a a, a b a b, inlined+non-inlined same function, " +
		"no samples, only empty stacks). web: ASCII profiles through driver.PProf(-http) with the HTTPServer hook, GET " +
		"/flamegraph?si=&g=&noinlines=, JSON taken from the page. Non-trivial: at least one getSrc call finds an " +
		"already interned source (slots > distinct sources), i.e. the interning table and the place index are shared " +
		"between stack slots; recursion (a source twice in one stack) is measured separately."
	if c.Replay != "" {
		var cs c17Case
		if err := c.LoadReplay(&cs); err != nil {
			c.Res.HarnessError = "C17 replay: " + err.Error()
			return
		}
		c17Run(c, cs)
		return
	}
	cfgDir := filepath.Join(c.Dir, fmt.Sprintf(".cfg-%d", os.Getpid()))
	os.MkdirAll(cfgDir, 0o755)
	os.Setenv("XDG_CONFIG_HOME", cfgDir) // the web UI reads (never writes here) settings.json
	defer os.RemoveAll(cfgDir)

	r := NewRng(c.Seed)
	if os.Getenv("C17_NO_SHAPES") == "" { // self-test of the generators alone: C17_NO_SHAPES=1 and an empty -corpus
		for _, cs := range c17Shapes() {
			c17Run(c, cs)
		}
	}
	nDirect, nWeb := 9000*c.Scale, 900*c.Scale
	for i := 0; i < nDirect; i++ {
		c17Run(c, c17Gen(r.Fork(), "direct", i))
	}
	for i := 0; i < nWeb; i++ {
		c17Run(c, c17Gen(r.Fork(), "web", i))
	}
}
