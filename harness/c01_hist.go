//go:build verif

package main

import (
	"bytes"
	"context"
	"flag"
	"fmt"
	"io"
	"os"
	"os/exec"
	"path/filepath"
	"runtime/debug"
	"strings"
	"sync"
	"time"

	"github.com/google/pprof/internal/driver"
	"github.com/google/pprof/internal/plugin"
	"github.com/google/pprof/profile"
)

// C01 at the driver level, write-to-file HISTORIES (anchor internal/driver/driver.go: "saved
// profiles"; observe_at "pprof -proto output re-read"): a profile pprof saved under a name must be
// readable back as that profile whatever the name held before. One case = one directory, one target
// path F written several times through the driver's DEFAULT writer (no plug-in Writer):
//
//	across runs   pprof -symbolize=none [-focus=rx] -proto|-raw|-top|-traces -output=F in<k>   (one process each)
//	within a run  an interactive session: `raw >F`, `proto >F`, `proto rx >F` … (one process), or the
//	              same session in-process through driver.PProf with Writer == nil (F inspected after
//	              every command, from the UI's ReadLine hook)
//
// with two inputs of different size, focus expressions that shrink the saved profile (a function
// name, or a regexp matching nothing) and text reports in between, so that F is overwritten with
// shorter and longer content in every order; before the first write F does not exist, is empty, holds
// short or LONGER garbage, a longer valid profile, a longer read-only file, or is a directory.
//
// Oracle, after every process (in-process: after every command) whose last write to F was `proto`:
// F parses, equals BY VALUE (c01_cli.go) the profile the very same command writes to a FRESH name
// (the twin: next line of the same session / a second process with -output=<fresh>), and — when no
// focus was given — equals normalize(input). A target that cannot be opened (directory; read-only
// file when the harness does not run as root) must make a one-shot pprof fail without a crash and
// stay what it was. Text reports written to F are not compared (their layout is C08's subject);
// they only serve as previous contents.

type c01Write struct {
	Input  int    `json:"input,omitempty"` // 0 = Profile, 1 = Profile2
	Format string `json:"format"`          // proto | raw | top | traces
	Focus  string `json:"focus,omitempty"`
}

type c01HistProc struct {
	Interactive bool       `json:"interactive,omitempty"`
	Writes      []c01Write `json:"writes"` // one process: all writes use the input of the first
}

type c01HistSpec struct {
	Pre    string        `json:"pre,omitempty"`    // "", empty, garbage-short, garbage-long, profile-long, readonly-long, dir
	Inproc bool          `json:"inproc,omitempty"` // the single proc is an in-process session (default writer)
	Procs  []c01HistProc `json:"procs"`
}

// one observation of F
type c01HistCheck struct {
	proc, write int
	w           c01Write
	prevSize    int64 // size of F before the process / command (-1: absent or directory)
	f           []byte
	fMissing    bool
	fIsDir      bool
	twin        []byte // fresh write of the same command (proto only)
	exit        int    // exit status of the process (0 for in-process commands)
	oneShot     bool
	stderr      string
}

type c01HistRun struct {
	checks []c01HistCheck
	runErr string // harness-level problem: never a verdict
	panic_ string
}

const c01HistF = "out.pb.gz"

var c01CanOverwriteRO = sync.OnceValue(func() bool {
	d, err := os.MkdirTemp("", "c01ro")
	if err != nil {
		return false
	}
	defer os.RemoveAll(d)
	n := filepath.Join(d, "ro")
	if os.WriteFile(n, []byte("x"), 0o444) != nil {
		return false
	}
	f, err := os.OpenFile(n, os.O_WRONLY, 0)
	if err != nil {
		return false
	}
	f.Close()
	return true
})

func c01HistPrepare(dir string, spec c01HistSpec, big *profile.Profile, seed uint64) error {
	f := filepath.Join(dir, c01HistF)
	r := NewRng(seed)
	garbage := func(n int) []byte {
		b := make([]byte, n)
		for i := range b {
			b[i] = byte(r.U64())
		}
		return b
	}
	switch spec.Pre {
	case "":
		return nil
	case "empty":
		return os.WriteFile(f, nil, 0o644)
	case "garbage-short":
		return os.WriteFile(f, garbage(1+r.Intn(12)), 0o644)
	case "garbage-long":
		return os.WriteFile(f, garbage(8192+r.Intn(60000)), 0o644)
	case "readonly-long":
		return os.WriteFile(f, garbage(8192+r.Intn(60000)), 0o444)
	case "profile-long":
		q := big.Copy()
		for i := 0; i < 400; i++ { // incompressible comments: a valid profile, much longer than any other write
			q.Comments = append(q.Comments, fmt.Sprintf("%016x%016x", r.U64(), r.U64()))
		}
		var b bytes.Buffer
		if err := q.Write(&b); err != nil {
			return err
		}
		return os.WriteFile(f, b.Bytes(), 0o644)
	case "dir":
		return os.Mkdir(f, 0o755)
	}
	return fmt.Errorf("unknown pre %q", spec.Pre)
}

func c01HistStat(path string) (size int64, isDir bool) {
	st, err := os.Stat(path)
	if err != nil {
		return -1, false
	}
	if st.IsDir() {
		return -1, true
	}
	return st.Size(), false
}

func c01HistSnapshot(dir string, ck *c01HistCheck, twinName string) {
	f := filepath.Join(dir, c01HistF)
	if _, isDir := c01HistStat(f); isDir {
		ck.fIsDir = true
	} else if b, err := os.ReadFile(f); err != nil {
		ck.fMissing = true
	} else {
		ck.f = b
	}
	if twinName != "" {
		if b, err := os.ReadFile(filepath.Join(dir, twinName)); err == nil {
			ck.twin = b
		}
	}
}

func c01HistLine(w c01Write, target string) string {
	l := w.Format
	if w.Focus != "" {
		l += " " + w.Focus
	}
	return l + " >" + target
}

func c01HistRunProc(c *Ctx, dir, empty string, args []string, stdin string) (exit int, stderr string, runErr string) {
	ctx, cancel := context.WithTimeout(context.Background(), 60*time.Second)
	defer cancel()
	cmd := exec.CommandContext(ctx, c.Pprof, args...)
	cmd.Dir = dir
	cmd.Env = []string{"PATH=" + empty, "HOME=" + empty, "XDG_CONFIG_HOME=" + empty, "TMPDIR=" + empty,
		"PPROF_TMPDIR=" + empty, "PPROF_BINARY_PATH=" + empty, "TZ=UTC", "TERM=dumb"}
	cmd.Stdin = strings.NewReader(stdin)
	var se bytes.Buffer
	cmd.Stdout, cmd.Stderr = nil, &se
	err := cmd.Run()
	stderr = se.String()
	if len(stderr) > 4000 {
		stderr = stderr[len(stderr)-4000:]
	}
	if ctx.Err() != nil {
		return -1, stderr, "timeout after 60s"
	}
	if err == nil {
		return 0, stderr, ""
	}
	if ee, ok := err.(*exec.ExitError); ok {
		if ee.ExitCode() < 0 {
			return 255, stderr, ""
		}
		return ee.ExitCode(), stderr, ""
	}
	return -1, stderr, err.Error()
}

func c01HistExec(c *Ctx, cs c01Case, slot int) c01HistRun {
	var run c01HistRun
	spec := *cs.Hist
	inputs := []*profile.Profile{nil, nil}
	for i, canon := range []string{cs.Profile, cs.Profile2} {
		if canon == "" {
			continue
		}
		p, err := ParseCanon(canon)
		if err != nil {
			run.runErr = "ParseCanon: " + err.Error()
			return run
		}
		inputs[i] = p
	}
	if inputs[0] == nil {
		run.runErr = "no profile"
		return run
	}
	dir, err := os.MkdirTemp(c.Dir, fmt.Sprintf("c01hist%04d-", slot))
	if err != nil {
		run.runErr = err.Error()
		return run
	}
	defer func() {
		os.Chmod(filepath.Join(dir, c01HistF), 0o644)
		os.RemoveAll(dir)
	}()
	empty := filepath.Join(dir, "empty")
	os.MkdirAll(empty, 0o755)
	for i, p := range inputs {
		if p == nil {
			continue
		}
		var b bytes.Buffer
		if err := p.Write(&b); err != nil {
			run.runErr = "Write: " + err.Error()
			return run
		}
		if err := os.WriteFile(filepath.Join(dir, fmt.Sprintf("in%d.pb.gz", i)), b.Bytes(), 0o644); err != nil {
			run.runErr = err.Error()
			return run
		}
	}
	h := uint64(len(cs.Profile))*0x9E3779B97F4A7C15 + uint64(len(spec.Procs))
	if err := c01HistPrepare(dir, spec, inputs[0], h); err != nil {
		run.runErr = "prepare: " + err.Error()
		return run
	}
	if spec.Inproc {
		c01HistInproc(dir, inputs[0], spec, &run)
		return run
	}
	if c.Pprof == "" {
		run.runErr = "no pprof binary"
		return run
	}
	for pi, pr := range spec.Procs {
		if len(pr.Writes) == 0 {
			continue
		}
		in := fmt.Sprintf("in%d.pb.gz", pr.Writes[0].Input)
		if inputs[pr.Writes[0].Input] == nil {
			in = "in0.pb.gz"
		}
		last := len(pr.Writes) - 1
		ck := c01HistCheck{proc: pi, write: last, w: pr.Writes[last], oneShot: !pr.Interactive}
		ck.prevSize, _ = c01HistStat(filepath.Join(dir, c01HistF))
		twin := ""
		if ck.w.Format == "proto" {
			twin = fmt.Sprintf("fresh%d_%d.pb.gz", pi, last)
		}
		if pr.Interactive {
			var lines []string
			for wi, w := range pr.Writes {
				lines = append(lines, c01HistLine(w, c01HistF))
				if wi == last && twin != "" {
					lines = append(lines, c01HistLine(w, twin))
				}
			}
			ex, se, re := c01HistRunProc(c, dir, empty, []string{"-symbolize=none", in}, strings.Join(lines, "\n")+"\nquit\n")
			if re != "" {
				run.runErr = re
				return run
			}
			ck.exit, ck.stderr = ex, se
		} else {
			w := ck.w
			mk := func(target string) []string {
				a := []string{"-symbolize=none"}
				if w.Focus != "" {
					a = append(a, "-focus="+w.Focus)
				}
				return append(a, "-"+w.Format, "-output="+target, in)
			}
			ex, se, re := c01HistRunProc(c, dir, empty, mk(c01HistF), "")
			if re != "" {
				run.runErr = re
				return run
			}
			ck.exit, ck.stderr = ex, se
			if twin != "" {
				if _, _, re := c01HistRunProc(c, dir, empty, mk(twin), ""); re != "" {
					run.runErr = re
					return run
				}
			}
		}
		c01HistSnapshot(dir, &ck, twin)
		run.checks = append(run.checks, ck)
	}
	return run
}

// ---- in-process session with the default writer ----

type c01HistUI struct {
	lines []string
	next  int
	after func(done int) // called when line `done` (index) has been executed
	errs  []string
}

func (u *c01HistUI) ReadLine(string) (string, error) {
	if u.next > 0 {
		u.after(u.next - 1)
	}
	if u.next >= len(u.lines) {
		u.next = len(u.lines) + 1
		return "", io.EOF
	}
	l := u.lines[u.next]
	u.next++
	return l, nil
}
func (u *c01HistUI) Print(...interface{}) {}
func (u *c01HistUI) PrintErr(a ...interface{}) {
	if len(u.errs) < 50 {
		u.errs = append(u.errs, fmt.Sprint(a...))
	}
}
func (u *c01HistUI) IsTerminal() bool                    { return false }
func (u *c01HistUI) WantBrowser() bool                   { return false }
func (u *c01HistUI) SetAutoComplete(func(string) string) {}

func c01HistInproc(dir string, p *profile.Profile, spec c01HistSpec, run *c01HistRun) {
	if len(spec.Procs) == 0 {
		return
	}
	writes := spec.Procs[0].Writes
	abs := func(n string) string { return filepath.Join(dir, n) }
	type lineInfo struct {
		write int
		twin  string // set on the line after which F is inspected
		check bool
	}
	var lines []string
	var info []lineInfo
	for wi, w := range writes {
		lines = append(lines, c01HistLine(w, abs(c01HistF)))
		if w.Format == "proto" {
			info = append(info, lineInfo{write: wi})
			twin := fmt.Sprintf("fresh0_%d.pb.gz", wi)
			lines = append(lines, c01HistLine(w, abs(twin)))
			info = append(info, lineInfo{write: wi, twin: twin, check: true})
		} else {
			info = append(info, lineInfo{write: wi, check: true})
		}
	}
	prev, _ := c01HistStat(abs(c01HistF))
	ui := &c01HistUI{lines: lines}
	ui.after = func(done int) {
		if done >= len(info) || !info[done].check {
			return
		}
		ck := c01HistCheck{proc: 0, write: info[done].write, w: writes[info[done].write], prevSize: prev}
		c01HistSnapshot(dir, &ck, info[done].twin)
		ck.stderr = strings.Join(ui.errs, " / ")
		ui.errs = nil
		run.checks = append(run.checks, ck)
		prev, _ = c01HistStat(abs(c01HistF))
	}
	fs := flag.NewFlagSet("pprof", flag.ContinueOnError)
	fs.SetOutput(io.Discard)
	done := make(chan struct{})
	var perr error
	var pn string
	go func() {
		defer close(done)
		defer func() {
			if e := recover(); e != nil {
				pn = fmt.Sprint(e) + "\n" + string(debug.Stack())
			}
		}()
		perr = driver.PProf(&plugin.Options{
			// Writer deliberately nil: the driver's own file writer
			Flagset: &c01Flags{fs: fs, args: []string{"c01-profile"}},
			Fetch:   c01Fetch{p},
			Sym:     c01Sym{},
			Obj:     c01Obj{},
			UI:      ui,
		})
	}()
	select {
	case <-done:
	case <-time.After(120 * time.Second):
		run.runErr = "in-process session did not return within 120 s"
		run.checks = nil
		return
	}
	run.panic_ = pn
	if perr != nil && pn == "" {
		run.runErr = "driver.PProf: " + perr.Error()
	}
}

// ---- oracle ----

func c01HistDescribe(spec c01HistSpec, upto c01HistCheck) string {
	var sb strings.Builder
	if spec.Inproc {
		sb.WriteString("driver.PProf session, default writer")
	} else {
		sb.WriteString("pprof")
	}
	if spec.Pre != "" {
		sb.WriteString(", target pre-existing (" + spec.Pre + ")")
	}
	sb.WriteString(": ")
	for pi, pr := range spec.Procs {
		if pi > upto.proc {
			break
		}
		if pi > 0 {
			sb.WriteString(" | ")
		}
		if pr.Interactive || spec.Inproc {
			sb.WriteString("session[")
		}
		for wi, w := range pr.Writes {
			if pi == upto.proc && wi > upto.write {
				break
			}
			if wi > 0 {
				sb.WriteString("; ")
			}
			if pr.Interactive || spec.Inproc {
				sb.WriteString(c01HistLine(w, "F"))
			} else {
				sb.WriteString(fmt.Sprintf("-%s focus=%q -output=F in%d", w.Format, w.Focus, w.Input))
			}
		}
		if pr.Interactive || spec.Inproc {
			sb.WriteString("]")
		}
	}
	return sb.String()
}

func c01HistEval(c *Ctx, cs c01Case, run c01HistRun) (nontrivial bool) {
	spec := *cs.Hist
	pre := "C01/file-history/"
	if spec.Inproc {
		pre = "C01/file-history-inproc/"
	}
	if run.runErr != "" && len(run.checks) == 0 && run.panic_ == "" {
		c.Res.Notes = append(c.Res.Notes, "C01 file history: "+run.runErr)
		c.Res.Hit("hist-not-run")
		return false
	}
	if run.panic_ != "" {
		c.Violation(pre+"panic", c01HistDescribe(spec, c01HistCheck{proc: 99, write: 99})+": driver.PProf panics: "+trunc(run.panic_), cs)
		return false
	}
	exp := map[int]*profile.Profile{}
	expected := func(i int) *profile.Profile {
		if e, ok := exp[i]; ok {
			return e
		}
		canon := cs.Profile
		if i == 1 && cs.Profile2 != "" {
			canon = cs.Profile2
		}
		var e *profile.Profile
		if q, err := ParseCanon(c.Drv.Ask("codec.normalize " + canon)); err == nil {
			e = q
		} else if p, err := ParseCanon(canon); err == nil {
			b, _ := writeU(p)
			e, _ = profile.ParseUncompressed(b)
		}
		exp[i] = e
		return e
	}
	refusable := spec.Pre == "dir" || (spec.Pre == "readonly-long" && !c01CanOverwriteRO())
	for _, ck := range run.checks {
		how := c01HistDescribe(spec, ck)
		if strings.Contains(ck.stderr, "panic:") && strings.Contains(ck.stderr, "goroutine ") {
			c.Violation(pre+"panic", how+": pprof crashed: "+c01LastLine(ck.stderr), cs)
			continue
		}
		c.Res.Hit("hist-write:" + ck.w.Format)
		if refusable {
			// the target cannot be opened: a one-shot pprof must fail, and the target stays what it was
			c.Res.Hit("hist-target-not-writable")
			if spec.Pre == "dir" && !ck.fIsDir {
				c.Violation(pre+"directory-replaced", how+": the target was a directory and no longer is", cs)
			}
			if ck.oneShot && ck.exit == 0 {
				c.Violation(pre+"open-error-ignored", how+": the output cannot be opened for writing, yet pprof exits 0", cs)
			}
			continue
		}
		if ck.w.Format != "proto" {
			continue
		}
		if ck.exit != 0 {
			c.Violation(pre+"exit", fmt.Sprintf("%s: pprof exits %d: %s", how, ck.exit, c01LastLine(ck.stderr)), cs)
			continue
		}
		if ck.fMissing || ck.fIsDir {
			c.Violation(pre+"no-output", how+": no file was written: "+c01LastLine(ck.stderr), cs)
			continue
		}
		sizes := fmt.Sprintf(" (F held %d bytes before, holds %d now; the same command writes %d bytes to a fresh name)", ck.prevSize, len(ck.f), len(ck.twin))
		switch {
		case ck.prevSize < 0:
			c.Res.Hit("hist-proto-over:nothing")
		case ck.twin != nil && ck.prevSize > int64(len(ck.twin)):
			c.Res.Hit("hist-proto-over:longer-content")
			nontrivial = true
		case ck.twin != nil && ck.prevSize == int64(len(ck.twin)):
			c.Res.Hit("hist-proto-over:same-length")
		default:
			c.Res.Hit("hist-proto-over:shorter-content")
		}
		out, err := profile.ParseData(ck.f)
		if err != nil {
			c.Violation(pre+"unparseable-output", how+": the saved profile cannot be read back: "+err.Error()+sizes, cs)
			continue
		}
		c.Res.Hit("hist-outputs-compared")
		e := expected(ck.w.Input)
		if e == nil {
			continue
		}
		eraseMappings := len(e.Mapping) == 0
		got := c01BVOf(out, eraseMappings)
		if ck.twin == nil {
			c.Violation(pre+"fresh-write-missing", how+": the same command did not write to a fresh name: "+c01LastLine(ck.stderr), cs)
		} else if tw, err := profile.ParseData(ck.twin); err != nil {
			c.Violation(pre+"fresh-write-unparseable", how+": the profile written to a FRESH name cannot be read back: "+err.Error(), cs)
		} else if d := c01BVDiff(got, c01BVOf(tw, eraseMappings), false); d != "" {
			c.Violation(pre+"differs-from-fresh-write/"+d, how+": F differs in "+d+" from what the same command writes to a fresh name"+sizes, cs)
			continue
		}
		if ck.w.Focus == "" {
			if d := c01BVDiff(got, c01BVOf(e, eraseMappings), false); d != "" {
				c.Violation(pre+d, how+": the saved profile differs from normalize(input) in "+d+sizes, cs)
			}
		}
	}
	return nontrivial
}

// ---- generation ----

func c01HistFocus(r *Rng, p *profile.Profile) string {
	switch r.Intn(10) {
	case 0, 1, 2, 3, 4:
		return ""
	case 5, 6:
		return "zz_nomatch"
	}
	var names []string
	for _, f := range p.Function {
		if c01PlainName(f.Name) && len(f.Name) > 1 {
			names = append(names, f.Name)
		}
	}
	if len(names) == 0 {
		return "zz_nomatch"
	}
	return r.Pick(names)
}

func c01HistGen(c *Ctx, r *Rng, i int, inproc bool) (c01Case, string, bool) {
	st := c01Strategies[i%len(c01Strategies)]
	o := st.o
	o.MaxSamples, o.MaxLocs = 40, 16
	big := GenProfile(r, &o)
	c01CLISanitize(r, big, true)
	small := GenProfile(r, &GenOpts{MaxSamples: 1, MaxLocs: 2, MaxFuncs: 2, MaxMappings: 1, MaxSampleTypes: 1})
	c01CLISanitize(r, small, true)
	if len(big.SampleType) == 0 || big.CheckValid() != nil || small.CheckValid() != nil {
		c.Res.Hit("hist-skip:no-sample-types-or-invalid")
		return c01Case{}, "", false
	}
	spec := &c01HistSpec{Inproc: inproc}
	switch v := r.Intn(20); {
	case v < 7:
	case v < 8:
		spec.Pre = "empty"
	case v < 10:
		spec.Pre = "garbage-short"
	case v < 13:
		spec.Pre = "garbage-long"
	case v < 16:
		spec.Pre = "profile-long"
	case v < 18:
		spec.Pre = "readonly-long"
	default:
		spec.Pre = "dir"
	}
	format := func() string {
		switch r.Intn(10) {
		case 0, 1:
			return "raw"
		case 2:
			return "top"
		case 3:
			return "traces"
		}
		return "proto"
	}
	input := []*profile.Profile{big, small}
	genProc := func(interactive bool, last bool) c01HistProc {
		pr := c01HistProc{Interactive: interactive}
		in := 0
		if !inproc && r.Chance(30) {
			in = 1
		}
		n := 1
		if interactive {
			n = 2 + r.Intn(3)
		}
		if inproc {
			n = 3 + r.Intn(4)
		}
		for k := 0; k < n; k++ {
			w := c01Write{Input: in, Format: format(), Focus: c01HistFocus(r, input[in])}
			if k == n-1 && (last || r.Chance(60)) {
				w.Format = "proto"
			}
			pr.Writes = append(pr.Writes, w)
		}
		return pr
	}
	switch {
	case inproc:
		spec.Procs = []c01HistProc{genProc(true, true)}
	case spec.Pre == "dir":
		spec.Procs = []c01HistProc{genProc(r.Chance(30), true)}
	default:
		np := 2 + r.Intn(3)
		for k := 0; k < np; k++ {
			spec.Procs = append(spec.Procs, genProc(r.Chance(40), k == np-1))
		}
	}
	cs := c01Case{Profile: Canon(big), Hist: spec}
	for _, pr := range spec.Procs {
		if pr.Writes[0].Input == 1 {
			cs.Profile2 = Canon(small)
		}
	}
	return cs, st.name, true
}

// c01HistStream: nCLI histories through the real binary (cases in parallel, the processes of one
// case in sequence) and nInproc in-process sessions with the default writer (sequential).
func c01HistStream(c *Ctx, r *Rng, nCLI, nInproc int) {
	var cases []c01Case
	var strat []string
	if c.Pprof != "" {
		for i := 0; i < nCLI; i++ {
			if cs, s, ok := c01HistGen(c, r, i, false); ok {
				cases = append(cases, cs)
				strat = append(strat, s)
			}
		}
	} else {
		c.Res.Notes = append(c.Res.Notes, "C01 file history: no pprof binary, CLI histories skipped")
	}
	runs := make([]c01HistRun, len(cases))
	var wg sync.WaitGroup
	sem := make(chan struct{}, 16)
	for i := range cases {
		wg.Add(1)
		sem <- struct{}{}
		go func(i int) {
			defer wg.Done()
			defer func() { <-sem }()
			runs[i] = c01HistExec(c, cases[i], i)
		}(i)
	}
	wg.Wait()
	key := func(cs c01Case) string { return fmt.Sprintf("hist|%+v|%s|%s", *cs.Hist, cs.Profile, cs.Profile2) }
	for i, cs := range cases {
		nt := c01HistEval(c, cs, runs[i])
		c.Res.Count(key(cs), nt)
		c.Res.Hit("hist-kind:cli")
		c.Res.Hit("hist-pre:" + cs.Hist.Pre)
		c.Res.Hit("hist-strategy:" + strat[i])
	}
	for i := 0; i < nInproc; i++ {
		cs, s, ok := c01HistGen(c, r, i, true)
		if !ok {
			continue
		}
		nt := c01HistEval(c, cs, c01HistExec(c, cs, 10000+i))
		c.Res.Count(key(cs), nt)
		c.Res.Hit("hist-kind:inproc")
		c.Res.Hit("hist-pre:" + cs.Hist.Pre)
		c.Res.Hit("hist-strategy:" + s)
	}
}
