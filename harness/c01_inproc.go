//go:build verif

package main

import (
	"bytes"
	"flag"
	"fmt"
	"io"
	"net/http"
	"net/http/httptest"
	"net/url"
	"runtime/debug"
	"strconv"
	"strings"
	"sync"
	"time"

	"github.com/google/pprof/internal/driver"
	"github.com/google/pprof/internal/plugin"
	"github.com/google/pprof/profile"
)

// C01 at the driver level, in-process: the real driver through its exported plug-in API
// (driver.PProf with plugin.Options, as pprof.go and internal/driver's own tests use it). The
// Fetcher hands the driver the generated IN-MEMORY profile (not a parsed file: labels with empty
// values, unaligned ids … are still there, so the driver's first encode is the one that normalises),
// the Symbolizer and ObjTool plug-ins do nothing, the Writer records files in memory.
//
//	session  an interactive session: reports and option assignments, `proto >outK` in between and at
//	         the end — every command starts from profileCopier.newCopy() = decode(encode(profile));
//	web      -http with the HTTPServer hook: a few page requests (each from the copier), then
//	         GET /download, which serializes the session's profile.
//
// Every observed profile must be normalize(input), compared in the by-value form of c01_cli.go
// (same erasures). The profiles are sanitised only as far as the driver stages outside the codec
// require (distinct sample type names, ≥1 sample type, drop_frames matching nothing).

type c01Flags struct {
	fs   *flag.FlagSet
	args []string
}

// The driver seeds every option flag with the current process-wide configuration; the defaults
// seen at the first call (pristine process) are reused, so that in-process cases are independent.
var c01Pristine = map[string]any{}

func c01Dflt[T any](n string, d T) T {
	if v, ok := c01Pristine[n]; ok {
		return v.(T)
	}
	c01Pristine[n] = d
	return d
}
func (f *c01Flags) Bool(n string, d bool, u string) *bool { return f.fs.Bool(n, c01Dflt(n, d), u) }
func (f *c01Flags) Int(n string, d int, u string) *int    { return f.fs.Int(n, c01Dflt(n, d), u) }
func (f *c01Flags) Float64(n string, d float64, u string) *float64 {
	return f.fs.Float64(n, c01Dflt(n, d), u)
}
func (f *c01Flags) String(n, d, u string) *string { return f.fs.String(n, c01Dflt(n, d), u) }
func (f *c01Flags) StringList(n, d, u string) *[]*string {
	f.fs.String(n, d, u)
	return &[]*string{}
}
func (f *c01Flags) ExtraUsage() string   { return "" }
func (f *c01Flags) AddExtraUsage(string) {}
func (f *c01Flags) Parse(usage func()) []string {
	if err := f.fs.Parse(f.args); err != nil {
		return nil
	}
	return f.fs.Args()
}

type c01Fetch struct{ p *profile.Profile }

func (f c01Fetch) Fetch(src string, d, t time.Duration) (*profile.Profile, string, error) {
	return f.p, "", nil
}

type c01Sym struct{}

func (c01Sym) Symbolize(string, plugin.MappingSources, *profile.Profile) error { return nil }

type c01Obj struct{}

func (c01Obj) Open(string, uint64, uint64, uint64, string) (plugin.ObjFile, error) {
	return nil, fmt.Errorf("no object files in this harness")
}
func (c01Obj) Disasm(string, uint64, uint64, bool) ([]plugin.Inst, error) {
	return nil, fmt.Errorf("no disassembler in this harness")
}

type c01UI struct {
	lines []string
	errs  []string
}

func (u *c01UI) ReadLine(string) (string, error) {
	if len(u.lines) == 0 {
		return "", io.EOF
	}
	l := u.lines[0]
	u.lines = u.lines[1:]
	return l, nil
}
func (u *c01UI) Print(...interface{}) {}
func (u *c01UI) PrintErr(a ...interface{}) {
	if len(u.errs) < 50 {
		u.errs = append(u.errs, fmt.Sprint(a...))
	}
}
func (u *c01UI) IsTerminal() bool                    { return false }
func (u *c01UI) WantBrowser() bool                   { return false }
func (u *c01UI) SetAutoComplete(func(string) string) {}

type c01Writer struct {
	mu    sync.Mutex
	files map[string]*bytes.Buffer
}
type c01WC struct{ *bytes.Buffer }

func (c01WC) Close() error { return nil }
func (w *c01Writer) Open(name string) (io.WriteCloser, error) {
	w.mu.Lock()
	defer w.mu.Unlock()
	b := &bytes.Buffer{}
	w.files[name] = b
	return c01WC{b}, nil
}

type c01InprocSpec struct {
	Mode     string   `json:"mode"`               // "session" | "web"
	Script   []string `json:"script,omitempty"`   // session lines
	Requests []string `json:"requests,omitempty"` // web: path?query, before /download
}

type c01InprocRun struct {
	outs  [][]byte
	err   string
	panic string
	hang  bool
	errs  []string
}

func c01InprocOutputs(spec c01InprocSpec) []string {
	var outs []string
	for _, l := range spec.Script {
		if strings.HasPrefix(l, "proto >") {
			outs = append(outs, strings.TrimPrefix(l, "proto >"))
		}
	}
	return outs
}

func c01InprocExec(canon string, spec c01InprocSpec) c01InprocRun {
	var run c01InprocRun
	p, err := ParseCanon(canon)
	if err != nil {
		run.err = "harness: ParseCanon: " + err.Error()
		return run
	}
	ui := &c01UI{lines: append([]string{}, spec.Script...)}
	w := &c01Writer{files: map[string]*bytes.Buffer{}}
	args := []string{"c01-profile"}
	if spec.Mode == "web" {
		args = []string{"-http=localhost:1234", "-no_browser", "c01-profile"}
	}
	fs := flag.NewFlagSet("pprof", flag.ContinueOnError)
	fs.SetOutput(io.Discard)
	var web [][]byte
	done := make(chan struct{})
	go func() {
		defer close(done)
		defer func() {
			if e := recover(); e != nil {
				run.panic = fmt.Sprint(e) + "\n" + string(debug.Stack())
			}
		}()
		err := driver.PProf(&plugin.Options{
			Writer:  w,
			Flagset: &c01Flags{fs: fs, args: args},
			Fetch:   c01Fetch{p},
			Sym:     c01Sym{},
			Obj:     c01Obj{},
			UI:      ui,
			HTTPServer: func(a *plugin.HTTPServerArgs) error {
				get := func(pathq string) (int, []byte) {
					u, err := url.Parse("http://localhost" + pathq)
					if err != nil {
						return 0, nil
					}
					h := a.Handlers[u.Path]
					if h == nil {
						return 404, nil
					}
					rec := httptest.NewRecorder()
					h.ServeHTTP(rec, httptest.NewRequest(http.MethodGet, u.String(), nil))
					return rec.Code, rec.Body.Bytes()
				}
				for _, rq := range spec.Requests {
					get(rq)
				}
				code, body := get("/download")
				if code != http.StatusOK {
					return fmt.Errorf("GET /download: status %d", code)
				}
				web = append(web, body)
				return nil
			},
		})
		if err != nil {
			run.err = err.Error()
		}
	}()
	select {
	case <-done:
	case <-time.After(120 * time.Second):
		run.hang = true
		return run
	}
	run.errs = ui.errs
	if spec.Mode == "web" {
		run.outs = web
		if len(web) == 0 {
			run.outs = [][]byte{nil}
		}
		return run
	}
	for _, o := range c01InprocOutputs(spec) {
		if b := w.files[o]; b != nil {
			run.outs = append(run.outs, b.Bytes())
		} else {
			run.outs = append(run.outs, nil)
		}
	}
	return run
}

func c01InprocEval(c *Ctx, canon string, spec c01InprocSpec, run c01InprocRun) bool {
	cs := c01Case{Profile: canon, Inproc: &spec}
	pre, how := "C01/driver-session/", "driver.PProf interactive session ("+strings.Join(spec.Script, "; ")+")"
	if spec.Mode == "web" {
		pre, how = "C01/driver-web/", "driver.PProf -http, GET "+strings.Join(spec.Requests, ", ")+" then /download"
	}
	switch {
	case strings.HasPrefix(run.err, "harness: "):
		c.Res.HarnessError = run.err
		return false
	case run.hang:
		// overloaded machine or a hang (C09's subject): not a verdict about the round trip
		c.Res.Notes = append(c.Res.Notes, "C01 inproc: "+how+" did not return within 120 s")
		c.Res.Hit("inproc-timeout")
		return false
	case run.panic != "":
		c.Violation(pre+"panic", how+" panics on a valid profile: "+trunc(run.panic), cs)
		return false
	case run.err != "":
		c.Violation(pre+"error", how+" fails on a valid profile: "+trunc(run.err), cs)
		return false
	}
	p, err := ParseCanon(canon)
	if err != nil {
		c.Res.HarnessError = "ParseCanon: " + err.Error()
		return false
	}
	var exp *profile.Profile
	if e, err := ParseCanon(c.Drv.Ask("codec.normalize " + canon)); err == nil {
		exp = e
	} else if q, err := profile.ParseUncompressed(func() []byte { b, _ := writeU(p); return b }()); err == nil {
		exp = q
	} else {
		return false
	}
	eraseMappings := len(p.Mapping) == 0
	want := c01BVOf(exp, eraseMappings)
	nontrivial := false
	for k, ob := range run.outs {
		tag := ""
		if len(run.outs) > 1 {
			tag = fmt.Sprintf(" (output %d of %d)", k+1, len(run.outs))
		}
		if ob == nil {
			c.Violation(pre+"no-output", how+" wrote no profile"+tag+": "+trunc(strings.Join(run.errs, " / ")), cs)
			continue
		}
		out, err := profile.ParseData(ob)
		if err != nil {
			c.Violation(pre+"unparseable-output", how+": the written profile does not parse"+tag+": "+err.Error(), cs)
			continue
		}
		c.Res.Hit("inproc-outputs-compared")
		for _, s := range out.Sample {
			for _, l := range s.Location {
				if l != nil && len(l.Line) > 0 {
					nontrivial = true
				}
			}
		}
		if d := c01BVDiff(c01BVOf(out, eraseMappings), want, false); d != "" {
			what := how + ": the re-read profile differs from normalize(input) in " + d + tag
			if d == "values" {
				what += c01FirstValueDiff(out, exp)
			}
			c.Violation(pre+d, what, cs)
			continue
		}
		if !eraseMappings {
			if Canon(out) == Canon(exp) {
				c.Res.Hit("inproc-full-canon-identical")
			} else {
				c.Res.Hit("inproc-tables-or-ids-differ-only")
			}
		}
	}
	return nontrivial
}

func c01InprocGen(c *Ctx, r *Rng, i int) (string, c01InprocSpec, string, bool) {
	st := c01Strategies[i%len(c01Strategies)]
	p := GenProfile(r, &st.o)
	c01CLISanitize(r, p, true)
	if len(p.SampleType) == 0 || p.CheckValid() != nil {
		c.Res.Hit("inproc-skip:no-sample-types-or-invalid")
		return "", c01InprocSpec{}, "", false
	}
	var spec c01InprocSpec
	if (i/len(c01Strategies))%3 == 2 {
		spec.Mode = "web"
		si := func() string { return "si=" + strconv.Itoa(r.Intn(len(p.SampleType))) }
		for k, n := 0, r.Intn(4); k < n; k++ {
			spec.Requests = append(spec.Requests, r.Pick([]string{"/top", "/top?" + si(), "/flamegraph", "/flamegraph?" + si(), "/peek?f=.", "/top?f=main&" + si(), "/source?f=main", "/flamegraph?g=lines&noinlines=true"}))
		}
	} else {
		spec.Mode = "session"
		nout, nrep := 0, 0
		cmds := []string{"top", "top3", "traces", "tags", "raw", "text", "tree", "peek .", "top -cum", "dot"}
		for k, n := 0, 1+r.Intn(6); k < n; k++ {
			switch r.Intn(7) {
			case 0:
				spec.Script = append(spec.Script, "sample_index="+strconv.Itoa(r.Intn(len(p.SampleType))))
			case 1:
				spec.Script = append(spec.Script, "unit="+r.Pick([]string{"ms", "minimum", "kb", "auto"}))
			case 2:
				spec.Script = append(spec.Script, r.Pick([]string{"nodecount=2", "sort=cum", "divide_by=1", "compact_labels=false", "mean=true"}))
			case 3:
				nout++
				spec.Script = append(spec.Script, fmt.Sprintf("proto >out%d", nout))
			default:
				nrep++ // reports go to the recording Writer, never to the harness's stdout
				spec.Script = append(spec.Script, fmt.Sprintf("%s >rep%d", r.Pick(cmds), nrep))
			}
		}
		nout++
		spec.Script = append(spec.Script, fmt.Sprintf("proto >out%d", nout))
	}
	return Canon(p), spec, st.name, true
}

// c01InprocStream: sequential (the driver's option set is process-wide).
func c01InprocStream(c *Ctx, r *Rng, n int) {
	for i := 0; i < n; i++ {
		canon, spec, strat, ok := c01InprocGen(c, r, i)
		if !ok {
			continue
		}
		nt := c01InprocEval(c, canon, spec, c01InprocExec(canon, spec))
		c.Res.Count("inproc|"+spec.Mode+"|"+strings.Join(spec.Script, ";")+strings.Join(spec.Requests, ";")+"|"+canon, nt)
		c.Res.Hit("inproc-kind:" + spec.Mode)
		c.Res.Hit("inproc-strategy:" + strat)
	}
}
