//go:build verif

package main

// BOUNDARY-SIZE stream of C02 ("a parsed profile can always be written, copied …"): every
// length-delimited element the encoder emits — nested messages (Sample, Location, Line, Label,
// Mapping, Function, ValueType), strings, packed scalar lists — is generated with encoded sizes
// sweeping every value from 0 to ~320 and across the varint length boundaries 127/128,
// 16383/16384 (and 2^21 in the thorough tier): a stack grown one location at a time, a line
// list one line at a time with an address of every varint width as filler, strings one byte at
// a time, label lists one entry at a time, packed value/comment lists one element at a time,
// scalar fields of every varint width. Each input is a VALID profile, so the existing oracle
// (accepted ⇒ Write, Copy, Compact, re-parse) applies. The sizes actually reached are read
// back from the written bytes (c02ParseWire) and recorded in the distribution.

import (
	"fmt"
	"strings"

	"github.com/google/pprof/profile"
)

type c02BoundaryCase struct {
	name string
	p    *profile.Profile
}

func c02BaseProfile(nst int) *profile.Profile {
	p := &profile.Profile{}
	for i := 0; i < nst; i++ {
		p.SampleType = append(p.SampleType, &profile.ValueType{Type: fmt.Sprintf("t%d", i), Unit: "count"})
	}
	p.Mapping = []*profile.Mapping{{ID: 1, Start: 0x1000, Limit: 0x2000, File: "/bin/x", HasFunctions: true}}
	p.Function = []*profile.Function{{ID: 1, Name: "f", SystemName: "f", Filename: "f.go"}}
	return p
}

// nloc locations with one-byte ids 1..nloc (nloc ≤ 127), each with one line.
func c02AddLocations(p *profile.Profile, nloc int) {
	for i := 1; i <= nloc; i++ {
		p.Location = append(p.Location, &profile.Location{ID: uint64(i), Mapping: p.Mapping[0], Address: 0x1000 + uint64(i),
			Line: []profile.Line{{Function: p.Function[0], Line: int64(i % 100)}}})
	}
}

func c02Values(nst int, width int) []int64 {
	v := make([]int64, nst)
	for i := range v {
		v[i] = int64(1) << uint(7*(width-1)) // a varint of exactly `width` bytes (width ≤ 9)
	}
	return v
}

// stack depths lo..hi, one sample each (sample size grows by one byte per location id);
// valueWidth shifts all sizes to fill the gaps left by the packed-encoding thresholds.
func c02StackWindow(lo, hi, valueWidth int) *profile.Profile {
	p := c02BaseProfile(1)
	c02AddLocations(p, 100)
	for n := lo; n <= hi; n++ {
		s := &profile.Sample{Value: c02Values(1, valueWidth)}
		for j := 0; j < n; j++ {
			s.Location = append(s.Location, p.Location[j%100])
		}
		p.Sample = append(p.Sample, s)
	}
	return p
}

// line counts lo..hi × address varint widths 1..7: a line costs 6 bytes, the address fills
// the residues, so location sizes are contiguous.
func c02LinesWindow(lo, hi int) *profile.Profile {
	p := c02BaseProfile(1)
	id := uint64(0)
	for n := lo; n <= hi; n++ {
		for w := 1; w <= 7; w++ {
			id++
			l := &profile.Location{ID: id, Mapping: p.Mapping[0], Address: uint64(1) << uint(7*(w-1))}
			for j := 0; j < n; j++ {
				l.Line = append(l.Line, profile.Line{Function: p.Function[0], Line: int64(1 + j%100)})
			}
			p.Location = append(p.Location, l)
		}
	}
	if len(p.Location) > 0 {
		p.Sample = []*profile.Sample{{Value: []int64{1}, Location: []*profile.Location{p.Location[0], p.Location[len(p.Location)-1]}}}
	}
	return p
}

// strings of every length lo..hi as function names (and one as mapping file, comment, label)
func c02StringWindow(lo, hi int) *profile.Profile {
	p := c02BaseProfile(1)
	for n := lo; n <= hi; n++ {
		name := strings.Repeat("s", n)
		if n >= 4 { // keep the strings distinct from each other and from the fixed ones
			name = fmt.Sprintf("%03d", n%1000) + name[3:]
		}
		p.Function = append(p.Function, &profile.Function{ID: uint64(len(p.Function) + 1), Name: name, SystemName: name})
	}
	c02AddLocations(p, 2)
	p.Location[1].Line[0].Function = p.Function[len(p.Function)-1]
	p.Sample = []*profile.Sample{{Value: []int64{7}, Location: p.Location, Label: map[string][]string{"k": {p.Function[len(p.Function)-1].Name}}}}
	p.Comments = []string{p.Function[len(p.Function)/2].Name}
	return p
}

// label lists: k string labels and k numeric labels per sample, k = lo..hi, × stack depth 0..5
func c02LabelWindow(lo, hi int) *profile.Profile {
	p := c02BaseProfile(1)
	c02AddLocations(p, 6)
	for k := lo; k <= hi; k++ {
		for d := 0; d <= 5; d++ {
			s := &profile.Sample{Value: []int64{1}, Location: p.Location[:d], Label: map[string][]string{}, NumLabel: map[string][]int64{}, NumUnit: map[string][]string{}}
			for j := 0; j < k; j++ {
				if j%2 == 0 {
					s.Label["k"] = append(s.Label["k"], fmt.Sprintf("v%d", j%7))
				} else {
					s.NumLabel["n"] = append(s.NumLabel["n"], int64(1+j))
					s.NumUnit["n"] = append(s.NumUnit["n"], "bytes")
				}
			}
			p.Sample = append(p.Sample, s)
		}
	}
	return p
}

// nst sample types: the packed value list of every sample has nst elements of `width` bytes
func c02ValuesCount(nst, width int) *profile.Profile {
	p := c02BaseProfile(nst)
	c02AddLocations(p, 3)
	p.Sample = []*profile.Sample{{Value: c02Values(nst, width), Location: p.Location}, {Value: c02Values(nst, 1)}}
	return p
}

// ncom comments: the packed comment index list grows one element at a time
func c02CommentsCount(ncom int) *profile.Profile {
	p := c02BaseProfile(1)
	c02AddLocations(p, 1)
	p.Sample = []*profile.Sample{{Value: []int64{1}, Location: p.Location}}
	for i := 0; i < ncom; i++ {
		p.Comments = append(p.Comments, fmt.Sprintf("c%d", i%50))
	}
	return p
}

// every scalar field of the small messages (ValueType, Label, Mapping, Function, Line, header)
// with every varint width 1..10: their encoded sizes sweep 0 … maximum.
func c02VarintWidths() *profile.Profile {
	p := c02BaseProfile(2)
	wide := func(w int) uint64 {
		if w >= 10 {
			return 1 << 63
		}
		return uint64(1) << uint(7*(w-1))
	}
	for w := 1; w <= 10; w++ {
		m := &profile.Mapping{ID: wide(w) + 2, Start: wide(w), Limit: wide(w) + wide(w)/2 + 1, Offset: wide(11 - w), File: "/m", HasFilenames: w%2 == 0, HasLineNumbers: w%3 == 0, HasInlineFrames: w%4 == 0}
		f := &profile.Function{ID: wide(w) + 2, Name: "g", SystemName: "g", Filename: "g.go", StartLine: int64(wide(w))}
		if w == 10 {
			f.StartLine = -1
		}
		p.Mapping = append(p.Mapping, m)
		p.Function = append(p.Function, f)
		l := &profile.Location{ID: wide(w) + 2, Mapping: m, Address: wide(w), IsFolded: w%2 == 1,
			Line: []profile.Line{{Function: f, Line: int64(wide(w)), Column: int64(wide(11 - w))}, {Function: p.Function[0], Line: -int64(w)}}}
		p.Location = append(p.Location, l)
		p.Sample = append(p.Sample, &profile.Sample{Value: []int64{int64(wide(w)), -int64(w)}, Location: []*profile.Location{l},
			NumLabel: map[string][]int64{"n": {int64(wide(w)), -1}}, NumUnit: map[string][]string{"n": {"bytes", "bytes"}}})
	}
	p.TimeNanos, p.DurationNanos, p.Period = int64(wide(9)), -1, int64(wide(5))
	p.PeriodType = &profile.ValueType{Type: "cpu", Unit: "nanoseconds"}
	return p
}

// c02BoundaryCases lists the boundary inputs of one run; big = thorough tier (2^21).
func c02BoundaryCases(r *Rng, big bool) []c02BoundaryCase {
	var out []c02BoundaryCase
	add := func(name string, p *profile.Profile) { out = append(out, c02BoundaryCase{name, p}) }
	// stacks: sample sizes 0 … ~340 twice (value widths 1 and 2 … 9 shift the sizes)
	for lo := 0; lo <= 320; lo += 16 {
		add("stack", c02StackWindow(lo, lo+15, 1))
		add("stack", c02StackWindow(lo, lo+15, 2+r.Intn(8)))
	}
	add("stack-16k", c02StackWindow(16368, 16375, 1))
	add("stack-16k", c02StackWindow(16376, 16383, 1))
	add("stack-16k", c02StackWindow(16384, 16390, 1+r.Intn(3)))
	// locations: line lists 0 … 56 lines (sizes to ~350), and around 2^14
	for lo := 0; lo <= 56; lo += 8 {
		add("lines", c02LinesWindow(lo, lo+7))
	}
	add("lines-16k", c02LinesWindow(2727, 2731))
	// strings 0 … 335, around 2^14
	for lo := 0; lo <= 320; lo += 48 {
		add("string", c02StringWindow(lo, lo+47))
	}
	add("string-16k", c02StringWindow(16380, 16387))
	// label lists 0 … 63 entries × stack 0 … 5
	for lo := 0; lo <= 56; lo += 8 {
		add("labels", c02LabelWindow(lo, lo+7))
	}
	// packed value lists and comment lists around 128 bytes of payload, and small counts
	for _, n := range []int{1, 2, 3, 4, 62, 63, 64, 65, 126, 127, 128, 129, 130} {
		add("values", c02ValuesCount(n, 1))
		add("values", c02ValuesCount(n, 2))
	}
	for _, n := range []int{0, 1, 2, 3, 4, 126, 127, 128, 129, 130, 16383, 16384, 16385} {
		add("comments", c02CommentsCount(n))
	}
	add("varint-widths", c02VarintWidths())
	_ = big // the 2^21 cases are produced by c02BigBoundaryCases and run one at a time on a light path
	return out
}

// c02ElementSizes reads the sizes of the length-delimited elements back from written bytes.
func c02ElementSizes(b []byte, hit func(kind string, size int)) {
	root, ok := c02ParseWire(b, c02ProfSchema)
	if !ok {
		return
	}
	names := map[uint64]string{1: "valuetype", 2: "sample", 3: "mapping", 4: "location", 5: "function", 6: "string", 11: "valuetype", 13: "comments"}
	for _, f := range root {
		if f.wt != 2 {
			continue
		}
		if f.isMsg {
			hit(names[f.num], len(c02EncodeWire(f.sub)))
			for _, k := range f.sub {
				if k.wt == 2 && k.isMsg {
					hit(map[uint64]string{2: "label", 4: "line"}[f.num], len(c02EncodeWire(k.sub)))
				} else if k.wt == 2 {
					hit("packed", len(k.data))
				}
			}
		} else if n, ok := names[f.num]; ok {
			hit(n, len(f.data))
		}
	}
}

// c02BigBoundaryCases: the varint length boundary 2^21 (thorough tier only). One element per
// profile; they are built, checked and released one at a time (c02BigBoundary).
func c02BigBoundaryCases() []func() c02BoundaryCase {
	var out []func() c02BoundaryCase
	for _, n := range []int{2097141, 2097143, 2097145, 2097147} { // sample sizes 2097150 … 2097156
		n := n
		out = append(out, func() c02BoundaryCase { return c02BoundaryCase{"stack-2m", c02StackWindow(n, n, 1)} })
	}
	out = append(out, func() c02BoundaryCase { return c02BoundaryCase{"lines-2m", c02LinesWindow(349524, 349524)} })
	out = append(out, func() c02BoundaryCase { return c02BoundaryCase{"string-2m", c02StringWindow(2097150, 2097153)} })
	return out
}
