//go:build verif

package main

// C14 — legacy text and binary profiles convert with the documented values.
//
// Every case is a DOCUMENT MODEL of one legacy format (token form, read by the Lean driver's
// Driver/Ops/C14.lean).  The Lean model prints it (`legacy.print`) and gives its documented
// meaning (`legacy.expected`, canonical profile); the REAL profile.ParseData parses the printed
// bytes; the canonical result must equal the documented one (direct oracle; float-unsampled
// values within a tolerance, everything else exactly).  Correspondence: the Lean model of the
// whole of ParseData (`legacy.parsedata`: the protobuf decoder model first, then the parseLegacy
// dispatch) must give the same profile as the Go code.

import (
	"encoding/hex"
	"fmt"
	"math"
	"strings"

	"github.com/google/pprof/profile"
)

func init() { register("C14", runC14) }

type c14Case struct {
	Format string `json:"format"`
	Doc    string `json:"doc"`    // token form of the document (without the format word)
	Approx bool   `json:"approx"` // some sample values go through float unsampling
	Text   string `json:"text,omitempty"`
	// termination variant of the printed text: CRLF mask over the lines (bit i mod 64 = line i), last
	// line without terminator, bytes appended after the final terminator
	Mask    uint64 `json:"crlf_mask,omitempty"`
	NoFinal bool   `json:"no_final_newline,omitempty"`
	Extra   string `json:"extra_hex,omitempty"`
}

// ---------------------------------------------------------------------------------------------
// comparison

// sameProfile compares two canonical profiles; with approx, sample values may differ by
// 1 + 1e-9·|v| (float unsampling computed by two different libms), everything else is exact.
func c14Same(a, b string, approx bool) (bool, string) {
	if a == b {
		return true, ""
	}
	if !approx {
		return false, diffField(a, b)
	}
	pa, ea := ParseCanon(a)
	pb, eb := ParseCanon(b)
	if ea != nil || eb != nil {
		return false, "unparsable"
	}
	if len(pa.Sample) != len(pb.Sample) {
		return false, "sample-count"
	}
	for i := range pa.Sample {
		va, vb := pa.Sample[i].Value, pb.Sample[i].Value
		if len(va) != len(vb) {
			return false, "sample-values"
		}
		for j := range va {
			d := math.Abs(float64(va[j]) - float64(vb[j]))
			if d > 1+1e-9*math.Max(math.Abs(float64(va[j])), math.Abs(float64(vb[j]))) {
				return false, "sample-values"
			}
		}
		pb.Sample[i].Value = va
	}
	if Canon(pa) == Canon(pb) {
		return true, ""
	}
	return false, diffField(Canon(pa), Canon(pb))
}

func c14One(c *Ctx, cs c14Case) {
	line := cs.Format + " " + cs.Doc
	wf := c.Drv.Ask("legacy.wf " + line)
	if wf != "1" {
		c.Res.HarnessError = "generated document is not well-formed (" + wf + "): " + trunc(line)
		return
	}
	// preserving: the variant does not change the documented meaning (Driver: Doc.preserving)
	preserving := true
	var pr string
	if cs.Mask != 0 || cs.NoFinal || cs.Extra != "" {
		nf := "0"
		if cs.NoFinal {
			nf = "1"
		}
		pr = c.Drv.Ask(fmt.Sprintf("legacy.printv %d %s x%s %s", cs.Mask, nf, cs.Extra, line))
		if strings.HasPrefix(pr, "0 ") || strings.HasPrefix(pr, "1 ") {
			preserving = pr[0] == '1'
			pr = pr[2:]
		}
	} else {
		pr = c.Drv.Ask("legacy.print " + line)
	}
	if !strings.HasPrefix(pr, "x") {
		c.Disagree("C14/model-print/"+firstWord(pr), "model cannot print the document: "+trunc(pr), "Lean model of C14 (printer)", cs)
		return
	}
	data, err := hex.DecodeString(pr[1:])
	if err != nil {
		c.Res.HarnessError = "bad hex from driver"
		return
	}
	if cs.Format != "cpu" && cs.Format != "javacpu" {
		cs.Text = trunc(string(data))
	}
	exp := c.Drv.Ask("legacy.expected " + line)
	if !strings.HasPrefix(exp, "ok ") {
		c.Disagree("C14/model-expected/"+firstWord(exp), "model gives no expected profile: "+trunc(exp), "Lean model of C14 (expected)", cs)
		return
	}
	exp = exp[3:]

	// the real code
	var p *profile.Profile
	var perr error
	if pn := safely(func() { p, perr = profile.ParseData(data) }); pn != "" {
		c.Violation("C14/"+cs.Format+"/panic", "ParseData panics on a well-formed "+cs.Format+" document: "+pn, cs)
		return
	}
	if perr != nil && !preserving {
		// a termination the parsers are not promised to tolerate: only model and code must agree
		c.Res.Hit(cs.Format + ":obs:variant-rejected")
		c.Res.ModelCompared++
		if mp := c.Drv.Ask("legacy.parsedata " + hexTok(data)); !strings.HasPrefix(mp, "err ") {
			c.Disagree("C14/model-parse/"+cs.Format+"/accepts", "Go ParseData rejects the document (variant termination), the Lean model of ParseData does not: "+trunc(mp), "correspondence Legacy.parseDataReal ~ ParseData", cs)
		}
		return
	}
	if perr != nil {
		// two known ways in which a well-formed document never reaches its parser get their own
		// signatures; the Lean model of ParseData must fail on such a document too
		sig, what := "C14/"+cs.Format+"/rejected", "ParseData rejects a well-formed "+cs.Format+" document: "+perr.Error()
		switch {
		case strings.Contains(perr.Error(), "concatenated profiles detected"):
			sig = "C14/" + cs.Format + "/taken-for-concatenated-protobuf"
			what = "a well-formed " + cs.Format + " document in which the protobuf decoder (tried first) sees the time_nanos tag twice is refused as concatenated profiles: " + perr.Error()
		case c.Drv.Ask("legacy.chainok "+line) == "0":
			sig = "C14/" + cs.Format + "/taken-for-heap"
			what = "a threadz document whose first line, a thread header with a thread name that reads as a heap profile header, is claimed by parseHeap: " + perr.Error()
		}
		c.Violation(sig, what, cs)
		c.Res.ModelCompared++
		if mp := c.Drv.Ask("legacy.parsedata " + hexTok(data)); !strings.HasPrefix(mp, "err ") {
			c.Disagree("C14/model-parse/"+cs.Format+"/accepts", "Go ParseData rejects the printed document, the Lean model of ParseData does not: "+trunc(mp), "correspondence Legacy.parseDataReal ~ ParseData", cs)
		}
		return
	}
	got := Canon(p)
	// measured outcome distribution (which mechanisms of the conversion fired)
	c.Res.Hit(cs.Format + ":obs:mappings=" + bucket(len(p.Mapping)))
	for _, m := range p.Mapping {
		if m.Limit == ^uint64(0) && m.File == "" && m.Start == 0 {
			c.Res.Hit(cs.Format + ":obs:catch-all-mapping")
			break
		}
	}
	nomap, zero := 0, 0
	for _, l := range p.Location {
		if l.Mapping == nil {
			nomap++
		}
		if l.Address == 0 {
			zero++
		}
	}
	if nomap > 0 {
		c.Res.Hit(cs.Format + ":obs:location-without-mapping")
	}
	if len(p.Location) > 0 {
		c.Res.Hit(cs.Format + ":obs:locations=" + bucket(len(p.Location)))
	}
	okOracle, where := true, ""
	if preserving {
		okOracle, where = c14Same(exp, got, cs.Approx)
	}
	if !okOracle {
		// a well-formed legacy document that is at the same time a syntactically valid protobuf
		// message is taken for an (empty) protobuf profile: classify separately
		if q, e := profile.ParseUncompressed(data); e == nil && Canon(q) == got {
			c.Violation("C14/"+cs.Format+"/taken-for-protobuf", "a well-formed "+cs.Format+" document that also decodes as a protobuf message is returned as that (empty) protobuf profile", cs)
		} else {
			c.Violation("C14/"+cs.Format+"/"+where, "ParseData result differs from the documented conversion in "+where, cs)
		}
	}
	// correspondence with the Lean model of the whole of ParseData: the protobuf decoder model
	// (Codec.parseUncompressed) first, then the parseLegacy dispatch. It is compared even when the
	// oracle failed: on a document taken for protobuf the model must say so too.
	c.Res.ModelCompared++
	mp := c.Drv.Ask("legacy.parsedata " + hexTok(data))
	if !strings.HasPrefix(mp, "ok ") {
		c.Disagree("C14/model-parse/"+cs.Format+"/"+firstWord(mp), "Lean model of ParseData does not accept the printed document: "+trunc(mp), "theorems parseData_printX ("+cs.Format+") / correspondence Legacy.parseDataReal ~ ParseData", cs)
		return
	}
	if same, w := c14Same(mp[3:], got, cs.Approx); !same {
		c.Disagree("C14/model-parse/"+cs.Format+"/"+w, "Lean model of ParseData and Go ParseData differ on the printed document ("+w+")", "correspondence Legacy.parseDataReal ~ ParseData", cs)
	}
}

// ---------------------------------------------------------------------------------------------
// generators (token form; field order = Driver/Ops/C14.lean readers)

type c14Gen struct {
	r      *Rng
	c      *Ctx
	w      *tw
	pool   []uint64 // addresses used by this document
	used   []uint64 // addresses that occur in some sample stack
	max    uint64   // exclusive bound on addresses (2^32 for 32-bit CPU profiles), 0 = 2^64
	approx bool
	nrec   int
	naddr  int
	noAt   bool // comments must not contain '@' (Java)
	w64    bool // CPU word size
	tags   []string
}

func (g *c14Gen) tag(s string) { g.tags = append(g.tags, s) }

func (g *c14Gen) optNat(present bool, v uint64) {
	if present {
		g.w.n(1)
		g.w.nat(v)
	} else {
		g.w.n(0)
	}
}
func (g *c14Gen) optStr(present bool, v string) {
	if present {
		g.w.n(1)
		g.w.str(v)
	} else {
		g.w.n(0)
	}
}

const c14CommentAlphabet = "abcdefghijklmnopqrstuvwxyzABCDEFGHIJKLMNOPQRSTUVWXYZ0123456789 -_.,;!?()[]<>/#@*+%&'\"~|{}^`\\"

func (g *c14Gen) text(alpha string, lo, hi int) string {
	n := lo + g.r.Intn(hi-lo+1)
	var sb strings.Builder
	for i := 0; i < n; i++ {
		ch := alpha[g.r.Intn(len(alpha))]
		if g.noAt && ch == '@' {
			ch = 'a'
		}
		sb.WriteByte(ch)
	}
	return sb.String()
}

var c14Comments = []string{" heap profile 1 2 [3 4] @ heap/1", " 5 @ 0x10 0x20", " --- Memory map ---", "MAPPED_LIBRARIES", " 0x400000-0x500000 /bin/x", " same as previous thread", "", " total 7", " 1 2 @ 0x1"}

func (g *c14Gen) filler() {
	g.w.n(g.r.Intn(4))
	if g.r.Chance(60) {
		g.w.n(1)
		if g.r.Chance(40) {
			t := c14Comments[g.r.Intn(len(c14Comments))]
			if g.noAt {
				t = strings.ReplaceAll(t, "@", "a")
			}
			g.w.str(t)
		} else {
			g.w.str(g.text(c14CommentAlphabet, 0, 20))
		}
	} else {
		g.w.n(0)
	}
}

func (g *c14Gen) fillers(p int) {
	n := 0
	for n < 3 && g.r.Chance(p) {
		n++
	}
	g.w.n(n)
	for i := 0; i < n; i++ {
		g.filler()
	}
}

func (g *c14Gen) width() { g.w.n([]int{0, 0, 0, 8, 12, 16, 3}[g.r.Intn(7)]) }

// address pool: a main binary around 0x400000, libraries high up, and boundary values.
func (g *c14Gen) mkPool() {
	r := g.r
	bases := []uint64{0x400000, 0x401000, 0x7f0000001000, 0x7f0000200000, 0x10000, 0x500000}
	n := 3 + r.Intn(12)
	for i := 0; i < n; i++ {
		var a uint64
		switch r.Intn(10) {
		case 0:
			a = []uint64{0, 1, 2, 0x400000, 0x400001, 1<<32 - 1, 1 << 32, 1<<63 - 1, 1 << 63, 1<<64 - 1, 1<<64 - 2}[r.Intn(11)]
		case 1:
			a = r.U64()
		default:
			a = bases[r.Intn(len(bases))] + uint64(r.Intn(0x3000))
		}
		if g.max != 0 {
			a %= g.max
		}
		g.pool = append(g.pool, a)
	}
}

func (g *c14Gen) addr() uint64 { return g.pool[g.r.Intn(len(g.pool))] }

func (g *c14Gen) stack(minLen int) []uint64 {
	n := minLen + g.r.Intn(6)
	if g.r.Chance(5) {
		n = minLen + g.r.Intn(40)
	}
	st := make([]uint64, n)
	for i := range st {
		st[i] = g.addr()
	}
	return st
}

func (g *c14Gen) addrs(st []uint64) {
	g.w.n(len(st))
	for _, a := range st {
		g.w.nat(a)
	}
	g.naddr += len(st)
	g.used = append(g.used, st...)
}

var c14Files = []string{"/bin/prog", "/usr/bin/app(deleted)", "/lib/libc-2.15.so", "/lib/libm.so.6", "/lib/x.so_1", "[vdso]", "[vsyscall]", "/anon_hugepage", "/anon_hugepage(deleted)", "/home/u/cppbench_server_main", "/opt/a.so.x", "/(deleted)"}

func (g *c14Gen) perm() { g.w.n(g.r.Intn(6)) }

// one entry; returns nothing, regions are drawn around the address pool so that they matter.
func (g *c14Gen) mapEntry(start, limit uint64) {
	r := g.r
	g.w.n(r.Intn(3))       // indent
	g.w.bool(r.Chance(25)) // 0x
	g.width()
	g.w.nat(start)
	g.w.nat(limit)
	g.w.n(r.Intn(3)) // gap
	file := c14Files[r.Intn(len(c14Files))]
	off := uint64(0)
	switch r.Intn(4) {
	case 0:
		off = uint64(r.Intn(4)) * 0x1000
	case 1:
		off = start - 0x400000 // makes start-offset == 0x400000
	case 2:
		off = uint64(r.Intn(0x3000))
	}
	if r.Chance(45) {
		g.tag("map:proc")
		g.w.n(0)
		if r.Chance(75) {
			g.w.n([]int{0, 3, 5}[r.Intn(3)])
		} else {
			g.perm()
		}
		g.w.nat(off)
		g.w.n(r.Intn(256))
		g.w.n(r.Intn(256))
		g.w.n(r.Intn(100000))
		g.optStr(r.Chance(85), file)
	} else {
		g.tag("map:brief")
		g.w.n(1)
		g.w.bool(r.Chance(50))
		if r.Chance(35) {
			g.w.n(1)
			if r.Chance(75) {
				g.w.n([]int{0, 3, 5}[r.Intn(3)])
			} else {
				g.perm()
			}
		} else {
			g.w.n(0)
		}
		hasFile := r.Chance(85)
		g.optStr(hasFile, file)
		g.optNat(hasFile && r.Chance(40), off)
		g.optStr(hasFile && r.Chance(40), []string{"abc123", "DEADBEEF", "0", "12ab34cd56ef"}[r.Intn(4)])
	}
}

// attribute names: word characters, first byte not a hex digit; any two names used in one section
// must not be prefixes of each other (strings.Replacer picks the first matching key).
var c14AttrNames = []string{"source", "root", "lib", "prefix", "home_dir", "r2", "G", "s", "sourcedir", "_x"}
var c14AttrValues = []string{"/home", "/usr/lib", "/opt/a=b", "[x]", "/very/long/path/to/some/dir", "/h[1]", "/", "/x.so.1"}
var c14RefSuffixes = []string{"", "/cppbench_server_main", "/lib/libc-2.15.so", ".so", "(deleted)", "/[v]", "/bin/prog", "-1.so"}
var c14LogTexts = []string{"W1220 15:07:15.201776    8272 logger.cc", "I0101 00:00:00.000000 1 a.go", "x", "E0302 01:02:03.4 77 dir/file with blanks.cc", "a:1", "7"}

func (g *c14Gen) optLog() {
	if g.r.Chance(25) {
		g.tag("map:glog-prefix")
		g.w.n(1)
		g.w.str(c14LogTexts[g.r.Intn(len(c14LogTexts))])
		g.w.n([]int{0, 1, 12033, 99999999}[g.r.Intn(4)])
	} else {
		g.w.n(0)
	}
}

func c14PrefixFree(name string, defined []string) bool {
	for _, d := range defined {
		if strings.HasPrefix(name, d) || strings.HasPrefix(d, name) {
			return false
		}
	}
	return true
}

func (g *c14Gen) mapSection() {
	r := g.r
	n := r.Intn(6)
	var defined []string
	type slot struct {
		kind int // 0 entry, 1 entry with $ref, 2 attribute line
		name string
	}
	var slots []slot
	useAttrs := r.Chance(40)
	for i := 0; i < n; i++ {
		if useAttrs && r.Chance(40) {
			name := c14AttrNames[r.Intn(len(c14AttrNames))]
			if c14PrefixFree(name, defined) {
				defined = append(defined, name)
				slots = append(slots, slot{2, name})
			}
		}
		if len(defined) > 0 && r.Chance(60) {
			slots = append(slots, slot{1, defined[r.Intn(len(defined))]})
		} else {
			slots = append(slots, slot{0, ""})
		}
	}
	g.w.n(len(slots))
	var prevLimit uint64
	first := true
	lastEntry := -1
	for i, sl := range slots {
		if sl.kind != 2 {
			lastEntry = i
		}
	}
	for si, sl := range slots {
		g.fillers(15)
		if sl.kind == 2 {
			g.tag("map:attr-line")
			g.w.n(2)
			g.optLog()
			g.w.n(r.Intn(4))
			g.w.str(sl.name)
			g.w.bool(r.Chance(30))
			g.w.str(c14AttrValues[r.Intn(len(c14AttrValues))])
			continue
		}
		var start, limit uint64
		switch {
		case si == lastEntry && len(g.used) > 0 && r.Chance(60):
			// the last line of the section covers an address some sample uses (call sites are moved
			// back by one), so that losing the line is visible
			a := g.used[r.Intn(len(g.used))]
			if a > 0 {
				a--
			}
			start = a &^ 0xfff
			limit = start + uint64(1+r.Intn(4))*0x1000
			g.tag("map:last-line-referenced")
		case !first && r.Chance(35): // adjacent to the previous entry
			start = prevLimit
			limit = start + uint64(1+r.Intn(4))*0x1000
		case r.Chance(70): // around a pool address
			a := g.addr()
			start = a &^ 0xfff
			if r.Chance(30) && start >= 0x2000 {
				start += 0x1000 // just above: exercises the offset work-around
			}
			limit = start + uint64(1+r.Intn(4))*0x1000
		default:
			start = uint64(r.Intn(1 << 20))
			limit = start + uint64(r.Intn(1<<16))
		}
		first = false
		prevLimit = limit
		g.w.n(sl.kind)
		g.optLog()
		g.mapEntry(start, limit)
		if sl.kind == 1 {
			g.tag("map:$attr-reference")
			g.w.str(sl.name)
			g.w.str(c14RefSuffixes[r.Intn(len(c14RefSuffixes))])
		}
	}
	g.fillers(15)
}

func (g *c14Gen) optMap(p int) bool {
	if g.r.Chance(p) {
		g.w.n(1)
		g.mapSection()
		g.tag("map:yes")
		return true
	}
	g.w.n(0)
	g.tag("map:no")
	return false
}

func (g *c14Gen) nrecs() int {
	switch g.r.Intn(10) {
	case 0:
		return 0
	case 1:
		return 1
	case 2:
		return 20 + g.r.Intn(60)
	default:
		return 1 + g.r.Intn(8)
	}
}

func (g *c14Gen) count() uint64 {
	switch g.r.Intn(8) {
	case 0:
		return 0
	case 1:
		return 1
	case 2:
		return uint64(g.r.U64() >> 1) // up to 2^63-1
	default:
		return uint64(g.r.Intn(100000))
	}
}

func genCount(g *c14Gen) {
	r := g.r
	g.fillers(30)
	g.w.str([]string{"goroutine", "threadcreate", "heapx", "x", "a/b-c", "---x", "total"}[r.Intn(7)])
	g.w.nat(g.count())
	g.width()
	n := g.nrecs()
	g.nrec = n
	g.w.n(n)
	for i := 0; i < n; i++ {
		g.fillers(15)
		g.w.nat(g.count())
		g.addrs(g.stack(1))
	}
	g.fillers(20)
	g.optMap(50)
}

func genHeap(g *c14Gen) {
	r := g.r
	kind := r.Intn(8)
	g.w.n(kind)
	g.tag(fmt.Sprintf("heapkind:%d", kind))
	// header totals decide whether alloc columns are reported
	tin, tib := uint64(r.Intn(1000)), uint64(r.Intn(1000000))
	tan, tab := tin, tib
	switch r.Intn(5) {
	case 0:
		tan, tab = 0, 0
	case 1:
		tan = tin + 1 + uint64(r.Intn(5))
	case 2:
		tab = tib + 1 + uint64(r.Intn(5))
	case 3:
		tan, tab = uint64(r.Intn(3)), uint64(r.Intn(3))
	}
	g.w.nat(tin)
	g.w.nat(tib)
	g.w.nat(tan)
	g.w.nat(tab)
	hasAlloc := kind < 4 && ((tan != tin && tan != 0) || (tab != tib && tab != 0))
	if hasAlloc {
		g.tag("heap:alloc-columns")
	} else {
		g.tag("heap:inuse-only")
	}
	var rate uint64
	hasRate := r.Chance(85)
	if hasRate {
		rate = []uint64{0, 1, 2, 3, 4, 5, 1024, 524288, 1 << 20, 512}[r.Intn(10)]
	}
	g.optNat(hasRate, rate)
	period := uint64(1)
	v2 := false
	switch kind {
	case 0, 1:
		period, v2 = rate, true
	case 3:
		period, v2 = rate/2, true
	}
	if !hasRate && v2 {
		period = 0
	}
	if v2 {
		switch {
		case !hasRate:
			g.tag("heap:v2,rate=absent")
		case period == 0:
			g.tag("heap:v2,period=0")
		case period == 1:
			g.tag("heap:v2,period=1")
		case period == 2:
			g.tag("heap:v2,period=2")
		default:
			g.tag("heap:v2,period>2")
		}
	}
	g.w.n(r.Intn(3)) // pad
	g.width()
	n := g.nrecs()
	g.nrec = n
	g.w.n(n)
	pair := func() (uint64, uint64) {
		switch r.Intn(6) {
		case 0:
			return 0, 0
		case 1:
			c := uint64(1 + r.Intn(100))
			return c, 0
		default:
			c := uint64(1 + r.Intn(100000))
			s := c * uint64(1+r.Intn(5000))
			if r.Chance(30) {
				s += uint64(r.Intn(int(c)))
			}
			if v2 && period > 1 && s != 0 {
				g.approx = true
			}
			return c, s
		}
	}
	for i := 0; i < n; i++ {
		g.fillers(15)
		g.w.n(r.Intn(6))
		a, b := pair()
		// the in-use columns are signed (`(-?\d+)`: difference profiles): each column
		// independently negative, mixed signs, -1, and magnitudes up to MinInt64 where no float
		// arithmetic is involved (a count of exactly 0 still requires 0 bytes)
		ia, ib := int64(a), int64(b)
		floatPath := v2 && period > 1
		switch r.Intn(10) {
		case 0, 1:
			ia, ib = -ia, -ib
			if ia != 0 {
				g.tag("heap:inuse-both-negative")
			}
		case 2:
			ia = -ia
			if ia != 0 && ib != 0 {
				g.tag("heap:inuse-mixed-sign")
			}
		case 3:
			if ia != 0 {
				ib = -ib
				if ib != 0 {
					g.tag("heap:inuse-mixed-sign")
				}
			}
		case 4:
			if ia != 0 {
				ia, ib = -1, -int64(1+r.Intn(5000))
				g.tag("heap:inuse-count=-1")
			}
		case 5:
			if !floatPath {
				ia = []int64{math.MinInt64, math.MinInt64 + 1, -(1 << 62), math.MaxInt64, -1, 1, -3}[r.Intn(7)]
				ib = []int64{math.MinInt64, math.MinInt64 + 1, math.MaxInt64, -(1 << 62) - 5, 0, -1}[r.Intn(6)]
				g.tag("heap:inuse-extreme-magnitude")
			}
		}
		if floatPath && ia != 0 && ib != 0 {
			g.approx = true
		}
		g.w.int(ia)
		g.w.int(ib)
		if hasAlloc {
			a, b = pair()
		} else if r.Chance(50) {
			a, b = uint64(r.Intn(100)), uint64(r.Intn(100)) // ignored columns
		}
		g.w.nat(a)
		g.w.nat(b)
		g.addrs(g.stack(0))
	}
	g.fillers(20)
	g.w.bool(r.Chance(40))
	g.optMap(50)
}

func genContention(g *c14Gen) {
	r := g.r
	switch r.Intn(3) {
	case 0:
		g.w.n(0)
		g.w.n(r.Intn(3))
	case 1:
		g.w.n(1)
	default:
		g.w.n(2)
	}
	// sampling period x cycles/second: every combination of {absent, <0, 0, 1, >1} x {absent, <0, 0, >0}
	// (strconv.ParseInt(_, 0, 64) admits negative values); an attribute may be given twice (the
	// later line wins), other attributes are mixed in
	type attr struct {
		key int
		v   int64
	}
	var attrs []attr
	period, hz := int64(1), int64(0)
	pcase, hcase := r.Intn(8), r.Intn(7)
	ptag, htag := "absent", "absent"
	if pcase > 0 {
		period = []int64{0, 0, 1, 2, 100, 1000, -1, -100}[pcase]
		if r.Chance(20) {
			attrs = append(attrs, attr{1, []int64{0, 1, 7, -7}[r.Intn(4)]}) // overridden below
		}
		attrs = append(attrs, attr{1, period})
		ptag = []string{"", "0", "1", ">1", ">1", ">1", "<0", "<0"}[pcase]
	}
	if hcase > 0 {
		hz = []int64{0, 0, 1000000, 1000000000, 3201000000, -1, -1000000000}[hcase]
		if r.Chance(20) {
			attrs = append(attrs, attr{0, []int64{0, 2000000000, -2000000000}[r.Intn(3)]}) // overridden below
		}
		attrs = append(attrs, attr{0, hz})
		htag = []string{"", "0", ">0", ">0", ">0", "<0", "<0"}[hcase]
	}
	g.tag("contention:period=" + ptag + ",hz=" + htag)
	if r.Chance(50) {
		ms := int64(r.Intn(1 << 30))
		switch r.Intn(6) {
		case 0:
			ms = -ms
		case 1:
			ms = []int64{math.MinInt64, math.MaxInt64, -1}[r.Intn(3)]
		}
		attrs = append(attrs, attr{2, ms})
	}
	if r.Chance(50) {
		attrs = append(attrs, attr{3, int64(r.Intn(100)) - 10})
	}
	// shuffle, keeping the relative order of equal keys (the later assignment must stay later)
	for i := len(attrs) - 1; i > 0; i-- {
		j := r.Intn(i + 1)
		if attrs[i].key != attrs[j].key {
			ok := true
			lo, hi := j, i
			for x := lo; x <= hi; x++ {
				if x != i && x != j && (attrs[x].key == attrs[i].key || attrs[x].key == attrs[j].key) {
					ok = false
				}
			}
			if ok {
				attrs[i], attrs[j] = attrs[j], attrs[i]
			}
		}
	}
	g.w.n(len(attrs))
	for _, a := range attrs {
		g.fillers(15)
		g.w.n(r.Intn(3))
		g.w.n(a.key)
		g.w.int(a.v)
		g.w.bool(r.Bool())
	}
	if period > 0 && hz > 0 {
		g.approx = true
		g.tag("contention:cycles-scaled")
	} else if period > 0 {
		g.tag("contention:count-scaled")
	} else {
		g.tag("contention:raw")
	}
	g.width()
	n := g.nrecs()
	g.nrec = n
	g.w.n(n)
	for i := 0; i < n; i++ {
		g.fillers(15)
		g.w.n(r.Intn(6))
		g.w.nat(uint64(r.U64() >> (24 + uint(r.Intn(40))))) // cycles < 2^40
		g.w.nat(uint64(r.Intn(1 << 20)))                    // count
		g.w.n(r.Intn(4))
		g.addrs(g.stack(0))
	}
	g.fillers(20)
	g.optMap(50)
}

const c14SymAlphabet = "abcdefghijklmnopqrstuwxyzABCDEFGHIJKLMNOPQRSTUVWXYZ123456789 _:()*<>,.-[]&~"

func genThread(g *c14Gen) {
	r := g.r
	g.fillers(25)
	hasHead := r.Chance(75)
	n := g.nrecs()
	if !hasHead && n == 0 {
		n = 1
	}
	if hasHead {
		g.w.n(1)
		g.w.n(r.Intn(3))
		g.fillers(40)
	} else {
		g.w.n(0)
	}
	g.width()
	g.nrec = n
	g.w.n(n)
	for i := 0; i < n; i++ {
		g.w.nat(r.U64() >> uint(r.Intn(60)))
		g.w.str([]string{"main", "thread1", "a/b", "x (name: y/2) z", "", "worker/7) stack: --- "}[r.Intn(6)])
		g.w.n(r.Intn(100000))
		if r.Chance(30) {
			g.tag("thread:same-as-previous")
			if i == 0 {
				g.tag("thread:same-first")
			}
			g.w.n(0)
			g.w.n(r.Intn(2))
			g.w.n(r.Intn(4))
			continue
		}
		g.w.n(1)
		st := g.stack(1)
		if len(st) > 1 && r.Chance(30) {
			st[1] = st[0] // duplicated leaf
			g.tag("thread:dup-leaf")
		}
		// split the stack over lines
		var lines [][]uint64
		if r.Bool() {
			for _, a := range st {
				lines = append(lines, []uint64{a})
			}
		} else {
			for len(st) > 0 {
				k := 1 + r.Intn(len(st))
				lines = append(lines, st[:k])
				st = st[k:]
			}
			if r.Chance(20) {
				lines = append(lines, nil)
			}
		}
		g.w.n(len(lines))
		for j, l := range lines {
			g.w.n([]int{0, 0, 0, 1}[r.Intn(4)])
			g.w.n(r.Intn(7))
			switch {
			case j == 0 && r.Chance(70):
				g.w.n(1 + r.Intn(2))
			case j > 0 && r.Chance(20):
				g.w.n(3)
			default:
				g.w.n(0)
			}
			g.addrs(l)
			g.optStr(r.Chance(50), g.text(c14SymAlphabet, 0, 16))
		}
	}
	if r.Chance(70) {
		g.w.n(0)
		g.mapSection()
		g.tag("map:yes")
	} else {
		g.w.n(1)
		g.w.n(r.Intn(10))
		g.optMap(50)
	}
}

// exceptions picks how many of n samples lack the shared frame: boundary-exact around the
// margin n/32 of cpuProfile (0, 1, margin, margin+1, inside, well beyond).
func c14Exceptions(r *Rng, n int) (int, string) {
	margin := n / 32
	var k int
	switch r.Intn(7) {
	case 0:
		k = 0
	case 1:
		k = 1
	case 2, 3:
		k = margin
	case 4:
		k = margin + 1
	case 5:
		k = r.Intn(margin + 1)
	default:
		k = margin + 2 + r.Intn(3)
	}
	if k > n {
		k = n
	}
	switch {
	case k == 0:
		return k, "k=0"
	case k < margin:
		return k, "0<k<margin"
	case k == margin:
		return k, "k=margin>0"
	case k == margin+1:
		return k, "k=margin+1"
	}
	return k, "k>margin+1"
}

func c14Pick(r *Rng, n, k int) map[int]bool {
	m := map[int]bool{}
	for len(m) < k && len(m) < n {
		m[r.Intn(n)] = true
	}
	return m
}

func genCpu(g *c14Gen) {
	r := g.r
	big, w64 := r.Bool(), g.w64
	g.tag(fmt.Sprintf("cpu:big=%v,w64=%v", big, w64))
	g.w.bool(big)
	g.w.bool(w64)
	bound := uint64(1 << 32)
	if w64 {
		bound = 0
	}
	per := []uint64{1, 100, 1000, 10000, 9999, 1 << 31}[r.Intn(6)]
	g.w.nat(per)
	// number of samples: around the multiples of 32 that move the margin n/32
	var n int
	switch r.Intn(10) {
	case 0, 1:
		n = g.nrecs()
	case 2:
		n = 32 + r.Intn(120)
	default:
		n = []int{31, 32, 33, 63, 64, 65, 95, 96, 97, 127, 128, 129}[r.Intn(12)]
	}
	g.nrec = n
	g.w.n(n)
	switch {
	case n < 32:
		g.tag("cpu:n<32")
	case n%32 == 0:
		g.tag("cpu:n=32m")
	case n%32 == 31:
		g.tag("cpu:n=32m-1")
	case n%32 == 1:
		g.tag("cpu:n=32m+1")
	default:
		g.tag("cpu:n>=32,other")
	}
	// Signal-handler frames: fresh addresses (not in the pool), so the number of samples that
	// share them is exactly what is constructed here. Layer 1 = second frame of the samples as
	// parsed; layer 2 = second frame after layer 1 has been removed (second iteration).
	sig, sig2 := uint64(0x7ffe1000), uint64(0x7ffe2000)
	shared := r.Chance(80)
	two := shared && r.Chance(50)
	k1, k2 := 0, 0
	ex1, ex2 := map[int]bool{}, map[int]bool{}
	if shared {
		var t1 string
		k1, t1 = c14Exceptions(r, n)
		g.tag("cpu:iter1:" + t1)
		ex1 = c14Pick(r, n, k1)
		if two {
			var t2 string
			k2, t2 = c14Exceptions(r, n)
			if r.Bool() {
				// keep the first layer clean so that the second iteration sits exactly on its boundary
				ex1 = map[int]bool{}
				g.tag("cpu:iter2(after clean iter1):" + t2)
			} else {
				g.tag("cpu:iter2:" + t2)
			}
			ex2 = c14Pick(r, n, k2)
		}
	} else {
		g.tag("cpu:no-shared-frame")
	}
	for i := 0; i < n; i++ {
		cnt := uint64(r.Intn(1000))
		if r.Chance(5) {
			cnt = r.U64()
		}
		if bound != 0 {
			cnt %= bound
		}
		leaf := g.addr()
		rest := g.stack(0)
		if len(rest) > 0 && r.Chance(15) {
			rest[0] = leaf // duplicated leaf (visible once the frames in front of it are gone)
			g.tag("cpu:dup-leaf")
		}
		var st []uint64
		switch {
		case !shared:
			if r.Chance(85) {
				st = append([]uint64{leaf}, rest...)
			}
		case ex1[i]:
			// a sample that lacks the shared second frame
			switch r.Intn(4) {
			case 0:
				st = nil // empty stack
			case 1:
				st = []uint64{leaf} // no second frame at all
			case 2:
				if two {
					st = append([]uint64{leaf, sig2}, rest...) // joins the others in the second iteration
					break
				}
				fallthrough
			default:
				st = append([]uint64{leaf, g.addr()}, rest...)
			}
		case two && ex2[i]:
			// shares layer 1 but not layer 2
			if r.Bool() {
				st = []uint64{leaf, sig}
			} else {
				st = append([]uint64{leaf, sig, g.addr()}, rest...)
			}
		case two:
			st = append([]uint64{leaf, sig, sig2}, rest...)
		default:
			st = append([]uint64{leaf, sig}, rest...)
		}
		if cnt == 0 && len(st) == 1 && st[0] == 0 {
			cnt = 1 // would be the end marker
		}
		g.w.nat(cnt)
		g.addrs(st)
	}
	// without the end marker the last record ends exactly at the end of the buffer
	// (the `nstk > len(b)/4` check sits on its boundary for 32-bit words)
	eod := r.Chance(75)
	g.w.bool(eod)
	if eod {
		g.optMap(60)
	} else {
		g.w.n(0)
		g.tag(fmt.Sprintf("cpu:no-end-marker,w64=%v", w64))
	}
}

const c14NameAlphabet = "abcdefghijklmnopqrstuvwxyzABCDEFGHIJKLMNOPQRSTUVWXYZ0123456789_.$<>:/-"

func genJava(g *c14Gen) {
	r := g.r
	g.noAt = true
	heap := r.Bool()
	if heap {
		g.tag("java:heapz")
		g.approx = true
	} else {
		g.tag("java:contentionz")
	}
	g.w.bool(heap)
	g.w.bool(r.Chance(80))
	g.w.str([]string{"bytes", "microseconds", "nanoseconds", "x", "kB_2"}[r.Intn(5)])
	g.optNat(r.Chance(70), []uint64{0, 1, 100, 7}[r.Intn(4)])
	g.optNat(r.Chance(70), uint64(r.Intn(1<<30)))
	g.w.bool(r.Bool())
	g.width()
	n := g.nrecs()
	g.nrec = n
	g.w.n(n)
	for i := 0; i < n; i++ {
		g.w.n([]int{0, 0, 0, 1, 2}[r.Intn(5)])
		g.w.n(r.Intn(10))
		if heap {
			c := uint64(1 + r.Intn(1000))
			s := c * uint64(1+r.Intn(100000))
			if r.Chance(10) {
				s = 0
			}
			g.w.nat(s) // first = bytes
			g.w.nat(c) // second = objects
		} else {
			g.w.nat(uint64(r.Intn(1 << 30)))
			g.w.nat(uint64(r.Intn(1 << 20)))
		}
		g.w.n(r.Intn(4))
		g.addrs(g.stack(1))
	}
	g.w.n(r.Intn(3))
	g.javaLocs()
}

// javaLocs writes the trailer of a Java profile: most pool addresses get a line, some twice,
// some unknown addresses too.
func (g *c14Gen) javaLocs() {
	r := g.r
	var locs []uint64
	for _, a := range g.pool {
		if r.Chance(80) {
			locs = append(locs, a)
		}
		if r.Chance(10) {
			locs = append(locs, a)
		}
	}
	for i := r.Intn(3); i > 0; i-- {
		locs = append(locs, uint64(r.Intn(1<<16)))
	}
	if len(g.used) > 0 && r.Chance(75) {
		// the last line of the trailer names an address some sample uses, so that losing it is visible
		locs = append(locs, g.used[r.Intn(len(g.used))])
		g.tag("java:last-trailer-line-referenced")
	}
	funcs := []string{"com.example.Foo.bar", "java.lang.Object.<init>", "f", "GC", "VM", "a.b$c", "x::y"}
	g.w.n(len(locs))
	for _, a := range locs {
		g.fillers(10)
		g.w.n(r.Intn(3))
		g.width()
		g.w.nat(a)
		g.w.n(r.Intn(3))
		fn := funcs[r.Intn(len(funcs))]
		if r.Chance(30) {
			fn = g.text(c14NameAlphabet, 1, 12)
		}
		switch r.Intn(6) {
		case 0, 1, 2:
			g.w.n(0)
			g.w.str(fn)
			g.w.str([]string{"Foo.java", "a/b/C.java", "x", "Source003.java"}[r.Intn(4)])
			g.w.int([]int64{103, 1, 0, -1, -5, 99999, 1<<62 + 5}[r.Intn(7)])
		case 3:
			g.w.n(1)
			g.w.str(fn)
			g.w.str([]string{"/usr/lib/libjvm.so", "libfoo.so", "/a/b/", "/", "x/y"}[r.Intn(5)])
		case 4:
			g.w.n(2)
			g.w.str([]string{"", "[", "a "}[r.Intn(3)])
			g.w.str([]string{"", "]", " b"}[r.Intn(3)])
		default:
			g.w.n(3)
			g.w.str([]string{"GC", "VM", "a b c", "foo (bar", "Interpreter"}[r.Intn(5)])
		}
	}
}

// binary Java CPU profile: the word layout of genCpu with third header word 1, then the Java
// location trailer; addresses are not adjusted and no frame is removed.
func genJavaCpu(g *c14Gen) {
	r := g.r
	big, w64 := r.Bool(), g.w64
	g.tag(fmt.Sprintf("javacpu:big=%v,w64=%v", big, w64))
	g.w.bool(big)
	g.w.bool(w64)
	bound := uint64(1 << 32)
	if w64 {
		bound = 0
	}
	g.w.nat([]uint64{1, 100, 1000, 10000, 9999, 1 << 31}[r.Intn(6)])
	n := g.nrecs()
	if r.Chance(20) {
		n = []int{31, 32, 33, 64}[r.Intn(4)]
	}
	g.nrec = n
	g.w.n(n)
	for i := 0; i < n; i++ {
		cnt := uint64(r.Intn(1000))
		if r.Chance(5) {
			cnt = r.U64()
		}
		if bound != 0 {
			cnt %= bound
		}
		var st []uint64
		if r.Chance(90) {
			st = g.stack(1)
			if len(st) > 1 && r.Chance(20) {
				st[1] = st[0] + 1 // would be a duplicated leaf in a C++ profile: must be kept here
				if bound != 0 {
					st[1] %= bound
				}
				g.tag("javacpu:dup-leaf-kept")
			}
		}
		if cnt == 0 && len(st) == 1 && st[0] == 0 {
			cnt = 1 // would be the end marker
		}
		g.w.nat(cnt)
		g.addrs(st)
	}
	eod := r.Chance(80)
	g.w.bool(eod)
	if eod {
		g.w.n(r.Intn(3))
		g.javaLocs()
		g.tag("javacpu:trailer")
	} else {
		g.w.n(0)
		g.w.n(0)
		g.tag(fmt.Sprintf("javacpu:no-end-marker,w64=%v", w64))
	}
}

var c14Formats = []struct {
	name string
	gen  func(*c14Gen)
}{
	{"count", genCount}, {"heap", genHeap}, {"contention", genContention},
	{"thread", genThread}, {"cpu", genCpu}, {"java", genJava}, {"javacpu", genJavaCpu},
}

func c14Generate(c *Ctx, r *Rng, fi int) (c14Case, *c14Gen) {
	f := c14Formats[fi]
	g := &c14Gen{r: r, c: c, w: &tw{}}
	if f.name == "cpu" || f.name == "javacpu" {
		g.w64 = r.Bool()
		if !g.w64 {
			g.max = 1 << 32 // 32-bit words: 32-bit addresses
		}
	}
	g.mkPool()
	f.gen(g)
	cs := c14Case{Format: f.name, Doc: g.w.String(), Approx: g.approx}
	// termination / line-ending variant of the printed text (drawn after the document, so the
	// documents of a seed do not depend on it)
	if r.Chance(55) {
		switch r.Intn(4) {
		case 0:
			cs.Mask = ^uint64(0)
			g.tag("term:crlf-throughout")
		case 1:
			cs.Mask = r.U64()
			g.tag("term:crlf-mixed")
		}
		if r.Chance(45) {
			cs.NoFinal = true
			g.tag("term:no-final-newline")
		} else if r.Chance(60) {
			extra := []string{"\n", "\r\n", " \t", "\n\n \t \n", "\t", "\x00", "\x00\n"}[r.Intn(7)]
			cs.Extra = hex.EncodeToString([]byte(extra))
			g.tag("term:extra=" + fmt.Sprintf("%q", extra))
		}
	}
	return cs, g
}

// ---------------------------------------------------------------------------------------------
// ParseProcMaps on realistic memory maps (pprof's own test inputs and variants): the exported
// entry point of the memory-map code, compared with the Lean parseProcMaps directly.

var c14ProcMaps = []string{
	"00400000-02e00000 r-xp 00000000 00:00 0",
	"02e00000-02e8a000 r-xp 02a00000 00:00 15953927    /foo/bin",
	"02e00000-02e8a000 r-xp 000000 00:00 15953927    [vdso]",
	"  02e00000-02e8a000: /foo/bin (@2a00000)",
	"  02e00000-02e8a000: /foo/bin (deleted)",
	"  02e00000-02e8a000: [vdso]",
	"0xff6810563000 0xff6810565000 r-xp abc_exe 87c4d547f895cfd6a370e08dc5c5ee7bd4199d5b",
	"7f5e5435e000-7f5e5455e000 --xp 00002000 00:00 1531        myprogram",
	"7f5e5435e000-7f5e5455e000 ---p 00002000 00:00 1531        myprogram",
	"0x40000-0x80000 /path/to/binary      (@FF00)            abc123456",
	"W1220 15:07:15.201776    8272 logger.cc:12033] --- Memory map: ---\n0x40000-0x80000 /path/to/binary      (@FF00)            abc123456",
	"W1220 15:07:15.201776    8272 logger.cc:12033] --- Memory map: ---\nW1220 15:07:15.202776    8272 logger.cc:12036]   0x40000-0x80000 /path/to/binary      (@FF00)            abc123456",
	"\tsource=/home\n  00400000-00fcb000: $source/cppbench_server_main\n  7f47a4351000-7f47a4352000: /lib/libnss_borg-2.15.so\n  7fff63dfe000-7fff63e00000: [vdso]\n",
	"build = /usr/local\nlib=$build/lib\n# comment\n\n40000000-40015000 r-xp 00000000 03:01 12845071   $build/bin/prog\n40015000-40016000 rw-p 00014000 03:01 12845071   $build/bin/prog\n40016000-40020000 r-xp 00000000 03:01 1   $lib/libc.so.6\n",
	"I0101 00:00:00.000001 1 x.go:7] root=/r\nI0101 00:00:00.000002 1 x.go:8] 1000-2000 $root/a.so\nx.go:9] 2000-3000 $root/b.so (@1000) 0abc\n3000-4000 $nosuch/c\n",
	"a]b: 1000-2000 /x\n[x]:1] 1000-2000 /y\nz:1]1000-2000 /w\nz:] 1000-2000 /v\n:1] 1000-2000 /u\n",
}

func c14ProcMapsCheck(c *Ctx) {
	for i, text := range c14ProcMaps {
		c14ProcMapsOne(c, i, text)
	}
}

func c14ProcMapsOne(c *Ctx, i int, text string) {
	{
		var ms []*profile.Mapping
		var err error
		if pn := safely(func() { ms, err = profile.ParseProcMaps(strings.NewReader(text)) }); pn != "" || err != nil {
			c.Violation("C14/procmaps/rejected", fmt.Sprintf("ParseProcMaps fails on memory map #%d: %s %v", i, pn, err), c14Case{Format: "procmaps", Text: text})
			return
		}
		w := &tw{}
		w.n(len(ms))
		for _, m := range ms {
			w.nat(m.ID)
			w.nat(m.Start)
			w.nat(m.Limit)
			w.nat(m.Offset)
			w.str(m.File)
			w.str(m.BuildID)
			w.bool(m.HasFunctions)
			w.bool(m.HasFilenames)
			w.bool(m.HasLineNumbers)
			w.bool(m.HasInlineFrames)
		}
		c.Res.ModelCompared++
		c.Res.Hit("procmaps:direct")
		got := strings.TrimSpace(w.String())
		mp := strings.TrimSpace(c.Drv.Ask("legacy.procmaps " + hexTok([]byte(text))))
		if mp != got {
			c.Disagree("C14/model-procmaps", fmt.Sprintf("Lean parseProcMaps and Go ParseProcMaps differ on memory map #%d: model %s, code %s", i, trunc(mp), trunc(got)), "correspondence Legacy.parseProcMaps ~ ParseProcMaps (mapSection_print_parse)", c14Case{Format: "procmaps", Text: text})
		}
	}
}

func bucket(n int) string {
	switch {
	case n == 0:
		return "0"
	case n == 1:
		return "1"
	case n < 10:
		return "2-9"
	case n < 32:
		return "10-31"
	default:
		return "32+"
	}
}

func runC14(c *Ctx) {
	c.Res.Rule = "random document models of the 7 legacy formats (count, heap incl. heap_v2/heapprofile/heap/growth/fragmentation, contention/mutex, threadz, binary CPU in 4 word layouts, binary Java CPU in 4 word layouts with location trailer, Java heapz/contentionz): 0–80 records, addresses from a pool with boundary values (0,1,2^32,2^63,2^64-1) and repeats, header variants, comment/blank lines, memory map in /proc/maps and brief form (adjacent, offset, non-executable, main-binary heuristics; glog prefixes on lines, name=value attribute lines and $name references in file fields); boundary-exact strategies for the parsers' thresholds: CPU sample counts 31/32/33/63/…/129 with exactly k ∈ {0,1,⌊n/32⌋,⌊n/32⌋+1,…} samples lacking the (fresh-address) signal-handler frame, for the first and for the second removal iteration, profiles without end marker (nstk bound), heap rates 0..5 (period 0/1/2 after halving), signed in-use columns of heap records (both negative, mixed signs, count -1, magnitudes up to MinInt64 where no float arithmetic is involved), contention sampling period {absent,<0,0,1,>1} × cycles/second {absent,<0,0,>0} and negative ms-since-reset; printed by the Lean model, parsed by the real ParseData, with termination / line-ending variants of the text part (CRLF throughout or on a random subset of lines, last line without terminator, or extra material after the final terminator: blank lines, blanks/tabs, a NUL), the last line of a memory map / Java trailer naming an address a sample uses; compared with the documented conversion (whenever the variant does not change the meaning) and always with the Lean model of ParseData (decoder model + parser chain); non-trivial = at least one record with at least one address; distinct by document tokens"
	if c.Replay != "" {
		var cs c14Case
		if err := c.LoadReplay(&cs); err != nil {
			c.Res.HarnessError = err.Error()
			return
		}
		if cs.Format == "procmaps" {
			c14ProcMapsOne(c, 0, cs.Text)
		} else {
			c14One(c, cs)
		}
		c.Res.Evaluations++
		return
	}
	c14ProcMapsCheck(c)
	r := NewRng(c.Seed)
	n := 900 * c.Scale
	for i := 0; i < n; i++ {
		for fi := range c14Formats {
			cs, g := c14Generate(c, r, fi)
			c.Res.Count(fmt.Sprintf("%s %s|%x|%v|%s", cs.Format, cs.Doc, cs.Mask, cs.NoFinal, cs.Extra), g.nrec > 0 && g.naddr > 0)
			c.Res.Hit("format:" + cs.Format)
			c.Res.Hit(cs.Format + ":records=" + bucket(g.nrec))
			if cs.Approx {
				c.Res.Hit(cs.Format + ":float-unsampled")
			}
			seen := map[string]bool{}
			for _, t := range g.tags {
				if !seen[t] {
					seen[t] = true
					c.Res.Hit(t)
				}
			}
			c14One(c, cs)
			if i == 0 {
				c.Res.Sample(map[string]any{"format": cs.Format, "records": g.nrec, "doc": trunc(cs.Doc)})
			}
		}
	}
}
