//go:build verif

package main

// Small helpers private to the C02 runner, so that it compiles from the shared harness files
// alone (it does not depend on another property's runner files, which may be under edit).

import (
	"bytes"
	"fmt"
	"strings"

	"github.com/google/pprof/profile"
)

// c02Safely runs f, converting a panic into its text.
func c02Safely(f func()) (panicked string) {
	defer func() {
		if e := recover(); e != nil {
			panicked = fmt.Sprint(e)
		}
	}()
	f()
	return ""
}

func c02WriteU(p *profile.Profile) ([]byte, string) {
	var buf bytes.Buffer
	pn := c02Safely(func() { p.WriteUncompressed(&buf) })
	return buf.Bytes(), pn
}

func c02FirstWord(s string) string {
	if i := strings.IndexByte(s, ' '); i >= 0 {
		return s[:i]
	}
	return s
}

func c02Trunc(s string) string {
	if len(s) > 200 {
		return s[:200] + "…"
	}
	return s
}

// c02DiffField names the section of the canonical form where two profiles first differ.
func c02DiffField(a, b string) string {
	pa, ea := ParseCanon(a)
	pb, eb := ParseCanon(b)
	if ea != nil || eb != nil {
		return "unparsable"
	}
	differ := func(x, y *profile.Profile) bool { return Canon(x) != Canon(y) }
	switch {
	case differ(&profile.Profile{SampleType: pa.SampleType}, &profile.Profile{SampleType: pb.SampleType}):
		return "sampleType"
	case len(pa.Sample) != len(pb.Sample):
		return "sample-count"
	case differ(&profile.Profile{Sample: pa.Sample}, &profile.Profile{Sample: pb.Sample}):
		return "sample"
	case differ(&profile.Profile{Mapping: pa.Mapping}, &profile.Profile{Mapping: pb.Mapping}):
		return "mapping"
	case differ(&profile.Profile{Location: pa.Location}, &profile.Profile{Location: pb.Location}):
		return "location"
	case differ(&profile.Profile{Function: pa.Function}, &profile.Profile{Function: pb.Function}):
		return "function"
	}
	return "header"
}

// generator strategies for the valid profiles whose encodings stream (a) mutates
var c02GenStrategies = []struct {
	name string
	o    GenOpts
}{
	{"plain", GenOpts{Labels: true, Header: true, NoLineLocs: true}},
	{"sparse-ids", GenOpts{SparseIDs: true, Labels: true, Header: true, MaxLocs: 14, MaxFuncs: 10, NoLineLocs: true}},
	{"weird-strings", GenOpts{WeirdStrings: true, Labels: true, Header: true, NoLineLocs: true}},
	{"extreme", GenOpts{ExtremeValues: true, SparseIDs: true, Labels: true, Header: true, MaxSampleTypes: 5, AllowNoTypes: true, NoLineLocs: true}},
	{"shapes", GenOpts{EmptyStacks: true, MaxLines: 5, MaxDepth: 12, MaxSamples: 30, Labels: true, WeirdStrings: true, NoLineLocs: true}},
}
