//go:build verif

// C20 — shared profile and tool state is safe under concurrent use.
//
// The Lean side proves the locking PROTOCOL for all interleavings and checks, over lock facts
// regenerated from the source, that pprof follows it.  This runner is the other half of the tie:
// it is compiled with -race and OVERLAPS exactly the operations the property lists, on the real
// code, and compares every concurrent result with the same operation run alone:
//
//	profile   Write / WriteUncompressed / Copy on ONE shared profile from many goroutines
//	web       any mix of web requests against one server (handlers via the HTTPServer hook)
//	options   option assignments (an interactive session) while reports are generated
//	          (other sessions and web requests)
//	tempfile  concurrent newTempFile (cwd, O_EXCL) and temp-file registry (deferDelete/cleanup)
//	fetch     parallel fetch of many sources (and bases) through driver.PProf with a Fetcher
//	binutils  Binutils.get/update, file.baseOnce, the addr2line / llvm-symbolizer pipes
//	transport pprof's own HTTP transport shared by the concurrent fetches of one invocation
//
// Each mix runs in a CHILD process (this binary re-executed) with
// GORACE="halt_on_error=0 exitcode=66 log_path=…": a race-detector report or a result that differs
// from the sequential one is the failing schedule.  Schedules are not deterministically
// replayable; a replay file names the operation mix and its parameters and the replay re-runs
// that mix many times.
package main

import (
	"bytes"
	"encoding/json"
	"fmt"
	"io"
	"os"
	"os/exec"
	"path/filepath"
	"regexp"
	"runtime"
	"sort"
	"strings"
	"sync"
	"sync/atomic"
	"time"

	"github.com/google/pprof/profile"
)

func init() { register("C20", runC20) }

const c20Note = "schedules are not deterministically replayable: this file names the operation mix and its parameters; the replay re-runs the mix `rounds` times under the race detector"

type c20Case struct {
	Mix        string `json:"mix"`
	Seed       uint64 `json:"seed"`
	Goroutines int    `json:"goroutines"`
	Ops        int    `json:"ops"`    // operations per goroutine and round
	Rounds     int    `json:"rounds"` // how often the overlapped section is repeated
	Sources    int    `json:"sources,omitempty"`
	Bases      int    `json:"bases,omitempty"`
	Existing   []int  `json:"existing,omitempty"` // temp-file indices that exist beforehand
	Variant    string `json:"variant,omitempty"`  // binutils: only this tool variant
	Note       string `json:"note"`
}

type c20Fail struct {
	Sig  string `json:"sig"`
	What string `json:"what"`
}

// c20Obs is what a child process reports back.
type c20Obs struct {
	Fails      []c20Fail      `json:"fails"`
	Hits       map[string]int `json:"hits"`
	Ops        int            `json:"ops"`        // concurrent operations whose result was compared
	Overlapped int            `json:"overlapped"` // of those, how many ran while another was in flight
	SeqNames   []int          `json:"seq_names,omitempty"`
	SeqExist   []int          `json:"seq_exist,omitempty"`
	Error      string         `json:"error,omitempty"` // harness problem inside the child
	mu         sync.Mutex
}

func (o *c20Obs) fail(sig, format string, a ...any) {
	o.mu.Lock()
	defer o.mu.Unlock()
	for _, f := range o.Fails {
		if f.Sig == sig {
			return
		}
	}
	o.Fails = append(o.Fails, c20Fail{sig, c20Trunc(fmt.Sprintf(format, a...))})
}

func (o *c20Obs) hit(k string) {
	o.mu.Lock()
	o.Hits[k]++
	o.mu.Unlock()
}

var c20Mixes = []string{"profile", "web", "options", "tempfile", "fetch", "binutils", "transport"}

func runC20(c *Ctx) {
	if os.Getenv("C20_CHILD") != "" {
		c20Child(c)
		return
	}
	c.Res.Rule = "one case = one operation mix (profile|web|options|tempfile|fetch|binutils) with seeded parameters, run in a -race child process: sequential baseline first, then the same operations from several goroutines released together; non-trivial = at least one compared operation ran while another operation on the same shared object was in flight (measured with an in-flight counter)"
	if c.Replay != "" {
		var cs c20Case
		if err := c.LoadReplay(&cs); err != nil || cs.Mix == "" {
			// a "broken obligation" replay (no-failing-input-found) has no case: search again,
			// harder, with every mix
			c20Generated(c, 3)
			return
		}
		if cs.Rounds < 1 {
			cs.Rounds = 1
		}
		if !strings.Contains(c.Replay, string(filepath.Separator)+"corpus"+string(filepath.Separator)) {
			cs.Rounds *= 5 // an explicit replay of a failing schedule: try harder
		}
		c20RunCases(c, []c20Case{cs})
		return
	}
	c20Generated(c, 1)
}

// c20Generated builds one case per mix from the seed and runs them in parallel children.
func c20Generated(c *Ctx, boost int) {
	r := NewRng(c.Seed)
	var cases []c20Case
	for _, m := range c20Mixes {
		cs := c20Case{Mix: m, Seed: r.U64() >> 1, Goroutines: 4 + r.Intn(9), Ops: 6 + r.Intn(10), Rounds: 10 * boost * c.Scale, Note: c20Note}
		switch m {
		case "fetch":
			cs.Sources = []int{2, 5, 17, 40, 131}[r.Intn(5)]
			cs.Bases = r.Intn(4)
			cs.Rounds = 14 * boost * c.Scale
		case "tempfile":
			for i := 1; i <= 12; i++ {
				if r.Chance(30) {
					cs.Existing = append(cs.Existing, i)
				}
			}
			cs.Goroutines = 4 + r.Intn(5)
			cs.Ops = 2 + r.Intn(3)
			cs.Rounds = 8 * boost * c.Scale
		case "options":
			cs.Goroutines = 2 + r.Intn(3)
			cs.Rounds = 12 * boost * c.Scale
		case "profile":
			cs.Rounds = 30 * boost * c.Scale
		case "transport":
			cs.Rounds = 4 * boost * c.Scale
		case "binutils":
			cs.Goroutines = 4 + r.Intn(6)
			cs.Rounds = 6 * boost * c.Scale
		}
		cases = append(cases, cs)
	}
	c20RunCases(c, cases)
	// what the regenerated lock facts say (diagnostics; the obligations themselves are Lean theorems)
	if bad := c.Drv.Ask("facts.bad"); bad != "0" && bad != "drv-dead" {
		// say WHICH regenerated fact broke (the obligation itself is a Lean theorem that no longer
		// elaborates; bin/check reports that too)
		c.Res.Notes = append(c.Res.Notes, "regenerated lock facts: unguarded/unrecognised: "+c20Trunc(bad))
		first := strings.Fields(bad)
		what := "unknown"
		if len(first) > 1 {
			what = first[1]
			if i := strings.IndexByte(what, '('); i > 0 {
				what = what[:i]
			}
		}
		c.Disagree("C20/lock-facts/"+what, "the lock facts regenerated from the source no longer satisfy the protocol's hypotheses: "+c20Trunc(bad),
			"theorems all_sites_guarded / lock_order_acyclic / no_lock_leak / no_split_rmw / rename_targets_serialised / globals_written_under_barrier / tempfile_excl / goroutines_joined / immutable_written_only_fresh", map[string]any{"note": "no concrete schedule: the hypothesis of the protocol proof failed on the current source", "bad": bad})
	}
	if s := c.Drv.Ask("facts.summary"); s != "drv-dead" {
		c.Res.Notes = append(c.Res.Notes, "lock facts: "+s)
	}
}

func c20RunCases(c *Ctx, cases []c20Case) {
	type res struct {
		cs    c20Case
		obs   *c20Obs
		races []c20Race
		err   string
		wall  float64
	}
	out := make([]res, len(cases))
	var wg sync.WaitGroup
	for i := range cases {
		wg.Add(1)
		go func(i int) {
			defer wg.Done()
			t0 := time.Now()
			obs, races, err := c20Spawn(c, cases[i], i)
			out[i] = res{cases[i], obs, races, err, time.Since(t0).Seconds()}
		}(i)
	}
	wg.Wait()
	for _, r := range out {
		cs := r.cs
		key, _ := json.Marshal(cs)
		if r.err != "" {
			if strings.HasPrefix(r.err, "no-progress") {
				c.Violation("C20/"+cs.Mix+"/no-progress", "the overlapped operations stopped making progress (deadlock?): "+r.err, cs)
			} else {
				c.Res.HarnessError = cs.Mix + ": " + r.err
			}
			c.Res.Count(string(key), false)
			continue
		}
		for i, rc := range r.races {
			if i >= 3 {
				c.Res.Hit(cs.Mix + "/further-race-reports")
				continue // one cause usually shows up as many access pairs; three are enough
			}
			c.Violation("C20/race/"+rc.sig(), "race detector report while overlapping the "+cs.Mix+" operations:\n"+rc.text, cs)
		}
		for _, f := range r.obs.Fails {
			c.Violation(f.Sig, f.What, cs)
		}
		if r.obs.Error != "" {
			c.Res.HarnessError = cs.Mix + ": " + r.obs.Error
		}
		for k, v := range r.obs.Hits {
			c.Res.Dist[cs.Mix+"/"+k] += v
		}
		c.Res.Dist[cs.Mix+"/ops-compared"] += r.obs.Ops
		c.Res.Dist[cs.Mix+"/ops-overlapped"] += r.obs.Overlapped
		c.Res.Count(string(key), r.obs.Overlapped > 0)
		c.Res.Sample(map[string]any{"mix": cs.Mix, "goroutines": cs.Goroutines, "ops": r.obs.Ops, "overlapped": r.obs.Overlapped, "races": len(r.races), "failures": len(r.obs.Fails), "child_wall_s": float64(int(r.wall*10)) / 10})
		// exclusive-create model vs the real newTempFile, sequential part
		if cs.Mix == "tempfile" && len(r.obs.SeqNames) > 0 {
			c.Res.ModelCompared++
			q := fmt.Sprintf("fs.seq 10000 %d %d", len(r.obs.SeqNames), len(r.obs.SeqExist))
			for _, e := range r.obs.SeqExist {
				q += fmt.Sprint(" ", e)
			}
			want := "ok"
			for _, n := range r.obs.SeqNames {
				want += fmt.Sprint(" ", n)
			}
			if got := c.Drv.Ask(q); got == "drv-dead" {
				// the model driver could not be built (bin/check reports that itself)
				c.Res.Hit("tempfile/model-unavailable")
				c.Res.ModelCompared--
			} else if got != want {
				c.Disagree("C20/tempfile/model-names/"+c20FirstWord(got), fmt.Sprintf("newTempFile returned indices %v on a directory with %v; the exclusive-create model says %q", r.obs.SeqNames, r.obs.SeqExist, got), "correspondence FS.step ~ newTempFile (excl_create_distinct_names)", cs)
			}
		}
	}
}

// ---------------------------------------------------------------------------------------------
// child processes and race logs

var c20Counter atomic.Int64

func c20Spawn(c *Ctx, cs c20Case, idx int) (*c20Obs, []c20Race, string) {
	base := os.Getenv("VERIF_DIR")
	if base == "" {
		base = os.TempDir()
	} else {
		base = filepath.Join(base, ".build")
	}
	tmp := filepath.Join(base, fmt.Sprintf("c20-%d-%d-%d", os.Getpid(), idx, c20Counter.Add(1)))
	os.RemoveAll(tmp)
	for _, d := range []string{"cwd", "home", "tmp", "cfg"} {
		if err := os.MkdirAll(filepath.Join(tmp, d), 0o755); err != nil {
			return nil, nil, err.Error()
		}
	}
	defer os.RemoveAll(tmp)
	doc, _ := json.Marshal(map[string]any{"case": cs})
	casePath := filepath.Join(tmp, "case.json")
	os.WriteFile(casePath, doc, 0o644)
	exe, err := os.Executable()
	if err != nil {
		return nil, nil, err.Error()
	}
	obsPath := filepath.Join(tmp, "obs.json")
	cmd := exec.Command(exe, "-prop", "C20", "-replay", casePath, "-dir", filepath.Join(tmp, "replays"), "-out", filepath.Join(tmp, "result.json"), "-seed", fmt.Sprint(c.Seed))
	cmd.Dir = filepath.Join(tmp, "cwd")
	path := "/nonexistent-c20"
	if cs.Mix == "binutils" {
		path = os.Getenv("PATH")
	}
	cmd.Env = []string{
		"C20_CHILD=1", "C20_OBS=" + obsPath, "C20_TMP=" + tmp,
		"GORACE=halt_on_error=0 exitcode=66 history_size=3 log_path=" + filepath.Join(tmp, "race"),
		"HOME=" + filepath.Join(tmp, "home"), "XDG_CONFIG_HOME=" + filepath.Join(tmp, "cfg"),
		"TMPDIR=" + filepath.Join(tmp, "tmp"), "PPROF_TMPDIR=" + filepath.Join(tmp, "home", "pprof"),
		"PATH=" + path, "VERIF_REPO=" + os.Getenv("VERIF_REPO"), "GOMAXPROCS=8",
		"PPROF_TOOLS=", "PPROF_BINARY_PATH=" + filepath.Join(tmp, "home", "bin"),
	}
	var stderr bytes.Buffer
	cmd.Stderr = &stderr
	cmd.Stdout = io.Discard
	if err := cmd.Start(); err != nil {
		return nil, nil, err.Error()
	}
	done := make(chan error, 1)
	go func() { done <- cmd.Wait() }()
	limit := 150 * time.Second
	if c.Scale > 1 {
		limit = 30 * time.Minute
	}
	var werr error
	select {
	case werr = <-done:
	case <-time.After(limit):
		cmd.Process.Kill()
		<-done
		return nil, nil, "no-progress: child exceeded " + limit.String() + "\n" + c20Trunc(stderr.String())
	}
	code := 0
	if ee, ok := werr.(*exec.ExitError); ok {
		code = ee.ExitCode()
	} else if werr != nil {
		return nil, nil, werr.Error()
	}
	races := c20ReadRaces(tmp)
	if code == 67 {
		return nil, races, "no-progress: " + c20Trunc(stderr.String())
	}
	obs := &c20Obs{Hits: map[string]int{}}
	b, err := os.ReadFile(obsPath)
	if err != nil {
		if len(races) > 0 {
			return obs, races, ""
		}
		return nil, nil, fmt.Sprintf("child produced no observations (exit %d): %s", code, c20Trunc(stderr.String()))
	}
	if err := json.Unmarshal(b, obs); err != nil {
		return nil, nil, "bad observations: " + err.Error()
	}
	if obs.Hits == nil {
		obs.Hits = map[string]int{}
	}
	if code == 66 && len(races) == 0 {
		races = append(races, c20Race{text: "exit code 66 without a parsable report: " + c20Trunc(stderr.String()), a: "unparsed", b: "unparsed"})
	}
	if code != 0 && code != 66 {
		obs.Error = fmt.Sprintf("child exit %d: %s", code, c20Trunc(stderr.String()))
	}
	return obs, races, ""
}

type c20Race struct {
	text  string
	a, b  string // first pprof frame of the two conflicting accesses
	class string
}

// races with a known cause get a stable, specific signature (the frames vary with the schedule):
// both conflicting accesses must be in the listed functions
var c20RaceClasses = []struct {
	fns []string
	sig string
}{
	{[]string{"internal/binutils.(*fileNM).SourceLine", "internal/binutils.(*addr2LinerNM).addrInfo", "internal/binutils.parseAddr2LinerNM", "internal/binutils.newAddr2LinerNM"},
		"binutils.fileNM.addr2linernm-lazy-init"},
}

func (r c20Race) sig() string {
	if r.class != "" {
		return r.class
	}
	x := []string{r.a, r.b}
	sort.Strings(x)
	return x[0] + "|" + x[1]
}

var c20FrameRE = regexp.MustCompile(`^\s+(github\.com/google/pprof/[^\s]+)\(`)

// c20ReadRaces parses the race detector's log files (log_path.<pid>).
func c20ReadRaces(tmp string) []c20Race {
	files, _ := filepath.Glob(filepath.Join(tmp, "race.*"))
	var out []c20Race
	seen := map[string]bool{}
	for _, f := range files {
		b, err := os.ReadFile(f)
		if err != nil {
			continue
		}
		for _, blk := range strings.Split(string(b), "==================") {
			if !strings.Contains(blk, "WARNING: DATA RACE") {
				continue
			}
			// the two access stacks come first; "Goroutine … created at" sections follow
			body := blk
			if i := strings.Index(body, "\nGoroutine "); i >= 0 {
				body = body[:i]
			}
			var stacks []string
			for _, part := range strings.Split(body, "\n\n") {
				first := ""
				for _, ln := range strings.Split(part, "\n") {
					if m := c20FrameRE.FindStringSubmatch(ln); m != nil && !strings.Contains(m[1], "/internal/zzverif") {
						first = strings.TrimPrefix(m[1], "github.com/google/pprof/")
						break
					}
				}
				if strings.Contains(part, " by goroutine") || strings.Contains(part, " by main goroutine") {
					stacks = append(stacks, first)
				}
			}
			rc := c20Race{text: c20Trunc(strings.TrimSpace(blk))}
			if len(stacks) > 0 {
				rc.a = stacks[0]
			}
			if len(stacks) > 1 {
				rc.b = stacks[1]
			}
			if rc.a == "" {
				rc.a = "non-pprof-frame"
			}
			if rc.b == "" {
				rc.b = "non-pprof-frame"
			}
			for _, cl := range c20RaceClasses {
				in := func(f string) bool {
					for _, x := range cl.fns {
						if x == f {
							return true
						}
					}
					return false
				}
				if in(rc.a) && in(rc.b) {
					rc.class = cl.sig
				}
			}
			if !seen[rc.sig()] {
				seen[rc.sig()] = true
				out = append(out, rc)
			}
		}
	}
	return out
}

// ---------------------------------------------------------------------------------------------
// inside the child

// c20Flight counts operations in flight on a shared object, to measure real overlap.
type c20Flight struct {
	n          atomic.Int64
	overlapped atomic.Int64
	total      atomic.Int64
	progress   atomic.Int64
}

func (f *c20Flight) do(op func()) {
	if f.n.Add(1) > 1 {
		f.overlapped.Add(1)
	}
	f.total.Add(1)
	op()
	f.n.Add(-1)
	f.progress.Add(1)
}

var c20Fl c20Flight

func c20Child(c *Ctx) {
	obs := &c20Obs{Hits: map[string]int{}}
	var cs c20Case
	if err := c.LoadReplay(&cs); err != nil {
		obs.Error = "child: " + err.Error()
	} else {
		// watchdog: no completed operation for a long time = deadlock (or a lost wake-up)
		go func() {
			last, since := int64(-1), time.Now()
			for {
				time.Sleep(time.Second)
				if p := c20Fl.progress.Load(); p != last {
					last, since = p, time.Now()
				} else if time.Since(since) > 60*time.Second {
					buf := make([]byte, 1<<20)
					n := runtime.Stack(buf, true)
					fmt.Fprintf(os.Stderr, "no operation completed for %v\n%s\n", time.Since(since), buf[:n])
					os.Exit(67)
				}
			}
		}()
		if pn := c20Safely(func() {
			switch cs.Mix {
			case "profile":
				c20MixProfile(&cs, obs)
			case "web":
				c20MixWeb(&cs, obs)
			case "options":
				c20MixOptions(&cs, obs)
			case "tempfile":
				c20MixTempfile(&cs, obs)
			case "fetch":
				c20MixFetch(&cs, obs)
			case "binutils":
				c20MixBinutils(&cs, obs)
			case "transport":
				c20MixTransport(&cs, obs)
			default:
				obs.Error = "unknown mix " + cs.Mix
			}
		}); pn != "" {
			obs.fail("C20/"+cs.Mix+"/panic", "panic while running the %s mix: %s", cs.Mix, pn)
		}
	}
	obs.Ops = int(c20Fl.total.Load())
	obs.Overlapped = int(c20Fl.overlapped.Load())
	b, _ := json.Marshal(obs)
	os.WriteFile(os.Getenv("C20_OBS"), b, 0o644)
}

// c20Enough: a failing schedule has already been found in this child (a difference, or the race
// detector has written a report): further rounds only cost time — a race-heavy mutant otherwise
// spends minutes printing reports.
func c20Enough(obs *c20Obs) bool {
	obs.mu.Lock()
	n := len(obs.Fails)
	obs.mu.Unlock()
	if n > 0 {
		return true
	}
	logs, _ := filepath.Glob(filepath.Join(os.Getenv("C20_TMP"), "race.*"))
	return len(logs) > 0
}

// c20Together runs g goroutines, each executing its own list of operations, released together.
func c20Together(g int, body func(id int)) {
	var wg sync.WaitGroup
	start := make(chan struct{})
	for i := 0; i < g; i++ {
		wg.Add(1)
		go func(id int) {
			defer wg.Done()
			<-start
			body(id)
		}(i)
	}
	close(start)
	wg.Wait()
}

// ---------------------------------------------------------------------------------------------
// mix: Write / WriteUncompressed / Copy on one shared profile

func c20MixProfile(cs *c20Case, obs *c20Obs) {
	r := NewRng(cs.Seed)
	for round := 0; round < cs.Rounds && !c20Enough(obs); round++ {
		p := GenProfile(r, &GenOpts{MaxSampleTypes: 3, MaxFuncs: 12, MaxLocs: 20, MaxSamples: 30, MaxDepth: 8, Labels: true, Header: true, WeirdStrings: round%2 == 1, SparseIDs: round%3 == 2})
		before := Canon(p)
		// alone
		var wu, wz bytes.Buffer
		if err := p.WriteUncompressed(&wu); err != nil {
			obs.Error = "WriteUncompressed: " + err.Error()
			return
		}
		if err := p.Write(&wz); err != nil {
			obs.Error = "Write: " + err.Error()
			return
		}
		cp := Canon(p.Copy())
		// plan: every goroutine gets its own operation list
		plans := make([][]int, cs.Goroutines)
		for i := range plans {
			for j := 0; j < cs.Ops; j++ {
				plans[i] = append(plans[i], r.Intn(3))
			}
		}
		c20Together(cs.Goroutines, func(id int) {
			for _, op := range plans[id] {
				switch op {
				case 0:
					var b bytes.Buffer
					var err error
					c20Fl.do(func() { err = p.WriteUncompressed(&b) })
					obs.hit("WriteUncompressed")
					if err != nil || !bytes.Equal(b.Bytes(), wu.Bytes()) {
						obs.fail("C20/profile/WriteUncompressed-differs", "concurrent WriteUncompressed on a shared profile returned bytes different from the same call made alone (err=%v, %d vs %d bytes)", err, b.Len(), wu.Len())
					}
				case 1:
					var b bytes.Buffer
					var err error
					c20Fl.do(func() { err = p.Write(&b) })
					obs.hit("Write")
					if err != nil || !bytes.Equal(b.Bytes(), wz.Bytes()) {
						obs.fail("C20/profile/Write-differs", "concurrent Write on a shared profile returned bytes different from the same call made alone (err=%v, %d vs %d bytes)", err, b.Len(), wz.Len())
					}
				case 2:
					var q *profile.Profile
					pn := ""
					c20Fl.do(func() { pn = c20Safely(func() { q = p.Copy() }) })
					obs.hit("Copy")
					if pn != "" {
						obs.fail("C20/profile/Copy-panics", "concurrent Copy on a shared profile panicked: %s", pn)
					} else if got := Canon(q); got != cp {
						obs.fail("C20/profile/Copy-differs", "concurrent Copy of a shared profile differs from the copy made alone")
					}
				}
			}
		})
		if Canon(p) != before {
			obs.fail("C20/profile/shared-profile-changed", "exported fields of the shared profile changed during concurrent Write/Copy")
		}
	}
}

// helpers (own copies: this property's overlay does not contain the other runners' files)

func c20Safely(f func()) (panicked string) {
	defer func() {
		if e := recover(); e != nil {
			panicked = fmt.Sprint(e)
		}
	}()
	f()
	return ""
}

func c20Trunc(s string) string {
	if len(s) > 2500 {
		return s[:2500] + "…"
	}
	return s
}

func c20FirstWord(s string) string {
	if i := strings.IndexByte(s, ' '); i >= 0 {
		return s[:i]
	}
	return s
}
