//go:build verif

package main

// C16, streams "burst" (many local profile files and PERFILE2-prefixed files fetched at the same
// instant, across the chunk boundary, with and without the conversion tool on PATH) and "default
// UI" (driver.PProf with Options.UI == nil in a child process whose stderr is a pipe: many failing
// sources AND many failing bases, so that the two group goroutines print their error lines at the
// same time; every stderr line must be exactly one complete message).

import (
	"bytes"
	"encoding/json"
	"fmt"
	"os"
	"os/exec"
	"path/filepath"
	"strings"
	"sync"
	"time"
)

const c16PerfNoTool = "perf-notool" // PERFILE2-prefixed file in a run whose PATH lacks perf_to_profile: fails

var c16OrigPath string // PATH before the stand-in tool was put in front of it

// c16Burst releases all fetches that have arrived together, once no new one arrived for a moment:
// the goroutines of a chunk (and of the other group) enter pprof's own fetch code at the same instant.
type c16Burst struct {
	mu       sync.Mutex
	arrivals int
	ch       chan struct{}
	stop     chan struct{}
}

func newC16Burst() *c16Burst {
	b := &c16Burst{ch: make(chan struct{}), stop: make(chan struct{})}
	go b.watch()
	return b
}

func (b *c16Burst) arrive() {
	b.mu.Lock()
	b.arrivals++
	ch := b.ch
	b.mu.Unlock()
	select {
	case <-ch:
	case <-time.After(2 * time.Second):
	}
}

func (b *c16Burst) watch() {
	last := 0
	for {
		select {
		case <-b.stop:
			b.mu.Lock()
			close(b.ch)
			b.mu.Unlock()
			return
		case <-time.After(150 * time.Microsecond):
		}
		b.mu.Lock()
		if b.arrivals > 0 && b.arrivals == last {
			close(b.ch)
			b.ch = make(chan struct{})
			b.arrivals, last = 0, 0
		} else {
			last = b.arrivals
		}
		b.mu.Unlock()
	}
}

// ---------------------------------------------------------------------------------------------
// default UI in a child process

func init() {
	path := os.Getenv("PVC16_STDUI_CASE")
	if path == "" || filepath.Base(os.Args[0]) == "perf_to_profile" {
		return
	}
	// child: run one case through driver.PProf with Options.UI == nil; stderr is the parent's pipe
	var cs c16Case
	b, err := os.ReadFile(path)
	if err != nil || json.Unmarshal(b, &cs) != nil {
		fmt.Println(`{"harness_error":"cannot read the case"}`)
		os.Exit(0)
	}
	root, _ := os.MkdirTemp("", "pvc16ui-")
	os.Setenv("PPROF_TMPDIR", filepath.Join(root, "tmp"))
	os.Setenv("PPROF_BINARY_PATH", filepath.Join(root, "bin"))
	kinds := c16Kinds(&cs, false)
	obs := c16ExecOrd(root, &cs, kinds, nil, nil, "proto", "allocs")
	out, _ := json.Marshal(map[string]any{"failed": obs.Failed, "err": obs.Err, "panic": obs.Panic, "hang": obs.Hang})
	fmt.Println(string(out))
	os.RemoveAll(root)
	os.Exit(0)
}

// runStdUI runs the case `rounds` times in child processes and checks the captured stderr.
func (k *c16Checker) runStdUI(cs *c16Case) {
	c := k.c
	exe, err := os.Executable()
	if err != nil {
		return
	}
	kinds := c16Kinds(cs, false)
	exp := c16Expected(cs, kinds)
	cf := filepath.Join(k.root, "stdui-case.json")
	b, _ := json.Marshal(cs)
	os.WriteFile(cf, b, 0o644)
	rounds := cs.Rounds
	if rounds == 0 {
		rounds = 3
	}
	n := len(cs.Sources)
	for round := 0; round < rounds; round++ {
		cmd := exec.Command(exe)
		cmd.Env = append(os.Environ(), "PVC16_STDUI_CASE="+cf)
		var so, se bytes.Buffer
		cmd.Stdout = &so
		// stderr is a small pipe with a slow reader (as when it is piped through ssh or a pager): the
		// two goroutines that print the error lines of the sources and of the bases then really
		// compete for it. A message written with ONE write of less than PIPE_BUF bytes stays whole.
		pr, pw, perr := os.Pipe()
		var rd sync.WaitGroup
		if perr == nil {
			c16SmallPipe(pw)
			cmd.Stderr = pw
			rd.Add(1)
			go func() {
				defer rd.Done()
				buf := make([]byte, 192)
				for {
					nr, err := pr.Read(buf)
					se.Write(buf[:nr])
					if err != nil {
						return
					}
					time.Sleep(5 * time.Microsecond)
				}
			}()
		} else {
			cmd.Stderr = &se
		}
		err := cmd.Start()
		if perr == nil {
			pw.Close()
		}
		if err == nil {
			err = cmd.Wait()
		}
		rd.Wait()
		if perr == nil {
			pr.Close()
		}
		if err != nil {
			c.Violation("C16/crash/default-ui", fmt.Sprintf("[%s] the process running driver.PProf with the default UI died: %v: %s", cs.Name, err, trunc16(lastLine16(se.String()))), cs)
			return
		}
		var res struct {
			Failed bool   `json:"failed"`
			Err    string `json:"err"`
			Panic  string `json:"panic"`
			Hang   bool   `json:"hang"`
			HErr   string `json:"harness_error"`
		}
		if json.Unmarshal([]byte(lastLine16(so.String())), &res) != nil || res.HErr != "" {
			c.Res.Notes = append(c.Res.Notes, "default-UI child gave no result: "+trunc16(so.String()))
			return
		}
		label := fmt.Sprintf("[%s round#%d default UI]", cs.Name, round)
		if res.Panic != "" || res.Hang {
			c.Violation("C16/panic", label+" driver.PProf panicked or hung: "+trunc16(res.Panic), cs)
			return
		}
		if res.Failed != exp.Fail {
			c.Violation("C16/verdict/default-ui", fmt.Sprintf("%s failed=%v (%s), want %v", label, res.Failed, trunc16(res.Err), exp.Fail), cs)
		}
		// stderr: exactly one complete line per failed source, no empty or merged lines
		count := map[string]int{}
		text := se.String()
		lines := strings.Split(strings.TrimSuffix(text, "\n"), "\n")
		for li, l := range lines {
			if strings.TrimSpace(l) == "" {
				c.Violation("C16/stderr/empty-line", fmt.Sprintf("%s stderr line %d of %d is empty: the messages of the two fetch groups were torn apart", label, li+1, len(lines)), cs)
				break
			}
			toks := c16TokRe.FindAllStringSubmatch(l, -1)
			distinct := map[string]bool{}
			for _, t := range toks {
				distinct[t[1]] = true
			}
			if len(distinct) > 1 {
				c.Violation("C16/stderr/merged-lines", fmt.Sprintf("%s stderr line %d carries the messages of several sources: %s", label, li+1, trunc16(l)), cs)
				break
			}
			for t := range distinct {
				count[t]++
			}
		}
		for i, s := range cs.all() {
			g, id := 0, i
			if i >= n {
				g, id = 1, i-n
			}
			want := 0
			if !c16Succeeds(s.Kind) {
				want = 1
			}
			if got := count[c16Token(g, id)]; got != want {
				c.Violation("C16/stderr/line-count", fmt.Sprintf("%s %s (%s): %d stderr line(s), want %d", label, c16Token(g, id), s.Kind, got, want), cs)
				break
			}
		}
		c.Res.Hit("default-ui-rounds")
	}
	nf := exp.NFail[0] + exp.NFail[1]
	c.Res.Count(fmt.Sprintf("stdui|%v|%d", kinds, rounds), exp.NFail[0] >= 2 && exp.NFail[1] >= 2)
	c.Res.Hit("default-ui-cases")
	c.Res.Hit(fmt.Sprintf("default-ui-failing-lines-%d", nf/50*50))
}

// ---------------------------------------------------------------------------------------------
// generators

func c16GenBurst(r *Rng, idx int) *c16Case {
	cs := &c16Case{Name: fmt.Sprintf("burst-files-%d", idx), Burst: true, Perf: true, NoTool: idx%2 == 0}
	n := []int{40, 100, 140, 200, 129, 60}[idx%6]
	nperfOK, nperfFail := 0, 0
	for i := 0; i < n; i++ {
		k := c16OKFile
		if cs.NoTool {
			if r.Chance(30) {
				k = c16PerfNoTool
			}
		} else if r.Chance(12) {
			// each of these starts a process: keep them few
			if nperfOK < 5 && r.Bool() {
				k, nperfOK = c16PerfOK, nperfOK+1
			} else if nperfFail < 8 {
				k, nperfFail = c16PerfFail, nperfFail+1
			}
		}
		if k == c16OKFile && r.Chance(5) {
			k = r.Pick([]string{c16Missing, c16GarbageFile})
		}
		cs.Sources = append(cs.Sources, c16Src{Kind: k, Seed: r.U64() >> 16})
	}
	if cs.NoTool {
		cs.Sources[r.Intn(n)] = c16Src{Kind: c16PerfNoTool, Seed: 1}
	} else {
		cs.Sources[r.Intn(n)] = c16Src{Kind: c16PerfOK, Seed: r.U64() >> 16}
	}
	if idx%3 == 1 {
		for j := 0; j < 20; j++ {
			k := c16OKFile
			if j%4 == 0 {
				if cs.NoTool {
					k = c16PerfNoTool
				} else {
					k = c16PerfFail
				}
			}
			cs.Bases = append(cs.Bases, c16Src{Kind: k, Seed: r.U64() >> 16})
		}
	}
	rounds := 4
	for s := 0; s < rounds; s++ {
		cs.Schedules = append(cs.Schedules, []int{}) // no delays: the burst gate releases everything at once
	}
	return cs
}

func c16GenStdUI(r *Rng, idx int) *c16Case {
	cs := &c16Case{Name: fmt.Sprintf("default-ui-%d", idx), StdUI: true, Burst: true, Rounds: 8}
	n, m := 100+r.Intn(29), 100+r.Intn(29)
	if idx%2 == 1 {
		n, m = 128, 128
	}
	for i := 0; i < n; i++ {
		k := c16Err
		if r.Chance(8) {
			k = c16OK
		}
		cs.Sources = append(cs.Sources, c16Src{Kind: k, Seed: r.U64() >> 16})
	}
	for j := 0; j < m; j++ {
		k := c16Err
		if r.Chance(8) {
			k = c16OK
		}
		cs.Bases = append(cs.Bases, c16Src{Kind: k, Seed: r.U64() >> 16})
	}
	cs.Sources[0].Kind, cs.Bases[0].Kind = c16OK, c16OK
	cs.DiffBase = r.Bool()
	return cs
}
