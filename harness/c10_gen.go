//go:build verif

package main

import (
	"bytes"
	"encoding/hex"
	"fmt"
	"os"
	"os/exec"
	"path/filepath"
	"sort"
	"strconv"
	"strings"

	"github.com/google/pprof/profile"
)

// ---- profile generator for C10: rich enough that every mutating option changes some report ----

// file names are multi-component absolute build paths: c10PathPrefix + "/src/<pkg>/<file>.go"
const c10PathPrefix = "/build/remote/checkout/proj"

var c10FuncPool = []struct{ name, file string }{
	{"main.main", c10PathPrefix + "/src/app/main.go"}, {"main.run", c10PathPrefix + "/src/app/main.go"},
	{"app.Handle", c10PathPrefix + "/src/app/handler.go"}, {"app.parse", c10PathPrefix + "/src/app/handler.go"},
	{"lib.Alloc", c10PathPrefix + "/src/lib/alloc.go"}, {"lib.Free", c10PathPrefix + "/src/lib/alloc.go"},
	{"runtime.mallocgc", c10PathPrefix + "/src/runtime/malloc.go"}, {"runtime.gcBgMarkWorker", c10PathPrefix + "/src/runtime/malloc.go"},
	{"util.Sort", c10PathPrefix + "/src/util/sort.go"}, {"util.hash", c10PathPrefix + "/src/util/sort.go"},
	{"db.Query", c10PathPrefix + "/src/db/query.go"}, {"db.scan", c10PathPrefix + "/src/db/query.go"},
}

var c10TypeSets = [][][2]string{
	{{"samples", "count"}, {"cpu", "nanoseconds"}},
	{{"alloc_objects", "count"}, {"alloc_space", "bytes"}, {"inuse_objects", "count"}, {"inuse_space", "bytes"}},
	{{"contentions", "count"}, {"delay", "nanoseconds"}},
	{{"samples", "count"}},
	{{"objects", "count"}, {"space", "bytes"}},
}

func c10GenProfile(r *Rng) *profile.Profile { return c10GenProfileSized(r, 10+r.Intn(14), 6) }

// c10GenProfileSized: ns samples of depth ≤ depth (large ones make web pages exceed 64 KiB).
func c10GenProfileSized(r *Rng, ns, depth int) *profile.Profile {
	p := &profile.Profile{}
	ts := c10TypeSets[r.Intn(len(c10TypeSets))]
	for _, t := range ts {
		p.SampleType = append(p.SampleType, &profile.ValueType{Type: t[0], Unit: t[1]})
	}
	if r.Chance(30) {
		p.DefaultSampleType = ts[r.Intn(len(ts))][0]
	}
	p.PeriodType = &profile.ValueType{Type: "cpu", Unit: "nanoseconds"}
	p.Period = 10000000
	p.TimeNanos = 1700000000000000000
	p.DurationNanos = 3000000000
	if r.Chance(50) {
		p.Comments = []string{"build=deadbeef", "host=h1"}
	}
	p.Mapping = []*profile.Mapping{
		{ID: 1, Start: 0x400000, Limit: 0x500000, File: "/bin/app", BuildID: "aa11", HasFunctions: true, HasFilenames: true, HasLineNumbers: true, HasInlineFrames: true},
		{ID: 2, Start: 0x7f0000000000, Limit: 0x7f0000100000, File: "/lib/libutil.so", BuildID: "bb22", HasFunctions: true, HasFilenames: true, HasLineNumbers: true, HasInlineFrames: true},
	}
	nf := 6 + r.Intn(len(c10FuncPool)-5)
	for i := 0; i < nf; i++ {
		f := c10FuncPool[i]
		p.Function = append(p.Function, &profile.Function{ID: uint64(i + 1), Name: f.name, SystemName: f.name, Filename: f.file, StartLine: int64(5 + 10*(i%4))})
	}
	// locations: one or two per function, some with an inlined second line
	for i := 0; i < nf+3; i++ {
		fn := p.Function[i%nf]
		m := p.Mapping[0]
		if strings.HasPrefix(fn.Name, "util.") || strings.HasPrefix(fn.Name, "db.") {
			m = p.Mapping[1]
		}
		l := &profile.Location{ID: uint64(i + 1), Mapping: m, Address: m.Start + uint64(0x100*(i%nf)+0x10*(i/nf)+4)}
		l.Line = append(l.Line, profile.Line{Function: fn, Line: fn.StartLine + int64(1+i%7), Column: int64(1 + i%3)})
		if r.Chance(35) {
			caller := p.Function[r.Intn(nf)]
			l.Line = append(l.Line, profile.Line{Function: caller, Line: caller.StartLine + int64(2+i%5), Column: 2})
		}
		p.Location = append(p.Location, l)
	}
	reqs := []string{"a", "b", "c"}
	tenants := []string{"x", "y"}
	for i := 0; i < ns; i++ {
		s := &profile.Sample{}
		d := 1 + r.Intn(depth)
		for j := 0; j < d; j++ {
			s.Location = append(s.Location, p.Location[r.Intn(len(p.Location))])
		}
		// root is usually main.main so that show_from / prune_from have something to bite on
		if r.Chance(70) {
			s.Location = append(s.Location, p.Location[0])
		}
		for range ts {
			v := int64(1 + r.Intn(5000))
			if r.Chance(8) {
				v = -v
			}
			s.Value = append(s.Value, v)
		}
		if r.Chance(75) {
			s.Label = map[string][]string{"req": {reqs[r.Intn(3)]}}
			if r.Chance(50) {
				s.Label["tenant"] = []string{tenants[r.Intn(2)]}
			}
		}
		if r.Chance(60) {
			s.NumLabel = map[string][]int64{"bytes": {int64(16 << uint(r.Intn(9)))}}
			s.NumUnit = map[string][]string{"bytes": {"bytes"}}
			if r.Chance(30) {
				s.NumLabel["latency"] = []int64{int64(1 + r.Intn(900))}
				s.NumUnit["latency"] = []string{"milliseconds"}
			}
		}
		p.Sample = append(p.Sample, s)
	}
	return p
}

// c10GenProfileLarge: a profile whose serialization exceeds minBytes (size thresholds in the code under
// test — 1 MiB, 64 KiB — need at least one LARGE input per stream): the usual small profile plus thousands
// of functions with long names in packages pkg00…pkg19, one location each, and samples over them.
func c10GenProfileLarge(r *Rng, minBytes int) *profile.Profile {
	p := c10GenProfileSized(r, 20, 6)
	pad := strings.Repeat("VeryLongGeneratedFunctionNameSegment", 4)
	for n := 4000; ; n += 2000 {
		base := len(p.Function)
		for i := 0; i < n; i++ {
			id := uint64(len(p.Function) + 1)
			name := fmt.Sprintf("pkg%02d.%s_%d", i%20, pad, base+i)
			fn := &profile.Function{ID: id, Name: name, SystemName: name, Filename: fmt.Sprintf("%s/src/pkg%02d/file_%s_%d.go", c10PathPrefix, i%20, pad[:40], (base+i)%97), StartLine: int64(1 + i%50)}
			p.Function = append(p.Function, fn)
			l := &profile.Location{ID: uint64(len(p.Location) + 1), Mapping: p.Mapping[i%2], Address: p.Mapping[i%2].Start + 0x10000 + uint64(16*(base+i))}
			l.Line = []profile.Line{{Function: fn, Line: fn.StartLine + 3}}
			p.Location = append(p.Location, l)
		}
		first := len(p.Location) - n
		for i := 0; i < n/2; i++ {
			s := &profile.Sample{}
			for d, k := 0, 2+r.Intn(6); d < k; d++ {
				s.Location = append(s.Location, p.Location[first+r.Intn(n)])
			}
			s.Location = append(s.Location, p.Location[0])
			for range p.SampleType {
				s.Value = append(s.Value, int64(1+r.Intn(5000)))
			}
			if r.Chance(50) {
				s.Label = map[string][]string{"req": {[]string{"a", "b", "c"}[r.Intn(3)]}}
			}
			p.Sample = append(p.Sample, s)
		}
		if b, _ := c10WriteU(p); len(b) >= minBytes {
			return p
		}
	}
}

// c10LargeWebRequests: views of a large profile, each with a DIFFERENT focus/ignore/hide so that a profile
// shared between overlapping requests is visible in every one of them.
func c10LargeWebRequests(r *Rng) (string, []string) {
	pk := func() string { return fmt.Sprintf("pkg%02d", r.Intn(20)) }
	req := r.Pick([]string{"/top?f=", "/top?i=", "/flamegraph?f=", "/top?h="}) + pk()
	others := []string{"/top?f=" + pk(), "/flamegraph?f=" + pk(), "/top?i=" + pk() + "&n=40", "/top?h=pkg0&f=" + pk()}
	return req, others
}

// c10SourceTrees: the scratch source trees of a case, relative to the case directory. The profile's file
// names are absolute multi-component build paths ("/build/remote/checkout/proj/src/app/main.go"); pprof
// finds sources by (a) trim_path, or (b) the heuristic "strip everything up to /<basename of a source_path
// directory>/", or (c) joining source_path with the full name. Every tree below therefore yields DIFFERENT
// trimmed file names and has different file contents:
//
//	srcroot/<full name>              found through (c) with source_path=../srcroot, names untrimmed
//	trees/a/src/<pkg>/<file>         basename "src"      → names become <pkg>/<file>
//	trees/b/app/<file>               basename "app"      → only …/src/app/… names become <file>
//	trees/c/lib/<file>               basename "lib"      → only …/src/lib/… names become <file>
//	trees/d/proj/src/<pkg>/<file>    basename "proj"     → names become src/<pkg>/<file>
//	trees/e/checkout/proj/src/…      basename "checkout" → names become proj/src/<pkg>/<file>
//	trees/f/other/…                  basename occurs in no file name (nothing trimmed, nothing found)
func c10SourceTrees(p *profile.Profile) map[string]string {
	out := map[string]string{"trees/f/other/readme.txt": "no sources here\n"}
	text := func(tree, name string) string {
		var b bytes.Buffer
		for i := 1; i <= 60; i++ {
			fmt.Fprintf(&b, "// tree %s: %s line %d\n", tree, name, i)
		}
		return b.String()
	}
	for _, f := range p.Function {
		n := f.Filename
		rel := strings.TrimPrefix(n, c10PathPrefix) // "/src/<pkg>/<file>" (older corpus profiles have no prefix)
		if n == "" || !strings.HasPrefix(rel, "/src/") {
			continue
		}
		out["srcroot"+n] = text("root", n)
		out["trees/a"+rel] = text("a", n)
		out["trees/d/proj"+rel] = text("d", n)
		out["trees/e/checkout/proj"+rel] = text("e", n)
		if strings.HasPrefix(rel, "/src/app/") {
			out["trees/b/app/"+strings.TrimPrefix(rel, "/src/app/")] = text("b", n)
		}
		if strings.HasPrefix(rel, "/src/lib/") {
			out["trees/c/lib/"+strings.TrimPrefix(rel, "/src/lib/")] = text("c", n)
		}
	}
	return out
}

var c10SourcePaths = []string{"../trees/a/src", "../trees/b/app", "../trees/d/proj", "../trees/e/checkout", "../trees/c/lib", "../srcroot", "../trees/b/app:../trees/c/lib", "../trees/c/lib:../trees/a/src", "../trees/f/other", "", "/nonexistent"}
var c10TrimPaths = []string{"", "", c10PathPrefix + "/src", c10PathPrefix + "/src/app", c10PathPrefix, "/build/remote", "/src", "/zzz"}

// ---- script generator ----

// c10Line is one line of a script together with what the GENERATOR intended it to be (third opinion
// next to the model's classification and the real session's behaviour).
type c10Line struct {
	Text   string `json:"text"`
	Intent string `json:"intent"` // assign | command | builtin | junk | shortcut | quit
}

var c10Regexes = []string{"main", "app", `lib\.`, "runtime", "Alloc|Free", "util", "db", "Query", "nomatch", "malloc", "handler.go", "libutil", ".", "^main", "Handle", "scan|hash", "main.run"}
var c10TagExprs = []string{"req=a", "a", "b|c", "bytes=1kb:", "tenant", "512b:2kb", "x|y", "req", "latency=100ms:", "tenant=y", "nomatch"}
var c10TagKeys = []string{"req", "tenant", "req,tenant", "bytes", "nokey"}
var c10Floats = []string{"0", "0.1", "0.25", "0.005", "1", "2", "0.5", "1e-3", "10", ".05", "abc", "1.5"}
var c10Bools = []string{"true", "false", "1", "0", "yes", "no", "t", "f", "Y", "N", "", "maybe", "TRUE", "False"}
var c10BoolOpts = []string{"call_tree", "relative_percentages", "drop_negative", "noinlines", "showcolumns", "trim", "mean", "compact_labels", "intel_syntax", "normalize"}
var c10RegexOpts = []string{"focus", "ignore", "hide", "show", "show_from", "prune_from"}
var c10Granularities = []string{"functions", "filefunctions", "files", "lines", "addresses"}
var c10Units = []string{"minimum", "auto", "ms", "us", "s", "kb", "mb", "bytes", "seconds"}

// report commands that are safe to run unattended (no viewer is ever started: graphviz and the
// visualizers are kept off PATH, and weblist is only used with an output file).
var c10PlainCmds = []string{"top", "top", "top", "text", "tree", "traces", "traces", "tags", "tags", "raw", "dot", "comments", "callgrind", "proto", "topproto", "svg", "web"}
var c10ParamCmds = []string{"peek", "peek", "list", "list", "disasm", "weblist"}

func c10Pad(r *Rng, s string) string {
	switch r.Intn(6) {
	case 0:
		return " " + s
	case 1:
		return s + "  "
	case 2:
		return "  " + s + " "
	}
	return s
}

func (r *Rng) c10Assign(types []string) c10Line {
	name, val := "", ""
	switch r.Intn(16) {
	case 0, 1, 2, 3:
		name = r.Pick(c10RegexOpts)
		val = r.Pick(c10Regexes)
		if r.Chance(15) {
			val = ""
		}
	case 4:
		name = r.Pick([]string{"tagfocus", "tagignore"})
		val = r.Pick(c10TagExprs)
	case 5:
		name = r.Pick([]string{"tagshow", "taghide"})
		val = r.Pick([]string{"req", "tenant", "bytes", "latency", "nomatch", ""})
	case 6:
		name = r.Pick([]string{"tagroot", "tagleaf"})
		val = r.Pick(c10TagKeys)
	case 7, 8:
		name = r.Pick(c10BoolOpts)
		if r.Chance(20) {
			return c10Line{Text: c10Pad(r, name), Intent: "assign"} // bool without '=' means true
		}
		val = r.Pick(c10Bools)
	case 9:
		name = "nodecount"
		val = r.Pick([]string{"3", "1", "0", "-1", "20", "+4", "007", "x", "", "99999999999999999999", "2.5"})
	case 10:
		name = r.Pick([]string{"nodefraction", "edgefraction", "divide_by"})
		val = r.Pick(c10Floats)
	case 11:
		switch r.Intn(4) {
		case 0:
			name, val = "sort", r.Pick([]string{"cum", "flat", "bad", ""})
		case 1:
			name, val = "granularity", r.Pick(append([]string{"", "bad"}, c10Granularities...))
		case 2:
			name = r.Pick(append([]string{"cum", "flat"}, c10Granularities...))
			if r.Chance(30) {
				return c10Line{Text: c10Pad(r, name), Intent: "assign"}
			}
			val = r.Pick([]string{"1", "true", "t", "0", "false", "yes", "T", "True"})
		case 3:
			name, val = "unit", r.Pick(c10Units)
		}
	case 12:
		name = "sample_index"
		val = r.Pick(append([]string{"0", "1", "7", "-1", "", "nosuch", "inuse_space", "inuse_objects"}, types...))
	case 13:
		name = "output"
		val = r.Pick([]string{"outA.txt", "outB.txt", "", ""})
	case 14:
		name = r.Pick([]string{"source_path", "trim_path"})
		if name == "source_path" {
			val = r.Pick(c10SourcePaths)
		} else {
			val = r.Pick(c10TrimPaths)
		}
	case 15:
		// a field name that needs a value, given without one
		name = r.Pick([]string{"focus", "nodecount", "unit", "sort", "granularity", "divide_by"})
		return c10Line{Text: c10Pad(r, name), Intent: "assign"}
	}
	t := name
	if r.Chance(15) {
		t += " "
	}
	t += "="
	if r.Chance(15) {
		t += " "
	}
	t += val
	if r.Chance(12) {
		t += " //: a comment"
	}
	return c10Line{Text: c10Pad(r, t), Intent: "assign"}
}

func (r *Rng) c10Command(nfile *int) c10Line {
	var toks []string
	name := ""
	if r.Chance(30) {
		name = r.Pick(c10ParamCmds)
		toks = append(toks, name, r.Pick(c10Regexes))
	} else {
		name = r.Pick(c10PlainCmds)
		if (name == "top" || name == "text" || name == "tree") && r.Chance(20) {
			name += strconv.Itoa(1 + r.Intn(12)) // top10
		}
		toks = append(toks, name)
	}
	base := strings.TrimRight(name, "0123456789")
	needFile := base == "weblist"
	na := r.Intn(4)
	for i := 0; i < na; i++ {
		switch r.Intn(7) {
		case 0, 1:
			if base == "tags" {
				toks = append(toks, r.Pick(c10TagExprs))
			} else {
				toks = append(toks, r.Pick(c10Regexes))
			}
		case 2:
			if base == "tags" {
				toks = append(toks, "-"+r.Pick(c10TagExprs))
			} else {
				toks = append(toks, "-"+r.Pick(c10Regexes))
			}
		case 3:
			toks = append(toks, strconv.Itoa(r.Intn(15)))
		case 4:
			toks = append(toks, r.Pick([]string{"-cum", "--cum"}))
		case 5:
			needFile = true
		case 6:
			toks = append(toks, r.Pick([]string{"-3", "+2", "99999999999"}))
		}
	}
	if needFile {
		*nfile++
		f := fmt.Sprintf("f%d.out", *nfile)
		if r.Chance(60) {
			f = r.Pick([]string{"fA.out", "fB.out", "outA.txt"}) // names are REUSED across commands (and shared with output=)
		}
		if r.Chance(12) {
			f = r.Pick(c10Undeliverable) // the report is generated but cannot be delivered
		}
		if r.Chance(40) {
			toks = append(toks, ">", f)
		} else {
			toks = append(toks, ">"+f)
		}
	}
	sep := " "
	if r.Chance(10) {
		sep = "  "
	}
	return c10Line{Text: c10Pad(r, strings.Join(toks, sep)), Intent: "command"}
}

func (r *Rng) c10Junk() c10Line {
	return c10Line{Text: r.Pick([]string{"", "   ", "frobnicate", "focus main", "nodecount 5", "top >", "peek", "list", "sort cum",
		"=main", "zz9", "help", "help top", "help focus", "help nosuch", "o", "options", "o", "lines 3", "TOP", "disasm"}), Intent: "junk"}
}

// c10Script: commands with arguments interleaved with assignments; mutating material first.
func c10Script(r *Rng, types []string, n int) []c10Line {
	var ls []c10Line
	nfile := 0
	for i := 0; i < n; i++ {
		switch x := r.Intn(100); {
		case x < 50:
			ls = append(ls, r.c10Command(&nfile))
		case x < 80:
			ls = append(ls, r.c10Assign(types))
		case x < 86:
			t := r.Pick(types)
			ls = append(ls, c10Line{Text: c10Pad(r, r.Pick([]string{":", t, "total_" + t, "mean_" + t})), Intent: "shortcut"})
		default:
			l := r.c10Junk()
			if l.Text == "o" || l.Text == "options" || strings.HasPrefix(l.Text, "help") {
				l.Intent = "builtin"
			}
			ls = append(ls, l)
		}
	}
	return ls
}

// ---- toggle scripts: re-assign ONE option to different values between identical probes ----
//
// Every option that influences report content is listed with values that change the output for the
// generated profiles. A toggle script is  setup… ; O=v1 ; P ; O=v2 ; P ; O=v1 ; P  (so both orders of every
// pair occur) with noise lines in between; every P is probed against a fresh session that replays only the
// assignments, so any process-wide cache keyed without O shows as a difference.

type c10Toggle struct {
	opt    string
	values []string
	probes []string // commands whose output depends on the option
	setup  []string // assignments that make the dependence visible
}

func c10Toggles(types []string) []c10Toggle {
	fileProbes := []string{"top", "tree", "dot", "list main|Alloc|Handle", "list .", "weblist main|Alloc >w.out", "peek Handle|Alloc", "text 40", "callgrind >cg.out", "traces"}
	fileSetup := []string{"granularity=files", "granularity=lines", "granularity=filefunctions", "granularity=addresses", "lines=1"}
	any := []string{"top", "tree", "peek .", "traces", "text 30 -cum", "dot", "tags", "raw", "topproto >tp.out", "proto >p.out", "callgrind >cg.out"}
	t := []c10Toggle{
		{"source_path", c10SourcePaths[:9], fileProbes, fileSetup},
		{"trim_path", []string{"", c10PathPrefix + "/src", c10PathPrefix + "/src/app", c10PathPrefix, "/build/remote"}, fileProbes, append([]string{"source_path=../trees/a/src", "source_path=../srcroot", "source_path=../trees/b/app"}, fileSetup...)},
		{"unit", c10Units, []string{"top", "tree", "peek .", "traces", "tags", "dot", "list ."}, nil},
		{"divide_by", []string{"1", "2", "0.5", "10"}, any, nil},
		{"tagroot", []string{"req", "tenant", "req,tenant", "bytes", ""}, any, nil},
		{"tagleaf", []string{"req", "tenant", "tenant,req", "latency", ""}, any, nil},
		{"showcolumns", []string{"true", "false"}, []string{"top", "tree", "list .", "peek .", "traces", "dot"}, []string{"granularity=lines", "granularity=addresses"}},
		{"noinlines", []string{"true", "false"}, any, []string{"granularity=lines", "granularity=functions", ""}},
		{"call_tree", []string{"true", "false"}, []string{"tree", "peek .", "top", "callgrind >cg.out"}, nil},
		{"relative_percentages", []string{"true", "false"}, any, []string{"focus=lib|app", "ignore=runtime", "tagfocus=req=a"}},
		{"drop_negative", []string{"true", "false"}, any, nil},
		{"mean", []string{"true", "false"}, any, nil},
		{"trim", []string{"true", "false"}, []string{"top", "tree", "dot", "peek ."}, []string{"nodefraction=0.1", "nodecount=3"}},
		{"nodecount", []string{"2", "5", "-1", "0"}, []string{"top", "tree", "dot", "text"}, nil},
		{"nodefraction", []string{"0", "0.1", "0.25", "0.005"}, []string{"top", "tree", "dot"}, nil},
		{"edgefraction", []string{"0", "0.1", "0.5", "0.001"}, []string{"tree", "dot"}, nil},
		{"granularity", c10Granularities, any, nil},
		{"sort", []string{"cum", "flat"}, []string{"top", "text", "tree", "peek ."}, nil},
		{"compact_labels", []string{"true", "false"}, []string{"top", "tree", "peek ."}, nil},
		{"focus", c10Regexes, any, nil}, {"ignore", c10Regexes, any, nil}, {"hide", c10Regexes, any, nil},
		{"show", c10Regexes, any, nil}, {"show_from", c10Regexes, any, nil}, {"prune_from", c10Regexes, any, nil},
		{"tagfocus", c10TagExprs, any, nil}, {"tagignore", c10TagExprs, any, nil},
		{"tagshow", []string{"req", "tenant", "bytes", "latency"}, []string{"tags", "traces", "raw", "proto >p.out"}, nil},
		{"taghide", []string{"req", "tenant", "bytes", "latency"}, []string{"tags", "traces", "raw", "proto >p.out"}, nil},
		{"output", []string{"outA.txt", "outB.txt", "", "no/such/dir/o.txt", "/dev/full"}, any, nil},
		{"intel_syntax", []string{"true", "false"}, []string{"disasm .", "weblist . >w.out"}, nil},
	}
	if len(types) > 1 {
		t = append(t, c10Toggle{"sample_index", types, any, nil})
	}
	return t
}

func c10ToggleScript(r *Rng, types []string) ([]c10Line, string) {
	ts := c10Toggles(types)
	// path options are over-represented: their effect goes through more layers (name trimming, file lookup)
	var tg c10Toggle
	if r.Chance(40) {
		tg = ts[r.Intn(2)]
	} else {
		tg = ts[r.Intn(len(ts))]
	}
	var ls []c10Line
	asg := func(t string) { ls = append(ls, c10Line{Text: c10Pad(r, t), Intent: "assign"}) }
	cmd := func(t string) { ls = append(ls, c10Line{Text: c10Pad(r, t), Intent: "command"}) }
	for _, s := range tg.setup {
		if s != "" && r.Chance(45) {
			asg(s)
		}
	}
	// one or two bystander options with output-changing values
	for i, n := 0, r.Intn(3); i < n; i++ {
		o := ts[r.Intn(len(ts))]
		if o.opt != tg.opt {
			asg(o.opt + "=" + r.Pick(o.values))
		}
	}
	probe := r.Pick(tg.probes)
	probe2 := r.Pick(tg.probes)
	nfile := 100
	vals := append([]string{}, tg.values...)
	for i := len(vals) - 1; i > 0; i-- { // shuffle
		j := r.Intn(i + 1)
		vals[i], vals[j] = vals[j], vals[i]
	}
	if len(vals) > 3 {
		vals = vals[:3]
	}
	seq := append(append([]string{}, vals...), vals[0])
	if len(vals) > 2 && r.Bool() {
		seq = append(seq, vals[2], vals[1])
	}
	for _, v := range seq {
		asg(tg.opt + "=" + v)
		if r.Chance(25) {
			ls = append(ls, r.c10Command(&nfile)) // noise: an unrelated report in between
		}
		cmd(probe)
		if r.Chance(40) {
			cmd(probe2)
		}
	}
	return ls, tg.opt
}

// output targets that cannot be written: missing directory, a device that is always full, a directory
var c10Undeliverable = []string{"no/such/dir/out.txt", "/dev/full", "nodir/x.out", "../srcroot", "/proc/nonexistent/x"}

// c10UndeliverableScript: report commands whose output cannot be delivered (bad `>file`, bad output=,
// formats whose post-processor / visualizer is not installed), each followed by ordinary probed commands.
func c10UndeliverableScript(r *Rng) []c10Line {
	reports := []string{"top", "tree", "traces", "raw", "peek .", "tags", "text -cum", "dot", "list .", "callgrind", "proto", "topproto", "weblist ."}
	failing := []string{"svg", "web", "gif", "png", "pdf", "ps", "eog", "evince", "gv", "kcachegrind"}
	probes := []string{"top 3", "tree", "traces", "tags", "peek main", "comments", "text", "raw", "top >ok.out", "dot >ok.out", "proto >ok.pb"}
	var ls []c10Line
	asg := func(t string) { ls = append(ls, c10Line{Text: c10Pad(r, t), Intent: "assign"}) }
	cmd := func(t string) { ls = append(ls, c10Line{Text: c10Pad(r, t), Intent: "command"}) }
	for i, n := 0, 3+r.Intn(3); i < n; i++ {
		switch r.Intn(4) {
		case 0, 1:
			cmd(r.Pick(reports) + " >" + r.Pick(c10Undeliverable))
		case 2:
			asg("output=" + r.Pick(c10Undeliverable))
			cmd(r.Pick(reports))
			if r.Bool() {
				cmd(r.Pick(reports))
			}
			asg("output=")
		case 3:
			c := r.Pick(failing)
			if r.Bool() {
				c += " >" + r.Pick([]string{"img.out", "no/such/dir/img.out"})
			}
			cmd(c)
		}
		cmd(r.Pick(probes))
		if r.Chance(40) {
			cmd(r.Pick(probes))
		}
	}
	return ls
}

// ---- repeat scripts: the SAME line two or three times in one session (independent of the seed) ----

// c10RepeatScripts: a fixed set of histories, part of every run whatever the seed. Each takes a few
// representative lines — abbreviated commands with an implied node count (top5, tree3, text2, top3),
// commands with arguments, list/peek/traces/tags, built-ins — and issues every one of them 2–3 times with
// other commands and assignments in between; each occurrence is probed against a fresh process, so
// anything a line leaves behind for its own later occurrences (registered spellings, memo tables,
// once-only notices) shows.
func c10RepeatScripts() [][]c10Line {
	groups := [][]string{
		{"top5", "tree3", "peek main"},
		{"top3", "text2", "traces"},
		{"top2 -cum", "tree2 main", "list main"},
		{"text5 lib|app", "top4 >rep.out", "tags"},
		{"peek Alloc|Handle", "top 5", "dot3"},
		{"traces main", "list Alloc", "top1"},
		{"callgrind2", "raw", "o"},
		{"tree5 -cum", "disasm main", "help top5"},
	}
	between := []string{"traces", "focus=main", "top", "focus=", "tree", "unit=ms", "tags", "nodecount=4", "peek .", "nodecount=-1", "granularity=lines", "granularity="}
	var out [][]c10Line
	// built-in, non-report commands after each other in every order: the list twice forwards and twice
	// backwards, so that for every ordered pair (a, b) some probed b follows an a
	builtins := []string{"help", "o", "help top", "options", "help focus", "nodecount", "help granularity", "help lines", "cum", "help nosuch"}
	for _, rev := range []bool{false, true} {
		var ls []c10Line
		for round := 0; round < 2; round++ {
			for i := range builtins {
				t := builtins[i]
				if rev {
					t = builtins[len(builtins)-1-i]
				}
				intent := "builtin"
				if t == "nodecount" || t == "cum" {
					intent = "assign" // a bare option name takes the name=value branch (prints an error / its usage)
				}
				ls = append(ls, c10Line{Text: t, Intent: intent})
			}
		}
		out = append(out, ls)
	}
	for gi, g := range groups {
		var ls []c10Line
		add := func(t string) {
			intent := "command"
			if strings.Contains(t, "=") {
				intent = "assign"
			} else if t == "o" || strings.HasPrefix(t, "help") {
				intent = "builtin"
			}
			ls = append(ls, c10Line{Text: t, Intent: intent})
		}
		k := gi * 3
		for round := 0; round < 3; round++ {
			for _, l := range g {
				add(l)
				if round < 2 {
					add(between[k%len(between)])
					k++
				}
			}
		}
		out = append(out, ls)
	}
	return out
}

// ---- file-reuse scripts: several reports written to the SAME file, long ones before short ones ----

func c10FileReuseScript(r *Rng) []c10Line {
	long := []string{"raw", "tree", "traces", "dot", "peek .", "top 40", "tags", "callgrind", "list .", "text -cum"}
	short := []string{"top 1", "top 2 nomatch", "comments", "tags nomatch", "text 1", "peek nomatch", "tree 1 -cum", "traces nomatch"}
	F := r.Pick([]string{"fA.out", "reuse.txt", "outA.txt"})
	var ls []c10Line
	asg := func(t string) { ls = append(ls, c10Line{Text: c10Pad(r, t), Intent: "assign"}) }
	cmd := func(t string) { ls = append(ls, c10Line{Text: c10Pad(r, t), Intent: "command"}) }
	viaOption := r.Chance(40)
	redirect := func(c string) string {
		if viaOption {
			return c
		}
		if r.Bool() {
			return c + " >" + F
		}
		return c + " > " + F
	}
	if r.Chance(30) {
		asg(r.Pick([]string{"granularity=lines", "unit=ms", "nodecount=3", "focus=app|lib"}))
	}
	if viaOption {
		asg("output=" + F)
	}
	for i, n := 0, 2+r.Intn(3); i < n; i++ {
		cmd(redirect(r.Pick(long)))
		cmd(redirect(r.Pick(short)))
		if r.Chance(30) {
			s := r.Pick(short)
			cmd(redirect(s))
			cmd(redirect(s)) // the same command twice in a row
		}
		if viaOption && r.Chance(30) {
			asg("output=")
			cmd(r.Pick(short))
			asg("output=" + F)
		}
	}
	return ls
}

// ---- real-binary stream: a real ELF binary + the default ObjTool (binutils) ----

// c10RealProfile: internal/report/testdata/sample.cpu of the tree under test with its mapping and source file
// names pointed at that tree's sample.bin / sample/; "" and a reason when the stream cannot run here.
func c10RealProfile() (string, string) {
	for _, tool := range []string{"objdump", "nm"} {
		if _, err := exec.LookPath(tool); err != nil {
			return "", tool + " not installed"
		}
	}
	_, e1 := exec.LookPath("addr2line")
	_, e2 := exec.LookPath("llvm-symbolizer")
	if e1 != nil && e2 != nil {
		return "", "neither addr2line nor llvm-symbolizer installed"
	}
	repo := os.Getenv("VERIF_REPO")
	if repo == "" {
		repo = "/repo"
	}
	dir := filepath.Join(repo, "internal", "report")
	f, err := os.Open(filepath.Join(dir, "testdata", "sample.cpu"))
	if err != nil {
		return "", err.Error()
	}
	defer f.Close()
	p, err := profile.Parse(f)
	if err != nil {
		return "", err.Error()
	}
	fix := func(s string) string {
		const marker = "/internal/report/"
		if pos := strings.Index(s, marker); pos != -1 {
			return filepath.Join(dir, s[pos+len(marker):])
		}
		return s
	}
	for _, m := range p.Mapping {
		m.File = fix(m.File)
	}
	for _, fn := range p.Function {
		fn.Filename = fix(fn.Filename)
	}
	if _, err := os.Stat(p.Mapping[0].File); err != nil {
		return "", err.Error()
	}
	b, pn := c10WriteU(p)
	if pn != "" {
		return "", pn
	}
	return hex.EncodeToString(b), ""
}

var c10RealFuncs = []string{"busyLoop", "main", "mapiternext", "math.Abs", "evacuate|growWork", "."}

// c10RealScript: commands that go through the object file (list, weblist, disasm), each issued twice or more
// in one session, same and different functions, with other reports and options in between.
func c10RealScript(r *Rng) []c10Line {
	var ls []c10Line
	cmd := func(t string) { ls = append(ls, c10Line{Text: t, Intent: "command"}) }
	asg := func(t string) { ls = append(ls, c10Line{Text: t, Intent: "assign"}) }
	f := r.Pick(c10RealFuncs[:4])
	kinds := []string{"weblist", "weblist", "list", "disasm"}
	n := 0
	file := func() string { n++; return fmt.Sprintf(">o%d.out", n) }
	for i, k := 0, 4+r.Intn(4); i < k; i++ {
		c := r.Pick(kinds)
		g := f
		if r.Chance(30) {
			g = r.Pick(c10RealFuncs)
		}
		switch {
		case c == "weblist":
			cmd("weblist " + g + " " + file())
		case r.Bool():
			cmd(c + " " + g + " " + file())
		default:
			cmd(c + " " + g)
		}
		if r.Chance(30) {
			cmd(r.Pick([]string{"top 5", "tree 5", "peek " + g, "traces"}))
		}
		if r.Chance(20) {
			asg(r.Pick([]string{"intel_syntax=true", "intel_syntax=false", "noinlines=true", "noinlines=false", "unit=ms", "focus=" + g, "focus="}))
		}
	}
	cmd("weblist " + f + " " + file())
	cmd("disasm " + f)
	cmd("list " + f)
	return ls
}

func c10RealWebRequests(r *Rng) (string, []string) {
	f := r.Pick(c10RealFuncs[:4])
	req := r.Pick([]string{"/source?f=", "/source?f=", "/disasm?f="}) + c10QueryEscape(f)
	var others []string
	for i, n := 0, 3+r.Intn(4); i < n; i++ {
		g := f
		if r.Chance(40) {
			g = r.Pick(c10RealFuncs)
		}
		others = append(others, r.Pick([]string{"/source?f=", "/source?f=", "/disasm?f=", "/peek?f=", "/top?f="})+c10QueryEscape(g))
	}
	others = append(others, req) // the probed request itself has been served before, too
	return req, others
}

// ---- web request generator ----

var c10WebPaths = []string{"/top", "/top", "/peek", "/flamegraph", "/flamegraph", "/source", "/disasm", "/"}

func (r *Rng) c10WebRequest(types []string) string {
	path := r.Pick(c10WebPaths)
	q := map[string]string{}
	if path == "/peek" || path == "/source" || path == "/disasm" {
		q["f"] = r.Pick(c10Regexes)
	}
	for i, n := 0, r.Intn(4); i < n; i++ {
		switch r.Intn(14) {
		case 0:
			q["f"] = r.Pick(c10Regexes)
		case 1:
			q["i"] = r.Pick(c10Regexes)
		case 2:
			q["h"] = r.Pick(c10Regexes)
		case 3:
			q[r.Pick([]string{"s", "sf", "prunefrom"})] = r.Pick(c10Regexes)
		case 4:
			q[r.Pick([]string{"tf", "ti"})] = r.Pick(c10TagExprs)
		case 5:
			q[r.Pick([]string{"ts", "th"})] = r.Pick([]string{"req", "tenant", "bytes"})
		case 6:
			q["si"] = r.Pick(append([]string{"0", "9", "nosuch"}, types...))
		case 7:
			q["n"] = r.Pick([]string{"3", "1", "x", "40"})
		case 8:
			q[r.Pick([]string{"nf", "ef"})] = r.Pick(c10Floats)
		case 9:
			q[r.Pick([]string{"trim", "calltree", "rel", "dropneg", "noinlines", "showcolumns", "mean", "compact", "intel"})] = r.Pick([]string{"t", "f", "true", "false", "maybe"})
		case 10:
			q["g"] = r.Pick(append([]string{"bad"}, c10Granularities...))
		case 11:
			q["sort"] = r.Pick([]string{"cum", "flat", "bad"})
		case 12:
			q["unit"] = r.Pick(c10Units)
		case 13:
			q["zz"] = "ignored"
		}
	}
	ks := make([]string, 0, len(q))
	for k := range q {
		ks = append(ks, k)
	}
	sort.Strings(ks)
	var sb strings.Builder
	sb.WriteString(path)
	for i, k := range ks {
		if i == 0 {
			sb.WriteByte('?')
		} else {
			sb.WriteByte('&')
		}
		sb.WriteString(k + "=" + c10QueryEscape(q[k]))
	}
	return sb.String()
}

// c10WebStateRequests interleaves the STATE-CHANGING endpoints into a request sequence: /saveconfig with
// the option parameters of some view (saving a view must not change what any other URL shows) and, for
// about half of them, a later /deleteconfig of the same name.
func (r *Rng) c10WebStateRequests(types []string, others []string) []string {
	if r.Chance(40) {
		return others
	}
	out := append([]string{}, others...)
	insert := func(at int, u string) {
		if at > len(out) {
			at = len(out)
		}
		out = append(out[:at], append([]string{u}, out[at:]...)...)
	}
	for i, n := 0, 1+r.Intn(2); i < n; i++ {
		name := r.Pick([]string{"hot", "v1", "mine", "tmp2"})
		q := ""
		if v := r.c10WebRequest(types); strings.Contains(v, "?") {
			q = "&" + v[strings.Index(v, "?")+1:]
		}
		if !strings.Contains(q, "f=") && r.Chance(60) {
			q += "&f=" + c10QueryEscape(r.Pick(c10Regexes))
		}
		if r.Chance(40) {
			q += "&" + r.Pick([]string{"h=" + c10QueryEscape(r.Pick(c10Regexes)), "g=lines", "g=files", "n=3", "calltree=t", "i=" + c10QueryEscape(r.Pick(c10Regexes)), "si=0", "th=req"})
		}
		at := r.Intn(len(out) + 1)
		insert(at, "/saveconfig?config="+name+q)
		if r.Bool() {
			insert(at+1+r.Intn(len(out)-at), "/deleteconfig?config="+name)
		}
	}
	return out
}

// c10WebFlags: options the web UI cannot change per request (no URL parameter), set for the whole case.
func (r *Rng) c10WebFlags() map[string]string {
	f := map[string]string{}
	if r.Chance(70) {
		f["source_path"] = r.Pick([]string{"@TREES@/trees/a/src", "@TREES@/trees/b/app", "@TREES@/trees/d/proj", "@TREES@/trees/e/checkout", "@TREES@/srcroot", "@TREES@/trees/b/app:@TREES@/trees/c/lib"})
	}
	if r.Chance(25) {
		f["trim_path"] = r.Pick([]string{c10PathPrefix + "/src", c10PathPrefix + "/src/app", c10PathPrefix})
	}
	if r.Chance(25) {
		f[r.Pick([]string{"tagroot", "tagleaf"})] = r.Pick([]string{"req", "tenant", "req,tenant"})
	}
	if r.Chance(20) {
		f["divide_by"] = r.Pick([]string{"2", "0.5", "10"})
	}
	return f
}

func c10QueryEscape(s string) string {
	var sb strings.Builder
	for i := 0; i < len(s); i++ {
		c := s[i]
		if c >= 'a' && c <= 'z' || c >= 'A' && c <= 'Z' || c >= '0' && c <= '9' || c == '.' || c == '-' || c == '_' {
			sb.WriteByte(c)
		} else {
			fmt.Fprintf(&sb, "%%%02X", c)
		}
	}
	return sb.String()
}

// ---- small helpers (own copies: the per-property overlay does not include c01.go) ----

func c10Trunc(s string) string {
	if len(s) > 240 {
		return s[:240] + "…"
	}
	return s
}

func c10Safely(f func()) (panicked string) {
	defer func() {
		if e := recover(); e != nil {
			panicked = fmt.Sprint(e)
		}
	}()
	f()
	return ""
}

func c10WriteU(p *profile.Profile) ([]byte, string) {
	var buf bytes.Buffer
	pn := c10Safely(func() { p.WriteUncompressed(&buf) })
	return buf.Bytes(), pn
}
