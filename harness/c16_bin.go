//go:build verif

package main

// C16, stream "binary location": every source's profile has a mapping (file name, build id) whose
// local binary grabProfile → locateBinaries looks up under $PPROF_BINARY_PATH (entries
// <buildid>/<name> and plain <name>; several releases of the same file name under different build
// ids; stale entries whose build id does not match; missing ones) through a mock ObjTool that
// reports each binary's build id.  Each fetch goroutine does this on its OWN profile, so the
// located file of a source must be a function of that source and the tree alone:
//
//	the set of (BuildID, File) pairs of the merged mappings = the union, over the successful
//	sources, of what a single-source fetch gives — whatever the completion order and whichever
//	neighbours fail; and the reports are byte-identical across schedules (generic runCase checks).
//
// The tree is generated so that at most ONE entry can match a mapping (no dependence on pprof's
// search order): see c16BinLocate (mirrored by Fetch.locate in Model/Fetch.lean, asked through
// the driver op fetch.locate).

import (
	"errors"
	"fmt"
	"os"
	"path/filepath"
	"regexp"
	"sort"
	"strings"

	"github.com/google/pprof/driver"
	"github.com/google/pprof/profile"
)

type c16BinEntry struct {
	Dir  string `json:"dir"`  // "" = directly under the search path, else the build-id directory
	Name string `json:"name"` // file name
	ID   string `json:"id"`   // build id the mock ObjTool reports for this file
}

const c16BinMagic = "c16bin buildid="

func c16WriteTree(path string, tree []c16BinEntry) {
	os.MkdirAll(path, 0o755)
	for _, e := range tree {
		d := filepath.Join(path, e.Dir)
		os.MkdirAll(d, 0o755)
		os.WriteFile(filepath.Join(d, e.Name), []byte(c16BinMagic+e.ID+"\n"), 0o644)
	}
}

// c16BinLocate: the entry a mapping (file, buildID) resolves to, "" if none. With a build id: a file of
// that build id in the directory named after it, or the plain entry of the same base name with
// that build id; without: the plain entry of the same base name, whatever its build id.
func c16BinLocate(tree []c16BinEntry, file, buildID string) string {
	base := filepath.Base(file)
	for _, e := range tree {
		if buildID != "" && e.Dir == buildID && e.ID == buildID {
			return filepath.Join(e.Dir, e.Name)
		}
		if e.Dir == "" && e.Name == base && (buildID == "" || e.ID == buildID) {
			return e.Name
		}
	}
	return ""
}

// mock ObjTool: a "binary" is a file starting with the magic; its build id follows.
type c16BinObj struct{}

type c16BinFile struct{ name, id string }

func (f c16BinFile) Name() string                                          { return f.name }
func (f c16BinFile) ObjAddr(addr uint64) (uint64, error)                   { return addr, nil }
func (f c16BinFile) BuildID() string                                       { return f.id }
func (f c16BinFile) SourceLine(uint64) ([]driver.Frame, error)             { return nil, nil }
func (f c16BinFile) Symbols(*regexp.Regexp, uint64) ([]*driver.Sym, error) { return nil, nil }
func (f c16BinFile) Close() error                                          { return nil }

func (c16BinObj) Open(file string, start, limit, offset uint64, reloc string) (driver.ObjFile, error) {
	b, err := os.ReadFile(file)
	if err != nil {
		return nil, err
	}
	s := string(b)
	if !strings.HasPrefix(s, c16BinMagic) {
		return nil, errors.New("c16: not an object file")
	}
	return c16BinFile{name: file, id: strings.TrimSpace(strings.TrimPrefix(s, c16BinMagic))}, nil
}
func (c16BinObj) Disasm(string, uint64, uint64, bool) ([]driver.Inst, error) {
	return nil, errors.New("c16: no disassembler")
}

// c16BinExpected: the (build id, file) pairs the merged profile must list; tree-relative file names
// are written as "<tree>/…".
func c16BinExpected(cs *c16Case, kinds []string) []string {
	set := map[string]bool{}
	for i, s := range cs.all() {
		if !c16Succeeds(kinds[i]) || s.MapFile == "" {
			continue
		}
		f := s.MapFile
		if rel := c16BinLocate(cs.Tree, s.MapFile, s.MapBuildID); rel != "" {
			f = "<tree>/" + rel
		}
		set[s.MapBuildID+" "+f] = true
	}
	var l []string
	for k := range set {
		l = append(l, k)
	}
	sort.Strings(l)
	return l
}

func c16BinObserved(p *profile.Profile, treeDir string) []string {
	set := map[string]bool{}
	for _, m := range p.Mapping {
		f := m.File
		if strings.HasPrefix(f, treeDir+string(filepath.Separator)) {
			f = "<tree>/" + strings.TrimPrefix(f, treeDir+string(filepath.Separator))
		}
		set[m.BuildID+" "+f] = true
	}
	var l []string
	for k := range set {
		l = append(l, k)
	}
	sort.Strings(l)
	return l
}

// c16BinDiff compares the merged mappings with the per-source expectation. Mappings with the same
// build id are ONE mapping after the merge (profile.Merge keys them by build id and keeps the file of
// the first — C03's subject), so for a build id any of the files its sources resolve to is accepted;
// every expected build id must be present; mappings without build id are keyed by file.
func c16BinDiff(cs *c16Case, got, want []string) (string, string) {
	w := map[string]bool{}
	wantID := map[string]bool{}
	for _, x := range want {
		w[x] = true
		if id := strings.SplitN(x, " ", 2)[0]; id != "" {
			wantID[id] = true
		}
	}
	ids := map[string]string{} // tree file -> its build id
	for _, e := range cs.Tree {
		ids["<tree>/"+filepath.Join(e.Dir, e.Name)] = e.ID
	}
	gotID := map[string]bool{}
	g := map[string]bool{}
	for _, x := range got {
		g[x] = true
		f := strings.SplitN(x, " ", 2)
		gotID[f[0]] = true
		if w[x] {
			continue
		}
		if id, ok := ids[f[1]]; ok && f[0] != "" && id != f[0] {
			return "C16/mapping/binary-of-another-build-id", fmt.Sprintf("merged mapping with build id %q points to %s, a binary whose build id is %q", f[0], f[1], id)
		}
		return "C16/mapping/unexpected-file", fmt.Sprintf("merged mapping (build id, file) = %q is not what any successful source resolves to on its own; want %v", x, want)
	}
	for id := range wantID {
		if !gotID[id] {
			return "C16/mapping/missing", fmt.Sprintf("no merged mapping with build id %q; merged mappings %v, want %v", id, got, want)
		}
	}
	for _, x := range want {
		if strings.HasPrefix(x, " ") && !g[x] {
			return "C16/mapping/missing", fmt.Sprintf("no merged mapping %q; merged mappings %v, want %v", x, got, want)
		}
	}
	return "", ""
}

// ---------------------------------------------------------------------------------------------
// generator

func c16GenBin(r *Rng, idx int) *c16Case {
	cs := &c16Case{Name: fmt.Sprintf("binary-location-%d", idx), Bin: true, Text: idx%4 == 0}
	names := []string{"/bin/app", "/opt/lib/libx.so"}
	rels := []string{"rel1aa", "rel2bb"}
	// build-id directories: for each release at most one file of that build id (good), possibly a stale one
	for _, b := range rels {
		switch r.Intn(5) {
		case 0: // nothing for this release
		case 1: // only a stale file
			cs.Tree = append(cs.Tree, c16BinEntry{b, "app", "stale00"})
		case 2: // the binary under another name (found through the directory listing)
			cs.Tree = append(cs.Tree, c16BinEntry{b, "app.debug", b})
		default:
			cs.Tree = append(cs.Tree, c16BinEntry{b, "app", b})
			if r.Bool() {
				cs.Tree = append(cs.Tree, c16BinEntry{b, "libx.so", "stale11"})
			}
		}
	}
	cs.Tree = append(cs.Tree, c16BinEntry{"rel3cc", "app", "stale22"})
	// plain entries: their build ids never equal a release that has a good directory entry
	if r.Chance(70) {
		cs.Tree = append(cs.Tree, c16BinEntry{"", "app", r.Pick([]string{"rel3cc", "other99"})})
	}
	if r.Chance(50) {
		cs.Tree = append(cs.Tree, c16BinEntry{"", "libx.so", r.Pick([]string{"rel3cc", "other99"})})
	}
	ids := []string{"rel1aa", "rel2bb", "rel1aa", "rel2bb", "rel3cc", ""}
	oks := []string{c16OK, c16OK, c16OKFile, c16OKHTTP}
	gen := func(n, failPct int) []c16Src {
		s := make([]c16Src, n)
		for i := range s {
			k := r.Pick(oks)
			if r.Chance(failPct) {
				k = r.Pick(c16FailKinds)
			}
			nm := names[0]
			if r.Chance(25) {
				nm = names[1]
			}
			s[i] = c16Src{Kind: k, Seed: r.U64() >> 16, MapFile: nm, MapBuildID: r.Pick(ids)}
		}
		return s
	}
	n := 2 + r.Intn(6)
	cs.Sources = gen(n, []int{0, 25, 50}[idx%3])
	// the interesting mixture: the same file name under two releases, both fetched
	i, j := r.Intn(n), r.Intn(n)
	if i == j {
		j = (i + 1) % n
	}
	cs.Sources[i] = c16Src{Kind: r.Pick(oks), Seed: r.U64() >> 16, MapFile: names[0], MapBuildID: "rel1aa"}
	cs.Sources[j] = c16Src{Kind: r.Pick(oks), Seed: r.U64() >> 16, MapFile: names[0], MapBuildID: "rel2bb"}
	if idx%3 == 1 {
		cs.Bases = gen(1+r.Intn(2), 30)
		cs.DiffBase = r.Bool()
	}
	cs.Schedules = c16Schedules(r, cs, 3)
	c16Alt(r, cs)
	return cs
}
