//go:build verif

package main

// C12 at the driver level: `pprof -proto -symbolize=<mode> src` through the real driver.PProf
// (fetchProfiles → Symbolize → RemoveUninteresting → unsourceMappings → report), in-process, with
// a Fetcher plug-in that hands over the generated profile, a scripted ObjTool and a scripted
// symbolz endpoint (Options.HTTPTransport). Oracle ("only adds names"): the sequence of
// (stack addresses, values, labels) and the mapping ranges of the output equal those of the very
// same command with -symbolize=none, sample for sample and in order. Inputs are single-source and
// contain duplicate samples (same stack, same labels), all-zero samples, samples differing only in
// labels, unreferenced functions/locations/mappings — what a Merge/Compact after symbolization
// would sum up, drop or renumber.

import (
	"bytes"
	"errors"
	"flag"
	"fmt"
	"io"
	"net/url"
	"os"
	"path/filepath"
	"strings"
	"sync"
	"time"

	"github.com/google/pprof/internal/driver"
	"github.com/google/pprof/internal/plugin"
	"github.com/google/pprof/profile"
)

// flag set for driver.PProf. The driver seeds every option flag with the process-wide current
// configuration; the defaults seen at the first call are reused so that runs are independent.
type c12Flags struct {
	fs   *flag.FlagSet
	args []string
}

var c12Pristine = struct {
	sync.Mutex
	m map[string]any
}{m: map[string]any{}}

func c12Dflt[T any](n string, d T) T {
	c12Pristine.Lock()
	defer c12Pristine.Unlock()
	if v, ok := c12Pristine.m[n]; ok {
		return v.(T)
	}
	c12Pristine.m[n] = d
	return d
}
func (f *c12Flags) Bool(n string, d bool, u string) *bool { return f.fs.Bool(n, c12Dflt(n, d), u) }
func (f *c12Flags) Int(n string, d int, u string) *int    { return f.fs.Int(n, c12Dflt(n, d), u) }
func (f *c12Flags) Float64(n string, d float64, u string) *float64 {
	return f.fs.Float64(n, c12Dflt(n, d), u)
}
func (f *c12Flags) String(n, d, u string) *string { return f.fs.String(n, c12Dflt(n, d), u) }
func (f *c12Flags) StringList(n, d, u string) *[]*string {
	f.fs.String(n, d, u)
	return &[]*string{}
}
func (f *c12Flags) ExtraUsage() string   { return "" }
func (f *c12Flags) AddExtraUsage(string) {}
func (f *c12Flags) Parse(usage func()) []string {
	if err := f.fs.Parse(f.args); err != nil {
		return nil
	}
	return f.fs.Args()
}

type c12Fetcher struct {
	canon string
	src   string
}

// Fetch hands over a fresh in-memory copy per source (sources are fetched concurrently).
func (f c12Fetcher) Fetch(src string, d, t time.Duration) (*profile.Profile, string, error) {
	p, err := ParseCanon(f.canon)
	if err != nil {
		return nil, "", err
	}
	if p.PeriodType == nil {
		// as a decoded profile.proto has it (Merge of several sources dereferences it)
		p.PeriodType = &profile.ValueType{}
	}
	return p, f.src, nil
}

type c12WC struct{ *bytes.Buffer }

func (c12WC) Close() error { return nil }

type c12Writer struct {
	mu    sync.Mutex
	files map[string]*bytes.Buffer
}

func (w *c12Writer) Open(name string) (io.WriteCloser, error) {
	w.mu.Lock()
	defer w.mu.Unlock()
	b := &bytes.Buffer{}
	w.files[name] = b
	return c12WC{b}, nil
}

// c12DrvTool answers Open by FILE NAME (the driver also probes candidate paths under
// $PPROF_BINARY_PATH before symbolizing; those must not consume the script).
type c12DrvTool struct {
	c12Tool
	files map[string]c12File
}

func (t *c12DrvTool) Open(file string, start, limit, offset uint64, relocationSymbol string) (plugin.ObjFile, error) {
	t.log = append(t.log, "O")
	f, ok := t.files[file]
	if !ok {
		return nil, errors.New("no such file")
	}
	if f.OpenErr {
		return nil, errors.New("open failed")
	}
	return &c12ObjFile{t: &t.c12Tool, f: f}, nil
}

type c12DrvRun struct {
	out   *profile.Profile
	err   string
	panic string
	calls int
}

func c12DriverOnce(cs c12Case, mode string) c12DrvRun {
	var run c12DrvRun
	if _, err := ParseCanon(cs.Profile); err != nil {
		run.err = "harness: " + err.Error()
		return run
	}
	files := newTR(cs.Files).c12Files()
	names := newTR(cs.Names)
	tool := &c12DrvTool{files: map[string]c12File{}}
	for i, n := 0, names.n(); i < n && i < len(files); i++ {
		tool.files[names.str()] = files[i]
	}
	poster := &c12Poster{pending: newTR(cs.Posts).c12Posts()}
	src := ""
	if cs.Src != "" {
		src = newTR(cs.Src).str()
	}
	w := &c12Writer{files: map[string]*bytes.Buffer{}}
	fs := flag.NewFlagSet("pprof", flag.ContinueOnError)
	fs.SetOutput(io.Discard)
	args := []string{"-proto", "-output=out", "-symbolize=" + mode}
	if cs.Exec != "" {
		// `pprof binary profile`: the driver takes the first argument as the executable when the
		// object tool can open it, and names the first (for a profile without mappings: the fake) mapping after it
		exe := newTR(cs.Exec).str()
		args = append(args, exe)
		if len(files) > 0 {
			f := files[0]
			f.OpenErr, f.BuildID = false, ""
			tool.files[exe] = f
		} else {
			tool.files[exe] = c12File{}
		}
	}
	args = append(args, "c12-source")
	for i := 1; i < cs.NSrc; i++ {
		args = append(args, fmt.Sprintf("c12-source-%d", i+1))
	}
	run.panic = safely(func() {
		e := driver.PProf(&plugin.Options{
			Writer:        w,
			Flagset:       &c12Flags{fs: fs, args: args},
			Fetch:         c12Fetcher{cs.Profile, src},
			Obj:           tool,
			UI:            &c12UI{},
			HTTPTransport: poster,
		})
		if e != nil {
			run.err = e.Error()
		}
	})
	run.calls = len(tool.log) + len(poster.log)
	if run.panic != "" || run.err != "" {
		return run
	}
	b := w.files["out"]
	if b == nil {
		run.err = "no output written"
		return run
	}
	q, err := profile.Parse(bytes.NewReader(b.Bytes()))
	if err != nil {
		run.err = "output does not parse: " + err.Error()
		return run
	}
	run.out = q
	return run
}

// measurements of a profile: what symbolization must not touch, in order.
func c12Measure(p *profile.Profile) (count int, stacks, values, labels, mappings string) {
	var ws, wv, wl, wm tw
	for _, s := range p.Sample {
		ws.n(len(s.Location))
		for _, l := range s.Location {
			ws.nat(l.Address)
		}
		wv.n(len(s.Value))
		for _, v := range s.Value {
			wv.int(v)
		}
		t := &profile.Sample{Label: s.Label, NumLabel: s.NumLabel, NumUnit: s.NumUnit}
		wl.sample(t)
	}
	for _, m := range p.Mapping {
		wm.nat(m.Start)
		wm.nat(m.Limit)
		wm.nat(m.Offset)
	}
	return len(p.Sample), ws.String(), wv.String(), wl.String(), wm.String()
}

// c12Tables: the mapping table (ids, ranges; files separately) and, per location in table order,
// (id, mapping id — 0 for a nil mapping —, address).
func c12Tables(p *profile.Profile) (mappings, files, locations string) {
	var wm, wf, wl tw
	wm.n(len(p.Mapping))
	for _, m := range p.Mapping {
		wm.nat(m.ID)
		wm.nat(m.Start)
		wm.nat(m.Limit)
		wm.nat(m.Offset)
		wf.str(m.File)
		wf.str(m.BuildID)
	}
	wl.n(len(p.Location))
	for _, l := range p.Location {
		wl.nat(l.ID)
		if l.Mapping == nil {
			wl.nat(0)
		} else {
			wl.nat(l.Mapping.ID)
		}
		wl.nat(l.Address)
	}
	return wm.String(), wf.String(), wl.String()
}

func c12RunDriver(c *Ctx, cs c12Case) (nontrivial bool) {
	mode := newTR(cs.Mode).str()
	sym := c12DriverOnce(cs, mode)
	none := c12DriverOnce(cs, "none")
	sig := "C12/driver/"
	if sym.panic != "" {
		c.Violation(sig+"panic", "pprof -proto -symbolize="+mode+" panics: "+trunc(sym.panic), cs)
		return true
	}
	if none.panic != "" {
		c.Violation(sig+"panic", "pprof -proto -symbolize=none panics: "+trunc(none.panic), cs)
		return true
	}
	input, ierr := ParseCanon(cs.Profile)
	if ierr != nil || input.CheckValid() != nil {
		c.Res.HarnessError = "C12 driver stream: generated input is not a valid profile"
		return false
	}
	// the fetch path around Symbolize must hand a valid profile through unchanged in its tables:
	// the output (also of -symbolize=none) has the input's mapping table and location→mapping
	// assignment (a location without mapping stays without). Only for an input without ANY mapping
	// does the driver add its documented fake mapping; then the two runs are compared with each other.
	// mapping File / BuildID: what the fetch path may do to them is DOCUMENTED — a mapping with neither
	// build id nor file, fetched from a URL, temporarily carries the source URL as its file and gets no
	// file back (collectMappingSources / unsourceMappings). Everything else must keep its names.
	// KNOWN FINDING (own signature, KNOWN_FINDINGS.jsonl): a mapping WITHOUT build id whose own file
	// name parses as an absolute URL loses it, because unsourceMappings cannot tell it from that trick.
	// The same loss for a mapping WITH a build id, or any other change, is an ordinary violation.
	const knownSig = "tables/url-like-file-without-buildid-cleared"
	urlLike := func(m *profile.Mapping) bool {
		if m.BuildID != "" || filepath.VolumeName(m.File) != "" {
			return false
		}
		u, err := url.Parse(m.File)
		return err == nil && u.IsAbs()
	}
	multi := cs.NSrc > 1
	vsInput := func(which string, out *profile.Profile) {
		if len(input.Mapping) == 0 {
			return
		}
		if multi {
			// several sources are merged (mappings deduplicated and renumbered): every mapping of the
			// output must still carry a (file, build id) pair of the input
			have := map[[2]string]bool{}
			lossy := ""
			for _, m := range input.Mapping {
				have[[2]string{m.File, m.BuildID}] = true
				if urlLike(m) && m.File != "" {
					lossy = m.File
				}
			}
			for _, m := range out.Mapping {
				if !have[[2]string{m.File, m.BuildID}] {
					if m.File == "" && m.BuildID == "" && lossy != "" {
						c.Violation(sig+knownSig, fmt.Sprintf("`pprof -proto -symbolize=%s` (%d sources): a mapping without build id lost its file name %q (it parses as an absolute URL)", which, cs.NSrc, lossy), cs)
						continue
					}
					c.Violation(sig+"tables/mapping-file-differs-from-input", fmt.Sprintf("`pprof -proto -symbolize=%s` (%d sources): mapping with file %q build id %q is not a mapping of the fetched profiles", which, cs.NSrc, m.File, m.BuildID), cs)
				}
			}
			return
		}
		im, _, il := c12Tables(input)
		om, _, ol := c12Tables(out)
		if im != om {
			c.Violation(sig+"tables/mapping-table-differs-from-input", fmt.Sprintf("`pprof -proto -symbolize=%s`: ids or ranges of the mapping table differ from the fetched profile's (%d mappings in, %d out)", which, len(input.Mapping), len(out.Mapping)), cs)
			return
		}
		if il != ol {
			c.Violation(sig+"tables/location-mapping-differs-from-input", "`pprof -proto -symbolize="+which+"`: id, mapping (nil stays nil) or address of a location differ from the fetched profile's", cs)
		}
		for i, m := range input.Mapping {
			o := out.Mapping[i]
			if o.BuildID != m.BuildID {
				c.Violation(sig+"tables/mapping-buildid-differs-from-input", fmt.Sprintf("`pprof -proto -symbolize=%s`: build id of mapping %d changed from %q to %q", which, m.ID, m.BuildID, o.BuildID), cs)
			}
			if o.File != m.File && urlLike(m) && o.File == "" {
				c.Violation(sig+knownSig, fmt.Sprintf("`pprof -proto -symbolize=%s`: mapping %d has no build id and lost its file name %q (it parses as an absolute URL)", which, m.ID, m.File), cs)
			} else if o.File != m.File {
				c.Violation(sig+"tables/mapping-file-differs-from-input", fmt.Sprintf("`pprof -proto -symbolize=%s`: file of mapping %d (build id %q) changed from %q to %q", which, m.ID, m.BuildID, m.File, o.File), cs)
			}
		}
	}
	if none.err != "" {
		// a valid profile, no symbolization requested: the fetch path itself must not fail
		c.Violation(sig+"valid/fetch-fails-on-valid-profile", "`pprof -proto -symbolize=none` fails on a valid single-source profile: "+trunc(none.err), cs)
		return true
	}
	vsInput("none", none.out)
	if sym.err != "" {
		c.Res.Hit("driver:error")
		if cs.LocalOnly || mode == "none" || mode == "no" {
			// the local step only reports problems through the UI; an error here means the result
			// was rejected (fetchProfiles re-checks validity) or the pipeline broke
			c.Violation(sig+"valid/error-where-symbolize-none-succeeds", "`pprof -proto -symbolize="+mode+"` fails where -symbolize=none succeeds: "+trunc(sym.err), cs)
		}
		// remote symbolization may legitimately fail (scripted POST errors); nothing to compare
		return sym.calls > 0
	}
	c.Res.Hit("driver:ok")
	vsInput(mode, sym.out)
	{
		m1, f1, t1 := c12Tables(sym.out)
		m0, f0, t0 := c12Tables(none.out)
		if m1 != m0 || f1 != f0 {
			c.Violation(sig+"tables/mapping-table", "mapping ids, ranges, files or build ids differ between -symbolize="+mode+" and -symbolize=none", cs)
		}
		if t1 != t0 {
			c.Violation(sig+"tables/location-mapping", "a location's id, mapping or address differs between -symbolize="+mode+" and -symbolize=none", cs)
		}
	}
	unmapped := 0
	for _, l := range input.Location {
		if l.Mapping == nil {
			unmapped++
		}
	}
	switch {
	case len(input.Mapping) == 0:
		c.Res.Hit("driver:no-mappings")
	case unmapped > 0:
		c.Res.Hit("driver:mapped+unmapped-locations")
	}
	n1, s1, v1, l1, m1 := c12Measure(sym.out)
	n0, s0, v0, l0, m0 := c12Measure(none.out)
	how := fmt.Sprintf("output of `pprof -proto -symbolize=%s` vs. the same command with -symbolize=none (single source)", mode)
	switch {
	case n1 != n0:
		c.Violation(sig+"measurements/sample-count", fmt.Sprintf("%d samples instead of %d: %s", n1, n0, how), cs)
	case v1 != v0:
		c.Violation(sig+"measurements/sample-values", "sample values differ: "+how, cs)
	case s1 != s0:
		c.Violation(sig+"measurements/stack-addresses", "stack addresses or depths differ: "+how, cs)
	case l1 != l0:
		c.Violation(sig+"measurements/sample-labels", "sample labels differ: "+how, cs)
	}
	if m1 != m0 {
		c.Violation(sig+"measurements/mapping-ranges", "mapping start/limit/offset differ: "+how, cs)
	}
	added := len(sym.out.Function) > len(none.out.Function)
	if added {
		c.Res.Hit("driver:functions-added")
	}
	return added
}

// c12DriverProfile: a C12 profile prepared for the fetch path — distinct sample types, no
// drop/keep-frames expressions (pruning by name is a documented consequence of having names),
// and at least: two samples with the same stack and labels, an all-zero sample, two samples
// differing only in labels.
func c12DriverProfile(r *Rng) *profile.Profile {
	p := c12Profile(r, c12GenOpts{ids: []string{"dense", "sparse", "big"}[r.Intn(3)], symShare: []int{0, 0, 30}[r.Intn(3)]})
	p.DropFrames, p.KeepFrames = "", ""
	for i, st := range p.SampleType {
		st.Type = []string{"cpu", "samples", "alloc"}[i%3]
	}
	p.DefaultSampleType = ""
	nv := len(p.SampleType)
	zero := make([]int64, nv)
	val := func() []int64 {
		v := make([]int64, nv)
		for i := range v {
			v[i] = int64(1 + r.Intn(1000))
		}
		return v
	}
	stack := func() []*profile.Location {
		var s []*profile.Location
		for j, d := 0, 1+r.Intn(4); j < d; j++ {
			s = append(s, p.Location[r.Intn(len(p.Location))])
		}
		return s
	}
	a := &profile.Sample{Location: stack(), Value: val()}
	if r.Chance(50) {
		a.Label = map[string][]string{"k": {"v"}}
	}
	if r.Chance(30) {
		a.NumLabel = map[string][]int64{"bytes": {int64(r.Intn(100))}}
		a.NumUnit = map[string][]string{"bytes": {"kb"}}
	}
	dup := &profile.Sample{Location: a.Location, Value: val(), Label: a.Label, NumLabel: a.NumLabel, NumUnit: a.NumUnit}
	lab := &profile.Sample{Location: a.Location, Value: val(), Label: map[string][]string{"k": {"other"}}}
	z := &profile.Sample{Location: stack(), Value: zero}
	extra := []*profile.Sample{a, dup, lab, z}
	if r.Chance(40) {
		extra = append(extra, &profile.Sample{Location: z.Location, Value: val()}, &profile.Sample{Location: a.Location, Value: zero, Label: a.Label, NumLabel: a.NumLabel, NumUnit: a.NumUnit})
	}
	if r.Chance(30) { // cancelling pair
		v := val()
		nvv := make([]int64, nv)
		for i := range v {
			nvv[i] = -v[i]
		}
		st := stack()
		extra = append(extra, &profile.Sample{Location: st, Value: v}, &profile.Sample{Location: st, Value: nvv})
	}
	for _, s := range extra { // interleave with the generated samples
		i := r.Intn(len(p.Sample) + 1)
		p.Sample = append(p.Sample[:i], append([]*profile.Sample{s}, p.Sample[i:]...)...)
	}
	if r.Chance(10) { // a profile without any mapping (Go runtime legacy profiles)
		p.Mapping = nil
		for _, l := range p.Location {
			l.Mapping = nil
			if r.Chance(80) {
				l.Line = nil
			}
		}
	}
	// ids as a profile.proto file or a Fetcher plug-in may carry them: not renumbered, so sparse
	// (1,3,5…), unsorted, huge
	switch r.Intn(5) {
	case 0: // dense 1..n (as generated)
		for i, m := range p.Mapping {
			m.ID = uint64(i + 1)
		}
	case 1: // odd ids 1,3,5,…
		for i, m := range p.Mapping {
			m.ID = uint64(2*i + 1)
		}
	case 2: // descending
		for i, m := range p.Mapping {
			m.ID = uint64(len(p.Mapping) - i)
		}
	case 3: // small sparse, unsorted
		used := map[uint64]bool{}
		for _, m := range p.Mapping {
			id := uint64(1 + r.Intn(2*len(p.Mapping)+2))
			for used[id] {
				id = uint64(1 + r.Intn(2*len(p.Mapping)+2))
			}
			used[id] = true
			m.ID = id
		}
	case 4: // huge
		for i, m := range p.Mapping {
			m.ID = 1<<62 - uint64(i*7)
		}
	}
	if r.Chance(40) {
		for i, l := range p.Location {
			switch r.Intn(3) {
			case 0:
				l.ID = uint64(2*i + 2)
			case 1:
				l.ID = 1<<40 + uint64(len(p.Location)-i)
			}
		}
		seen := map[uint64]bool{}
		for i, l := range p.Location { // keep them unique
			for seen[l.ID] {
				l.ID += uint64(1000 + i)
			}
			seen[l.ID] = true
		}
	}
	// a mix of mapped and unmapped locations (JIT / generated code has no mapping)
	if len(p.Mapping) > 0 && r.Chance(50) {
		for _, l := range p.Location {
			if r.Chance(30) {
				l.Mapping = nil
			}
		}
	}
	// most locations unsymbolized, mappings ordinary binaries: symbolization has work to do
	for _, m := range p.Mapping {
		if r.Chance(70) {
			m.File = r.Pick(c12Files[:3])
			m.HasFunctions, m.HasFilenames, m.HasLineNumbers, m.HasInlineFrames = false, false, false, false
		}
		// adversarial file names, each with and without a build id
		if r.Chance(45) {
			m.File = r.Pick(c12AdvFiles)
			m.BuildID = r.Pick([]string{"", "", "abc123", "ff00", "0123456789abcdef"})
		}
	}
	for _, l := range p.Location {
		if l.Mapping != nil && !l.Mapping.HasFunctions && r.Chance(80) {
			l.Line = nil
		}
	}
	return p
}

var c12AdvFiles = []string{`C:\svc\server.exe`, "x:y", "a:b:c", "file:///usr/bin/app", "jar:file:/opt/app.jar!/lib/x.so", "http://host/path/bin", "https://cdn.example/x.so",
	"mailto:ops", "scheme://", "rel/path/bin", "./a.out", "", "", "/usr/bin/my app", "/opt/\u00fcn\u00ef/b\u00efn", "/opt/\xff\xfe/bin", "[vdso]", "//anon", "/usr/lib/libfoo.so (deleted)",
	"/memfd:jit (deleted)", "/tmp/has:colon", "%zz", ":nocolon", "http://pproftest.local/profilez", "HTTP://UPPER/x"}

func c12GenDriverCase(r *Rng) c12Case {
	p := c12DriverProfile(r)
	cs := c12Case{Kind: "driver", Profile: Canon(p)}
	base := r.Pick([]string{"local", "local", "fastlocal", "remote", "", "local:force", "force", "remote:force", "demangle=full", "local:demangle=none", "fastlocal:force", "none", "no", "remote:demangle=templates"})
	cs.Mode = hexTok([]byte(base))
	cs.LocalOnly = strings.HasPrefix(base, "local") || strings.HasPrefix(base, "fastlocal")
	// one file script per distinct mapping file name
	var names []string
	seen := map[string]bool{}
	for _, m := range p.Mapping {
		if m.File != "" && !seen[m.File] {
			seen[m.File] = true
			names = append(names, m.File)
		}
	}
	all := c12GenFiles(r, p)
	var files []c12File
	for i := range names {
		f := all[i%len(all)]
		if r.Chance(85) {
			f.OpenErr, f.FailAt = false, 0
			if i < len(p.Mapping) {
				f.BuildID = ""
			}
		}
		files = append(files, f)
	}
	cs.Files = c12Section(func(w *tw) { w.c12Files(files) })
	cs.Names = c12Section(func(w *tw) {
		w.n(len(names))
		for _, n := range names {
			w.str(n)
		}
	})
	posts := c12GenPosts(r, p)
	for i := range posts {
		if r.Chance(80) {
			posts[i].Err = false
		}
	}
	cs.Posts = c12Section(func(w *tw) { w.c12Posts(posts) })
	if base == "remote" || base == "remote:force" || r.Chance(40) {
		// a fetch source with a symbolz endpoint; the test address keeps the driver from saving a copy
		cs.Src = hexTok([]byte("http://pproftest.local/profilez"))
	}
	cs.Sources = "0"
	if r.Chance(20) {
		cs.NSrc = 2 + r.Intn(2)
	}
	if len(p.Mapping) == 0 && r.Chance(75) {
		// `pprof binary profile` on a profile without mappings: the fake mapping [0,0) gets the
		// executable as its file and reaches obj.Open; mostly local modes
		cs.Exec = hexTok([]byte("/bin/c12-exec"))
		cs.NSrc = 0
		if len(files) == 0 {
			var f c12File
			for _, a := range c12Addrs(p) {
				if r.Chance(80) {
					f.Answers = append(f.Answers, c12Answer{Addr: a, Frames: r.c12Frames()})
				}
			}
			cs.Files = c12Section(func(w *tw) { w.c12Files([]c12File{f}) })
		}
		if r.Chance(70) {
			base = r.Pick([]string{"local", "fastlocal", "local:force", ""})
			cs.Mode = hexTok([]byte(base))
			cs.LocalOnly = strings.HasPrefix(base, "local") || strings.HasPrefix(base, "fastlocal")
		}
	}
	return cs
}

// c12DriverEnv points the driver's temp and binary search directories at an empty scratch directory.
func c12DriverEnv() (cleanup func()) {
	tmp, err := os.MkdirTemp("", "c12-driver-")
	if err != nil {
		tmp = os.TempDir()
	}
	os.Setenv("PPROF_TMPDIR", tmp)
	os.Setenv("PPROF_BINARY_PATH", filepath.Join(tmp, "no-binaries-here"))
	return func() { os.RemoveAll(tmp) }
}

func c12DriverStream(c *Ctx, r *Rng) {
	defer c12DriverEnv()()
	n := 400 * c.Scale
	for i := 0; i < n; i++ {
		cs := c12GenDriverCase(r)
		nt := c12RunDriver(c, cs)
		c.Res.Count("driver"+cs.Mode+cs.Profile+cs.Files+cs.Posts+cs.Src, nt)
		c.Res.Hit("strategy:driver")
		if c.Res.HarnessError != "" {
			return
		}
	}
}
