//go:build verif

package main

// C08, environment independence: the repetitions of one command line vary everything that must not
// matter — working directory (including directories whose base name is a path component of the file
// names in the profile: myservice, libutil, src, dir), HOME, TMPDIR, PPROF_TMPDIR, LANG/LC_ALL,
// TERM/COLUMNS, GOMAXPROCS, umask, the order of (non-existent) PATH entries — and the outputs must stay
// byte-identical.  Time of day is covered by the time probe (c08_shapes.go).
//
// Documented exceptions (NOT varied, because the output legitimately depends on them):
//   - TZ: the "Time:" legend line prints the collection time in local time.  TZ is varied only for
//     profiles without collection time (no such line).
//   - -source_path / -trim_path given by the user, relative paths on the command line; -list/-weblist look
//     source files up relative to the working directory and name it in "could not find file … on path
//     <cwd>": for these two formats the working directory is not varied (everything else is).
//   - PATH entries that contain the external tools some formats need (dot, objdump, …): all PATH
//     variants point to non-existent directories.

import (
	"fmt"
	"os"
	"path/filepath"
)

type c08Env struct {
	Name  string
	Dir   string // "" = the harness's own directory
	Env   []string
	Umask string
}

var c08EnvDirs = []string{"work/scratch", "work/myservice", "work/src", "work/libutil", "work/dir", "elsewhere/a.go"}

// c08EnvPrepare creates the directories the variants use.
func c08EnvPrepare(tmp string) {
	for _, d := range c08EnvDirs {
		os.MkdirAll(filepath.Join(tmp, d), 0o755)
	}
	for i := 0; i < 6; i++ {
		os.MkdirAll(filepath.Join(tmp, fmt.Sprintf("home%d", i)), 0o755)
		os.MkdirAll(filepath.Join(tmp, fmt.Sprintf("tmp%d", i)), 0o755)
	}
}

// c08EnvVariant: variant 0 is the plain environment; the others change everything at once.
func c08EnvVariant(tmp string, k int, tzFree bool) c08Env {
	base := []string{"PPROF_BINARY_PATH=" + tmp}
	if k%6 == 0 {
		return c08Env{Name: "plain", Env: append(base, "HOME="+tmp, "PPROF_TMPDIR="+tmp, "PATH=/nonexistent", "TZ=UTC"), Umask: "022"}
	}
	i := k % 6
	e := c08Env{Name: fmt.Sprintf("variant-%d", i), Dir: filepath.Join(tmp, c08EnvDirs[i%len(c08EnvDirs)])}
	e.Env = append(base,
		"HOME="+filepath.Join(tmp, fmt.Sprintf("home%d", i)),
		"TMPDIR="+filepath.Join(tmp, fmt.Sprintf("tmp%d", i)),
		"PPROF_TMPDIR="+filepath.Join(tmp, fmt.Sprintf("tmp%d", (i+1)%6)),
		"LANG="+[]string{"C", "en_US.UTF-8", "de_DE.UTF-8", "C.UTF-8", "ja_JP.UTF-8", "tr_TR.UTF-8"}[i],
		"LC_ALL="+[]string{"C", "en_US.UTF-8", "de_DE.UTF-8", "POSIX", "ja_JP.UTF-8", "tr_TR.UTF-8"}[i],
		"TERM="+[]string{"dumb", "xterm-256color", "vt100", "screen", "linux", ""}[i],
		"COLUMNS="+[]string{"80", "200", "40", "1", "132", "0"}[i],
		"LINES=24",
		"GOMAXPROCS="+[]string{"16", "1", "2", "8", "3", "4"}[i],
		"PATH="+[]string{"/nonexistent", "/nonexistent:/nonexistent2", "/nonexistent2:/nonexistent", "", "/nonexistent/bin", "/nonexistent"}[i],
	)
	tz := "UTC"
	if tzFree {
		tz = []string{"UTC", "America/New_York", "Asia/Tokyo", "Europe/Berlin", "Australia/Lord_Howe", "UTC"}[i]
	}
	e.Env = append(e.Env, "TZ="+tz)
	e.Umask = []string{"022", "077", "002", "027", "000", "022"}[i]
	e.Name += " cwd=" + c08EnvDirs[i%len(c08EnvDirs)] + " umask=" + e.Umask + " TZ=" + tz
	return e
}
