//go:build verif

package main

// Structure-aware view of a serialized profile.proto (stream (a) of C02) and the random
// wire-format "field soup" generator (stream (b)).  The tree keeps every field of the
// encoding; a mutation edits the tree (or the way one node is re-encoded) and re-serializes.

import (
	"encoding/binary"
)

// c02Schema says which length-delimited fields are nested messages (nil entry = leaf).
type c02Schema map[uint64]c02Schema

var c02ProfSchema = c02Schema{
	1:  {},      // ValueType sample_type
	2:  {3: {}}, // Sample { Label }
	3:  {},      // Mapping
	4:  {4: {}}, // Location { Line }
	5:  {},      // Function
	11: {},      // ValueType period_type
}

type c02Field struct {
	num    uint64
	wt     int
	v      uint64      // wire types 0, 1, 5
	data   []byte      // wire type 2, leaf
	sub    []*c02Field // wire type 2, nested message
	isMsg  bool
	lenOv  *uint64 // when set: written instead of the real length
	padTag int     // extra continuation bytes on the tag varint (over-long encoding)
	padVal int     // same for the value / length varint
}

func c02Varint(x uint64, pad int) []byte {
	var b []byte
	for x >= 128 {
		b = append(b, byte(x)|0x80)
		x >>= 7
	}
	if pad == 0 {
		return append(b, byte(x))
	}
	b = append(b, byte(x)|0x80)
	for i := 1; i < pad; i++ {
		b = append(b, 0x80)
	}
	return append(b, 0)
}

func c02ReadVarint(b []byte) (uint64, int) {
	var u uint64
	for i := 0; i < len(b) && i < 10; i++ {
		u |= uint64(b[i]&0x7f) << uint(7*i)
		if b[i]&0x80 == 0 {
			return u, i + 1
		}
	}
	return 0, 0
}

// c02ParseWire parses b as a message following schema; ok=false when b is not well formed.
func c02ParseWire(b []byte, schema c02Schema) ([]*c02Field, bool) {
	var out []*c02Field
	for len(b) > 0 {
		x, n := c02ReadVarint(b)
		if n == 0 {
			return out, false
		}
		b = b[n:]
		f := &c02Field{num: x >> 3, wt: int(x & 7)}
		switch f.wt {
		case 0:
			v, n := c02ReadVarint(b)
			if n == 0 {
				return out, false
			}
			f.v = v
			b = b[n:]
		case 1:
			if len(b) < 8 {
				return out, false
			}
			f.v = binary.LittleEndian.Uint64(b)
			b = b[8:]
		case 5:
			if len(b) < 4 {
				return out, false
			}
			f.v = uint64(binary.LittleEndian.Uint32(b))
			b = b[4:]
		case 2:
			l, n := c02ReadVarint(b)
			if n == 0 || l > uint64(len(b)-n) {
				return out, false
			}
			body := b[n : n+int(l)]
			b = b[n+int(l):]
			if sub, isMsg := schema[f.num]; isMsg {
				if kids, ok := c02ParseWire(body, sub); ok {
					f.isMsg = true
					f.sub = kids
					break
				}
			}
			f.data = append([]byte(nil), body...)
		default:
			return out, false
		}
		out = append(out, f)
	}
	return out, true
}

func c02EncodeWire(fs []*c02Field) []byte {
	var out []byte
	for _, f := range fs {
		out = append(out, c02Varint(f.num<<3|uint64(f.wt&7), f.padTag)...)
		switch f.wt {
		case 0:
			out = append(out, c02Varint(f.v, f.padVal)...)
		case 1:
			var t [8]byte
			binary.LittleEndian.PutUint64(t[:], f.v)
			out = append(out, t[:]...)
		case 5:
			var t [4]byte
			binary.LittleEndian.PutUint32(t[:], uint32(f.v))
			out = append(out, t[:]...)
		case 2:
			body := f.data
			if f.isMsg {
				body = c02EncodeWire(f.sub)
			}
			l := uint64(len(body))
			if f.lenOv != nil {
				l = *f.lenOv
			}
			out = append(out, c02Varint(l, f.padVal)...)
			out = append(out, body...)
		default: // 3, 4, 6, 7: no payload
		}
	}
	return out
}

// walk calls fn for every field with the path of field numbers leading to it.
func c02Walk(fs []*c02Field, path []uint64, fn func(f *c02Field, path []uint64, siblings *[]*c02Field, idx int)) {
	c02walk(&fs, path, fn)
}

func c02walk(fs *[]*c02Field, path []uint64, fn func(f *c02Field, path []uint64, siblings *[]*c02Field, idx int)) {
	for i, f := range *fs {
		fn(f, path, fs, i)
		if f.isMsg {
			c02walk(&f.sub, append(append([]uint64(nil), path...), f.num), fn)
		}
	}
}

type c02Ref struct {
	f    *c02Field
	path []uint64
	sib  *[]*c02Field
	idx  int
}

func c02Collect(root *[]*c02Field, pred func(f *c02Field, path []uint64) bool) []c02Ref {
	var out []c02Ref
	c02walk(root, nil, func(f *c02Field, path []uint64, sib *[]*c02Field, idx int) {
		if pred(f, path) {
			out = append(out, c02Ref{f, path, sib, idx})
		}
	})
	return out
}

func c02PathIs(path []uint64, want ...uint64) bool {
	if len(path) != len(want) {
		return false
	}
	for i := range want {
		if path[i] != want[i] {
			return false
		}
	}
	return true
}

// is (path, num) a string-table index field?
func c02IsStrIndex(path []uint64, num uint64) bool {
	switch {
	case len(path) == 0:
		return num == 7 || num == 8 || num == 13 || num == 14 || num == 15
	case c02PathIs(path, 1), c02PathIs(path, 11):
		return num == 1 || num == 2
	case c02PathIs(path, 2, 3):
		return num == 1 || num == 2 || num == 4
	case c02PathIs(path, 3):
		return num == 5 || num == 6
	case c02PathIs(path, 5):
		return num == 2 || num == 3 || num == 4
	}
	return false
}

var c02StructStrategies = []string{
	"len-prefix", "id-zero", "dangling-ref", "str-index", "nil-function", "dup-field", "concat",
	"value-count", "wire-type", "string-table", "bitflip", "truncate", "overlong-varint",
	"drop-sampletype", "reorder", "delete-field", "scalar-edit", "splice", "blind",
}

func c02PickRef(r *Rng, refs []c02Ref) (c02Ref, bool) {
	if len(refs) == 0 {
		return c02Ref{}, false
	}
	return refs[r.Intn(len(refs))], true
}

func c02U64p(x uint64) *uint64 { return &x }

func c02DeepCopy(fs []*c02Field) []*c02Field {
	out := make([]*c02Field, len(fs))
	for i, f := range fs {
		cp := *f
		cp.data = append([]byte(nil), f.data...)
		cp.sub = c02DeepCopy(f.sub)
		out[i] = &cp
	}
	return out
}

// c02MutateStruct applies strategy st to the valid encoding b (other: a second valid
// encoding, for concatenation/splicing). Returns the mutated bytes.
func c02MutateStruct(r *Rng, st string, b, other []byte) []byte {
	root, ok := c02ParseWire(b, c02ProfSchema)
	if !ok { // cannot happen for encoder output; fall back to blind mutation
		return mutateBytes(r, b)
	}
	nstr := 0
	for _, f := range root {
		if f.num == 6 {
			nstr++
		}
	}
	weirdIdx := func() uint64 {
		switch r.Intn(7) {
		case 0:
			return uint64(nstr)
		case 1:
			return uint64(nstr + 1 + r.Intn(3))
		case 2:
			return ^uint64(0) // -1
		case 3:
			return 1 << 63 // min int64
		case 4:
			return 1<<63 - 1
		case 5:
			return 1 << 32 // truncation to int on 32-bit, large on 64
		default:
			return uint64(r.Intn(nstr + 2))
		}
	}
	switch st {
	case "len-prefix":
		refs := c02Collect(&root, func(f *c02Field, _ []uint64) bool { return f.wt == 2 })
		if ref, ok := c02PickRef(r, refs); ok {
			body := ref.f.data
			if ref.f.isMsg {
				body = c02EncodeWire(ref.f.sub)
			}
			l := uint64(len(body))
			opts := []uint64{l + 1, l + uint64(1+r.Intn(5)), 0, uint64(len(b)), uint64(len(b)) + 1, 1 << 31, 1 << 32, 1<<63 - 1, 1 << 63, ^uint64(0), 127, 128}
			if l > 0 {
				opts = append(opts, l-1, l/2)
			}
			ref.f.lenOv = c02U64p(opts[r.Intn(len(opts))])
		}
	case "id-zero":
		refs := c02Collect(&root, func(f *c02Field, path []uint64) bool {
			return f.num == 1 && f.wt == 0 && (c02PathIs(path, 3) || c02PathIs(path, 4) || c02PathIs(path, 5))
		})
		if ref, ok := c02PickRef(r, refs); ok {
			switch r.Intn(3) {
			case 0:
				ref.f.v = 0
			case 1: // id omitted altogether (decodes as 0)
				*ref.sib = append((*ref.sib)[:ref.idx:ref.idx], (*ref.sib)[ref.idx+1:]...)
			case 2: // same id as another entity of the table: duplicate ids
				if o, ok := c02PickRef(r, refs); ok && len(o.path) == len(ref.path) && o.path[0] == ref.path[0] {
					ref.f.v = o.f.v
				} else {
					ref.f.v = 0
				}
			}
		}
	case "dangling-ref":
		refs := c02Collect(&root, func(f *c02Field, path []uint64) bool {
			return (c02PathIs(path, 4) && f.num == 2) || (c02PathIs(path, 4, 4) && f.num == 1) || (c02PathIs(path, 2) && f.num == 1)
		})
		if ref, ok := c02PickRef(r, refs); ok {
			vals := []uint64{0, 1 << 40, ^uint64(0), uint64(r.Intn(40)), 1<<63 + 1}
			v := vals[r.Intn(len(vals))]
			if ref.f.wt == 0 {
				ref.f.v = v
			} else if ref.f.wt == 2 && !ref.f.isMsg { // packed location ids
				var ids []uint64
				d := ref.f.data
				for len(d) > 0 {
					x, n := c02ReadVarint(d)
					if n == 0 {
						break
					}
					ids = append(ids, x)
					d = d[n:]
				}
				if len(ids) > 0 {
					ids[r.Intn(len(ids))] = v
				}
				var nd []byte
				for _, x := range ids {
					nd = append(nd, c02Varint(x, 0)...)
				}
				ref.f.data = nd
			}
		}
	case "str-index":
		refs := c02Collect(&root, func(f *c02Field, path []uint64) bool { return f.wt == 0 && c02IsStrIndex(path, f.num) })
		if ref, ok := c02PickRef(r, refs); ok {
			ref.f.v = weirdIdx()
		} else { // no index present (all zero): add one
			root = append(root, &c02Field{num: []uint64{7, 8, 14, 15}[r.Intn(4)], wt: 0, v: weirdIdx()})
		}
	case "nil-function":
		fns := c02Collect(&root, func(f *c02Field, path []uint64) bool { return len(path) == 0 && f.num == 5 })
		if ref, ok := c02PickRef(r, fns); ok {
			if r.Bool() { // drop the function entry: lines keep pointing at its id
				*ref.sib = append((*ref.sib)[:ref.idx:ref.idx], (*ref.sib)[ref.idx+1:]...)
			} else { // renumber it
				for _, k := range ref.f.sub {
					if k.num == 1 {
						k.v += 1000 + uint64(r.Intn(5))
					}
				}
			}
		}
		// or a line whose function id is explicitly 0 / absent
		if r.Chance(40) {
			lines := c02Collect(&root, func(f *c02Field, path []uint64) bool { return c02PathIs(path, 4) && f.num == 4 && f.isMsg })
			if ref, ok := c02PickRef(r, lines); ok {
				var kept []*c02Field
				for _, k := range ref.f.sub {
					if k.num != 1 {
						kept = append(kept, k)
					}
				}
				ref.f.sub = kept
			}
		}
	case "dup-field":
		refs := c02Collect(&root, func(*c02Field, []uint64) bool { return true })
		if r.Chance(25) { // the concatenation detector: time_nanos twice
			root = append(root, &c02Field{num: 9, wt: 0, v: uint64(1 + r.Intn(5))}, &c02Field{num: 9, wt: 0, v: uint64(r.Intn(3))})
		} else if ref, ok := c02PickRef(r, refs); ok {
			cp := c02DeepCopy([]*c02Field{ref.f})[0]
			s := append([]*c02Field(nil), (*ref.sib)[:ref.idx+1]...)
			s = append(s, cp)
			*ref.sib = append(s, (*ref.sib)[ref.idx+1:]...)
		}
	case "concat":
		switch r.Intn(4) {
		case 0:
			return append(append([]byte(nil), b...), other...)
		case 1:
			return append(append([]byte(nil), b...), b...)
		case 2: // second profile cut short
			o := other
			if len(o) > 0 {
				o = o[:r.Intn(len(o))]
			}
			return append(append([]byte(nil), b...), o...)
		default: // a profile nested as an unknown field of another
			return append(append([]byte(nil), b...), c02EncodeWire([]*c02Field{{num: uint64(16 + r.Intn(4)), wt: 2, data: other}})...)
		}
	case "value-count":
		vals := c02Collect(&root, func(f *c02Field, path []uint64) bool { return c02PathIs(path, 2) && f.num == 2 })
		if ref, ok := c02PickRef(r, vals); ok {
			switch r.Intn(3) {
			case 0: // one value more
				*ref.sib = append(*ref.sib, &c02Field{num: 2, wt: 0, v: uint64(r.Intn(9))})
			case 1: // value field removed
				*ref.sib = append((*ref.sib)[:ref.idx:ref.idx], (*ref.sib)[ref.idx+1:]...)
			case 2: // empty packed list
				ref.f.wt, ref.f.data, ref.f.isMsg = 2, nil, false
			}
		}
	case "wire-type":
		refs := c02Collect(&root, func(*c02Field, []uint64) bool { return true })
		if ref, ok := c02PickRef(r, refs); ok {
			nw := []int{0, 1, 2, 5, 3, 4, 6, 7}[r.Intn(8)]
			if nw == 2 && ref.f.wt != 2 {
				ref.f.data = c02Varint(ref.f.v, 0)
			}
			ref.f.wt = nw
			ref.f.isMsg = ref.f.isMsg && nw == 2
		}
	case "string-table":
		strs := c02Collect(&root, func(f *c02Field, path []uint64) bool { return len(path) == 0 && f.num == 6 })
		switch r.Intn(5) {
		case 0: // table[0] not empty
			if len(strs) > 0 {
				strs[0].f.data = []byte("x")
			}
		case 1: // first entry removed
			if len(strs) > 0 {
				ref := strs[0]
				*ref.sib = append((*ref.sib)[:ref.idx:ref.idx], (*ref.sib)[ref.idx+1:]...)
			}
		case 2: // whole table removed
			var kept []*c02Field
			for _, f := range root {
				if f.num != 6 {
					kept = append(kept, f)
				}
			}
			root = kept
		case 3: // last entry removed: the highest index dangles
			if len(strs) > 0 {
				ref := strs[len(strs)-1]
				*ref.sib = append((*ref.sib)[:ref.idx:ref.idx], (*ref.sib)[ref.idx+1:]...)
			}
		case 4: // a string written with a varint wire type
			if ref, ok := c02PickRef(r, strs); ok {
				ref.f.wt = 0
			}
		}
	case "overlong-varint":
		refs := c02Collect(&root, func(*c02Field, []uint64) bool { return true })
		if ref, ok := c02PickRef(r, refs); ok {
			pad := []int{1, 2, 8, 9, 10, 11}[r.Intn(6)]
			if r.Bool() {
				ref.f.padTag = pad
			} else {
				ref.f.padVal = pad
			}
		}
	case "drop-sampletype":
		var kept []*c02Field
		for _, f := range root {
			if f.num != 1 || r.Chance(30) {
				kept = append(kept, f)
			}
		}
		root = kept
	case "reorder":
		for i := len(root) - 1; i > 0; i-- {
			j := r.Intn(i + 1)
			root[i], root[j] = root[j], root[i]
		}
	case "delete-field":
		refs := c02Collect(&root, func(*c02Field, []uint64) bool { return true })
		if ref, ok := c02PickRef(r, refs); ok {
			*ref.sib = append((*ref.sib)[:ref.idx:ref.idx], (*ref.sib)[ref.idx+1:]...)
		}
	case "scalar-edit":
		refs := c02Collect(&root, func(f *c02Field, _ []uint64) bool { return f.wt == 0 })
		if ref, ok := c02PickRef(r, refs); ok {
			ref.f.v = []uint64{0, 1, 2, ^uint64(0), 1 << 63, 1<<63 - 1, uint64(r.Intn(300)), r.U64()}[r.Intn(8)]
		}
	case "splice": // a nested message of one profile inside another message type
		msgs := c02Collect(&root, func(f *c02Field, _ []uint64) bool { return f.isMsg })
		if a, ok := c02PickRef(r, msgs); ok {
			if o, ok := c02PickRef(r, msgs); ok {
				a.f.sub = append(append([]*c02Field(nil), a.f.sub...), c02DeepCopy(o.f.sub)...)
			}
		}
	case "bitflip":
		out := c02EncodeWire(root)
		for k, n := 0, 1+r.Intn(3); k < n && len(out) > 0; k++ {
			out[r.Intn(len(out))] ^= 1 << uint(r.Intn(8))
		}
		return out
	case "truncate":
		out := c02EncodeWire(root)
		if len(out) > 0 {
			if r.Bool() { // cut near a field boundary
				out = out[:r.Intn(len(out))]
			} else {
				out = out[:len(out)-1-r.Intn(min(len(out), 6))]
			}
		}
		return out
	default: // "blind"
		return mutateBytes(r, b)
	}
	return c02EncodeWire(root)
}

// c02Soup builds a random wire-format message: mostly plausible field numbers for the
// message type at hand, arbitrary wire types and payloads, nested to depth 3.
func c02Soup(r *Rng, schema c02Schema, depth int, budget *int) []byte {
	var fs []*c02Field
	n := r.Intn(12)
	if depth == 0 {
		n = 1 + r.Intn(30)
	}
	for i := 0; i < n && *budget > 0; i++ {
		*budget--
		f := &c02Field{}
		switch {
		case r.Chance(75):
			f.num = uint64(1 + r.Intn(15))
		case r.Chance(50):
			f.num = uint64(r.Intn(40))
		default:
			f.num = []uint64{0, 1 << 28, 1<<61 - 1, 16, 17, 100}[r.Intn(6)]
		}
		switch {
		case r.Chance(45):
			f.wt = 0
		case r.Chance(70):
			f.wt = 2
		default:
			f.wt = r.Intn(8)
		}
		switch f.wt {
		case 0, 1, 5:
			switch r.Intn(5) {
			case 0:
				f.v = r.U64()
			case 1:
				f.v = []uint64{0, 1, ^uint64(0), 1 << 63, 1<<63 - 1}[r.Intn(5)]
			default:
				f.v = uint64(r.Intn(20))
			}
			if r.Chance(3) {
				f.padVal = 1 + r.Intn(10)
			}
		case 2:
			sub, isMsg := schema[f.num]
			switch {
			case depth < 3 && (isMsg && r.Chance(85) || r.Chance(10)):
				if sub == nil {
					sub = c02Schema{}
				}
				f.data = c02Soup(r, sub, depth+1, budget)
			case r.Chance(40): // packed varints
				for k, m := 0, r.Intn(6); k < m; k++ {
					f.data = append(f.data, c02Varint(uint64(r.Intn(12)), 0)...)
				}
			case r.Chance(50): // short string
				f.data = []byte(weird[r.Intn(len(weird))])
			default:
				f.data = make([]byte, r.Intn(12))
				for k := range f.data {
					f.data[k] = byte(r.U64())
				}
			}
			if r.Chance(4) {
				l := uint64(len(f.data))
				f.lenOv = c02U64p([]uint64{l + 1, 0, 1 << 40, ^uint64(0)}[r.Intn(4)])
			}
		}
		if r.Chance(2) {
			f.padTag = 1 + r.Intn(10)
		}
		fs = append(fs, f)
	}
	out := c02EncodeWire(fs)
	if depth == 0 {
		// usually give the soup a usable string table so that index fields can resolve
		if r.Chance(70) {
			var st []*c02Field
			st = append(st, &c02Field{num: 6, wt: 2})
			for k, m := 0, r.Intn(20); k < m; k++ {
				st = append(st, &c02Field{num: 6, wt: 2, data: []byte(weird[r.Intn(len(weird))])})
			}
			out = append(out, c02EncodeWire(st)...)
		}
		if r.Chance(5) && len(out) > 0 {
			out = out[:r.Intn(len(out))]
		}
	}
	return out
}
