//go:build verif

package main

import (
	"crypto/sha256"
	"encoding/hex"
	"encoding/json"
	"fmt"
	"hash/fnv"
	"os"
	"path/filepath"
)

// Finding is either a violation of the property shown on the real code (Kind "violation",
// with the concrete input in the replay file), or a disagreement between the Lean model and
// the real code for which the direct oracle did not fail (Kind "disagreement").
type Finding struct {
	Kind      string `json:"kind"`
	Signature string `json:"signature"`
	What      string `json:"what"`
	Replay    string `json:"replay"`
	Broken    string `json:"broken,omitempty"` // theorem / correspondence that no longer checks
}

type Result struct {
	Property     string         `json:"property"`
	Evaluations  int            `json:"evaluations"`
	Nontrivial   int            `json:"distinct_nontrivial"`
	Rule         string         `json:"rule"`
	Samples      []any          `json:"samples"`
	Dist         map[string]int `json:"distribution"`
	ModelCompared int           `json:"traces_validated_against_impl"`
	Findings     []Finding      `json:"findings"`
	HarnessError string         `json:"harness_error,omitempty"`
	WallS        float64        `json:"wall_s"`
	Notes        []string       `json:"notes,omitempty"`

	seen    map[uint64]bool
	sigSeen map[string]bool
}

func newResult(p string) *Result {
	return &Result{Property: p, Dist: map[string]int{}, seen: map[uint64]bool{}, sigSeen: map[string]bool{}}
}

func (r *Result) finish() {}

// Count records one evaluated case; canonical is the canonical text of the input, nontrivial
// says whether it reaches the mechanism the property anchors (rule stated in r.Rule).
func (r *Result) Count(canonical string, nontrivial bool) {
	r.Evaluations++
	if !nontrivial {
		return
	}
	h := fnv.New64a()
	h.Write([]byte(canonical))
	k := h.Sum64()
	if !r.seen[k] {
		r.seen[k] = true
		r.Nontrivial++
	}
}

func (r *Result) Hit(key string) { r.Dist[key]++ }

func (r *Result) Sample(v any) {
	if len(r.Samples) < 5 {
		r.Samples = append(r.Samples, v)
	}
}

// Report records a finding once per signature and writes its replay file.
func (c *Ctx) Report(kind, sig, what, broken string, replay any) {
	if c.Res.sigSeen[kind+sig] {
		return
	}
	c.Res.sigSeen[kind+sig] = true
	h := sha256.Sum256([]byte(kind + sig))
	path := filepath.Join(c.Dir, fmt.Sprintf("%s-%s.json", kind, hex.EncodeToString(h[:6])))
	doc := map[string]any{"property": c.Prop, "kind": kind, "signature": sig, "what": what, "seed": c.Seed, "broken": broken, "case": replay}
	b, _ := json.MarshalIndent(doc, "", " ")
	os.WriteFile(path, b, 0o644)
	c.Res.Findings = append(c.Res.Findings, Finding{Kind: kind, Signature: sig, What: what, Replay: path, Broken: broken})
}

func (c *Ctx) Violation(sig, what string, replay any) { c.Report("violation", sig, what, "", replay) }
func (c *Ctx) Disagree(sig, what, broken string, replay any) {
	c.Report("disagreement", sig, what, broken, replay)
}

// LoadReplay reads the "case" member of a replay file into v.
func (c *Ctx) LoadReplay(v any) error {
	b, err := os.ReadFile(c.Replay)
	if err != nil {
		return err
	}
	var doc struct {
		Case json.RawMessage `json:"case"`
	}
	if err := json.Unmarshal(b, &doc); err != nil {
		return err
	}
	return json.Unmarshal(doc.Case, v)
}
