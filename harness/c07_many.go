//go:build verif

package main

// C07, many-sources stream: tuples with source / base lists around the fetch chunk limit (128) and
// its multiples.  The CLI's own flag set keeps only the last -base value, so these tuples are run
// in-process through the public plug-in API (driver.PProf with an own FlagSet / UI / Writer, file
// sources), one call after the other.  The oracle is the one of the small tuples: -proto weights
// and every -top / -traces entry equal the sum of the individual reports (source − base).

import (
	"bytes"
	"fmt"
	"io"
	"os"
	"path/filepath"
	"sort"
	"strings"

	"github.com/google/pprof/driver"
	"github.com/google/pprof/profile"
)

type c07Flags struct {
	bools   map[string]bool
	ints    map[string]int
	floats  map[string]float64
	strings map[string]string
	lists   map[string][]string
	args    []string
}

func (c07Flags) ExtraUsage() string      { return "" }
func (c07Flags) AddExtraUsage(eu string) {}
func (f c07Flags) Parse(func()) []string { return f.args }
func (f c07Flags) Bool(s string, d bool, c string) *bool {
	if v, ok := f.bools[s]; ok {
		return &v
	}
	return &d
}
func (f c07Flags) Int(s string, d int, c string) *int {
	if v, ok := f.ints[s]; ok {
		return &v
	}
	return &d
}
func (f c07Flags) Float64(s string, d float64, c string) *float64 {
	if v, ok := f.floats[s]; ok {
		return &v
	}
	return &d
}
func (f c07Flags) String(s, d, c string) *string {
	if v, ok := f.strings[s]; ok {
		return &v
	}
	return &d
}
func (f c07Flags) StringList(s, d, c string) *[]*string {
	out := []*string{}
	for _, v := range f.lists[s] {
		v := v
		out = append(out, &v)
	}
	return &out
}

type c07UI struct{ errs bytes.Buffer }

func (u *c07UI) ReadLine(string) (string, error)     { return "", io.EOF }
func (u *c07UI) Print(args ...interface{})           {}
func (u *c07UI) PrintErr(args ...interface{})        { fmt.Fprint(&u.errs, args...) }
func (u *c07UI) IsTerminal() bool                    { return false }
func (u *c07UI) WantBrowser() bool                   { return false }
func (u *c07UI) SetAutoComplete(func(string) string) {}

type c07Writer struct{ buf bytes.Buffer }
type c07WC struct{ *bytes.Buffer }

func (c07WC) Close() error                               { return nil }
func (w *c07Writer) Open(string) (io.WriteCloser, error) { return c07WC{&w.buf}, nil }

// c07PProf runs pprof in-process: cmd is "proto" | "top" | "traces".
func c07PProf(cmd string, cs *c07Case, srcs, bases []string) *c07Proc {
	f := c07Flags{
		bools:   map[string]bool{cmd: true},
		ints:    map[string]int{"nodecount": 1000000},
		floats:  map[string]float64{"nodefraction": 0, "edgefraction": 0},
		strings: map[string]string{"symbolize": "none", "output": "out", "sample_index": cs.Index, "unit": c07DisplayUnit(c07TypeFam(cs.Index))},
		lists:   map[string][]string{},
		args:    srcs,
	}
	switch cs.Gran {
	case "lines", "files", "addresses", "filefunctions":
		f.bools[cs.Gran] = true
	}
	if len(bases) > 0 {
		if cs.Mode == "diff_base" {
			f.lists["diff_base"] = bases
		} else {
			f.lists["base"] = bases
		}
	}
	w, ui := &c07Writer{}, &c07UI{}
	var err error
	pn := c07Safely(func() { err = driver.PProf(&driver.Options{Flagset: f, UI: ui, Writer: w}) })
	p := &c07Proc{Stdout: w.buf.Bytes(), Stderr: ui.errs.String()}
	if pn != "" {
		p.RC, p.Stderr = 2, "panic: "+pn
	} else if err != nil {
		p.RC, p.Stderr = 1, p.Stderr+" "+err.Error()
	}
	return p
}

// sizes around the chunk limit and its multiples
func c07ManySize(r *Rng) int {
	if r.Chance(10) {
		return 1 + r.Intn(2)
	}
	n := (1+r.Intn(3))*128 + r.Intn(5) - 2
	return n
}

func c07GenMany(r *Rng, i int) *c07Case {
	cs := &c07Case{Kind: "many", Stream: "many", Strategy: "many-sources"}
	// a few distinct tiny profiles (all values non-zero: outside the ScaleN known finding), repeated
	ntypes := 1 + r.Intn(2)
	tis := c07Perm(r, len(c07TypeUniverse))[:ntypes]
	g := &c07GenCtx{pool: [][]int{c07Stack(r), c07Stack(r), c07Stack(r)}, tags: []string{"a"}}
	mk := func() c07Prof {
		var ts []c07Type
		for _, k := range c07Perm(r, ntypes) {
			ti := c07TypeUniverse[tis[k]]
			ts = append(ts, c07Type{ti.name, c07PickUnit(r, ti)})
		}
		p := c07Prof{Types: ts, Build: r.Intn(2), IDs: r.Intn(3), Extra: r.Intn(7), Aslr: r.Intn(3)}
		for k, n := 0, 1+r.Intn(2); k < n; k++ {
			s := c07Sample{Stack: append([]int(nil), g.pool[r.Intn(len(g.pool))]...)}
			for range ts {
				s.Values = append(s.Values, 1+int64(r.Intn(40)))
			}
			p.Samples = append(p.Samples, s)
		}
		return p
	}
	for k, n := 0, 2+r.Intn(3); k < n; k++ {
		cs.Sources = append(cs.Sources, mk())
	}
	plan := func(n, distinct int) []int {
		out := make([]int, n)
		for k := range out {
			out[k] = r.Intn(distinct)
		}
		// the first and the last positions are the ones an off-by-one in the chunking loses
		out[n-1] = (out[0] + 1) % distinct
		return out
	}
	switch i % 4 {
	case 0:
		cs.Mode = "plain"
		cs.Plan = plan(c07ManySize(r), len(cs.Sources))
	case 1:
		cs.Mode = "base"
		cs.Plan = plan(c07ManySize(r), len(cs.Sources))
	case 2:
		cs.Mode = "diff_base"
		cs.Plan = plan(1+r.Intn(3), len(cs.Sources))
	default:
		cs.Mode = "base"
		cs.Plan = plan(c07ManySize(r), len(cs.Sources))
	}
	if cs.Mode != "plain" {
		cs.Strategy = "many-sources+bases"
		for k, n := 0, 2+r.Intn(2); k < n; k++ {
			b := mk()
			b.Build = 1 + r.Intn(2)
			cs.Bases = append(cs.Bases, b)
		}
		nb := c07ManySize(r)
		if i%4 == 1 {
			nb = 1 + r.Intn(2)
		}
		cs.BasePlan = plan(nb, len(cs.Bases))
	}
	cs.Index = cs.Sources[0].Types[r.Intn(ntypes)].Type
	return cs
}

// expanded: the tuple with every position of the plans written out
func (cs *c07Case) expanded() *c07Case {
	e := *cs
	e.Kind, e.Sources, e.Bases, e.Plan, e.BasePlan = "cli", nil, nil, nil, nil
	for _, k := range cs.Plan {
		e.Sources = append(e.Sources, cs.Sources[k%len(cs.Sources)])
	}
	for _, k := range cs.BasePlan {
		e.Bases = append(e.Bases, cs.Bases[k%len(cs.Bases)])
	}
	return &e
}

func (run *c07Run) checkMany(cs *c07Case, dir string) bool {
	c := run.c
	c.Res.Hit(fmt.Sprintf("many:%s:sources=%d,bases=%d", cs.Mode, len(cs.Plan), len(cs.BasePlan)))
	if len(cs.Sources) == 0 || len(cs.Plan) == 0 || (cs.Mode != "plain" && (len(cs.Bases) == 0 || len(cs.BasePlan) == 0)) {
		c.Res.HarnessError = "C07 many: malformed case"
		return false
	}
	nt := len(cs.Plan) > 128 || len(cs.BasePlan) > 128
	old, _ := os.Getwd()
	if err := os.Chdir(dir); err != nil {
		c.Res.HarnessError = err.Error()
		return false
	}
	defer os.Chdir(old)
	os.Setenv("PPROF_TMPDIR", filepath.Join(dir, "tmp"))
	write := func(prefix string, ps []c07Prof, plan []int, shift0 int) (files []string, single []string, ok bool) {
		blobs := make([][]byte, len(ps))
		for k := range ps {
			var buf bytes.Buffer
			if err := c07Build(&ps[k], shift0+k).Write(&buf); err != nil {
				return nil, nil, false
			}
			blobs[k] = buf.Bytes()
			name := fmt.Sprintf("%s-distinct%d.pb.gz", prefix, k)
			if os.WriteFile(name, blobs[k], 0o644) != nil {
				return nil, nil, false
			}
			single = append(single, name)
		}
		for pos, k := range plan {
			name := fmt.Sprintf("%s%03d.pb.gz", prefix, pos)
			if os.WriteFile(name, blobs[k%len(ps)], 0o644) != nil {
				return nil, nil, false
			}
			files = append(files, name)
		}
		return files, single, true
	}
	srcF, srcSingle, ok1 := write("src", cs.Sources, cs.Plan, 1)
	var baseF, baseSingle []string
	ok2 := true
	if cs.Mode != "plain" {
		baseF, baseSingle, ok2 = write("base", cs.Bases, cs.BasePlan, 5)
	}
	if !ok1 || !ok2 {
		c.Res.HarnessError = "C07 many: cannot write inputs"
		return false
	}
	e, serr := run.semantic(cs.expanded())
	if serr != nil {
		c.Res.HarnessError = "C07 many: " + serr.Error()
		return false
	}
	sig := func(s string) string { return "C07/many/" + cs.Mode + "/" + s }
	what := fmt.Sprintf("%d sources, %d bases: ", len(srcF), len(baseF))

	proto := c07PProf("proto", cs, srcF, baseF)
	if proto.RC != 0 {
		c.Violation(sig("refused"), what+"pprof fails: "+c07Trunc(proto.Stderr), cs)
		return nt
	}
	outP, err := profile.ParseData(proto.Stdout)
	if err != nil {
		c.Violation(sig("proto-unparsable"), what+err.Error(), cs)
		return nt
	}
	act, actBase, err := run.abstract(outP)
	if err != nil {
		c.Violation(sig("proto-foreign-content"), what+err.Error(), cs)
		return nt
	}
	var outTypes []string
	for _, t := range act.Types {
		outTypes = append(outTypes, t.Type)
	}
	if want := c07CommonTypes(e); strings.Join(outTypes, ",") != strings.Join(want, ",") {
		c.Violation(sig("types"), fmt.Sprintf("%sresult sample types %v, want %v", what, outTypes, want), cs)
		return nt
	}
	okDirect := true
	expW, actW := c07ExpectedW(e, outTypes, false), c07ActualW(act, actBase)
	if c07WStr(expW) != c07WStr(actW) {
		okDirect = false
		c.Violation(sig("weights"), what+"result is not the sum of ALL sources minus ALL bases per stack: want {"+c07Trunc(c07WStr(expW))+"} got {"+c07Trunc(c07WStr(actW))+"}", cs)
	}
	// report level: every -top / -traces entry = Σ over positions of the individual report
	topAllP, trAllP := c07PProf("top", cs, srcF, baseF), c07PProf("traces", cs, srcF, baseF)
	if topAllP.RC != 0 || trAllP.RC != 0 {
		c.Violation(sig("report-failed"), what+c07Trunc(topAllP.Stderr+trAllP.Stderr), cs)
		return nt
	}
	topAll := c07ParseTop(topAllP.Stdout)
	trAll, trBad := c07ParseTraces(trAllP.Stdout)
	if topAll.Bad != "" || trBad != "" {
		if okDirect {
			c.Violation(sig("report-unreadable"), what+topAll.Bad+trBad, cs)
		}
		return nt
	}
	expFlat, expCum, expTr := map[string]int64{}, map[string]int64{}, map[string]int64{}
	addIndiv := func(files []string, plan []int, n int, sign int64) bool {
		mult := make([]int64, n)
		for _, k := range plan {
			mult[k%n]++
		}
		for k, f := range files {
			if mult[k] == 0 {
				continue
			}
			tp, rp := c07PProf("top", &c07Case{Index: cs.Index, Gran: cs.Gran}, []string{f}, nil), c07PProf("traces", &c07Case{Index: cs.Index, Gran: cs.Gran}, []string{f}, nil)
			if tp.RC != 0 || rp.RC != 0 {
				return false
			}
			t := c07ParseTop(tp.Stdout)
			tr, b := c07ParseTraces(rp.Stdout)
			if t.Bad != "" || b != "" {
				return false
			}
			for nme, r := range t.Rows {
				expFlat[nme] += sign * mult[k] * r.Flat
				expCum[nme] += sign * mult[k] * r.Cum
			}
			for nme, v := range tr {
				expTr[nme] += sign * mult[k] * v
			}
		}
		return true
	}
	if !addIndiv(srcSingle, cs.Plan, len(cs.Sources), 1) || (cs.Mode != "plain" && !addIndiv(baseSingle, cs.BasePlan, len(cs.Bases), -1)) {
		c.Violation(sig("individual-report-failed"), what+"report of a single input fails", cs)
		return nt
	}
	names := map[string]bool{}
	for n := range expFlat {
		names[n] = true
	}
	for n := range topAll.Rows {
		names[n] = true
	}
	var ns []string
	for n := range names {
		ns = append(ns, n)
	}
	sort.Strings(ns)
	for _, n := range ns {
		if r := topAll.Rows[n]; (r.Flat != expFlat[n] || r.Cum != expCum[n]) && okDirect {
			okDirect = false
			c.Violation(sig("top-entry"), fmt.Sprintf("%s-top entry %s: flat %d cum %d, sum of the individual reports: flat %d cum %d", what, n, r.Flat, r.Cum, expFlat[n], expCum[n]), cs)
		}
	}
	for n := range trAll {
		if _, ok := expTr[n]; !ok {
			expTr[n] = 0
		}
	}
	for n, v := range expTr {
		if trAll[n] != v && okDirect {
			okDirect = false
			c.Violation(sig("traces-entry"), fmt.Sprintf("%s-traces stack %q: %d, sum of the individual reports %d", what, n, trAll[n], v), cs)
		}
	}
	// model (Lean fetch on the written-out lists)
	c.Res.ModelCompared++
	cls, mr := c07Reply(c07AskFetch(c, e, false))
	if cls != "ok" {
		if okDirect {
			c.Disagree("C07/model/many-fetch-"+cls, what+"the model refuses the tuple", "correspondence Combine.fetch ~ fetchProfiles (chunkedGrab)", cs)
		}
		return nt
	}
	mp := mr.tprof()
	if cm, ca := c07CanonSamples(mp.Samples, true), c07CanonSamples(c07MSamples(act.Samples, actBase), true); cm != ca && okDirect {
		c.Disagree("C07/model/many-fetch", what+"merged result differs from the model: model {"+c07Trunc(cm)+"} pprof {"+c07Trunc(ca)+"}", "theorem combine_report_eq_sum (arbitrary list length) / correspondence Combine.fetch ~ fetchProfiles (chunkedGrab)", cs)
	}
	return nt
}
