//go:build verif

package main

import (
	"bytes"
	"encoding/hex"
	"fmt"
	"strings"

	"github.com/google/pprof/profile"
)

func init() { register("C01", runC01) }

type c01Case struct {
	Profile string `json:"profile,omitempty"` // canonical token form
	Bytes   string `json:"bytes,omitempty"`   // hex, for the accepted-bytes stream
}

// safely runs f, converting a panic into an error string.
func safely(f func()) (panicked string) {
	defer func() {
		if e := recover(); e != nil {
			panicked = fmt.Sprint(e)
		}
	}()
	f()
	return ""
}

func writeU(p *profile.Profile) ([]byte, string) {
	var buf bytes.Buffer
	pn := safely(func() { p.WriteUncompressed(&buf) })
	return buf.Bytes(), pn
}

func c01Profile(c *Ctx, canonIn string) {
	p, err := ParseCanon(canonIn)
	if err != nil {
		c.Res.HarnessError = "ParseCanon: " + err.Error()
		return
	}
	cs := c01Case{Profile: canonIn}
	expected := c.Drv.Ask("codec.normalize " + canonIn)
	goBytes, pn := writeU(p)
	if pn != "" {
		c.Violation("C01/write/panic", "WriteUncompressed panics on a valid profile: "+pn, cs)
		return
	}
	if Canon(p) != canonIn {
		c.Violation("C01/write/mutates-input", "WriteUncompressed changed exported fields of its argument", cs)
	}
	q, err := profile.ParseUncompressed(goBytes)
	if err != nil {
		c.Violation("C01/roundtrip/parse-error", "parse(write(p)) fails: "+err.Error(), cs)
		return
	}
	canonQ := Canon(q)
	if canonQ != expected {
		c.Violation("C01/roundtrip/"+diffField(canonQ, expected), "parse(write(p)) differs from normalize(p)", cs)
	}
	// gzip path
	var zb bytes.Buffer
	if pn := safely(func() { p.Write(&zb) }); pn != "" {
		c.Violation("C01/writegz/panic", pn, cs)
	} else if qz, err := profile.Parse(&zb); err != nil {
		// Parse also runs CheckValid; generated profiles are valid
		c.Violation("C01/roundtrip-gz/parse-error", err.Error(), cs)
	} else if Canon(qz) != expected {
		c.Violation("C01/roundtrip-gz/"+diffField(Canon(qz), expected), "Parse(Write(p)) differs from normalize(p)", cs)
	}
	// fixpoint
	b2, _ := writeU(q)
	if q2, err := profile.ParseUncompressed(b2); err != nil {
		c.Violation("C01/fixpoint/parse-error", err.Error(), cs)
	} else {
		if Canon(q2) != canonQ {
			c.Violation("C01/fixpoint/profile", "write-then-parse of a parser result is not the identity", cs)
		}
		b3, _ := writeU(q2)
		if !bytes.Equal(b2, b3) {
			c.Violation("C01/fixpoint/bytes", "re-serialization is not byte-identical", cs)
		}
	}
	// Copy
	var cp *profile.Profile
	if pn := safely(func() { cp = p.Copy() }); pn != "" {
		c.Violation("C01/copy/panic", pn, cs)
	} else if Canon(cp) != expected {
		c.Violation("C01/copy/"+diffField(Canon(cp), expected), "Copy differs from normalize(p)", cs)
	}
	// correspondence, both directions
	c.Res.ModelCompared++
	ms := c.Drv.Ask("codec.serialize " + canonIn)
	if !strings.HasPrefix(ms, "ok x") {
		c.Disagree("C01/model-serialize/"+firstWord(ms), "model serialize does not return bytes: "+trunc(ms), "correspondence Codec.serialize ~ Profile.WriteUncompressed", cs)
	} else {
		mb, _ := hex.DecodeString(ms[4:])
		if bytes.Equal(mb, goBytes) {
			c.Res.Hit("bytes-identical")
		} else {
			c.Res.Hit("bytes-differ")
		}
		if qm, err := profile.ParseUncompressed(mb); err != nil || Canon(qm) != expected {
			c.Disagree("C01/go-parse-of-model-bytes", "Go parser on the model's bytes does not give normalize(p)", "correspondence Codec.serialize ~ Profile.WriteUncompressed", cs)
		}
	}
	mp := c.Drv.Ask("codec.parse " + hexTok(goBytes))
	if mp != "ok "+expected {
		c.Disagree("C01/model-parse-of-go-bytes/"+firstWord(mp), "model parser on Go's bytes does not give normalize(p): "+trunc(mp), "theorem decode_encode / correspondence Codec.parseUncompressed ~ ParseUncompressed", cs)
	}
}

// c01Bytes: reading (2) of the property, on a byte string the parser accepts.
func c01Bytes(c *Ctx, b []byte) bool {
	cs := c01Case{Bytes: hex.EncodeToString(b)}
	var p *profile.Profile
	var err error
	if pn := safely(func() { p, err = profile.ParseData(b) }); pn != "" {
		c.Violation("C01/parse/panic", pn, cs) // also C02's business
		return false
	}
	if err != nil {
		return false
	}
	canonP := Canon(p)
	b1, pn := writeU(p)
	if pn != "" {
		c.Violation("C01/accepted/write-panic", pn, cs)
		return true
	}
	p2, err := profile.ParseUncompressed(b1)
	if err != nil {
		c.Violation("C01/accepted/reparse-error", err.Error(), cs)
		return true
	}
	if Canon(p2) != canonP {
		c.Violation("C01/accepted/"+diffField(Canon(p2), canonP), "a parser result does not survive write-then-parse unchanged", cs)
	}
	b2, _ := writeU(p2)
	if !bytes.Equal(b1, b2) {
		c.Violation("C01/accepted/bytes", "a parser result does not re-serialize to identical bytes", cs)
	}
	// model agrees on uncompressed protobuf input
	if len(b) > 0 && !(len(b) >= 2 && b[0] == 0x1f && b[1] == 0x8b) {
		if q, err := profile.ParseUncompressed(b); err == nil {
			c.Res.ModelCompared++
			mp := c.Drv.Ask("codec.parse " + hexTok(b))
			if mp != "ok "+Canon(q) {
				c.Disagree("C01/model-parse-bytes/"+firstWord(mp), "model and Go parser differ on accepted bytes", "correspondence Codec.parseUncompressed ~ ParseUncompressed", cs)
			}
		}
	}
	return true
}

func firstWord(s string) string {
	if i := strings.IndexByte(s, ' '); i >= 0 {
		return s[:i]
	}
	return s
}
func trunc(s string) string {
	if len(s) > 200 {
		return s[:200] + "…"
	}
	return s
}

// diffField names the section of the canonical form where two profiles first differ, to make
// signatures specific (sampleType / sample / mapping / location / function / header).
func diffField(a, b string) string {
	pa, ea := ParseCanon(a)
	pb, eb := ParseCanon(b)
	if ea != nil || eb != nil {
		return "unparsable"
	}
	sec := func(f func(*tw, *profile.Profile)) bool {
		var x, y tw
		f(&x, pa)
		f(&y, pb)
		return x.String() != y.String()
	}
	switch {
	case sec(func(w *tw, p *profile.Profile) {
		for _, s := range p.SampleType {
			w.valueType(s)
		}
		w.n(len(p.SampleType))
	}):
		return "sampleType"
	case len(pa.Sample) != len(pb.Sample):
		return "sample-count"
	case sec(func(w *tw, p *profile.Profile) {
		for _, s := range p.Sample {
			w.n(len(s.Value))
			for _, v := range s.Value {
				w.int(v)
			}
		}
	}):
		return "sample-values"
	case sec(func(w *tw, p *profile.Profile) {
		for _, s := range p.Sample {
			w.n(len(s.Location))
			for _, l := range s.Location {
				if l != nil {
					w.nat(l.ID)
				} else {
					w.nat(0)
				}
			}
		}
	}):
		return "sample-locations"
	case sec(func(w *tw, p *profile.Profile) {
		for _, s := range p.Sample {
			w.sample(s)
		}
	}):
		return "sample-labels"
	case sec(func(w *tw, p *profile.Profile) { q := *p; q.Sample = nil; q.Location = nil; q.Function = nil; w.profile(&profile.Profile{Mapping: q.Mapping}) }):
		return "mapping"
	case sec(func(w *tw, p *profile.Profile) { w.profile(&profile.Profile{Location: p.Location}) }):
		return "location"
	case sec(func(w *tw, p *profile.Profile) { w.profile(&profile.Profile{Function: p.Function}) }):
		return "function"
	}
	return "header"
}

var c01Strategies = []struct {
	name string
	o    GenOpts
}{
	{"plain", GenOpts{Labels: true, Header: true}},
	{"sparse-ids", GenOpts{SparseIDs: true, Labels: true, Header: true, MaxLocs: 14, MaxFuncs: 10}},
	{"weird-strings", GenOpts{WeirdStrings: true, Labels: true, Header: true}},
	{"extreme", GenOpts{ExtremeValues: true, SparseIDs: true, Labels: true, Header: true, MaxSampleTypes: 5, AllowNoTypes: true}},
	{"shapes", GenOpts{EmptyStacks: true, MaxLines: 5, MaxDepth: 12, MaxSamples: 30, Labels: true, WeirdStrings: true}},
}

func runC01(c *Ctx) {
	c.Res.Rule = "structured valid profiles from 5 strategies (plain, sparse/huge ids, weird strings, extreme ints, shapes) + mutated accepted byte strings; non-trivial = has ≥1 sample with ≥1 location having ≥1 line (profile stream) or accepted by the parser with ≥1 sample (byte stream); distinct by canonical text"
	if c.Replay != "" {
		var cs c01Case
		if err := c.LoadReplay(&cs); err != nil {
			c.Res.HarnessError = err.Error()
			return
		}
		if cs.Profile != "" {
			c01Profile(c, cs.Profile)
		} else {
			b, _ := hex.DecodeString(cs.Bytes)
			c01Bytes(c, b)
		}
		c.Res.Evaluations++
		return
	}
	r := NewRng(c.Seed)
	n := 400 * c.Scale
	for i := 0; i < n; i++ {
		st := c01Strategies[i%len(c01Strategies)]
		p := GenProfile(r, &st.o)
		canon := Canon(p)
		nt := false
		for _, s := range p.Sample {
			for _, l := range s.Location {
				if len(l.Line) > 0 {
					nt = true
				}
			}
		}
		c.Res.Count(canon, nt)
		c.Res.Hit("strategy:" + st.name)
		if i < 2 {
			c.Res.Sample(map[string]string{"strategy": st.name, "shape": describe(p), "profile": trunc(canon)})
		}
		c01Profile(c, canon)
		// byte stream: mutate the valid encoding
		b, _ := writeU(p)
		for k := 0; k < 3; k++ {
			mb := mutateBytes(r, b)
			acc := c01Bytes(c, mb)
			if acc {
				c.Res.Hit("mutated-accepted")
			} else {
				c.Res.Hit("mutated-rejected")
			}
			c.Res.Count("b:"+hex.EncodeToString(mb), acc)
		}
	}
}
